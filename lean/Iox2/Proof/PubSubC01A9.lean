/-
Layer A: a sample is received / released; the subscriber's shared state is dropped.
-/
import Iox2.Proof.PubSubC01A8
import Iox2.Proof.PubSubC01Recv
namespace Iox2.PubSub.C01P
open Iox2.PubSub
open Iox2.C16.SlotMapP (abs WInv)

variable {cfg : Cfg} {np ns : Option Nat} {w : World}

/-- the receiver pops the head of a submission queue and records the sample -/
theorem InvA.recvStep (h : InvA cfg np ns w) {s p ch q b : Nat} {S S' : Sub} {c : Conn} {rest : List (Nat × Nat)}
    {hd : Held}
    (hS : getS w s = some S) (hC : getC w p s = some c) (hsub : c.sub = (ch, q) :: rest)
    (hpid : hd.pid = p) (hseq : hd.seq = q) (hnp : some p ≠ np)
    (ha : S'.alive = S.alive) (he : S'.ex = S.ex) (hsl : S'.slot = S.slot) (hb : S'.buffer = S.buffer)
    (hst : S'.storage = S.storage) (hheld : S'.held = S.held ++ [hd])
    (hgr : S'.ghostRecv = S.ghostRecv ++ [(p, q)]) :
    InvA cfg np ns (setS (setC w { c with sub := rest, borrow := b, gReceived := c.gReceived ++ [q] }) s S') := by
  obtain ⟨hcm, hcp, hcs⟩ := getC_some hC
  generalize hx : ({ c with sub := rest, borrow := b, gReceived := c.gReceived ++ [q] } : Conn) = x
  have hxp : x.pid = p := by rw [← hx]; exact hcp
  have hxs : x.sid = s := by rw [← hx]; exact hcs
  have hxa : x.sAtt = c.sAtt := by rw [← hx]
  have hxr : x.rAtt = c.rAtt := by rw [← hx]
  have hxg : x.gReceived = c.gReceived ++ [q] := by rw [← hx]
  have hxl : ConnLog cfg.overflow x := by rw [← hx]; exact (h.clog c hcm).recv hsub b
  have hCx : getC w x.pid x.sid = some c := by rw [hxp, hxs]; exact hC
  have key : ∀ a Q, getS (setS (setC w x) s S') a = some Q →
      (a = s ∧ Q = S') ∨ (a ≠ s ∧ getS w a = some Q) := by
    intro a Q hq
    rw [getS_setS] at hq
    by_cases hap : a = s
    · subst hap
      simp only [if_true, getS_setC, hS, Option.map_some, Option.some.injEq] at hq
      exact Or.inl ⟨rfl, hq.symm⟩
    · rw [if_neg hap] at hq
      exact Or.inr ⟨hap, hq⟩
  have key2 : ∀ a Q0, getS w a = some Q0 →
      ∃ Q, getS (setS (setC w x) s S') a = some Q ∧
        Q.alive = Q0.alive ∧ Q.ex = Q0.ex ∧ Q.slot = Q0.slot ∧ Q.buffer = Q0.buffer ∧ Q.storage = Q0.storage := by
    intro a Q0 hq
    rw [getS_setS]
    by_cases hap : a = s
    · subst hap
      rw [hS] at hq; cases hq
      exact ⟨S', by simp [hS], ha, he, hsl, hb, hst⟩
    · rw [if_neg hap]
      exact ⟨Q0, hq, rfl, rfl, rfl, rfl, rfl⟩
  have hmem : ∀ cn ∈ (setC w x).conns, cn = x ∨ (cn ∈ w.conns ∧ ¬ (cn.pid = p ∧ cn.sid = s)) := by
    intro cn hcn
    rcases mem_setC hcn with ⟨rfl, _⟩ | ⟨hm, hne⟩
    · exact Or.inl rfl
    · rw [hxp, hxs] at hne; exact Or.inr ⟨hm, hne⟩
  have hget : ∀ a b' cn0, getC w a b' = some cn0 →
      ∃ cn, getC (setC w x) a b' = some cn ∧ cn.sAtt = cn0.sAtt := by
    intro a b' cn0 h0
    rw [getC_setC]
    by_cases hab : a = x.pid ∧ b' = x.sid
    · obtain ⟨rfl, rfl⟩ := hab
      rw [hCx] at h0; cases h0
      exact ⟨x, by simp [hCx], hxa⟩
    · rw [if_neg hab]; exact ⟨cn0, h0, rfl⟩
  constructor
  · exact h.cfgEq
  · exact h.uniqC.setC
  · exact h.sregLen
  · exact h.preg
  · intro i e hi
    obtain ⟨h1, Q0, h2, h3, h4, h5⟩ := h.sreg i e hi
    obtain ⟨Q, hq, e1, e2, e3, e4, _⟩ := key2 _ Q0 h2
    exact ⟨h1, Q, hq, e1 ▸ h3, e3 ▸ h4, e4 ▸ h5⟩
  · exact h.palive
  · intro a Q hq hal
    rcases key a Q hq with ⟨rfl, rfl⟩ | ⟨_, h0⟩
    · rw [he, hsl]; exact h.salive a S hS (ha ▸ hal)
    · exact h.salive a Q h0 hal
  · intro a Q hq
    rcases key a Q hq with ⟨rfl, rfl⟩ | ⟨_, h0⟩
    · rw [hb]; exact h.sbuf a S hS
    · exact h.sbuf a Q h0
  · intro a Q hq
    obtain ⟨h1, h2⟩ := h.pconns a Q hq
    refine ⟨h1, fun i b' hi => ?_⟩
    obtain ⟨h3, Q0, h0, h4⟩ := h2 i b' hi
    obtain ⟨Q', hq', e1, e2, e3, _⟩ := key2 _ Q0 h0
    exact ⟨h3, Q', hq', e3 ▸ h4⟩
  · intro cn hcn
    simp only [setS_conns] at hcn
    have : (∃ P, getP w cn.pid = some P) ∧ ∃ S0, getS w cn.sid = some S0 := by
      rcases hmem cn hcn with rfl | ⟨hm, _⟩
      · rw [hxp, hxs, ← hcp, ← hcs]; exact h.ends c hcm
      · exact h.ends cn hm
    obtain ⟨hP, ⟨Q0, h0⟩⟩ := this
    obtain ⟨Q, hq, _⟩ := key2 _ Q0 h0
    exact ⟨hP, ⟨Q, hq⟩⟩
  · intro cn hcn hra
    simp only [setS_conns] at hcn
    have : ∃ S0, getS w cn.sid = some S0 ∧ S0.ex = true ∧ ∃ k, abs S0.storage k = some cn.pid := by
      rcases hmem cn hcn with rfl | ⟨hm, _⟩
      · rw [hxp, hxs, ← hcp, ← hcs]; exact h.a1 c hcm (hxr ▸ hra)
      · exact h.a1 cn hm hra
    obtain ⟨Q0, h0, h1, h2⟩ := this
    obtain ⟨Q, hq, e1, e2, e3, e4, e5⟩ := key2 _ Q0 h0
    exact ⟨Q, hq, e2 ▸ h1, e5 ▸ h2⟩
  · intro a Q hq
    rcases key a Q hq with ⟨rfl, rfl⟩ | ⟨_, h0⟩
    · rw [hst]; exact h.stor a S hS
    · exact h.stor a Q h0
  · intro cn hcn hsa
    simp only [setS_conns] at hcn
    rcases hmem cn hcn with rfl | ⟨hm, _⟩
    · rw [hxp, hxs, ← hcp, ← hcs]; exact h.a2 c hcm (hxa ▸ hsa)
    · exact h.a2 cn hm hsa
  · intro a P hP hex i b' hi
    obtain ⟨cn0, h3, h4⟩ := h.a2c a P hP hex i b' hi
    obtain ⟨cn, h5, h6⟩ := hget a b' cn0 h3
    exact ⟨cn, h5, h6 ▸ h4⟩
  · intro cn hcn
    simp only [setS_conns] at hcn
    rcases hmem cn hcn with rfl | ⟨hm, _⟩
    · rw [hxa, hxr]; exact h.a3 c hcm
    · exact h.a3 cn hm
  · intro cn hcn hsa P Q hP hq hex hal
    simp only [setS_conns] at hcn
    rcases hmem cn hcn with rfl | ⟨hm, _⟩
    · exfalso
      have hQ : getS w c.sid = some S ∧ S.alive = true := by
        rcases key _ Q hq with ⟨_, rfl⟩ | ⟨hap, _⟩
        · exact ⟨hcs ▸ hS, ha ▸ hal⟩
        · exact absurd hxs hap
      have := (h.virg c hcm (hxa ▸ hsa) P S (by rw [hcp, ← hxp]; exact hP) hQ.1 hex hQ.2).sub
      rw [hsub] at this; cases this
    · rcases key _ Q hq with ⟨hap, rfl⟩ | ⟨_, h0⟩
      · exact h.virg cn hm hsa P S hP (hap ▸ hS) hex (ha ▸ hal)
      · exact h.virg cn hm hsa P Q hP h0 hex hal
  · intro a Q hq hal e hemem P hP hPa
    rcases key _ Q hq with ⟨rfl, rfl⟩ | ⟨_, h0⟩
    · rw [hgr] at hemem
      rcases List.mem_append.mp hemem with h1 | h1
      · obtain ⟨cn0, h3⟩ := h.k2 a S hS (ha ▸ hal) e h1 P hP hPa
        obtain ⟨cn, h5, _⟩ := hget _ _ cn0 h3
        exact ⟨cn, h5⟩
      · simp only [List.mem_singleton] at h1
        subst h1
        obtain ⟨cn, h5, _⟩ := hget _ _ c hC
        exact ⟨cn, h5⟩
    · obtain ⟨cn0, h3⟩ := h.k2 a Q h0 hal e hemem P hP hPa
      obtain ⟨cn, h5, _⟩ := hget _ _ cn0 h3
      exact ⟨cn, h5⟩
  · intro cn hcn Q hq
    simp only [setS_conns] at hcn
    rcases hmem cn hcn with rfl | ⟨hm, hne⟩
    · rcases key _ Q hq with ⟨_, rfl⟩ | ⟨hap, _⟩
      · have := h.l3 c hcm S (hcs ▸ hS)
        rw [hcp] at this
        rw [hgr, hxp, hxg, List.filter_append, List.map_append, this]
        simp
      · exact absurd hxs hap
    · rcases key _ Q hq with ⟨hap, rfl⟩ | ⟨_, h0⟩
      · have := h.l3 cn hm S (hap ▸ hS)
        have hnp : cn.pid ≠ p := fun hh => hne ⟨hh, hap⟩
        simp only [hgr, List.filter_append, List.map_append, this]
        have : (List.filter (fun x => decide (x.1 = cn.pid)) [(p, q)]) = [] := by
          simp [hnp.symm]
        rw [this]; simp
      · exact h.l3 cn hm Q h0
  · intro a Q hq x hx
    rcases key _ Q hq with ⟨rfl, rfl⟩ | ⟨_, h0⟩
    · rw [hheld] at hx; rw [hgr]
      rcases List.mem_append.mp hx with h1 | h1
      · exact List.mem_append_left _ (h.l4 a S hS x h1)
      · simp only [List.mem_singleton] at h1
        subst h1
        rw [hpid, hseq]; simp
    · exact h.l4 a Q h0 x hx
  · intro cn hcn
    simp only [setS_conns] at hcn
    rcases hmem cn hcn with rfl | ⟨hm, _⟩
    · exact hxl
    · exact h.clog cn hm
  · intro a Q hq e hemem
    rcases key _ Q hq with ⟨rfl, rfl⟩ | ⟨_, h0⟩
    · rw [hgr] at hemem
      rcases List.mem_append.mp hemem with h1 | h1
      · exact h.gr a S hS e h1
      · simp only [List.mem_singleton] at h1
        subst h1
        obtain ⟨⟨P, hP⟩, _⟩ := h.ends c hcm
        rw [hcp] at hP
        exact ⟨hnp, P, hP⟩
    · exact h.gr a Q h0 e hemem

/-- a held sample is dropped: it leaves `held` and (if its connection is still known) goes to the
completion queue -/
theorem InvA.releaseStep (h : InvA cfg np ns w) {s k : Nat} {S : Sub} {hd : Held}
    (hS : getS w s = some S) (hk : S.held[k]? = some hd) :
    InvA cfg np ns (subRelease (setS w s { S with held := S.held.eraseIdx k }) s hd) := by
  have hmemh : hd ∈ S.held := List.mem_of_getElem? hk
  have h1 : InvA cfg np ns (setS w s { S with held := S.held.eraseIdx k }) :=
    h.setS_gen hS rfl id (fun hx => (h.salive s S hS hx).1) rfl rfl rfl
      (fun x hx => List.mem_of_mem_eraseIdx hx) (h.stor s S hS).1 (fun _ _ hk' => hk')
      (fun cn hcn hcs hra => by
        obtain ⟨Q, hQ, hex, hk'⟩ := h.a1 cn hcn hra
        rw [hcs, hS] at hQ; cases hQ
        exact ⟨hex, hk'⟩)
  unfold Iox2.PubSub.subRelease
  rw [getS_setS_self _ hS]
  simp only
  cases hg : smGet S.storage hd.key with
  | none => exact h1
  | some p =>
    simp only
    split
    · exact h1
    · rename_i hpp
      simp only [ne_eq, Decidable.not_not] at hpp
      cases hC : getC w p s with
      | none => simp only [getC_setS, hC]; exact h1
      | some c =>
        simp only [getC_setS, hC]
        split
        · obtain ⟨hcm, hcp, hcs⟩ := getC_some hC
          refine h1.setC_same (c := c) (by simp only [getC_setS, hcp, hcs]; exact hC) rfl rfl rfl
            ((h.clog c hcm).congr rfl rfl rfl rfl rfl rfl) ?_
          intro _ hv
          exfalso
          have hl3 := h.l3 c hcm S (hcs ▸ hS)
          rw [hv.recv, hcp] at hl3
          have := h.l4 s S hS hd hmemh
          exact filter_map_nil_of_virgin hl3 this hpp.symm
        · exact h1

/-! ### the shared state of a subscriber is dropped -/

theorem InvA.subDestroyKeys_aux (h : InvA cfg np ns w) (s : Nat) (l : List (Nat × Nat))
    (hatt : ∀ cn ∈ w.conns, cn.sid = s → cn.rAtt = true → ∃ k, (k, cn.pid) ∈ l) :
    InvA cfg np ns (subDestroyKeys w s l) ∧
    ∀ cn ∈ (subDestroyKeys w s l).conns, cn.sid = s → cn.rAtt = false := by
  induction l generalizing w with
  | nil =>
    refine ⟨h, fun cn hcn hs => ?_⟩
    cases hra : cn.rAtt with
    | false => rfl
    | true => obtain ⟨k, hk⟩ := hatt cn hcn hs hra; cases hk
  | cons x r ih =>
    obtain ⟨k0, p⟩ := x
    show InvA cfg np ns (Iox2.PubSub.subDestroyKeys (Iox2.PubSub.detachReceiver w p s) s r) ∧ _
    refine ih (h.detachReceiver p s) (fun cn hcn hs hra => ?_)
    rcases mem_detachReceiver hcn with ⟨hm, hne⟩ | ⟨c, _, _, rfl⟩ | ⟨hm, hn⟩
    · obtain ⟨k, hk⟩ := hatt cn hm hs hra
      rcases List.mem_cons.mp hk with h2 | h2
      · cases h2; exact absurd ⟨rfl, hs⟩ hne
      · exact ⟨k, h2⟩
    · cases hra
    · obtain ⟨k, hk⟩ := hatt cn hm hs hra
      rcases List.mem_cons.mp hk with h2 | h2
      · cases h2; exact absurd ⟨rfl, hs⟩ (getC_none hn cn hm)
      · exact ⟨k, h2⟩

theorem abs_mem_items {m : SlotMap.St Nat} {k p : Nat} (h : abs m k = some p) : (k, p) ∈ SlotMap.items m := by
  rw [Iox2.C16.SlotMapP.mem_items]
  refine ⟨?_, h⟩
  unfold abs at h
  cases Nat.lt_or_ge k m.idxToData.length with
  | inl hlt => exact hlt
  | inr hge =>
    rw [List.getD_eq_getElem?_getD, List.getElem?_eq_none hge] at h
    simp at h

theorem InvA.attached_items (h : InvA cfg np ns w) {s : Nat} {S : Sub} (hS : getS w s = some S) :
    ∀ cn ∈ w.conns, cn.sid = s → cn.rAtt = true → ∃ k, (k, cn.pid) ∈ SlotMap.items S.storage := by
  intro cn hcn hs hra
  obtain ⟨Q, hQ, _, k, hk⟩ := h.a1 cn hcn hra
  rw [hs, hS] at hQ; cases hQ
  exact ⟨k, abs_mem_items hk⟩

theorem InvA.subDestroyIfUnreferenced (h : InvA cfg np ns w) (s : Nat) :
    InvA cfg np ns (subDestroyIfUnreferenced w s) := by
  unfold Iox2.PubSub.subDestroyIfUnreferenced
  cases hS : getS w s with
  | none => exact h
  | some S =>
    simp only
    split
    · exact h
    · rename_i hc
      simp only [Bool.or_eq_true, Bool.not_eq_true', not_or, Bool.not_eq_false] at hc
      obtain ⟨⟨hal, _⟩, _⟩ := hc
      simp only [Bool.not_eq_true] at hal
      obtain ⟨h1, h2⟩ := h.subDestroyKeys_aux s (SlotMap.items S.storage) (h.attached_items hS)
      obtain ⟨f1, f2⟩ := subDestroyKeys_frame w s (SlotMap.items S.storage)
      have hS1 : getS (Iox2.PubSub.subDestroyKeys w s (SlotMap.items S.storage)) s = some S := by
        unfold getS; rw [f2]; exact hS
      refine h1.setS_gen hS1 rfl (fun hx => by cases hx) (fun hx => by simp only at hx; rw [hal] at hx; cases hx)
        rfl rfl rfl (fun x hx => hx) (Iox2.C16.SlotMapP.winv_init 0) ?_ ?_
      · intro k p' hk
        simp only [Iox2.C16.SlotMapP.abs_init] at hk
        cases hk
      · intro cn hcn hcs hra
        rw [h2 cn hcn hcs] at hra; cases hra

end Iox2.PubSub.C01P
