/-
The invariant of the event-port model and its preservation by every building block of `step`.
-/
import Iox2.Proof.EventPortsReg
namespace Iox2.EventPorts

@[simp] theorem setL_liss (w : World) (l : Nat) (x : Lis) (a : Nat) : (setL w l x).liss a = if a = l then some x else w.liss a := rfl
@[simp] theorem setL_nots (w : World) (l : Nat) (x : Lis) : (setL w l x).nots = w.nots := rfl
@[simp] theorem setL_hist (w : World) (l : Nat) (x : Lis) : (setL w l x).hist = w.hist := rfl
@[simp] theorem setL_cfg (w : World) (l : Nat) (x : Lis) : (setL w l x).cfg = w.cfg := rfl
@[simp] theorem setL_lisReg (w : World) (l : Nat) (x : Lis) : (setL w l x).lisReg = w.lisReg := rfl
@[simp] theorem setL_notReg (w : World) (l : Nat) (x : Lis) : (setL w l x).notReg = w.notReg := rfl
@[simp] theorem setL_parts (w : World) (l : Nat) (x : Lis) : (setL w l x).parts = w.parts := rfl
@[simp] theorem setL_partKeys (w : World) (l : Nat) (x : Lis) : (setL w l x).partKeys = w.partKeys := rfl
@[simp] theorem setN_nots (w : World) (n : Nat) (x : Noti) (a : Nat) : (setN w n x).nots a = if a = n then some x else w.nots a := rfl
@[simp] theorem setN_liss (w : World) (n : Nat) (x : Noti) : (setN w n x).liss = w.liss := rfl
@[simp] theorem setN_hist (w : World) (n : Nat) (x : Noti) : (setN w n x).hist = w.hist := rfl
@[simp] theorem setN_cfg (w : World) (n : Nat) (x : Noti) : (setN w n x).cfg = w.cfg := rfl
@[simp] theorem setN_lisReg (w : World) (n : Nat) (x : Noti) : (setN w n x).lisReg = w.lisReg := rfl
@[simp] theorem setN_notReg (w : World) (n : Nat) (x : Noti) : (setN w n x).notReg = w.notReg := rfl
@[simp] theorem setN_parts (w : World) (n : Nat) (x : Noti) : (setN w n x).parts = w.parts := rfl
@[simp] theorem setN_partKeys (w : World) (n : Nat) (x : Noti) : (setN w n x).partKeys = w.partKeys := rfl
@[simp] theorem setP_parts (w : World) (k : Nat) (x : Part) (a : Nat) : (setP w k x).parts a = if a = k then some x else w.parts a := rfl
@[simp] theorem setP_liss (w : World) (k : Nat) (x : Part) : (setP w k x).liss = w.liss := rfl
@[simp] theorem setP_nots (w : World) (k : Nat) (x : Part) : (setP w k x).nots = w.nots := rfl
@[simp] theorem setP_hist (w : World) (k : Nat) (x : Part) : (setP w k x).hist = w.hist := rfl
@[simp] theorem setP_cfg (w : World) (k : Nat) (x : Part) : (setP w k x).cfg = w.cfg := rfl
@[simp] theorem setP_lisReg (w : World) (k : Nat) (x : Part) : (setP w k x).lisReg = w.lisReg := rfl
@[simp] theorem setP_notReg (w : World) (k : Nat) (x : Part) : (setP w k x).notReg = w.notReg := rfl
@[simp] theorem setP_partKeys (w : World) (k : Nat) (x : Part) : (setP w k x).partKeys = w.partKeys := rfl

/-- the registry slot a listener holds -/
def lisOwn (w : World) (l : Nat) : Option Nat :=
  match w.liss l with
  | some L => if L.st = .gone then none else some L.slot
  | none => none

def notOwn (w : World) (n : Nat) : Option Nat :=
  match w.nots n with
  | some N => if N.st = .gone then none else some N.slot
  | none => none

/-- the listener object exists -/
def isAlive (w : World) (l : Nat) : Prop := ∃ L, w.liss l = some L ∧ L.st = .alive

/-- the notifier's connections agree with the listener registry: connected to every registered live listener, to nothing unregistered -/
structure Synced (w : World) (N : Noti) : Prop where
  all : ∀ (i l : Nat), w.lisReg.slots[i]? = some (some l) → isAlive w l → N.conns[i]? = some (some l)
  only : ∀ (i l : Nat), N.conns[i]? = some (some l) → w.lisReg.slots[i]? = some (some l)

structure Inv (w : World) : Prop where
  lis : RegOK w.lisReg (lisOwn w)
  lisLen : w.lisReg.slots.length = w.cfg.maxLis
  nots : RegOK w.notReg (notOwn w)
  notLen : w.notReg.slots.length = w.cfg.maxNot
  sync : ∀ n N, w.nots n = some N → N.st = .alive →
    N.snapCtr ≤ w.lisReg.counter ∧ (N.snapCtr = w.lisReg.counter → Synced w N)
  pend : ∀ l L, w.liss l = some L →
    L.mark ≤ w.hist.length ∧ (∀ id ∈ L.pending, id ≤ w.cfg.idMax ∧ id ∈ w.hist.drop L.mark) ∧ L.pending.Pairwise (· < ·)

/-! ### notifier side -/

theorem populate_synced (w : World) (N : Noti) (h : N.snap = w.lisReg.slots) : Synced w (populate w N) := by
  constructor
  · intro i l hs ha
    obtain ⟨L, hL, hst⟩ := ha
    simp only [populate, List.getElem?_mapIdx, h, hs, Option.map_some]
    have : conceptExists w l = true := by simp [conceptExists, hL, hst]
    simp [this]
  · intro i l hc
    simp only [populate, List.getElem?_mapIdx, h] at hc
    rcases hs : w.lisReg.slots[i]? with _ | (_ | a)
    · rw [hs] at hc; cases hc
    · rw [hs] at hc; cases hc
    · rw [hs] at hc; simp only [Option.map_some] at hc
      split at hc
      · cases hc; rfl
      · split at hc
        · cases hc; rfl
        · cases hc

theorem populate_fields (w : World) (N : Noti) :
    (populate w N).st = N.st ∧ (populate w N).slot = N.slot ∧ (populate w N).node = N.node ∧
    (populate w N).defId = N.defId ∧ (populate w N).snapCtr = N.snapCtr := by
  simp [populate]

theorem updateConns_fields (w : World) (N : Noti) :
    (updateConns w N).st = N.st ∧ (updateConns w N).slot = N.slot ∧ (updateConns w N).node = N.node ∧
    (updateConns w N).defId = N.defId ∧ (updateConns w N).snapCtr = w.lisReg.counter := by
  unfold updateConns
  split
  · rename_i h; simp [h]
  · simp [populate]

theorem updateConns_synced (w : World) (N : Noti) (hs : N.snapCtr = w.lisReg.counter → Synced w N) :
    Synced w (updateConns w N) := by
  unfold updateConns
  split
  · rename_i h; exact hs h
  · exact populate_synced w _ rfl

/-! ### frame lemmas: `Inv` only reads some fields -/

theorem Inv.of_fields {w w' : World} (h : Inv w) (hc : w'.cfg = w.cfg) (hlr : w'.lisReg = w.lisReg) (hnr : w'.notReg = w.notReg)
    (hl : w'.liss = w.liss) (hn : w'.nots = w.nots) (hh : w'.hist = w.hist) : Inv w' := by
  have e1 : lisOwn w' = lisOwn w := by funext l; simp [lisOwn, hl]
  have e2 : notOwn w' = notOwn w := by funext l; simp [notOwn, hn]
  refine ⟨?_, ?_, ?_, ?_, ?_, ?_⟩
  · rw [hlr, e1]; exact h.lis
  · rw [hlr, hc]; exact h.lisLen
  · rw [hnr, e2]; exact h.nots
  · rw [hnr, hc]; exact h.notLen
  · intro n N hN hst
    rw [hn] at hN
    obtain ⟨a, b⟩ := h.sync n N hN hst
    rw [hlr]
    refine ⟨a, fun e => ?_⟩
    have s := b e
    exact ⟨fun i l hs ha => s.all i l (by rw [← hlr]; exact hs) (by unfold isAlive at *; rw [← hl]; exact ha),
           fun i l hcn => by rw [hlr]; exact s.only i l hcn⟩
  · intro l L hL
    rw [hl] at hL; rw [hh, hc]; exact h.pend l L hL

theorem Inv.pres_setP {w : World} (h : Inv w) (k : Nat) (P : Part) : Inv (setP w k P) :=
  h.of_fields rfl rfl rfl rfl rfl rfl

theorem prune_fields (w : World) (N : Noti) (ls : List Nat) :
    (prune w N ls).st = N.st ∧ (prune w N ls).slot = N.slot ∧ (prune w N ls).node = N.node ∧
    (prune w N ls).defId = N.defId ∧ (prune w N ls).snapCtr = N.snapCtr := by
  simp [prune]

/-- closing the connections to dead listeners keeps the notifier in sync -/
theorem prune_synced {w : World} {N : Noti} (ls : List Nat) (s : Synced w N) : Synced w (prune w N ls) := by
  constructor
  · intro i l hs ha
    have hc := s.all i l hs ha
    obtain ⟨L, hL, hst⟩ := ha
    simp only [prune, List.getElem?_map, hc, Option.map_some]
    have : deadIdle w l = false := by simp [deadIdle, hL, hst]
    simp [this]
  · intro i l hc
    apply s.only i l
    simp only [prune, List.getElem?_map] at hc
    rcases hx : N.conns[i]? with _ | (_ | a)
    · rw [hx] at hc; cases hc
    · rw [hx] at hc; cases hc
    · rw [hx] at hc
      simp only [Option.map_some] at hc
      split at hc
      · cases hc
      · cases hc; rfl

/-- a notifier's record is replaced by one with the same identity that is in sync -/
theorem Inv.pres_setN_synced {w : World} (h : Inv w) {n : Nat} {N : Noti} (hN : w.nots n = some N) (N' : Noti)
    (h1 : N'.st = N.st) (h2 : N'.slot = N.slot) (h3 : N'.snapCtr = w.lisReg.counter) (hs : Synced w N') :
    Inv (setN w n N') := by
  have e2 : notOwn (setN w n N') = notOwn w := by
    funext a
    simp only [notOwn, setN_nots]
    by_cases ha : a = n
    · subst ha; simp [hN, h1, h2]
    · simp [ha]
  refine ⟨h.lis, h.lisLen, ?_, h.notLen, ?_, h.pend⟩
  · show RegOK w.notReg _
    rw [e2]; exact h.nots
  · intro a A hA hAst
    by_cases ha : a = n
    · subst ha
      simp at hA
      subst hA
      exact ⟨by rw [h3]; exact Nat.le_refl _, fun _ => ⟨hs.all, hs.only⟩⟩
    · simp [ha] at hA
      obtain ⟨x, y⟩ := h.sync a A hA hAst
      exact ⟨x, fun e => ⟨(y e).all, (y e).only⟩⟩

/-- a notifier refreshes its connections -/
theorem Inv.pres_setN_update {w : World} (h : Inv w) {n : Nat} {N : Noti} (hN : w.nots n = some N) (hst : N.st = .alive) :
    Inv (setN w n (updateConns w N)) := by
  have hf := updateConns_fields w N
  exact h.pres_setN_synced hN _ hf.1 hf.2.1 hf.2.2.2.2 (updateConns_synced w N (h.sync n N hN hst).2)

/-- … and closes the connections whose trigger failed -/
theorem Inv.pres_setN_pruned {w : World} (h : Inv w) {n : Nat} {N : Noti} (hN : w.nots n = some N) (hst : N.st = .alive)
    (ls : List Nat) : Inv (setN w n (prune w (updateConns w N) ls)) := by
  have hf := updateConns_fields w N
  have pf := prune_fields w (updateConns w N) ls
  exact h.pres_setN_synced hN _ (by rw [pf.1, hf.1]) (by rw [pf.2.1, hf.2.1]) (by rw [pf.2.2.2.2, hf.2.2.2.2])
    (prune_synced ls (updateConns_synced w N (h.sync n N hN hst).2))

theorem deliver_liss (w : World) (ts : List Nat) (id : Nat) (l : Nat) :
    (deliver w ts id).liss l =
      match w.liss l with
      | some L => if l ∈ ts ∧ L.st = .alive then some { L with pending := insertId id L.pending } else some L
      | none => none := rfl

theorem deliver_lisOwn (w : World) (ts : List Nat) (id : Nat) : lisOwn (deliver w ts id) = lisOwn w := by
  funext l
  simp only [lisOwn, deliver_liss]
  cases w.liss l with
  | none => rfl
  | some L => by_cases h : l ∈ ts ∧ L.st = .alive <;> simp [h]

theorem deliver_isAlive (w : World) (ts : List Nat) (id : Nat) (l : Nat) : isAlive (deliver w ts id) l ↔ isAlive w l := by
  simp only [isAlive, deliver_liss]
  cases hl : w.liss l with
  | none => simp
  | some L =>
    by_cases h : l ∈ ts ∧ L.st = .alive
    · simp [h]
    · simp [h]

/-- a notification is delivered (`hist` records it) -/
theorem Inv.pres_deliver {w : World} (h : Inv w) (ts : List Nat) {id : Nat} (hid : id ≤ w.cfg.idMax) :
    Inv { deliver w ts id with hist := w.hist ++ [id] } := by
  refine ⟨?_, h.lisLen, h.nots, h.notLen, ?_, ?_⟩
  · show RegOK w.lisReg (lisOwn (deliver w ts id))
    rw [deliver_lisOwn]; exact h.lis
  · intro n N hN hst
    obtain ⟨x, y⟩ := h.sync n N hN hst
    refine ⟨x, fun e => ⟨fun i l hs ha => (y e).all i l hs ((deliver_isAlive w ts id l).mp ha), (y e).only⟩⟩
  · intro l L' hL'
    have hL' : (deliver w ts id).liss l = some L' := hL'
    rw [deliver_liss] at hL'
    show L'.mark ≤ (w.hist ++ [id]).length ∧ (∀ x ∈ L'.pending, x ≤ w.cfg.idMax ∧ x ∈ (w.hist ++ [id]).drop L'.mark) ∧ _
    cases hl : w.liss l with
    | none => rw [hl] at hL'; simp at hL'
    | some L =>
      rw [hl] at hL'
      obtain ⟨p1, p2, p3⟩ := h.pend l L hl
      have hdrop : (w.hist ++ [id]).drop L.mark = w.hist.drop L.mark ++ [id] := List.drop_append_of_le_length p1
      by_cases hc : l ∈ ts ∧ L.st = .alive
      · simp [hc] at hL'; subst hL'
        refine ⟨by simp; omega, ?_, insertId_sorted p3⟩
        intro x hx
        simp only at hx ⊢
        rw [hdrop]
        rcases mem_insertId.mp hx with rfl | hx
        · exact ⟨hid, by simp⟩
        · exact ⟨(p2 x hx).1, List.mem_append.mpr (Or.inl (p2 x hx).2)⟩
      · simp [hc] at hL'; subst hL'
        refine ⟨by simp; omega, ?_, p3⟩
        intro x hx
        rw [hdrop]
        exact ⟨(p2 x hx).1, List.mem_append.mpr (Or.inl (p2 x hx).2)⟩

/-! ### `notifyCore` -/

theorem notifyCore_eq (w : World) (n : Nat) (N : Noti) (id : Nat) :
    notifyCore w n N id =
      if w.cfg.idMax < id then (setN w n (updateConns w N), .error .outOfBounds)
      else ({ deliver (setN w n (prune w (updateConns w N) (targets (updateConns w N)))) (targets (updateConns w N)) id with
                hist := w.hist ++ [id] },
            if w.cfg.deadline = 2 then .error .missedDeadline
            else .ok ((targets (updateConns w N)).filter (reaches w)).length) := rfl

theorem Inv.pres_notifyCore {w : World} (h : Inv w) {n : Nat} {N : Noti} (hN : w.nots n = some N) (hst : N.st = .alive) (id : Nat) :
    Inv (notifyCore w n N id).1 := by
  rw [notifyCore_eq]
  split
  · exact h.pres_setN_update hN hst
  · rename_i hid
    exact (h.pres_setN_pruned hN hst _).pres_deliver _ (by show id ≤ w.cfg.idMax; omega)

/-- what `notifyCore` leaves alone; the notifier's record keeps its identity -/
theorem notifyCore_frame (w : World) (n : Nat) (N : Noti) (id : Nat) :
    (notifyCore w n N id).1.cfg = w.cfg ∧ (notifyCore w n N id).1.lisReg = w.lisReg ∧
    (notifyCore w n N id).1.notReg = w.notReg ∧ (notifyCore w n N id).1.parts = w.parts ∧
    (notifyCore w n N id).1.partKeys = w.partKeys ∧
    ∃ N', (notifyCore w n N id).1.nots = (fun a => if a = n then some N' else w.nots a) ∧
      N'.st = N.st ∧ N'.slot = N.slot ∧ N'.node = N.node ∧ N'.defId = N.defId := by
  rw [notifyCore_eq]
  have hf := updateConns_fields w N
  split
  · exact ⟨rfl, rfl, rfl, rfl, rfl, _, rfl, hf.1, hf.2.1, hf.2.2.1, hf.2.2.2.1⟩
  · have pf := prune_fields w (updateConns w N) (targets (updateConns w N))
    exact ⟨rfl, rfl, rfl, rfl, rfl, _, rfl, by rw [pf.1, hf.1], by rw [pf.2.1, hf.2.1], by rw [pf.2.2.1, hf.2.2.1],
      by rw [pf.2.2.2.1, hf.2.2.2.1]⟩

/-! ### `notifyOneCore` (single-listener API) -/

theorem notifyOneCore_eq (w : World) (n : Nat) (N : Noti) (slot l id : Nat) :
    notifyOneCore w n N slot l id =
      if w.cfg.idMax < id then (setN w n (updateConns w N), .error .outOfBounds)
      else if (updateConns w N).conns[slot]? = some (some l) then
        ({ deliver (setN w n (prune w (updateConns w N) [l])) [l] id with hist := w.hist ++ [id] },
         if w.cfg.deadline = 2 then .error .missedDeadline else .ok ())
      else (setN w n (updateConns w N), .error .invalidKey) := rfl

theorem Inv.pres_notifyOneCore {w : World} (h : Inv w) {n : Nat} {N : Noti} (hN : w.nots n = some N) (hst : N.st = .alive)
    (slot l id : Nat) : Inv (notifyOneCore w n N slot l id).1 := by
  rw [notifyOneCore_eq]
  split
  · exact h.pres_setN_update hN hst
  · rename_i hid
    split
    · exact (h.pres_setN_pruned hN hst _).pres_deliver _ (by show id ≤ w.cfg.idMax; omega)
    · exact h.pres_setN_update hN hst

theorem notifyOneCore_frame (w : World) (n : Nat) (N : Noti) (slot l id : Nat) :
    (notifyOneCore w n N slot l id).1.cfg = w.cfg ∧ (notifyOneCore w n N slot l id).1.lisReg = w.lisReg ∧
    (notifyOneCore w n N slot l id).1.notReg = w.notReg ∧ (notifyOneCore w n N slot l id).1.parts = w.parts ∧
    (notifyOneCore w n N slot l id).1.partKeys = w.partKeys ∧
    ∃ N', (notifyOneCore w n N slot l id).1.nots = (fun a => if a = n then some N' else w.nots a) ∧
      N'.st = N.st ∧ N'.slot = N.slot ∧ N'.node = N.node ∧ N'.defId = N.defId := by
  rw [notifyOneCore_eq]
  have hf := updateConns_fields w N
  have pf := prune_fields w (updateConns w N) [l]
  split
  · exact ⟨rfl, rfl, rfl, rfl, rfl, _, rfl, hf.1, hf.2.1, hf.2.2.1, hf.2.2.2.1⟩
  · split
    · exact ⟨rfl, rfl, rfl, rfl, rfl, _, rfl, by rw [pf.1, hf.1], by rw [pf.2.1, hf.2.1], by rw [pf.2.2.1, hf.2.2.1],
        by rw [pf.2.2.2.1, hf.2.2.2.1]⟩
    · exact ⟨rfl, rfl, rfl, rfl, rfl, _, rfl, hf.1, hf.2.1, hf.2.2.1, hf.2.2.2.1⟩

/-! ### listeners -/

theorem Inv.pres_clis {w : World} (h : Inv w) {l k slot : Nat} {reg : Reg} (hl : w.liss l = none) (e : w.lisReg.add l = some (reg, slot)) :
    Inv (setL { w with lisReg := reg } l { node := k, slot := slot, mark := w.hist.length }) := by
  have hown : lisOwn w l = none := by simp [lisOwn, hl]
  obtain ⟨r1, r2, r3, r4⟩ := h.lis.add hown e
  refine ⟨?_, ?_, h.nots, h.notLen, ?_, ?_⟩
  · show RegOK reg _
    apply r1.congr
    intro a
    simp only [lisOwn, setL]
    by_cases ha : a = l
    · subst ha; simp
    · simp [ha]
  · show reg.slots.length = w.cfg.maxLis
    rw [r2, List.length_set]; exact h.lisLen
  · intro n N hN hst
    have hN : w.nots n = some N := hN
    obtain ⟨x, _⟩ := h.sync n N hN hst
    show N.snapCtr ≤ reg.counter ∧ (N.snapCtr = reg.counter → _)
    rw [r4]
    exact ⟨by omega, fun e => by omega⟩
  · intro a A hA
    simp only [setL] at hA
    by_cases ha : a = l
    · subst ha; simp at hA; subst hA
      simp
    · simp [ha] at hA
      exact h.pend a A hA

theorem Inv.pres_dlis {w : World} (h : Inv w) {l : Nat} {L : Lis} (hl : w.liss l = some L) (hst : L.st = .alive) :
    Inv (setL { w with lisReg := w.lisReg.remove L.slot } l { L with st := .gone, pending := [] }) := by
  have hown : lisOwn w l = some L.slot := by simp [lisOwn, hl, hst]
  have r1 := h.lis.remove hown
  refine ⟨?_, ?_, h.nots, h.notLen, ?_, ?_⟩
  · show RegOK (w.lisReg.remove L.slot) _
    apply r1.congr
    intro a
    simp only [lisOwn, setL]
    by_cases ha : a = l
    · subst ha; simp
    · simp [ha]
  · show (w.lisReg.remove L.slot).slots.length = w.cfg.maxLis
    rw [Reg.remove_slots_length]; exact h.lisLen
  · intro n N hN hst
    have hN : w.nots n = some N := hN
    obtain ⟨x, _⟩ := h.sync n N hN hst
    show N.snapCtr ≤ (w.lisReg.remove L.slot).counter ∧ (N.snapCtr = (w.lisReg.remove L.slot).counter → _)
    simp only [Reg.remove]
    exact ⟨by omega, fun e => by omega⟩
  · intro a A hA
    simp only [setL] at hA
    by_cases ha : a = l
    · subst ha; simp at hA; subst hA
      simp
      exact (h.pend a L hl).1
    · simp [ha] at hA
      exact h.pend a A hA

theorem Inv.pres_wait {w : World} (h : Inv w) {l : Nat} {L : Lis} (hl : w.liss l = some L) :
    Inv (setL w l { L with pending := [], mark := w.hist.length }) := by
  have e1 : lisOwn (setL w l { L with pending := [], mark := w.hist.length }) = lisOwn w := by
    funext a
    simp only [lisOwn, setL]
    by_cases ha : a = l
    · subst ha; simp [hl]
    · simp [ha]
  refine ⟨?_, h.lisLen, h.nots, h.notLen, ?_, ?_⟩
  · show RegOK w.lisReg _
    rw [e1]; exact h.lis
  · intro n N hN hst
    obtain ⟨x, y⟩ := h.sync n N hN hst
    refine ⟨x, fun e => ⟨fun i a hs ha => (y e).all i a hs ?_, (y e).only⟩⟩
    obtain ⟨A, hA, hAst⟩ := ha
    simp only [setL] at hA
    by_cases hal : a = l
    · subst hal; simp at hA; subst hA; exact ⟨L, hl, hAst⟩
    · simp [hal] at hA; exact ⟨A, hA, hAst⟩
  · intro a A hA
    simp only [setL] at hA
    by_cases ha : a = l
    · subst ha; simp at hA; subst hA; simp
    · simp [ha] at hA
      exact h.pend a A hA

/-! ### notifiers -/

theorem Inv.pres_cnot {w : World} (h : Inv w) {n slot : Nat} {reg : Reg} (hn : w.nots n = none)
    (e : w.notReg.add n = some (reg, slot)) (N0 : Noti) (h1 : N0.snap = w.lisReg.slots) (h2 : N0.snapCtr = w.lisReg.counter)
    (h3 : N0.st ≠ .gone) :
    Inv (setN { w with notReg := reg } n { populate w N0 with slot := slot }) := by
  have hown : notOwn w n = none := by simp [notOwn, hn]
  obtain ⟨r1, r2, r3, r4⟩ := h.nots.add hown e
  have pf := populate_fields w N0
  refine ⟨h.lis, h.lisLen, ?_, ?_, ?_, h.pend⟩
  · show RegOK reg _
    apply r1.congr
    intro a
    simp only [notOwn, setN_nots]
    by_cases ha : a = n
    · subst ha; simp [pf.1, h3]
    · simp [ha]
  · show reg.slots.length = w.cfg.maxNot
    rw [r2, List.length_set]; exact h.notLen
  · intro a A hA hAst
    simp only [setN_nots] at hA
    by_cases ha : a = n
    · subst ha; simp at hA; subst hA
      refine ⟨?_, fun _ => ?_⟩
      · show (populate w N0).snapCtr ≤ w.lisReg.counter
        rw [pf.2.2.2.2, h2]; exact Nat.le_refl _
      · have s := populate_synced w N0 h1
        exact ⟨s.all, s.only⟩
    · simp [ha] at hA
      obtain ⟨x, y⟩ := h.sync a A hA hAst
      exact ⟨x, fun e => ⟨(y e).all, (y e).only⟩⟩

theorem Inv.pres_dnot {w : World} (h : Inv w) {n : Nat} {N : Noti} (hN : w.nots n = some N) (hst : N.st ≠ .gone) (N' : Noti) (hg : N'.st = .gone) :
    Inv (setN { w with notReg := w.notReg.remove N.slot } n N') := by
  have hown : notOwn w n = some N.slot := by simp [notOwn, hN, hst]
  have r1 := h.nots.remove hown
  refine ⟨h.lis, h.lisLen, ?_, ?_, ?_, h.pend⟩
  · show RegOK (w.notReg.remove N.slot) _
    apply r1.congr
    intro a
    simp only [notOwn, setN]
    by_cases ha : a = n
    · subst ha; simp [hg]
    · simp [ha]
  · show (w.notReg.remove N.slot).slots.length = w.cfg.maxNot
    rw [Reg.remove_slots_length]; exact h.notLen
  · intro a A hA hAst
    simp only [setN] at hA
    by_cases ha : a = n
    · subst ha; simp at hA; subst hA; rw [hg] at hAst; cases hAst
    · simp [ha] at hA
      obtain ⟨x, y⟩ := h.sync a A hA hAst
      exact ⟨x, fun e => ⟨(y e).all, (y e).only⟩⟩

/-! ### node death -/

theorem Inv.pres_killPorts {w : World} (h : Inv w) (k : Nat) : Inv (killPorts w k) := by
  have e1 : lisOwn (killPorts w k) = lisOwn w := by
    funext a
    simp only [lisOwn, killPorts]
    cases hl : w.liss a with
    | none => rfl
    | some L =>
      by_cases hc : L.node = k ∧ L.st = .alive
      · simp [hc]
      · simp [hc]
  have e2 : notOwn (killPorts w k) = notOwn w := by
    funext a
    simp only [notOwn, killPorts]
    cases hl : w.nots a with
    | none => rfl
    | some L =>
      by_cases hc : L.node = k ∧ L.st = .alive
      · simp [hc]
      · simp [hc]
  have alive_of : ∀ l, isAlive (killPorts w k) l → isAlive w l := by
    intro l ⟨A, hA, hAst⟩
    simp only [killPorts] at hA
    cases hl : w.liss l with
    | none => rw [hl] at hA; simp at hA
    | some L =>
      rw [hl] at hA
      by_cases hc : L.node = k ∧ L.st = .alive
      · simp [hc] at hA; subst hA; simp at hAst
      · simp [hc] at hA; subst hA; exact ⟨L, hl, hAst⟩
  refine ⟨?_, h.lisLen, ?_, h.notLen, ?_, ?_⟩
  · show RegOK w.lisReg _
    rw [e1]; exact h.lis
  · show RegOK w.notReg _
    rw [e2]; exact h.nots
  · intro n N' hN' hst
    simp only [killPorts] at hN'
    cases hn : w.nots n with
    | none => rw [hn] at hN'; simp at hN'
    | some N =>
      rw [hn] at hN'
      by_cases hc : N.node = k ∧ N.st = .alive
      · simp [hc] at hN'; subst hN'; simp at hst
      · simp [hc] at hN'; subst hN'
        obtain ⟨x, y⟩ := h.sync n N hn hst
        exact ⟨x, fun e => ⟨fun i l hs ha => (y e).all i l hs (alive_of l ha), (y e).only⟩⟩
  · intro l L' hL'
    simp only [killPorts] at hL'
    cases hl : w.liss l with
    | none => rw [hl] at hL'; simp at hL'
    | some L =>
      rw [hl] at hL'
      by_cases hc : L.node = k ∧ L.st = .alive
      · simp [hc] at hL'; subst hL'; exact h.pend l L hl
      · simp [hc] at hL'; subst hL'; exact h.pend l L hl

theorem Inv.pres_purge {w : World} (h : Inv w) (d : Nat) : Inv (purge w d) := by
  obtain ⟨l1, l2⟩ := h.lis.removeWhere_all (fun l => decide (lisNode w l = some d))
  obtain ⟨_, _, l3, l4⟩ := h.lis.removeWhere (fun l => decide (lisNode w l = some d)) w.lisReg.slots.length
  obtain ⟨n1, n2⟩ := h.nots.removeWhere_all (fun n => decide (notNode w n = some d))
  have alive_of : ∀ l, isAlive (purge w d) l → isAlive w l := by
    intro l ⟨A, hA, hAst⟩
    simp only [purge] at hA
    cases hl : w.liss l with
    | none => rw [hl] at hA; simp at hA
    | some L =>
      rw [hl] at hA
      by_cases hc : L.node = d
      · simp [hc] at hA; subst hA; simp at hAst
      · simp [hc] at hA; subst hA; exact ⟨L, hl, hAst⟩
  refine ⟨?_, ?_, ?_, ?_, ?_, ?_⟩
  · show RegOK (w.lisReg.removeWhere _ _) _
    apply l1.congr
    intro a
    cases hl : w.liss a with
    | none => simp [lisOwn, purge, lisNode, hl]
    | some L =>
      by_cases hc : L.node = d
      · simp [lisOwn, purge, lisNode, hl, hc]
      · simp [lisOwn, purge, lisNode, hl, hc]
  · show (w.lisReg.removeWhere _ _).slots.length = _
    rw [Reg.removeWhere_length]; exact h.lisLen
  · show RegOK (w.notReg.removeWhere _ _) _
    apply n1.congr
    intro a
    cases hl : w.nots a with
    | none => simp [notOwn, purge, notNode, hl]
    | some L =>
      by_cases hc : L.node = d
      · simp [notOwn, purge, notNode, hl, hc]
      · simp [notOwn, purge, notNode, hl, hc]
  · show (w.notReg.removeWhere _ _).slots.length = _
    rw [Reg.removeWhere_length]; exact h.notLen
  · intro n N' hN' hst
    simp only [purge] at hN'
    cases hn : w.nots n with
    | none => rw [hn] at hN'; simp at hN'
    | some N =>
      rw [hn] at hN'
      by_cases hc : N.node = d
      · simp [hc] at hN'; subst hN'; simp at hst
      · simp [hc] at hN'; subst hN'
        obtain ⟨x, y⟩ := h.sync n N hn hst
        show N.snapCtr ≤ (w.lisReg.removeWhere _ _).counter ∧ (N.snapCtr = (w.lisReg.removeWhere _ _).counter → _)
        refine ⟨Nat.le_trans x l3, fun e => ?_⟩
        have ec : (w.lisReg.removeWhere (fun l => decide (lisNode w l = some d)) w.lisReg.slots.length).counter = w.lisReg.counter := by
          omega
        have es := l4 ec
        have s := y (by omega)
        constructor
        · intro i l hs ha
          have hs : (w.lisReg.removeWhere (fun l => decide (lisNode w l = some d)) w.lisReg.slots.length).slots[i]? = some (some l) := hs
          rw [es] at hs
          exact s.all i l hs (alive_of l ha)
        · intro i l hcn
          show (w.lisReg.removeWhere (fun l => decide (lisNode w l = some d)) w.lisReg.slots.length).slots[i]? = some (some l)
          rw [es]; exact s.only i l hcn
  · intro l L' hL'
    simp only [purge] at hL'
    cases hl : w.liss l with
    | none => rw [hl] at hL'; simp at hL'
    | some L =>
      rw [hl] at hL'
      by_cases hc : L.node = d
      · simp [hc] at hL'; subst hL'; simp; exact (h.pend l L hl).1
      · simp [hc] at hL'; subst hL'; exact h.pend l L hl

theorem Inv.pres_bumpNot {w : World} (h : Inv w) (k : Nat) : Inv { w with notReg := { w.notReg with counter := k } } := by
  refine ⟨h.lis, h.lisLen, ?_, h.notLen, ?_, h.pend⟩
  · exact ⟨h.nots.slot, h.nots.owner, h.nots.free, h.nots.nodup⟩
  · intro n N hN hst
    obtain ⟨x, y⟩ := h.sync n N hN hst
    exact ⟨x, fun e => ⟨(y e).all, (y e).only⟩⟩

theorem Inv.pres_deadSignal {w : World} (h : Inv w) : Inv (deadSignal w) := by
  unfold deadSignal
  split
  · exact h
  · split
    · exact h
    · split
      · exact h
      · split
        · exact h
        · have h1 := h.pres_bumpNot (w.notReg.counter + 2)
          split
          · exact h1
          · rename_i hid
            exact h1.pres_deliver _ (by show _ ≤ w.cfg.idMax; omega)

end Iox2.EventPorts
