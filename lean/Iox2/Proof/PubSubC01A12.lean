/-
Layer A: every API operation preserves `InvA`; hence it holds in every reachable state.
-/
import Iox2.Proof.PubSubC01A11
import Iox2.Proof.PubSubC01Step
namespace Iox2.PubSub.C01P
open Iox2.PubSub
open Iox2.C16.SlotMapP (abs WInv)

variable {cfg : Cfg} {w : World}

theorem InvA.finishPanic' {np ns : Option Nat} {w0 : World} (h0 : InvA cfg np ns w0) (r : World × String)
    (hr : r.1.panicked = true ∨ InvA cfg np ns r.1) : InvA cfg np ns (finishPanic w0 r).1 := by
  unfold finishPanic
  split
  · exact h0.panic
  · rename_i hp
    rcases hr with hr | hr
    · exact absurd hr hp
    · exact hr

theorem InvA.init (cfg : Cfg) : InvA cfg none none (World.init cfg) := by
  have hP : ∀ a, getP (World.init cfg) a = none := fun _ => rfl
  have hS : ∀ a, getS (World.init cfg) a = none := fun _ => rfl
  have hreg : ∀ {α : Type} (n i : Nat) (v : α), (Reg.init (α := α) n).slots[i]? ≠ some (some v) := by
    intro α n i v; exact replicate_none_ne
  constructor
  · rfl
  · intro c hc; cases hc
  · simp [World.init, Reg.init]
  · intro i p hi; exact absurd hi (hreg _ _ _)
  · intro i e hi; exact absurd hi (hreg _ _ _)
  · intro p P h; rw [hP] at h; cases h
  · intro p P h; rw [hS] at h; cases h
  · intro p P h; rw [hS] at h; cases h
  · intro p P h; rw [hP] at h; cases h
  · intro c hc; cases hc
  · intro c hc; cases hc
  · intro p P h; rw [hS] at h; cases h
  · intro c hc; cases hc
  · intro p P h; rw [hP] at h; cases h
  · intro c hc; cases hc
  · intro c hc; cases hc
  · intro p P h; rw [hS] at h; cases h
  · intro c hc; cases hc
  · intro p P h; rw [hS] at h; cases h
  · intro c hc; cases hc
  · intro p P h; rw [hS] at h; cases h

theorem invA_step_cpub (h : InvA cfg none none w) (p ml : Nat) : InvA cfg none none (step w (.cpub p ml)).1 := by
  rw [C01P.step_cpub]
  split
  · exact h
  · rename_i hf
    have hfresh : getP w p = none := by
      cases hg : getP w p with
      | none => rfl
      | some _ => rw [hg] at hf; simp at hf
    have h0 : InvA cfg (some p) none (addP w p (newPub w ml)) :=
      h.addPub hfresh rfl rfl (by simp only [newPub, h.cfgEq])
    have hg0 : getP (addP w p (newPub w ml)) p = some (newPub w ml) := by
      rw [getP_addP, hfresh]; simp
    have h1 := h0.pubForceUpdate p hg0 rfl rfl
    have f1 := pubForceUpdate_frame (addP w p (newPub w ml)) p
    obtain ⟨P1, hP1, st1⟩ := f1.psome p _ hg0
    simp only
    generalize pubForceUpdate (addP w p (newPub w ml)) p = w1 at h1 hP1
    rw [hP1]
    cases hadd : w1.pubReg.add p with
    | none =>
      simp only
      exact h.finishPanic' _ (Or.inr (h1.failPub hP1))
    | some rs =>
      obtain ⟨reg, slot⟩ := rs
      simp only
      exact h.finishPanic' _ (Or.inr (h1.registerPub hP1 (by rw [st1.alive]; rfl) hadd))

theorem invA_step_dpub (h : InvA cfg none none w) (p : Nat) : InvA cfg none none (step w (.dpub p)).1 := by
  rw [C01P.step_dpub]
  cases hP : getP w p with
  | none => exact h
  | some P =>
    simp only
    split
    · exact h
    · rename_i hal
      simp only [Bool.not_eq_true', Bool.not_eq_false] at hal
      exact (h.unregisterPub hP hal).pubDestroyIfUnreferenced p

theorem clamp1_pos (n : Nat) : 1 ≤ clamp1 n := by
  unfold clamp1; split <;> omega

theorem invA_step_csub (hc : cfg.Sane) (h : InvA cfg none none w) (s : Nat) (b hh : Option Nat) :
    InvA cfg none none (step w (.csub s b hh)).1 := by
  rw [C01P.step_csub]
  split
  · exact h
  · rename_i hf
    have hfresh : getS w s = none := by
      cases hg : getS w s with
      | none => rfl
      | some _ => rw [hg] at hf; simp at hf
    cases hb : csubBuffer w b with
    | none => exact h
    | some buffer =>
      simp only
      have hbuf : 1 ≤ buffer := by
        unfold csubBuffer at hb
        cases b with
        | none =>
          simp only [Option.some.injEq] at hb
          rw [← hb, h.cfgEq]; exact hc.2.2.1
        | some b0 =>
          simp only at hb
          split at hb
          · cases hb
          · simp only [Option.some.injEq] at hb
            rw [← hb]; exact clamp1_pos b0
      cases hh' : csubHist w hh buffer with
      | error e => exact h
      | ok histReq =>
        simp only
        unfold csubCore
        have h0 : InvA cfg none (some s) (addS w s (newSub w buffer histReq)) :=
          h.addSub hfresh rfl hbuf rfl rfl rfl
        have hg0 : getS (addS w s (newSub w buffer histReq)) s = some (newSub w buffer histReq) := by
          rw [getS_addS, hfresh]; simp
        have h1 := h0.subForceUpdate s hg0 rfl rfl
        have f1 := subForceUpdate_frame (addS w s (newSub w buffer histReq)) s
        obtain ⟨S1, hS1, st1⟩ := f1.ssome s _ hg0
        simp only
        generalize subForceUpdate (addS w s (newSub w buffer histReq)) s = w1 at h1 hS1
        rw [hS1]
        cases hadd : w1.subReg.add { sid := s, buffer := buffer, histReq := histReq } with
        | none =>
          simp only
          refine h.finishPanic' _ ?_
          rcases h1 with h1 | h1
          · left
            show (subDestroyKeys w1 s (SlotMap.items S1.storage)).panicked = true
            rw [subDestroyKeys_panicked]; exact h1
          · exact Or.inr (h1.failSub hS1)
        | some rs =>
          obtain ⟨reg, slot⟩ := rs
          simp only
          refine h.finishPanic' _ ?_
          rcases h1 with h1 | h1
          · exact Or.inl h1
          · exact Or.inr (h1.registerSub hS1 (by rw [st1.alive]; rfl) hadd rfl (by rw [st1.buffer]; rfl))

theorem invA_step_dsub (h : InvA cfg none none w) (s : Nat) : InvA cfg none none (step w (.dsub s)).1 := by
  rw [C01P.step_dsub]
  cases hS : getS w s with
  | none => exact h
  | some S =>
    simp only
    split
    · exact h
    · rename_i hal
      simp only [Bool.not_eq_true', Bool.not_eq_false] at hal
      exact (h.unregisterSub hS hal).subDestroyIfUnreferenced s

theorem invA_step_loan (h : InvA cfg none none w) (p l : Nat) : InvA cfg none none (step w (.loan p l)).1 := by
  rw [C01P.step_loan]
  cases hP : getP w p with
  | none => exact h
  | some P0 =>
    simp only
    split
    · exact h
    · split
      · exact h
      · have h1 := h.retrieveReturned p
        cases hP1 : getP (retrieveReturned w p) p with
        | none => exact h1
        | some P =>
          simp only
          split
          · exact h1
          · split
            · exact h1
            · split
              · exact h1.panic
              · exact h1.setP_irrel hP1 rfl rfl rfl rfl

theorem invA_step_dloan (h : InvA cfg none none w) (p l : Nat) : InvA cfg none none (step w (.dloan p l)).1 := by
  rw [C01P.step_dloan]
  cases hP : getP w p with
  | none => exact h
  | some P =>
    simp only
    cases hl : P.loans.find? (·.1 = l) with
    | none => exact h
    | some lc =>
      obtain ⟨l', c⟩ := lc
      simp only
      have st := releaseChunk_stable P c
      refine InvA.pubDestroyIfUnreferenced ?_ p
      exact h.setP_irrel hP st.alive st.ex st.slot (releaseChunk_conns P c)

theorem invA_step_updP (h : InvA cfg none none w) (p : Nat) : InvA cfg none none (step w (.updP p)).1 := by
  rw [C01P.step_updP]
  cases hP : getP w p with
  | none => exact h
  | some P =>
    simp only
    split
    · exact h
    · rename_i hal
      simp only [Bool.not_eq_true', Bool.not_eq_false] at hal
      exact h.finishPanic' _ (Or.inr (h.pubUpdate p (fun P' hP' => by rw [hP] at hP'; cases hP'; exact hal)))

theorem invA_step_updS (h : InvA cfg none none w) (s : Nat) : InvA cfg none none (step w (.updS s)).1 := by
  rw [C01P.step_updS]
  cases hS : getS w s with
  | none => exact h
  | some S =>
    simp only
    split
    · exact h
    · rename_i hal
      simp only [Bool.not_eq_true', Bool.not_eq_false] at hal
      exact h.finishPanic' _ (h.subUpdate s (fun S' hS' => by rw [hS] at hS'; cases hS'; exact hal))

theorem invA_step_has (h : InvA cfg none none w) (s : Nat) : InvA cfg none none (step w (.has s)).1 := by
  rw [C01P.step_has]
  cases hS : getS w s with
  | none => exact h
  | some S =>
    simp only
    split
    · exact h
    · rename_i hal
      simp only [Bool.not_eq_true', Bool.not_eq_false] at hal
      have h1 := h.subUpdate s (fun S' hS' => by rw [hS] at hS'; cases hS'; exact hal)
      split
      · exact h.panic
      · rename_i hp
        have h1' : InvA cfg none none (subUpdate w s) := by
          rcases h1 with h1 | h1
          · exact absurd h1 hp
          · exact h1
        split <;> exact h1'

end Iox2.PubSub.C01P

namespace Iox2.PubSub.C01P
open Iox2.PubSub
open Iox2.C16.SlotMapP (abs WInv)

variable {cfg : Cfg} {w : World}

/-! ### send -/

/-- the fields of a publisher record that `InvA` looks at -/
structure PSameA (P P' : Pub) : Prop where
  alive : P'.alive = P.alive
  ex : P'.ex = P.ex
  slot : P'.slot = P.slot
  conns : P'.conns = P.conns

theorem sendHist_sameA (hist : Nat) (P : Pub) (c : Nat) : PSameA P (sendHist hist P c) := by
  unfold sendHist
  split
  · exact ⟨rfl, rfl, rfl, rfl⟩
  · simp only
    split
    · split
      · exact ⟨rfl, rfl, rfl, rfl⟩
      · rename_i old rest _
        have st := releaseChunk_stable { P.borrowChunk c with hist := rest ++ [c] } old
        exact ⟨st.alive, st.ex, st.slot, releaseChunk_conns _ old⟩
    · exact ⟨rfl, rfl, rfl, rfl⟩

theorem invA_sendDeliver {np ns : Option Nat} (p c q : Nat) (slots : List (Option Nat)) (acc : World × Nat)
    (h : InvA cfg np ns acc.1) {P : Pub} (hP : getP acc.1 p = some P) (hex : P.ex = true)
    (hsl : ∀ s, some s ∈ slots → ∃ i : Nat, P.conns[i]? = some (some s)) :
    InvA cfg np ns (sendDeliver p c q slots acc).1 := by
  induction slots generalizing acc P with
  | nil => exact h
  | cons x r ih =>
    unfold C01P.sendDeliver
    rw [List.foldl_cons]
    cases x with
    | none =>
      exact ih acc h hP hex (fun s hs => hsl s (List.mem_cons_of_mem _ hs))
    | some s =>
      simp only
      obtain ⟨i, hi⟩ := hsl s (by simp)
      have h1 := h.deliverTo p s c q (h.attached hP hex hi)
      obtain ⟨f1, c1⟩ := deliverTo_frame acc.1 p s c q
      obtain ⟨P1, hP1, st1⟩ := f1.psome p P hP
      have := ih ((deliverTo acc.1 p s c q).1, if (deliverTo acc.1 p s c q).2 = true then acc.2 + 1 else acc.2)
        h1 hP1 (st1.ex ▸ hex) (fun s' hs' => by
          rw [c1 P P1 hP hP1]; exact hsl s' (List.mem_cons_of_mem _ hs'))
      exact this

theorem invA_sendAlive (h : InvA cfg none none w) (p c tag : Nat) (hPa : ∀ P, getP w p = some P → P.alive = true) :
    InvA cfg none none (sendAlive w p c tag).1 := by
  unfold sendAlive
  simp only
  have h1 := h.pubUpdate p hPa
  have f1 := pubUpdate_frame w p
  cases hP : getP (pubUpdate w p) p with
  | none => exact h1
  | some P =>
    simp only
    obtain ⟨P0, hP0, st0⟩ := f1.some' hP
    have hal : P.alive = true := by rw [st0.alive]; exact hPa P0 hP0
    have hsm := sendHist_sameA (pubUpdate w p).cfg.hist (sendStamp P c tag) c
    have h2 : InvA cfg none none (setP (pubUpdate w p) p (sendHist (pubUpdate w p).cfg.hist (sendStamp P c tag) c)) :=
      h1.setP_irrel hP hsm.alive hsm.ex hsm.slot hsm.conns
    have hg2 := getP_setP_self (sendHist (pubUpdate w p).cfg.hist (sendStamp P c tag) c) hP
    have h3 := h2.retrieveReturned p
    obtain ⟨f3, c3⟩ := retrieveReturned_frame
      (setP (pubUpdate w p) p (sendHist (pubUpdate w p).cfg.hist (sendStamp P c tag) c)) p
    obtain ⟨P3, hP3, st3⟩ := f3.psome p _ hg2
    rw [hP3]
    simp only
    refine invA_sendDeliver p c P.seq P3.conns _ h3 hP3 ?_ (fun s hs => ?_)
    · rw [st3.ex, hsm.ex]; exact (h1.palive p P hP hal).1
    · obtain ⟨i, hi⟩ := List.getElem?_of_mem hs
      exact ⟨i, hi⟩

theorem invA_sendFinish (h : InvA cfg none none w) (p c : Nat) : InvA cfg none none (sendFinish w p c) := by
  unfold sendFinish
  refine InvA.pubDestroyIfUnreferenced ?_ p
  cases hP : getP w p with
  | none => exact h
  | some P =>
    simp only
    have st := releaseChunk_stable P c
    exact h.setP_irrel hP st.alive st.ex st.slot (releaseChunk_conns P c)

theorem invA_step_send (h : InvA cfg none none w) (p l tag : Nat) : InvA cfg none none (step w (.send p l tag)).1 := by
  rw [C01P.step_send]
  cases hP : getP w p with
  | none => exact h
  | some P0 =>
    simp only
    cases hl : P0.loans.find? (·.1 = l) with
    | none => exact h
    | some lc =>
      obtain ⟨l', c⟩ := lc
      simp only
      apply invA_sendFinish
      have h1 : InvA cfg none none (setP w p { P0 with payload := P0.payload.set c tag, loans := P0.loans.filter (·.1 ≠ l) }) :=
        h.setP_irrel hP rfl rfl rfl rfl
      split
      · exact h1
      · rename_i hal
        simp only [Bool.not_eq_true', Bool.not_eq_false] at hal
        exact invA_sendAlive h1 p c tag (fun P hP' => by
          rw [getP_setP_self _ hP] at hP'; cases hP'; exact hal)

/-! ### receive, drop a sample, probe -/

theorem invA_step_recv (h : InvA cfg none none w) (s : Nat) : InvA cfg none none (step w (.recv s)).1 := by
  rw [C01P.step_recv]
  cases hS : getS w s with
  | none => exact h
  | some S0 =>
    simp only
    split
    · exact h
    · rename_i hal
      simp only [Bool.not_eq_true', Bool.not_eq_false] at hal
      have h1 := h.subUpdate s (fun S' hS' => by rw [hS] at hS'; cases hS'; exact hal)
      split
      · exact h.panic
      · rename_i hp
        have h1' : InvA cfg none none (subUpdate w s) := by
          rcases h1 with h1 | h1
          · exact absurd h1 hp
          · exact h1
        have post := subReceive_post (I := InvA cfg none none)
          (fun w s S t hI hS => hI.setS_tbr hS t) (fun w s key hI => hI.subDropConn s key) s h1'
        generalize subReceive (subUpdate w s) s = r at post
        obtain ⟨w2, res⟩ := r
        obtain ⟨_, post⟩ := post
        cases res with
        | none => exact post
        | maxBorrow => exact post
        | some key p ch q =>
          simp only at post ⊢
          obtain ⟨w', c, rest, hI, _, hC, hsub, ⟨S', hS', _⟩, hw2⟩ := post
          subst hw2
          rw [getS_setC, hS']
          simp only
          exact hI.recvStep hS' hC hsub rfl rfl (by simp) rfl rfl rfl rfl rfl rfl rfl

theorem invA_step_dsample (h : InvA cfg none none w) (s k : Nat) : InvA cfg none none (step w (.dsample s k)).1 := by
  rw [C01P.step_dsample]
  cases hS : getS w s with
  | none => exact h
  | some S =>
    simp only
    cases hk : S.held[k]? with
    | none => exact h
    | some hd =>
      simp only
      exact InvA.subDestroyIfUnreferenced (h.releaseStep hS hk) s

theorem probeLoans_sameA (P : Pub) (fuel : Nat) (acc : List Nat) : PSameA P (probeLoans P fuel acc).1 := by
  induction fuel generalizing P acc with
  | zero => exact ⟨rfl, rfl, rfl, rfl⟩
  | succ fuel ih =>
    unfold probeLoans
    split
    · exact ⟨rfl, rfl, rfl, rfl⟩
    · split
      · exact ⟨rfl, rfl, rfl, rfl⟩
      · rename_i c rest _
        have := ih { P with free := rest, rc := P.rc.set c 1, loanCnt := P.loanCnt + 1 } (acc ++ [c])
        exact ⟨this.alive, this.ex, this.slot, this.conns⟩

theorem probeRelease_sameA (P : Pub) (l : List Nat) : PSameA P (probeRelease P l) := by
  induction l generalizing P with
  | nil => exact ⟨rfl, rfl, rfl, rfl⟩
  | cons c r ih =>
    unfold probeRelease
    rw [List.foldl_cons]
    have := ih { P.releaseChunk c with loanCnt := P.loanCnt - 1 }
    have st := releaseChunk_stable P c
    exact ⟨this.alive.trans st.alive, this.ex.trans st.ex, this.slot.trans st.slot,
      this.conns.trans (releaseChunk_conns P c)⟩

theorem invA_step_probe (h : InvA cfg none none w) (p : Nat) : InvA cfg none none (step w (.probe p)).1 := by
  rw [C01P.step_probe]
  cases hP : getP w p with
  | none => exact h
  | some P0 =>
    simp only
    split
    · exact h
    · have h1 := h.retrieveReturned p
      cases hP1 : getP (retrieveReturned w p) p with
      | none => exact h1
      | some P =>
        simp only
        have a := probeLoans_sameA P (P.n + 1) []
        have b := probeRelease_sameA (probeLoans P (P.n + 1) []).1 (probeLoans P (P.n + 1) []).2.1
        exact h1.setP_irrel hP1 (b.alive.trans a.alive) (b.ex.trans a.ex) (b.slot.trans a.slot)
          (b.conns.trans a.conns)

theorem invA_step (hc : cfg.Sane) (h : InvA cfg none none w) (op : Op) : InvA cfg none none (step w op).1 := by
  cases op with
  | cpub p ml => exact invA_step_cpub h p ml
  | dpub p => exact invA_step_dpub h p
  | csub s b hh => exact invA_step_csub hc h s b hh
  | dsub s => exact invA_step_dsub h s
  | loan p l => exact invA_step_loan h p l
  | send p l tag => exact invA_step_send h p l tag
  | dloan p l => exact invA_step_dloan h p l
  | recv s => exact invA_step_recv h s
  | dsample s k => exact invA_step_dsample h s k
  | updP p => exact invA_step_updP h p
  | updS s => exact invA_step_updS h s
  | has s => exact invA_step_has h s
  | probe p => exact invA_step_probe h p

theorem reach_invA (hc : cfg.Sane) (h : Reach cfg w) : InvA cfg none none w := by
  induction h with
  | init => exact InvA.init cfg
  | step op _ _ ih => exact invA_step hc ih op

end Iox2.PubSub.C01P
