/-
C17 flavour for the event ports: node handle, service handle, notifiers and listeners may be dropped in any order.
What is left afterwards (`resources`), when the node's directory stays behind, and that dropping the handles does not
disturb the ports.
-/
import Iox2.Proof.EventPortsStep
namespace Iox2.EventPorts

/-- everything the application created has been dropped (or cleaned up after its node died) -/
def AllDropped (w : World) : Prop :=
  (w.partKeys.all fun k => match w.parts k with
                           | some P => !P.handle && !P.svc
                           | none => true) = true ∧
  w.lisReg.labels = [] ∧ w.notReg.labels = []

instance (w : World) : Decidable (AllDropped w) := by unfold AllDropped; exact inferInstance

/-- the node directories that stayed behind -/
def dirsLeft (w : World) : Nat :=
  (w.partKeys.filter (dirLeftOf w)).length

theorem AllDropped.noCore {w : World} (h : AllDropped w) {k : Nat} (hk : k ∈ w.partKeys) :
    svcCore w k = false ∧ nodeCore w k = false := by
  obtain ⟨h1, h2, h3⟩ := h
  have hk := List.all_eq_true.mp h1 k hk
  have s : svcCore w k = false := by
    simp only [svcCore, lisOf, notOf, h2, h3]
    cases hP : w.parts k with
    | none => rfl
    | some P => rw [hP] at hk; simp at hk; simp [hk.2]
  refine ⟨s, ?_⟩
  simp only [nodeCore, s]
  cases hP : w.parts k with
  | none => rfl
  | some P => rw [hP] at hk; simp at hk; simp [hk.1]

/-- After everything was dropped nothing is left — except the directories of the nodes whose last owner was a port. -/
theorem all_dropped_resources {w : World} (h : AllDropped w) :
    resources w = if !w.cfg.ipc then [] else if dirsLeft w = 0 then [] else [("nodedir", dirsLeft w)] := by
  have hn : w.partKeys.filter (nodeCore w) = [] := by
    apply List.filter_eq_nil_iff.mpr
    intro k hk; simp [(h.noCore hk).2]
  have hs : w.partKeys.filter (svcCore w) = [] := by
    apply List.filter_eq_nil_iff.mpr
    intro k hk; simp [(h.noCore hk).1]
  have hse : serviceExists w = false := by
    simp only [serviceExists]
    apply Bool.eq_false_iff.mpr
    intro ha
    obtain ⟨k, hk, hc⟩ := List.any_eq_true.mp ha
    rw [(h.noCore hk).1] at hc; cases hc
  have hd : (w.partKeys.filter fun k => nodeCore w k || dirLeftOf w k) = w.partKeys.filter (dirLeftOf w) := by
    apply List.filter_congr
    intro k hk; simp [(h.noCore hk).2]
  unfold resources
  by_cases hi : w.cfg.ipc = true
  · simp only [hi, Bool.not_true, Bool.false_eq_true, if_false, hn, hse, nodeCount, hs, Reg.len, h.2.1, h.2.2,
      List.length_nil]
    rw [hd]
    show List.filter _ [_, _, _, _, _, _, _, ("nodedir", dirsLeft w), _, _, _] = _
    by_cases hz : dirsLeft w = 0
    · simp [hz]
    · simp [hz]
  · simp [hi]

/-- The natural statement "after everything is dropped, `resources = []`" is FALSE in the model (and in the code: replayed):
`new ipc …; cnot 0 - 0; dsvc 0; dnode 0; dnot 0; ls` leaves the node's directory. -/
theorem all_dropped_may_leave_node_directory :
    ∃ (c : Cfg) (ops : List Op), c.Sane ∧ AllDropped (run (World.init c) ops) ∧ resources (run (World.init c) ops) = [("nodedir", 1)] :=
  ⟨{ maxNot := 1, maxLis := 1, maxNodes := 1, idMax := 0, created := none, dropped := none, dead := none },
   [.cnot 0 none 0, .dsvc 0, .dnode 0, .dnot 0], by decide, by decide, by decide⟩

/-- strongest true variant: nothing is left iff no node directory stayed behind -/
theorem all_dropped_clean_partial {w : World} (h : AllDropped w) : resources w = [] ↔ (w.cfg.ipc = false ∨ dirsLeft w = 0) := by
  rw [all_dropped_resources h]
  by_cases hi : w.cfg.ipc = true
  · by_cases hz : dirsLeft w = 0
    · simp [hi, hz]
    · simp [hi, hz]
  · simp [hi]

/-- the call drops a port whose node has lost both its node handle and its service handle already -/
def PortDropAfterHandles (w : World) (op : Op) (k : Nat) : Prop :=
  (∃ n N P, op = .dnot n ∧ w.nots n = some N ∧ N.st = .alive ∧ N.node = k ∧ w.parts k = some P ∧ P.handle = false ∧ P.svc = false) ∨
  (∃ l L P, op = .dlis l ∧ w.liss l = some L ∧ L.st = .alive ∧ L.node = k ∧ w.parts k = some P ∧ P.handle = false ∧ P.svc = false)

theorem afterPortDrop_dirLeft {before after : World} {k j : Nat} {P' : Part}
    (h : (afterPortDrop before after k).parts j = some P') (hd : P'.dirLeft = true) :
    (after.parts j = some P' ) ∨ (j = k ∧ ∃ P, after.parts k = some P ∧ P.handle = false ∧ P.svc = false) := by
  unfold afterPortDrop at h
  split at h
  · rename_i hc
    split at h
    · rename_i P hP
      simp only [setP_parts] at h
      by_cases hj : j = k
      · subst hj
        right
        refine ⟨rfl, P, hP, ?_⟩
        have hc : nodeCore after j = false := by
          cases hx : nodeCore after j <;> simp_all
        simp only [nodeCore, hP, svcCore] at hc
        simp only [Bool.or_eq_false_iff] at hc
        exact ⟨hc.1, hc.2.1.1⟩
      · simp [hj] at h; exact Or.inl h
    · exact Or.inl h
  · exact Or.inl h

theorem cleanNode_dirLeft (acc : World × Nat) (d : Nat) {j : Nat} {P' : Part} (h : (cleanNode acc d).1.parts j = some P')
    (hd : P'.dirLeft = true) : acc.1.parts j = some P' := by
  rw [cleanNode_eq] at h
  split at h
  · exact h
  · rename_i P hP
    split at h
    · exact h
    · simp only [] at h
      have key : ∀ w2 : World, w2.parts = (setP (purge acc.1 d) d (cleanedPart P)).parts → w2.parts j = some P' → acc.1.parts j = some P' := by
        intro w2 e hj
        rw [e] at hj
        simp only [setP_parts] at hj
        by_cases hjd : j = d
        · subst hjd; simp at hj; subst hj; simp [cleanedPart] at hd
        · simpa [hjd, purge] using hj
      split at h
      · refine key _ ?_ h
        unfold deadSignal
        repeat' split
        all_goals rfl
      · exact key _ rfl h

theorem foldl_cleanNode_dirLeft (ks : List Nat) (acc : World × Nat) {j : Nat} {P' : Part}
    (h : (ks.foldl cleanNode acc).1.parts j = some P') (hd : P'.dirLeft = true) : acc.1.parts j = some P' := by
  induction ks generalizing acc with
  | nil => exact h
  | cons k ks ih => exact cleanNode_dirLeft acc k (ih _ h) hd

theorem dropEmit_parts (w : World) (n : Nat) (N : Noti) : (dropEmit w n N).parts = w.parts := by
  unfold dropEmit
  split
  · exact (notifyCore_frame _ _ _ _).2.2.2.1
  · rfl

/-- A node directory stays behind only in one way: a port is dropped after both the node handle and the service handle of its
node were dropped. -/
theorem dirLeft_only_by_port_drop_after_handles (w : World) (op : Op) {k : Nat} {P' : Part}
    (h : (step w op).1.parts k = some P') (hd : P'.dirLeft = true) :
    (∃ P, w.parts k = some P ∧ P.dirLeft = true) ∨ PortDropAfterHandles w op k := by
  have same : w.parts k = some P' → (∃ P, w.parts k = some P ∧ P.dirLeft = true) ∨ PortDropAfterHandles w op k :=
    fun e => Or.inl ⟨P', e, hd⟩
  cases op with
  | «open» j =>
    simp only [step] at h
    repeat' split at h
    all_goals first
      | exact same h
      | (simp only [setP_parts] at h
         by_cases hj : k = j
         · subst hj; simp at h; subst h; simp at hd
         · simp [hj] at h; exact same h)
  | cnot n d j =>
    rcases step_cnot_cases w n j d with ⟨e, _⟩ | ⟨o, e, _, _⟩ | ⟨P, e, _⟩ | ⟨P, reg, slot, _, hn, hP, e⟩
    · rw [e] at h; exact same h
    · rw [e] at h; exact same h
    · rw [e] at h; exact same h
    · rw [step_cnot_ok hn hP e] at h
      apply same
      cases hcr : w.cfg.created with
      | none => rw [hcr] at h; exact h
      | some cid =>
        rw [hcr] at h
        simp only [(notifyCore_frame _ _ _ _).2.2.2.1] at h
        exact h
  | dnot n =>
    simp only [step] at h
    split at h
    · exact same h
    · rename_i N hN
      split at h
      · exact same h
      · rename_i hst
        have hst : N.st = .alive := by
          cases hx : N.st <;> simp [hx] at hst ⊢
        rcases afterPortDrop_dirLeft h hd with h1 | ⟨hk, P, hP, a, b⟩
        · apply same
          simpa [dnotBase, dropEmit_parts] using h1
        · right; left
          subst hk
          exact ⟨n, N, P, rfl, hN, hst, rfl, by simpa [dnotBase, dropEmit_parts] using hP, a, b⟩
  | clis l j =>
    rcases step_clis_cases w l j with ⟨e, _⟩ | ⟨o, e, _, _⟩ | ⟨P, e, _⟩ | ⟨P, reg, slot, _, hn, hP, e⟩
    · rw [e] at h; exact same h
    · rw [e] at h; exact same h
    · rw [e] at h; exact same h
    · rw [step_clis_ok hn hP e] at h; exact same h
  | dlis l =>
    simp only [step] at h
    split at h
    · exact same h
    · rename_i L hL
      split at h
      · exact same h
      · rename_i hst
        have hst : L.st = .alive := by
          cases hx : L.st <;> simp [hx] at hst ⊢
        rcases afterPortDrop_dirLeft h hd with h1 | ⟨hk, P, hP, a, b⟩
        · exact same h1
        · right; right
          subst hk
          exact ⟨l, L, P, rfl, hL, hst, rfl, hP, a, b⟩
  | notify n =>
    simp only [step] at h
    repeat' split at h
    all_goals first
      | exact same h
      | (simp only [(notifyCore_frame _ _ _ _).2.2.2.1] at h; exact same h)
  | notifyId n id =>
    simp only [step] at h
    repeat' split at h
    all_goals first
      | exact same h
      | (simp only [(notifyCore_frame _ _ _ _).2.2.2.1] at h; exact same h)
  | wait l =>
    simp only [step] at h
    repeat' split at h
    all_goals exact same h
  | keys n =>
    simp only [step] at h
    repeat' split at h
    all_goals exact same h
  | notifyOne n slot l id =>
    simp only [step] at h
    repeat' split at h
    all_goals first
      | exact same h
      | (simp only [(notifyOneCore_frame _ _ _ _ _ _).2.2.2.1] at h; exact same h)
  | count j =>
    simp only [step] at h
    repeat' split at h
    all_goals exact same h
  | dnode j =>
    simp only [step] at h
    split at h
    · exact same h
    · rename_i P hP
      repeat' split at h
      all_goals first
        | exact same h
        | (simp only [setP_parts] at h
           by_cases hj : k = j
           · subst hj; simp at h; subst h; exact Or.inl ⟨P, hP, hd⟩
           · simp [hj] at h; exact same h)
  | dsvc j =>
    simp only [step] at h
    split at h
    · exact same h
    · rename_i P hP
      repeat' split at h
      all_goals first
        | exact same h
        | (simp only [setP_parts] at h
           by_cases hj : k = j
           · subst hj; simp at h; subst h; exact Or.inl ⟨P, hP, hd⟩
           · simp [hj] at h; exact same h)
  | kill j =>
    simp only [step] at h
    split at h
    · exact same h
    · rename_i P hP
      repeat' split at h
      all_goals first
        | exact same h
        | (have h : (setP w j { P with dead := true }).parts k = some P' := h
           simp only [setP_parts] at h
           by_cases hj : k = j
           · subst hj; simp at h; subst h; exact Or.inl ⟨P, hP, hd⟩
           · simp [hj] at h; exact same h)
  | cleanup j =>
    simp only [step] at h
    repeat' split at h
    all_goals first
      | exact same h
      | exact same (foldl_cleanNode_dirLeft _ (w, 0) h hd)
  | ls => exact same h

/-- histories in which no port is dropped after both handles of its node -/
inductive ReachHandlesLast (c : Cfg) : World → Prop
  | init : ReachHandlesLast c (World.init c)
  | step {w : World} (op : Op) : ReachHandlesLast c w → (∀ k, ¬ PortDropAfterHandles w op k) → ReachHandlesLast c (step w op).1

theorem ReachHandlesLast.reach {c : Cfg} {w : World} (r : ReachHandlesLast c w) : Reach c w := by
  induction r with
  | init => exact Reach.init
  | step op _ _ ih => exact Reach.step op ih

theorem ReachHandlesLast.no_dir_left {c : Cfg} {w : World} (r : ReachHandlesLast c w) :
    ∀ k P, w.parts k = some P → P.dirLeft = false := by
  induction r with
  | init =>
    intro k P h
    simp only [World.init] at h
    split at h
    · cases h; rfl
    · cases h
  | step op _ hno ih =>
    intro k P' h
    cases hd : P'.dirLeft with
    | false => rfl
    | true =>
      rcases dirLeft_only_by_port_drop_after_handles _ op h hd with ⟨P, hP, hPd⟩ | hp
      · rw [ih k P hP] at hPd; cases hPd
      · exact absurd hp (hno k)

/-- `_partial`: orderly shutdown in any order that drops, for every node, the node handle or the service handle last leaves
nothing behind. -/
theorem shutdown_leaves_nothing_partial {c : Cfg} {w : World} (r : ReachHandlesLast c w) (h : AllDropped w) : resources w = [] := by
  apply (all_dropped_clean_partial h).mpr
  right
  unfold dirsLeft
  have : w.partKeys.filter (dirLeftOf w) = [] := by
    apply List.filter_eq_nil_iff.mpr
    intro k _
    cases hP : w.parts k with
    | none => simp [dirLeftOf, hP]
    | some P => simp [dirLeftOf, hP, r.no_dir_left k P hP]
  rw [this]; rfl

/-- dropping the node handle or the service handle does not touch any port, registry or pending notification: the survivors
keep working exactly as before -/
theorem handles_drop_leaves_ports_alone (w : World) (k : Nat) :
    ((step w (.dnode k)).1.liss = w.liss ∧ (step w (.dnode k)).1.nots = w.nots ∧ (step w (.dnode k)).1.lisReg = w.lisReg ∧
     (step w (.dnode k)).1.notReg = w.notReg ∧ (step w (.dnode k)).1.hist = w.hist) ∧
    ((step w (.dsvc k)).1.liss = w.liss ∧ (step w (.dsvc k)).1.nots = w.nots ∧ (step w (.dsvc k)).1.lisReg = w.lisReg ∧
     (step w (.dsvc k)).1.notReg = w.notReg ∧ (step w (.dsvc k)).1.hist = w.hist) := by
  constructor
  · simp only [step]
    repeat' split
    all_goals exact ⟨rfl, rfl, rfl, rfl, rfl⟩
  · simp only [step]
    repeat' split
    all_goals exact ⟨rfl, rfl, rfl, rfl, rfl⟩

end Iox2.EventPorts
