/-
Frame properties of the operations of the model `Iox2.ResizeMem`: an operation on one chunk (or on
a view) leaves the record and the bytes of every other live chunk alone.
-/
import Iox2.Proof.ResizeMemStep

namespace Iox2.ResizeMem
open Iox2.Alloc

/-- the chunk label an owner-side operation works on -/
def Op.target : Op → Option Nat
  | .alloc l _ _ => some l
  | .write l _ => some l
  | .dealloc l => some l
  | .grow l _ _ _ => some l
  | _ => none

/-- two different live chunks of one segment occupy different buckets -/
theorem buckets_disjoint {segs : List Seg} {cur : Nat} {cs : List Chunk} (hinv : MInv segs cur cs)
    {a b : Chunk} (ha : a ∈ cs) (hb : b ∈ cs) (hal : a.live = true) (hbl : b.live = true)
    (hne : a.label ≠ b.label) (hseg : a.seg = b.seg) :
    ∃ g, getSeg segs a.seg = some g ∧ a.size ≤ g.stride ∧ b.size ≤ g.stride ∧
      (a.off + g.stride ≤ b.off ∨ b.off + g.stride ≤ a.off) := by
  obtain ⟨g, hg, i, h1, _, _, h4, _, _⟩ := hinv.chunks_ok a ha hal
  obtain ⟨g', hg', j, k1, _, _, k4, _, _⟩ := hinv.chunks_ok b hb hbl
  have : g' = g := by rw [← hseg, hg] at hg'; exact (Option.some.inj hg').symm
  subst this
  refine ⟨g', hg, h4, k4, ?_⟩
  have hij : i ≠ j := by
    intro hij
    have := hinv.distinct a ha b hb hal hbl hseg (by rw [h1, k1, hij])
    exact hne (by rw [this])
  rw [h1, k1]
  rcases Nat.lt_or_gt_of_ne hij with h | h
  · left
    have : (i + 1) * g'.stride ≤ j * g'.stride := Nat.mul_le_mul_right _ h
    rw [Nat.add_mul, Nat.one_mul] at this
    exact this
  · right
    have : (j + 1) * g'.stride ≤ i * g'.stride := Nat.mul_le_mul_right _ h
    rw [Nat.add_mul, Nat.one_mul] at this
    exact this

theorem live_seg_le {segs : List Seg} {cur : Nat} {cs : List Chunk} (hinv : MInv segs cur cs)
    {c : Chunk} (hc : c ∈ cs) (hl : c.live = true) : c.seg ≤ cur := by
  obtain ⟨g, hg, _⟩ := hinv.chunks_ok c hc hl
  obtain ⟨hgm, hgid⟩ := getSeg_some hg
  rw [← hgid]; exact (hinv.segs_ok g hgm).id_le

/-! ### the chunk records of other labels are untouched -/
theorem growChunk_chunks {s : St} (hinv : Inv s) {c : Chunk} {size align : Nat} (hp : Pow2 align) (pl : Placement)
    {x : Chunk} (hx : x ∈ s.chunks) (hne : x.label ≠ c.label) :
    x ∈ (growChunk s c size align pl).1.chunks := by
  unfold growChunk
  obtain ⟨g, hg⟩ := hinv.mem.cur_in
  rw [hg]
  simp only
  split
  · exact hx
  · split
    · exact hx
    · split
      · split
        · exact hx
        · cases hc : createResized s g size align with
          | none => exact hx
          | some s1 =>
            simp only
            obtain ⟨hinv1, hch, _, _, _, _, _, _⟩ := minv_createResized hinv.mem hg hp hc
            obtain ⟨g1, hg1⟩ := hinv1.cur_in
            rw [hg1]
            simp only
            cases ha : g1.allocate size align with
            | mk g1' r =>
              cases r with
              | error e => simp only; rw [hch]; exact hx
              | ok off =>
                simp only [deallocate_frame]
                rw [hch]
                exact mem_putChunk.mpr (Or.inr ⟨hx, hne⟩)
      · exact mem_putChunk.mpr (Or.inr ⟨hx, hne⟩)

/-- **an operation on another label (or on a view) keeps the record of a chunk as it is** -/
theorem step_keeps_chunk {s : St} (hinv : Inv s) (op : Op) (hok : OpOk s op) {x : Chunk} (hx : x ∈ s.chunks)
    (hne : op.target ≠ some x.label) : x ∈ (step s op).1.chunks := by
  cases op with
  | alloc l size align =>
    have hne' : x.label ≠ l := fun h => hne (by simp [Op.target, h])
    simp only [step]
    cases hl : liveChunk s l with
    | some c => exact hx
    | none =>
      simp only
      obtain ⟨s1, _, h2, _, _, _, _, _, h8⟩ := allocate_spec s size align hinv.mem hok
      rcases h8 with h8 | ⟨g, g', off, _, _, h8⟩
      · rw [h8]; simp only; rw [h2]; exact hx
      · rw [h8]; simp only; rw [h2]
        exact mem_putChunk.mpr (Or.inr ⟨hx, hne'⟩)
  | write l b =>
    simp only [step]
    cases hl : liveChunk s l with
    | none => exact hx
    | some c => simp only; split <;> exact hx
  | dealloc l =>
    have hne' : x.label ≠ l := fun h => hne (by simp [Op.target, h])
    simp only [step]
    cases hl : liveChunk s l with
    | none => exact hx
    | some c =>
      simp only
      split
      · exact hx
      · simp only [deallocate_frame]
        have := (liveChunk_some hl).2.1
        exact mem_putChunk.mpr (Or.inr ⟨hx, by rw [this]; exact hne'⟩)
  | grow l size align pl =>
    have hne' : x.label ≠ l := fun h => hne (by simp [Op.target, h])
    simp only [step]
    cases hl : liveChunk s l with
    | none => exact hx
    | some c =>
      simp only
      split
      · exact hx
      · have := (liveChunk_some hl).2.1
        exact growChunk_chunks hinv hok.1 pl hx (by rw [this]; exact hne')
  | vreg v l =>
    simp only [step]
    cases hv : s.views[v]? with
    | none => exact hx
    | some vw =>
      simp only
      split
      · exact hx
      · cases hc : getChunk s.chunks l with
        | none => exact hx
        | some c =>
          simp only
          cases hr : vw.register (getSeg s.segs c.seg).isSome c.seg <;> exact hx
  | vread v l =>
    simp only [step]
    cases hv : s.views[v]? with
    | none => exact hx
    | some vw =>
      simp only
      cases hf : vw.regs.find? (fun r => decide (r.label = l)) <;> exact hx
  | vunreg v l =>
    simp only [step]
    cases hv : s.views[v]? with
    | none => exact hx
    | some vw =>
      simp only
      cases hf : vw.regs.find? (fun r => decide (r.label = l)) <;> exact hx
  | segments => exact hx
  | vsegments v =>
    simp only [step]
    cases hv : s.views[v]? <;> exact hx

/-! ### the bytes of other live chunks are untouched -/
theorem fillMem_other (m : Nat → Nat → Nat) (seg off size b seg' o : Nat)
    (h : seg' ≠ seg ∨ o < off ∨ off + size ≤ o) : fillMem m seg off size b seg' o = m seg' o := by
  unfold fillMem
  rw [if_neg]
  omega

theorem copyMem_other (m : Nat → Nat → Nat) (sseg soff dseg doff len seg' o : Nat)
    (h : seg' ≠ dseg ∨ o < doff ∨ doff + len ≤ o) : copyMem m sseg soff dseg doff len seg' o = m seg' o := by
  unfold copyMem
  rw [if_neg]
  omega

theorem growChunk_mem {s : St} (hinv : Inv s) {c : Chunk} (hcm : c ∈ s.chunks) (hlive : c.live = true)
    {size align : Nat} (hp : Pow2 align) (hcur : c.seg = s.cur) (pl : Placement)
    {x : Chunk} (hx : x ∈ s.chunks) (hxl : x.live = true) (hne : x.label ≠ c.label)
    (o : Nat) (ho1 : x.off ≤ o) (ho2 : o < x.off + x.size) :
    (growChunk s c size align pl).1.mem x.seg o = s.mem x.seg o := by
  unfold growChunk
  obtain ⟨g, hg⟩ := hinv.mem.cur_in
  rw [hg]
  simp only
  split
  · rfl
  · split
    · rfl
    · rename_i hshr
      split
      · split
        · rfl
        · cases hc : createResized s g size align with
          | none => rfl
          | some s1 =>
            simp only
            obtain ⟨hinv1, _, hmem, _, _, hcur1, _, _⟩ := minv_createResized hinv.mem hg hp hc
            obtain ⟨g1, hg1⟩ := hinv1.cur_in
            rw [hg1]
            simp only
            cases ha : g1.allocate size align with
            | mk g1' r =>
              cases r with
              | error e => simp only; rw [hmem]
              | ok off =>
                simp only [deallocate_frame]
                rw [copyMem_other, hmem]
                left
                have := live_seg_le hinv.mem hx hxl
                omega
      · -- in place: bytes move inside the chunk's own bucket
        rename_i hsz
        simp only
        split
        · rename_i hback
          by_cases hxs : x.seg = s.cur
          · obtain ⟨g0, hg0, _, hcs, hdis⟩ := buckets_disjoint hinv.mem hx hcm hxl hlive hne (by rw [hxs, hcur])
            have : g0 = g := by rw [hxs, hg] at hg0; exact (Option.some.inj hg0).symm
            subst this
            apply copyMem_other
            right
            omega
          · exact copyMem_other _ _ _ _ _ _ _ _ (Or.inl hxs)
        · rfl

/-- **an operation on another label (or on a view) does not change a single byte of a live chunk** -/
theorem step_keeps_bytes {s : St} (hinv : Inv s) (op : Op) (hok : OpOk s op) {x : Chunk} (hx : x ∈ s.chunks)
    (hxl : x.live = true) (hne : op.target ≠ some x.label) (o : Nat) (ho1 : x.off ≤ o) (ho2 : o < x.off + x.size) :
    (step s op).1.mem x.seg o = s.mem x.seg o := by
  cases op with
  | alloc l size align =>
    simp only [step]
    cases hl : liveChunk s l with
    | some c => rfl
    | none =>
      simp only
      obtain ⟨s1, _, _, h3, _, _, _, _, h8⟩ := allocate_spec s size align hinv.mem hok
      rcases h8 with h8 | ⟨g, g', off, _, _, h8⟩
      · rw [h8]; simp only; rw [h3]
      · rw [h8]; simp only; rw [h3]
  | write l b =>
    have hne' : x.label ≠ l := fun h => hne (by simp [Op.target, h])
    simp only [step]
    cases hl : liveChunk s l with
    | none => rfl
    | some c =>
      simp only
      split
      · rfl
      · obtain ⟨hcm, hcl, hclive⟩ := liveChunk_some hl
        simp only
        apply fillMem_other
        by_cases hseg : x.seg = c.seg
        · obtain ⟨g0, _, _, hcs, hdis⟩ := buckets_disjoint hinv.mem hx hcm hxl hclive (by rw [hcl]; exact hne') hseg
          right; omega
        · exact Or.inl hseg
  | dealloc l =>
    simp only [step]
    cases hl : liveChunk s l with
    | none => rfl
    | some c =>
      simp only
      split
      · rfl
      · simp only [deallocate_frame]
  | grow l size align pl =>
    have hne' : x.label ≠ l := fun h => hne (by simp [Op.target, h])
    simp only [step]
    cases hl : liveChunk s l with
    | none => rfl
    | some c =>
      simp only
      split
      · rfl
      · obtain ⟨hcm, hcl, hclive⟩ := liveChunk_some hl
        exact growChunk_mem hinv hcm hclive hok.1 (hok.2 c hl) pl hx hxl (by rw [hcl]; exact hne') o ho1 ho2
  | vreg v l =>
    simp only [step]
    cases hv : s.views[v]? with
    | none => rfl
    | some vw =>
      simp only
      split
      · rfl
      · cases hc : getChunk s.chunks l with
        | none => rfl
        | some c =>
          simp only
          cases hr : vw.register (getSeg s.segs c.seg).isSome c.seg <;> rfl
  | vread v l =>
    simp only [step]
    cases hv : s.views[v]? with
    | none => rfl
    | some vw =>
      simp only
      cases hf : vw.regs.find? (fun r => decide (r.label = l)) <;> rfl
  | vunreg v l =>
    simp only [step]
    cases hv : s.views[v]? with
    | none => rfl
    | some vw =>
      simp only
      cases hf : vw.regs.find? (fun r => decide (r.label = l)) <;> rfl
  | segments => rfl
  | vsegments v =>
    simp only [step]
    cases hv : s.views[v]? <;> rfl

/-! ### owner-side operations do not touch the views; view operations do not touch the owner -/
theorem step_owner_keeps_views {s : St} (hinv : Inv s) (op : Op) (hok : OpOk s op) (ht : op.target ≠ none) :
    (step s op).1.views = s.views := by
  have h := step_inv hinv op hok
  cases op with
  | alloc l size align =>
    simp only [step]
    cases hl : liveChunk s l with
    | some c => rfl
    | none =>
      simp only
      obtain ⟨s1, _, _, _, h4, _, _, _, h8⟩ := allocate_spec s size align hinv.mem hok
      rcases h8 with h8 | ⟨g, g', off, _, _, h8⟩
      · rw [h8]; simp only; rw [h4]
      · rw [h8]; simp only; rw [h4]
  | write l b =>
    simp only [step]
    cases hl : liveChunk s l with
    | none => rfl
    | some c => simp only; split <;> rfl
  | dealloc l =>
    simp only [step]
    cases hl : liveChunk s l with
    | none => rfl
    | some c =>
      simp only
      split
      · rfl
      · simp only [deallocate_frame]
  | grow l size align pl =>
    simp only [step]
    cases hl : liveChunk s l with
    | none => rfl
    | some c =>
      simp only
      split
      · rfl
      · unfold growChunk
        obtain ⟨g, hg⟩ := hinv.mem.cur_in
        rw [hg]
        simp only
        split
        · rfl
        · split
          · rfl
          · split
            · split
              · rfl
              · cases hc : createResized s g size align with
                | none => rfl
                | some s1 =>
                  simp only
                  obtain ⟨hinv1, _, _, hviews, _, _, _, _⟩ := minv_createResized hinv.mem hg hok.1 hc
                  obtain ⟨g1, hg1⟩ := hinv1.cur_in
                  rw [hg1]
                  simp only
                  cases ha : g1.allocate size align with
                  | mk g1' r =>
                    cases r with
                    | error e => simp only; rw [hviews]
                    | ok off => simp only [deallocate_frame]; rw [hviews]
            · rfl
  | vreg v l => simp [Op.target] at ht
  | vread v l => simp [Op.target] at ht
  | vunreg v l => simp [Op.target] at ht
  | segments => simp [Op.target] at ht
  | vsegments v => simp [Op.target] at ht

end Iox2.ResizeMem
