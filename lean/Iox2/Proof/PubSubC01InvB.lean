/-
Layer B of the C01 invariant: reference counting, non-reuse of chunks, payload of pending samples.
-/
import Iox2.Proof.PubSubC01Inv
namespace Iox2.PubSub.C01P
open Iox2.PubSub

def usedCnt (w : World) (p c : Nat) : Nat :=
  (w.conns.filter fun cn => cn.pid = p ∧ cn.sAtt = true ∧ cn.used.getD c false = true).length

def heldCh (S : Sub) (p : Nat) : List Nat := (S.held.filter (·.pid = p)).map (·.chunk)

/-- `fl = some (p, c, fresh)`: a `send` of publisher `p` is in progress with chunk `c` (the `SampleMut`
holds one reference that is no longer listed in `loans`); `fresh`: nothing has been done with the
chunk yet (it is neither in the history nor delivered anywhere) -/
def inflight (fl : Option (Nat × Nat × Bool)) (p c : Nat) : Nat :=
  match fl with
  | some (p', c', _) => if p' = p ∧ c' = c then 1 else 0
  | none => 0

/-- chunks in flight on a connection: submission queue, completion queue, borrowed by the subscriber -/
def inq (cn : Conn) (S : Sub) : List Nat := cn.sub.map (·.1) ++ cn.comp ++ heldCh S cn.pid

/-- the connection keys are pairwise different -/
def KeysNodup (w : World) : Prop := w.conns.Pairwise fun a b => ¬ (a.pid = b.pid ∧ a.sid = b.sid)

structure InvB (fl : Option (Nat × Nat × Bool)) (w : World) : Prop where
  keys : KeysNodup w
  lens : ∀ p P, getP w p = some P →
    P.rc.length = P.n ∧ P.payload.length = P.n ∧ P.chunkSeq.length = P.n ∧ P.sent.length = P.seq
  usedLen : ∀ cn ∈ w.conns, ∀ P, getP w cn.pid = some P → cn.used.length = P.n
  free : ∀ p P, getP w p = some P → P.ex = true →
    P.free.Nodup ∧ ∀ c, c ∈ P.free ↔ (c < P.n ∧ P.rc.getD c 0 = 0)
  rc : ∀ p P, getP w p = some P → P.ex = true → ∀ c, c < P.n →
    P.rc.getD c 0 = (P.loans.filter (·.2 = c)).length + (P.hist.filter (· = c)).length
      + usedCnt w p c + inflight fl p c
  loans : ∀ p P, getP w p = some P → P.ex = true →
    (P.loans.map (·.1)).Nodup ∧ ∀ l c, (l, c) ∈ P.loans → c < P.n ∧ P.rc.getD c 0 = 1
  deadLoans : ∀ p P, getP w p = some P → P.ex = false → P.loans = []
  histOk : ∀ p P, getP w p = some P → P.ex = true → P.hist.Nodup ∧ ∀ c ∈ P.hist,
    c < P.n ∧ P.payload.getD c 0 = P.sent.getD (P.chunkSeq.getD c 0) 0 ∧ P.chunkSeq.getD c 0 < P.seq
  flOk : ∀ p c fr, fl = some (p, c, fr) → ∃ P, getP w p = some P ∧ P.ex = true ∧ c < P.n ∧
    (fr = true → P.rc.getD c 0 = 1)
  inqOk : ∀ cn ∈ w.conns, cn.sAtt = true → ∀ P S, getP w cn.pid = some P → P.ex = true →
    getS w cn.sid = some S → (inq cn S).Nodup ∧ ∀ c ∈ inq cn S, cn.used.getD c false = true
  unatt : ∀ cn ∈ w.conns, cn.sAtt = false → ∀ P, getP w cn.pid = some P → P.ex = true →
    ∀ c, cn.used.getD c false = false
  ppi : ∀ cn ∈ w.conns, ∀ P S, getP w cn.pid = some P → getS w cn.sid = some S →
    (cn.sAtt = true ∨ S.alive = true) → ∀ ch q, (ch, q) ∈ cn.sub →
    P.payload.getD ch 0 = P.sent.getD q 0 ∧ q < P.seq

end Iox2.PubSub.C01P
