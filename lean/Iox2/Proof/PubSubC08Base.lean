/-
C08 helper: accessor lemmas for the `Iox2.PubSub` world (functional view of the association
lists) and the structural frame relations `PStep` / `SStep`.
-/
import Iox2.Model.PubSub
set_option linter.unusedSimpArgs false
namespace Iox2.PubSub.C08
open Iox2.PubSub

/-! ### association lists -/

theorem find_map_upd {β : Type} (l : List (Nat × β)) (p q : Nat) (x : β) :
    ((l.map fun e => if e.1 = p then (p, x) else e).find? (·.1 = q)).map (·.2) =
      if q = p then ((l.find? (·.1 = p)).map fun _ => x) else (l.find? (·.1 = q)).map (·.2) := by
  induction l with
  | nil => simp
  | cons a l ih =>
    by_cases hq : q = p
    · subst hq
      simp only [if_true] at ih ⊢
      by_cases ha : a.1 = q
      · simp [List.find?_cons, ha]
      · simp only [List.map_cons, ha, if_false, List.find?_cons, decide_false]
        simpa using ih
    · simp only [hq, if_false] at ih ⊢
      by_cases ha : a.1 = p
      · have : ¬ p = q := fun h => hq h.symm
        have h2 : ¬ a.1 = q := by rw [ha]; exact this
        simp only [List.map_cons, ha, if_true, List.find?_cons, this, decide_false, h2]
        exact ih
      · simp only [List.map_cons, ha, if_false, List.find?_cons]
        by_cases h2 : a.1 = q
        · simp [h2]
        · simp only [h2, decide_false]; exact ih

@[simp] theorem getP_setP (w : World) (p q : Nat) (x : Pub) :
    getP (setP w p x) q = if q = p then (getP w p).map (fun _ => x) else getP w q := by
  unfold getP setP
  simp only [find_map_upd]
  split <;> simp [Option.map_map, Function.comp_def]
@[simp] theorem getS_setS (w : World) (s q : Nat) (x : Sub) :
    getS (setS w s x) q = if q = s then (getS w s).map (fun _ => x) else getS w q := by
  unfold getS setS
  simp only [find_map_upd]
  split <;> simp [Option.map_map, Function.comp_def]

@[simp] theorem getS_setP (w : World) (p q : Nat) (x : Pub) : getS (setP w p x) q = getS w q := rfl
@[simp] theorem getP_setS (w : World) (s q : Nat) (x : Sub) : getP (setS w s x) q = getP w q := rfl
@[simp] theorem getC_setP (w : World) (p a b : Nat) (x : Pub) : getC (setP w p x) a b = getC w a b := rfl
@[simp] theorem getC_setS (w : World) (s a b : Nat) (x : Sub) : getC (setS w s x) a b = getC w a b := rfl
@[simp] theorem getP_setC (w : World) (x : Conn) (q : Nat) : getP (setC w x) q = getP w q := rfl
@[simp] theorem getS_setC (w : World) (x : Conn) (q : Nat) : getS (setC w x) q = getS w q := rfl

@[simp] theorem conns_setP (w : World) (p : Nat) (x : Pub) : (setP w p x).conns = w.conns := rfl
@[simp] theorem conns_setS (w : World) (p : Nat) (x : Sub) : (setS w p x).conns = w.conns := rfl
@[simp] theorem subs_setP (w : World) (p : Nat) (x : Pub) : (setP w p x).subs = w.subs := rfl
@[simp] theorem pubs_setS (w : World) (p : Nat) (x : Sub) : (setS w p x).pubs = w.pubs := rfl
@[simp] theorem pubs_setC (w : World) (x : Conn) : (setC w x).pubs = w.pubs := rfl
@[simp] theorem subs_setC (w : World) (x : Conn) : (setC w x).subs = w.subs := rfl
@[simp] theorem cfg_setP (w : World) (p : Nat) (x : Pub) : (setP w p x).cfg = w.cfg := rfl
@[simp] theorem cfg_setS (w : World) (p : Nat) (x : Sub) : (setS w p x).cfg = w.cfg := rfl
@[simp] theorem cfg_setC (w : World) (x : Conn) : (setC w x).cfg = w.cfg := rfl
@[simp] theorem pubReg_setP (w : World) (p : Nat) (x : Pub) : (setP w p x).pubReg = w.pubReg := rfl
@[simp] theorem pubReg_setS (w : World) (p : Nat) (x : Sub) : (setS w p x).pubReg = w.pubReg := rfl
@[simp] theorem pubReg_setC (w : World) (x : Conn) : (setC w x).pubReg = w.pubReg := rfl
@[simp] theorem subReg_setP (w : World) (p : Nat) (x : Pub) : (setP w p x).subReg = w.subReg := rfl
@[simp] theorem subReg_setS (w : World) (p : Nat) (x : Sub) : (setS w p x).subReg = w.subReg := rfl
@[simp] theorem subReg_setC (w : World) (x : Conn) : (setC w x).subReg = w.subReg := rfl
@[simp] theorem panicked_setP (w : World) (p : Nat) (x : Pub) : (setP w p x).panicked = w.panicked := rfl
@[simp] theorem panicked_setS (w : World) (p : Nat) (x : Sub) : (setS w p x).panicked = w.panicked := rfl
@[simp] theorem panicked_setC (w : World) (x : Conn) : (setC w x).panicked = w.panicked := rfl

/-! ### connections -/

theorem getC_key {w : World} {p s : Nat} {c : Conn} (h : getC w p s = some c) : c.pid = p ∧ c.sid = s := by
  unfold getC at h
  have := List.find?_some h
  simpa using this

theorem getC_mem {w : World} {p s : Nat} {c : Conn} (h : getC w p s = some c) : c ∈ w.conns := by
  unfold getC at h
  exact List.mem_of_find?_eq_some h

theorem findC_map_upd (l : List Conn) (x : Conn) (p s : Nat) :
    (l.map fun c => if c.pid = x.pid ∧ c.sid = x.sid then x else c).find? (fun c => c.pid = p ∧ c.sid = s) =
      if p = x.pid ∧ s = x.sid then (l.find? fun c => c.pid = p ∧ c.sid = s).map (fun _ => x)
      else l.find? fun c => c.pid = p ∧ c.sid = s := by
  induction l with
  | nil => simp
  | cons a l ih =>
    by_cases hk : p = x.pid ∧ s = x.sid
    · obtain ⟨rfl, rfl⟩ := hk
      simp only [and_self, if_true] at ih ⊢
      by_cases ha : a.pid = x.pid ∧ a.sid = x.sid
      · simp [List.find?_cons, ha]
      · simp only [List.map_cons, ha, if_false, List.find?_cons, decide_false]
        simpa using ih
    · simp only [hk, if_false] at ih ⊢
      by_cases ha : a.pid = x.pid ∧ a.sid = x.sid
      · have h2 : ¬ (x.pid = p ∧ x.sid = s) := fun h => hk ⟨h.1.symm, h.2.symm⟩
        have h3 : ¬ (a.pid = p ∧ a.sid = s) := by rw [ha.1, ha.2]; exact h2
        simp only [List.map_cons, ha, and_self, if_true, List.find?_cons, h2, decide_false, h3]
        exact ih
      · simp only [List.map_cons, ha, if_false, List.find?_cons]
        by_cases h3 : a.pid = p ∧ a.sid = s
        · simp [h3]
        · simp only [h3, decide_false]; exact ih

theorem getC_setC (w : World) (x : Conn) (p s : Nat) :
    getC (setC w x) p s =
      if p = x.pid ∧ s = x.sid then (getC w p s).map (fun _ => x) else getC w p s := by
  unfold getC setC; exact findC_map_upd _ _ _ _

/-- appending a connection -/
def pushC (w : World) (x : Conn) : World := { w with conns := w.conns ++ [x] }
/-- removing the connection `(p, s)` -/
def dropC (w : World) (p s : Nat) : World :=
  { w with conns := w.conns.filter fun c => ¬ (c.pid = p ∧ c.sid = s) }

theorem getC_pushC (w : World) (x : Conn) (p s : Nat) (h : getC w x.pid x.sid = none) :
    getC (pushC w x) p s = if p = x.pid ∧ s = x.sid then some x else getC w p s := by
  unfold getC pushC at *
  simp only [List.find?_append]
  by_cases hk : p = x.pid ∧ s = x.sid
  · obtain ⟨rfl, rfl⟩ := hk
    rw [h]; simp
  · simp only [hk, if_false]
    have : ¬ (x.pid = p ∧ x.sid = s) := fun h => hk ⟨h.1.symm, h.2.symm⟩
    simp [this]

theorem getC_dropC (w : World) (p0 s0 p s : Nat) :
    getC (dropC w p0 s0) p s = if p = p0 ∧ s = s0 then none else getC w p s := by
  unfold getC dropC
  simp only
  induction w.conns with
  | nil => simp
  | cons a l ih =>
    by_cases hk : p = p0 ∧ s = s0
    · obtain ⟨rfl, rfl⟩ := hk
      simp only [and_self, if_true] at ih ⊢
      by_cases ha : a.pid = p ∧ a.sid = s
      · simp only [List.filter_cons, ha, and_self, not_true_eq_false, decide_false]
        exact ih
      · simp only [List.filter_cons, ha, not_false_eq_true, decide_true, if_true, List.find?_cons, decide_false]
        exact ih
    · simp only [hk, if_false] at ih ⊢
      by_cases ha : a.pid = p0 ∧ a.sid = s0
      · have h3 : ¬ (a.pid = p ∧ a.sid = s) := by
          rw [ha.1, ha.2]; exact fun h => hk ⟨h.1.symm, h.2.symm⟩
        simp only [List.filter_cons, ha, and_self, not_true_eq_false, decide_false]
        simp only [Bool.false_eq_true, if_false, List.find?_cons, h3, decide_false]
        exact ih
      · simp only [List.filter_cons, ha, not_false_eq_true, decide_true, if_true, List.find?_cons]
        by_cases h3 : a.pid = p ∧ a.sid = s
        · simp [h3]
        · simp only [h3, decide_false]; exact ih

@[simp] theorem getP_pushC (w : World) (x : Conn) (q : Nat) : getP (pushC w x) q = getP w q := rfl
@[simp] theorem getS_pushC (w : World) (x : Conn) (q : Nat) : getS (pushC w x) q = getS w q := rfl
@[simp] theorem getP_dropC (w : World) (a b q : Nat) : getP (dropC w a b) q = getP w q := rfl
@[simp] theorem getS_dropC (w : World) (a b q : Nat) : getS (dropC w a b) q = getS w q := rfl
@[simp] theorem cfg_pushC (w : World) (x : Conn) : (pushC w x).cfg = w.cfg := rfl
@[simp] theorem cfg_dropC (w : World) (a b : Nat) : (dropC w a b).cfg = w.cfg := rfl
@[simp] theorem pubReg_pushC (w : World) (x : Conn) : (pushC w x).pubReg = w.pubReg := rfl
@[simp] theorem pubReg_dropC (w : World) (a b : Nat) : (dropC w a b).pubReg = w.pubReg := rfl
@[simp] theorem subReg_pushC (w : World) (x : Conn) : (pushC w x).subReg = w.subReg := rfl
@[simp] theorem subReg_dropC (w : World) (a b : Nat) : (dropC w a b).subReg = w.subReg := rfl
@[simp] theorem panicked_pushC (w : World) (x : Conn) : (pushC w x).panicked = w.panicked := rfl
@[simp] theorem panicked_dropC (w : World) (a b : Nat) : (dropC w a b).panicked = w.panicked := rfl

/-! ### structural frame relations -/

/-- what publisher-side helper functions may do to the world -/
inductive PStep : World → World → Prop
  | refl (w : World) : PStep w w
  | setP (w : World) (p : Nat) (x : Pub) : PStep w (setP w p x)
  | conns (w : World) (l : List Conn) : PStep w { w with conns := l }
  | trans {a b c : World} : PStep a b → PStep b c → PStep a c

/-- what subscriber-side helper functions may do to the world -/
inductive SStep : World → World → Prop
  | refl (w : World) : SStep w w
  | setS (w : World) (s : Nat) (x : Sub) : SStep w (setS w s x)
  | conns (w : World) (l : List Conn) : SStep w { w with conns := l }
  | panic (w : World) : SStep w { w with panicked := true }
  | trans {a b c : World} : SStep a b → SStep b c → SStep a c

theorem PStep.setC (w : World) (x : Conn) : PStep w (setC w x) := PStep.conns w _
theorem SStep.setC (w : World) (x : Conn) : SStep w (setC w x) := SStep.conns w _

theorem keys_map_upd {β : Type} (l : List (Nat × β)) (p : Nat) (x : β) :
    (l.map fun e => if e.1 = p then (p, x) else e).map (·.1) = l.map (·.1) := by
  induction l with
  | nil => rfl
  | cons a l ih =>
    simp only [List.map_cons, ih]
    by_cases h : a.1 = p <;> simp [h]

theorem PStep.frame {w w' : World} (h : PStep w w') :
    w'.cfg = w.cfg ∧ w'.pubReg = w.pubReg ∧ w'.subReg = w.subReg ∧ w'.subs = w.subs ∧
      w'.panicked = w.panicked ∧ w'.pubs.map (·.1) = w.pubs.map (·.1) := by
  induction h with
  | refl w => exact ⟨rfl, rfl, rfl, rfl, rfl, rfl⟩
  | setP w p x => exact ⟨rfl, rfl, rfl, rfl, rfl, keys_map_upd _ _ _⟩
  | conns w l => exact ⟨rfl, rfl, rfl, rfl, rfl, rfl⟩
  | trans _ _ ih1 ih2 =>
    obtain ⟨a1, a2, a3, a4, a5, a6⟩ := ih1
    obtain ⟨b1, b2, b3, b4, b5, b6⟩ := ih2
    exact ⟨b1.trans a1, b2.trans a2, b3.trans a3, b4.trans a4, b5.trans a5, b6.trans a6⟩

theorem SStep.frame {w w' : World} (h : SStep w w') :
    w'.cfg = w.cfg ∧ w'.pubReg = w.pubReg ∧ w'.subReg = w.subReg ∧ w'.pubs = w.pubs ∧
      (w.panicked = true → w'.panicked = true) ∧ w'.subs.map (·.1) = w.subs.map (·.1) := by
  induction h with
  | refl w => exact ⟨rfl, rfl, rfl, rfl, id, rfl⟩
  | setS w p x => exact ⟨rfl, rfl, rfl, rfl, id, keys_map_upd _ _ _⟩
  | conns w l => exact ⟨rfl, rfl, rfl, rfl, id, rfl⟩
  | panic w => exact ⟨rfl, rfl, rfl, rfl, fun _ => rfl, rfl⟩
  | trans _ _ ih1 ih2 =>
    obtain ⟨a1, a2, a3, a4, a5, a6⟩ := ih1
    obtain ⟨b1, b2, b3, b4, b5, b6⟩ := ih2
    exact ⟨b1.trans a1, b2.trans a2, b3.trans a3, b4.trans a4, fun h => b5 (a5 h), b6.trans a6⟩

end Iox2.PubSub.C08
