/-
C02 — concrete histories (evaluated by the kernel).
-/
import Iox2.Model.PubSub

namespace Iox2.PubSub.C02P
open Iox2.PubSub

/-- every state before a step of the run is not panicked -/
def noPanicRun (w : World) : List Op → Bool
  | [] => true
  | op :: r => !w.panicked && noPanicRun (step w op).1 r

theorem reach_run {cfg : Cfg} : ∀ (ops : List Op) (w : World), Reach cfg w → noPanicRun w ops = true →
    Reach cfg (run w ops)
  | [], w, h, _ => h
  | op :: r, w, h, hn => by
    simp only [noPanicRun, Bool.and_eq_true, Bool.not_eq_true'] at hn
    exact reach_run r _ (Reach.step op h hn.1) hn.2

/-! ### D16: the sample held through a dropped subscriber port changes -/

def cfgA : Cfg :=
  { maxPubs := 1, maxSubs := 1, bufMax := 1, hist := 0, borrowMax := 1, overflow := false, expired := 3 }
def opsA : List Op :=
  [.cpub 0 3, .csub 0 none none, .loan 0 1, .send 0 1 11, .recv 0, .dsub 0, .updP 0, .loan 0 2,
   .send 0 2 33]
def chkA (w : World) : Bool :=
  match getS w 0, getP w 0 with
  | some S, some P =>
    !w.panicked && S.held.any (fun hd => hd.pid == 0 && P.payload.getD hd.chunk 0 != hd.tag)
  | _, _ => false

set_option maxRecDepth 100000 in
theorem chkA_true : chkA (run (World.init cfgA) opsA) = true := by decide

theorem dropped_subscriber_sample_changes :
    ∃ (cfg : Cfg) (ops : List Op), cfg.Sane ∧
      let w := run (World.init cfg) ops
      w.panicked = false ∧
      ∃ s S hd P, getS w s = some S ∧ hd ∈ S.held ∧ getP w hd.pid = some P ∧
        P.payload.getD hd.chunk 0 ≠ hd.tag := by
  refine ⟨cfgA, opsA, by decide, ?_⟩
  have h := chkA_true
  generalize run (World.init cfgA) opsA = w at h
  simp only [chkA] at h
  split at h
  · rename_i S P hS hP
    simp only [Bool.and_eq_true, Bool.not_eq_true', List.any_eq_true, beq_iff_eq, bne_iff_ne] at h
    obtain ⟨hp, hd, hm, hpid, hne⟩ := h
    exact ⟨hp, 0, S, hd, P, hS, hm, by rw [hpid]; exact hP, hne⟩
  · cases h

/-! ### non-vacuity: a live subscriber holding a sample, a loan, history, a non-empty buffer -/

def cfgB : Cfg :=
  { maxPubs := 1, maxSubs := 1, bufMax := 2, hist := 1, borrowMax := 1, overflow := false, expired := 3 }
def opsB : List Op :=
  [.cpub 0 3, .csub 0 none none, .loan 0 1, .send 0 1 11, .recv 0, .loan 0 2, .send 0 2 22, .loan 0 3]
def chkB (w : World) : Bool :=
  match getS w 0, getP w 0, getC w 0 0 with
  | some S, some P, some cn =>
    !w.panicked && S.alive && !S.held.isEmpty && P.ex && !P.loans.isEmpty && !P.hist.isEmpty &&
      !cn.sub.isEmpty
  | _, _, _ => false

set_option maxRecDepth 100000 in
theorem chkB_true : chkB (run (World.init cfgB) opsB) = true := by decide
set_option maxRecDepth 100000 in
theorem noPanicB : noPanicRun (World.init cfgB) opsB = true := by decide

theorem nonvacuous :
    ∃ (cfg : Cfg) (w : World), cfg.Sane ∧ Reach cfg w ∧ w.panicked = false ∧
    ∃ s S P, getS w s = some S ∧ S.alive = true ∧ S.held ≠ [] ∧ getP w 0 = some P ∧ P.ex = true ∧
      P.loans ≠ [] ∧ P.hist ≠ [] ∧ ∃ cn, getC w 0 s = some cn ∧ cn.sub ≠ [] := by
  refine ⟨cfgB, run (World.init cfgB) opsB, by decide, reach_run _ _ Reach.init noPanicB, ?_⟩
  have h := chkB_true
  generalize run (World.init cfgB) opsB = w at h
  simp only [chkB] at h
  split at h
  · rename_i S P cn hS hP hC
    simp only [Bool.and_eq_true, Bool.not_eq_true', List.isEmpty_eq_false_iff] at h
    obtain ⟨⟨⟨⟨⟨⟨h1, h2⟩, h3⟩, h4⟩, h5⟩, h6⟩, h7⟩ := h
    exact ⟨h1, 0, S, P, hS, h2, h3, hP, h4, h5, h6, cn, hC, h7⟩
  · cases h

end Iox2.PubSub.C02P
