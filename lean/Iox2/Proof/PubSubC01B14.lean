/-
Layer B: `loan` and `dloan`.
-/
import Iox2.Proof.PubSubC01B13
namespace Iox2.PubSub.C01P
open Iox2.PubSub

variable {cfg : Cfg} {w : World}

theorem inflight_none (p y : Nat) : inflight none p y = 0 := rfl

theorem invB_step_loan (hA : InvA cfg none none w) (hB : InvB none w) (p l : Nat) :
    InvB none (step w (.loan p l)).1 := by
  rw [step_loan]
  cases hP0 : getP w p with
  | none => exact hB
  | some P0 =>
    simp only
    split
    · exact hB
    · rename_i hal
      simp only [Bool.not_eq_true', Bool.not_eq_false] at hal
      split
      · exact hB
      · rename_i hdup
        have hex0 := (hA.palive p P0 hP0 hal).1
        have h1 := invAB_retrieveReturned (fl := none) ⟨hA, hB⟩ p (fun Q hQ => by rw [hP0] at hQ; cases hQ; exact hex0)
        obtain ⟨f1, _⟩ := retrieveReturned_frame w p
        obtain ⟨P, hP, st⟩ := f1.psome p P0 hP0
        rw [hP]
        simp only
        split
        · exact h1.b
        · split
          · exact h1.b
          · rename_i c rest hfree
            split
            · exact h1.b.panic
            · rename_i hrc0
              simp only [ne_eq, Decidable.not_not] at hrc0
              have hex : P.ex = true := st.ex ▸ hex0
              have hB1 := h1.b
              obtain ⟨hnd, hmem⟩ := hB1.free p P hP hex
              have hlens := hB1.lens p P hP
              have hcn : c < P.n := ((hmem c).mp (by rw [hfree]; simp)).1
              have hcl : c < P.rc.length := by rw [hlens.1]; exact hcn
              rw [hfree] at hnd hmem
              obtain ⟨hcnot, hndr⟩ := List.nodup_cons.mp hnd
              have hrcset : ∀ y, (P.rc.set c 1).getD y 0 = if y = c then 1 else P.rc.getD y 0 := by
                intro y
                rw [getD_set_nat]
                by_cases hyc : y = c
                · subst hyc; simp [hcl]
                · have : ¬ c = y := fun hh => hyc hh.symm
                  simp [hyc, this]
              have hlab : ∀ e ∈ P.loans, e.1 ≠ l := by
                intro e he hel
                rw [← st.loans] at hdup
                have : (P.loans.find? (fun x => decide (x.1 = l))).isSome = true := by
                  rw [List.find?_isSome]
                  exact ⟨e, he, by simpa using hel⟩
                exact hdup this
              have hzero := hB1.rc p P hP hex c hcn
              rw [hrc0, inflight_none] at hzero
              refine hB1.updP (fl' := none) hP hex rfl hex ⟨by simp [hlens.1], hlens.2⟩ ⟨hndr, ?_⟩ ?_ ⟨?_, ?_⟩
                (hB1.histOk p P hP hex) (fun y fr hh => by cases hh) (fun a y fr _ => Iff.rfl) ?_
              · intro y
                show y ∈ rest ↔ y < P.n ∧ (P.rc.set c 1).getD y 0 = 0
                rw [hrcset y]
                by_cases hyc : y = c
                · subst hyc
                  simp only [if_true]
                  constructor
                  · intro hh; exact absurd hh hcnot
                  · intro hh; omega
                · rw [if_neg hyc]
                  rw [← hmem y]
                  simp [hyc]
              · intro y hy
                dsimp only
                have hone : ([(l, c)].filter (fun e : Nat × Nat => decide (e.2 = y))).length = if c = y then 1 else 0 := by
                  by_cases hcy : c = y <;> simp [hcy]
                rw [hrcset y, List.filter_append, List.length_append, inflight_none, hone]
                have h2 := hB1.rc p P hP hex y hy
                rw [inflight_none] at h2
                by_cases hyc : y = c
                · subst hyc
                  rw [if_pos rfl, if_pos rfl]
                  omega
                · have : ¬ c = y := fun hh => hyc hh.symm
                  rw [if_neg hyc, if_neg this]
                  omega
              · show ((P.loans ++ [(l, c)]).map (·.1)).Nodup
                rw [List.map_append, List.nodup_append]
                refine ⟨(hB1.loans p P hP hex).1, by simp, ?_⟩
                intro a ha b hb
                simp only [List.map_cons, List.map_nil, List.mem_singleton] at hb
                subst hb
                obtain ⟨e, he, rfl⟩ := List.mem_map.mp ha
                exact hlab e he
              · intro l' y hm
                show y < P.n ∧ (P.rc.set c 1).getD y 0 = 1
                rw [hrcset y]
                rcases List.mem_append.mp hm with h2 | h2
                · obtain ⟨h3, h4⟩ := (hB1.loans p P hP hex).2 l' y h2
                  have : y ≠ c := by rintro rfl; omega
                  rw [if_neg this]; exact ⟨h3, h4⟩
                · simp only [List.mem_singleton, Prod.mk.injEq] at h2
                  rw [h2.2, if_pos rfl]; exact ⟨hcn, rfl⟩
              · intro cn hcn hp S hS hor ch q hm
                exact hB1.ppi cn hcn P S (hp ▸ hP) hS hor ch q hm

/-- a publisher with a loan still has its shared state -/
theorem InvB.ex_of_loan {fl : Option (Nat × Nat × Bool)} (h : InvB fl w) {p : Nat} {P : Pub} (hP : getP w p = some P)
    {e : Nat × Nat} (he : e ∈ P.loans) : P.ex = true := by
  cases hh : P.ex with
  | true => rfl
  | false =>
    have := h.deadLoans p P hP hh
    rw [this] at he; cases he

theorem invB_step_dloan (hA : InvA cfg none none w) (hB : InvB none w) (p l : Nat) :
    InvB none (step w (.dloan p l)).1 := by
  rw [step_dloan]
  cases hP : getP w p with
  | none => exact hB
  | some P =>
    simp only
    cases hl : P.loans.find? (·.1 = l) with
    | none => exact hB
    | some lc =>
      obtain ⟨l', c⟩ := lc
      simp only
      obtain ⟨hm, _⟩ := find_label_mem hl
      have hex := hB.ex_of_loan hP hm
      have st := releaseChunk_stable P c
      have hA1 : InvA cfg none none (setP w p { P.releaseChunk c with loanCnt := P.loanCnt - 1, loans := P.loans.filter (·.1 ≠ l) }) :=
        hA.setP_irrel hP st.alive st.ex st.slot (releaseChunk_conns P c)
      refine (invAB_pubDestroyIfUnreferenced (fl := none) ⟨hA1, ?_⟩ p (fun _ _ hh => by cases hh)).b
      obtain ⟨hlnd, hlrc⟩ := hB.loans p P hP hex
      obtain ⟨hcn, hc1⟩ := hlrc l c hm
      have hlens := hB.lens p P hP
      obtain ⟨f1, l1, r1, o1⟩ := release_ok hlens.1 (hB.free p P hP hex) hcn (by omega)
      have hn : (P.releaseChunk c).n = P.n := by rw [o1]
      have hf : (P.releaseChunk c).hist = P.hist ∧ (P.releaseChunk c).payload = P.payload ∧
          (P.releaseChunk c).sent = P.sent ∧ (P.releaseChunk c).chunkSeq = P.chunkSeq ∧ (P.releaseChunk c).seq = P.seq := by
        rw [o1]; exact ⟨rfl, rfl, rfl, rfl, rfl⟩
      obtain ⟨fh, fp, fs, fc, fq⟩ := hf
      have hcount := fun y => filter_label_count hlnd hm (fun e : Nat × Nat => decide (e.2 = y))
      have hrcc := hB.rc p P hP hex c hcn
      rw [hc1, inflight_none] at hrcc
      have hno : (((P.loans.filter (·.1 ≠ l))).filter (fun e : Nat × Nat => decide (e.2 = c))).length = 0 := by
        have := hcount c
        simp only [decide_true, if_true] at this
        omega
      refine hB.updP (fl' := none) hP hex hn (st.ex ▸ hex) ⟨by rw [l1, hn], by rw [fp, hn]; exact hlens.2.1,
          by rw [fc, hn]; exact hlens.2.2.1, by rw [fs, fq]; exact hlens.2.2.2⟩ f1 ?_ ⟨filter_label_nodup hlnd l, ?_⟩ ?_
        (fun y fr hh => by cases hh) (fun a y fr _ => Iff.rfl) ?_
      · intro y hy
        dsimp only
        rw [r1 y, fh, inflight_none]
        have h2 := hB.rc p P hP hex y hy
        rw [inflight_none] at h2
        have h3 := hcount y
        by_cases hyc : y = c
        · subst hyc
          rw [if_pos rfl]
          simp only [decide_true, if_true] at h3
          omega
        · have : ¬ c = y := fun hh => hyc hh.symm
          rw [if_neg hyc]
          simp only [this, decide_false, Bool.false_eq_true, if_false] at h3
          omega
      · intro l2 y hm2
        dsimp only at hm2 ⊢
        obtain ⟨h3, h4⟩ := hlrc l2 y (filter_label_sub hm2)
        have hyc : y ≠ c := by
          rintro rfl
          have : (l2, y) ∈ (P.loans.filter (·.1 ≠ l)).filter (fun e : Nat × Nat => decide (e.2 = y)) :=
            List.mem_filter.mpr ⟨hm2, by simp⟩
          have := List.length_pos_of_mem this
          omega
        rw [r1 y, if_neg hyc]; exact ⟨h3, h4⟩
      · dsimp only
        rw [fh, fp, fs, fc, fq]
        exact hB.histOk p P hP hex
      · intro cn hcn hp S hS hor ch q hmm
        dsimp only
        rw [fp, fs, fq]
        exact hB.ppi cn hcn P S (hp ▸ hP) hS hor ch q hmm

end Iox2.PubSub.C01P
