/-
Frame facts for the subscriber-side helper functions.
-/
import Iox2.Proof.PubSubC01Frame
import Iox2.Proof.PubSubC01Eqs
namespace Iox2.PubSub.C01P
open Iox2.PubSub

/-- everything of a subscriber record except `conns`, `storage`, `tbr`, `snap`, `snapCtr` is unchanged -/
structure SStable (S S' : Sub) : Prop where
  alive : S'.alive = S.alive
  ex : S'.ex = S.ex
  slot : S'.slot = S.slot
  buffer : S'.buffer = S.buffer
  histReq : S'.histReq = S.histReq
  tbrCap : S'.tbrCap = S.tbrCap
  held : S'.held = S.held
  ghostRecv : S'.ghostRecv = S.ghostRecv

theorem SStable.refl (S : Sub) : SStable S S := ⟨rfl, rfl, rfl, rfl, rfl, rfl, rfl, rfl⟩
theorem SStable.trans {S S' S'' : Sub} (a : SStable S S') (b : SStable S' S'') : SStable S S'' :=
  ⟨b.alive.trans a.alive, b.ex.trans a.ex, b.slot.trans a.slot, b.buffer.trans a.buffer,
   b.histReq.trans a.histReq, b.tbrCap.trans a.tbrCap, b.held.trans a.held, b.ghostRecv.trans a.ghostRecv⟩

/-- a subscriber-side helper ran: publishers, registries untouched, subscriber records stable,
a panic is never reset -/
structure SFrame (w w' : World) : Prop where
  pubs : w'.pubs = w.pubs
  pubReg : w'.pubReg = w.pubReg
  subReg : w'.subReg = w.subReg
  cfg : w'.cfg = w.cfg
  sticky : w.panicked = true → w'.panicked = true
  snone : ∀ a, getS w a = none → getS w' a = none
  ssome : ∀ a S, getS w a = some S → ∃ S', getS w' a = some S' ∧ SStable S S'

theorem SFrame.refl (w : World) : SFrame w w :=
  ⟨rfl, rfl, rfl, rfl, id, fun _ h => h, fun _ S h => ⟨S, h, SStable.refl S⟩⟩

theorem SFrame.trans {w w' w'' : World} (a : SFrame w w') (b : SFrame w' w'') : SFrame w w'' := by
  refine ⟨b.pubs.trans a.pubs, b.pubReg.trans a.pubReg, b.subReg.trans a.subReg, b.cfg.trans a.cfg,
    fun h => b.sticky (a.sticky h), fun x h => b.snone x (a.snone x h), fun x S h => ?_⟩
  obtain ⟨S', h1, s1⟩ := a.ssome x S h
  obtain ⟨S'', h2, s2⟩ := b.ssome x S' h1
  exact ⟨S'', h2, s1.trans s2⟩

theorem SFrame.getP {w w' : World} (a : SFrame w w') (p : Nat) : getP w' p = getP w p := by
  unfold Iox2.PubSub.getP; rw [a.pubs]

theorem SFrame.ssome' {w w' : World} (a : SFrame w w') {x : Nat} {S' : Sub} (h : getS w' x = some S') :
    ∃ S, getS w x = some S ∧ SStable S S' := by
  cases h0 : getS w x with
  | none => rw [a.snone x h0] at h; cases h
  | some S =>
    obtain ⟨S'', h1, s1⟩ := a.ssome x S h0
    rw [h] at h1; cases h1
    exact ⟨S, rfl, s1⟩

theorem SFrame.of_eq {w w' : World} (hp : w'.pubs = w.pubs) (hs : w'.subs = w.subs) (hpr : w'.pubReg = w.pubReg)
    (hsr : w'.subReg = w.subReg) (hc : w'.cfg = w.cfg) (hpan : w.panicked = true → w'.panicked = true) :
    SFrame w w' := by
  have : ∀ a, getS w' a = getS w a := fun a => by unfold Iox2.PubSub.getS; rw [hs]
  exact ⟨hp, hpr, hsr, hc, hpan, fun a h => by rw [this]; exact h,
    fun a S h => ⟨S, by rw [this]; exact h, SStable.refl S⟩⟩

theorem SFrame.setS {w : World} {s : Nat} {S S' : Sub} (h : getS w s = some S) (hs : SStable S S') :
    SFrame w (setS w s S') := by
  refine ⟨rfl, rfl, rfl, rfl, id, fun a ha => ?_, fun a Q ha => ?_⟩
  · rw [getS_setS]
    by_cases hap : a = s
    · subst hap; rw [h] at ha; cases ha
    · rw [if_neg hap]; exact ha
  · rw [getS_setS]
    by_cases hap : a = s
    · subst hap; rw [h] at ha; cases ha
      exact ⟨S', by simp [h], hs⟩
    · rw [if_neg hap]; exact ⟨Q, ha, SStable.refl Q⟩

theorem SFrame.detachReceiver (w : World) (p s : Nat) : SFrame w (detachReceiver w p s) :=
  SFrame.of_eq (by simp) (by simp) (by simp) (by simp) (by simp) (by simp)

theorem SFrame.panic (w : World) : SFrame w { w with panicked := true } :=
  SFrame.of_eq rfl rfl rfl rfl rfl (fun _ => rfl)

theorem subDropConn_frame (w : World) (s key : Nat) : SFrame w (subDropConn w s key) := by
  unfold subDropConn
  cases hS : getS w s with
  | none => exact SFrame.refl w
  | some S =>
    simp only
    cases hk : smGet S.storage key with
    | none => exact SFrame.refl w
    | some p =>
      simp only
      have f1 : SFrame w (setS w s { S with storage := smRemove S.storage key }) :=
        SFrame.setS hS ⟨rfl, rfl, rfl, rfl, rfl, rfl, rfl, rfl⟩
      exact f1.trans (SFrame.detachReceiver _ p s)

theorem setS_tbr_frame {w : World} {s : Nat} {S : Sub} (hS : getS w s = some S) (t : List Nat) :
    SFrame w (setS w s { S with tbr := t }) :=
  SFrame.setS hS ⟨rfl, rfl, rfl, rfl, rfl, rfl, rfl, rfl⟩

theorem prepMakeRoom_frame (w : World) (s : Nat) (S : Sub) (hS : getS w s = some S) (hb : Bool) :
    SFrame w (prepMakeRoom w s S hb) := by
  unfold prepMakeRoom
  split
  · exact (setS_tbr_frame hS _).trans (subDropConn_frame _ s _)
  · split
    · split
      · exact (setS_tbr_frame hS _).trans (subDropConn_frame _ s _)
      · exact SFrame.refl w
    · exact SFrame.refl w

theorem prepEnqueue_frame (w : World) (s key : Nat) (hb : Bool) : SFrame w (prepEnqueue w s key hb) := by
  unfold prepEnqueue
  cases hS : getS w s with
  | none => exact SFrame.refl w
  | some S =>
    simp only
    split
    · exact setS_tbr_frame hS _
    · split
      · exact SFrame.panic w
      · exact subDropConn_frame w s key

theorem subPrepareRemoval_frame (w : World) (s slot : Nat) : SFrame w (subPrepareRemoval w s slot) := by
  rw [subPrepareRemoval_eq]
  cases hS : getS w s with
  | none => exact SFrame.refl w
  | some S =>
    simp only
    cases hk : S.conns.getD slot none with
    | none => exact SFrame.refl w
    | some key =>
      simp only
      cases hf : connFlags w s S key with
      | none => exact SFrame.refl w
      | some fl =>
        obtain ⟨hasData, hasBorrows⟩ := fl
        simp only
        split
        · split
          · exact setS_tbr_frame hS _
          · exact (prepMakeRoom_frame w s S hS hasBorrows).trans (prepEnqueue_frame _ s key hasBorrows)
        · exact subDropConn_frame w s key

theorem recvAttach_frame (w : World) (s p : Nat) (S : Sub) : SFrame w (recvAttach w s p S) ∧
    (recvAttach w s p S).subs = w.subs := by
  unfold recvAttach
  split
  · exact ⟨SFrame.of_eq rfl rfl rfl rfl rfl id, rfl⟩
  · exact ⟨SFrame.of_eq rfl rfl rfl rfl rfl id, rfl⟩

theorem subCreateConn_frame (w : World) (s slot p : Nat) : SFrame w (subCreateConn w s slot p) := by
  rw [subCreateConn_eq]
  cases hS : getS w s with
  | none => exact SFrame.refl w
  | some S =>
    simp only
    obtain ⟨f1, f2⟩ := recvAttach_frame w s p S
    have hS1 : getS (recvAttach w s p S) s = some S := by
      unfold getS; rw [f2]; exact hS
    generalize smInsert S.storage p = r
    obtain ⟨m, k⟩ := r
    cases k with
    | none => exact f1.trans (SFrame.panic _)
    | some key =>
      simp only
      exact f1.trans (SFrame.setS hS1 ⟨rfl, rfl, rfl, rfl, rfl, rfl, rfl, rfl⟩)

theorem subUpdateSlots_frame (w : World) (s : Nat) (l : List (Option Nat)) (i : Nat) (t : List Nat) :
    SFrame w (subUpdateSlots w s l i t).1 := by
  induction l generalizing w i t with
  | nil => exact SFrame.refl w
  | cons x r ih =>
    cases x with
    | none => exact ih w (i + 1) t
    | some p =>
      unfold subUpdateSlots
      cases hS : getS w s with
      | none => exact SFrame.refl w
      | some S =>
        simp only
        split
        · exact ih _ _ _
        · exact ((subPrepareRemoval_frame w s i).trans (subCreateConn_frame _ s i p)).trans (ih _ _ _)

theorem subFinish_frame (w : World) (s : Nat) (t : List Nat) (fuel n : Nat) : SFrame w (subFinish w s t fuel n) := by
  induction fuel generalizing w n with
  | zero => exact SFrame.refl w
  | succ fuel ih =>
    unfold subFinish
    cases hS : getS w s with
    | none => exact SFrame.refl w
    | some S =>
      simp only
      split
      · exact SFrame.refl w
      · refine SFrame.trans ?_ (ih _ _)
        split
        · exact SFrame.refl w
        · split
          · have f1 := subPrepareRemoval_frame w s n
            split
            · rename_i S' hS'
              exact f1.trans (SFrame.setS hS' ⟨rfl, rfl, rfl, rfl, rfl, rfl, rfl, rfl⟩)
            · exact f1
          · exact SFrame.refl w

theorem subForceUpdate_frame (w : World) (s : Nat) : SFrame w (subForceUpdate w s) := by
  unfold subForceUpdate
  cases hS : getS w s with
  | none => exact SFrame.refl w
  | some S =>
    simp only
    generalize hd : subUpdateSlots w s S.snap 0 [] = d
    obtain ⟨w1, tg⟩ := d
    have := subUpdateSlots_frame w s S.snap 0 []
    rw [hd] at this
    exact this.trans (subFinish_frame w1 s tg _ _)

theorem subUpdate_frame (w : World) (s : Nat) : SFrame w (subUpdate w s) := by
  unfold subUpdate
  cases hS : getS w s with
  | none => exact SFrame.refl w
  | some S =>
    simp only
    split
    · exact SFrame.refl w
    · have f1 : SFrame w (setS w s { S with snapCtr := w.pubReg.counter, snap := w.pubReg.slots }) :=
        SFrame.setS hS ⟨rfl, rfl, rfl, rfl, rfl, rfl, rfl, rfl⟩
      exact f1.trans (subForceUpdate_frame _ s)

theorem recvFromConn_frame (w : World) (s : Nat) (S : Sub) (key : Nat) :
    (recvFromConn w s S key).1.pubs = w.pubs ∧ (recvFromConn w s S key).1.subs = w.subs ∧
    (recvFromConn w s S key).1.pubReg = w.pubReg ∧ (recvFromConn w s S key).1.subReg = w.subReg ∧
    (recvFromConn w s S key).1.cfg = w.cfg ∧ (recvFromConn w s S key).1.panicked = w.panicked := by
  rcases recvFromConn_cases w s S key with (h | h) | ⟨p, c, ch, q, rest, _, _, _, _, h⟩ <;> rw [h] <;> simp

theorem recvFromConn_sframe (w : World) (s : Nat) (S : Sub) (key : Nat) : SFrame w (recvFromConn w s S key).1 := by
  obtain ⟨h1, h2, h3, h4, h5, h6⟩ := recvFromConn_frame w s S key
  exact SFrame.of_eq h1 h2 h3 h4 h5 (fun h => by rw [h6]; exact h)

/-- a `.none` / `.maxBorrow` result leaves the world unchanged -/
theorem recvFromConn_unchanged (w : World) (s : Nat) (S : Sub) (key : Nat)
    (h : ∀ k p ch q, (recvFromConn w s S key).2 ≠ .some k p ch q) : (recvFromConn w s S key).1 = w := by
  rcases recvFromConn_cases w s S key with (h1 | h1) | ⟨p, c, ch, q, rest, _, _, _, _, h1⟩
  · rw [h1]
  · rw [h1]
  · exfalso; exact h key p ch q (by rw [h1])

theorem recvTbr_frame (w : World) (s fuel i : Nat) : SFrame w (recvTbr w s fuel i).1 := by
  induction fuel generalizing w i with
  | zero => exact SFrame.refl w
  | succ fuel ih =>
    rw [recvTbr_succ]
    cases hS : getS w s with
    | none => exact SFrame.refl w
    | some S =>
      simp only
      cases hk : S.tbr[i]? with
      | none => exact SFrame.refl w
      | some key =>
        simp only
        cases hg : smGet S.storage key with
        | none => exact (setS_tbr_frame hS _).trans (ih _ _)
        | some p =>
          simp only
          split
          · exact ih _ _
          · have f1 := recvFromConn_sframe w s S key
            have hsubs := (recvFromConn_frame w s S key).2.1
            generalize recvFromConn w s S key = r at f1 hsubs
            obtain ⟨w', res⟩ := r
            cases res with
            | some k p ch q => exact f1
            | maxBorrow => exact f1
            | none =>
              simp only
              split
              · exact f1.trans (ih _ _)
              · have hS' : getS w' s = some S := by
                  unfold getS; rw [hsubs]; exact hS
                exact (f1.trans ((setS_tbr_frame hS' _).trans (subDropConn_frame _ s key))).trans (ih _ _)

theorem recvScan_frame (w : World) (s : Nat) (S : Sub) (l : List (Nat × Nat)) (acc : ScanAcc) :
    SFrame w (recvScan w s S l acc).1 ∧ (recvScan w s S l acc).1.subs = w.subs := by
  induction l generalizing w acc with
  | nil => exact ⟨SFrame.refl w, rfl⟩
  | cons x r ih =>
    obtain ⟨key, p⟩ := x
    unfold recvScan
    cases hC : getC w p s with
    | none => exact ih w acc
    | some c =>
      simp only
      split
      · exact ih w acc
      · split
        · exact ih w _
        · have f1 := recvFromConn_sframe w s S key
          have hsubs := (recvFromConn_frame w s S key).2.1
          generalize recvFromConn w s S key = r at f1 hsubs
          obtain ⟨w', res⟩ := r
          cases res with
          | some k p ch q => exact ⟨f1, hsubs⟩
          | maxBorrow => exact ⟨f1, hsubs⟩
          | none =>
            simp only
            obtain ⟨g1, g2⟩ := ih w' { active := acc.active + 1, allMax := false }
            exact ⟨f1.trans g1, g2.trans hsubs⟩

theorem subReceive_frame (w : World) (s : Nat) : SFrame w (subReceive w s).1 := by
  unfold subReceive
  cases hS : getS w s with
  | none => exact SFrame.refl w
  | some S =>
    simp only
    have f1 := recvTbr_frame w s (S.tbr.length + 1) 0
    generalize recvTbr w s (S.tbr.length + 1) 0 = r at f1
    obtain ⟨w', res⟩ := r
    cases res with
    | some k p ch q => exact f1
    | maxBorrow => exact f1
    | none =>
      simp only
      cases hS' : getS w' s with
      | none => exact f1
      | some S' =>
        simp only
        have f2 := (recvScan_frame w' s S' (SlotMap.items S'.storage) {}).1
        generalize recvScan w' s S' (SlotMap.items S'.storage) {} = r2 at f2
        obtain ⟨w'', res2, acc⟩ := r2
        cases res2 with
        | some k p ch q => exact f1.trans f2
        | maxBorrow => exact f1.trans f2
        | none =>
          simp only
          split <;> exact f1.trans f2

theorem subRelease_frame (w : World) (s : Nat) (h : Held) : SFrame w (subRelease w s h) ∧
    (subRelease w s h).subs = w.subs := by
  unfold subRelease
  have r : SFrame w w ∧ w.subs = w.subs := ⟨SFrame.refl w, rfl⟩
  split
  · exact r
  · split
    · exact r
    · split
      · exact r
      · split
        · exact r
        · split
          · exact ⟨SFrame.of_eq rfl rfl rfl rfl rfl id, rfl⟩
          · exact r

theorem subDestroyKeys_frame (w : World) (s : Nat) (l : List (Nat × Nat)) :
    SFrame w (subDestroyKeys w s l) ∧ (subDestroyKeys w s l).subs = w.subs := by
  induction l generalizing w with
  | nil => exact ⟨SFrame.refl w, rfl⟩
  | cons x r ih =>
    obtain ⟨k, p⟩ := x
    unfold subDestroyKeys
    obtain ⟨h1, h2⟩ := ih (detachReceiver w p s)
    exact ⟨(SFrame.detachReceiver w p s).trans h1, by rw [h2]; simp⟩

end Iox2.PubSub.C01P
