/-
C08 helper: subscriber-side actions preserve the invariant (part B: rebuild after one record /
one connection changed; dropping a connection from the storage).
-/
import Iox2.Proof.PubSubC08SubA
set_option linter.unusedSimpArgs false
set_option linter.unusedVariables false
namespace Iox2.PubSub.C08
open Iox2.PubSub
open Iox2.C16.SlotMapP (abs)
attribute [-simp] List.getD_eq_getElem?_getD

/-- a connection whose subscriber record changed, but not the samples held from this publisher -/
theorem ConnInv.transferS2 {cfg : Cfg} {w w' : World} {p s : Nat} {c : Conn} {S S' : Sub}
    (h : ConnInv cfg w p s c) (hkey : c.pid = p)
    (hP : ∀ p, getP w' p = getP w p) (hS : getS w s = some S) (hS' : getS w' s = some S')
    (hal : S'.alive = S.alive)
    (hheld : S'.held.filter (·.pid = p) = S.held.filter (·.pid = p)) : ConnInv cfg w' p s c := by
  refine ⟨h.ok, by rw [hP]; exact h.hasP, ⟨S', hS'⟩, ?_, ?_, ?_, ?_, ?_⟩
  · intro S1 hs; rw [hS'] at hs; cases hs; rw [hheld]; exact h.held S hS
  · intro ha S1 hs; rw [hS'] at hs; cases hs
    have := h.exact ha S hS
    unfold connChunks heldChunks at this ⊢
    rw [hkey] at this ⊢
    rw [hheld]; exact this
  · intro ha P S1 hp hs hex hal'
    rw [hS'] at hs; cases hs
    rw [hP] at hp
    exact h.fresh ha P S hp hS hex (hal ▸ hal')
  · intro ha; rw [hP]; exact h.inSlot ha
  · intro P hp; rw [hP] at hp; exact h.usedLen P hp

/-- rebuild after subscriber record `s` and (possibly) connection `(p, s)` changed -/
theorem InvS.rebuild1 {cfg : Cfg} {w w' : World} {xs : Option Nat} {s p : Nat} {hole hole' : Option Nat}
    {S S' : Sub} (copt : Option Conn)
    (h : InvS cfg w xs s hole) (hS : getS w s = some S)
    (hfr : SFrame w w') (hu : ConnsUniq w')
    (hgS : ∀ q, getS w' q = if q = s then some S' else getS w q)
    (hgC : ∀ a b, getC w' a b = if a = p ∧ b = s then copt else getC w a b)
    (hsim : SubSim S S')
    (hheld : ∀ q, q ≠ p → S'.held.filter (·.pid = q) = S.held.filter (·.pid = q))
    (hA : ∀ c, getC w p s = some c → c.sAtt = true → ∃ c', copt = some c' ∧ c'.sAtt = true ∧ c'.used = c.used)
    (hC : ∀ c', copt = some c' → ConnInv cfg w' p s c')
    (hSub : SubOK cfg w' s S' hole') :
    InvS cfg w' xs s hole' := by
  refine h.rebuild s hfr (fun q hq => by rw [hgS]; simp [hq]) (fun a b hb => by rw [hgC]; simp [hb]) ?_ hu
    (fun hne => absurd rfl hne) ?_ ?_ ?_
  · constructor
    · intro q Q hq
      rw [hgS]
      by_cases hqs : q = s
      · subst hqs; rw [hS] at hq; cases hq; exact ⟨S', by simp, hsim⟩
      · exact ⟨Q, by simp [hqs, hq], ⟨rfl, rfl, rfl⟩⟩
    · intro q Q' hq
      rw [hgS] at hq
      by_cases hqs : q = s
      · subst hqs; simp at hq; subst hq; exact ⟨S, hS, hsim⟩
      · simp [hqs] at hq; exact ⟨Q', hq, ⟨rfl, rfl, rfl⟩⟩
  · intro a c hc ha
    rw [hgC]
    by_cases hap : a = p
    · subst hap
      obtain ⟨c', e, h1, h2⟩ := hA c hc ha
      exact ⟨c', by simp [e], h1, h2⟩
    · exact ⟨c, by simp [hap, hc], ha, rfl⟩
  · intro a c' hc'
    rw [hgC] at hc'
    by_cases hap : a = p
    · subst hap
      simp at hc'
      exact hC c' hc'
    · simp [hap] at hc'
      exact (h.c a s c' hc').transferS2 (getC_key hc').1 hfr.pubs hS (by rw [hgS]; simp) hsim.alive (hheld a hap)
  · intro Q hQ
    rw [hgS] at hQ; simp at hQ; subst hQ
    simpa using hSub

/-- the receiver side of a connection goes away -/
def detR (c : Conn) : Option Conn := if c.sAtt then some { c with rAtt := false } else none

theorem detachReceiver_getC (w : World) (p s a b : Nat) :
    getC (detachReceiver w p s) a b = if a = p ∧ b = s then (getC w p s).bind detR else getC w a b := by
  rw [detachReceiver_eq]
  cases hc : getC w p s with
  | none =>
    simp only [Option.bind_none]
    by_cases hab : a = p ∧ b = s
    · obtain ⟨rfl, rfl⟩ := hab; simp [hc]
    · simp [hab]
  | some c =>
    have hkey := getC_key hc
    simp only [Option.bind_some]
    unfold detR
    by_cases hr : c.sAtt = true
    · rw [if_pos hr, if_pos hr]
      have hk : ({ c with rAtt := false } : Conn).pid = p ∧ ({ c with rAtt := false } : Conn).sid = s := hkey
      rw [getC_setC_self hc _ hk]
    · rw [if_neg hr, if_neg hr]
      rw [getC_dropC']

theorem detachReceiver_uniq {w : World} (h : ConnsUniq w) (p s : Nat) : ConnsUniq (detachReceiver w p s) := by
  rw [detachReceiver_eq]
  split
  · exact h
  · split
    · exact h.setC _
    · exact h.dropC _ _

theorem detachReceiver_subs (w : World) (p s : Nat) : (detachReceiver w p s).subs = w.subs := by
  rw [detachReceiver_eq]; split
  · rfl
  · split <;> rfl

theorem getS_of_subs {w w' : World} (h : w'.subs = w.subs) (q : Nat) : getS w' q = getS w q := by
  unfold getS; rw [h]

/-- a connection with the receiver detached still satisfies the invariant -/
theorem ConnInv.detR {cfg : Cfg} {w : World} {p s : Nat} {c c' : Conn} (h : ConnInv cfg w p s c)
    (hd : detR c = some c') : ConnInv cfg w p s c' := by
  unfold Iox2.PubSub.C08.detR at hd
  split at hd
  · cases hd
    exact h.congr0 (c' := { c with rAtt := false }) rfl rfl rfl rfl rfl rfl rfl rfl
  · cases hd

end Iox2.PubSub.C08
