/-
C08 helper: subscriber-side actions preserve the invariant (part D: `prepare_connection_removal`).
-/
import Iox2.Proof.PubSubC08SubC
set_option linter.unusedSimpArgs false
set_option linter.unusedVariables false
namespace Iox2.PubSub.C08
open Iox2.PubSub
open Iox2.C16.SlotMapP (abs)
attribute [-simp] List.getD_eq_getElem?_getD

/-- subscriber records that differ only in the storage and the `to_be_removed` list -/
def SubKeep (S S' : Sub) : Prop := ∃ st tb, S' = { S with storage := st, tbr := tb }

theorem SubKeep.refl (S : Sub) : SubKeep S S := ⟨S.storage, S.tbr, rfl⟩
theorem SubKeep.trans {a b c : Sub} (h1 : SubKeep a b) (h2 : SubKeep b c) : SubKeep a c := by
  obtain ⟨s1, t1, rfl⟩ := h1
  obtain ⟨s2, t2, rfl⟩ := h2
  exact ⟨s2, t2, rfl⟩
theorem SubKeep.fields {S S' : Sub} (h : SubKeep S S') :
    S'.alive = S.alive ∧ S'.ex = S.ex ∧ S'.slot = S.slot ∧ S'.buffer = S.buffer ∧ S'.histReq = S.histReq ∧
    S'.conns = S.conns ∧ S'.tbrCap = S.tbrCap ∧ S'.snapCtr = S.snapCtr ∧ S'.snap = S.snap ∧
    S'.held = S.held ∧ S'.ghostRecv = S.ghostRecv := by
  obtain ⟨s1, t1, rfl⟩ := h
  exact ⟨rfl, rfl, rfl, rfl, rfl, rfl, rfl, rfl, rfl, rfl, rfl⟩

theorem findTbr_some {w : World} {s : Nat} {S : Sub} {cond : Bool → Bool → Bool} :
    ∀ (l : List Nat) (n i k : Nat), findTbr w s S cond l n = some (i, k) →
      ∃ j, i = n + j ∧ l[j]? = some k ∧
        (connFlags w s S k = none ∨ ∃ d b, connFlags w s S k = some (d, b) ∧ cond d b = true)
  | [], n, i, k, h => by simp [findTbr] at h
  | a :: r, n, i, k, h => by
    rw [findTbr] at h
    split at h
    · cases h
      rename_i hf
      exact ⟨0, rfl, by simp, .inl hf⟩
    · rename_i d b hf
      split at h
      · cases h
        rename_i hc
        exact ⟨0, rfl, by simp, .inr ⟨d, b, hf, hc⟩⟩
      · obtain ⟨j, e1, e2, e3⟩ := findTbr_some r (n + 1) i k h
        exact ⟨j + 1, by omega, by simpa using e2, e3⟩

theorem findTbr_none {w : World} {s : Nat} {S : Sub} {cond : Bool → Bool → Bool} :
    ∀ (l : List Nat) (n : Nat), findTbr w s S cond l n = none →
      ∀ k ∈ l, ∃ d b, connFlags w s S k = some (d, b) ∧ cond d b = false
  | [], n, h => by intro k hk; simp at hk
  | a :: r, n, h => by
    rw [findTbr] at h
    split at h
    · cases h
    · rename_i d b hf
      split at h
      · cases h
      · rename_i hc
        intro k hk
        rcases List.mem_cons.mp hk with rfl | hk
        · exact ⟨d, b, hf, by simpa using hc⟩
        · exact findTbr_none r (n + 1) h k hk

/-- `connFlags` under the invariant -/
theorem connFlags_eq {cfg : Cfg} {w : World} {s : Nat} {S : Sub} {hole : Option Nat}
    (hSO : SubOK cfg w s S hole) {k p : Nat} (hk : abs S.storage k = some p) :
    ∃ c, getC w p s = some c ∧ connFlags w s S k = some (!c.sub.isEmpty, decide (c.borrow > 0)) := by
  obtain ⟨c, hc, _⟩ := hSO.hasConn k p hk
  refine ⟨c, hc, ?_⟩
  unfold connFlags
  rw [smGet_eq hSO.stI, hk]
  dsimp only
  rw [hc]

/-- what `prepEvict` leaves behind -/
structure EvictRel (w w' : World) (s : Nat) (S S' : Sub) : Prop where
  conns : S'.conns = S.conns
  held : S'.held = S.held
  tbrCap : S'.tbrCap = S.tbrCap
  alive : S'.alive = S.alive
  absKeep : ∀ k, k ∉ S.tbr → abs S'.storage k = abs S.storage k
  absSub : ∀ k p, abs S'.storage k = some p → abs S.storage k = some p
  tbrSub : ∀ k, k ∈ S'.tbr → k ∈ S.tbr
  connKeep : ∀ p, (∀ k ∈ S.tbr, abs S.storage k ≠ some p) → getC w' p s = getC w p s
  frame : SFrame w w'
  panicked : w'.panicked = w.panicked
  keep : SubKeep S S'

theorem EvictRel.refl (w : World) (s : Nat) (S : Sub) : EvictRel w w s S S :=
  ⟨rfl, rfl, rfl, rfl, fun _ _ => rfl, fun _ _ h => h, fun _ h => h, fun _ _ => rfl,
    ⟨rfl, rfl, rfl, fun _ => rfl⟩, rfl, .refl _⟩

theorem detachReceiver_panicked (w : World) (p s : Nat) : (detachReceiver w p s).panicked = w.panicked := by
  rw [detachReceiver_eq]; split
  · rfl
  · split <;> rfl

theorem subDropConn_panicked (w : World) (s key : Nat) : (subDropConn w s key).panicked = w.panicked := by
  unfold subDropConn
  split
  · rfl
  · split
    · rfl
    · rw [detachReceiver_panicked]; rfl

/-- evicting one `to_be_removed` entry without borrows -/
theorem evictOne {cfg : Cfg} {w : World} {xs : Option Nat} {s : Nat} {hole : Option Nat}
    (h : InvS cfg w xs s hole) {S : Sub} (hS : getS w s = some S) {i k : Nat}
    (hi : S.tbr[i]? = some k)
    (hfl : connFlags w s S k = none ∨ ∃ d, connFlags w s S k = some (d, false)) :
    InvS cfg (subDropConn (setS w s { S with tbr := S.tbr.eraseIdx i }) s k) xs s hole ∧
    ∃ S', getS (subDropConn (setS w s { S with tbr := S.tbr.eraseIdx i }) s k) s = some S' ∧
      EvictRel w (subDropConn (setS w s { S with tbr := S.tbr.eraseIdx i }) s k) s S S' ∧
      S'.tbr.length + 1 = S.tbr.length := by
  have hSO : SubOK cfg w s S hole := by simpa using h.s s S hS
  have hmem : k ∈ S.tbr := List.mem_of_getElem? hi
  cases hk : abs S.storage k with
  | none => exact absurd hk (hSO.tbrIn k hmem)
  | some p =>
    obtain ⟨c, hc, hcf⟩ := connFlags_eq hSO hk
    have hb0 : connBorrow w p s = 0 := by
      rw [connBorrow_of_getC hc]
      rcases hfl with hfl | ⟨d, hfl⟩
      · rw [hcf] at hfl; cases hfl
      · rw [hcf] at hfl
        simp only [Option.some.injEq, Prod.mk.injEq, decide_eq_false_iff_not] at hfl
        omega
    obtain ⟨r1, r2⟩ := evictTbr_inv h hS hi hk hb0
    obtain ⟨_, _, r3⟩ := smRemove_spec hSO.stI k
    refine ⟨r1, _, r2, ⟨rfl, rfl, rfl, rfl, ?_, ?_, ?_, ?_, ?_, ?_, ⟨_, _, rfl⟩⟩, ?_⟩
    · intro k' hk'
      show abs (smRemove S.storage k) k' = _
      rw [r3]
      have : k' ≠ k := fun e => hk' (e ▸ hmem)
      simp [this]
    · intro k' q hq
      have hq' : abs (smRemove S.storage k) k' = some q := hq
      rw [r3] at hq'
      split at hq'
      · cases hq'
      · exact hq'
    · intro k' hk'
      exact (List.eraseIdx_sublist _ _).subset hk'
    · intro q hq
      have hsm : smGet S.storage k = some p := by rw [smGet_eq hSO.stI]; exact hk
      have hS1 : getS (setS w s { S with tbr := S.tbr.eraseIdx i }) s = some { S with tbr := S.tbr.eraseIdx i } := by
        simp [hS]
      rw [subDropConn_eq hS1 hsm, detachReceiver_getC]
      have hqp : q ≠ p := fun e => hq k hmem (e ▸ hk)
      simp [hqp]
    · exact SFrame.of_SStep (.trans (.setS _ _ _) (subDropConn_S _ _ _))
    · rw [subDropConn_panicked]; rfl
    · show (S.tbr.eraseIdx i).length + 1 = _
      obtain ⟨hil, _⟩ := List.getElem?_eq_some_iff.mp hi
      rw [List.length_eraseIdx]; simp [hil]; omega

theorem prepEvict_inv {cfg : Cfg} {w : World} {xs : Option Nat} {s : Nat} {hole : Option Nat}
    (h : InvS cfg w xs s hole) {S : Sub} (hS : getS w s = some S) (hb : Bool) :
    InvS cfg (prepEvict w s S hb) xs s hole ∧
    ∃ S', getS (prepEvict w s S hb) s = some S' ∧ EvictRel w (prepEvict w s S hb) s S S' ∧
      (S'.tbr.length + 1 = S.tbr.length ∨
        (prepEvict w s S hb = w ∧ S' = S ∧
          (hb = true → ∀ k ∈ S.tbr, ∃ d, connFlags w s S k = some (d, true)))) := by
  have hSO : SubOK cfg w s S hole := by simpa using h.s s S hS
  unfold prepEvict
  split
  next i k hf =>
    obtain ⟨j, e1, e2, e3⟩ := findTbr_some _ _ _ _ hf
    simp at e1; subst e1
    have hfl : connFlags w s S k = none ∨ ∃ d, connFlags w s S k = some (d, false) := by
      rcases e3 with e3 | ⟨d, b, e3, e4⟩
      · exact .inl e3
      · right
        cases b with
        | false => exact ⟨d, e3⟩
        | true => simp at e4
    obtain ⟨r1, S', r2, r3, r4⟩ := evictOne h hS e2 hfl
    exact ⟨r1, S', r2, r3, .inl r4⟩
  next hf1 =>
    split
    next hbt =>
      split
      next i k hf =>
        obtain ⟨j, e1, e2, e3⟩ := findTbr_some _ _ _ _ hf
        simp at e1; subst e1
        have hfl : connFlags w s S k = none ∨ ∃ d, connFlags w s S k = some (d, false) := by
          rcases e3 with e3 | ⟨d, b, e3, e4⟩
          · exact .inl e3
          · right
            cases b with
            | false => exact ⟨d, e3⟩
            | true => simp at e4
        obtain ⟨r1, S', r2, r3, r4⟩ := evictOne h hS e2 hfl
        exact ⟨r1, S', r2, r3, .inl r4⟩
      next hf2 =>
        refine ⟨h, S, hS, .refl _ _ _, .inr ⟨rfl, rfl, fun _ k hk => ?_⟩⟩
        obtain ⟨d, b, e1, e2⟩ := findTbr_none _ _ hf2 k hk
        cases b with
        | false => simp at e2
        | true => exact ⟨d, e1⟩
    next hbf =>
      exact ⟨h, S, hS, .refl _ _ _, .inr ⟨rfl, rfl, fun e => absurd e hbf⟩⟩

end Iox2.PubSub.C08
