/-
C08 helper: refined structural relation for the work of one publisher `p` (needed for the
creation of a publisher: nothing but `p`'s own record and connections changes, and no connection of
`p` gets a receiver).
-/
import Iox2.Proof.PubSubC08SubL
set_option linter.unusedSimpArgs false
set_option linter.unusedVariables false
namespace Iox2.PubSub.C08
open Iox2.PubSub
attribute [-simp] List.getD_eq_getElem?_getD

inductive PStepP (p : Nat) : World → World → Prop
  | refl (w : World) : PStepP p w w
  | setP (w : World) (x : Pub) : PStepP p w (setP w p x)
  | setC (w : World) (x c : Conn) : getC w p x.sid = some c → x.pid = p → x.rAtt = c.rAtt →
      ((c.sAtt = true ∨ c.rAtt = true) → (x.sAtt = true ∨ x.rAtt = true)) → PStepP p w (setC w x)
  | pushC (w : World) (x : Conn) : x.pid = p → x.rAtt = false → x.sAtt = true → getC w p x.sid = none →
      PStepP p w (pushC w x)
  | dropC (w : World) (s : Nat) : PStepP p w (dropC w p s)
  | trans {a b c : World} : PStepP p a b → PStepP p b c → PStepP p a c

theorem filter_map_upd_conn (l : List Conn) (x : Conn) (p : Nat) (hx : x.pid = p) :
    (l.map fun c => if c.pid = x.pid ∧ c.sid = x.sid then x else c).filter (fun c => c.pid ≠ p) =
      l.filter (fun c => c.pid ≠ p) := by
  induction l with
  | nil => rfl
  | cons a l ih =>
    simp only [List.map_cons, List.filter_cons]
    by_cases ha : a.pid = x.pid ∧ a.sid = x.sid
    · have hap : a.pid = p := ha.1.trans hx
      rw [if_pos ha]
      have h1 : decide (x.pid ≠ p) = false := by simp [hx]
      have h2 : decide (a.pid ≠ p) = false := by simp [hap]
      rw [h1, h2]
      exact ih
    · simp only [ha, if_false]
      rw [ih]

theorem filter_map_upd_pub (l : List (Nat × Pub)) (p : Nat) (x : Pub) :
    (l.map fun e => if e.1 = p then (p, x) else e).filter (fun e => e.1 ≠ p) = l.filter (fun e => e.1 ≠ p) := by
  induction l with
  | nil => rfl
  | cons a l ih =>
    simp only [List.map_cons, List.filter_cons]
    by_cases ha : a.1 = p
    · rw [if_pos ha]
      have h1 : decide ((p, x).1 ≠ p) = false := by simp
      have h2 : decide (a.1 ≠ p) = false := by simp [ha]
      rw [h1, h2]
      exact ih
    · simp only [ha, if_false]
      rw [ih]

theorem PStepP.facts {p : Nat} {w w' : World} (h : PStepP p w w') :
    w'.cfg = w.cfg ∧ w'.pubReg = w.pubReg ∧ w'.subReg = w.subReg ∧ w'.subs = w.subs ∧
    w'.panicked = w.panicked ∧
    w'.conns.filter (fun c => c.pid ≠ p) = w.conns.filter (fun c => c.pid ≠ p) ∧
    w'.pubs.filter (fun e => e.1 ≠ p) = w.pubs.filter (fun e => e.1 ≠ p) ∧
    (∀ s c', getC w' p s = some c' → c'.rAtt = true → ∃ c, getC w p s = some c ∧ c.rAtt = true) ∧
    ((∀ s c, getC w p s = some c → c.sAtt = true ∨ c.rAtt = true) →
      ∀ s c', getC w' p s = some c' → c'.sAtt = true ∨ c'.rAtt = true) := by
  induction h with
  | refl w => exact ⟨rfl, rfl, rfl, rfl, rfl, rfl, rfl, fun s c' h1 h2 => ⟨c', h1, h2⟩, fun h => h⟩
  | setP w x => exact ⟨rfl, rfl, rfl, rfl, rfl, rfl, filter_map_upd_pub _ _ _, fun s c' h1 h2 => ⟨c', h1, h2⟩, fun h => h⟩
  | setC w x c hc hx hr hatt =>
    have hc' : getC w x.pid x.sid = some c := by rw [hx]; exact hc
    refine ⟨rfl, rfl, rfl, rfl, rfl, filter_map_upd_conn _ _ _ hx, rfl, ?_, ?_⟩
    · intro s c' h1 h2
      rw [getC_setC_self hc' x ⟨rfl, rfl⟩] at h1
      by_cases hs : p = x.pid ∧ s = x.sid
      · simp [hs] at h1; subst h1
        obtain ⟨_, rfl⟩ := hs
        exact ⟨c, hc, hr ▸ h2⟩
      · simp [hs] at h1
        exact ⟨c', h1, h2⟩
    · intro hall s c' h1
      rw [getC_setC_self hc' x ⟨rfl, rfl⟩] at h1
      by_cases hs : p = x.pid ∧ s = x.sid
      · simp [hs] at h1; subst h1
        exact hatt (hall _ c hc)
      · simp [hs] at h1
        exact hall s c' h1
  | pushC w x hx hr hsa hn =>
    have hn' : getC w x.pid x.sid = none := by rw [hx]; exact hn
    refine ⟨rfl, rfl, rfl, rfl, rfl, ?_, rfl, ?_, ?_⟩
    · show (w.conns ++ [x]).filter _ = _
      rw [List.filter_append]
      simp [hx]
    · intro s c' h1 h2
      rw [getC_pushC w x p s hn'] at h1
      by_cases hs : p = x.pid ∧ s = x.sid
      · simp [hs] at h1; subst h1
        rw [hr] at h2; cases h2
      · simp [hs] at h1
        exact ⟨c', h1, h2⟩
    · intro hall s c' h1
      rw [getC_pushC w x p s hn'] at h1
      by_cases hs : p = x.pid ∧ s = x.sid
      · simp [hs] at h1; subst h1
        exact .inl hsa
      · simp [hs] at h1
        exact hall s c' h1
  | dropC w s =>
    refine ⟨rfl, rfl, rfl, rfl, rfl, ?_, rfl, ?_, ?_⟩
    · show (w.conns.filter _).filter _ = _
      rw [List.filter_filter]
      apply List.filter_congr
      intro c _
      by_cases hcp : c.pid = p <;> simp [hcp]
    · intro s' c' h1 h2
      rw [getC_dropC'] at h1
      by_cases hs : s' = s
      · simp [hs] at h1
      · simp [hs] at h1
        exact ⟨c', h1, h2⟩
    · intro hall s' c' h1
      rw [getC_dropC'] at h1
      by_cases hs : s' = s
      · simp [hs] at h1
      · simp [hs] at h1
        exact hall s' c' h1
  | trans _ _ ih1 ih2 =>
    obtain ⟨a1, a2, a3, a4, a5, a6, a7, a8, a9⟩ := ih1
    obtain ⟨b1, b2, b3, b4, b5, b6, b7, b8, b9⟩ := ih2
    refine ⟨b1.trans a1, b2.trans a2, b3.trans a3, b4.trans a4, b5.trans a5, b6.trans a6, b7.trans a7, ?_,
      fun hall => b9 (a9 hall)⟩
    intro s c' h1 h2
    obtain ⟨c1, g1, g2⟩ := b8 s c' h1 h2
    exact a8 s c1 g1 g2

theorem PStepP.setC' {p s : Nat} {w : World} {c : Conn} (hc : getC w p s = some c) (x : Conn)
    (h1 : x.pid = c.pid) (h2 : x.sid = c.sid) (h3 : x.rAtt = c.rAtt)
    (h4 : (c.sAtt = true ∨ c.rAtt = true) → (x.sAtt = true ∨ x.rAtt = true)) :
    PStepP p w (Iox2.PubSub.setC w x) := by
  have hk := getC_key hc
  exact .setC w x c (by rw [h2, hk.2]; exact hc) (h1.trans hk.1) h3 h4

theorem detachSender_PP (w : World) (p s : Nat) : PStepP p w (detachSender w p s) := by
  rw [detachSender_eq]
  split
  · exact .refl _
  next c hc =>
    split
    next hr => exact .setC' hc _ rfl rfl rfl (fun _ => .inr hr)
    · exact .dropC _ _

theorem retrieveOne_PP (w : World) (p s : Nat) : PStepP p w (retrieveOne w p s) := by
  unfold retrieveOne
  split
  next P c hp hc =>
    exact .trans (.setP _ _) (.setC' (w := setP w p _) hc _ rfl rfl rfl (fun h => h))
  · exact .refl _

theorem retrieveFrom_PP (w : World) (p : Nat) (l : List (Option Nat)) : PStepP p w (retrieveFrom w p l) := by
  induction l generalizing w with
  | nil => exact .refl _
  | cons a l ih =>
    cases a with
    | none => rw [retrieveFrom_cons_none]; exact ih w
    | some s => rw [retrieveFrom_cons_some]; exact .trans (retrieveOne_PP _ _ _) (ih _)

theorem retrieveReturned_PP (w : World) (p : Nat) : PStepP p w (retrieveReturned w p) := by
  unfold retrieveReturned
  split
  · exact .refl _
  · exact retrieveFrom_PP _ _ _

theorem deliverTo_PP (w : World) (p s ch q : Nat) : PStepP p w (deliverTo w p s ch q).1 := by
  cases hp : getP w p with
  | none => rw [deliverTo_none (.inl hp)]; exact .refl _
  | some P =>
    cases hc : getC w p s with
    | none => rw [deliverTo_none (.inr hc)]; exact .refl _
    | some c =>
      rw [deliverTo_eq hp hc]
      obtain ⟨t1, _, _⟩ := trySend_core c w.cfg.overflow ch q
      have h1 : PStepP p w (setC w (c.trySend w.cfg.overflow ch q).1) :=
        .setC' hc _ t1.pid t1.sid t1.rAtt (fun h => by rw [t1.sAtt, t1.rAtt]; exact h)
      cases hr : (c.trySend w.cfg.overflow ch q).2 with
      | ok ev => exact .trans h1 (.setP _ _)
      | full => exact h1
      | corrupted => exact h1

theorem deliverHistory_PP (w : World) (p s : Nat) (l : List Nat) : PStepP p w (deliverHistory w p s l) := by
  induction l generalizing w with
  | nil => exact .refl _
  | cons a l ih =>
    rw [deliverHistory]
    exact .trans (.trans (retrieveReturned_PP _ _) (deliverTo_PP _ _ _ _ _)) (ih _)

theorem pubRemoveConn_PP (w : World) (p slot : Nat) : PStepP p w (pubRemoveConn w p slot) := by
  rw [pubRemoveConn_eq]
  split
  · exact .refl _
  · split
    · exact .refl _
    next P hp s hs =>
      refine .trans (.trans ?_ (.setP _ _)) (detachSender_PP _ _ _)
      unfold pubRelease
      split
      next c hc => exact .setC' hc _ rfl rfl rfl (fun h => h)
      · exact .refl _

theorem pubAttach_PP (w : World) (p slot : Nat) (e : SubEntry) (P : Pub) (gh : List Nat) :
    PStepP p w (pubAttach w p slot e P gh) := by
  unfold pubAttach
  refine .trans ?_ (.setP _ _)
  split
  next c hc => exact .setC' hc _ rfl rfl rfl (fun _ => .inl rfl)
  next hc => exact .pushC _ _ rfl rfl rfl hc

theorem pubCreateConn_PP (w : World) (p slot : Nat) (e : SubEntry) : PStepP p w (pubCreateConn w p slot e) := by
  rw [pubCreateConn_eq]
  split
  · exact .refl _
  · exact .trans (pubAttach_PP _ _ _ _ _ _) (deliverHistory_PP _ _ _ _)

theorem pubUpdateSlots_PP (w : World) (p : Nat) (l : List (Option SubEntry)) (i : Nat) (t : List Nat) :
    PStepP p w (pubUpdateSlots w p l i t).1 := by
  induction l generalizing w i t with
  | nil => exact .refl _
  | cons a l ih =>
    cases a with
    | none => rw [pubUpdateSlots]; exact ih _ _ _
    | some e =>
      rw [pubUpdateSlots]
      split
      · exact .refl _
      · split
        · exact .trans (pubCreateConn_PP _ _ _ _) (ih _ _ _)
        · split
          · exact ih _ _ _
          · exact .trans (.trans (pubRemoveConn_PP _ _ _) (pubCreateConn_PP _ _ _ _)) (ih _ _ _)

theorem pubFinish_PP (w : World) (p : Nat) (t : List Nat) (k : Nat) : PStepP p w (pubFinish w p t k) := by
  induction k with
  | zero => exact .refl _
  | succ k ih =>
    rw [pubFinish]
    split
    · exact ih
    · exact .trans ih (pubRemoveConn_PP _ _ _)

theorem pubForceUpdate_PP (w : World) (p : Nat) : PStepP p w (pubForceUpdate w p) := by
  unfold pubForceUpdate
  split
  · exact .refl _
  · exact .trans (pubUpdateSlots_PP _ _ _ _ _) (pubFinish_PP _ _ _ _)

theorem pubDestroySlots_PP (w : World) (p : Nat) (l : List (Option Nat)) : PStepP p w (pubDestroySlots w p l) := by
  induction l generalizing w with
  | nil => exact .refl _
  | cons a l ih =>
    cases a with
    | none => exact ih w
    | some s => rw [pubDestroySlots]; exact .trans (detachSender_PP _ _ _) (ih _)

end Iox2.PubSub.C08
