/-
C06 — preservation of `RefOK` and `StOK` by the list-level state changes.
-/
import Iox2.Proof.ServiceLifeInvBase

namespace Iox2.ServiceLife

theorem keys_map_updRef (n : Nat) (k : Key) (g : Nat → Nat) (l : List Ref) :
    (l.map (updRef n k g)).map (fun r => (r.1, r.2.1)) = l.map (fun r => (r.1, r.2.1)) := by
  rw [List.map_map]
  apply List.map_congr_left
  intro r _
  show ((updRef n k g r).1, (updRef n k g r).2.1) = (r.1, r.2.1)
  rw [updRef_fst, updRef_snd_fst]

/-! ## RefOK -/

theorem RefOK.add_new {refs : List Ref} {sts : List SState} (h : RefOK refs sts) {n : Nat} {k : Key}
    (h0 : refCountL refs n k = 0) (st : SState) (hn : st.node = n) (hk : st.key = k) :
    RefOK ((n, k, 1) :: refs) (st :: sts) where
  nodup := by
    rw [List.map_cons, List.nodup_cons]
    exact ⟨not_mem_keys_of_refCountL_zero h.pos h0, h.nodup⟩
  pos := by
    intro r hr
    rcases List.mem_cons.1 hr with rfl | hr
    · exact Nat.le_refl 1
    · exact h.pos r hr
  cnt := by
    intro n' k'
    rw [refCountL_cons, stateCountL_cons, hn, hk, ← h.cnt]
    by_cases hq : n = n' ∧ k = k'
    · rw [if_pos hq, if_pos hq, ← hq.1, ← hq.2, h0]
    · rw [if_neg hq, if_neg hq]; omega

theorem RefOK.add_inc {refs : List Ref} {sts : List SState} (h : RefOK refs sts) {n : Nat} {k : Key}
    (h0 : refCountL refs n k ≠ 0) (st : SState) (hn : st.node = n) (hk : st.key = k) :
    RefOK (refs.map (updRef n k (fun c => c + 1))) (st :: sts) where
  nodup := by rw [keys_map_updRef]; exact h.nodup
  pos := by
    intro r hr
    rcases List.mem_map.1 hr with ⟨r0, hr0, rfl⟩
    have := h.pos r0 hr0
    by_cases hm : r0.1 = n ∧ r0.2.1 = k
    · rw [updRef_of _ hm]; show 1 ≤ r0.2.2 + 1; omega
    · rw [updRef_of_not _ hm]; exact this
  cnt := by
    intro n' k'
    rw [stateCountL_cons, hn, hk, ← h.cnt]
    by_cases hq : n' = n ∧ k' = k
    · rw [hq.1, hq.2, refCountL_map_eq, find_isSome_of_refCountL_ne_zero h0, if_pos rfl, if_pos ⟨rfl, rfl⟩]
      omega
    · rw [refCountL_map_ne n k _ n' k' hq]
      have : ¬(n = n' ∧ k = k') := fun hh => hq ⟨hh.1.symm, hh.2.symm⟩
      rw [if_neg this]; omega

theorem RefOK.replace {refs : List Ref} {l1 l2 : List SState} {st : SState} (h : RefOK refs (l1 ++ st :: l2))
    (st' : SState) (hn : st'.node = st.node) (hk : st'.key = st.key) : RefOK refs (l1 ++ st' :: l2) where
  nodup := h.nodup
  pos := h.pos
  cnt := by
    intro n k
    rw [h.cnt, stateCountL_middle, stateCountL_middle, hn, hk]

theorem RefOK.remove_last {refs : List Ref} {l1 l2 : List SState} {st : SState} (h : RefOK refs (l1 ++ st :: l2))
    {n : Nat} {k : Key} (hn : st.node = n) (hk : st.key = k) (hc : refCountL refs n k ≤ 1) :
    RefOK (refs.filter (fun r => !(r.1 == n && r.2.1 == k))) (l1 ++ l2) where
  nodup := h.nodup.sublist (List.filter_sublist.map _)
  pos := fun r hr => h.pos r (List.mem_filter.1 hr).1
  cnt := by
    intro n' k'
    rw [refCountL_filter]
    have h1 := h.cnt n' k'
    rw [stateCountL_middle, hn, hk] at h1
    by_cases hq : n' = n ∧ k' = k
    · rw [if_pos hq]
      have : n = n' ∧ k = k' := ⟨hq.1.symm, hq.2.symm⟩
      rw [if_pos this, hq.1, hq.2] at h1
      rw [hq.1, hq.2]
      omega
    · rw [if_neg hq]
      have : ¬(n = n' ∧ k = k') := fun hh => hq ⟨hh.1.symm, hh.2.symm⟩
      rw [if_neg this] at h1
      omega

theorem RefOK.remove_dec {refs : List Ref} {l1 l2 : List SState} {st : SState} (h : RefOK refs (l1 ++ st :: l2))
    {n : Nat} {k : Key} (hn : st.node = n) (hk : st.key = k) (hc : ¬refCountL refs n k ≤ 1) :
    RefOK (refs.map (updRef n k (fun c => c - 1))) (l1 ++ l2) where
  nodup := by rw [keys_map_updRef]; exact h.nodup
  pos := by
    intro r hr
    rcases List.mem_map.1 hr with ⟨r0, hr0, rfl⟩
    have := h.pos r0 hr0
    by_cases hm : r0.1 = n ∧ r0.2.1 = k
    · rw [updRef_of _ hm]
      have e := refCountL_of_mem h.nodup hr0
      rw [hm.1, hm.2] at e
      show 1 ≤ r0.2.2 - 1
      omega
    · rw [updRef_of_not _ hm]; exact this
  cnt := by
    intro n' k'
    have h1 := h.cnt n' k'
    rw [stateCountL_middle, hn, hk] at h1
    by_cases hq : n' = n ∧ k' = k
    · have : n = n' ∧ k = k' := ⟨hq.1.symm, hq.2.symm⟩
      rw [if_pos this] at h1
      rw [hq.1, hq.2] at h1 ⊢
      rw [refCountL_map_eq, find_isSome_of_refCountL_ne_zero (by omega), if_pos rfl]
      omega
    · rw [refCountL_map_ne n k _ n' k' hq]
      have : ¬(n = n' ∧ k = k') := fun hh => hq ⟨hh.1.symm, hh.2.symm⟩
      rw [if_neg this] at h1
      omega

/-! ## StOK -/

theorem facs_middle (l1 l2 : List SState) (st : SState) :
    (l1 ++ st :: l2).filterMap (·.factory) =
      l1.filterMap (·.factory) ++ (st.factory.toList ++ l2.filterMap (·.factory)) := by
  rw [List.filterMap_append, List.filterMap_cons]
  cases st.factory <;> rfl

theorem ports_middle (l1 l2 : List SState) (st : SState) :
    (l1 ++ st :: l2).flatMap (fun st => st.ports.map (·.1)) =
      l1.flatMap (fun st => st.ports.map (·.1)) ++ (st.ports.map (·.1) ++ l2.flatMap (fun st => st.ports.map (·.1))) := by
  rw [List.flatMap_append, List.flatMap_cons]

theorem labelUsed_false_iff {w : World} {h : Nat} :
    labelUsed w h = false ↔ h ∉ w.states.filterMap (·.factory) := by
  unfold labelUsed
  rw [List.any_eq_false, List.mem_filterMap]
  constructor
  · rintro hh ⟨st, hst, e⟩
    exact hh st hst (by simp [e])
  · intro hh st hst e
    exact hh ⟨st, hst, by simpa using e⟩

theorem portUsed_false_iff {w : World} {pl : Nat} :
    portUsed w pl = false ↔ pl ∉ w.states.flatMap (fun st => st.ports.map (·.1)) := by
  unfold portUsed
  rw [List.any_eq_false, List.mem_flatMap]
  constructor
  · rintro hh ⟨st, hst, e⟩
    apply hh st hst
    rcases List.mem_map.1 e with ⟨q, hq, rfl⟩
    exact List.any_eq_true.2 ⟨q, hq, by simp⟩
  · intro hh st hst e
    apply hh
    rcases List.any_eq_true.1 e with ⟨q, hq, e'⟩
    exact ⟨st, hst, List.mem_map.2 ⟨q, hq, by simpa using e'⟩⟩

theorem StOK.add {sts : List SState} (h : StOK sts) (n : Nat) (k : Key) (uid : Nat) (cfg : Settings) {lbl : Nat}
    (hl : lbl ∉ sts.filterMap (·.factory)) :
    StOK ({ node := n, key := k, uid := uid, cfg := cfg, factory := some lbl, ports := [] } :: sts) where
  facNodup := by
    rw [List.filterMap_cons]
    exact List.nodup_cons.2 ⟨hl, h.facNodup⟩
  portNodup := by
    rw [List.flatMap_cons]
    exact h.portNodup
  live := by
    intro st hst
    rcases List.mem_cons.1 hst with rfl | hst
    · exact Or.inl rfl
    · exact h.live st hst

theorem StOK.remove {l1 l2 : List SState} {st : SState} (h : StOK (l1 ++ st :: l2)) : StOK (l1 ++ l2) where
  facNodup := h.facNodup.sublist ((sublist_remove_middle st l1 l2).filterMap _)
  portNodup := by
    have := h.portNodup
    rw [ports_middle] at this
    rw [List.flatMap_append]
    exact this.sublist ((List.Sublist.refl _).append (List.sublist_append_right _ _))
  live := fun x hx => h.live x (mem_remove_middle hx)

/-- the factory is dropped, ports remain -/
theorem StOK.replace_drop {l1 l2 : List SState} {st : SState} (h : StOK (l1 ++ st :: l2)) (st' : SState)
    (hf : st'.factory = none) (hp : st'.ports = st.ports) (hl : st'.ports ≠ []) : StOK (l1 ++ st' :: l2) where
  facNodup := by
    have := h.facNodup
    rw [facs_middle] at this
    rw [facs_middle, hf]
    exact this.sublist ((List.Sublist.refl _).append (List.sublist_append_right _ _))
  portNodup := by
    have := h.portNodup
    rw [ports_middle] at this
    rw [ports_middle, hp]
    exact this
  live := by
    intro x hx
    rcases mem_middle_iff.1 hx with rfl | hx
    · exact Or.inr hl
    · exact h.live x (mem_remove_middle hx)

/-- a port with a fresh label is added -/
theorem StOK.replace_port {l1 l2 : List SState} {st : SState} (h : StOK (l1 ++ st :: l2)) (st' : SState)
    (hf : st'.factory = st.factory) {pl kind : Nat} (hp : st'.ports = (pl, kind) :: st.ports)
    (hfresh : pl ∉ (l1 ++ st :: l2).flatMap (fun st => st.ports.map (·.1))) : StOK (l1 ++ st' :: l2) where
  facNodup := by
    have := h.facNodup
    rw [facs_middle] at this
    rw [facs_middle, hf]
    exact this
  portNodup := by
    have := h.portNodup
    rw [ports_middle] at this hfresh
    rw [ports_middle, hp, List.map_cons, List.cons_append]
    exact nodup_insert_middle this hfresh
  live := by
    intro x hx
    rcases mem_middle_iff.1 hx with rfl | hx
    · exact Or.inr (by rw [hp]; exact List.cons_ne_nil _ _)
    · exact h.live x (mem_remove_middle hx)

/-- a port is dropped, the state stays live -/
theorem StOK.replace_dport {l1 l2 : List SState} {st : SState} (h : StOK (l1 ++ st :: l2)) (st' : SState)
    (hf : st'.factory = st.factory) (p : Nat × Nat → Bool) (hp : st'.ports = st.ports.filter p)
    (hl : st'.factory.isSome ∨ st'.ports ≠ []) : StOK (l1 ++ st' :: l2) where
  facNodup := by
    have := h.facNodup
    rw [facs_middle] at this
    rw [facs_middle, hf]
    exact this
  portNodup := by
    have := h.portNodup
    rw [ports_middle] at this
    rw [ports_middle, hp]
    exact this.sublist ((List.Sublist.refl _).append
      ((List.filter_sublist.map _).append (List.Sublist.refl _)))
  live := by
    intro x hx
    rcases mem_middle_iff.1 hx with rfl | hx
    · exact hl
    · exact h.live x (mem_remove_middle hx)

/-- the factory label selects one state -/
theorem StOK.fac_unique {l1 l2 : List SState} {st : SState} (h : StOK (l1 ++ st :: l2)) {lbl : Nat}
    (hs : st.factory = some lbl) : ∀ x ∈ l2, (x.factory == some lbl) = false := by
  intro x hx
  cases hb : (x.factory == some lbl)
  · rfl
  · exfalso
    have e : x.factory = some lbl := by simpa using hb
    have := h.facNodup
    rw [facs_middle, hs] at this
    have := (List.nodup_append.1 this).2.1
    rw [Option.toList_some, List.singleton_append, List.nodup_cons] at this
    exact this.1 (List.mem_filterMap.2 ⟨x, hx, e⟩)

/-- the port label selects one state -/
theorem StOK.port_unique {l1 l2 : List SState} {st : SState} (h : StOK (l1 ++ st :: l2)) {pl : Nat}
    (hs : st.ports.any (fun q => q.1 == pl) = true) : ∀ x ∈ l2, x.ports.any (fun q => q.1 == pl) = false := by
  intro x hx
  cases hb : x.ports.any (fun q => q.1 == pl)
  · rfl
  · exfalso
    rcases List.any_eq_true.1 hs with ⟨q, hq, e⟩
    rcases List.any_eq_true.1 hb with ⟨q', hq', e'⟩
    have e1 : q.1 = pl := by simpa using e
    have e2 : q'.1 = pl := by simpa using e'
    have := h.portNodup
    rw [ports_middle] at this
    have := (List.nodup_append.1 (List.nodup_append.1 this).2.1).2.2 pl
      (List.mem_map.2 ⟨q, hq, e1⟩) pl (List.mem_flatMap.2 ⟨x, hx, List.mem_map.2 ⟨q', hq', e2⟩⟩)
    exact this rfl

end Iox2.ServiceLife
