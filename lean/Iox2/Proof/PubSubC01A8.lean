/-
Layer A: the subscriber-side helper functions.  A failed slot-map insert sets `panicked` and
leaves a world for which nothing is claimed: `InvAp` = "panicked or `InvA`".
-/
import Iox2.Proof.PubSubC01A7
namespace Iox2.PubSub.C01P
open Iox2.PubSub
open Iox2.C16.SlotMapP (abs WInv)

variable {cfg : Cfg} {np ns : Option Nat} {w : World}

/-- update of a subscriber record: flags may only go down consistently, the storage may only lose
keys that no attached connection needs, held samples may only disappear -/
theorem InvA.setS_gen (h : InvA cfg np ns w) {s : Nat} {S S' : Sub} (hp : getS w s = some S)
    (ha : S'.alive = S.alive) (hdown : S'.ex = true → S.ex = true) (hsal : S'.alive = true → S'.ex = true)
    (hs : S'.slot = S.slot) (hb : S'.buffer = S.buffer)
    (hg : S'.ghostRecv = S.ghostRecv) (hh : ∀ x ∈ S'.held, x ∈ S.held)
    (hW : WInv S'.storage) (hsubst : ∀ k p', abs S'.storage k = some p' → abs S.storage k = some p')
    (hkeep : ∀ cn ∈ w.conns, cn.sid = s → cn.rAtt = true → S'.ex = true ∧ ∃ k, abs S'.storage k = some cn.pid) :
    InvA cfg np ns (setS w s S') := by
  have key : ∀ a Q, getS (setS w s S') a = some Q → (a = s ∧ Q = S') ∨ (a ≠ s ∧ getS w a = some Q) := by
    intro a Q hq
    rw [getS_setS] at hq
    by_cases hap : a = s
    · subst hap
      simp only [if_true, hp, Option.map_some, Option.some.injEq] at hq
      exact Or.inl ⟨rfl, hq.symm⟩
    · rw [if_neg hap] at hq
      exact Or.inr ⟨hap, hq⟩
  have key2 : ∀ a Q0, getS w a = some Q0 →
      ∃ Q, getS (setS w s S') a = some Q ∧ Q.alive = Q0.alive ∧ Q.slot = Q0.slot ∧ Q.buffer = Q0.buffer := by
    intro a Q0 hq
    rw [getS_setS]
    by_cases hap : a = s
    · subst hap
      rw [hp] at hq; cases hq
      exact ⟨S', by simp [hp], ha, hs, hb⟩
    · rw [if_neg hap]
      exact ⟨Q0, hq, rfl, rfl, rfl⟩
  constructor
  · exact h.cfgEq
  · exact h.uniqC
  · exact h.sregLen
  · exact h.preg
  · intro i e hi
    obtain ⟨h1, Q0, h2, h3, h4, h5⟩ := h.sreg i e hi
    obtain ⟨Q, hq, e1, e3, e4⟩ := key2 _ Q0 h2
    exact ⟨h1, Q, hq, e1 ▸ h3, e3 ▸ h4, e4 ▸ h5⟩
  · exact h.palive
  · intro a Q hq hal
    rcases key a Q hq with ⟨rfl, rfl⟩ | ⟨_, h0⟩
    · rw [hs]; exact ⟨hsal hal, (h.salive a S hp (ha ▸ hal)).2⟩
    · exact h.salive a Q h0 hal
  · intro a Q hq
    rcases key a Q hq with ⟨rfl, rfl⟩ | ⟨_, h0⟩
    · rw [hb]; exact h.sbuf a S hp
    · exact h.sbuf a Q h0
  · intro a Q hq
    obtain ⟨h1, h2⟩ := h.pconns a Q hq
    refine ⟨h1, fun i b hi => ?_⟩
    obtain ⟨h3, Q0, h0, h4⟩ := h2 i b hi
    obtain ⟨Q', hq', e1, e3, _⟩ := key2 _ Q0 h0
    exact ⟨h3, Q', hq', e3 ▸ h4⟩
  · intro cn hcn
    obtain ⟨hP, ⟨Q0, h0⟩⟩ := h.ends cn hcn
    obtain ⟨Q, hq, _⟩ := key2 _ Q0 h0
    exact ⟨hP, ⟨Q, hq⟩⟩
  · intro cn hcn hr
    by_cases hcs : cn.sid = s
    · obtain ⟨h1, k, hk⟩ := hkeep cn hcn hcs hr
      rw [hcs]
      exact ⟨S', by simp [getS_setS, hp], h1, k, hk⟩
    · obtain ⟨Q0, h0, h1, h2⟩ := h.a1 cn hcn hr
      refine ⟨Q0, ?_, h1, h2⟩
      rw [getS_setS, if_neg hcs]; exact h0
  · intro a Q hq
    rcases key a Q hq with ⟨rfl, rfl⟩ | ⟨_, h0⟩
    · exact ⟨hW, fun k p' hk => (h.stor a S hp).2 k p' (hsubst k p' hk)⟩
    · exact h.stor a Q h0
  · exact h.a2
  · exact h.a2c
  · exact h.a3
  · intro cn hcn hsa P Q hP hq hex hal
    rcases key _ Q hq with ⟨hap, rfl⟩ | ⟨_, h0⟩
    · exact h.virg cn hcn hsa P S hP (hap ▸ hp) hex (ha ▸ hal)
    · exact h.virg cn hcn hsa P Q hP h0 hex hal
  · intro a Q hq hal e he P hP hPa
    rcases key _ Q hq with ⟨rfl, rfl⟩ | ⟨_, h0⟩
    · exact h.k2 a S hp (ha ▸ hal) e (hg ▸ he) P hP hPa
    · exact h.k2 a Q h0 hal e he P hP hPa
  · intro cn hcn Q hq
    rcases key _ Q hq with ⟨hap, rfl⟩ | ⟨_, h0⟩
    · rw [hg]; exact h.l3 cn hcn S (hap ▸ hp)
    · exact h.l3 cn hcn Q h0
  · intro a Q hq hd hhd
    rcases key _ Q hq with ⟨rfl, rfl⟩ | ⟨_, h0⟩
    · rw [hg]; exact h.l4 a S hp hd (hh hd hhd)
    · exact h.l4 a Q h0 hd hhd
  · exact h.clog
  · intro a Q hq e he
    rcases key _ Q hq with ⟨rfl, rfl⟩ | ⟨_, h0⟩
    · exact h.gr a S hp e (hg ▸ he)
    · exact h.gr a Q h0 e he

theorem InvA.panic (h : InvA cfg np ns w) : InvA cfg np ns { w with panicked := true } :=
  ⟨h.cfgEq, h.uniqC, h.sregLen, h.preg, h.sreg, h.palive, h.salive, h.sbuf, h.pconns, h.ends, h.a1, h.stor,
   h.a2, h.a2c, h.a3, h.virg, h.k2, h.l3, h.l4, h.clog, h.gr⟩

/-- panicked, or the invariant holds -/
def InvAp (cfg : Cfg) (np ns : Option Nat) (w : World) : Prop := w.panicked = true ∨ InvA cfg np ns w

theorem InvAp.of_step {w' : World} (f : SFrame w w') (hp : InvAp cfg np ns w)
    (h : InvA cfg np ns w → InvAp cfg np ns w') : InvAp cfg np ns w' := by
  rcases hp with hp | hp
  · exact Or.inl (f.sticky hp)
  · exact h hp

theorem detachReceiver_setS_comm (w : World) (p s a : Nat) (X : Sub) :
    detachReceiver (setS w a X) p s = setS (detachReceiver w p s) a X := by
  simp only [detachReceiver_eq, getC_setS]
  cases getC w p s with
  | none => rfl
  | some c => simp only; split <;> rfl

theorem InvA.subDropConn (h : InvA cfg np ns w) (s key : Nat) : InvA cfg np ns (subDropConn w s key) := by
  unfold Iox2.PubSub.subDropConn
  cases hS : getS w s with
  | none => exact h
  | some S =>
    simp only
    cases hk : smGet S.storage key with
    | none => exact h
    | some p =>
      simp only
      rw [detachReceiver_setS_comm]
      have h1 := h.detachReceiver p s
      rw [smGet_eq_abs] at hk
      obtain ⟨hW, _⟩ := h.stor s S hS
      obtain ⟨hW', habs⟩ := smRemove_spec key hW
      refine h1.setS_gen (S := S) (by rw [getS_detachReceiver]; exact hS) rfl id (fun hx => (h.salive s S hS hx).1)
        rfl rfl rfl (fun x hx => hx) hW' ?_ ?_
      · intro k p' hk'
        rw [habs] at hk'
        by_cases hkk : k = key
        · rw [if_pos hkk] at hk'; cases hk'
        · rw [if_neg hkk] at hk'; exact hk'
      · intro cn hcn hcs hra
        obtain ⟨Q, hQ, hex, k, hk'⟩ := h1.a1 cn hcn hra
        rw [hcs, getS_detachReceiver, hS] at hQ; cases hQ
        refine ⟨hex, k, ?_⟩
        rw [habs]
        have : k ≠ key := by
          rintro rfl
          rw [hk] at hk'; cases hk'
          -- the connection `(p, s)` is no longer receiver-attached after the detach
          rcases mem_detachReceiver hcn with ⟨_, hne⟩ | ⟨c, _, _, rfl⟩ | ⟨hm, hn⟩
          · exact hne ⟨rfl, hcs⟩
          · cases hra
          · exact getC_none hn cn hm ⟨rfl, hcs⟩
        rw [if_neg this]; exact hk'

theorem InvA.setS_tbr (h : InvA cfg np ns w) {s : Nat} {S : Sub} (hS : getS w s = some S) (t : List Nat) :
    InvA cfg np ns (setS w s { S with tbr := t }) :=
  h.setS_irrel hS rfl rfl rfl rfl rfl rfl rfl

theorem InvA.prepMakeRoom (h : InvA cfg np ns w) (s : Nat) (S : Sub) (hS : getS w s = some S) (hb : Bool) :
    InvA cfg np ns (prepMakeRoom w s S hb) := by
  unfold C01P.prepMakeRoom
  split
  · exact (h.setS_tbr hS _).subDropConn s _
  · split
    · split
      · exact (h.setS_tbr hS _).subDropConn s _
      · exact h
    · exact h

theorem InvA.prepEnqueue (h : InvA cfg np ns w) (s key : Nat) (hb : Bool) :
    InvA cfg np ns (prepEnqueue w s key hb) := by
  unfold C01P.prepEnqueue
  cases hS : getS w s with
  | none => exact h
  | some S =>
    simp only
    split
    · exact h.setS_tbr hS _
    · split
      · exact h.panic
      · exact h.subDropConn s key

theorem InvA.subPrepareRemoval (h : InvA cfg np ns w) (s slot : Nat) :
    InvA cfg np ns (subPrepareRemoval w s slot) := by
  rw [subPrepareRemoval_eq]
  cases hS : getS w s with
  | none => exact h
  | some S =>
    simp only
    cases hk : S.conns.getD slot none with
    | none => exact h
    | some key =>
      simp only
      cases hf : connFlags w s S key with
      | none => exact h
      | some fl =>
        obtain ⟨hasData, hasBorrows⟩ := fl
        simp only
        split
        · split
          · exact h.setS_tbr hS _
          · exact (h.prepMakeRoom s S hS hasBorrows).prepEnqueue s key hasBorrows
        · exact h.subDropConn s key

theorem InvA.subCreateConn (h : InvA cfg np ns w) {s slot p i : Nat} {S : Sub} (hS : getS w s = some S)
    (hSa : S.alive = true) (hreg : w.pubReg.slots[i]? = some (some p)) :
    InvAp cfg np ns (subCreateConn w s slot p) := by
  rw [subCreateConn_eq, hS]
  simp only
  cases hins : smInsert S.storage p with
  | mk m k =>
    cases k with
    | none => exact Or.inl rfl
    | some key =>
      simp only
      right
      unfold recvAttach
      cases hC : getC w p s with
      | none =>
        simp only
        exact h.attachS_new hS hSa hreg hC hins rfl rfl rfl rfl rfl rfl rfl
      | some c =>
        simp only
        exact h.attachS_old hS (h.salive s S hS hSa).1 hreg hC hins rfl rfl rfl rfl rfl rfl rfl

theorem InvA.subUpdateSlots (h : InvA cfg np ns w) (s : Nat) (l : List (Option Nat)) (i : Nat) (t : List Nat)
    {S : Sub} (hS : getS w s = some S) (hSa : S.alive = true)
    (hreg : ∀ j p, l[j]? = some (some p) → w.pubReg.slots[i + j]? = some (some p)) :
    InvAp cfg np ns (subUpdateSlots w s l i t).1 := by
  induction l generalizing w i t S with
  | nil => exact Or.inr h
  | cons x r ih =>
    have hreg' : ∀ w' : World, w'.pubReg = w.pubReg →
        ∀ j p, r[j]? = some (some p) → w'.pubReg.slots[i + 1 + j]? = some (some p) := by
      intro w' hw' j p hj
      rw [hw']
      have := hreg (j + 1) p (by simpa using hj)
      rw [show i + 1 + j = i + (j + 1) by omega]; exact this
    cases x with
    | none => exact ih h (i + 1) t hS hSa (hreg' w rfl)
    | some p =>
      have hre : w.pubReg.slots[i]? = some (some p) := by
        have := hreg 0 p (by simp); simpa using this
      unfold Iox2.PubSub.subUpdateSlots
      rw [hS]
      simp only
      split
      · exact ih h (i + 1) _ hS hSa (hreg' w rfl)
      · have h1 := h.subPrepareRemoval s i
        have f1 := subPrepareRemoval_frame w s i
        obtain ⟨S1, hS1, st1⟩ := f1.ssome s S hS
        have h2 := h1.subCreateConn (slot := i) hS1 (st1.alive ▸ hSa) (by rw [f1.pubReg]; exact hre)
        have f2 := subCreateConn_frame (Iox2.PubSub.subPrepareRemoval w s i) s i p
        obtain ⟨S2, hS2, st2⟩ := f2.ssome s S1 hS1
        have f3 := subUpdateSlots_frame (Iox2.PubSub.subCreateConn (Iox2.PubSub.subPrepareRemoval w s i) s i p) s r (i + 1)
        refine InvAp.of_step (f3 _) h2 (fun h2' => ?_)
        exact ih h2' (i + 1) _ hS2 (by rw [st2.alive, st1.alive]; exact hSa) (hreg' _ (f2.pubReg.trans f1.pubReg))

theorem InvA.subFinish (h : InvA cfg np ns w) (s : Nat) (t : List Nat) (fuel n : Nat) :
    InvA cfg np ns (subFinish w s t fuel n) := by
  induction fuel generalizing w n with
  | zero => exact h
  | succ fuel ih =>
    unfold Iox2.PubSub.subFinish
    cases hS : getS w s with
    | none => exact h
    | some S =>
      simp only
      split
      · exact h
      · apply ih
        split
        · exact h
        · split
          · have h1 := h.subPrepareRemoval s n
            split
            · rename_i S' hS'
              exact h1.setS_irrel hS' rfl rfl rfl rfl rfl rfl rfl
            · exact h1
          · exact h

theorem InvA.subForceUpdate (h : InvA cfg np ns w) (s : Nat) {S : Sub} (hS : getS w s = some S)
    (hSa : S.alive = true) (hsnap : S.snap = w.pubReg.slots) : InvAp cfg np ns (subForceUpdate w s) := by
  unfold Iox2.PubSub.subForceUpdate
  rw [hS]
  simp only
  have h1 := h.subUpdateSlots s S.snap 0 [] hS hSa (fun j p hj => by rw [← hsnap]; simpa using hj)
  generalize Iox2.PubSub.subUpdateSlots w s S.snap 0 [] = d at h1
  obtain ⟨w1, tg⟩ := d
  simp only at h1 ⊢
  exact InvAp.of_step (subFinish_frame w1 s tg _ _) h1 (fun h1' => Or.inr (h1'.subFinish s tg _ _))

theorem InvA.subUpdate (h : InvA cfg np ns w) (s : Nat) (hSa : ∀ S, getS w s = some S → S.alive = true) :
    InvAp cfg np ns (subUpdate w s) := by
  unfold Iox2.PubSub.subUpdate
  cases hS : getS w s with
  | none => exact Or.inr h
  | some S =>
    simp only
    split
    · exact Or.inr h
    · have h1 : InvA cfg np ns (setS w s { S with snapCtr := w.pubReg.counter, snap := w.pubReg.slots }) :=
        h.setS_irrel hS rfl rfl rfl rfl rfl rfl rfl
      exact h1.subForceUpdate s (getS_setS_self _ hS) (hSa S hS) rfl

end Iox2.PubSub.C01P
