/-
Layer B: updates that are irrelevant for the reference counting.
-/
import Iox2.Proof.PubSubC01B1
namespace Iox2.PubSub.C01P
open Iox2.PubSub

variable {fl : Option (Nat × Nat × Bool)} {w : World}

/-- the fields of a publisher record that `InvB` looks at -/
structure PSameB (P P' : Pub) : Prop where
  n : P'.n = P.n
  rc : P'.rc = P.rc
  free : P'.free = P.free
  loans : P'.loans = P.loans
  hist : P'.hist = P.hist
  payload : P'.payload = P.payload
  sent : P'.sent = P.sent
  chunkSeq : P'.chunkSeq = P.chunkSeq
  seq : P'.seq = P.seq
  ex : P'.ex = P.ex

theorem PSameB.refl (P : Pub) : PSameB P P := ⟨rfl, rfl, rfl, rfl, rfl, rfl, rfl, rfl, rfl, rfl⟩

theorem InvB.setP_irrel (h : InvB fl w) {p : Nat} {P P' : Pub} (hp : getP w p = some P) (e : PSameB P P') :
    InvB fl (setP w p P') := by
  have key : ∀ a Q, getP (setP w p P') a = some Q → ∃ Q0, getP w a = some Q0 ∧ PSameB Q0 Q := by
    intro a Q hq
    rw [getP_setP] at hq
    by_cases hap : a = p
    · subst hap
      simp only [if_true, hp, Option.map_some, Option.some.injEq] at hq
      subst hq
      exact ⟨P, hp, e⟩
    · rw [if_neg hap] at hq
      exact ⟨Q, hq, PSameB.refl Q⟩
  constructor
  · exact h.keys
  · intro a Q hq
    obtain ⟨Q0, h0, e0⟩ := key a Q hq
    rw [e0.rc, e0.n, e0.payload, e0.chunkSeq, e0.sent, e0.seq]; exact h.lens a Q0 h0
  · intro cn hcn Q hq
    obtain ⟨Q0, h0, e0⟩ := key _ Q hq
    rw [e0.n]; exact h.usedLen cn hcn Q0 h0
  · intro a Q hq hex
    obtain ⟨Q0, h0, e0⟩ := key a Q hq
    rw [e0.free, e0.n, e0.rc]; exact h.free a Q0 h0 (e0.ex ▸ hex)
  · intro a Q hq hex c hc
    obtain ⟨Q0, h0, e0⟩ := key a Q hq
    rw [e0.rc, e0.loans, e0.hist]
    exact h.rc a Q0 h0 (e0.ex ▸ hex) c (e0.n ▸ hc)
  · intro a Q hq hex
    obtain ⟨Q0, h0, e0⟩ := key a Q hq
    rw [e0.loans, e0.n, e0.rc]; exact h.loans a Q0 h0 (e0.ex ▸ hex)
  · intro a Q hq hex
    obtain ⟨Q0, h0, e0⟩ := key a Q hq
    rw [e0.loans]; exact h.deadLoans a Q0 h0 (e0.ex ▸ hex)
  · intro a Q hq hex
    obtain ⟨Q0, h0, e0⟩ := key a Q hq
    rw [e0.hist, e0.n, e0.payload, e0.sent, e0.chunkSeq, e0.seq]; exact h.histOk a Q0 h0 (e0.ex ▸ hex)
  · intro a c fr hfl
    obtain ⟨Q0, h0, hex, hc, hfr⟩ := h.flOk a c fr hfl
    rw [getP_setP]
    by_cases hap : a = p
    · subst hap
      rw [hp] at h0; cases h0
      exact ⟨P', by simp [hp], e.ex ▸ hex, e.n ▸ hc, fun hh => by rw [e.rc]; exact hfr hh⟩
    · rw [if_neg hap]; exact ⟨Q0, h0, hex, hc, hfr⟩
  · intro cn hcn hsa Q S hq hex hS
    obtain ⟨Q0, h0, e0⟩ := key _ Q hq
    exact h.inqOk cn hcn hsa Q0 S h0 (e0.ex ▸ hex) hS
  · intro cn hcn hsa Q hq hex
    obtain ⟨Q0, h0, e0⟩ := key _ Q hq
    exact h.unatt cn hcn hsa Q0 h0 (e0.ex ▸ hex)
  · intro cn hcn Q S hq hS hor ch q hm
    obtain ⟨Q0, h0, e0⟩ := key _ Q hq
    rw [e0.payload, e0.sent, e0.seq]
    exact h.ppi cn hcn Q0 S h0 hS hor ch q hm

theorem InvB.setS_irrel (h : InvB fl w) {s : Nat} {S S' : Sub} (hp : getS w s = some S)
    (hh : S'.held = S.held) (ha : S'.alive = true → S.alive = true) : InvB fl (setS w s S') := by
  have key : ∀ a Q, getS (setS w s S') a = some Q → ∃ Q0, getS w a = some Q0 ∧ Q.held = Q0.held ∧
      (Q.alive = true → Q0.alive = true) := by
    intro a Q hq
    rw [getS_setS] at hq
    by_cases hap : a = s
    · subst hap
      simp only [if_true, hp, Option.map_some, Option.some.injEq] at hq
      subst hq
      exact ⟨S, hp, hh, ha⟩
    · rw [if_neg hap] at hq
      exact ⟨Q, hq, rfl, id⟩
  constructor
  · exact h.keys
  · exact h.lens
  · exact h.usedLen
  · exact h.free
  · exact h.rc
  · exact h.loans
  · exact h.deadLoans
  · exact h.histOk
  · exact h.flOk
  · intro cn hcn hsa Q S0 hq hex hS
    obtain ⟨Q0, h0, e1, _⟩ := key _ S0 hS
    have := h.inqOk cn hcn hsa Q Q0 hq hex h0
    unfold inq heldCh at this ⊢
    rw [e1]; exact this
  · exact h.unatt
  · intro cn hcn Q S0 hq hS hor ch q hm
    obtain ⟨Q0, h0, _, e2⟩ := key _ S0 hS
    exact h.ppi cn hcn Q Q0 hq h0 (hor.imp id e2) ch q hm

/-- a connection update that keeps key, sender flag, used bits, queues -/
theorem InvB.setC_irrel (h : InvB fl w) {c0 x : Conn} (hg : getC w x.pid x.sid = some c0)
    (hsa : x.sAtt = c0.sAtt) (hu : x.used = c0.used) (hsub : x.sub = c0.sub) (hcomp : x.comp = c0.comp) :
    InvB fl (setC w x) := by
  obtain ⟨hcm, hcp, hcs⟩ := getC_some hg
  have hind : ∀ p c, ind p c x = ind p c c0 := by
    intro p c; unfold ind; rw [hsa, hu, hcp]
  have hcnt : ∀ p c, usedCnt (setC w x) p c = usedCnt w p c := by
    intro p c
    have := usedCnt_setC h.keys hg p c
    rw [hind] at this; omega
  constructor
  · exact h.keys.setC x
  · exact h.lens
  · intro cn hcn Q hq
    rcases mem_setC hcn with ⟨rfl, _⟩ | ⟨hm, _⟩
    · rw [hu]; exact h.usedLen c0 hcm Q (hcp ▸ hq)
    · exact h.usedLen cn hm Q hq
  · exact h.free
  · intro a Q hq hex c hc
    rw [hcnt]; exact h.rc a Q hq hex c hc
  · exact h.loans
  · exact h.deadLoans
  · exact h.histOk
  · exact h.flOk
  · intro cn hcn hs Q S hq hex hS
    rcases mem_setC hcn with ⟨rfl, _⟩ | ⟨hm, _⟩
    · have := h.inqOk c0 hcm (hsa ▸ hs) Q S (hcp ▸ hq) hex (hcs ▸ hS)
      unfold inq at this ⊢
      rw [hsub, hcomp, hu, ← hcp]; exact this
    · exact h.inqOk cn hm hs Q S hq hex hS
  · intro cn hcn hs Q hq hex
    rcases mem_setC hcn with ⟨rfl, _⟩ | ⟨hm, _⟩
    · rw [hu]; exact h.unatt c0 hcm (hsa ▸ hs) Q (hcp ▸ hq) hex
    · exact h.unatt cn hm hs Q hq hex
  · intro cn hcn Q S hq hS hor ch q hm'
    rcases mem_setC hcn with ⟨rfl, _⟩ | ⟨hm, _⟩
    · rw [hsub] at hm'
      exact h.ppi c0 hcm Q S (hcp ▸ hq) (hcs ▸ hS) (hsa ▸ hor) ch q hm'
    · exact h.ppi cn hm Q S hq hS hor ch q hm'

/-- a connection without sender side disappears -/
theorem InvB.dropC (h : InvB fl w) {p s : Nat} {c0 : Conn} (hg : getC w p s = some c0) (hsa : c0.sAtt = false) :
    InvB fl (dropC w p s) := by
  have hcnt : ∀ a c, usedCnt (C01P.dropC w p s) a c = usedCnt w a c := by
    intro a c
    have := usedCnt_dropC h.keys hg a c
    rw [ind_of_not_att hsa] at this; omega
  have hmem : ∀ cn ∈ (C01P.dropC w p s).conns, cn ∈ w.conns := fun cn hcn => (mem_dropC.mp hcn).1
  constructor
  · exact h.keys.dropC p s
  · exact h.lens
  · intro cn hcn; exact h.usedLen cn (hmem cn hcn)
  · exact h.free
  · intro a Q hq hex c hc
    rw [hcnt]; exact h.rc a Q hq hex c hc
  · exact h.loans
  · exact h.deadLoans
  · exact h.histOk
  · exact h.flOk
  · intro cn hcn; exact h.inqOk cn (hmem cn hcn)
  · intro cn hcn; exact h.unatt cn (hmem cn hcn)
  · intro cn hcn; exact h.ppi cn (hmem cn hcn)

/-- a connection object is created by the receiver side -/
theorem InvB.addC_unatt (h : InvB fl w) {x : Conn} (hx : getC w x.pid x.sid = none) (hsa : x.sAtt = false)
    (hlen : ∀ P, getP w x.pid = some P → x.used.length = P.n) (hu : ∀ c, x.used.getD c false = false)
    (hsub : x.sub = []) : InvB fl (addC w x) := by
  have hcnt : ∀ a c, usedCnt (C01P.addC w x) a c = usedCnt w a c := by
    intro a c
    rw [usedCnt_addC, ind_of_not_att hsa]; rfl
  constructor
  · exact h.keys.addC hx
  · exact h.lens
  · intro cn hcn Q hq
    rcases mem_addC.mp hcn with hm | rfl
    · exact h.usedLen cn hm Q hq
    · exact hlen Q hq
  · exact h.free
  · intro a Q hq hex c hc
    rw [hcnt]; exact h.rc a Q hq hex c hc
  · exact h.loans
  · exact h.deadLoans
  · exact h.histOk
  · exact h.flOk
  · intro cn hcn hs
    rcases mem_addC.mp hcn with hm | rfl
    · exact h.inqOk cn hm hs
    · rw [hsa] at hs; cases hs
  · intro cn hcn hs Q hq hex
    rcases mem_addC.mp hcn with hm | rfl
    · exact h.unatt cn hm hs Q hq hex
    · exact hu
  · intro cn hcn Q S hq hS hor ch q hm'
    rcases mem_addC.mp hcn with hm | rfl
    · exact h.ppi cn hm Q S hq hS hor ch q hm'
    · rw [hsub] at hm'; cases hm'

theorem InvB.detachReceiver (h : InvB fl w) (p s : Nat) : InvB fl (detachReceiver w p s) := by
  cases hg : getC w p s with
  | none => rw [detachReceiver_none hg]; exact h
  | some c =>
    obtain ⟨_, hcp, hcs⟩ := getC_some hg
    cases hsa : c.sAtt with
    | true =>
      rw [detachReceiver_keep hg hsa]
      have hg' : getC w ({ c with rAtt := false } : Conn).pid ({ c with rAtt := false } : Conn).sid = some c := by
        show getC w c.pid c.sid = some c
        rw [hcp, hcs]; exact hg
      exact h.setC_irrel (x := { c with rAtt := false }) hg' rfl rfl rfl rfl
    | false =>
      rw [detachReceiver_drop hg hsa]
      exact h.dropC hg hsa

theorem InvB.panic (h : InvB fl w) : InvB fl { w with panicked := true } :=
  ⟨h.keys, h.lens, h.usedLen, h.free, h.rc, h.loans, h.deadLoans, h.histOk, h.flOk, h.inqOk, h.unatt, h.ppi⟩

end Iox2.PubSub.C01P
