/-
C08 helper: the API operations preserve the invariant (part 9: `send`).
-/
import Iox2.Proof.PubSubC08Op8
set_option linter.unusedSimpArgs false
set_option linter.unusedVariables false
namespace Iox2.PubSub.C08
open Iox2.PubSub
open Iox2.C16.SlotMapP (abs)
attribute [-simp] List.getD_eq_getElem?_getD

def sendF (p c seq : Nat) (acc : World × Nat) (sl : Option Nat) : World × Nat :=
  match sl with
  | none => acc
  | some s => let (w', ok) := deliverTo acc.1 p s c seq
              (w', if ok then acc.2 + 1 else acc.2)

def sendAlive (w : World) (p c tag : Nat) : World × String :=
  let w := pubUpdate w p
  match getP w p with
  | none => (w, "none")
  | some P =>
    let P1 := histUpd w.cfg.hist
      { P with seq := P.seq + 1, chunkSeq := P.chunkSeq.set c P.seq, sent := P.sent ++ [tag] } c
    let w := retrieveReturned (setP w p P1) p
    let slots := match getP w p with | some P => P.conns | none => []
    let r := slots.foldl (sendF p c P.seq) (w, 0)
    (r.1, s!"ok:{r.2}")

def sendFinish (w : World) (p c : Nat) : World :=
  pubDestroyIfUnreferenced
    (match getP w p with
      | some P => setP w p { P.releaseChunk c with loanCnt := P.loanCnt - 1 }
      | none => w) p

theorem step_send_eq (w : World) (p l tag : Nat) :
    step w (.send p l tag) =
      match getP w p with
      | none => (w, "none")
      | some P0 =>
        match P0.loans.find? (·.1 = l) with
        | none => (w, "none")
        | some (_, c) =>
          let r :=
            if !P0.alive then
              (setP w p { P0 with payload := P0.payload.set c tag, loans := P0.loans.filter (·.1 ≠ l) },
                "err:ConnectionBrokenSinceSenderNoLongerExists")
            else sendAlive (setP w p { P0 with payload := P0.payload.set c tag, loans := P0.loans.filter (·.1 ≠ l) }) p c tag
          (sendFinish r.1 p c, r.2) := by
  simp only [step]
  cases getP w p with
  | none => rfl
  | some P0 =>
    dsimp only
    cases P0.loans.find? (·.1 = l) with
    | none => rfl
    | some lc =>
      obtain ⟨lab, c⟩ := lc
      dsimp only
      cases P0.alive <;> rfl

theorem sendAlive_inv {cfg : Cfg} {w : World} {p c tag : Nat} {P : Pub}
    (h : InvP cfg w none p [c] true) (hp : getP w p = some P) (hal : P.alive = true) :
    InvP cfg (sendAlive w p c tag).1 none p [c] false ∧
    ∃ P', getP (sendAlive w p c tag).1 p = some P' ∧ P'.alive = true := by
  unfold sendAlive
  dsimp only
  obtain ⟨h2, P2, hp2, hu2⟩ := pubUpdate_inv h p hp hal (fun hne => absurd rfl hne)
  have hal2 : P2.alive = true := hu2.fields.1.trans hal
  rw [hp2]
  dsimp only
  have hcfg : (pubUpdate w p).cfg = cfg := h2.r.cfgEq
  rw [hcfg]
  -- the record with the ghost fields updated
  have M2 : MemOK cfg (pubUpdate w p) p P2 [c] true := by simpa using (h2.p p P2 hp2).2 hal2
  have M2' : MemOK cfg (pubUpdate w p) p
      { P2 with seq := P2.seq + 1, chunkSeq := P2.chunkSeq.set c P2.seq, sent := P2.sent ++ [tag] } [c] true :=
    ⟨⟨M2.fr.rcLen, M2.fr.freeNodup, M2.fr.freeRc, M2.fr.rcFree⟩, M2.nEq, M2.rcEq, M2.loanCnt, M2.histLen, M2.labels,
      M2.loanRc, M2.xsRc, M2.histNodup⟩
  obtain ⟨n1, n2, n3, n4⟩ := M2'.noref
  obtain ⟨M3, fr, rr, hs, hshape⟩ := M2'.histUpd
  generalize hP3 : histUpd cfg.hist
    { P2 with seq := P2.seq + 1, chunkSeq := P2.chunkSeq.set c P2.seq, sent := P2.sent ++ [tag] } c = P3 at M3 hshape
  have hsim3 : PubSim P2 P3 := by rw [hshape]; exact ⟨rfl, rfl, rfl, rfl, rfl⟩
  have h3 : InvP cfg (setP (pubUpdate w p) p P3) none p [c] false :=
    h2.setP_only hp2 P3 hsim3 (fun hne => absurd rfl hne) (fun _ => by simpa using M3)
  have hp3 : getP (setP (pubUpdate w p) p P3) p = some P3 := by simp [hp2]
  have hal3 : P3.alive = true := hsim3.alive.trans hal2
  -- nothing uses the chunk yet
  have hun3 : ∀ s, some s ∈ P3.conns → usedAt (setP (pubUpdate w p) p P3) p s c = false := by
    intro s hs'
    rw [hsim3.conns] at hs'
    cases hu : usedAt (pubUpdate w p) p s c with
    | false => exact hu
    | true =>
      have := slotSum_ge_of_used (w := pubUpdate w p) (p := p) (x := c) hs' hu
      have n4' : slotSum (pubUpdate w p) p P2.conns c = 0 := n4
      omega
  -- retrieve
  have h4 := retrieveReturned_inv h3 p (fun hne => absurd rfl hne)
  obtain ⟨_, s2, _, s4⟩ := retrieveReturned_shape (setP (pubUpdate w p) p P3) p
  obtain ⟨P4, hp4, e4⟩ := s2 P3 hp3
  rw [hp4]
  dsimp only
  have hal4 : P4.alive = true := e4.sim.alive.trans hal3
  have hSl4 := (h4.p p P4 hp4).1
  obtain ⟨k1, P5, k2, k3⟩ := sendLoop_inv (cfg := cfg) (sendF p c P2.seq) (fun acc => rfl)
    (fun acc s => by
      unfold sendF
      rfl)
    P4.conns (retrieveReturned (setP (pubUpdate w p) p P3) p, 0) (P := P4) h4 hp4 hal4 (fun s hs' => hs')
    (fun s => by
      by_cases hm : some s ∈ P4.conns
      · obtain ⟨i, hi⟩ := List.getElem?_of_mem hm
        rw [hSl4.count_one hi]; omega
      · rw [List.count_eq_zero.mpr hm]; omega)
    (fun s hs' => by
      cases hu : usedAt (retrieveReturned (setP (pubUpdate w p) p P3) p) p s c with
      | false => rfl
      | true =>
        unfold usedAt at hu
        cases hc4 : getC (retrieveReturned (setP (pubUpdate w p) p P3) p) p s with
        | none => rw [hc4] at hu; cases hu
        | some c4 =>
          rw [hc4] at hu
          have hu' : c4.used.getD c false = true := hu
          obtain ⟨c0, hc0, _, _, mono⟩ := s4 p s c4 hc4
          have := hun3 s (by rw [← e4.sim.conns]; exact hs')
          rw [usedAt_of_getC hc0, mono c hu'] at this; cases this)
    (fun s cn hs' hcn => by
      obtain ⟨c0, hc0, _, kk, _⟩ := s4 p s cn hcn
      exact kk P3 rfl hp3 (by rw [← e4.sim.conns]; exact hs'))
  exact ⟨k1, P5, k2, k3.sim.alive.trans hal4⟩

/-- the loan reference is dropped and, if the port is gone, the shared state with it -/
theorem sendFinish_inv {cfg : Cfg} {w : World} {p c : Nat} {st : Bool}
    (h : InvP cfg w none p [c] st) :
    Inv cfg (sendFinish w p c) := by
  unfold sendFinish
  cases hp : getP w p with
  | none =>
    dsimp only
    -- no record: nothing in flight can matter
    have h' : InvP cfg w none p [] false := by
      refine ⟨h.r, h.c, ?_, h.s, h.u⟩
      intro q Q hq
      have hqp : q ≠ p := by intro e; subst e; rw [hp] at hq; cases hq
      obtain ⟨a, b⟩ := h.p q Q hq
      refine ⟨a, fun ha => ?_⟩
      have := b ha
      simp only [hqp, if_false] at this ⊢
      exact this.nil_strict
    exact (pubDestroy_inv h' p (fun hne => absurd rfl hne)).toInv
  | some P =>
    dsimp only
    have hpool := releaseChunk_pool P c
    have hsim : PubSim P { P.releaseChunk c with loanCnt := P.loanCnt - 1 } :=
      ⟨hpool.sim.alive, hpool.sim.ex, hpool.sim.slot, hpool.sim.conns, hpool.sim.n⟩
    have h1 : InvP cfg (setP w p { P.releaseChunk c with loanCnt := P.loanCnt - 1 }) none p [] false := by
      refine h.setP_only hp _ hsim (fun hne => absurd rfl hne) (fun hal => ?_)
      have hal' : P.alive = true := hpool.sim.alive ▸ hal
      have M : MemOK cfg w p P [c] st := by simpa using (h.p p P hp).2 hal'
      simpa using M.drop_flight
    exact (pubDestroy_inv h1 p (fun hne => absurd rfl hne)).toInv

theorem sendFinish_panicked (w : World) (p c : Nat) : (sendFinish w p c).panicked = w.panicked := by
  unfold sendFinish
  rw [(pubDestroyIfUnreferenced_P _ p).frame.2.2.2.2.1]
  split <;> rfl

theorem sendAlive_panicked (w : World) (p c tag : Nat) : (sendAlive w p c tag).1.panicked = w.panicked := by
  unfold sendAlive
  dsimp only
  have h1 : (pubUpdate w p).panicked = w.panicked := (pubUpdate_P w p).frame.2.2.2.2.1
  split
  · exact h1
  next P hp =>
    dsimp only
    have hfold : ∀ (slots : List (Option Nat)) (acc : World × Nat) (seq : Nat),
        (slots.foldl (sendF p c seq) acc).1.panicked = acc.1.panicked := by
      intro slots
      induction slots with
      | nil => intro acc seq; rfl
      | cons a r ih =>
        intro acc seq
        simp only [List.foldl_cons]
        rw [ih]
        cases a with
        | none => rfl
        | some s => exact (deliverTo_P acc.1 p s c seq).frame.2.2.2.2.1
    rw [hfold]
    show (retrieveReturned _ p).panicked = _
    rw [(retrieveReturned_P _ p).frame.2.2.2.2.1]
    exact h1

theorem step_send {cfg : Cfg} {w : World} (h : Inv cfg w) (p l tag : Nat) :
    Inv cfg (step w (.send p l tag)).1 ∧ (step w (.send p l tag)).1.panicked = w.panicked := by
  rw [step_send_eq]
  cases hp : getP w p with
  | none => exact ⟨h, rfl⟩
  | some P0 =>
    dsimp only
    cases hfind : P0.loans.find? (·.1 = l) with
    | none => exact ⟨h, rfl⟩
    | some lc =>
      obtain ⟨lab, c⟩ := lc
      dsimp only
      obtain ⟨hm, hlab⟩ := find_some_mem hfind
      have hlab' : lab = l := hlab
      subst hlab'
      have hsim : PubSim P0 { P0 with payload := P0.payload.set c tag, loans := P0.loans.filter (·.1 ≠ lab) } :=
        ⟨rfl, rfl, rfl, rfl, rfl⟩
      have h1 : InvP cfg (setP w p { P0 with payload := P0.payload.set c tag, loans := P0.loans.filter (·.1 ≠ lab) })
          none p [c] true := by
        refine (h.toP p).setP_only hp _ hsim (fun hne => absurd rfl hne) (fun hal => ?_)
        have M := (h.p p P0 hp).2 hal
        simpa using M.take_loan hm (P0.payload.set c tag)
      by_cases hal : P0.alive = true
      · have hn : ¬ ((!P0.alive) = true) := by simp [hal]
        rw [if_neg hn]
        obtain ⟨k1, _⟩ := sendAlive_inv (tag := tag)
          (P := { P0 with payload := P0.payload.set c tag, loans := P0.loans.filter (·.1 ≠ lab) }) h1 (by simp [hp]) hal
        exact ⟨sendFinish_inv k1, by rw [sendFinish_panicked, sendAlive_panicked]; rfl⟩
      · have hn : (!P0.alive) = true := by simpa using hal
        rw [if_pos hn]
        exact ⟨sendFinish_inv h1, by rw [sendFinish_panicked]; rfl⟩

end Iox2.PubSub.C08
