/-
`ProcessMonitor::state()` step by step: what each outcome of a query step tells about the owner's progress.
-/
import Iox2.Proof.LifecycleInv
namespace Iox2.Lifecycle

theorem lockedByOther_st {fs : FS} (hG : G fs) {pid : Nat} (hpid : pid ≠ 0) :
    fs.st.lockedByOther pid = true ↔ fs.st.lock = some 0 := by
  rw [lockedByOther_iff]
  constructor
  · rintro ⟨p, hp, _⟩
    rcases hG.stLock with h | h
    · rw [h] at hp; cases hp
    · exact h
  · intro h; exact ⟨0, h, fun h0 => hpid h0.symm⟩

/-- what a query step of a process other than the owner establishes -/
def QPost (fs : FS) (q : Nat) : QOut → Prop
  | .next q' => q' ≤ 8 ∧ (2 ≤ q' → 17 ≤ fs.opc) ∧ (q' = 7 → fs.ol.linked = false) ∧
      (q' = 8 → fs.st.linked = true)
  | .done v => v ≠ .corrupted ∧ v ≠ .ctxUnreadable ∧
      (v = .dead → q = 8 ∧ (fs.odead = false → 26 ≤ fs.opc)) ∧
      (v = .cleaningUp → 17 ≤ fs.opc ∧ (fs.odead = false → 25 ≤ fs.opc)) ∧
      (v = .alive → q = 8 ∧ fs.st.lock = some 0)

theorem st_gone_progress {fs : FS} (hG : G fs) (h17 : 17 ≤ fs.opc) (h : fs.st.linked = false) (hd : fs.odead = false) :
    25 ≤ fs.opc := by
  rcases Nat.lt_or_ge 24 fs.opc with h' | h'
  · omega
  · have := hG.stLinked' hd (by omega) h'
    rw [this] at h; cases h

/-- one step of the query of a process other than the owner.  `h2`: the query has passed `fstat`; `h7`: it is at
`access(st)` because the owner-lock file did not exist -/
theorem qstep_sound {fs : FS} (hG : G fs) {pid q : Nat} (hpid : pid ≠ 0) (hq : q ≤ 8)
    (h2 : 2 ≤ q → 17 ≤ fs.opc) (h7 : q = 7 → fs.ol.linked = false) :
    QPost fs q (qstep fs pid q) := by
  have hc : q = 0 ∨ q = 1 ∨ q = 2 ∨ q = 3 ∨ q = 4 ∨ q = 5 ∨ q = 6 ∨ q = 7 ∨ q = 8 := by omega
  rcases hc with rfl | rfl | rfl | rfl | rfl | rfl | rfl | rfl | rfl
  · -- open ctx (write)
    simp only [qstep]
    by_cases h : fs.ctx.linked = true
    · rw [if_pos h]; simp [QPost]
    · rw [if_neg h]; simp [QPost]
  · -- fstat ctx
    simp only [qstep]
    by_cases h : fs.ctx.perm = .init
    · rw [if_pos h]; simp [QPost]
    · rw [if_neg h]
      have hf : fs.ctx.perm = .final := by
        cases hp : fs.ctx.perm with
        | init => exact absurd hp h
        | final => rfl
      have := hG.ctxFinal hf
      simp [QPost]; omega
  · have := h2 (by omega)
    simp only [qstep]
    by_cases h : fs.ctx.linked = true
    · rw [if_pos h]; simp [QPost]; omega
    · rw [if_neg h]; simp [QPost]
  · -- read ctx
    have h17 := h2 (by omega)
    have hp := hG.ctxPid (by omega)
    simp only [qstep, hp]
    rw [if_neg (fun h => hpid h.symm)]
    simp [QPost]; omega
  · have h17 := h2 (by omega)
    simp only [qstep]
    by_cases h : fs.ol.linked = true
    · rw [if_pos h]; simp [QPost]; omega
    · rw [if_neg h]; simp at h; simp [QPost, h]; omega
  · -- getlk ol
    have h17 := h2 (by omega)
    simp only [qstep]
    by_cases h : fs.ol.lockedByOther pid = true
    · rw [if_pos h]
      obtain ⟨p, hp, _⟩ := (lockedByOther_iff _ _).1 h
      have := (hG.olLock p hp).1
      simp [QPost, this]; omega
    · rw [if_neg h]; simp [QPost]; omega
  · -- open st
    have h17 := h2 (by omega)
    simp only [qstep]
    by_cases h : fs.st.linked = true
    · rw [if_pos h]; simp [QPost, h]; omega
    · rw [if_neg h]
      simp at h
      refine ⟨by simp, by simp, by simp, ?_, by simp⟩
      intro _
      exact ⟨h17, fun hd => st_gone_progress hG h17 h hd⟩
  · -- access st
    have h17 := h2 (by omega)
    have hol := h7 rfl
    simp only [qstep]
    by_cases h : fs.st.linked = true
    · have := (hG.order h17 h).1
      rw [hol] at this; cases this
    · rw [if_neg h]
      simp at h
      refine ⟨by simp, by simp, by simp, ?_, by simp⟩
      intro _
      exact ⟨h17, fun hd => st_gone_progress hG h17 h hd⟩
  · -- getlk st
    have h17 := h2 (by omega)
    simp only [qstep]
    by_cases h : fs.st.lockedByOther pid = true
    · rw [if_pos h]
      have := (lockedByOther_st hG hpid).1 h
      simp [QPost, this]
    · rw [if_neg h]
      refine ⟨by simp, by simp, ?_, by simp, by simp⟩
      intro _
      refine ⟨rfl, fun hd => ?_⟩
      rcases Nat.lt_or_ge 25 fs.opc with h' | h'
      · omega
      · have := hG.stLocked hd (by omega) h'
        exact absurd ((lockedByOther_st hG hpid).2 this) h

end Iox2.Lifecycle
