/-
Layer A: `update_connections` of the publisher and the destruction of its shared state.
-/
import Iox2.Proof.PubSubC01A6
namespace Iox2.PubSub.C01P
open Iox2.PubSub
open Iox2.C16.SlotMapP (abs WInv)

variable {cfg : Cfg} {np ns : Option Nat} {w : World}

theorem set_none_eq {α : Type} {l : List (Option α)} {i : Nat} (h : l.getD i none = none) : l.set i none = l := by
  apply List.ext_getElem?
  intro j
  rw [List.getElem?_set]
  by_cases hij : i = j
  · subst hij
    rw [if_pos rfl]
    split
    · rename_i hlt
      rw [List.getD_eq_getElem?_getD, List.getElem?_eq_getElem hlt] at h
      simp only [Option.getD_some] at h
      rw [List.getElem?_eq_getElem hlt, h]
    · rename_i hlt
      rw [List.getElem?_eq_none (by omega)]
  · rw [if_neg hij]

/-- the connection array after `remove_connection` -/
theorem pubRemoveConn_conns (w : World) (p slot : Nat) {P : Pub} (hP : getP w p = some P) :
    ∃ P', getP (pubRemoveConn w p slot) p = some P' ∧ P'.conns = P.conns.set slot none := by
  rw [pubRemoveConn_eq, hP]
  simp only
  cases hs : P.conns.getD slot none with
  | none => exact ⟨P, hP, (set_none_eq hs).symm⟩
  | some s =>
    simp only
    rw [getP_detachSender]
    have : getP (pubRelease w p s P).1 p = some P ∧ (pubRelease w p s P).2.conns = P.conns := by
      unfold pubRelease
      cases hC : getC w p s with
      | none => exact ⟨hP, rfl⟩
      | some c => exact ⟨hP, (releaseAllUsed_stable P c.used c.used.length).2⟩
    refine ⟨_, getP_setP_self _ this.1, ?_⟩
    simp only [this.2]

/-- a subscriber listed in slot `i` whose registry slot holds something else has been dropped -/
theorem InvA.dead_of_mismatch (h : InvA cfg np ns w) {p i s : Nat} {P : Pub} (hP : getP w p = some P)
    (hi : P.conns[i]? = some (some s)) (hreg : ∀ e, w.subReg.slots[i]? = some (some e) → e.sid ≠ s) :
    ∀ S, getS w s = some S → S.alive = false := by
  intro S hS
  obtain ⟨hns, S', hS', hsl⟩ := (h.pconns p P hP).2 i s hi
  rw [hS] at hS'; cases hS'
  cases hal : S.alive with
  | false => rfl
  | true =>
    obtain ⟨e, he, hes⟩ := (h.salive s S hS hal).2 hns
    rw [hsl] at he
    exact absurd hes (hreg e he)

theorem InvA.pubUpdateSlots (h : InvA cfg np ns w) (p : Nat) (l : List (Option SubEntry)) (i : Nat) (t : List Nat)
    {P : Pub} (hP : getP w p = some P) (hPa : P.alive = true)
    (hreg : ∀ j e, l[j]? = some (some e) → w.subReg.slots[i + j]? = some (some e)) :
    InvA cfg np ns (pubUpdateSlots w p l i t).1 ∧
    ∀ k, k ∈ (pubUpdateSlots w p l i t).2 ↔ (k ∈ t ∨ ∃ j e, l[j]? = some (some e) ∧ k = i + j) := by
  induction l generalizing w i t P with
  | nil => exact ⟨h, fun k => by simp [Iox2.PubSub.pubUpdateSlots]⟩
  | cons x r ih =>
    have hreg' : ∀ w' : World, w'.subReg = w.subReg →
        ∀ j e, r[j]? = some (some e) → w'.subReg.slots[i + 1 + j]? = some (some e) := by
      intro w' hw' j e hj
      rw [hw']
      have := hreg (j + 1) e (by simpa using hj)
      rw [show i + 1 + j = i + (j + 1) by omega]; exact this
    cases x with
    | none =>
      have := ih h (i + 1) t hP hPa (hreg' w rfl)
      refine ⟨this.1, fun k => ?_⟩
      show k ∈ (Iox2.PubSub.pubUpdateSlots w p r (i + 1) t).2 ↔ _
      rw [this.2 k]
      constructor
      · rintro (h1 | ⟨j, e, h1, h2⟩)
        · exact Or.inl h1
        · exact Or.inr ⟨j + 1, e, by simpa using h1, by omega⟩
      · rintro (h1 | ⟨j, e, h1, h2⟩)
        · exact Or.inl h1
        · cases j with
          | zero => simp at h1
          | succ j => exact Or.inr ⟨j, e, by simpa using h1, by omega⟩
    | some e =>
      have hre : w.subReg.slots[i]? = some (some e) := by
        have := hreg 0 e (by simp); simpa using this
      have hilt : i < P.conns.length := by
        rw [(h.pconns p P hP).1, ← h.sregLen]
        exact (List.getElem?_eq_some_iff.mp hre).1
      -- membership bookkeeping shared by the three branches
      have hmem : ∀ (t' : List Nat) (k : Nat),
          (k ∈ i :: t ∨ ∃ j e', r[j]? = some (some e') ∧ k = i + 1 + j) ↔
          (k ∈ t ∨ ∃ j e', (some e :: r)[j]? = some (some e') ∧ k = i + j) := by
        intro _ k
        constructor
        · rintro (h1 | ⟨j, e', h1, h2⟩)
          · rcases List.mem_cons.mp h1 with rfl | h1
            · exact Or.inr ⟨0, e, by simp, by omega⟩
            · exact Or.inl h1
          · exact Or.inr ⟨j + 1, e', by simpa using h1, by omega⟩
        · rintro (h1 | ⟨j, e', h1, h2⟩)
          · exact Or.inl (List.mem_cons_of_mem _ h1)
          · cases j with
            | zero => exact Or.inl (by simp [h2])
            | succ j => exact Or.inr ⟨j, e', by simpa using h1, by omega⟩
      unfold Iox2.PubSub.pubUpdateSlots
      rw [hP]
      simp only
      cases hs : P.conns.getD i none with
      | none =>
        simp only
        have hslot := getD_eq_none_of hilt hs
        have h1 := h.pubCreateConn hP hPa hslot hre
        have f1 := pubCreateConn_frame w p i e
        obtain ⟨P1, hP1, st1⟩ := f1.psome p P hP
        have := ih h1 (i + 1) (i :: t) hP1 (st1.alive ▸ hPa) (hreg' _ f1.subReg)
        exact ⟨this.1, fun k => by rw [this.2 k]; exact hmem t k⟩
      | some s =>
        simp only
        by_cases hse : s = e.sid
        · rw [if_pos hse]
          have := ih h (i + 1) (i :: t) hP hPa (hreg' w rfl)
          exact ⟨this.1, fun k => by rw [this.2 k]; exact hmem t k⟩
        · rw [if_neg hse]
          have hslot : P.conns[i]? = some (some s) := getD_eq_some_iff.mp hs
          have h1 := h.pubRemoveConn p i (fun P' s' hP' hs' => by
            rw [hP] at hP'; cases hP'
            rw [hslot] at hs'; cases hs'
            exact h.dead_of_mismatch hP hslot (fun e' he' => by
              rw [hre] at he'; cases he'; exact fun hh => hse hh.symm))
          have f1 := pubRemoveConn_frame w p i
          obtain ⟨P1, hP1, hc1⟩ := pubRemoveConn_conns w p i hP
          obtain ⟨P1', hP1', st1⟩ := f1.psome p P hP
          rw [hP1] at hP1'; cases hP1'
          have hslot1 : P1.conns[i]? = some none := by
            rw [hc1, List.getElem?_set]; simp [hilt]
          have h2 := h1.pubCreateConn hP1 (st1.alive ▸ hPa) hslot1 (by rw [f1.subReg]; exact hre)
          have f2 := pubCreateConn_frame (Iox2.PubSub.pubRemoveConn w p i) p i e
          obtain ⟨P2, hP2, st2⟩ := f2.psome p P1 hP1
          have := ih h2 (i + 1) (i :: t) hP2 (by rw [st2.alive, st1.alive]; exact hPa)
            (hreg' _ (f2.subReg.trans f1.subReg))
          exact ⟨this.1, fun k => by rw [this.2 k]; exact hmem t k⟩

theorem InvA.pubFinish (h : InvA cfg np ns w) (p : Nat) (t : List Nat) (k : Nat)
    (hreg : ∀ j e, w.subReg.slots[j]? = some (some e) → j ∈ t) :
    InvA cfg np ns (pubFinish w p t k) := by
  induction k with
  | zero => exact h
  | succ k ih =>
    unfold Iox2.PubSub.pubFinish
    simp only
    split
    · exact ih
    · rename_i hk
      have f1 := pubFinish_frame w p t k
      refine ih.pubRemoveConn p k (fun P s hP hs => ?_)
      refine ih.dead_of_mismatch hP hs (fun e he => ?_)
      rw [f1.subReg] at he
      have := hreg k e he
      exfalso; apply hk
      simp [this]

theorem InvA.pubForceUpdate (h : InvA cfg np ns w) (p : Nat) {P : Pub} (hP : getP w p = some P)
    (hPa : P.alive = true) (hsnap : P.snap = w.subReg.slots) : InvA cfg np ns (pubForceUpdate w p) := by
  unfold Iox2.PubSub.pubForceUpdate
  rw [hP]
  simp only
  have h1 := h.pubUpdateSlots p P.snap 0 [] hP hPa (fun j e hj => by rw [← hsnap]; simpa using hj)
  have f1 := pubUpdateSlots_frame w p P.snap 0 []
  generalize Iox2.PubSub.pubUpdateSlots w p P.snap 0 [] = d at h1 f1
  obtain ⟨w1, tg⟩ := d
  simp only at h1 f1 ⊢
  refine h1.1.pubFinish p tg _ (fun j e hj => ?_)
  rw [h1.2 j]
  right
  rw [f1.subReg, ← hsnap] at hj
  exact ⟨j, e, hj, by omega⟩

theorem InvA.pubUpdate (h : InvA cfg np ns w) (p : Nat) (hPa : ∀ P, getP w p = some P → P.alive = true) :
    InvA cfg np ns (pubUpdate w p) := by
  unfold Iox2.PubSub.pubUpdate
  cases hP : getP w p with
  | none => exact h
  | some P =>
    simp only
    split
    · exact h
    · have h1 : InvA cfg np ns (setP w p { P with snapCtr := w.subReg.counter, snap := w.subReg.slots }) :=
        h.setP_irrel hP rfl rfl rfl rfl
      exact h1.pubForceUpdate p (getP_setP_self _ hP) (hPa P hP) rfl

/-! ### the shared state of a publisher is dropped -/

theorem InvA.pubDestroySlots_aux (p : Nat) (P0 : Pub) (hex : P0.ex = false) (l : List (Option Nat)) {w : World}
    (hP : ∃ P, getP w p = some P)
    (h : InvA cfg np ns (setP w p P0))
    (hatt : ∀ cn ∈ w.conns, cn.pid = p → cn.sAtt = true → some cn.sid ∈ l) :
    InvA cfg np ns (setP (pubDestroySlots w p l) p P0) ∧
    ∀ cn ∈ (pubDestroySlots w p l).conns, cn.pid = p → cn.sAtt = false := by
  induction l generalizing w with
  | nil =>
    refine ⟨h, fun cn hcn hp => ?_⟩
    cases hsa : cn.sAtt with
    | false => rfl
    | true => exact absurd (hatt cn hcn hp hsa) (by simp)
  | cons x r ih =>
    cases x with
    | none =>
      refine ih hP h (fun cn hcn hp hsa => ?_)
      have := hatt cn hcn hp hsa
      simpa using this
    | some s =>
      show InvA cfg np ns (setP (Iox2.PubSub.pubDestroySlots (Iox2.PubSub.detachSender w p s) p r) p P0) ∧ _
      obtain ⟨P, hP'⟩ := hP
      have hg0 : getP (setP w p P0) p = some P0 := getP_setP_self _ hP'
      have h1 := h.detachSender (P' := P0) (s := s) hg0 rfl rfl rfl rfl (fun i b hi => ⟨hi, fun hx => by rw [hex] at hx; cases hx⟩)
        (fun i b hi _ => hi) (fun hx => by rw [hex] at hx; cases hx)
      rw [detachSender_setP_comm, setP_setP] at h1
      refine ih ⟨P, by rw [getP_detachSender]; exact hP'⟩ h1 (fun cn hcn hp hsa => ?_)
      rcases mem_detachSender hcn with ⟨hm, hne⟩ | ⟨c, _, _, rfl⟩ | ⟨hm, hn⟩
      · have := hatt cn hm hp hsa
        rcases List.mem_cons.mp this with h2 | h2
        · cases h2; exact absurd ⟨hp, rfl⟩ hne
        · exact h2
      · cases hsa
      · have := hatt cn hm hp hsa
        rcases List.mem_cons.mp this with h2 | h2
        · cases h2; exact absurd ⟨hp, rfl⟩ (getC_none hn cn hm)
        · exact h2

theorem InvA.pubDestroyIfUnreferenced (h : InvA cfg np ns w) (p : Nat) :
    InvA cfg np ns (pubDestroyIfUnreferenced w p) := by
  unfold Iox2.PubSub.pubDestroyIfUnreferenced
  cases hP : getP w p with
  | none => exact h
  | some P =>
    simp only
    split
    · exact h
    · rename_i hc
      simp only [Bool.or_eq_true, Bool.not_eq_true', not_or, Bool.not_eq_false] at hc
      obtain ⟨⟨hal, _⟩, _⟩ := hc
      simp only [Bool.not_eq_true] at hal
      -- first mark the shared state as gone
      have h0 : InvA cfg np ns (setP w p { P with ex := false }) :=
        h.setP_gen hP rfl (fun hx => by cases hx) (fun hx => by simp only at hx; rw [hal] at hx; cases hx) rfl rfl
          (fun i b hi => hi) (fun cn _ _ _ i hi => hi)
      obtain ⟨h1, h2⟩ := InvA.pubDestroySlots_aux p { P with ex := false } rfl P.conns ⟨P, hP⟩ h0
        (fun cn hcn hp hsa => by
          obtain ⟨Q, hQ, i, hi⟩ := h.a2 cn hcn hsa
          rw [hp, hP] at hQ; cases hQ
          exact List.mem_of_getElem? hi)
      obtain ⟨f1, f2⟩ := pubDestroySlots_frame w p P.conns
      have hg : getP (setP (Iox2.PubSub.pubDestroySlots w p P.conns) p { P with ex := false }) p =
          some { P with ex := false } := by
        obtain ⟨P', hP', _⟩ := f1.psome p P hP
        exact getP_setP_self _ hP'
      have h3 := h1.setP_gen (P' := { P with ex := false, conns := P.conns.map fun _ => none }) hg rfl
        (fun hx => by cases hx) (fun hx => by simp only at hx; rw [hal] at hx; cases hx) rfl (by simp)
        (fun i b hi => by simp at hi)
        (fun cn hcn hp hsa => by
          simp only [setP_conns] at hcn
          rw [h2 cn hcn hp] at hsa; cases hsa)
      rw [setP_setP] at h3
      exact h3

end Iox2.PubSub.C01P
