/-
C08 helper: every helper function of the model is a `PStep` (publisher side) or an `SStep`
(subscriber side): frame facts (configuration, registries, other side's ports).
-/
import Iox2.Proof.PubSubC08Decomp
set_option linter.unusedSimpArgs false
set_option linter.unusedVariables false
namespace Iox2.PubSub.C08
open Iox2.PubSub

theorem detachSender_P (w : World) (p s : Nat) : PStep w (detachSender w p s) := by
  unfold detachSender
  split
  · exact .refl _
  · split
    · exact .setC _ _
    · exact .conns _ _

theorem detachSender_S (w : World) (p s : Nat) : SStep w (detachSender w p s) := by
  unfold detachSender
  split
  · exact .refl _
  · split
    · exact .setC _ _
    · exact .conns _ _

theorem detachReceiver_S (w : World) (p s : Nat) : SStep w (detachReceiver w p s) := by
  unfold detachReceiver
  split
  · exact .refl _
  · split
    · exact .setC _ _
    · exact .conns _ _

theorem retrieveFrom_P (w : World) (p : Nat) (l : List (Option Nat)) : PStep w (retrieveFrom w p l) := by
  induction l generalizing w with
  | nil => exact .refl _
  | cons a l ih =>
    cases a with
    | none => exact ih w
    | some s =>
      rw [retrieveFrom]
      split
      · exact .trans (.trans (.setP _ _ _) (.setC _ _)) (ih _)
      · exact ih w

theorem retrieveReturned_P (w : World) (p : Nat) : PStep w (retrieveReturned w p) := by
  unfold retrieveReturned
  split
  · exact .refl _
  · exact retrieveFrom_P _ _ _

theorem deliverTo_P (w : World) (p s ch q : Nat) : PStep w (deliverTo w p s ch q).1 := by
  unfold deliverTo
  split
  · dsimp only
    split
    · exact .trans (.setC _ _) (.setP _ _ _)
    · exact .setC _ _
  · exact .refl _

theorem deliverHistory_P (w : World) (p s : Nat) (l : List Nat) : PStep w (deliverHistory w p s l) := by
  induction l generalizing w with
  | nil => exact .refl _
  | cons a l ih =>
    rw [deliverHistory]
    exact .trans (.trans (retrieveReturned_P _ _) (deliverTo_P _ _ _ _ _)) (ih _)

theorem pubRemoveConn_P (w : World) (p slot : Nat) : PStep w (pubRemoveConn w p slot) := by
  unfold pubRemoveConn
  split
  · exact .refl _
  · split
    · exact .refl _
    · split
      · rename_i h
        split at h
        · cases h
          exact .trans (.trans (.setC _ _) (.setP _ _ _)) (detachSender_P _ _ _)
        · cases h
          exact .trans (.setP _ _ _) (detachSender_P _ _ _)

theorem pubCreateConn_P (w : World) (p slot : Nat) (e : SubEntry) : PStep w (pubCreateConn w p slot e) := by
  unfold pubCreateConn
  split
  · exact .refl _
  · dsimp only
    refine .trans (.trans ?_ (.setP _ _ _)) (deliverHistory_P _ _ _ _)
    split
    · exact .setC _ _
    · exact .conns _ _

theorem pubUpdateSlots_P (w : World) (p : Nat) (l : List (Option SubEntry)) (i : Nat) (t : List Nat) :
    PStep w (pubUpdateSlots w p l i t).1 := by
  induction l generalizing w i t with
  | nil => exact .refl _
  | cons a l ih =>
    cases a with
    | none => rw [pubUpdateSlots]; exact ih _ _ _
    | some e =>
      rw [pubUpdateSlots]
      split
      · exact .refl _
      · split
        · exact .trans (pubCreateConn_P _ _ _ _) (ih _ _ _)
        · split
          · exact ih _ _ _
          · exact .trans (.trans (pubRemoveConn_P _ _ _) (pubCreateConn_P _ _ _ _)) (ih _ _ _)

theorem pubFinish_P (w : World) (p : Nat) (t : List Nat) (k : Nat) : PStep w (pubFinish w p t k) := by
  induction k with
  | zero => exact .refl _
  | succ k ih =>
    rw [pubFinish]
    split
    · exact ih
    · exact .trans ih (pubRemoveConn_P _ _ _)

theorem pubForceUpdate_P (w : World) (p : Nat) : PStep w (pubForceUpdate w p) := by
  unfold pubForceUpdate
  split
  · exact .refl _
  · exact .trans (pubUpdateSlots_P _ _ _ _ _) (pubFinish_P _ _ _ _)

theorem pubUpdate_P (w : World) (p : Nat) : PStep w (pubUpdate w p) := by
  unfold pubUpdate
  split
  · exact .refl _
  · split
    · exact .refl _
    · exact .trans (.setP _ _ _) (pubForceUpdate_P _ _)

theorem pubDestroySlots_P (w : World) (p : Nat) (l : List (Option Nat)) : PStep w (pubDestroySlots w p l) := by
  induction l generalizing w with
  | nil => exact .refl _
  | cons a l ih =>
    cases a with
    | none => exact ih w
    | some s => rw [pubDestroySlots]; exact .trans (detachSender_P _ _ _) (ih _)

theorem pubDestroyIfUnreferenced_P (w : World) (p : Nat) : PStep w (pubDestroyIfUnreferenced w p) := by
  unfold pubDestroyIfUnreferenced
  split
  · exact .refl _
  · split
    · exact .refl _
    · exact .trans (pubDestroySlots_P _ _ _) (.setP _ _ _)

/-! subscriber side -/

theorem subDropConn_S (w : World) (s key : Nat) : SStep w (subDropConn w s key) := by
  unfold subDropConn
  split
  · exact .refl _
  · split
    · exact .refl _
    · exact .trans (.setS _ _ _) (detachReceiver_S _ _ _)

theorem prepEvict_S (w : World) (s : Nat) (S : Sub) (hb : Bool) : SStep w (prepEvict w s S hb) := by
  unfold prepEvict
  split
  · exact .trans (.setS _ _ _) (subDropConn_S _ _ _)
  · split
    · split
      · exact .trans (.setS _ _ _) (subDropConn_S _ _ _)
      · exact .refl _
    · exact .refl _

theorem prepRetry_S (w : World) (s key : Nat) (hb : Bool) : SStep w (prepRetry w s key hb) := by
  unfold prepRetry
  split
  · exact .refl _
  · split
    · exact .setS _ _ _
    · split
      · exact .panic _
      · exact subDropConn_S _ _ _

theorem subPrepareRemoval_S (w : World) (s slot : Nat) : SStep w (subPrepareRemoval w s slot) := by
  rw [subPrepareRemoval_eq]
  split
  · exact .refl _
  · split
    · exact .refl _
    · split
      · exact .refl _
      · split
        · split
          · exact .setS _ _ _
          · exact .trans (prepEvict_S _ _ _ _) (prepRetry_S _ _ _ _)
        · exact subDropConn_S _ _ _

theorem subAttach_S (w : World) (s p : Nat) (S : Sub) : SStep w (subAttach w s p S) := by
  unfold subAttach
  split
  · exact .setC _ _
  · exact .conns _ _

theorem subCreateConn_S (w : World) (s slot p : Nat) : SStep w (subCreateConn w s slot p) := by
  rw [subCreateConn_eq]
  split
  · exact .refl _
  · split
    · exact .trans (subAttach_S _ _ _ _) (.setS _ _ _)
    · exact .trans (subAttach_S _ _ _ _) (.panic _)

theorem subUpdateSlots_S (w : World) (s : Nat) (l : List (Option Nat)) (i : Nat) (t : List Nat) :
    SStep w (subUpdateSlots w s l i t).1 := by
  induction l generalizing w i t with
  | nil => exact .refl _
  | cons a l ih =>
    cases a with
    | none => rw [subUpdateSlots]; exact ih _ _ _
    | some e =>
      rw [subUpdateSlots_cons_some]
      split
      · exact .refl _
      · split
        · exact ih _ _ _
        · exact .trans (.trans (subPrepareRemoval_S _ _ _) (subCreateConn_S _ _ _ _)) (ih _ _ _)

theorem subFinishOne_S (w : World) (s : Nat) (S : Sub) (t : List Nat) (n : Nat) :
    SStep w (subFinishOne w s S t n) := by
  unfold subFinishOne
  split
  · exact .refl _
  · split
    · split
      · exact .trans (subPrepareRemoval_S _ _ _) (.setS _ _ _)
      · exact subPrepareRemoval_S _ _ _
    · exact .refl _

theorem subFinish_S (w : World) (s : Nat) (t : List Nat) (fuel n : Nat) : SStep w (subFinish w s t fuel n) := by
  induction fuel generalizing w n with
  | zero => exact .refl _
  | succ k ih =>
    rw [subFinish_succ]
    split
    · exact .refl _
    · split
      · exact .refl _
      · exact .trans (subFinishOne_S _ _ _ _ _) (ih _ _)

theorem subForceUpdate_S (w : World) (s : Nat) : SStep w (subForceUpdate w s) := by
  unfold subForceUpdate
  split
  · exact .refl _
  · exact .trans (subUpdateSlots_S _ _ _ _ _) (subFinish_S _ _ _ _ _)

theorem subUpdate_S (w : World) (s : Nat) : SStep w (subUpdate w s) := by
  unfold subUpdate
  split
  · exact .refl _
  · split
    · exact .refl _
    · exact .trans (.setS _ _ _) (subForceUpdate_S _ _)

theorem recvFromConn_S (w : World) (s : Nat) (S : Sub) (key : Nat) : SStep w (recvFromConn w s S key).1 := by
  unfold recvFromConn
  split
  · exact .refl _
  · split
    · exact .refl _
    · split
      · exact .refl _
      · split
        · exact .refl _
        · exact .setC _ _

theorem recvTbr_S (w : World) (s fuel i : Nat) : SStep w (recvTbr w s fuel i).1 := by
  induction fuel generalizing w i with
  | zero => exact .refl _
  | succ k ih =>
    rw [recvTbr_succ]
    split
    · exact .refl _
    · split
      · exact .refl _
      · split
        · exact .trans (.setS _ _ _) (ih _ _)
        · split
          · exact ih _ _
          · split
            · rename_i h; have e := congrArg Prod.fst h; dsimp only at e; subst e
              exact recvFromConn_S _ _ _ _
            · rename_i h; have e := congrArg Prod.fst h; dsimp only at e; subst e
              exact recvFromConn_S _ _ _ _
            · rename_i h; have e := congrArg Prod.fst h; dsimp only at e; subst e
              split
              · exact .trans (recvFromConn_S _ _ _ _) (ih _ _)
              · exact .trans (.trans (.trans (recvFromConn_S _ _ _ _) (.setS _ _ _)) (subDropConn_S _ _ _)) (ih _ _)

theorem recvScan_S (w : World) (s : Nat) (S : Sub) (l : List (Nat × Nat)) (acc : ScanAcc) :
    SStep w (recvScan w s S l acc).1 := by
  induction l generalizing w acc with
  | nil => exact .refl _
  | cons a l ih =>
    obtain ⟨key, p⟩ := a
    rw [recvScan]
    split
    · exact ih _ _
    · split
      · exact ih _ _
      · dsimp only
        split
        · exact ih _ _
        · split
          · rename_i h; have e := congrArg Prod.fst h; dsimp only at e; subst e
            exact recvFromConn_S _ _ _ _
          · rename_i h; have e := congrArg Prod.fst h; dsimp only at e; subst e
            exact recvFromConn_S _ _ _ _
          · rename_i h; have e := congrArg Prod.fst h; dsimp only at e; subst e
            exact .trans (recvFromConn_S _ _ _ _) (ih _ _)

theorem subReceive_S (w : World) (s : Nat) : SStep w (subReceive w s).1 := by
  unfold subReceive
  split
  · exact .refl _
  · split
    · rename_i h; have e := congrArg Prod.fst h; dsimp only at e; subst e
      exact recvTbr_S _ _ _ _
    · rename_i h; have e := congrArg Prod.fst h; dsimp only at e; subst e
      exact recvTbr_S _ _ _ _
    · rename_i h; have e := congrArg Prod.fst h; dsimp only at e; subst e
      split
      · exact recvTbr_S _ _ _ _
      · split
        · rename_i h; have e := congrArg Prod.fst h; dsimp only at e; subst e
          exact .trans (recvTbr_S _ _ _ _) (recvScan_S _ _ _ _ _)
        · rename_i h; have e := congrArg Prod.fst h; dsimp only at e; subst e
          exact .trans (recvTbr_S _ _ _ _) (recvScan_S _ _ _ _ _)
        · rename_i h; have e := congrArg Prod.fst h; dsimp only at e; subst e
          split <;> exact .trans (recvTbr_S _ _ _ _) (recvScan_S _ _ _ _ _)

theorem subRelease_S (w : World) (s : Nat) (h : Held) : SStep w (subRelease w s h) := by
  unfold subRelease
  split
  · exact .refl _
  · split
    · exact .refl _
    · split
      · exact .refl _
      · split
        · exact .refl _
        · split
          · exact .setC _ _
          · exact .refl _

theorem subDestroyKeys_S (w : World) (s : Nat) (l : List (Nat × Nat)) : SStep w (subDestroyKeys w s l) := by
  induction l generalizing w with
  | nil => exact .refl _
  | cons a l ih =>
    obtain ⟨k, p⟩ := a
    rw [subDestroyKeys]; exact .trans (detachReceiver_S _ _ _) (ih _)

theorem subDestroyIfUnreferenced_S (w : World) (s : Nat) : SStep w (subDestroyIfUnreferenced w s) := by
  unfold subDestroyIfUnreferenced
  split
  · exact .refl _
  · split
    · exact .refl _
    · exact .trans (subDestroyKeys_S _ _ _) (.setS _ _ _)

end Iox2.PubSub.C08
