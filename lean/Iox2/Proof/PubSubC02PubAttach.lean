/-
C02 — `pubCreateConn`, first part: the sender side of the connection to a live, registered
subscriber is created/attached and recorded in `P.conns[slot]` (before the history is delivered).
-/
import Iox2.Proof.PubSubC02TopCongr
import Iox2.Proof.PubSubC02SlotMap

namespace Iox2.PubSub.C02P
open Iox2.PubSub
open Iox2.C16.SlotMapP (abs WInv)

/-- the world of `pubCreateConn` before `deliverHistory` -/
def pubAttach (w : World) (p slot : Nat) (e : SubEntry) (P : Pub) (gh : List Nat) : World :=
  let w := match getC w p e.sid with
    | some c => setC w { c with sAtt := true, gFirst := P.seq, gHist := gh }
    | none => { w with conns := w.conns ++ [{ pid := p, sid := e.sid, cap := e.buffer,
                                               used := List.replicate P.n false, sAtt := true,
                                               gFirst := P.seq, gHist := gh }] }
  setP w p { P with conns := P.conns.set slot (some e.sid) }

def newSConn (p s cap n seq : Nat) (gh : List Nat) : Conn :=
  { pid := p, sid := s, cap := cap, used := List.replicate n false, sAtt := true, gFirst := seq,
    gHist := gh }

theorem getD_replicate_false (n x : Nat) : (List.replicate n false).getD x false = false := by
  simp only [List.getD_eq_getElem?_getD, List.getElem?_replicate]
  split <;> rfl

theorem mem_set_of_ne {l : List (Option Nat)} {i : Nat} {s t : Nat} (hts : t ≠ s)
    (hi : l[i]? = some none) : some t ∈ l.set i (some s) ↔ some t ∈ l := by
  rw [List.mem_iff_getElem?, List.mem_iff_getElem?]
  constructor
  · rintro ⟨j, hj⟩
    rw [List.getElem?_set] at hj
    split at hj
    · split at hj
      · simp at hj; exact absurd hj.symm hts
      · cases hj
    · exact ⟨j, hj⟩
  · rintro ⟨j, hj⟩
    refine ⟨j, ?_⟩
    rw [List.getElem?_set]
    split
    · rename_i h; subst h; rw [hi] at hj; cases hj
    · exact hj

theorem pubAttach_inv {G : GT} {A : GA} {w : World} {p slot : Nat} {e : SubEntry} {P : Pub}
    {gh : List Nat}
    (hi : Inv G A w) (hP : getP w p = some P) (hex : P.ex = true)
    (hslot : P.conns[slot]? = some none) (hsnap : P.snap[slot]? = some (some e))
    (halive : ∀ S, getS w e.sid = some S → S.alive = true) :
    Inv G A (pubAttach w p slot e P gh) ∧
    (pubAttach w p slot e P gh).cfg = w.cfg ∧ (pubAttach w p slot e P gh).pubReg = w.pubReg ∧
    (pubAttach w p slot e P gh).subReg = w.subReg ∧
    (∀ t, getS (pubAttach w p slot e P gh) t = getS w t) ∧
    (∀ q, q ≠ p → getP (pubAttach w p slot e P gh) q = getP w q) ∧
    getP (pubAttach w p slot e P gh) p = some { P with conns := P.conns.set slot (some e.sid) } ∧
    (∀ a b, ¬ (a = p ∧ b = e.sid) → getC (pubAttach w p slot e P gh) a b = getC w a b) ∧
    (∀ x, usedBit (pubAttach w p slot e P gh) p e.sid x = false) := by
  have pt := hi.top.pubs p P hP
  obtain ⟨S, hS, hSslot, hSreg, hns⟩ := pt.snap slot e hsnap
  have hSal := halive S hS
  have st := hi.top.subs e.sid S hS
  have hlt : slot < P.conns.length := (List.getElem?_eq_some_iff.mp hslot).1
  generalize hs : e.sid = s at *
  have hnot : some s ∉ P.conns := by
    intro hm
    obtain ⟨j, hj⟩ := List.mem_iff_getElem?.mp hm
    obtain ⟨S1, hS1, e1, _⟩ := pt.conn j s hj
    rw [hS] at hS1; cases hS1
    rw [← e1, hSslot] at hj; rw [hslot] at hj; cases hj
  generalize hP2 : ({ P with conns := P.conns.set slot (some s) } : Pub) = P2
  have hP2f : P2.alive = P.alive ∧ P2.ex = P.ex ∧ P2.slot = P.slot ∧ P2.snap = P.snap ∧
      P2.n = P.n ∧ P2.conns = P.conns.set slot (some s) ∧ P2.rc = P.rc ∧ P2.free = P.free ∧
      P2.loans = P.loans ∧ P2.hist = P.hist ∧ P2.payload = P.payload := by subst hP2; simp
  obtain ⟨f1, f2, f3, f4, f5, f6, f7, f8, f9, f10, f11⟩ := hP2f
  -- the resulting world
  have hres : ∃ w' c2, pubAttach w p slot e P gh = w' ∧ w'.cfg = w.cfg ∧ w'.pubReg = w.pubReg ∧
      w'.subReg = w.subReg ∧ (∀ t, getS w' t = getS w t) ∧
      (∀ q, getP w' q = if q = p then some P2 else getP w q) ∧
      (∀ a b, getC w' a b = if a = p ∧ b = s then some c2 else getC w a b) ∧
      (w'.conns.Pairwise fun a b => ¬ (a.pid = b.pid ∧ a.sid = b.sid)) ∧
      c2.pid = p ∧ c2.sid = s ∧ c2.sAtt = true ∧ (∀ x, c2.used.getD x false = false) ∧
      c2.used.length = P.n ∧ c2.sub = [] ∧ c2.comp = [] ∧ c2.borrow = 0 ∧
      (c2.rAtt = true ↔ ∃ k, abs S.storage k = some p) ∧ heldOf S p = [] := by
    unfold pubAttach
    rw [hs]
    cases hC : getC w p s with
    | some c =>
      obtain ⟨hpid, hsid, _⟩ := getC_some hC
      obtain ⟨P0, S0, hP0, hS0, ct⟩ := hi.top.conns p s c hC
      rw [hP] at hP0; cases hP0; rw [hS] at hS0; cases hS0
      have ca := hi.acc.conns p s c hC P S hP hS
      have hsa : c.sAtt = false := by
        cases h : c.sAtt with
        | false => rfl
        | true => exact absurd (by rw [← hsid]; exact ct.sAtt.mp h) hnot
      obtain ⟨i1, i2⟩ := ca.idle hsa hex
      obtain ⟨i3, i4, i5⟩ := i2 hSal
      have hb := ca.borrow; rw [i5, hpid] at hb
      refine ⟨_, { c with sAtt := true, gFirst := P.seq, gHist := gh }, rfl, rfl, rfl, rfl,
        fun _ => rfl, ?_, ?_, ?_, hpid, hsid, rfl, i1, ca.usedLen, i3, i4, i5, ?_,
        List.eq_nil_of_length_eq_zero hb.symm⟩
      · intro q; simp only [hP2]; rw [getP_setP, getP_setC, hP]; split <;> simp
      · intro a b
        rw [getC_setP, getC_setC]
        simp only [hpid, hsid]
        split
        · rename_i h; rw [h.1, h.2, hC]; rfl
        · rfl
      · exact nodup_setC _ hi.top.reg.nodup
      · rw [← hpid]; exact ct.rAtt
    | none =>
      have hnk : ¬ ∃ k, abs S.storage k = some p := by
        rintro ⟨k, hk⟩
        obtain ⟨⟨cn, hcn, _⟩, _⟩ := st.stor k p hk
        rw [hC] at hcn; cases hcn
      have hheld : heldOf S p = [] := by
        unfold heldOf
        rw [List.map_eq_nil_iff, List.filter_eq_nil_iff]
        intro x hx hxp
        apply hnk
        have := (hi.acc.subs s S hS).2.1 x hx
        simp at hxp
        exact ⟨x.key, by rw [← hxp]; exact this⟩
      refine ⟨_, newSConn p s e.buffer P.n P.seq gh, rfl, rfl, rfl, rfl, fun _ => rfl, ?_, ?_, ?_,
        rfl, rfl, rfl, fun x => getD_replicate_false _ _, by simp [newSConn], rfl, rfl, rfl, ?_, hheld⟩
      · intro q; simp only [hP2]
        show getP (setP (addC w (newSConn p s e.buffer P.n P.seq gh)) p P2) q = _
        rw [getP_setP, getP_addC, hP]; split <;> simp
      · intro a b
        show getC (setP (addC w (newSConn p s e.buffer P.n P.seq gh)) p _) a b = _
        rw [getC_setP, getC_addC]
        by_cases hab : a = p ∧ b = s
        · obtain ⟨rfl, rfl⟩ := hab; simp [hC, newSConn]
        · have : ¬ (p = a ∧ s = b) := fun h => hab ⟨h.1.symm, h.2.symm⟩
          simp [hab, this, newSConn]
      · exact nodup_addC (w := w) (newSConn p s e.buffer P.n P.seq gh) hi.top.reg.nodup hC
      · constructor
        · intro h; cases h
        · intro h; exact absurd h hnk
  obtain ⟨w', c2, hw'e, hcfg, hrp, hrs, hgS, hgP, hgC, hnd, c2pid, c2sid, c2sa, c2u, c2len, c2sub,
    c2comp, c2b, c2ra, hheld⟩ := hres
  rw [hw'e]
  have hgCo : ∀ a b, ¬ (a = p ∧ b = s) → getC w' a b = getC w a b := by
    intro a b hab; rw [hgC]; simp [hab]
  have hgCp : getC w' p s = some c2 := by rw [hgC]; simp
  have hpk : PubsKept w w' := by
    intro q Q hQ
    rw [hgP]
    by_cases hq : q = p
    · subst hq; rw [hP] at hQ; cases hQ; exact ⟨P2, by simp, f3, f1⟩
    · exact ⟨Q, by simp [hq, hQ], rfl, rfl⟩
  have hsk : SubsKept w w' := SubsKept.of_eq hgS
  have hubo : ∀ a b x, ¬ (a = p ∧ b = s) → usedBit w' a b x = usedBit w a b x :=
    fun a b x hab => usedBit_congr (hgCo a b hab) x
  have hub2 : ∀ x, usedBit w' p s x = false := by
    intro x; rw [usedBit_of_getC hgCp]; exact c2u x
  have hmem2 : ∀ t, t ≠ s → (some t ∈ P2.conns ↔ some t ∈ P.conns) := by
    intro t hts; rw [f6]; exact mem_set_of_ne hts hslot
  have hmems : some s ∈ P2.conns := by
    rw [f6]; exact List.mem_iff_getElem?.mpr ⟨slot, by rw [List.getElem?_set]; simp [hlt]⟩
  refine ⟨⟨⟨?_, ?_, ?_, ?_⟩, ⟨?_, ?_, ?_⟩⟩, hcfg, hrp, hrs, hgS,
    fun q hq => by rw [hgP]; simp [hq], by rw [hgP]; simp [hP2], ?_, hub2⟩
  · -- registry
    exact hi.top.reg.congr hcfg hrp hrs hpk hsk
      (fun q Q' h => by
        rw [hgP] at h
        by_cases hq : q = p
        · subst hq; exact ⟨P, hP⟩
        · simp only [hq, if_false] at h; exact ⟨Q', h⟩)
      (fun t T' h => ⟨T', by rw [← hgS]; exact h⟩) hnd
  · -- publishers
    intro q Q hQ
    rw [hgP] at hQ
    by_cases hq : q = p
    · subst hq
      simp only [if_true, Option.some.injEq] at hQ
      subst hQ
      refine ⟨by rw [f6, List.length_set, hcfg]; exact pt.lenC, by rw [f4, hcfg]; exact pt.lenSnap,
        by rw [f1, f2]; exact pt.aliveEx, (by intro h; rw [f2, hex] at h; cases h), ?_, ?_⟩
      · intro i t hit
        rw [f6, List.getElem?_set] at hit
        split at hit
        · rename_i his; subst his
          simp only [hlt, if_true, Option.some.injEq] at hit
          subst hit
          refine ⟨S, by rw [hgS]; exact hS, hSslot, hsk.sreg hrs hS (by rw [hgS]; exact hS) hSreg,
            hns, fun _ => ⟨e, by rw [f4]; exact hsnap, hs⟩, c2, hgCp, c2sa⟩
        · obtain ⟨T, hT, h1, h2, h3, h4, cn, h5, h6⟩ := pt.conn i t hit
          have hts : t ≠ s := by
            rintro rfl; exact hnot (List.mem_iff_getElem?.mpr ⟨i, hit⟩)
          exact ⟨T, by rw [hgS]; exact hT, h1, hsk.sreg hrs hT (by rw [hgS]; exact hT) h2, h3,
            by rw [f4]; exact h4, cn, by rw [hgCo q t (fun h => hts h.2)]; exact h5, h6⟩
      · intro i en hi'
        rw [f4] at hi'
        obtain ⟨T, hT, h1, h2, h3⟩ := pt.snap i en hi'
        exact ⟨T, by rw [hgS]; exact hT, h1, hsk.sreg hrs hT (by rw [hgS]; exact hT) h2, h3⟩
    · simp only [hq, if_false] at hQ
      apply (hi.top.pubs q Q hQ).congr hcfg hrs hsk
      intro t cn hcn hsa
      exact ⟨cn, by rw [hgCo q t (fun h => hq h.1)]; exact hcn, hsa⟩
  · -- subscribers
    intro t T hT
    rw [hgS] at hT
    apply (hi.top.subs t T hT).congr hcfg hrp hpk
    intro q cn hcn hra
    by_cases hab : q = p ∧ t = s
    · obtain ⟨rfl, rfl⟩ := hab
      rw [hS] at hT; cases hT
      refine ⟨c2, hgCp, c2ra.mpr ?_⟩
      obtain ⟨P0, S0, hP0, hS0, ct0⟩ := hi.top.conns q t cn hcn
      rw [hS] at hS0; cases hS0
      obtain ⟨hpid, _, _⟩ := getC_some hcn
      rw [← hpid]; exact ct0.rAtt.mp hra
    · exact ⟨cn, by rw [hgCo q t hab]; exact hcn, hra⟩
  · -- connections (topology)
    intro a b cn hcn
    by_cases hab : a = p ∧ b = s
    · obtain ⟨rfl, rfl⟩ := hab
      rw [hgCp] at hcn
      obtain rfl : c2 = cn := Option.some.inj hcn
      refine ⟨P2, S, by rw [hgP]; simp, by rw [hgS]; exact hS, Or.inl c2sa, ?_, ?_⟩
      · rw [c2sid]; exact ⟨fun _ => hmems, fun _ => c2sa⟩
      · rw [c2pid]; exact c2ra
    · rw [hgCo a b hab] at hcn
      obtain ⟨Pa, Sb, hPa, hSb, ct⟩ := hi.top.conns a b cn hcn
      obtain ⟨hpid', hsid', _⟩ := getC_some hcn
      by_cases ha : a = p
      · subst ha
        rw [hP] at hPa; cases hPa
        refine ⟨P2, Sb, by rw [hgP]; simp, by rw [hgS]; exact hSb, ct.att, ?_, ct.rAtt⟩
        rw [ct.sAtt, hsid']
        exact (hmem2 b (fun h => hab ⟨rfl, h⟩)).symm
      · exact ⟨Pa, Sb, by rw [hgP]; simp [ha, hPa], by rw [hgS]; exact hSb, ct⟩
  · -- publishers (accounting)
    intro q Q hQ
    rw [hgP] at hQ
    by_cases hq : q = p
    · subst hq
      simp only [if_true, Option.some.injEq] at hQ
      subst hQ
      refine ⟨fun _ => ?_, fun h => by rw [f2, hex] at h; cases h⟩
      have pa := (hi.acc.pubs q P hP).1 hex
      refine ⟨pa.free.congr f7 f8 f5, ?_, by rw [f9, f5, f7]; exact pa.loans, by rw [f9]; exact pa.loanLbl,
        by rw [f10]; exact pa.histNodup, by rw [f10, f5]; exact pa.histLt, by rw [f5]; exact pa.xLt,
        by rw [f7]; exact pa.xFresh⟩
      intro c hc
      rw [f5] at hc
      rw [f7, pa.rcEq c hc]
      unfold refCnt
      rw [f9, f10, f6]
      congr 2
      -- the new entry contributes nothing
      unfold connCnt
      rw [← List.countP_eq_length_filter, ← List.countP_eq_length_filter, List.countP_set hlt]
      have h0 : P.conns[slot] = none := by
        have := List.getElem?_eq_getElem hlt; rw [hslot] at this; exact (Option.some.inj this).symm
      simp only [h0, hub2 c, Bool.false_eq_true, if_false, Nat.sub_zero, Nat.add_zero]
      apply List.countP_congr
      intro x hx
      cases x with
      | none => simp
      | some t =>
        have hts : t ≠ s := by rintro rfl; exact hnot hx
        simp only [hubo q t c (fun h => hts h.2)]
    · simp only [hq, if_false] at hQ
      obtain ⟨h1, h2⟩ := hi.acc.pubs q Q hQ
      exact ⟨fun hx => (h1 hx).congr (fun t x _ => hubo q t x (fun h => hq h.1)), h2⟩
  · -- subscribers (accounting)
    intro t T hT
    rw [hgS] at hT
    obtain ⟨h1, h2, h3⟩ := hi.acc.subs t T hT
    refine ⟨h1, h2, fun ha x hx => ?_⟩
    obtain ⟨Q, hQ, hq⟩ := h3 ha x hx
    rw [hgP]
    by_cases hxp : x.pid = p
    · rw [hxp] at hQ; rw [hP] at hQ; cases hQ
      exact ⟨P2, by simp [hxp], by rw [f11]; exact hq⟩
    · exact ⟨Q, by simp [hxp, hQ], hq⟩
  · -- connections (accounting)
    intro a b cn hcn Pa Sb hPa hSb
    rw [hgP] at hPa; rw [hgS] at hSb; rw [hcfg]
    by_cases hab : a = p ∧ b = s
    · obtain ⟨rfl, rfl⟩ := hab
      rw [hgCp] at hcn
      obtain rfl : c2 = cn := Option.some.inj hcn
      simp only [if_true, Option.some.injEq] at hPa
      subst hPa
      rw [hS] at hSb
      obtain rfl : S = Sb := Option.some.inj hSb
      have hfl : flight c2 S = [] := by simp [flight, c2sub, c2comp, c2pid, hheld]
      refine ⟨by rw [c2len, f5], by rw [c2sub]; simp, by rw [c2b]; exact Nat.zero_le _,
        by rw [c2sub, c2comp, c2b]; simp, by rw [c2b, c2pid, hheld]; rfl,
        fun _ => by rw [hfl]; exact List.nodup_nil, ?_, ?_⟩
      · intro _ x; rw [hfl, c2u x]; simp
      · intro h; rw [c2sa] at h; cases h
    · rw [hgCo a b hab] at hcn
      by_cases ha : a = p
      · subst ha
        simp only [if_true, Option.some.injEq] at hPa
        subst hPa
        exact (hi.acc.conns a b cn hcn P Sb hP hSb).congr f5 f2 rfl rfl
      · simp only [ha, if_false] at hPa
        exact hi.acc.conns a b cn hcn Pa Sb hPa hSb
  · intro a b hab; exact hgCo a b hab

end Iox2.PubSub.C02P
