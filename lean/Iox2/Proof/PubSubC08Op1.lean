/-
C08 helper: the API operations preserve the invariant (part 1: general lemmas, loan, dloan, probe).
-/
import Iox2.Proof.PubSubC08StepS
set_option linter.unusedSimpArgs false
set_option linter.unusedVariables false
namespace Iox2.PubSub.C08
open Iox2.PubSub
open Iox2.C16.SlotMapP (abs)
attribute [-simp] List.getD_eq_getElem?_getD

theorem Inv.panic {cfg : Cfg} {w : World} (h : Inv cfg w) : Inv cfg { w with panicked := true } :=
  ⟨⟨h.r.cfgEq, h.r.pubLen, h.r.subLen, h.r.rp1, h.r.rp2, h.r.rs1, h.r.rs2⟩,
   fun p s c hc => by
    have := h.c p s c hc
    exact ⟨this.ok, this.hasP, this.hasS, this.held, this.exact, this.fresh, this.inSlot, this.usedLen⟩,
   fun p P hp => by
    obtain ⟨a, b⟩ := h.p p P hp
    exact ⟨⟨a.connsLen, a.slotConn, a.slotSlot, a.aliveEx⟩, fun hal => (b hal).transfer (fun _ _ => rfl)⟩,
   fun s S hs => (h.s s S hs).transferS (fun _ => rfl) (fun _ => rfl), h.u⟩

/-- only the record of publisher `p` changes, in fields the other parts do not look at -/
theorem InvP.setP_only {cfg : Cfg} {w : World} {xp : Option Nat} {p0 : Nat} {xs xs' : List Nat} {st st' : Bool}
    (h : InvP cfg w xp p0 xs st) {p : Nat} {P : Pub} (hp : getP w p = some P) (P' : Pub)
    (hsim : PubSim P P') (hx : p ≠ p0 → xs = [] ∧ xs' = [])
    (hM : P'.alive = true → MemOK cfg w p P' (if p = p0 then xs' else []) st') :
    InvP cfg (setP w p P') xp p0 xs' st' := by
  obtain ⟨hSl, _⟩ := h.p p P hp
  refine h.rebuild p ⟨rfl, rfl, rfl, fun _ => rfl⟩ (fun q hq => by simp [hq]) (fun _ _ _ => rfl)
    (PubsSim.setP hp hsim).to0 (h.u.of_conns rfl) hx (fun s c hc hr => ⟨c, hc, hr⟩) ?_ ?_
  · intro s c hc
    exact (h.c p s c hc).transferP (fun _ => rfl) (PubsSim.setP hp hsim)
  · intro Q hQ
    simp [hp] at hQ; subst hQ
    refine ⟨⟨by rw [hsim.conns]; exact hSl.connsLen, fun i s hi => hSl.slotConn i s (by rw [← hsim.conns]; exact hi),
      fun i s hi => hSl.slotSlot i s (by rw [← hsim.conns]; exact hi),
      fun ha => by rw [hsim.ex]; exact hSl.aliveEx (hsim.alive ▸ ha)⟩, fun ha => (hM ha).transfer (fun _ _ => rfl)⟩

theorem find_some_mem {l : List (Nat × Nat)} {lab : Nat} {lc : Nat × Nat} (h : l.find? (·.1 = lab) = some lc) :
    lc ∈ l ∧ lc.1 = lab := by
  refine ⟨List.mem_of_find?_eq_some h, ?_⟩
  have := List.find?_some h
  simpa using this

theorem find_none_not_mem {l : List (Nat × Nat)} {lab : Nat} (h : l.find? (·.1 = lab) = none) :
    ∀ lc ∈ l, lc.1 ≠ lab := by
  intro lc hlc e
  have := List.find?_eq_none.mp h lc hlc
  simp [e] at this

/-- the loan step proper: a free chunk is taken -/
theorem MemOK.loan {cfg : Cfg} {w : World} {p : Nat} {P : Pub} (M : MemOK cfg w p P [] false)
    {c : Nat} {rest : List Nat} (hfree : P.free = c :: rest) (l : Nat)
    (hl : ∀ lc ∈ P.loans, lc.1 ≠ l) :
    MemOK cfg w p { P with free := rest, rc := P.rc.set c 1, loanCnt := P.loanCnt + 1,
                           loans := P.loans ++ [(l, c)] } [] false := by
  have hcf : c ∈ P.free := by rw [hfree]; simp
  obtain ⟨hcn, hc0⟩ := M.fr.freeRc c hcf
  have hcl : c < P.rc.length := by rw [M.fr.rcLen]; exact hcn
  have hnd := M.fr.freeNodup
  rw [hfree] at hnd
  have hnd' := List.nodup_cons.mp hnd
  have hrc : ∀ x, (P.rc.set c 1).getD x 0 = if x = c then 1 else P.rc.getD x 0 := by
    intro x; rw [getD_set_nat]; by_cases hx : x = c <;> simp [hx, hcl]
  refine ⟨⟨by simp [M.fr.rcLen], hnd'.2, ?_, ?_⟩, M.nEq, ?_, ?_, M.histLen, ?_, ?_, fun h => (by cases h), M.histNodup⟩
  · intro x hx
    have hx' : x ∈ P.free := by rw [hfree]; simp [hx]
    have := M.fr.freeRc x hx'
    refine ⟨this.1, ?_⟩
    show (P.rc.set c 1).getD x 0 = 0
    rw [hrc]
    have hne : x ≠ c := by intro e; subst e; exact hnd'.1 hx
    simp [hne, this.2]
  · intro x hx hz
    have hz' : (P.rc.set c 1).getD x 0 = 0 := hz
    rw [hrc] at hz'
    by_cases hxc : x = c
    · simp [hxc] at hz'
    · simp only [hxc, if_false] at hz'
      have := M.fr.rcFree x hx hz'
      rw [hfree] at this
      rcases List.mem_cons.mp this with e | hm
      · exact absurd e hxc
      · exact hm
  · intro x
    show (P.rc.set c 1).getD x 0 = _ + ((P.loans ++ [(l, c)]).map (·.2)).count x + _ + _
    rw [hrc]
    have := M.rcEq x
    simp only [List.map_append, List.map_cons, List.map_nil, List.count_append, List.count_cons, List.count_nil] at this ⊢
    by_cases hxc : x = c
    · subst hxc
      rw [hc0] at this
      simp
      omega
    · have : ¬ c = x := fun e => hxc e.symm
      simp [hxc, this]
      omega
  · show P.loanCnt + 1 = (P.loans ++ [(l, c)]).length + _
    have := M.loanCnt
    simp at this ⊢; omega
  · show ((P.loans ++ [(l, c)]).map (·.1)).Nodup
    rw [List.map_append, List.nodup_append]
    refine ⟨M.labels, by simp, ?_⟩
    intro a ha b hb e
    simp at hb; subst hb
    obtain ⟨lc, hlc, rfl⟩ := List.mem_map.mp ha
    exact hl lc hlc e
  · intro lc hlc
    have hlc' : lc ∈ P.loans ++ [(l, c)] := hlc
    show (P.rc.set c 1).getD lc.2 0 = 1
    rw [hrc]
    rcases List.mem_append.mp hlc' with hm | hm
    · have := M.loanRc lc hm
      have hne : lc.2 ≠ c := by intro e; rw [e, hc0] at this; cases this
      simp [hne, this]
    · simp at hm; subst hm; simp

/-! ### the data segment formula suffices -/

theorem flatMap_length_le {α β : Type} (l : List α) (f : α → List β) (B : Nat)
    (h : ∀ x ∈ l, (f x).length ≤ B) : (l.flatMap f).length ≤ l.length * B := by
  induction l with
  | nil => simp
  | cons a l ih =>
    simp only [List.flatMap_cons, List.length_append, List.length_cons]
    have h1 := h a (by simp)
    have h2 := ih (fun x hx => h x (by simp [hx]))
    rw [Nat.add_mul, Nat.one_mul]
    omega

/-- indices of the chunks used by the connection in a slot -/
def slotIdx (w : World) (p : Nat) (sl : Option Nat) : List Nat :=
  match sl with
  | some s => (match getC w p s with | some c => trueIdx c.used | none => [])
  | none => []

theorem free_bound {cfg : Cfg} (hpre : cfg.prealloc = none) {w : World} (h : Inv cfg w) {p : Nat} {P : Pub} (hp : getP w p = some P)
    (hal : P.alive = true)
    (hcomp : ∀ s c, some s ∈ P.conns → getC w p s = some c → c.comp = []) :
    P.maxLoans ≤ P.free.length + P.loans.length := by
  obtain ⟨hSl, hMem⟩ := h.p p P hp
  have M := hMem hal
  -- every chunk is free or referenced
  have hcover : ∀ c ∈ List.range P.n, c ∈ P.free ++ (P.loans.map (·.2) ++ P.hist ++ P.conns.flatMap (slotIdx w p)) := by
    intro c hc
    have hcn : c < P.n := List.mem_range.mp hc
    by_cases h0 : P.rc.getD c 0 = 0
    · exact List.mem_append_left _ (M.fr.rcFree c hcn h0)
    · apply List.mem_append_right
      have hq := M.rcEq c
      simp only [List.count_nil, Nat.zero_add] at hq
      by_cases h1 : (P.loans.map (·.2)).count c = 0
      · by_cases h2 : P.hist.count c = 0
        · have h3 : slotSum w p P.conns c ≠ 0 := by omega
          obtain ⟨s, hs, hu⟩ := slotSum_pos h3
          apply List.mem_append_right
          rw [List.mem_flatMap]
          refine ⟨some s, hs, ?_⟩
          unfold usedAt at hu
          cases hcn' : getC w p s with
          | none => rw [hcn'] at hu; cases hu
          | some cn =>
            rw [hcn'] at hu
            simp only [slotIdx, hcn']
            exact mem_trueIdx.mpr hu
        · apply List.mem_append_left
          apply List.mem_append_right
          exact List.count_pos_iff.mp (by omega)
      · apply List.mem_append_left
        apply List.mem_append_left
        exact List.count_pos_iff.mp (by omega)
  have hlen := nodup_subset_length _ _ List.nodup_range hcover
  -- each slot accounts for at most `bufMax + borrowMax` chunks
  have hslot : ∀ sl ∈ P.conns, (slotIdx w p sl).length ≤ cfg.bufMax + cfg.borrowMax := by
    intro sl hsl
    cases sl with
    | none => simp [slotIdx]
    | some s =>
      cases hcn : getC w p s with
      | none => simp [slotIdx, hcn]
      | some cn =>
        simp only [slotIdx, hcn]
        obtain ⟨i, hi⟩ := List.getElem?_of_mem hsl
        obtain ⟨c1, hc1, hsa⟩ := hSl.slotConn i s hi
        rw [hcn] at hc1; cases hc1
        have hCI := h.c p s cn hcn
        obtain ⟨S, hS⟩ := hCI.hasS
        obtain ⟨hnd, hex⟩ := hCI.exact hsa S hS
        have hsub : ∀ x ∈ trueIdx cn.used, x ∈ connChunks cn S := fun x hx => (hex x).1 (mem_trueIdx.mp hx)
        have := nodup_subset_length _ _ (trueIdx_nodup cn.used) hsub
        have hcl : (connChunks cn S).length = cn.sub.length + cn.borrow + cn.comp.length := by
          unfold connChunks heldChunks
          rw [(getC_key hcn).1, hCI.held S hS]
          simp only [List.length_append, List.length_map]
        have := hCI.ok.tot
        have := hCI.ok.subLe
        have := hCI.ok.capM
        have := hCI.ok.borLe
        rw [hcomp s cn hsl hcn] at hcl
        simp at hcl
        omega
  have hfl := flatMap_length_le P.conns (slotIdx w p) _ hslot
  rw [hSl.connsLen] at hfl
  have hn := M.nEq
  unfold Cfg.nChunks Cfg.fullChunks at hn
  rw [hpre] at hn
  dsimp only at hn
  have hh := M.histLen
  simp only [List.length_range, List.length_append, List.length_map] at hlen
  omega

end Iox2.PubSub.C08
