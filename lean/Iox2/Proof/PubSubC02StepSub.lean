/-
C02 — the API operations on subscribers (`csub`, `dsub`, `recv`, `dsample`, `updS`, `has`) and
`loan` preserve the invariant.
-/
import Iox2.Proof.PubSubC02PubAcc
import Iox2.Proof.PubSubC02SubUpdate
import Iox2.Proof.PubSubC02Recv
import Iox2.Proof.PubSubC02SubLife

namespace Iox2.PubSub.C02P
open Iox2.PubSub

theorem inv_panic {G : GT} {A : GA} {w : World} (hi : Inv G A w) : Inv G A { w with panicked := true } :=
  hi.ext ⟨rfl, rfl, rfl, fun _ => rfl, fun _ => rfl, fun _ _ => rfl, hi.top.reg.nodup⟩

theorem inv_finishPanic {G : GT} {A : GA} {w0 : World} {r : World × String} (h0 : Inv G A w0)
    (hr : r.1.panicked = true ∨ Inv G A r.1) : Inv G A (finishPanic w0 r).1 := by
  unfold finishPanic
  split
  · exact inv_panic h0
  · rename_i h
    rcases hr with hr | hr
    · exact absurd hr h
    · exact hr

theorem eraseRF_flds {P P' : Pub} (h : eraseRF P' = eraseRF P) :
    P'.alive = P.alive ∧ P'.loans = P.loans ∧ P'.hist = P.hist ∧ P'.ex = P.ex := by
  refine ⟨?_, ?_, ?_, ?_⟩
  · have := congrArg Pub.alive h; simpa [eraseRF] using this
  · have := congrArg Pub.loans h; simpa [eraseRF] using this
  · have := congrArg Pub.hist h; simpa [eraseRF] using this
  · have := congrArg Pub.ex h; simpa [eraseRF] using this

theorem step_loan_inv {w : World} (hi : Inv {} {} w) (p l : Nat) :
    Inv {} {} (step w (.loan p l)).1 := by
  simp only [step]
  cases hP0 : getP w p with
  | none => exact hi
  | some P0 =>
    simp only []
    split
    · exact hi
    · rename_i hal
      split
      · exact hi
      · rename_i hfind
        obtain ⟨hi1, hd, _⟩ := retrieveReturned_inv (p := p) hi
        cases hP : getP (retrieveReturned w p) p with
        | none => exact hi1
        | some P =>
          simp only []
          split
          · exact hi1
          · split
            · exact hi1
            · rename_i c rest hf
              split
              · exact inv_panic hi1
              · have he := hd.pubs p
                rw [hP, hP0] at he
                simp only [Option.map_some, Option.some.injEq] at he
                obtain ⟨e1, e2, _, _⟩ := eraseRF_flds he
                refine (loan_inv hi1 hP ?_ ?_ hf).2
                · rw [e1]; simpa using hal
                · rw [e2]
                  cases hq : P0.loans.find? (fun x => decide (x.1 = l)) with
                  | none => rfl
                  | some x => rw [hq] at hfind; simp at hfind

theorem step_dsub_inv {w : World} (hi : Inv {} {} w) (s : Nat) :
    Inv {} {} (step w (.dsub s)).1 := by
  simp only [step]
  cases hS : getS w s with
  | none => exact hi
  | some S =>
    simp only []
    split
    · exact hi
    · rename_i hal
      exact subDestroyIfUnreferenced_inv
        (dsub_unregister_inv hi rfl hS (by simpa using hal)) rfl

theorem step_dsample_inv {w : World} (hi : Inv {} {} w) (s k : Nat) :
    Inv {} {} (step w (.dsample s k)).1 := by
  simp only [step]
  cases hS : getS w s with
  | none => exact hi
  | some S =>
    simp only []
    cases hk : S.held[k]? with
    | none => exact hi
    | some h => exact subDestroyIfUnreferenced_inv (dsample_inv hi hS hk) rfl

theorem step_updS_inv {w : World} (hi : Inv {} {} w) (s : Nat) :
    Inv {} {} (step w (.updS s)).1 := by
  simp only [step]
  cases hS : getS w s with
  | none => exact hi
  | some S =>
    simp only []
    split
    · exact hi
    · rename_i hal
      exact inv_finishPanic hi (subUpdate_inv hi rfl (fun S' h => by
        rw [hS] at h; cases h; simpa using hal))

theorem step_has_inv {w : World} (hi : Inv {} {} w) (s : Nat) :
    Inv {} {} (step w (.has s)).1 := by
  simp only [step]
  cases hS : getS w s with
  | none => exact hi
  | some S =>
    simp only []
    split
    · exact hi
    · rename_i hal
      have hu := subUpdate_inv (s := s) hi rfl (fun S' h => by
        rw [hS] at h; cases h; simpa using hal)
      split
      · exact inv_panic hi
      · rename_i hnp
        have hi1 : Inv {} {} (subUpdate w s) := by
          rcases hu with hu | hu
          · exact absurd hu hnp
          · exact hu
        split <;> exact hi1

theorem step_recv_inv {w : World} (hi : Inv {} {} w) (s : Nat) :
    Inv {} {} (step w (.recv s)).1 := by
  simp only [step]
  cases hS : getS w s with
  | none => exact hi
  | some S =>
    simp only []
    split
    · exact hi
    · rename_i hal
      have hu := subUpdate_inv (s := s) hi rfl (fun S' h => by
        rw [hS] at h; cases h; simpa using hal)
      split
      · exact inv_panic hi
      · rename_i hnp
        have hi1 : Inv {} {} (subUpdate w s) := by
          rcases hu with hu | hu
          · exact absurd hu hnp
          · exact hu
        have hr := recv_inv (s := s) hi1 rfl
        split
        · rename_i w2 heq; rw [heq] at hr; exact hr
        · rename_i w2 heq; rw [heq] at hr; exact hr
        · rename_i w2 key p ch seq heq
          rw [heq] at hr
          simp only at hr
          split
          · rename_i hnone
            exfalso
            obtain ⟨w1, _, hok⟩ := subReceive_spec (s := s) hi1
            rw [heq] at hok
            obtain ⟨S1, c, rest, hS1, _, _, _, _, hw2⟩ := hok
            have h3 : getS w2 s = getS (setC w1 _) s := congrArg (fun x => getS x s) hw2
            rw [getS_setC, hS1] at h3
            rw [h3] at hnone
            cases hnone
          · rename_i S2 hS2
            exact hr S2 hS2

theorem detachReceiver_panicked (w : World) (p s : Nat) :
    (detachReceiver w p s).panicked = w.panicked := by
  rw [detachReceiver_eq]
  split
  · rfl
  · split <;> rfl

theorem subDestroyKeys_panicked (s : Nat) : ∀ (l : List (Nat × Nat)) (w : World),
    (subDestroyKeys w s l).panicked = w.panicked
  | [], _ => rfl
  | (_, p) :: r, w => by
    simp only [subDestroyKeys]
    rw [subDestroyKeys_panicked s r, detachReceiver_panicked]

theorem step_csub_inv {w : World} (hi : Inv {} {} w) (s : Nat) (b h : Option Nat) :
    Inv {} {} (step w (.csub s b h)).1 := by
  simp only [step]
  split
  · exact hi
  · rename_i hnone
    have hnone' : getS w s = none := by
      cases hq : getS w s with
      | none => rfl
      | some x => rw [hq] at hnone; simp at hnone
    split
    · exact hi
    · rename_i buffer _
      split
      · exact hi
      · rename_i histReq _
        generalize htc : (if w.cfg.expired ≥ w.cfg.borrowMax then w.cfg.expired
          else w.cfg.borrowMax) = tbrCap
        have hi0 := csub_init_inv (A := {}) (s := s) (buffer := buffer) (histReq := histReq)
          (tbrCap := tbrCap) hi hnone'
        generalize hS0 : ({
            buffer := buffer, histReq := histReq,
            conns := List.replicate w.cfg.maxPubs none,
            storage := SlotMap.init (tbrCap + w.cfg.maxPubs), tbrCap := tbrCap,
            snapCtr := w.pubReg.counter, snap := w.pubReg.slots } : Sub) = S0 at hi0 ⊢
        have hal0 : S0.alive = true := by subst hS0; rfl
        have hg0 : getS { w with subs := w.subs ++ [(s, S0)] } s = some S0 := by
          rw [sl_getS_append w s s S0 hnone']; simp
        have hu := subForceUpdate_inv hi0 rfl hg0 hal0
        generalize subForceUpdate { w with subs := w.subs ++ [(s, S0)] } s = w1 at hu ⊢
        split
        · rename_i reg slot S1 hadd hS1
          apply inv_finishPanic hi
          rcases hu with hu | hu
          · exact Or.inl hu
          · exact Or.inr (csub_ok_inv hu rfl hadd hS1)
        · apply inv_finishPanic hi
          rcases hu with hu | hu
          · left
            show (match getS w1 s with
              | some S1 => subDestroyKeys w1 s (SlotMap.items S1.storage)
              | none => w1).panicked = true
            split
            · rw [subDestroyKeys_panicked]; exact hu
            · exact hu
          · right
            obtain ⟨S1, hS1, _⟩ := hu.top.reg.nsAlive s rfl
            simp only [hS1]
            exact csub_fail_inv hu hS1

end Iox2.PubSub.C02P
