/-
C17 — subscriber side: every subscriber-side helper function leaves the life-cycle view unchanged,
and the API operations on subscribers preserve the "no zombie port core" invariant `XInv`.
-/
import Iox2.Proof.ShutdownC17View

namespace Iox2.PubSub.C17P
open Iox2.PubSub Iox2.PubSub.C02P

/-! ### general facts -/

/-- a subscriber of `w` is found again (with the same view) in a world with the same view -/
theorem VEq.getS {w w' : World} (e : VEq w w') (hn : NodupK w) {s : Nat} {S : Sub}
    (hS : getS w s = some S) : ∃ S', getS w' s = some S' ∧ sv S' = sv S := by
  have hm : (s, sv S) ∈ sview w := List.mem_map.mpr ⟨(s, S), mem_of_getS hS, rfl⟩
  rw [← e.subs] at hm
  obtain ⟨y, hy, hxy⟩ := List.mem_map.mp hm
  simp only [Prod.mk.injEq] at hxy
  obtain ⟨a, b⟩ := y
  simp only at hxy
  obtain ⟨h1, h2⟩ := hxy
  subst h1
  exact ⟨b, getS_of_mem (hn.of_veq e) hy, h2⟩

/-- view-preserving change of the subscriber `s` after a view-preserving step -/
theorem veq_then_setS {w w1 : World} (hn : NodupK w) (h1 : VEq w w1) {s : Nat} {S X : Sub}
    (hS : getS w1 s = some S) (hv : sv X = sv S) : VEq w (setS w1 s X) :=
  h1.trans (veq_setS (hn.of_veq h1) hS hv)

/-! ### PART 1 — the helper functions do not change the view -/

theorem veq_subDropConn {w : World} (hn : NodupK w) (s key : Nat) : VEq w (subDropConn w s key) := by
  simp only [subDropConn]
  split
  · exact VEq.refl w
  · rename_i S hS
    split
    · exact VEq.refl w
    · refine VEq.trans ?_ (veq_detachReceiver _ _ _)
      exact veq_setS hn hS rfl

/-- the tail of `subPrepareRemoval` (after room has been made in the `tbr` list) -/
theorem veq_prep_tail {w wm : World} (hn : NodupK w) (hm : VEq w wm) (s key : Nat) (hb : Bool) :
    VEq w (match getS wm s with
      | none => wm
      | some S =>
        if S.tbr.length < S.tbrCap then setS wm s { S with tbr := S.tbr ++ [key] }
        else if hb then { wm with panicked := true }
        else subDropConn wm s key) := by
  split
  · exact hm
  · rename_i S hS
    split
    · exact veq_then_setS hn hm hS rfl
    · split
      · exact hm.trans (veq_panic _)
      · exact hm.trans (veq_subDropConn (hn.of_veq hm) s key)

theorem veq_subPrepareRemoval {w : World} (hn : NodupK w) (s slot : Nat) :
    VEq w (subPrepareRemoval w s slot) := by
  simp only [subPrepareRemoval]
  split
  · exact VEq.refl w
  · rename_i S hS
    split
    · exact VEq.refl w
    · rename_i key _
      split
      · exact VEq.refl w
      · rename_i hasData hasBorrows _
        have hdrop : ∀ (X : Sub) (k : Nat), sv X = sv S → VEq w (subDropConn (setS w s X) s k) :=
          fun X k hv =>
            (veq_setS hn hS hv).trans (veq_subDropConn (hn.of_veq (veq_setS hn hS hv)) s k)
        split
        · split
          · exact veq_setS hn hS rfl
          · refine veq_prep_tail hn ?_ s key hasBorrows
            split
            · exact hdrop _ _ rfl
            · split
              · split
                · exact hdrop _ _ rfl
                · exact VEq.refl w
              · exact VEq.refl w
        · exact veq_subDropConn hn s key

theorem veq_subCreateConn {w : World} (hn : NodupK w) (s slot p : Nat) :
    VEq w (subCreateConn w s slot p) := by
  simp only [subCreateConn]
  split
  · exact VEq.refl w
  · rename_i S hS
    split
    · rename_i m key _
      split
      · exact veq_then_setS hn (veq_setC _ _) hS rfl
      · exact veq_then_setS hn (veq_addC w _) hS rfl
    · split
      · exact (veq_setC _ _).trans (veq_panic _)
      · exact (veq_addC w _).trans (veq_panic _)

theorem veq_subUpdateSlots (s : Nat) : ∀ (l : List (Option Nat)) {w : World} (_ : NodupK w)
    (i : Nat) (tagged : List Nat), VEq w (subUpdateSlots w s l i tagged).1
  | [], w, _, _, _ => VEq.refl w
  | none :: r, w, hn, i, t => by
    simp only [subUpdateSlots]
    exact veq_subUpdateSlots s r hn _ _
  | some p :: r, w, hn, i, t => by
    simp only [subUpdateSlots]
    split
    · exact VEq.refl w
    · split
      · exact veq_subUpdateSlots s r hn _ _
      · have h1 := veq_subPrepareRemoval hn s i
        have h2 := h1.trans (veq_subCreateConn (hn.of_veq h1) s i p)
        exact h2.trans (veq_subUpdateSlots s r (hn.of_veq h2) _ _)

theorem veq_subFinish (s : Nat) (tagged : List Nat) : ∀ (fuel : Nat) {w : World} (_ : NodupK w)
    (n : Nat), VEq w (subFinish w s tagged fuel n)
  | 0, w, _, _ => VEq.refl w
  | fuel + 1, w, hn, n => by
    simp only [subFinish]
    split
    · exact VEq.refl w
    · rename_i S hS
      split
      · exact VEq.refl w
      · have hstep : ∀ {w1 : World}, VEq w w1 → VEq w (subFinish w1 s tagged fuel (n + 1)) :=
          fun h1 => h1.trans (veq_subFinish s tagged fuel (hn.of_veq h1) _)
        apply hstep
        split
        · exact VEq.refl w
        · split
          · have h1 := veq_subPrepareRemoval hn s n
            split
            · rename_i S' hS'
              exact veq_then_setS hn h1 hS' rfl
            · exact h1
          · exact VEq.refl w

theorem veq_subForceUpdate {w : World} (hn : NodupK w) (s : Nat) : VEq w (subForceUpdate w s) := by
  simp only [subForceUpdate]
  split
  · exact VEq.refl w
  · rename_i S hS
    have h1 := veq_subUpdateSlots s S.snap hn 0 []
    exact h1.trans (veq_subFinish s _ _ (hn.of_veq h1) 0)

theorem veq_subUpdate {w : World} (hn : NodupK w) (s : Nat) : VEq w (subUpdate w s) := by
  simp only [subUpdate]
  split
  · exact VEq.refl w
  · rename_i S hS
    split
    · exact VEq.refl w
    · have h1 : VEq w (setS w s { S with snapCtr := w.pubReg.counter, snap := w.pubReg.slots }) :=
        veq_setS hn hS rfl
      exact h1.trans (veq_subForceUpdate (hn.of_veq h1) s)

theorem veq_recvFromConn (w : World) (s : Nat) (S : Sub) (key : Nat) :
    VEq w (recvFromConn w s S key).1 := by
  simp only [recvFromConn]
  split
  · exact VEq.refl w
  · split
    · exact VEq.refl w
    · split
      · exact VEq.refl w
      · split
        · exact VEq.refl w
        · exact veq_setC _ _

theorem veq_recvTbr (s : Nat) : ∀ (fuel : Nat) {w : World} (_ : NodupK w) (i : Nat),
    VEq w (recvTbr w s fuel i).1
  | 0, w, _, _ => VEq.refl w
  | fuel + 1, w, hn, i => by
    simp only [recvTbr]
    split
    · exact VEq.refl w
    · rename_i S hS
      split
      · exact VEq.refl w
      · rename_i key _
        split
        · have h1 : VEq w (setS w s { S with tbr := S.tbr.eraseIdx i }) := veq_setS hn hS rfl
          exact h1.trans (veq_recvTbr s fuel (hn.of_veq h1) i)
        · have hr := veq_recvFromConn w s S key
          split
          all_goals
            split
            · exact veq_recvTbr s fuel hn _
            · split
              · rename_i heq; rw [heq] at hr; exact hr
              · rename_i heq; rw [heq] at hr; exact hr
              · rename_i w' heq
                rw [heq] at hr
                simp only at hr
                split
                · exact hr.trans (veq_recvTbr s fuel (hn.of_veq hr) _)
                · obtain ⟨S', hS', hv⟩ := hr.getS hn hS
                  have h2 : VEq w (setS w' s { S with tbr := S.tbr.eraseIdx i }) :=
                    veq_then_setS hn hr hS' (by rw [hv]; rfl)
                  have h3 := h2.trans (veq_subDropConn (hn.of_veq h2) s key)
                  exact h3.trans (veq_recvTbr s fuel (hn.of_veq h3) i)

theorem veq_recvScan (s : Nat) (S : Sub) : ∀ (l : List (Nat × Nat)) (w : World) (acc : ScanAcc),
    VEq w (recvScan w s S l acc).1
  | [], w, _ => VEq.refl w
  | (key, p) :: r, w, acc => by
    simp only [recvScan]
    split
    · exact veq_recvScan s S r w acc
    · split
      · exact veq_recvScan s S r w acc
      · split
        · exact veq_recvScan s S r w _
        · have hr := veq_recvFromConn w s S key
          split
          · rename_i heq; rw [heq] at hr; exact hr
          · rename_i heq; rw [heq] at hr; exact hr
          · rename_i w' heq
            rw [heq] at hr
            exact hr.trans (veq_recvScan s S r w' _)

theorem veq_subReceive {w : World} (hn : NodupK w) (s : Nat) : VEq w (subReceive w s).1 := by
  simp only [subReceive]
  split
  · exact VEq.refl w
  · rename_i S hS
    have h1 := veq_recvTbr s (S.tbr.length + 1) hn 0
    split
    · rename_i heq; rw [heq] at h1; exact h1
    · rename_i heq; rw [heq] at h1; exact h1
    · rename_i w' heq
      rw [heq] at h1
      simp only at h1
      split
      · exact h1
      · rename_i S' hS'
        have h2 := veq_recvScan s S' (SlotMap.items S'.storage) w' {}
        split
        · rename_i heq2; rw [heq2] at h2; exact h1.trans h2
        · rename_i heq2; rw [heq2] at h2; exact h1.trans h2
        · rename_i heq2; rw [heq2] at h2
          split <;> exact h1.trans h2

theorem veq_subRelease {w : World} (hn : NodupK w) (s : Nat) (h : Held) :
    VEq w (subRelease w s h) := by
  have _ := hn
  simp only [subRelease]
  split
  · exact VEq.refl w
  · split
    · exact VEq.refl w
    · split
      · exact VEq.refl w
      · split
        · exact VEq.refl w
        · split
          · exact veq_setC _ _
          · exact VEq.refl w

theorem veq_subDestroyKeys (w : World) (s : Nat) (l : List (Nat × Nat)) :
    VEq w (subDestroyKeys w s l) := by
  induction l generalizing w with
  | nil => exact VEq.refl w
  | cons a r ih =>
    obtain ⟨k, p⟩ := a
    simp only [subDestroyKeys]
    exact (veq_detachReceiver w p s).trans (ih _)

/-! ### PART 2 — the API operations on subscribers preserve `XInv` -/

theorem not_mem_of_getS_none {w : World} {s : Nat} (h : getS w s = none) :
    ∀ e ∈ w.subs, e.1 ≠ s := by
  unfold getS at h
  simp only [Option.map_eq_none_iff, List.find?_eq_none] at h
  intro e he
  simpa using h e he

/-- the exemption of subscriber `s` can be dropped when `s` is good -/
theorem XInvE.unexemptS {ep : Option Nat} {w : World} {s : Nat} (h : XInvE ep (some s) w)
    (hg : ∀ e ∈ w.subs, e.1 = s → GoodS e.2) : XInvE ep none w := by
  refine ⟨h.nodup, h.pubs, ?_⟩
  intro e he _
  by_cases hs : e.1 = s
  · exact hg e he hs
  · exact h.subs e he (fun hh => hs (Option.some.inj hh))

theorem xinvE_setS_unexempt {ep : Option Nat} {w : World} {s : Nat} (h : XInvE ep (some s) w)
    (X : Sub) (hg : GoodS X) : XInvE ep none (setS w s X) := by
  refine (h.setS s X (fun _ => hg)).unexemptS ?_
  intro e he hs
  rcases mem_setS he with rfl | ⟨_, h2⟩
  · exact hg
  · exact absurd hs h2

theorem xinv_panic {w : World} (h : XInv w) : XInv { w with panicked := true } :=
  h.of_veq (veq_panic w)

theorem xinv_finishPanic {w0 : World} {r : World × String} (h0 : XInv w0) (hr : XInv r.1) :
    XInv (finishPanic w0 r).1 := by
  unfold finishPanic
  split
  · exact xinv_panic h0
  · exact hr

/-- `subDestroyIfUnreferenced` repairs the exempted subscriber -/
theorem xinv_subDestroy {ep : Option Nat} {w : World} {s : Nat} (h : XInvE ep (some s) w) :
    XInvE ep none (subDestroyIfUnreferenced w s) := by
  simp only [subDestroyIfUnreferenced]
  split
  · rename_i hS
    exact h.unexemptS (fun e he hs => absurd hs (not_mem_of_getS_none hS e he))
  · rename_i S hS
    split
    · rename_i hc
      refine h.unexemptS ?_
      intro e he hs
      have he' : (s, e.2) ∈ w.subs := by rw [← hs]; exact he
      have : e.2 = S := assoc_unique h.nodup.subs he' (mem_of_getS hS)
      rw [this]
      intro hex
      simp only [Bool.or_eq_true, Bool.not_eq_eq_eq_not, Bool.not_true, hex] at hc
      rcases hc with (hc | hc) | hc
      · exact Or.inl hc
      · right
        intro hh
        rw [hh] at hc
        simp at hc
      · cases hc
    · refine xinvE_setS_unexempt (h.of_veq (veq_subDestroyKeys w s _)) _ ?_
      intro hex
      cases hex

theorem xstep_dsub {w : World} (h : XInv w) (s : Nat) : XInv (step w (.dsub s)).1 := by
  simp only [step]
  cases hS : getS w s with
  | none => exact h
  | some S =>
    simp only []
    split
    · exact h
    · apply XInvE.toX
      apply xinv_subDestroy
      have h1 := ((h.toE none none).exemptS s).setS s { S with alive := false }
        (fun hne => absurd rfl hne)
      exact h1.of_eq rfl rfl

theorem xstep_dsample {w : World} (h : XInv w) (s k : Nat) : XInv (step w (.dsample s k)).1 := by
  simp only [step]
  cases hS : getS w s with
  | none => exact h
  | some S =>
    simp only []
    cases hk : S.held[k]? with
    | none => exact h
    | some hd =>
      simp only []
      apply XInvE.toX
      apply xinv_subDestroy
      have h1 := ((h.toE none none).exemptS s).setS s { S with held := S.held.eraseIdx k }
        (fun hne => absurd rfl hne)
      exact h1.of_veq (veq_subRelease h1.nodup s hd)

theorem xstep_recv {w : World} (h : XInv w) (s : Nat) : XInv (step w (.recv s)).1 := by
  simp only [step]
  cases hS : getS w s with
  | none => exact h
  | some S =>
    simp only []
    split
    · exact h
    · split
      · exact xinv_panic h
      · have h1 : XInv (subUpdate w s) := h.of_veq (veq_subUpdate h.nodup s)
        have h2 : XInv (subReceive (subUpdate w s) s).1 := h1.of_veq (veq_subReceive h1.nodup s)
        split
        · rename_i heq; rw [heq] at h2; exact h2
        · rename_i heq; rw [heq] at h2; exact h2
        · rename_i w2 key p ch seq heq
          rw [heq] at h2
          simp only at h2
          split
          · exact h2
          · apply XInvE.toX
            refine (h2.toE none none).setS s _ ?_
            intro _ _
            right
            simp

theorem xstep_updS {w : World} (h : XInv w) (s : Nat) : XInv (step w (.updS s)).1 := by
  simp only [step]
  cases hS : getS w s with
  | none => exact h
  | some S =>
    simp only []
    split
    · exact h
    · exact xinv_finishPanic h (h.of_veq (veq_subUpdate h.nodup s))

theorem xstep_has {w : World} (h : XInv w) (s : Nat) : XInv (step w (.has s)).1 := by
  simp only [step]
  cases hS : getS w s with
  | none => exact h
  | some S =>
    simp only []
    split
    · exact h
    · split
      · exact xinv_panic h
      · have h1 : XInv (subUpdate w s) := h.of_veq (veq_subUpdate h.nodup s)
        split <;> exact h1

theorem xinv_addS {w : World} (h : XInv w) {s : Nat} (hs : getS w s = none) (S : Sub)
    (hg : GoodS S) : XInv { w with subs := w.subs ++ [(s, S)] } := by
  refine ⟨⟨h.nodup.pubs, ?_⟩, h.pubs, ?_⟩
  · simp only [List.map_append, List.map_cons, List.map_nil]
    rw [List.nodup_append]
    refine ⟨h.nodup.subs, by simp, ?_⟩
    intro a ha b hb
    simp only [List.mem_singleton] at hb
    subst hb
    obtain ⟨e, he, rfl⟩ := List.mem_map.mp ha
    exact not_mem_of_getS_none hs e he
  · intro e he
    rcases List.mem_append.mp he with he | he
    · exact h.subs e he
    · simp only [List.mem_singleton] at he
      subst he
      exact hg

theorem xinv_filterS {w : World} (h : XInv w) (f : Nat × Sub → Bool) :
    XInv { w with subs := w.subs.filter f } := by
  refine ⟨⟨h.nodup.pubs, ?_⟩, h.pubs, ?_⟩
  · exact List.Nodup.sublist ((List.filter_sublist (l := w.subs)).map _) h.nodup.subs
  · intro e he
    exact h.subs e ((List.mem_filter.mp he).1)

theorem xstep_csub {w : World} (h : XInv w) (s : Nat) (b hr : Option Nat) :
    XInv (step w (.csub s b hr)).1 := by
  simp only [step]
  split
  · exact h
  · rename_i hnone
    have hnone' : getS w s = none := by
      cases hq : getS w s with
      | none => rfl
      | some x => rw [hq] at hnone; simp at hnone
    split
    · exact h
    · rename_i buffer _
      split
      · exact h
      · rename_i histReq _
        generalize htc : (if w.cfg.expired ≥ w.cfg.borrowMax then w.cfg.expired
          else w.cfg.borrowMax) = tbrCap
        generalize hS0 : ({
            buffer := buffer, histReq := histReq,
            conns := List.replicate w.cfg.maxPubs none,
            storage := SlotMap.init (tbrCap + w.cfg.maxPubs), tbrCap := tbrCap,
            snapCtr := w.pubReg.counter, snap := w.pubReg.slots } : Sub) = S0
        have hal0 : S0.alive = true := by subst hS0; rfl
        have h0 : XInv { w with subs := w.subs ++ [(s, S0)] } :=
          xinv_addS h hnone' S0 (fun _ => Or.inl hal0)
        have h1 := h0.of_veq (veq_subForceUpdate h0.nodup s)
        generalize subForceUpdate { w with subs := w.subs ++ [(s, S0)] } s = w1 at h1 ⊢
        split
        · rename_i reg slot S1 hadd hS1
          apply xinv_finishPanic h
          have h2 : VEq w1 (setS w1 s { S1 with slot := slot }) := veq_setS h1.nodup hS1 rfl
          exact h1.of_veq (h2.trans (VEq.of_eq rfl rfl))
        · apply xinv_finishPanic h
          apply xinv_filterS
          split
          · exact h1.of_veq (veq_subDestroyKeys w1 s _)
          · exact h1

end Iox2.PubSub.C17P
