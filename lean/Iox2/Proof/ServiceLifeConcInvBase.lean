/-
C06 Part B — basic lemmas for the invariant proof: unfolding of `stepAt`, `getElem?` after `set`,
the decomposition of `Inv` into a per-thread part (`TBase`, `TSeen`), a global part (`Global`) and the
reference part (`RefsReg`), monotonicity of the per-thread part in the shared state (`ShLe`).
-/
import Iox2.Proof.ServiceLifeConcInvDefs

namespace Iox2.ServiceLifeConc
open Iox2.Sched

/-! ## generic lemmas on `Sys.stepAt` and lists -/

/-- unfolding of one step of thread `i` -/
theorem stepAt_unfold {σ τ : Type} {S : Sys σ τ} {c c' : Cfg σ τ} {i : Nat} {evs : List Ev}
    (hs : S.stepAt c i = some (c', evs)) :
    ∃ t sh' t', c.th[i]? = some t ∧ S.step c.sh t = some (sh', t', evs) ∧
      c' = { sh := sh', th := c.th.set i t' } := by
  unfold Sys.stepAt at hs
  cases ht : c.th[i]? with
  | none => rw [ht] at hs; cases hs
  | some t =>
    rw [ht] at hs
    dsimp only at hs
    cases hst : S.step c.sh t with
    | none => rw [hst] at hs; cases hs
    | some r =>
      obtain ⟨sh', t', evs'⟩ := r
      rw [hst] at hs
      dsimp only at hs
      simp only [Option.some.injEq, Prod.mk.injEq] at hs
      obtain ⟨h1, h2⟩ := hs
      subst h2
      exact ⟨t, sh', t', rfl, hst, h1.symm⟩

theorem stepAt_eq_some {σ τ : Type} {S : Sys σ τ} {c : Cfg σ τ} {i : Nat} {t t' : τ} {sh' : σ} {evs : List Ev}
    (ht : c.th[i]? = some t) (hst : S.step c.sh t = some (sh', t', evs)) :
    S.stepAt c i = some ({ sh := sh', th := c.th.set i t' }, evs) := by
  unfold Sys.stepAt
  rw [ht]
  simp only
  rw [hst]

/-- threads after a step of thread `i` -/
theorem getElem?_set_of_some {α : Type} {l : List α} {i : Nat} {a : α} (b : α) (h : l[i]? = some a) (j : Nat) :
    (l.set i b)[j]? = if j = i then some b else l[j]? := by
  have hlt : i < l.length := by
    rcases List.getElem?_eq_some_iff.mp h with ⟨hl, _⟩
    exact hl
  rw [List.getElem?_set]
  by_cases hji : j = i
  · subst hji; simp [hlt]
  · have : ¬ i = j := fun e => hji e.symm
    simp [hji, this]

theorem sum_map_set_lt {α : Type} (f : α → Nat) :
    ∀ (l : List α) (i : Nat) (a b : α), l[i]? = some a → f b < f a →
      ((l.set i b).map f).sum < (l.map f).sum := by
  intro l
  induction l with
  | nil => intro i a b h; simp at h
  | cons x xs ih =>
    intro i a b h hlt
    cases i with
    | zero =>
      simp at h
      subst h
      simp only [List.set_cons_zero, List.map_cons, List.sum_cons]
      omega
    | succ n =>
      simp only [List.getElem?_cons_succ] at h
      have := ih n a b h hlt
      simp only [List.set_cons_succ, List.map_cons, List.sum_cons]
      omega

/-! ## simple facts on the step functions -/

@[simp] theorem incRef_static (sh : Shared) (n : Nat) : (incRef sh n).static = sh.static := by
  unfold incRef; split <;> rfl
@[simp] theorem incRef_dyn (sh : Shared) (n : Nat) : (incRef sh n).dyn = sh.dyn := by
  unfold incRef; split <;> rfl
@[simp] theorem incRef_maxNodes (sh : Shared) (n : Nat) : (incRef sh n).maxNodes = sh.maxNodes := by
  unfold incRef; split <;> rfl

theorem incRef_refs_fst (sh : Shared) (n : Nat) (r : Nat × Nat) (h : r ∈ (incRef sh n).refs) :
    r.1 = n ∨ ∃ r0, r0 ∈ sh.refs ∧ r0.1 = r.1 := by
  unfold incRef at h
  split at h
  · simp only [List.mem_cons] at h
    rcases h with h | h
    · left; rw [h]
    · right; exact ⟨r, h, rfl⟩
  · simp only [List.mem_map] at h
    obtain ⟨r0, hr0, he⟩ := h
    right
    refine ⟨r0, hr0, ?_⟩
    split at he <;> rw [← he]

@[simp] theorem mkTag_static (sh : Shared) (t : Local) : (mkTag sh t).1.static = sh.static := by
  unfold mkTag; split <;> rfl
@[simp] theorem mkTag_dyn (sh : Shared) (t : Local) : (mkTag sh t).1.dyn = sh.dyn := by
  unfold mkTag; split <;> rfl
@[simp] theorem mkTag_refs (sh : Shared) (t : Local) : (mkTag sh t).1.refs = sh.refs := by
  unfold mkTag; split <;> rfl
theorem mkTag_local (sh : Shared) (t : Local) : ∃ b, (mkTag sh t).2 = { t with tagOwned := b } := by
  unfold mkTag; split
  · exact ⟨false, rfl⟩
  · exact ⟨true, rfl⟩

@[simp] theorem dropTag_static (sh : Shared) (t : Local) : (dropTag sh t).1.static = sh.static := by
  unfold dropTag; split <;> rfl
@[simp] theorem dropTag_dyn (sh : Shared) (t : Local) : (dropTag sh t).1.dyn = sh.dyn := by
  unfold dropTag; split <;> rfl
@[simp] theorem dropTag_refs (sh : Shared) (t : Local) : (dropTag sh t).1.refs = sh.refs := by
  unfold dropTag; split <;> rfl
theorem dropTag_local (sh : Shared) (t : Local) : (dropTag sh t).2 = { t with tagOwned := false } := by
  unfold dropTag; split
  · rfl
  · rename_i h
    cases t
    simp at h
    simp [h]

@[simp] theorem mkTag_id (sh : Shared) (t : Local) : (mkTag sh t).2.id = t.id := by
  obtain ⟨b, hb⟩ := mkTag_local sh t; rw [hb]
@[simp] theorem dropTag_id (sh : Shared) (t : Local) : (dropTag sh t).2.id = t.id := by
  rw [dropTag_local]
@[simp] theorem mkTag_node (sh : Shared) (t : Local) : (mkTag sh t).2.node = t.node := by
  obtain ⟨b, hb⟩ := mkTag_local sh t; rw [hb]
@[simp] theorem dropTag_node (sh : Shared) (t : Local) : (dropTag sh t).2.node = t.node := by
  rw [dropTag_local]
@[simp] theorem mkTag_role (sh : Shared) (t : Local) : (mkTag sh t).2.role = t.role := by
  obtain ⟨b, hb⟩ := mkTag_local sh t; rw [hb]
@[simp] theorem dropTag_role (sh : Shared) (t : Local) : (dropTag sh t).2.role = t.role := by
  rw [dropTag_local]
@[simp] theorem mkTag_compatible (sh : Shared) (t : Local) : (mkTag sh t).2.compatible = t.compatible := by
  obtain ⟨b, hb⟩ := mkTag_local sh t; rw [hb]
@[simp] theorem dropTag_compatible (sh : Shared) (t : Local) : (dropTag sh t).2.compatible = t.compatible := by
  rw [dropTag_local]
@[simp] theorem mkTag_pc (sh : Shared) (t : Local) : (mkTag sh t).2.pc = t.pc := by
  obtain ⟨b, hb⟩ := mkTag_local sh t; rw [hb]
@[simp] theorem dropTag_pc (sh : Shared) (t : Local) : (dropTag sh t).2.pc = t.pc := by
  rw [dropTag_local]
@[simp] theorem mkTag_budget (sh : Shared) (t : Local) : (mkTag sh t).2.budget = t.budget := by
  obtain ⟨b, hb⟩ := mkTag_local sh t; rw [hb]
@[simp] theorem dropTag_budget (sh : Shared) (t : Local) : (dropTag sh t).2.budget = t.budget := by
  rw [dropTag_local]
@[simp] theorem mkTag_seen (sh : Shared) (t : Local) : (mkTag sh t).2.seen = t.seen := by
  obtain ⟨b, hb⟩ := mkTag_local sh t; rw [hb]
@[simp] theorem dropTag_seen (sh : Shared) (t : Local) : (dropTag sh t).2.seen = t.seen := by
  rw [dropTag_local]
@[simp] theorem mkTag_res (sh : Shared) (t : Local) : (mkTag sh t).2.res = t.res := by
  obtain ⟨b, hb⟩ := mkTag_local sh t; rw [hb]
@[simp] theorem dropTag_res (sh : Shared) (t : Local) : (dropTag sh t).2.res = t.res := by
  rw [dropTag_local]

theorem dynReady_congr {sh sh' : Shared} (h : sh'.dyn = sh.dyn) (o : Nat) : dynReady sh' o = dynReady sh o := by
  unfold dynReady; rw [h]

/-! ## decomposition of the invariant -/

/-- per-thread part that does not depend on the shared state -/
def TBase (i : Nat) (t : Local) : Prop :=
  t.id = i ∧ validPc t ∧ (t.res = none ↔ t.pc ≠ 99) ∧
    (t.role = .creator → ∀ o, t.res ≠ some (.opened o)) ∧ (t.role = .opener → t.res ≠ some .created)

/-- per-thread part of an opener; depends on the shared state monotonically -/
def TSeen (sh : Shared) (t : Local) : Prop :=
  t.role = .opener →
    ((∀ o, t.seen = some o → ∃ s, sh.static = some s ∧ s.owner = o ∧ s.written = true ∧ s.unlocked = true) ∧
     ((hasSeen t ∨ ∃ o, t.res = some (.opened o)) → t.seen.isSome) ∧
     (∀ o, t.res = some (.opened o) → t.seen = some o) ∧
     ((pastDyn t ∨ ∃ o, t.res = some (.opened o)) → dynReady sh (t.seen.getD 0) = true) ∧
     ((t.pc = 6 ∨ ∃ o, t.res = some (.opened o)) → ∃ d, sh.dyn = some d ∧ t.node ∈ d.regs)) ∧
    (t.pc = 2 → ∃ s, sh.static = some s ∧ s.unlocked = true)

def Global (sh : Shared) (th : List Local) : Prop :=
  (∀ s, sh.static = some s → ∃ t, th[s.owner]? = some t ∧ 3 ≤ stage t ∧
          s.written = decide (4 ≤ stage t) ∧ s.unlocked = decide (5 ≤ stage t)) ∧
  (∀ d, sh.dyn = some d → ∃ s t, sh.static = some s ∧ s.owner = d.owner ∧ th[d.owner]? = some t ∧
          6 ≤ stage t ∧ d.sized = decide (7 ≤ stage t) ∧ d.inited = decide (8 ≤ stage t) ∧
          d.versioned = decide (9 ≤ stage t) ∧ d.final = decide (10 ≤ stage t) ∧ (8 ≤ stage t → t.node ∈ d.regs)) ∧
  (∀ (i : Nat) (t : Local), th[i]? = some t → 3 ≤ stage t →
          (∃ s, sh.static = some s ∧ s.owner = i) ∧ (6 ≤ stage t → ∃ d, sh.dyn = some d ∧ d.owner = i))

def RefsReg (sh : Shared) : Prop := ∀ r, r ∈ sh.refs → ∃ d, sh.dyn = some d ∧ r.1 ∈ d.regs

theorem inv_iff (c : Cfg Shared Local) :
    Inv c ↔ (∀ i t, c.th[i]? = some t → TBase i t ∧ TSeen c.sh t) ∧ Global c.sh c.th ∧ RefsReg c.sh := by
  constructor
  · intro h
    refine ⟨fun i t ht => ⟨⟨h.ids i t ht, h.pcs i t ht⟩, fun hr => ⟨h.seen i t ht hr, h.atRead i t ht hr⟩⟩,
      ⟨h.owner, h.dynOwner, h.won⟩, h.refsReg⟩
  · rintro ⟨hT, ⟨h1, h2, h3⟩, hR⟩
    exact
      { ids := fun i t ht => (hT i t ht).1.1
        pcs := fun i t ht => (hT i t ht).1.2
        owner := h1
        dynOwner := h2
        won := h3
        seen := fun i t ht hr => ((hT i t ht).2 hr).1
        atRead := fun i t ht hr => ((hT i t ht).2 hr).2
        refsReg := hR }

theorem Inv.tbase {c : Cfg Shared Local} (h : Inv c) {i : Nat} {t : Local} (ht : c.th[i]? = some t) : TBase i t :=
  (((inv_iff c).mp h).1 i t ht).1

theorem Inv.tseen {c : Cfg Shared Local} (h : Inv c) {i : Nat} {t : Local} (ht : c.th[i]? = some t) : TSeen c.sh t :=
  (((inv_iff c).mp h).1 i t ht).2

theorem Inv.global {c : Cfg Shared Local} (h : Inv c) : Global c.sh c.th := ((inv_iff c).mp h).2.1

theorem tseen_creator {sh : Shared} {t : Local} (h : t.role = .creator) : TSeen sh t := by
  intro h2; rw [h] at h2; cases h2

/-- order on shared states under which the per-thread facts are preserved -/
def ShLe (sh sh' : Shared) : Prop :=
  (∀ s, sh.static = some s → ∃ s', sh'.static = some s' ∧ s'.owner = s.owner ∧
      (s.written = true → s'.written = true) ∧ (s.unlocked = true → s'.unlocked = true)) ∧
  (∀ d, sh.dyn = some d → ∃ d', sh'.dyn = some d' ∧ d'.owner = d.owner ∧ (d.final = true → d'.final = true) ∧
      ∀ n, n ∈ d.regs → n ∈ d'.regs)

theorem ShLe.of_eq {sh sh' : Shared} (h1 : sh'.static = sh.static) (h2 : sh'.dyn = sh.dyn) : ShLe sh sh' := by
  refine ⟨fun s hs => ⟨s, by rw [h1, hs], rfl, id, id⟩, fun d hd => ⟨d, by rw [h2, hd], rfl, id, fun _ => id⟩⟩

theorem ShLe.refl (sh : Shared) : ShLe sh sh := ShLe.of_eq rfl rfl

theorem ShLe.of_static {sh sh' : Shared} {s s' : Static} (hs : sh.static = some s) (hs' : sh'.static = some s')
    (ho : s'.owner = s.owner) (hw : s.written = true → s'.written = true)
    (hu : s.unlocked = true → s'.unlocked = true) (hd : sh'.dyn = sh.dyn) : ShLe sh sh' := by
  refine ⟨fun s0 hs0 => ?_, fun d hd0 => ⟨d, by rw [hd, hd0], rfl, id, fun _ => id⟩⟩
  rw [hs] at hs0; cases hs0
  exact ⟨s', hs', ho, hw, hu⟩

theorem ShLe.of_dyn {sh sh' : Shared} {d d' : Dyn} (hst : sh'.static = sh.static) (hd : sh.dyn = some d)
    (hd' : sh'.dyn = some d') (ho : d'.owner = d.owner) (hf : d.final = true → d'.final = true)
    (hr : ∀ n, n ∈ d.regs → n ∈ d'.regs) : ShLe sh sh' := by
  refine ⟨fun s hs => ⟨s, by rw [hst, hs], rfl, id, id⟩, fun d0 hd0 => ?_⟩
  rw [hd] at hd0; cases hd0
  exact ⟨d', hd', ho, hf, hr⟩

theorem ShLe.of_none {sh sh' : Shared} (hs : sh.static = none) (hd : sh.dyn = none) : ShLe sh sh' := by
  refine ⟨fun s hs0 => ?_, fun d hd0 => ?_⟩
  · rw [hs] at hs0; cases hs0
  · rw [hd] at hd0; cases hd0

theorem ShLe.of_none_dyn {sh sh' : Shared} (hst : sh'.static = sh.static) (hd : sh.dyn = none) : ShLe sh sh' := by
  refine ⟨fun s hs => ⟨s, by rw [hst, hs], rfl, id, id⟩, fun d0 hd0 => ?_⟩
  rw [hd] at hd0; cases hd0

theorem dynReady_mono {sh sh' : Shared} (h : ShLe sh sh') (o : Nat) (hr : dynReady sh o = true) :
    dynReady sh' o = true := by
  unfold dynReady at hr ⊢
  cases hd : sh.dyn with
  | none => rw [hd] at hr; cases hr
  | some d =>
    rw [hd] at hr
    obtain ⟨d', hd', ho, hf, _⟩ := h.2 d hd
    rw [hd']
    simp only [Bool.and_eq_true, beq_iff_eq] at hr ⊢
    exact ⟨by rw [ho]; exact hr.1, hf hr.2⟩

theorem TSeen.mono {sh sh' : Shared} {t : Local} (h : TSeen sh t) (hle : ShLe sh sh') : TSeen sh' t := by
  intro hr
  obtain ⟨⟨a, b, c, d, e⟩, f⟩ := h hr
  refine ⟨⟨?_, b, c, ?_, ?_⟩, ?_⟩
  · intro o ho
    obtain ⟨s, hs, hso, hw, hu⟩ := a o ho
    obtain ⟨s', hs', hso', hw', hu'⟩ := hle.1 s hs
    exact ⟨s', hs', by rw [hso', hso], hw' hw, hu' hu⟩
  · intro hp
    exact dynReady_mono hle _ (d hp)
  · intro hp
    obtain ⟨d0, hd0, hn⟩ := e hp
    obtain ⟨d', hd', _, _, hreg⟩ := hle.2 d0 hd0
    exact ⟨d', hd', hreg _ hn⟩
  · intro hp
    obtain ⟨s, hs, hu⟩ := f hp
    obtain ⟨s', hs', _, _, hu'⟩ := hle.1 s hs
    exact ⟨s', hs', hu' hu⟩

theorem RefsReg.mono {sh sh' : Shared} (h : RefsReg sh) (hle : ShLe sh sh') (hr : sh'.refs = sh.refs) : RefsReg sh' := by
  intro r hm
  rw [hr] at hm
  obtain ⟨d, hd, hn⟩ := h r hm
  obtain ⟨d', hd', _, _, hreg⟩ := hle.2 d hd
  exact ⟨d', hd', hreg _ hn⟩

theorem RefsReg.incRef {sh : Shared} (h : RefsReg sh) (n : Nat) (hn : ∃ d, sh.dyn = some d ∧ n ∈ d.regs) :
    RefsReg (incRef sh n) := by
  intro r hm
  rw [incRef_dyn]
  rcases incRef_refs_fst sh n r hm with h1 | ⟨r0, hr0, he⟩
  · rw [h1]; exact hn
  · rw [← he]; exact h r0 hr0

/-- assembling the invariant after a step of thread `i` -/
theorem inv_of_parts {c : Cfg Shared Local} {i : Nat} {t t' : Local} {sh' : Shared}
    (h : Inv c) (ht : c.th[i]? = some t)
    (hB : TBase i t') (hS : TSeen sh' t') (hle : ShLe c.sh sh')
    (hG : Global sh' (c.th.set i t')) (hR : RefsReg sh') :
    Inv { sh := sh', th := c.th.set i t' } := by
  rw [inv_iff]
  refine ⟨?_, hG, hR⟩
  intro j tj hj
  simp only [getElem?_set_of_some t' ht] at hj
  by_cases hji : j = i
  · simp only [hji, if_true, Option.some.injEq] at hj
    subst hj
    subst hji
    exact ⟨hB, hS⟩
  · simp only [hji, if_false] at hj
    exact ⟨h.tbase hj, (h.tseen hj).mono hle⟩

/-! ## views of the owner -/

theorem Inv.ownerView {c : Cfg Shared Local} (h : Inv c) {i : Nat} {t : Local} (ht : c.th[i]? = some t)
    (h3 : 3 ≤ stage t) :
    ∃ s, c.sh.static = some s ∧ s.owner = i ∧ s.written = decide (4 ≤ stage t) ∧
      s.unlocked = decide (5 ≤ stage t) := by
  obtain ⟨⟨s, hs, hso⟩, _⟩ := h.won i t ht h3
  obtain ⟨t2, ht2, _, hw, hu⟩ := h.owner s hs
  rw [hso, ht] at ht2
  cases ht2
  exact ⟨s, hs, hso, hw, hu⟩

theorem Inv.dynView {c : Cfg Shared Local} (h : Inv c) {i : Nat} {t : Local} (ht : c.th[i]? = some t)
    (h6 : 6 ≤ stage t) :
    ∃ d, c.sh.dyn = some d ∧ d.owner = i ∧ d.sized = decide (7 ≤ stage t) ∧ d.inited = decide (8 ≤ stage t) ∧
      d.versioned = decide (9 ≤ stage t) ∧ d.final = decide (10 ≤ stage t) ∧ (8 ≤ stage t → t.node ∈ d.regs) := by
  obtain ⟨_, hd⟩ := h.won i t ht (by omega)
  obtain ⟨d, hd, hdo⟩ := hd h6
  obtain ⟨s, t2, _, _, ht2, _, h1, h2, h3, h4, h5⟩ := h.dynOwner d hd
  rw [hdo, ht] at ht2
  cases ht2
  exact ⟨d, hd, hdo, h1, h2, h3, h4, h5⟩

/-- only one thread is past the O_EXCL -/
theorem Inv.unique {c : Cfg Shared Local} (h : Inv c) {i j : Nat} {t tj : Local} (ht : c.th[i]? = some t)
    (h3 : 3 ≤ stage t) (htj : c.th[j]? = some tj) (hj : 3 ≤ stage tj) : j = i := by
  obtain ⟨⟨s, hs, hso⟩, _⟩ := h.won i t ht h3
  obtain ⟨⟨s2, hs2, hso2⟩, _⟩ := h.won j tj htj hj
  rw [hs] at hs2
  cases hs2
  rw [← hso, ← hso2]

/-! ## the global part after a step -/

/-- a step of a thread that is and stays before the O_EXCL (or is an opener), not touching the flags -/
theorem global_frame {sh sh' : Shared} {th : List Local} {i : Nat} {t t' : Local}
    (hG : Global sh th) (ht : th[i]? = some t) (h0 : stage t < 3) (h0' : stage t' < 3)
    (hst : sh'.static = sh.static)
    (hd : sh'.dyn = sh.dyn ∨ ∃ d n, sh.dyn = some d ∧ sh'.dyn = some { d with regs := n :: d.regs }) :
    Global sh' (th.set i t') := by
  obtain ⟨g1, g2, g3⟩ := hG
  have hget : ∀ (j : Nat) (tj : Local), th[j]? = some tj → 3 ≤ stage tj → (th.set i t')[j]? = some tj := by
    intro j tj hj h3
    rw [getElem?_set_of_some t' ht]
    by_cases hji : j = i
    · subst hji; rw [ht] at hj; cases hj; omega
    · simp [hji, hj]
  have hget' : ∀ (j : Nat) (tj : Local), (th.set i t')[j]? = some tj → 3 ≤ stage tj → th[j]? = some tj := by
    intro j tj hj h3
    rw [getElem?_set_of_some t' ht] at hj
    by_cases hji : j = i
    · simp only [hji, if_true, Option.some.injEq] at hj; subst hj; omega
    · simpa [hji] using hj
  refine ⟨?_, ?_, ?_⟩
  · intro s hs
    rw [hst] at hs
    obtain ⟨t2, ht2, h3, hw, hu⟩ := g1 s hs
    exact ⟨t2, hget _ _ ht2 h3, h3, hw, hu⟩
  · intro d' hd'
    rcases hd with hd | ⟨d, n, hd0, hd1⟩
    · rw [hd] at hd'
      obtain ⟨s, t2, hs, hso, ht2, h6, r⟩ := g2 d' hd'
      exact ⟨s, t2, by rw [hst]; exact hs, hso, hget _ _ ht2 (by omega), h6, r⟩
    · rw [hd1] at hd'
      cases hd'
      obtain ⟨s, t2, hs, hso, ht2, h6, r1, r2, r3, r4, r5⟩ := g2 d hd0
      refine ⟨s, t2, by rw [hst]; exact hs, hso, hget _ _ ht2 (by omega), h6, r1, r2, r3, r4, ?_⟩
      intro h8
      exact List.mem_cons_of_mem _ (r5 h8)
  · intro j tj hj h3
    have hj' := hget' j tj hj h3
    obtain ⟨a, b⟩ := g3 j tj hj' h3
    refine ⟨by rw [hst]; exact a, ?_⟩
    intro h6
    obtain ⟨d, hd0, hdo⟩ := b h6
    rcases hd with hd | ⟨d2, n, hd2, hd1⟩
    · exact ⟨d, by rw [hd]; exact hd0, hdo⟩
    · rw [hd0] at hd2
      cases hd2
      exact ⟨_, hd1, hdo⟩

/-- a step of the thread that is (afterwards) the owner -/
theorem global_owner {sh' : Shared} {th : List Local} {i : Nat} {t t' : Local}
    (ht : th[i]? = some t) (hothers : ∀ (j : Nat) (tj : Local), th[j]? = some tj → j ≠ i → stage tj < 3)
    (s' : Static) (hs : sh'.static = some s') (hso : s'.owner = i) (h3 : 3 ≤ stage t')
    (hw : s'.written = decide (4 ≤ stage t')) (hu : s'.unlocked = decide (5 ≤ stage t'))
    (hd : ∀ d', sh'.dyn = some d' → d'.owner = i ∧ 6 ≤ stage t' ∧ d'.sized = decide (7 ≤ stage t') ∧
      d'.inited = decide (8 ≤ stage t') ∧ d'.versioned = decide (9 ≤ stage t') ∧
      d'.final = decide (10 ≤ stage t') ∧ (8 ≤ stage t' → t'.node ∈ d'.regs))
    (hd2 : 6 ≤ stage t' → ∃ d', sh'.dyn = some d') :
    Global sh' (th.set i t') := by
  have hi : (th.set i t')[i]? = some t' := by rw [getElem?_set_of_some t' ht]; simp
  refine ⟨?_, ?_, ?_⟩
  · intro s hs2
    rw [hs] at hs2
    cases hs2
    exact ⟨t', by rw [hso]; exact hi, h3, hw, hu⟩
  · intro d' hd'
    obtain ⟨a, b⟩ := hd d' hd'
    exact ⟨s', t', hs, by rw [hso, a], by rw [a]; exact hi, b⟩
  · intro j tj hj h3j
    rw [getElem?_set_of_some t' ht] at hj
    by_cases hji : j = i
    · subst hji
      refine ⟨⟨s', hs, hso⟩, ?_⟩
      simp only [if_true, Option.some.injEq] at hj
      subst hj
      intro h6
      obtain ⟨d', hd'⟩ := hd2 h6
      exact ⟨d', hd', (hd d' hd').1⟩
    · simp only [hji, if_false] at hj
      have := hothers j tj hj hji
      omega

theorem Inv.refsReg' {c : Cfg Shared Local} (h : Inv c) : RefsReg c.sh := h.refsReg

/-- no static config: nobody is past the O_EXCL, no dynamic config -/
theorem Inv.static_none {c : Cfg Shared Local} (h : Inv c) (hs : c.sh.static = none) :
    c.sh.dyn = none ∧ ∀ (j : Nat) (tj : Local), c.th[j]? = some tj → stage tj < 3 := by
  constructor
  · cases hd : c.sh.dyn with
    | none => rfl
    | some d =>
      obtain ⟨s, _, hs', _⟩ := h.dynOwner d hd
      rw [hs] at hs'; cases hs'
  · intro j tj hj
    refine Nat.lt_of_not_le (fun hn => ?_)
    obtain ⟨⟨s, hs', _⟩, _⟩ := h.won j tj hj hn
    rw [hs] at hs'; cases hs'

/-- the owner before the shm creation: no dynamic config -/
theorem Inv.dyn_none {c : Cfg Shared Local} (h : Inv c) {i : Nat} {t : Local} (ht : c.th[i]? = some t)
    (h3 : 3 ≤ stage t) (h6 : stage t < 6) : c.sh.dyn = none := by
  cases hd : c.sh.dyn with
  | none => rfl
  | some d =>
    obtain ⟨s, t2, _, _, ht2, h62, _⟩ := h.dynOwner d hd
    have := h.unique ht h3 ht2 (by omega)
    rw [this, ht] at ht2
    cases ht2
    omega

theorem Inv.others {c : Cfg Shared Local} (h : Inv c) {i : Nat} {t : Local} (ht : c.th[i]? = some t)
    (h3 : 3 ≤ stage t) : ∀ (j : Nat) (tj : Local), c.th[j]? = some tj → j ≠ i → stage tj < 3 := by
  intro j tj hj hji
  refine Nat.lt_of_not_le (fun hn => ?_)
  exact hji (h.unique ht h3 hj hn)

/-- a step that touches neither the static nor the dynamic config, by a thread that is not the owner -/
theorem frame_step {c : Cfg Shared Local} {i : Nat} {t t' : Local} {sh' : Shared}
    (h : Inv c) (ht : c.th[i]? = some t) (hB : TBase i t') (hS : TSeen sh' t')
    (h0 : stage t < 3) (h0' : stage t' < 3)
    (hst : sh'.static = c.sh.static) (hd : sh'.dyn = c.sh.dyn) (hr : sh'.refs = c.sh.refs) :
    Inv { sh := sh', th := c.th.set i t' } :=
  inv_of_parts h ht hB hS (ShLe.of_eq hst hd) (global_frame h.global ht h0 h0' hst (Or.inl hd))
    (h.refsReg'.mono (ShLe.of_eq hst hd) hr)

/-- `inv_of_parts` for a step that does not touch the reference counts -/
theorem inv_of_parts' {c : Cfg Shared Local} {i : Nat} {t t' : Local} {sh' : Shared}
    (h : Inv c) (ht : c.th[i]? = some t)
    (hB : TBase i t') (hS : TSeen sh' t') (hle : ShLe c.sh sh')
    (hG : Global sh' (c.th.set i t')) (hr : sh'.refs = c.sh.refs) :
    Inv { sh := sh', th := c.th.set i t' } :=
  inv_of_parts h ht hB hS hle hG (h.refsReg'.mono hle hr)

end Iox2.ServiceLifeConc
