/-
C08 helper: `csub` and the step theorem (every operation preserves the invariant).
-/
import Iox2.Proof.PubSubC08OpD
set_option linter.unusedSimpArgs false
set_option linter.unusedVariables false
namespace Iox2.PubSub.C08
open Iox2.PubSub
open Iox2.C16.SlotMapP (abs)
attribute [-simp] List.getD_eq_getElem?_getD

theorem step_csub {cfg : Cfg} (hc : cfg.Sane) {w : World} (h : Inv cfg w) (s : Nat) (b hh : Option Nat) :
    Inv cfg (step w (.csub s b hh)).1 ∧
    (w.panicked = false → (step w (.csub s b hh)).1.panicked = false) := by
  rw [step_csub_eq]
  cases hs : getS w s with
  | some S => exact ⟨h, fun hp => hp⟩
  | none =>
    simp only [Option.isSome_none, Bool.false_eq_true, if_false]
    have hcfg := h.r.cfgEq
    obtain ⟨_, _, hbm, _, _⟩ := hc
    have key : ∀ buffer, 1 ≤ buffer → buffer ≤ cfg.bufMax →
        Inv cfg (match (match hh with
               | some h => if h > w.cfg.hist then Except.error "err:HistoryRequestExceedsHistorySizeOfService"
                           else if h > buffer then Except.error "err:HistoryRequestExceedsBufferSizeOfSubscriber"
                           else Except.ok h
               | none => Except.ok (min w.cfg.hist buffer)) with
        | .error e => (w, e)
        | .ok histReq => csubCore w s buffer histReq).1 ∧
        (w.panicked = false → (match (match hh with
               | some h => if h > w.cfg.hist then Except.error "err:HistoryRequestExceedsHistorySizeOfService"
                           else if h > buffer then Except.error "err:HistoryRequestExceedsBufferSizeOfSubscriber"
                           else Except.ok h
               | none => Except.ok (min w.cfg.hist buffer)) with
        | .error e => (w, e)
        | .ok histReq => csubCore w s buffer histReq).1.panicked = false) := by
      intro buffer hb1 hbM
      split
      · exact ⟨h, fun hp => hp⟩
      next histReq _ =>
        obtain ⟨a1, a2, _⟩ := csubCore_spec h s buffer histReq hs hb1 hbM
        exact ⟨a1, a2⟩
    cases b with
    | none =>
      dsimp only
      exact key w.cfg.bufMax (by rw [hcfg]; exact hbm) (by rw [hcfg]; exact Nat.le_refl _)
    | some b' =>
      dsimp only
      split
      · exact ⟨h, fun hp => hp⟩
      next buffer heq =>
        split at heq
        · cases heq
        next hlt =>
          cases heq
          refine key (clamp1 b') ?_ ?_
          · unfold clamp1; split <;> omega
          · unfold clamp1; rw [hcfg] at hlt; split <;> omega

theorem step_csub_default {cfg : Cfg} (hc : cfg.Sane) {w : World} (h : Inv cfg w) (s : Nat)
    (hs : getS w s = none) (hnp : w.panicked = false) :
    ((step w (.csub s none none)).2 = "ok" ↔ liveCnt w.subReg.slots < cfg.maxSubs) ∧
    ((step w (.csub s none none)).2 ≠ "ok" →
      (step w (.csub s none none)).2 = "err:ExceedsMaxSupportedSubscribers" ∧
      (step w (.csub s none none)).1 = w) := by
  rw [step_csub_eq, hs]
  simp only [Option.isSome_none, Bool.false_eq_true, if_false]
  obtain ⟨_, _, hbm, _, _⟩ := hc
  have hcfg := h.r.cfgEq
  exact (csubCore_spec h s w.cfg.bufMax (min w.cfg.hist w.cfg.bufMax) hs (by rw [hcfg]; exact hbm)
    (by rw [hcfg]; exact Nat.le_refl _)).2.2 hnp

/-- every API operation preserves the invariant, whether it panics or not -/
theorem step_inv {cfg : Cfg} (hc : cfg.Sane) {w : World} (h : Inv cfg w) (op : Op) : Inv cfg (step w op).1 := by
  cases op with
  | cpub p ml => exact (step_cpub h p ml).1
  | dpub p => exact (step_dpub h p).1
  | csub s b hh => exact (step_csub hc h s b hh).1
  | dsub s => exact (step_dsub h s).1
  | loan p l => exact (step_loan hc.2.2.2.2.2 h p l).1
  | send p l tag => exact (step_send h p l tag).1
  | dloan p l => exact (step_dloan h p l).1
  | recv s => exact (step_recv h s).1
  | dsample s k => exact (step_dsample h s k).1
  | updP p => exact (step_updP h p).1
  | updS s => exact (step_updS h s).1
  | has s => exact (step_has h s).1
  | probe p => exact (step_probe hc.2.2.2.2.2 h p).1

theorem inv_init (cfg : Cfg) : Inv cfg (World.init cfg) := by
  refine ⟨⟨rfl, by simp [World.init, Reg.init], by simp [World.init, Reg.init], ?_, ?_, ?_, ?_⟩, ?_, ?_, ?_, ?_⟩
  · intro i p hi
    simp [World.init, Reg.init, List.getElem?_replicate] at hi
  · intro p P hP; simp [World.init, getP] at hP
  · intro i e hi
    simp [World.init, Reg.init, List.getElem?_replicate] at hi
  · intro s S hS; simp [World.init, getS] at hS
  · intro p s c hc; simp [World.init, getC] at hc
  · intro p P hP; simp [World.init, getP] at hP
  · intro s S hS; simp [World.init, getS] at hS
  · simp [ConnsUniq, World.init]

theorem reach_inv {cfg : Cfg} (hc : cfg.Sane) {w : World} (h : Reach cfg w) : Inv cfg w := by
  induction h with
  | init => exact inv_init cfg
  | step op _ _ ih => exact step_inv hc ih op

/-- no operation panics from a disciplined state -/
theorem step_no_panic {cfg : Cfg} (hc : cfg.Sane) {w : World} (h : Inv cfg w) (hnp : w.panicked = false)
    (hd : ∀ s S, getS w s = some S → S.held.length ≤ cfg.borrowMax) (op : Op) :
    (step w op).1.panicked = false := by
  cases op with
  | cpub p ml => exact (step_cpub h p ml).2.1 hnp
  | dpub p => rw [(step_dpub h p).2]; exact hnp
  | csub s b hh => exact (step_csub hc h s b hh).2 hnp
  | dsub s => rw [(step_dsub h s).2]; exact hnp
  | loan p l => exact (step_loan hc.2.2.2.2.2 h p l).2.2.1 hnp
  | send p l tag => rw [(step_send h p l tag).2]; exact hnp
  | dloan p l => rw [(step_dloan h p l).2]; exact hnp
  | recv s => exact (step_recv h s).2 hnp (hd s)
  | dsample s k => rw [(step_dsample h s k).2]; exact hnp
  | updP p => exact (step_updP h p).2 hnp
  | updS s => exact (step_updS h s).2 hnp (hd s)
  | has s => exact (step_has h s).2 hnp (hd s)
  | probe p => rw [(step_probe hc.2.2.2.2.2 h p).2.1]; exact hnp

end Iox2.PubSub.C08
