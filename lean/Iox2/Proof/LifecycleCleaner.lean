/-
A step of a cleaner (`Node::list`, then `remove_stale_resources` of the node if it was reported dead) keeps the
invariant and its guarantee; it never touches the ghost state.
-/
import Iox2.Proof.LifecycleMonitor
namespace Iox2.Lifecycle

theorem L.ofCleaner {fs : FS} {t : Th} (hr : t.role = .cleaner) (hp : t.pid ≠ 0)
    (qFinal : ((4 ≤ t.pc ∧ t.pc ≤ 10) ∨ (13 ≤ t.pc ∧ t.pc ≤ 19)) → 17 ≤ fs.opc)
    (qOl : (t.pc = 9 ∨ t.pc = 18) → fs.ol.linked = false)
    (rawErr : t.raw ≠ some .corrupted ∧ t.raw ≠ some .ctxUnreadable)
    (cDead : 11 ≤ t.pc → t.pc ≤ 43 → 17 ≤ fs.opc ∧ (fs.odead = false → 25 ≤ fs.opc))
    (cOwnerDead : (t.pc = 19 ∨ (20 ≤ t.pc ∧ t.pc ≤ 43)) → fs.odead = true)
    (cHolds : ((25 ≤ t.pc ∧ t.pc ≤ 36) ∨ (40 ≤ t.pc ∧ t.pc ≤ 41)) → fs.ol.lock = some t.pid)
    (cStGone : 33 ≤ t.pc → t.pc ≤ 39 → fs.st.linked = false)
    (cNoPanic : t.res ≠ some .panicStillAlive) (cOk : t.res = some .ok → fs.odead = true) : L fs t := by
  have hno : t.role ≠ .owner := by rw [hr]; decide
  have hnm : t.role ≠ .monitor := by rw [hr]; decide
  exact ⟨⟨fun h => absurd h hno, fun h => absurd h hp⟩, fun h => absurd h hno, fun h => absurd h hno,
    fun _ => qFinal, fun _ => qOl, fun h => absurd h hnm, fun h => absurd h hnm, rawErr, fun h => absurd h hnm,
    fun _ => cDead, fun _ => cOwnerDead, fun _ => cHolds, fun _ => cStGone, cNoPanic, cOk⟩

theorem cleanerNorm_pid (t : Th) : (cleanerNorm t).pid = t.pid := by
  unfold cleanerNorm; simp only []; repeat' split
  all_goals rfl
theorem cleanerNorm_role (t : Th) : (cleanerNorm t).role = t.role := by
  unfold cleanerNorm; simp only []; repeat' split
  all_goals rfl
theorem cleanerNorm_raw (t : Th) : (cleanerNorm t).raw = t.raw := by
  unfold cleanerNorm; simp only []; repeat' split
  all_goals rfl
theorem cleanerNorm_res (t : Th) : (cleanerNorm t).res = t.res := by
  unfold cleanerNorm; simp only []; repeat' split
  all_goals rfl

theorem cleanerNorm_pc (t : Th) :
    (t.pc = 27 → (cleanerNorm t).pc = 27 ∨ (cleanerNorm t).pc = 28) ∧
    (t.pc = 29 → (cleanerNorm t).pc = 29 ∨ (cleanerNorm t).pc = 30) := by
  unfold cleanerNorm
  simp only []
  refine ⟨?_, ?_⟩ <;> intro h <;> repeat' split
  all_goals simp_all

theorem cleanerRefusal_ne_ok (v : PState) : cleanerRefusal v ≠ some .ok := by
  cases v <;> simp [cleanerRefusal]

theorem cleanerRefusal_none {v : PState} (h : cleanerRefusal v = none) : v = .dead := by
  cases v <;> simp [cleanerRefusal] at h ⊢

theorem cleanerRefusal_panic {v : PState} (h : cleanerRefusal v = some .panicStillAlive) : v = .alive := by
  cases v <;> simp [cleanerRefusal] at h ⊢

theorem calOf_dead {v : PState} (h : calOf v = .dead) : v = .dead ∨ v = .cleaningUp := by
  cases v <;> simp [calOf] at h ⊢

end Iox2.Lifecycle
