/-
Second part of the state invariant of the request-response model: the ghost logs (responses received
through a pending response, requests handed out by a server), the order of the request queues and
the server registry.  `InvX` is a field of `Inv` (ReqResInv.lean); this file has its transfer lemmas.

Request ids are assigned when a request is LOANED, send numbers (`Msg.gSeq` of a request, ghost) when it is
SENT; loans may be sent in any order.  The order statements are therefore about send numbers (`InvC` with
`<` on `gSeq` and the log `gRecvSeq`), the identity statements about request ids (`InvC` with `≠` on `rid`
and the log `gRecvReq`).
-/
import Iox2.Proof.ReqResFrame
namespace Iox2.ReqRes
open Iox2.PubSub (Reg firstFree)

/-- request queues and hand-out logs with respect to a key of the request (`key`), a relation between
keys (`R`) and the log of the keys a server handed out (`log`) -/
structure InvC (R : Nat → Nat → Prop) (key : Msg → Nat) (log : Server → List (Nat × Nat)) (w : World) : Prop where
  /-- the keys a server handed out for one client are pairwise related, in hand-out order -/
  c1 : ∀ s V c, getSv w s = some V → (((log V).filter (fun e => e.1 = c)).map (·.2)).Pairwise R
  /-- request queues are pairwise related, in queue order -/
  c2 : ∀ (f t : Pid) (conn : Conn) (ch : Nat) (x : Chan), getConn w f t = some conn → conn.chans[ch]? = some x →
        t.srv = true → (x.sub.map (fun e => key e.msg)).Pairwise R
  /-- what a server handed out is related to everything still queued for it by that client -/
  c3 : ∀ s V c v (conn : Conn) (x : Chan) (e : Entry), getSv w s = some V → (c, v) ∈ log V →
        getConn w (cid c) (sid s) = some conn → conn.chans[0]? = some x → e ∈ x.sub → R v (key e.msg)

namespace InvC
variable {R : Nat → Nat → Prop} {key : Msg → Nat} {log : Server → List (Nat × Nat)}

/-- servers stay, queues shrink to suffixes or are empty -/
theorem of_shrink {w w' : World} (hI : InvC R key log w) (hsv : ∀ s, getSv w' s = getSv w s)
    (hconn : ∀ (f t : Pid) (c' : Conn) (ch : Nat) (x' : Chan), getConn w' f t = some c' → c'.chans[ch]? = some x' →
      (∃ c x, getConn w f t = some c ∧ c.chans[ch]? = some x ∧ x'.sub <:+ x.sub) ∨ x'.sub = []) : InvC R key log w' := by
  refine ⟨?_, ?_, ?_⟩
  · intro s V c hV; rw [hsv] at hV; exact hI.c1 s V c hV
  · intro f t conn ch x hc hx ht
    rcases hconn f t conn ch x hc hx with ⟨c0, x0, hc0, hx0, hsub⟩ | hnil
    · exact (hI.c2 f t c0 ch x0 hc0 hx0 ht).sublist (hsub.sublist.map _)
    · rw [hnil]; exact List.Pairwise.nil
  · intro s V c v conn x e hV hv hc hx he
    rw [hsv] at hV
    rcases hconn _ _ conn 0 x hc hx with ⟨c0, x0, hc0, hx0, hsub⟩ | hnil
    · exact hI.c3 s V c v c0 x0 e hV hv hc0 hx0 (hsub.subset he)
    · rw [hnil] at he; cases he

/-- everything the statements look at stays -/
theorem of_same {w w' : World} (hI : InvC R key log w) (hsv : ∀ s, getSv w' s = getSv w s)
    (hco : ∀ f t, getConn w' f t = getConn w f t) : InvC R key log w' :=
  hI.of_shrink hsv (fun f t c' ch x' hc hx => Or.inl ⟨c', x', by rw [← hco]; exact hc, hx, List.suffix_refl _⟩)

theorem hk {w w' : World} {me : Pid} (hI : InvC R key log w) (h : Hk me w w') : InvC R key log w' := by
  refine hI.of_shrink h.getSv_eq ?_
  intro f t c' ch x' hc hx
  rcases h.conns f t c' hc with ⟨c, hc0, l⟩ | fr
  · obtain ⟨x, hx0, l0⟩ := l.1 ch x' hx
    exact Or.inl ⟨c, x, hc0, hx0, l0.2⟩
  · exact Or.inr (fr ch x' hx).1

/-- a server record is written, its log stays -/
theorem setSv {w w' : World} (hI : InvC R key log w) {s : Nat} {V V' : Server} (hV : getSv w s = some V)
    (hsv : ∀ s', getSv w' s' = if s' = s then some V' else getSv w s') (hco : ∀ f t, getConn w' f t = getConn w f t)
    (hlog : log V' = log V) : InvC R key log w' := by
  refine ⟨?_, ?_, ?_⟩
  · intro s' X c hX
    rw [hsv] at hX; split at hX
    · next hss => cases hX; subst hss; rw [hlog]; exact hI.c1 s' V c hV
    · exact hI.c1 s' X c hX
  · intro f t conn ch x hc; rw [hco] at hc; exact hI.c2 f t conn ch x hc
  · intro s' X c v conn x e hX hv hc hx he
    rw [hco] at hc
    rw [hsv] at hX; split at hX
    · next hss => cases hX; subst hss; rw [hlog] at hv; exact hI.c3 s' V c v conn x e hV hv hc hx he
    · exact hI.c3 s' X c v conn x e hX hv hc hx he

/-- a server record with an empty log appears -/
theorem setSvNew {w w' : World} (hI : InvC R key log w) {s : Nat} {V' : Server}
    (hsv : ∀ s', getSv w' s' = if s' = s then some V' else getSv w s') (hco : ∀ f t, getConn w' f t = getConn w f t)
    (hlog : log V' = []) : InvC R key log w' := by
  refine ⟨?_, ?_, ?_⟩
  · intro s' X c hX
    rw [hsv] at hX; split at hX
    · cases hX; rw [hlog]; exact List.Pairwise.nil
    · exact hI.c1 s' X c hX
  · intro f t conn ch x hc; rw [hco] at hc; exact hI.c2 f t conn ch x hc
  · intro s' X c v conn x e hX hv hc hx he
    rw [hco] at hc
    rw [hsv] at hX; split at hX
    · cases hX; rw [hlog] at hv; cases hv
    · exact hI.c3 s' X c v conn x e hX hv hc hx he

/-- a server hands out the request with key `v` of client `c` -/
theorem setSv_log {w w' : World} (hI : InvC R key log w) {s : Nat} {V V' : Server} (hV : getSv w s = some V)
    (hsv : ∀ s', getSv w' s' = if s' = s then some V' else getSv w s') (hco : ∀ f t, getConn w' f t = getConn w f t)
    {c v : Nat} (hlog : log V' = log V ++ [(c, v)])
    (h1 : ∀ v', (c, v') ∈ log V → R v' v)
    (h3 : ∀ (conn : Conn) (x : Chan) (e : Entry), getConn w (cid c) (sid s) = some conn → conn.chans[0]? = some x →
      e ∈ x.sub → R v (key e.msg)) : InvC R key log w' := by
  refine ⟨?_, ?_, ?_⟩
  · intro s' X c' hX
    rw [hsv] at hX; split at hX
    · next hss =>
      cases hX; subst hss
      rw [hlog, List.filter_append, List.map_append, List.pairwise_append]
      refine ⟨hI.c1 s' V c' hV, ?_, ?_⟩
      · simp only [List.filter_cons, List.filter_nil]
        split <;> simp
      · intro a ha b hb
        simp only [List.filter_cons, List.filter_nil] at hb
        split at hb
        · next hcc =>
          simp only [decide_eq_true_eq] at hcc
          simp only [List.map_cons, List.map_nil, List.mem_singleton] at hb
          subst hb
          obtain ⟨⟨c0, v0⟩, hmem, rfl⟩ := List.mem_map.mp ha
          obtain ⟨hm1, hm2⟩ := List.mem_filter.mp hmem
          simp only [decide_eq_true_eq] at hm2
          have e1 : c0 = c' := hm2
          have e2 : c = c' := hcc
          exact h1 v0 (by rw [e2, ← e1]; exact hm1)
        · simp at hb
    · exact hI.c1 s' X c' hX
  · intro f t conn ch x hc; rw [hco] at hc; exact hI.c2 f t conn ch x hc
  · intro s' X c' v' conn x e hX hv hc hx he
    rw [hco] at hc
    rw [hsv] at hX; split at hX
    · next hss =>
      cases hX; subst hss
      rw [hlog] at hv
      rcases List.mem_append.mp hv with hv | hv
      · exact hI.c3 s' V c' v' conn x e hV hv hc hx he
      · simp only [List.mem_singleton, Prod.mk.injEq] at hv
        obtain ⟨rfl, rfl⟩ := hv
        exact h3 conn x e hc hx he
    · exact hI.c3 s' X c' v' conn x e hX hv hc hx he

theorem mapChanAt {w : World} (hI : InvC R key log w) (f t : Pid) (ch : Nat) (g : Chan → Chan) (hg : ∀ x, (g x).sub = x.sub) :
    InvC R key log (ReqRes.mapChanAt w f t ch g) := by
  refine hI.of_shrink (fun s => getSv_mapChanAt w f t ch g s) ?_
  intro f' t' c' j x' hc hx
  obtain ⟨c0, hc0, k⟩ := mapChanAt_conn w f t ch g f' t' c' hc
  obtain ⟨x, hx0, hor⟩ := k j x' hx
  refine Or.inl ⟨c0, x, hc0, hx0, ?_⟩
  rcases hor with rfl | ⟨_, _, _, rfl⟩
  · exact List.suffix_refl _
  · rw [hg x]; exact List.suffix_refl _

/-- `deliverTo`: the key of a pushed request must be related to everything queued in that channel and to
everything the receiving server already handed out for this client -/
theorem deliverTo {w : World} (hI : InvC R key log w) (p t : Pid) (ch : Nat) (e : Entry)
    (h2 : t.srv = true → ∀ (conn : Conn) (x : Chan) (e' : Entry), getConn w p t = some conn → conn.chans[ch]? = some x →
      e' ∈ x.sub → R (key e'.msg) (key e.msg))
    (h3 : ∀ c s V v, p = cid c → t = sid s → getSv w s = some V → (c, v) ∈ log V → R v (key e.msg)) :
    InvC R key log (ReqRes.deliverTo w p t ch e).1 := by
  obtain ⟨_, _, _, k4, _, _, _⟩ := deliverTo_core w p t ch e
  have hconn := deliverTo_conn w p t ch e
  have hsv : ∀ c, getSv (ReqRes.deliverTo w p t ch e).1 c = getSv w c := fun c => by unfold getSv; rw [k4]
  refine ⟨?_, ?_, ?_⟩
  · intro s V c hV; rw [hsv] at hV; exact hI.c1 s V c hV
  · intro f' t' conn j x' hc hx ht
    obtain ⟨c0, hc0, k⟩ := hconn f' t' conn hc
    obtain ⟨x, hx0, _, hor⟩ := k j x' hx
    rcases hor with h | ⟨rfl, rfl, rfl, l, hl, hs⟩
    · rw [h]; exact hI.c2 f' t' c0 j x hc0 hx0 ht
    · rw [hs, List.map_append, List.pairwise_append]
      refine ⟨(hI.c2 _ _ c0 _ x hc0 hx0 ht).sublist (hl.sublist.map _), by simp, ?_⟩
      intro a ha b hb
      simp only [List.map_cons, List.map_nil, List.mem_singleton] at hb
      subst hb
      obtain ⟨e', he', rfl⟩ := List.mem_map.mp ha
      exact h2 ht c0 x e' hc0 hx0 (hl.subset he')
  · intro s V c v conn x' e' hV hv hc hx he
    rw [hsv] at hV
    obtain ⟨c0, hc0, k⟩ := hconn _ _ conn hc
    obtain ⟨x, hx0, _, hor⟩ := k 0 x' hx
    rcases hor with h | ⟨hp, ht, hch, l, hl, hs⟩
    · rw [h] at he; exact hI.c3 s V c v c0 x e' hV hv hc0 hx0 he
    · rw [hs] at he
      rcases List.mem_append.mp he with h | h
      · exact hI.c3 s V c v c0 x e' hV hv hc0 hx0 (hl.subset h)
      · simp only [List.mem_singleton] at h; subst h
        exact h3 c s V v hp.symm ht.symm hV hv

theorem init (c : Cfg) : InvC R key log (World.init c) := by
  have hV : ∀ p, getSv (World.init c) p = none := fun _ => rfl
  have hN : ∀ f t, getConn (World.init c) f t = none := fun _ _ => rfl
  refine ⟨?_, ?_, ?_⟩
  · intro s V c h; rw [hV] at h; cases h
  · intro f t conn ch x h; rw [hN] at h; cases h
  · intro s V c v conn x e h; rw [hV] at h; cases h

end InvC

/-- the order of requests: by send number -/
abbrev InvCs (w : World) : Prop := InvC (· < ·) (·.gSeq) (·.gRecvSeq) w
/-- the identity of requests: by request id -/
abbrev InvCr (w : World) : Prop := InvC (· ≠ ·) (·.rid) (·.gRecvReq) w

structure InvX (w : World) : Prop where
  /-- responses received through a pending response carry its request id and answer a request of
  this client - unless the requesting client was gone when they were sent -/
  g1 : ∀ c C (P : Pending) (m : Msg), getCl w c = some C → P ∈ C.pendings → m ∈ P.gRecv →
        m.rid = P.rid ∧ (m.gClient = c ∨ m.gStale = true)
  /-- server registry: exactly the existing servers, each at its slot -/
  r1s : ∀ s V, getSv w s = some V → V.ex = true → ∃ n, w.serverReg.slots.getD V.slot none = some (s, n)
  r3s : ∀ i s n, w.serverReg.slots.getD i none = some (s, n) → ∃ V, getSv w s = some V ∧ V.ex = true ∧ V.slot = i
  /-- the request connection slot `i` of a client leads to the server that is / was registered in slot `i` -/
  r2s : ∀ c S i t, getSnd w (cid c) = some S → S.conns.getD i none = some t → ∃ V, getSv w t.n = some V ∧ V.slot = i
  /-- what a server handed out is below the client's request-id counter ... -/
  c4 : ∀ s V c v, getSv w s = some V → (c, v) ∈ V.gRecvReq → ∃ C, getCl w c = some C ∧ v < C.ridCtr
  /-- ... and its send number below the client's send counter -/
  c4s : ∀ s V c q, getSv w s = some V → (c, q) ∈ V.gRecvSeq → ∃ C, getCl w c = some C ∧ q < C.gSendCtr
  /-- the number of pending responses of a client is within its active-request counter and limit -/
  cl3 : ∀ c C, getCl w c = some C → C.pendings.length ≤ C.activeCnt ∧ C.activeCnt ≤ C.maxActive
  /-- (c) send numbers: handed out strictly increasing per client, queues strictly increasing, handed out below queued -/
  cs : InvCs w
  /-- request ids: handed out pairwise different per client, queues pairwise different, handed out different from queued -/
  cr : InvCr w

/-- housekeeping (see `Hk`): new request connection slots of a client come from the server registry -/
theorem InvX.hk {w w' : World} {me : Pid} {P : Nat → Pid → Prop} (hI : InvX w) (h : Hk me w w')
    (hs : SlotsFrom me P w w')
    (hP : ∀ i t, P i t → me.srv = false → ∃ n, w.serverReg.slots.getD i none = some (t.n, n)) : InvX w' := by
  have hcl : ∀ c, getCl w' c = getCl w c := h.getCl_eq
  have hsv : ∀ s, getSv w' s = getSv w s := h.getSv_eq
  refine ⟨?_, ?_, ?_, ?_, ?_, ?_, fun c C hC => hI.cl3 c C (by rw [← hcl]; exact hC), hI.cs.hk h, hI.cr.hk h⟩
  · intro c C P m hC; rw [hcl] at hC; exact hI.g1 c C P m hC
  · intro s V hV hex; rw [hsv] at hV; rw [h.serverReg]; exact hI.r1s s V hV hex
  · intro i s n hreg; rw [h.serverReg] at hreg; simp only [hsv]; exact hI.r3s i s n hreg
  · intro c S' i t hS' ht
    simp only [hsv]
    by_cases hp : cid c = me
    · subst hp
      obtain ⟨S, hS, k⟩ := hs S' hS'
      rcases k i t ht with h1 | h2
      · exact hI.r2s c S i t hS h1
      · obtain ⟨n, hn⟩ := hP i t h2 rfl
        obtain ⟨V, hV, _, hsl⟩ := hI.r3s i t.n n hn
        exact ⟨V, hV, hsl⟩
    · rw [h.snds _ hp] at hS'; exact hI.r2s c S' i t hS' ht
  · intro s V c v hV hv; rw [hsv] at hV; rw [hcl]; exact hI.c4 s V c v hV hv
  · intro s V c v hV hv; rw [hsv] at hV; rw [hcl]; exact hI.c4s s V c v hV hv

/-- clients, servers, registries and connections stay; port records are kept, removed, or replaced by
records without a connection slot in use -/
theorem InvX.of_core {w w' : World} (hI : InvX w) (h2 : w'.serverReg = w.serverReg) (h4 : w'.clients = w.clients)
    (h5 : w'.servers = w.servers) (h6 : w'.conns = w.conns)
    (hs : ∀ p S', getSnd w' p = some S' → getSnd w p = some S' ∨ (∀ i, S'.conns.getD i none = none)) : InvX w' := by
  have hcl : ∀ c, getCl w' c = getCl w c := fun c => by unfold getCl; rw [h4]
  have hsv : ∀ s, getSv w' s = getSv w s := fun c => by unfold getSv; rw [h5]
  have hco : ∀ f t, getConn w' f t = getConn w f t := fun f t => by unfold getConn; rw [h6]
  refine ⟨?_, ?_, ?_, ?_, ?_, ?_, fun c C hC => hI.cl3 c C (by rw [← hcl]; exact hC), hI.cs.of_same hsv hco, hI.cr.of_same hsv hco⟩
  · intro c C P m hC; rw [hcl] at hC; exact hI.g1 c C P m hC
  · intro s V hV hex; rw [hsv] at hV; rw [h2]; exact hI.r1s s V hV hex
  · intro i s n hreg; rw [h2] at hreg; simp only [hsv]; exact hI.r3s i s n hreg
  · intro c S' i t hS' ht
    simp only [hsv]
    rcases hs _ S' hS' with h | h
    · exact hI.r2s c S' i t h ht
    · rw [h i] at ht; cases ht
  · intro s V c v hV hv; rw [hsv] at hV; rw [hcl]; exact hI.c4 s V c v hV hv
  · intro s V c v hV hv; rw [hsv] at hV; rw [hcl]; exact hI.c4s s V c v hV hv

/-- a client record is written: the request-id counter and the send counter do not go back, the
received-response logs of its pending responses are as required -/
theorem InvX.setCl {w : World} (hI : InvX w) {c : Nat} {C' : Client}
    (hrid : ∀ C, getCl w c = some C → C.ridCtr ≤ C'.ridCtr ∧ C.gSendCtr ≤ C'.gSendCtr)
    (hg : ∀ P ∈ C'.pendings, ∀ m ∈ P.gRecv, m.rid = P.rid ∧ (m.gClient = c ∨ m.gStale = true))
    (hcnt : C'.pendings.length ≤ C'.activeCnt ∧ C'.activeCnt ≤ C'.maxActive) :
    InvX (ReqRes.setCl w c C') := by
  have hcl : ∀ c', getCl (ReqRes.setCl w c C') c' = if c' = c then some C' else getCl w c' := fun _ => getCl_setCl _ _ _ _
  refine ⟨?_, hI.r1s, hI.r3s, hI.r2s, ?_, ?_, ?_, ⟨hI.cs.c1, hI.cs.c2, hI.cs.c3⟩, ⟨hI.cr.c1, hI.cr.c2, hI.cr.c3⟩⟩
  · intro c' X P m hX hP hm
    rw [hcl] at hX; split at hX
    · next hcc => cases hX; subst hcc; exact hg P hP m hm
    · exact hI.g1 c' X P m hX hP hm
  · intro s V c' v hV hv
    obtain ⟨X, hX, hlt⟩ := hI.c4 s V c' v hV hv
    rw [hcl]
    by_cases hcc : c' = c
    · subst hcc; simp only [if_true]
      exact ⟨C', rfl, Nat.lt_of_lt_of_le hlt (hrid X hX).1⟩
    · simp only [hcc, if_false]; exact ⟨X, hX, hlt⟩
  · intro s V c' v hV hv
    obtain ⟨X, hX, hlt⟩ := hI.c4s s V c' v hV hv
    rw [hcl]
    by_cases hcc : c' = c
    · subst hcc; simp only [if_true]
      exact ⟨C', rfl, Nat.lt_of_lt_of_le hlt (hrid X hX).2⟩
    · simp only [hcc, if_false]; exact ⟨X, hX, hlt⟩
  · intro c' X hX
    rw [hcl] at hX; split at hX
    · cases hX; exact hcnt
    · exact hI.cl3 c' X hX

/-- registry and slot clauses when the record of server `s` is replaced by one with the same existence and slot -/
theorem InvX.setSv_regs {w w' : World} (hI : InvX w) {s : Nat} {V V' : Server} (hV : getSv w s = some V)
    (hsv : ∀ s', getSv w' s' = if s' = s then some V' else getSv w s') (hreg : w'.serverReg = w.serverReg)
    (hsnd : ∀ p, getSnd w' p = getSnd w p)
    (hex : V'.ex = V.ex) (hslot : V'.slot = V.slot) :
    (∀ s V, getSv w' s = some V → V.ex = true → ∃ n, w'.serverReg.slots.getD V.slot none = some (s, n)) ∧
    (∀ i s n, w'.serverReg.slots.getD i none = some (s, n) → ∃ V, getSv w' s = some V ∧ V.ex = true ∧ V.slot = i) ∧
    (∀ c S i t, getSnd w' (cid c) = some S → S.conns.getD i none = some t → ∃ V, getSv w' t.n = some V ∧ V.slot = i) := by
  refine ⟨?_, ?_, ?_⟩
  · intro s' X hX hXex
    rw [hreg]
    rw [hsv] at hX; split at hX
    · next hss => cases hX; subst hss; rw [hslot]; exact hI.r1s s' V hV (hex ▸ hXex)
    · exact hI.r1s s' X hX hXex
  · intro i s' n hr
    rw [hreg] at hr
    obtain ⟨X, hX, hXex, hsl⟩ := hI.r3s i s' n hr
    rw [hsv]
    by_cases hss : s' = s
    · subst hss; simp only [if_true]; rw [hV] at hX; cases hX
      exact ⟨V', rfl, hex ▸ hXex, hslot ▸ hsl⟩
    · simp only [hss, if_false]; exact ⟨X, hX, hXex, hsl⟩
  · intro c S i t hS ht
    rw [hsnd] at hS
    obtain ⟨X, hX, hsl⟩ := hI.r2s c S i t hS ht
    rw [hsv]
    by_cases hss : t.n = s
    · simp only [hss, if_true]; rw [hss, hV] at hX; cases hX
      exact ⟨V', rfl, hslot ▸ hsl⟩
    · simp only [hss, if_false]; exact ⟨X, hX, hsl⟩

/-- a server record is written: same existence, slot and request logs -/
theorem InvX.setSv {w : World} (hI : InvX w) {s : Nat} {V V' : Server} (hV : getSv w s = some V)
    (hex : V'.ex = V.ex) (hslot : V'.slot = V.slot) (hlog : V'.gRecvReq = V.gRecvReq) (hlogs : V'.gRecvSeq = V.gRecvSeq) :
    InvX (ReqRes.setSv w s V') := by
  have hsv : ∀ s', getSv (ReqRes.setSv w s V') s' = if s' = s then some V' else getSv w s' := fun _ => getSv_setSv _ _ _ _
  obtain ⟨k1, k2, k3⟩ := hI.setSv_regs hV hsv rfl (fun _ => rfl) hex hslot
  refine ⟨hI.g1, k1, k2, k3, ?_, ?_, hI.cl3, hI.cs.setSv hV hsv (fun _ _ => rfl) hlogs, hI.cr.setSv hV hsv (fun _ _ => rfl) hlog⟩
  · intro s' X c v hX hv
    rw [hsv] at hX; split at hX
    · next hss => cases hX; subst hss; rw [hlog] at hv; exact hI.c4 s' V c v hV hv
    · exact hI.c4 s' X c v hX hv
  · intro s' X c v hX hv
    rw [hsv] at hX; split at hX
    · next hss => cases hX; subst hss; rw [hlogs] at hv; exact hI.c4s s' V c v hV hv
    · exact hI.c4s s' X c v hX hv

theorem InvX.clientReg {w : World} (hI : InvX w) (reg : Reg (Nat × Nat)) : InvX { w with clientReg := reg } :=
  ⟨hI.g1, hI.r1s, hI.r3s, hI.r2s, hI.c4, hI.c4s, hI.cl3, ⟨hI.cs.c1, hI.cs.c2, hI.cs.c3⟩, ⟨hI.cr.c1, hI.cr.c2, hI.cr.c3⟩⟩

theorem getD_set_some' {α : Type} (l : List (Option α)) (i j : Nat) (v : Option α) (t : α)
    (h : (l.set i v).getD j none = some t) : (l.getD j none = some t ∧ j ≠ i) ∨ (j = i ∧ v = some t) := by
  rw [List.getD_eq_getElem?_getD, List.getElem?_set] at h
  by_cases hij : i = j
  · subst hij
    simp only [if_true] at h
    split at h
    · right; exact ⟨rfl, by simpa using h⟩
    · simp at h
  · simp only [hij, if_false] at h
    left; exact ⟨by rw [List.getD_eq_getElem?_getD]; exact h, fun e => hij e.symm⟩

theorem getD_set_self' {α : Type} (l : List (Option α)) (i : Nat) (v : Option α) (x : Option α)
    (h : l[i]? = some x) : (l.set i v).getD i none = v := by
  rw [List.getD_eq_getElem?_getD, getElem?_set_self' l i v x h]; rfl

theorem getD_set_ne' {α : Type} (l : List (Option α)) (i j : Nat) (v : Option α) (h : i ≠ j) :
    (l.set i v).getD j none = l.getD j none := by
  rw [List.getD_eq_getElem?_getD, List.getD_eq_getElem?_getD, List.getElem?_set]
  simp [h]

theorem firstFree_spec' {α : Type} (l : List (Option α)) (i j : Nat) (h : firstFree l i = some j) :
    i ≤ j ∧ l[j - i]? = some none := by
  induction l generalizing i with
  | nil => simp [firstFree] at h
  | cons a r ih =>
    cases a with
    | none => simp only [firstFree, Option.some.injEq] at h; subst h; simp
    | some v =>
      simp only [firstFree] at h
      obtain ⟨h1, h2⟩ := ih (i + 1) h
      refine ⟨by omega, ?_⟩
      have : j - i = (j - (i + 1)) + 1 := by omega
      rw [this, List.getElem?_cons_succ]; exact h2

theorem regAdd_spec' {α : Type} (r r' : Reg α) (a : α) (j : Nat) (h : r.add a = some (r', j)) :
    r.slots[j]? = some none ∧ r'.slots = r.slots.set j (some a) := by
  unfold Reg.add at h
  split at h
  · cases h
  · next i hi =>
    simp only [Option.some.injEq, Prod.mk.injEq] at h
    obtain ⟨h1, h2⟩ := h
    subst h2
    have := (firstFree_spec' r.slots 0 i hi).2
    simp only [Nat.sub_zero] at this
    exact ⟨this, by rw [← h1]⟩

/-- a new server registers: its record appears together with its registry entry -/
theorem InvX.serverNew {w : World} (hI : InvX w) {s n slot : Nat} {reg : Reg (Nat × Nat)} {V : Server}
    (hfresh : getSv w s = none) (hadd : w.serverReg.add (s, n) = some (reg, slot))
    (hslot : V.slot = slot) (hex : V.ex = true) (hlog : V.gRecvReq = []) (hlogs : V.gRecvSeq = []) :
    InvX { ReqRes.setSv w s V with serverReg := reg } := by
  obtain ⟨hfree, hreg⟩ := regAdd_spec' _ _ _ _ hadd
  have hsv : ∀ s', getSv { ReqRes.setSv w s V with serverReg := reg } s' = if s' = s then some V else getSv w s' :=
    fun _ => getSv_setSv _ _ _ _
  have hfreeD : w.serverReg.slots.getD slot none = none := by
    rw [List.getD_eq_getElem?_getD, hfree]; rfl
  refine ⟨hI.g1, ?_, ?_, ?_, ?_, ?_, hI.cl3, hI.cs.setSvNew hsv (fun _ _ => rfl) hlogs, hI.cr.setSvNew hsv (fun _ _ => rfl) hlog⟩
  · intro s' X hX hXex
    rw [hsv] at hX
    show ∃ n, reg.slots.getD X.slot none = some (s', n)
    rw [hreg]
    split at hX
    · next hss => cases hX; subst hss; rw [hslot]; exact ⟨n, getD_set_self' _ _ _ _ hfree⟩
    · obtain ⟨n', hn'⟩ := hI.r1s s' X hX hXex
      have : slot ≠ X.slot := by intro e; rw [← e, hfreeD] at hn'; cases hn'
      exact ⟨n', by rw [getD_set_ne' _ _ _ _ this]; exact hn'⟩
  · intro i s' n' hreg'
    change reg.slots.getD i none = some (s', n') at hreg'
    rw [hreg] at hreg'
    rw [hsv]
    rcases getD_set_some' _ _ _ _ _ hreg' with ⟨h1, _⟩ | ⟨h1, h2⟩
    · obtain ⟨X, hX, hXex, hsl⟩ := hI.r3s i s' n' h1
      have hss : s' ≠ s := by intro e; rw [e, hfresh] at hX; cases hX
      simp only [hss, if_false]; exact ⟨X, hX, hXex, hsl⟩
    · simp only [Option.some.injEq, Prod.mk.injEq] at h2
      obtain ⟨rfl, _⟩ := h2
      simp only [if_true]
      exact ⟨V, rfl, hex, h1 ▸ hslot⟩
  · intro c S i t hS ht
    obtain ⟨X, hX, hsl⟩ := hI.r2s c S i t hS ht
    rw [hsv]
    have hss : t.n ≠ s := by intro e; rw [e, hfresh] at hX; cases hX
    simp only [hss, if_false]; exact ⟨X, hX, hsl⟩
  · intro s' X c v hX hv
    rw [hsv] at hX; split at hX
    · cases hX; rw [hlog] at hv; cases hv
    · exact hI.c4 s' X c v hX hv
  · intro s' X c v hX hv
    rw [hsv] at hX; split at hX
    · cases hX; rw [hlogs] at hv; cases hv
    · exact hI.c4s s' X c v hX hv

/-- the shared state of a server goes: its registry entry is released -/
theorem InvX.serverGone {w : World} (hI : InvX w) {s : Nat} {V : Server} (hV : getSv w s = some V) (hex : V.ex = true) :
    InvX { ReqRes.setSv w s { V with ex := false } with serverReg := w.serverReg.remove V.slot } := by
  have hsv : ∀ s', getSv { ReqRes.setSv w s { V with ex := false } with serverReg := w.serverReg.remove V.slot } s'
      = if s' = s then some { V with ex := false } else getSv w s' := fun _ => getSv_setSv _ _ _ _
  refine ⟨hI.g1, ?_, ?_, ?_, ?_, ?_, hI.cl3, hI.cs.setSv hV hsv (fun _ _ => rfl) rfl, hI.cr.setSv hV hsv (fun _ _ => rfl) rfl⟩
  · intro s' X hX hXex
    rw [hsv] at hX
    show ∃ n, (w.serverReg.slots.set V.slot none).getD X.slot none = some (s', n)
    split at hX
    · cases hX; cases hXex
    · next hss =>
      obtain ⟨n', hn'⟩ := hI.r1s s' X hX hXex
      obtain ⟨n, hn⟩ := hI.r1s s V hV hex
      have : V.slot ≠ X.slot := by
        intro e; rw [e, hn'] at hn
        simp only [Option.some.injEq, Prod.mk.injEq] at hn
        exact hss hn.1
      exact ⟨n', by rw [getD_set_ne' _ _ _ _ this]; exact hn'⟩
  · intro i s' n' hreg'
    change (w.serverReg.slots.set V.slot none).getD i none = some (s', n') at hreg'
    rw [hsv]
    rcases getD_set_some' _ _ _ _ _ hreg' with ⟨h1, hne⟩ | ⟨_, h2⟩
    · obtain ⟨X, hX, hXex, hsl⟩ := hI.r3s i s' n' h1
      have hss : s' ≠ s := by
        intro e; subst e; rw [hV] at hX; cases hX; exact hne hsl.symm
      simp only [hss, if_false]; exact ⟨X, hX, hXex, hsl⟩
    · cases h2
  · intro c S i t hS ht
    obtain ⟨X, hX, hsl⟩ := hI.r2s c S i t hS ht
    rw [hsv]
    by_cases hss : t.n = s
    · simp only [hss, if_true]; rw [hss, hV] at hX; cases hX; exact ⟨_, rfl, hsl⟩
    · simp only [hss, if_false]; exact ⟨X, hX, hsl⟩
  · intro s' X c v hX hv
    rw [hsv] at hX; split at hX
    · next hss => cases hX; subst hss; exact hI.c4 s' V c v hV hv
    · exact hI.c4 s' X c v hX hv
  · intro s' X c v hX hv
    rw [hsv] at hX; split at hX
    · next hss => cases hX; subst hss; exact hI.c4s s' V c v hV hv
    · exact hI.c4s s' X c v hX hv

/-- a server hands out the request with id `v` and send number `q` of client `c`: its send number is above
everything handed out for `c` before and below everything still queued by `c` for this server; its id differs
from all of those; both are below `c`'s counters -/
theorem InvX.setSv_log {w : World} (hI : InvX w) {s : Nat} {V V' : Server} (hV : getSv w s = some V)
    (hex : V'.ex = V.ex) (hslot : V'.slot = V.slot) {c v q : Nat} (hlog : V'.gRecvReq = V.gRecvReq ++ [(c, v)])
    (hlogs : V'.gRecvSeq = V.gRecvSeq ++ [(c, q)])
    (h1 : ∀ v', (c, v') ∈ V.gRecvReq → v' ≠ v) (h1s : ∀ q', (c, q') ∈ V.gRecvSeq → q' < q)
    (h3 : ∀ (conn : Conn) (x : Chan) (e : Entry), getConn w (cid c) (sid s) = some conn → conn.chans[0]? = some x →
      e ∈ x.sub → q < e.msg.gSeq ∧ v ≠ e.msg.rid)
    (h4 : ∃ C, getCl w c = some C ∧ v < C.ridCtr ∧ q < C.gSendCtr) : InvX (ReqRes.setSv w s V') := by
  have hsv : ∀ s', getSv (ReqRes.setSv w s V') s' = if s' = s then some V' else getSv w s' := fun _ => getSv_setSv _ _ _ _
  obtain ⟨k1, k2, k3⟩ := hI.setSv_regs hV hsv rfl (fun _ => rfl) hex hslot
  refine ⟨hI.g1, k1, k2, k3, ?_, ?_, hI.cl3,
    hI.cs.setSv_log hV hsv (fun _ _ => rfl) hlogs h1s (fun conn x e hc hx he => (h3 conn x e hc hx he).1),
    hI.cr.setSv_log hV hsv (fun _ _ => rfl) hlog h1 (fun conn x e hc hx he => (h3 conn x e hc hx he).2)⟩
  · intro s' X c' v' hX hv
    rw [hsv] at hX; split at hX
    · next hss =>
      cases hX; subst hss
      rw [hlog] at hv
      rcases List.mem_append.mp hv with hv | hv
      · exact hI.c4 s' V c' v' hV hv
      · simp only [List.mem_singleton, Prod.mk.injEq] at hv
        obtain ⟨rfl, rfl⟩ := hv
        obtain ⟨C, hC, h, _⟩ := h4
        exact ⟨C, hC, h⟩
    · exact hI.c4 s' X c' v' hX hv
  · intro s' X c' v' hX hv
    rw [hsv] at hX; split at hX
    · next hss =>
      cases hX; subst hss
      rw [hlogs] at hv
      rcases List.mem_append.mp hv with hv | hv
      · exact hI.c4s s' V c' v' hV hv
      · simp only [List.mem_singleton, Prod.mk.injEq] at hv
        obtain ⟨rfl, rfl⟩ := hv
        obtain ⟨C, hC, _, h⟩ := h4
        exact ⟨C, hC, h⟩
    · exact hI.c4s s' X c' v' hX hv

theorem serverReg_mapChanAt (w : World) (f t : Pid) (ch : Nat) (g : Chan → Chan) :
    (mapChanAt w f t ch g).serverReg = w.serverReg := by
  unfold mapChanAt; split
  · split <;> rfl
  · rfl

theorem InvX.mapChanAt {w : World} (hI : InvX w) (f t : Pid) (ch : Nat) (g : Chan → Chan) (hg : ∀ x, (g x).sub = x.sub) :
    InvX (ReqRes.mapChanAt w f t ch g) := by
  refine ⟨?_, ?_, ?_, ?_, ?_, ?_, fun c C hC => hI.cl3 c C (by rw [← getCl_mapChanAt]; exact hC),
    hI.cs.mapChanAt f t ch g hg, hI.cr.mapChanAt f t ch g hg⟩
  · intro c C P m hC; rw [getCl_mapChanAt] at hC; exact hI.g1 c C P m hC
  · intro s V hV hex; rw [getSv_mapChanAt] at hV; rw [serverReg_mapChanAt]; exact hI.r1s s V hV hex
  · intro i s n hreg; rw [serverReg_mapChanAt] at hreg; simp only [getSv_mapChanAt]; exact hI.r3s i s n hreg
  · intro c S i t' hS ht; rw [getSnd_mapChanAt] at hS; simp only [getSv_mapChanAt]; exact hI.r2s c S i t' hS ht
  · intro s V c v hV hv; rw [getSv_mapChanAt] at hV; simp only [getCl_mapChanAt]; exact hI.c4 s V c v hV hv
  · intro s V c v hV hv; rw [getSv_mapChanAt] at hV; simp only [getCl_mapChanAt]; exact hI.c4s s V c v hV hv

/-- `deliverTo`: a pushed request must have a send number above, and an id different from, everything queued
in that channel and everything the receiving server already handed out for this client -/
theorem InvX.deliverTo {w : World} (hI : InvX w) (p t : Pid) (ch : Nat) (e : Entry)
    (h2 : t.srv = true → ∀ (conn : Conn) (x : Chan) (e' : Entry), getConn w p t = some conn → conn.chans[ch]? = some x →
      e' ∈ x.sub → e'.msg.gSeq < e.msg.gSeq ∧ e'.msg.rid ≠ e.msg.rid)
    (h3 : ∀ c s V v, p = cid c → t = sid s → getSv w s = some V → (c, v) ∈ V.gRecvSeq → v < e.msg.gSeq)
    (h3r : ∀ c s V v, p = cid c → t = sid s → getSv w s = some V → (c, v) ∈ V.gRecvReq → v ≠ e.msg.rid) :
    InvX (ReqRes.deliverTo w p t ch e).1 := by
  obtain ⟨_, k2, k3, k4, _, _, ks⟩ := deliverTo_core w p t ch e
  have hcl : ∀ c, getCl (ReqRes.deliverTo w p t ch e).1 c = getCl w c := fun c => by unfold getCl; rw [k3]
  have hsv : ∀ c, getSv (ReqRes.deliverTo w p t ch e).1 c = getSv w c := fun c => by unfold getSv; rw [k4]
  refine ⟨?_, ?_, ?_, ?_, ?_, ?_, fun c C hC => hI.cl3 c C (by rw [← hcl]; exact hC),
    hI.cs.deliverTo p t ch e (fun ht conn x e' hc hx he => (h2 ht conn x e' hc hx he).1) h3,
    hI.cr.deliverTo p t ch e (fun ht conn x e' hc hx he => (h2 ht conn x e' hc hx he).2) h3r⟩
  · intro c C P m hC; rw [hcl] at hC; exact hI.g1 c C P m hC
  · intro s V hV hex; rw [hsv] at hV; rw [k2]; exact hI.r1s s V hV hex
  · intro i s n hreg; rw [k2] at hreg; simp only [hsv]; exact hI.r3s i s n hreg
  · intro c S' i t' hS' ht
    obtain ⟨S, hS, _, hc⟩ := ks _ S' hS'
    rw [hc] at ht; simp only [hsv]; exact hI.r2s c S i t' hS ht
  · intro s V c v hV hv; rw [hsv] at hV; rw [hcl]; exact hI.c4 s V c v hV hv
  · intro s V c v hV hv; rw [hsv] at hV; rw [hcl]; exact hI.c4s s V c v hV hv

theorem getD_replicate_none' {α : Type} (n i : Nat) : (List.replicate n (none : Option α)).getD i none = none := by
  rw [List.getD_eq_getElem?_getD, List.getElem?_replicate]
  split <;> rfl

theorem InvX.init (c : Cfg) : InvX (World.init c) := by
  have hreg : ∀ i, (World.init c).serverReg.slots.getD i none = none := fun i => by
    show (List.replicate c.maxServers none).getD i none = none
    exact getD_replicate_none' _ _
  have hS : ∀ p, getSnd (World.init c) p = none := fun _ => rfl
  have hC : ∀ p, getCl (World.init c) p = none := fun _ => rfl
  have hV : ∀ p, getSv (World.init c) p = none := fun _ => rfl
  refine ⟨?_, ?_, ?_, ?_, ?_, ?_, (fun p C h => by rw [hC] at h; cases h), InvC.init c, InvC.init c⟩
  · intro p C P m h; rw [hC] at h; cases h
  · intro s V h; rw [hV] at h; cases h
  · intro i p n h; rw [hreg] at h; cases h
  · intro p S i t h; rw [hS] at h; cases h
  · intro s V c v h; rw [hV] at h; cases h
  · intro s V c v h; rw [hV] at h; cases h

/-- every request queued by client `c` and everything handed out for `c` by a server has a send number below
`k` and a request id different from `rid` -/
def QBelow (w : World) (c k rid : Nat) : Prop :=
  (∀ (t : Pid) (conn : Conn) (ch : Nat) (x : Chan) (e' : Entry), getConn w (cid c) t = some conn → conn.chans[ch]? = some x →
    e' ∈ x.sub → t.srv = true → e'.msg.gSeq < k ∧ e'.msg.rid ≠ rid) ∧
  (∀ s V v, getSv w s = some V → (c, v) ∈ V.gRecvSeq → v < k) ∧
  (∀ s V v, getSv w s = some V → (c, v) ∈ V.gRecvReq → v ≠ rid)

theorem QBelow.of_hk {w w' : World} {me : Pid} {c k rid : Nat} (h : QBelow w c k rid) (hk : Hk me w w') : QBelow w' c k rid := by
  refine ⟨?_, fun s V v hV hv => h.2.1 s V v (by rw [← hk.getSv_eq]; exact hV) hv,
    fun s V v hV hv => h.2.2 s V v (by rw [← hk.getSv_eq]; exact hV) hv⟩
  intro t conn ch x e' hc hx he ht
  rcases hk.conns _ _ conn hc with ⟨c0, hc0, l⟩ | fr
  · obtain ⟨x0, hx0, l0⟩ := l.1 ch x hx
    exact h.1 t c0 ch x0 e' hc0 hx0 (l0.2.subset he) ht
  · rw [(fr ch x hx).1] at he; cases he

theorem QBelow.of_same {w w' : World} {c k rid : Nat} (h : QBelow w c k rid) (h1 : w'.conns = w.conns)
    (h2 : w'.servers = w.servers) : QBelow w' c k rid := by
  refine ⟨fun t conn ch x e' hc => h.1 t conn ch x e' (by unfold getConn at *; rw [← h1]; exact hc),
    fun s V v hV => h.2.1 s V v (by unfold getSv at *; rw [← h2]; exact hV),
    fun s V v hV => h.2.2 s V v (by unfold getSv at *; rw [← h2]; exact hV)⟩

theorem QBelow.mapChanAt {w : World} {c k rid : Nat} (h : QBelow w c k rid) (f t : Pid) (ch : Nat) (g : Chan → Chan)
    (hg : ∀ x, (g x).sub = x.sub) : QBelow (ReqRes.mapChanAt w f t ch g) c k rid := by
  refine ⟨?_, fun s V v hV hv => h.2.1 s V v (by rw [← getSv_mapChanAt]; exact hV) hv,
    fun s V v hV hv => h.2.2 s V v (by rw [← getSv_mapChanAt]; exact hV) hv⟩
  intro t' conn j x' e' hc hx he ht
  obtain ⟨c0, hc0, k⟩ := mapChanAt_conn w f t ch g _ _ conn hc
  obtain ⟨x, hx0, hor⟩ := k j x' hx
  have : e' ∈ x.sub := by
    rcases hor with rfl | ⟨_, _, _, rfl⟩
    · exact he
    · rw [hg] at he; exact he
  exact h.1 t' c0 j x e' hc0 hx0 this ht

theorem QBelow.rcvMapChan {w : World} {c k rid : Nat} (h : QBelow w c k rid) (me : Pid) (ch : Nat) (g : Chan → Chan)
    (hg : ∀ x, (g x).sub = x.sub) (l : List (Nat × Pid)) : QBelow (ReqRes.rcvMapChan w me ch g l) c k rid := by
  induction l generalizing w with
  | nil => exact h
  | cons a r ih => obtain ⟨k, f⟩ := a; simp only [ReqRes.rcvMapChan]; exact ih (h.mapChanAt f me ch g hg)

theorem QBelow.rcvMapAll {w : World} {c k rid : Nat} (h : QBelow w c k rid) (me : Pid) (ch : Nat) (g : Chan → Chan)
    (hg : ∀ x, (g x).sub = x.sub) : QBelow (ReqRes.rcvMapAll w me ch g) c k rid := by
  unfold ReqRes.rcvMapAll; split
  · exact h.rcvMapChan me ch g hg _
  · exact h

end Iox2.ReqRes
