/-
C08 helper: pure lemmas on the pool (reference counters, free list): `releaseChunk`,
`borrowChunk`, `drainComp`, `releaseAllUsed`.
-/
import Iox2.Proof.PubSubC08Inv
set_option linter.unusedSimpArgs false
set_option linter.unusedVariables false
namespace Iox2.PubSub.C08
open Iox2.PubSub

/-- two publisher records that differ only in the pool -/
def PoolEq (P P' : Pub) : Prop :=
  ∃ f r, P' = { P with free := f, rc := r }

theorem PoolEq.refl (P : Pub) : PoolEq P P := ⟨P.free, P.rc, rfl⟩
theorem PoolEq.trans {a b c : Pub} (h1 : PoolEq a b) (h2 : PoolEq b c) : PoolEq a c := by
  obtain ⟨f1, r1, rfl⟩ := h1
  obtain ⟨f2, r2, rfl⟩ := h2
  exact ⟨f2, r2, rfl⟩

theorem PoolEq.fields {P P' : Pub} (h : PoolEq P P') :
    P'.alive = P.alive ∧ P'.ex = P.ex ∧ P'.slot = P.slot ∧ P'.maxLoans = P.maxLoans ∧ P'.n = P.n ∧
    P'.loanCnt = P.loanCnt ∧ P'.hist = P.hist ∧ P'.conns = P.conns ∧ P'.snapCtr = P.snapCtr ∧
    P'.snap = P.snap ∧ P'.loans = P.loans ∧ P'.payload = P.payload ∧ P'.seq = P.seq ∧
    P'.chunkSeq = P.chunkSeq ∧ P'.sent = P.sent := by
  obtain ⟨f, r, rfl⟩ := h
  exact ⟨rfl, rfl, rfl, rfl, rfl, rfl, rfl, rfl, rfl, rfl, rfl, rfl, rfl, rfl, rfl⟩

theorem releaseChunk_pool (P : Pub) (c : Nat) : PoolEq P (P.releaseChunk c) := by
  unfold Pub.releaseChunk
  dsimp only
  split
  · exact ⟨_, _, rfl⟩
  · exact ⟨_, _, rfl⟩

theorem borrowChunk_pool (P : Pub) (c : Nat) : PoolEq P (P.borrowChunk c) := ⟨_, _, rfl⟩

theorem getD_set_nat (l : List Nat) (c x v : Nat) :
    (l.set c v).getD x 0 = if x = c ∧ c < l.length then v else l.getD x 0 := by
  simp only [List.getD_eq_getElem?_getD, List.getElem?_set]
  by_cases h : c = x
  · subst h
    by_cases h2 : c < l.length
    · simp [h2]
    · simp [h2]
  · have : ¬ x = c := fun h' => h h'.symm
    simp [h, this]

theorem rc_releaseChunk (P : Pub) (c x : Nat) :
    (P.releaseChunk c).rc.getD x 0 = if x = c then P.rc.getD x 0 - 1 else P.rc.getD x 0 := by
  have h : (P.releaseChunk c).rc = P.rc.set c (P.rc.getD c 0 - 1) := by
    unfold Pub.releaseChunk; dsimp only; split <;> rfl
  rw [h, getD_set_nat]
  by_cases hx : x = c
  · subst hx
    by_cases hl : x < P.rc.length
    · simp [hl]
    · have : P.rc.getD x 0 = 0 := by
        rw [List.getD_eq_getElem?_getD, List.getElem?_eq_none (by omega)]; rfl
      simp [hl, this]
  · simp [hx]

theorem rc_borrowChunk (P : Pub) (c x : Nat) (hc : c < P.rc.length) :
    (P.borrowChunk c).rc.getD x 0 = if x = c then P.rc.getD x 0 + 1 else P.rc.getD x 0 := by
  unfold Pub.borrowChunk
  dsimp only
  rw [getD_set_nat]
  by_cases hx : x = c
  · subst hx; simp [hc]
  · simp [hx]

theorem getD_pos_lt {l : List Nat} {c : Nat} (h : l.getD c 0 ≠ 0) : c < l.length := by
  by_cases hl : c < l.length
  · exact hl
  · rw [List.getD_eq_getElem?_getD, List.getElem?_eq_none (by omega)] at h
    exact absurd rfl h

theorem freeOK_releaseChunk {P : Pub} (h : FreeOK P) (c : Nat) : FreeOK (P.releaseChunk c) := by
  have hn : (P.releaseChunk c).n = P.n := (releaseChunk_pool P c).fields.2.2.2.2.1
  have hrc := rc_releaseChunk P c
  have hlen : (P.releaseChunk c).rc.length = P.rc.length := by
    unfold Pub.releaseChunk; dsimp only; split <;> simp
  by_cases h1 : P.rc.getD c 0 = 1
  · have hfree : (P.releaseChunk c).free = c :: P.free := by
      unfold Pub.releaseChunk; dsimp only; rw [if_pos h1]
    have hcl : c < P.n := by rw [← h.rcLen]; exact getD_pos_lt (by omega)
    have hnot : c ∉ P.free := fun hm => by have := (h.freeRc c hm).2; omega
    refine ⟨by rw [hlen, hn]; exact h.rcLen, ?_, ?_, ?_⟩
    · rw [hfree]; exact List.nodup_cons.mpr ⟨hnot, h.freeNodup⟩
    · intro x hx
      rw [hfree] at hx
      rw [hn, hrc]
      rcases List.mem_cons.mp hx with rfl | hx
      · exact ⟨hcl, by rw [if_pos rfl]; omega⟩
      · have := h.freeRc x hx
        refine ⟨this.1, ?_⟩
        split <;> omega
    · intro x hx hz
      rw [hfree]
      rw [hn] at hx
      rw [hrc] at hz
      by_cases hxc : x = c
      · simp [hxc]
      · simp only [hxc, if_false] at hz
        exact List.mem_cons_of_mem _ (h.rcFree x hx hz)
  · have hfree : (P.releaseChunk c).free = P.free := by
      unfold Pub.releaseChunk; dsimp only; rw [if_neg h1]
    refine ⟨by rw [hlen, hn]; exact h.rcLen, by rw [hfree]; exact h.freeNodup, ?_, ?_⟩
    · intro x hx
      rw [hfree] at hx
      rw [hn, hrc]
      have := h.freeRc x hx
      refine ⟨this.1, ?_⟩
      split <;> omega
    · intro x hx hz
      rw [hfree]
      rw [hn] at hx
      rw [hrc] at hz
      by_cases hxc : x = c
      · subst hxc
        simp only [if_true] at hz
        exact h.rcFree x hx (by omega)
      · simp only [hxc, if_false] at hz
        exact h.rcFree x hx hz

theorem freeOK_borrowChunk {P : Pub} (h : FreeOK P) (c : Nat) (hc : P.rc.getD c 0 ≠ 0) :
    FreeOK (P.borrowChunk c) := by
  have hcl : c < P.rc.length := getD_pos_lt hc
  have hrc := fun x => rc_borrowChunk P c x hcl
  refine ⟨?_, h.freeNodup, ?_, ?_⟩
  · show (P.rc.set c _).length = P.n
    simp [h.rcLen]
  · intro x hx
    have := h.freeRc x hx
    show x < P.n ∧ (P.borrowChunk c).rc.getD x 0 = 0
    rw [hrc]
    refine ⟨this.1, ?_⟩
    have hne : x ≠ c := by intro e; subst e; exact hc this.2
    rw [if_neg hne]; exact this.2
  · intro x hx hz
    show x ∈ P.free
    rw [hrc] at hz
    have hx' : x < P.n := hx
    by_cases hxc : x = c
    · simp [hxc] at hz
    · simp only [hxc, if_false] at hz
      exact h.rcFree x hx' hz

/-! ### `drainComp` -/

theorem drainComp_spec (P : Pub) (used : List Bool) (comp : List Nat)
    (hnd : comp.Nodup) (hused : ∀ x ∈ comp, used.getD x false = true) :
    PoolEq P (drainComp P used comp).1 ∧
    (FreeOK P → FreeOK (drainComp P used comp).1) ∧
    (∀ x, (drainComp P used comp).1.rc.getD x 0 = P.rc.getD x 0 - (if x ∈ comp then 1 else 0)) ∧
    (drainComp P used comp).2.length = used.length ∧
    (∀ x, (drainComp P used comp).2.getD x false = (used.getD x false && decide (x ∉ comp))) := by
  induction comp generalizing P used with
  | nil => simp [drainComp, PoolEq.refl]
  | cons c r ih =>
    have hc : used.getD c false = true := hused c (by simp)
    have hnd' := List.nodup_cons.mp hnd
    rw [drainComp, if_pos hc]
    have hused' : ∀ x ∈ r, (used.set c false).getD x false = true := by
      intro x hx
      have hne : c ≠ x := by intro e; subst e; exact hnd'.1 hx
      rw [List.getD_eq_getElem?_getD, List.getElem?_set]
      simp only [hne, if_false]
      rw [← List.getD_eq_getElem?_getD]
      exact hused x (by simp [hx])
    obtain ⟨h1, h2, h3, h4, h5⟩ := ih (P.releaseChunk c) (used.set c false) hnd'.2 hused'
    refine ⟨(releaseChunk_pool P c).trans h1, fun hf => h2 (freeOK_releaseChunk hf c), ?_, by simpa using h4, ?_⟩
    · intro x
      rw [h3, rc_releaseChunk]
      by_cases hxc : x = c
      · subst hxc
        simp [hnd'.1]
      · simp [hxc]
    · intro x
      rw [h5]
      rw [List.getD_eq_getElem?_getD, List.getElem?_set]
      by_cases hxc : c = x
      · subst hxc
        by_cases hl : c < used.length <;> simp [hl]
      · have : ¬ x = c := fun e => hxc e.symm
        simp [hxc, this, List.getD_eq_getElem?_getD]

/-! ### `releaseAllUsed` -/

theorem releaseAllUsed_spec (P : Pub) (used : List Bool) (k : Nat) :
    PoolEq P (releaseAllUsed P used k) ∧
    (FreeOK P → FreeOK (releaseAllUsed P used k)) ∧
    (∀ x, (releaseAllUsed P used k).rc.getD x 0 =
      P.rc.getD x 0 - (if x < k ∧ used.getD x false = true then 1 else 0)) := by
  induction k with
  | zero => simp [releaseAllUsed, PoolEq.refl]
  | succ k ih =>
    obtain ⟨h1, h2, h3⟩ := ih
    rw [releaseAllUsed]
    by_cases hk : used.getD k false = true
    · rw [if_pos hk]
      refine ⟨h1.trans (releaseChunk_pool _ _), fun hf => freeOK_releaseChunk (h2 hf) _, ?_⟩
      intro x
      rw [rc_releaseChunk, h3]
      by_cases hxk : x = k
      · subst hxk
        simp only [Nat.lt_irrefl, false_and, Nat.lt_succ_self, true_and, hk, if_true, if_false, Nat.sub_zero]
      · have : (x < k + 1) = (x < k) := by apply propext; omega
        simp [hxk, this]
    · rw [if_neg hk]
      refine ⟨h1, h2, ?_⟩
      intro x
      rw [h3]
      by_cases hxk : x = k
      · subst hxk
        simp [-List.getD_eq_getElem?_getD, hk]
      · have : (x < k + 1) = (x < k) := by apply propext; omega
        simp [hxk, this]

end Iox2.PubSub.C08
