/-
Helper lemmas for Iox2/Props/C04Service.lean: a crash-wrapped process whose fuse is larger than the number of steps it is
given behaves like the process without fuse (so "every fuse" reduces to finitely many crash points plus "no crash").
-/
import Iox2.Model.ServiceCrash
namespace Iox2.ServiceCrash
open Iox2.Sched

theorem csys_step_fuse (sh : Shared) (t : Th) (f : Nat) :
    csys.step sh { inner := t, fuse := some (f + 1) } =
      (stepL sh t).map fun r => (r.1, { inner := r.2.1, fuse := some f }, [Ev.cell r.2.2]) := by
  simp only [csys, Sys.withCrash, sys]
  cases h : stepL sh t with
  | none => simp
  | some r => simp

theorem csys_step_nofuse (sh : Shared) (t : Th) :
    csys.step sh { inner := t } =
      (stepL sh t).map fun r => (r.1, { inner := r.2.1 }, [Ev.cell r.2.2]) := by
  simp only [csys, Sys.withCrash, sys]
  cases h : stepL sh t with
  | none => simp
  | some r => simp

/-- with a fuse larger than the number of steps taken, nothing distinguishes the process from one without fuse -/
theorem runC_big_fuse : ∀ (n : Nat) (sh : Shared) (t : Th) (f : Nat), n < f →
    (runC n sh { inner := t, fuse := some f }).1 = (runC n sh { inner := t }).1 ∧
    (runC n sh { inner := t, fuse := some f }).2.inner = (runC n sh { inner := t }).2.inner ∧
    (runC n sh { inner := t, fuse := some f }).2.dead = false ∧
    (runC n sh { inner := t }).2.dead = false := by
  intro n
  induction n with
  | zero => intro sh t f _; simp [runC]
  | succ n ih =>
    intro sh t f hf
    obtain ⟨g, rfl⟩ : ∃ g, f = g + 1 := ⟨f - 1, by omega⟩
    simp only [runC, csys_step_fuse, csys_step_nofuse]
    cases h : stepL sh t with
    | none => simp
    | some r =>
      simp only [Option.map_some]
      exact ih r.1 r.2.1 g (by omega)

/-- the whole experiment does not depend on a fuse of the victim that is larger than the number of steps it is given -/
theorem scenario_big_fuse (sh0 : Shared) (v : Th) (k : Nat) (fc : Option Nat) (held : Bool) (hk : fuel < k) :
    scenario sh0 v (some k) fc held = scenario sh0 v none fc held := by
  obtain ⟨h1, h2, h3, h4⟩ := runC_big_fuse fuel sh0 v k hk
  simp only [scenario, h1, h2, h3, h4]

/-- … nor on such a fuse of the first cleaner -/
theorem scenario_big_cleaner_fuse (sh0 : Shared) (v : Th) (fv : Option Nat) (j : Nat) (held : Bool) (hj : fuel < j) :
    scenario sh0 v fv (some j) held = scenario sh0 v fv none held := by
  obtain ⟨h1, h2, h3, h4⟩ := runC_big_fuse fuel (runC fuel sh0 { inner := v, fuse := fv }).1 (mkCleaner 7) j hj
  simp only [scenario, h1, h2, h3, h4]

end Iox2.ServiceCrash
