/-
Layer B: `remove_connection`, `update_connections`, destruction of the publisher's shared state.
-/
import Iox2.Proof.PubSubC01B9
namespace Iox2.PubSub.C01P
open Iox2.PubSub

variable {cfg : Cfg} {np ns : Option Nat} {fl : Option (Nat × Nat × Bool)} {w : World}

theorem setC_setC (w : World) (x y : Conn) (h : y.pid = x.pid ∧ y.sid = x.sid) : setC (setC w x) y = setC w y := by
  have hy : ∀ z : Conn, (z.pid = y.pid ∧ z.sid = y.sid) ↔ (z.pid = x.pid ∧ z.sid = x.sid) := by
    intro z; rw [h.1, h.2]
  unfold setC
  simp only [List.map_map]
  congr 1
  apply List.map_congr_left
  intro e _
  simp only [Function.comp]
  by_cases he : e.pid = x.pid ∧ e.sid = x.sid
  · rw [if_pos he, if_pos ((hy x).mpr ⟨rfl, rfl⟩), if_pos ((hy e).mpr he)]
  · rw [if_neg he, if_neg (fun hh => he ((hy e).mp hh))]

theorem dropC_setC (w : World) (x : Conn) : dropC (setC w x) x.pid x.sid = dropC w x.pid x.sid := by
  unfold dropC setC
  simp only
  congr 1
  rw [List.filter_map]
  induction w.conns with
  | nil => rfl
  | cons e l ih =>
    simp only [List.filter_cons, List.map_cons, Function.comp]
    by_cases he : e.pid = x.pid ∧ e.sid = x.sid
    · simp only [he, and_self, if_true, not_true_eq_false, decide_false, Bool.false_eq_true, if_false]
      exact ih
    · simp only [he, if_false, not_false_eq_true, decide_true, if_true, List.map_cons]
      rw [ih]

theorem getD_map_false (l : List Bool) (y : Nat) : (l.map fun _ => false).getD y false = false := by
  rw [List.getD_eq_getElem?_getD, List.getElem?_map]
  cases l[y]? <;> rfl

/-- the sender side releases everything and detaches (the connection object stays, without sender) -/
theorem InvB.releaseDetach (h : InvB fl w) {p s : Nat} {P : Pub} {c : Conn}
    (hP : getP w p = some P) (hex : P.ex = true) (hC : getC w p s = some c) (hsa : c.sAtt = true)
    (hdead : ∀ S, getS w s = some S → S.alive = false) :
    InvB fl (setP (setC w { c with used := c.used.map (fun _ => false), sAtt := false }) p
      (releaseAllUsed P c.used c.used.length)) := by
  obtain ⟨hcm, hcp, hcs⟩ := getC_some hC
  have hlens := h.lens p P hP
  have hul := h.usedLen c hcm P (hcp ▸ hP)
  obtain ⟨a1, a2, a3, a4⟩ := releaseAllUsed_inv (fun y => P.rc.getD y 0 - b2n (c.used.getD y false))
    c.used c.used.length P hlens.1 hul (h.free p P hP hex) (fun y hy => by
      have := h.rc_ge_bit hP hex hcm hcp hsa hy
      omega)
  have hi0 : ∀ y, ind p y ({ c with used := c.used.map (fun _ => false), sAtt := false } : Conn) = 0 :=
    fun y => ind_of_not_att rfl
  refine h.updPC' hP hex hC hsa hcp hcs a4 a2 (by simp [hul]) a1 ?_ (fun y _ => hi0 y) ?_ ?_ ?_
  · intro y hy
    rw [hi0 y, a3 y hy, if_pos (by rw [hul]; exact hy)]
    have := h.rc_ge_bit hP hex hcm hcp hsa hy
    omega
  · intro hf; cases hf
  · intro _ y; exact getD_map_false c.used y
  · intro S hS hor
    rcases hor with hf | hf
    · cases hf
    · rw [hdead S hS] at hf; cases hf

theorem invAB_pubRemoveConn (h : InvAB cfg np ns fl w) (p slot : Nat)
    (hexp : ∀ P, getP w p = some P → P.ex = true)
    (hdead : ∀ P s, getP w p = some P → P.conns[slot]? = some (some s) → ∀ S, getS w s = some S → S.alive = false) :
    InvAB cfg np ns fl (pubRemoveConn w p slot) := by
  refine ⟨h.a.pubRemoveConn p slot hdead, ?_⟩
  rw [pubRemoveConn_eq]
  cases hP : getP w p with
  | none => exact h.b
  | some P =>
    simp only
    cases hs : P.conns.getD slot none with
    | none => exact h.b
    | some s =>
      simp only
      have hslot : P.conns[slot]? = some (some s) := getD_eq_some_iff.mp hs
      have hex := hexp P hP
      obtain ⟨c, hC, hsa⟩ := h.a.a2c p P hP hex slot s hslot
      obtain ⟨hcm, hcp, hcs⟩ := getC_some hC
      have hrel : pubRelease w p s P =
          (setC w { c with used := c.used.map fun _ => false }, releaseAllUsed P c.used c.used.length) := by
        unfold pubRelease; rw [hC]
      rw [hrel]
      simp only
      rw [detachSender_setP_comm]
      have hB1 := h.b.releaseDetach hP hex hC hsa (hdead P s hP hslot)
      have hg1 : getC (setC w { c with used := c.used.map fun _ => false }) p s =
          some { c with used := c.used.map fun _ => false } := by
        rw [getC_setC]
        simp only [hcp, hcs, and_self, if_true, hC, Option.map_some]
      have hsame : PSameB (releaseAllUsed P c.used c.used.length)
          { releaseAllUsed P c.used c.used.length with
            conns := (releaseAllUsed P c.used c.used.length).conns.set slot none } :=
        ⟨rfl, rfl, rfl, rfl, rfl, rfl, rfl, rfl, rfl, rfl⟩
      have edrop : ∀ x : Conn, x.pid = p → x.sid = s → dropC (setC w x) p s = dropC w p s := by
        intro x hxp hxs
        have := dropC_setC w x
        rw [hxp, hxs] at this; exact this
      rcases Bool.eq_false_or_eq_true c.rAtt with hra | hra
      · have e1 : detachSender (setC w { c with used := c.used.map fun _ => false }) p s =
            setC w { c with used := c.used.map (fun _ => false), sAtt := false } := by
          rw [detachSender_keep hg1 hra]
          exact setC_setC w _ _ ⟨rfl, rfl⟩
        rw [e1]
        have := hB1.setP_irrel (getP_setP_self _ (by rw [getP_setC]; exact hP)) hsame
        rw [setP_setP] at this
        exact this
      · rw [detachSender_drop hg1 hra, edrop { c with used := c.used.map fun _ => false } hcp hcs]
        have hd : InvB fl (dropC (setP (setC w { c with used := c.used.map (fun _ => false), sAtt := false }) p
            (releaseAllUsed P c.used c.used.length)) p s) := by
          refine hB1.dropC (c0 := { c with used := c.used.map (fun _ => false), sAtt := false }) ?_ rfl
          rw [getC_setP, getC_setC]
          simp only [hcp, hcs, and_self, if_true, hC, Option.map_some]
        have e1 : dropC (setP (setC w { c with used := c.used.map (fun _ => false), sAtt := false }) p
            (releaseAllUsed P c.used c.used.length)) p s =
            setP (dropC w p s) p (releaseAllUsed P c.used c.used.length) := by
          show setP (dropC (setC w _) p s) p _ = _
          rw [edrop { c with used := c.used.map (fun _ => false), sAtt := false } hcp hcs]
        rw [e1] at hd
        have := hd.setP_irrel (getP_setP_self _ (by show getP w p = some P; exact hP)) hsame
        rw [setP_setP] at this
        exact this

end Iox2.PubSub.C01P
