/-
Every API operation of the request-response model preserves the invariant `Inv`; hence it holds in
every reachable state.
-/
import Iox2.Proof.ReqResInv
namespace Iox2.ReqRes
open Iox2.PubSub (Reg firstFree)

/-- the request message `m` was written by an existing client whose request-id counter is past it -/
def MsgOk (w : World) (m : Msg) : Prop := ∃ C, getCl w m.client = some C ∧ m.rid < C.ridCtr ∧ m.gSeq < C.gSendCtr

theorem MsgOk.of_clients {w w' : World} {m : Msg} (h : MsgOk w m) (hc : w'.clients = w.clients) : MsgOk w' m := by
  obtain ⟨C, hC, hr⟩ := h
  exact ⟨C, by unfold getCl at *; rw [hc]; exact hC, hr⟩

theorem Inv.init (c : Cfg) : Inv (World.init c) := by
  have hreg : ∀ i, (World.init c).clientReg.slots.getD i none = none := fun i => by
    show (List.replicate c.maxClients none).getD i none = none
    exact getD_replicate_none _ _
  have hS : ∀ p, getSnd (World.init c) p = none := fun _ => rfl
  have hR : ∀ p, getRcv (World.init c) p = none := fun _ => rfl
  have hC : ∀ p, getCl (World.init c) p = none := fun _ => rfl
  have hV : ∀ p, getSv (World.init c) p = none := fun _ => rfl
  have hN : ∀ f t, getConn (World.init c) f t = none := fun _ _ => rfl
  refine ⟨?_, ?_, ?_, ?_, ?_, ?_, ?_, ?_, ?_, ?_, ?_, ?_, ?_, InvX.init c, InvB.init c, InvF.init c⟩
  · intro p S h; rw [hS] at h; cases h
  · intro p S h; rw [hR] at h; cases h
  · intro p S i t h; rw [hS] at h; cases h
  · intro p C P h; rw [hC] at h; cases h
  · intro p C h; rw [hC] at h; cases h
  · intro f t conn ch x e h; rw [hN] at h; cases h
  · intro f t conn ch x e h; rw [hN] at h; cases h
  · intro s V A h; rw [hV] at h; cases h
  · intro s V A i C h; rw [hV] at h; cases h
  · intro s V A i S t C h; rw [hV] at h; cases h
  · intro p C h; rw [hC] at h; cases h
  · intro i p n h; rw [hreg] at h; cases h
  · intro s S i t h; rw [hS] at h; cases h

theorem Inv.clientForceUpdate {w : World} (hI : Inv w) (c : Nat) (sp : Snap) (hsp : getSnap w (cid c) = some sp)
    (hreg : sp.slots = w.serverReg.slots) :
    Inv (ReqRes.clientForceUpdate w c) ∧ Hk (cid c) w (ReqRes.clientForceUpdate w c) := by
  obtain ⟨h1, s1⟩ := clientForceUpdate_spec w c (hI.sndInit _)
    (fun R hR => by simpa [rcvInitState, initState] using hI.rcvInit _ R hR) sp hsp
  exact ⟨hI.hk h1 s1 (fun i t ⟨n, hn, ht⟩ => ⟨by simpa using ht, (fun h => by cases h), fun _ => ⟨n, by rw [← hreg]; exact (getD_eq_some_iff _ _ _).mpr hn⟩⟩), h1⟩

theorem Inv.serverForceUpdate {w : World} (hI : Inv w) (s : Nat) (sp : Snap) (hsp : getSnap w (sid s) = some sp)
    (hreg : sp.slots = w.clientReg.slots) :
    Inv (ReqRes.serverForceUpdate w s) ∧ Hk (sid s) w (ReqRes.serverForceUpdate w s) := by
  obtain ⟨h1, s1⟩ := serverForceUpdate_spec w s (hI.sndInit _)
    (fun R hR => by simpa [rcvInitState, initState] using hI.rcvInit _ R hR) sp hsp
  exact ⟨hI.hk h1 s1 (fun i t ⟨n, hn, ht⟩ => ⟨by simpa using ht, fun _ => ⟨n, by rw [← hreg]; exact (getD_eq_some_iff _ _ _).mpr hn⟩, (fun h => by cases h)⟩), h1⟩


theorem Inv.clientCreate {w : World} (hI : Inv w) (c active : Nat) (hfresh : getCl w c = none) :
    Inv (clientCreate w c active).1 := by
  unfold ReqRes.clientCreate
  have h0 := hI.newPort (cid c) (clientSnd w (w.cfg.clientChunks w.cfg.maxLoans active)) (clientRcv w) (regSnap w.serverReg)
    rfl (fun i => getD_replicate_none _ _) rfl
  obtain ⟨h1, k1⟩ := h0.clientForceUpdate c (regSnap w.serverReg) (by simp) rfl
  simp only []
  generalize ReqRes.clientForceUpdate _ c = w1 at h1 k1
  have hfresh1 : getCl w1 c = none := by rw [k1.getCl_eq]; simpa using hfresh
  split
  · next reg slot hadd => exact Inv.finishPanic hI (h1.clientNew hfresh1 hadd rfl rfl rfl (Nat.zero_le _) rfl rfl)
  · exact Inv.finishPanic hI ((h1.portDestroy (cid c)).delPort (cid c))

theorem Inv.opCClient {w : World} (hI : Inv w) (c : Nat) (ma : Option Nat) : Inv (opCClient w c ma).1 := by
  unfold ReqRes.opCClient
  split
  · exact hI
  · next hfresh =>
    split
    · exact hI
    · exact hI.clientCreate c _ (by simpa using hfresh)

theorem Inv.opCServer {w : World} (hI : Inv w) (s : Nat) (ml : Option Nat) : Inv (opCServer w s ml).1 := by
  unfold ReqRes.opCServer
  split
  · exact hI
  · next hfresh =>
    simp only []
    have hfresh : getSv w s = none := by simpa using hfresh
    have h0 := hI.newPort (sid s) (serverSnd w (w.cfg.serverChunks (serverLoanPerReq w ml)) (serverLoanPerReq w ml))
      (serverRcv w) (regSnap w.clientReg) rfl (fun i => getD_replicate_none _ _) rfl
    obtain ⟨h1, k1⟩ := h0.serverForceUpdate s (regSnap w.clientReg) (by simp) rfl
    generalize ReqRes.serverForceUpdate _ s = w1 at h1 k1
    have hfresh1 : getSv w1 s = none := by rw [k1.getSv_eq]; simpa using hfresh
    split
    · next reg slot hadd =>
      refine Inv.finishPanic hI ?_
      exact h1.setSvReg s _ reg (fun A hA => by cases hA) (h1.x.serverNew hfresh1 hadd rfl rfl rfl rfl)
        (h1.y.setSvReg s _ reg (fun V hV => by rw [hfresh1] at hV; cases hV) List.Pairwise.nil (fun A hA => by cases hA)
          (fun A hA => by cases hA) (fun A hA => by cases hA))
        (h1.f.setSv' (s := s) rfl (fun _ => rfl) (fun _ => getSv_setSv _ _ _ _) (fun _ _ => rfl) (fun c v hv => by cases hv))
    · exact Inv.finishPanic hI ((h1.portDestroy (sid s)).delPort (sid s))

theorem Inv.clientDestroy {w : World} (hI : Inv w) (c : Nat) : Inv (clientDestroyIfUnreferenced w c) := by
  unfold clientDestroyIfUnreferenced
  split
  · exact hI
  · next C hC =>
    split
    · exact hI
    · next hcond =>
      have hex : C.ex = true := by
        simp only [Bool.or_eq_true, Bool.not_eq_true', not_or, Bool.not_eq_true, Bool.not_eq_false] at hcond
        exact hcond.2
      exact (hI.clientGone hC hex).portDestroy (cid c)

theorem Inv.serverDestroy {w : World} (hI : Inv w) (s : Nat) : Inv (serverDestroyIfUnreferenced w s) := by
  unfold serverDestroyIfUnreferenced
  split
  · exact hI
  · next V hV =>
    split
    · exact hI
    · next hcond =>
      have hex : V.ex = true := by
        simp only [Bool.or_eq_true, Bool.not_eq_true', not_or, Bool.not_eq_true, Bool.not_eq_false] at hcond
        exact hcond.2
      exact (hI.setSvReg s { V with ex := false } _ (hI.sub_actives (V' := { V with ex := false }) hV (fun A hA => ⟨A, hA, rfl, rfl⟩))
        (hI.x.serverGone hV hex)
        (hI.y.setSv_mono (V' := { V with ex := false }) hV _ rfl (hI.y.u1 s V hV) (fun A hA => ⟨A, hA, rfl, Nat.le_refl _⟩))
        (hI.f.setSv' (s := s) (V' := { V with ex := false }) rfl (fun _ => rfl) (fun _ => getSv_setSv _ _ _ _) (fun _ _ => rfl)
          (fun c v hv => Or.inl ⟨V, hV, hv⟩))).portDestroy (sid s)

theorem Inv.opDClient {w : World} (hI : Inv w) (c : Nat) : Inv (opDClient w c).1 := by
  unfold ReqRes.opDClient
  split
  · exact hI
  · next C hC =>
    split
    · exact hI
    · exact (hI.setCl_frame (C' := { C with alive := false }) hC rfl rfl rfl rfl (fun P hP m hm => hI.x.g1 c C P m hC hP hm)
        (hI.x.cl3 c C hC) (hI.y.setCl_sub hC (fun P hP => Or.inl ⟨P, hP, rfl, rfl⟩)) rfl rfl rfl).clientDestroy c

theorem Inv.opDServer {w : World} (hI : Inv w) (s : Nat) : Inv (opDServer w s).1 := by
  unfold ReqRes.opDServer
  split
  · exact hI
  · next V hV =>
    split
    · exact hI
    · exact (hI.setSv_sub (V' := { V with alive := false }) hV (fun A hA => ⟨A, hA, rfl, rfl, Nat.le_refl _⟩) (hI.y.u1 s V hV) rfl rfl rfl rfl).serverDestroy s

theorem allocate_key (S : Snd) : S.allocate.1.init = S.init ∧ S.allocate.1.conns = S.conns := by
  unfold Snd.allocate
  split
  · exact ⟨rfl, rfl⟩
  · split
    · exact ⟨rfl, rfl⟩
    · split <;> exact ⟨rfl, rfl⟩

theorem mem_getD {α : Type} (l : List (Option α)) (t : α) (h : some t ∈ l) : ∃ i, l.getD i none = some t := by
  obtain ⟨i, hi, e⟩ := List.getElem_of_mem h
  exact ⟨i, by rw [List.getD_eq_getElem?_getD, List.getElem?_eq_getElem hi, e]; rfl⟩

/-- `deliverTo` leaves the queues of other connections alone -/
theorem deliverTo_other (w : World) (p t : Pid) (ch : Nat) (e : Entry) (f' t' : Pid) (hne : ¬ (f' = p ∧ t' = t))
    (conn : Conn) (j : Nat) (x' : Chan) (hc : getConn (ReqRes.deliverTo w p t ch e).1 f' t' = some conn)
    (hx : conn.chans[j]? = some x') : ∃ c0 x, getConn w f' t' = some c0 ∧ c0.chans[j]? = some x ∧ x'.sub = x.sub := by
  obtain ⟨c0, hc0, k⟩ := deliverTo_conn w p t ch e f' t' conn hc
  obtain ⟨x, hx0, _, hor⟩ := k j x' hx
  rcases hor with h | ⟨h1, h2, _⟩
  · exact ⟨c0, x, hc0, hx0, h⟩
  · exact absurd ⟨h1, h2⟩ hne

theorem getSv_deliverTo (w : World) (p t : Pid) (ch : Nat) (e : Entry) (s : Nat) :
    getSv (ReqRes.deliverTo w p t ch e).1 s = getSv w s := by
  unfold getSv; rw [(deliverTo_core w p t ch e).2.2.2.1]

/-- the connection loop of `deliver_offset`: the targets are servers and pairwise different, the send
number of the request is above everything queued for them and above everything they handed out for this
client, its request id differs from all of those and from every loan of the client -/
theorem Inv.deliverAll {w : World} (hI : Inv w) (c : Nat) (e : Entry) (l : List (Option Pid)) (k : Nat)
    (hl : ∀ t, some t ∈ l → t.srv = true)
    (hnd : ∀ i j t, l.getD i none = some t → l.getD j none = some t → i = j)
    (he1 : e.msg.client = c ∧ ∃ C, getCl w c = some C ∧ e.msg.rid < C.ridCtr ∧ e.msg.gSeq < C.gSendCtr)
    (hq1 : ∀ t, some t ∈ l → ∀ (conn : Conn) (ch : Nat) (x : Chan) (e' : Entry), getConn w (cid c) t = some conn →
      conn.chans[ch]? = some x → e' ∈ x.sub → e'.msg.gSeq < e.msg.gSeq ∧ e'.msg.rid ≠ e.msg.rid)
    (hq2 : ∀ s V v, getSv w s = some V → (c, v) ∈ V.gRecvSeq → v < e.msg.gSeq)
    (hq2r : ∀ s V v, getSv w s = some V → (c, v) ∈ V.gRecvReq → v ≠ e.msg.rid)
    (hq4 : ∀ C (q : QLoan), getCl w c = some C → q ∈ C.qloans → e.msg.rid ≠ q.rid) :
    Inv (ReqRes.deliverAll w (cid c) 0 e l k).1 := by
  induction l generalizing w k with
  | nil => exact hI
  | cons a r ih =>
    have hnd' : ∀ i j t, r.getD i none = some t → r.getD j none = some t → i = j := by
      intro i j t hi hj
      have := hnd (i + 1) (j + 1) t (by simpa using hi) (by simpa using hj)
      omega
    cases a with
    | none =>
      simp only [ReqRes.deliverAll]
      exact ih hI k (fun t ht => hl t (List.mem_cons_of_mem _ ht)) hnd' he1
        (fun t ht => hq1 t (List.mem_cons_of_mem _ ht)) hq2 hq2r hq4
    | some t =>
      simp only [ReqRes.deliverAll]
      have ht : t.srv = true := hl t (List.mem_cons_self ..)
      have h1 := hI.deliverTo (cid c) t 0 e (fun _ => ⟨rfl, he1.1, he1.2⟩) (fun hf => by rw [ht] at hf; cases hf)
        (fun _ conn x e' hc hx he' => hq1 t (List.mem_cons_self ..) conn 0 x e' hc hx he')
        (fun c' s V v hp _ hV hv => by simp only [cid_inj] at hp; subst hp; exact hq2 s V v hV hv)
        (fun c' s V v hp _ hV hv => by simp only [cid_inj] at hp; subst hp; exact hq2r s V v hV hv)
        (fun _ c' C q hp hC hq => by simp only [cid_inj] at hp; subst hp; exact hq4 C q hC hq)
        (hI.y.deliverTo (cid c) t 0 e (fun hf => by rw [ht] at hf; cases hf) (fun hf => by rw [ht] at hf; cases hf)
          (fun c' C P m htc => by rw [htc] at ht; cases ht) (fun s V A hp => by cases hp))
      have htr : some t ∉ r := by
        intro hmem
        obtain ⟨j, hj⟩ := mem_getD r t hmem
        have := hnd 0 (j + 1) t (by simp) (by simpa using hj)
        omega
      refine ih h1 _ (fun t ht => hl t (List.mem_cons_of_mem _ ht)) hnd' (by simpa only [getCl_deliverTo] using he1) ?_
        (fun s V v hV hv => hq2 s V v (by rw [← getSv_deliverTo]; exact hV) hv)
        (fun s V v hV hv => hq2r s V v (by rw [← getSv_deliverTo]; exact hV) hv)
        (fun C q hC hq => hq4 C q (by rw [← getCl_deliverTo]; exact hC) hq)
      intro t' ht' conn j x' e' hc hx he'
      have htt : t' ≠ t := fun h => htr (h ▸ ht')
      obtain ⟨c0, x, hc0, hx0, hs⟩ := deliverTo_other w (cid c) t 0 e (cid c) t' (fun h => htt h.2) conn j x' hc hx
      rw [hs] at he'
      exact hq1 t' (List.mem_cons_of_mem _ ht') c0 j x e' hc0 hx0 he'

/-- `rid` is the request id of a loan of client `c` that is about to be sent or kept: below the counter and
used by nothing else; the loan counter has room for it -/
def LoanOk (w : World) (c rid : Nat) : Prop :=
  ∃ C, getCl w c = some C ∧ rid < C.ridCtr ∧ (∀ P ∈ C.pendings, P.rid ≠ rid) ∧ (∀ q ∈ C.qloans, q.rid ≠ rid) ∧
    QBelow w c C.gSendCtr rid ∧ C.qloans.length < C.loanCnt

theorem Inv.sendRequest {w : World} (hI : Inv w) (c r ch rid chunk tag : Nat) (C : Client) (hC : getCl w c = some C)
    (hlt : rid < C.ridCtr) (hnp : ∀ P ∈ C.pendings, P.rid ≠ rid) (hnq : ∀ q ∈ C.qloans, q.rid ≠ rid)
    (hq : QBelow w c C.gSendCtr rid) (hroom : C.activeCnt < C.maxActive) (hloan : C.qloans.length < C.loanCnt) :
    Inv (sendRequest w c r ch rid chunk tag).1 := by
  unfold ReqRes.sendRequest
  simp only []
  have h1 := hI.clientUpdate c
  have k1 := (clientUpdate_spec w c (hI.sndInit _) (fun R hR => by simpa [rcvInitState, initState] using hI.rcvInit _ R hR)).1
  have hcl : getCl (ReqRes.clientUpdate w c) c = some C := by rw [k1.getCl_eq]; exact hC
  have hq1 := hq.of_hk k1
  generalize ReqRes.clientUpdate w c = w1 at h1 hcl hq1
  split
  · exact hI.panic
  · rw [hcl]
    simp only []
    generalize hP : ({ label := r, rid := rid, channel := ch, chunk := chunk, tag := tag } : Pending) = P
    have hPr : P.rid = rid := by rw [← hP]
    have hPg : P.gRecv = [] := by rw [← hP]
    have h2 := h1.setCl (C' := C.addPending P) hcl rfl rfl (Nat.le_refl _)
      (by
        intro P' hP'
        rcases List.mem_append.mp hP' with h | h
        · exact h1.cl1 c C P' hcl h
        · simp only [List.mem_singleton] at h; subst h; rw [hPr]; exact hlt)
      (by
        show (C.pendings ++ [P]).Pairwise _
        rw [List.pairwise_append]
        refine ⟨h1.cl2 c C hcl, List.pairwise_singleton _ _, ?_⟩
        intro a ha b hb
        simp only [List.mem_singleton] at hb; subst hb
        rw [hPr]; exact hnp a ha)
      (by
        intro P' hP' m hm
        rcases List.mem_append.mp hP' with h | h
        · exact h1.x.g1 c C P' m hcl h hm
        · simp only [List.mem_singleton] at h; subst h; rw [hPg] at hm; cases hm)
      (by
        show (C.pendings ++ [P]).length ≤ C.activeCnt + 1 ∧ C.activeCnt + 1 ≤ C.maxActive
        have := (h1.x.cl3 c C hcl).1
        simp only [List.length_append, List.length_singleton]
        omega)
      (h1.y.setCl_sub hcl (by
        intro P' hP'
        rcases List.mem_append.mp hP' with h | h
        · exact Or.inl ⟨P', h, rfl, rfl⟩
        · simp only [List.mem_singleton] at h; subst h; exact Or.inr hPg))
      (Nat.le_succ _)
      (h1.f.setCl' (c := c) (C' := C.addPending P) rfl (fun _ => getCl_setCl _ _ _ _) (fun _ => rfl) (fun _ _ => rfl)
        (fun q hq' => h1.f.f1 c C q hcl hq') (h1.f.f2 c C hcl)
        (by
          intro q hq' P' hP'
          rcases List.mem_append.mp hP' with h | h
          · exact h1.f.f3 c C q P' hcl hq' h
          · simp only [List.mem_singleton] at h; subst h; rw [hPr]; exact fun e => hnq q hq' e.symm)
        (fun q hq' t conn ch' x e => h1.f.f4 c C q t conn ch' x e hcl hq')
        (fun q hq' s V v => h1.f.f5 c C q s V v hcl hq')
        (by
          have := h1.f.f6 c C hcl
          show C.qloans.length ≤ C.loanCnt - 1 ∧ C.loanCnt - 1 ≤ w1.cfg.maxLoans
          omega))
    have hq2 : QBelow (ReqRes.setCl w1 c (C.addPending P)) c C.gSendCtr rid := hq1.of_same rfl rfl
    have h3 := h2.rcvMapAll (cid c) ch (fun x => x.setState rid) (fun x => setState_sub x _)
    have hq3 := hq2.rcvMapAll (cid c) ch (fun x => x.setState rid) (fun x => setState_sub x _)
    have h4 := h3.retrieveReturned (cid c)
    have hq4 := hq3.of_hk (retrieveReturned_hk _ (cid c)).1
    have hcl4 : getCl (ReqRes.retrieveReturned (ReqRes.rcvMapAll (ReqRes.setCl w1 c (C.addPending P)) (cid c) ch fun x => x.setState rid) (cid c)) c
        = some (C.addPending P) := by
      rw [(retrieveReturned_hk _ _).1.getCl_eq, getCl_rcvMapAll]; simp
    generalize ReqRes.retrieveReturned (ReqRes.rcvMapAll (ReqRes.setCl w1 c (C.addPending P)) (cid c) ch fun x => x.setState rid) (cid c) = w4
      at h4 hq4 hcl4
    have hkind : ∀ t, some t ∈ sndConns w4 (cid c) → t.srv = true := by
      intro t ht
      unfold sndConns at ht
      split at ht
      · next S hS =>
        obtain ⟨i, hi⟩ := mem_getD _ _ ht
        simpa using h4.slotKind _ S i t hS hi
      · cases ht
    refine h4.deliverAll c _ _ 0 hkind ?_ ⟨rfl, C.addPending P, hcl4, hlt, Nat.lt_succ_self _⟩ ?_
      (fun s V v hV hv => hq4.2.1 s V v hV hv) (fun s V v hV hv => hq4.2.2 s V v hV hv) ?_
    · intro i j t hi hj
      cases hS : getSnd w4 (cid c) with
      | none => simp [sndConns, hS] at hi
      | some S =>
        simp only [sndConns, hS] at hi hj
        obtain ⟨V, hV, hsl⟩ := h4.x.r2s c S i t hS hi
        obtain ⟨V', hV', hsl'⟩ := h4.x.r2s c S j t hS hj
        rw [hV] at hV'; cases hV'
        rw [← hsl, ← hsl']
    · intro t ht conn j x e' hc hx he'
      exact hq4.1 t conn j x e' hc hx he' (hkind t ht)
    · intro C' q hC' hq'
      rw [hcl4] at hC'; cases hC'
      exact fun e => hnq q hq' e.symm

theorem Inv.clientLoan {w : World} (hI : Inv w) (c l : Nat) :
    Inv (clientLoan w c l).1 ∧ ∀ q, (clientLoan w c l).2.1 = some q → LoanOk (clientLoan w c l).1 c q.rid := by
  unfold ReqRes.clientLoan
  split
  · exact ⟨hI, fun q h => by simp at h⟩
  · next C0 hC0 =>
    split
    · exact ⟨hI, fun q h => by simp at h⟩
    · next hlim =>
      simp only []
      have hq0 : QBelow w c C0.gSendCtr C0.ridCtr := by
        refine ⟨fun t conn ch x e' hc hx he ht => ?_, fun s V v hV hv => ?_, fun s V v hV hv => ?_⟩
        · obtain ⟨_, _, C, hC, hr, hs⟩ := hI.e1 (cid c) t conn ch x e' hc hx he ht
          simp only [cid_n] at hC; rw [hC0] at hC; cases hC; exact ⟨hs, Nat.ne_of_lt hr⟩
        · obtain ⟨C, hC, hr⟩ := hI.x.c4s s V c v hV hv
          rw [hC0] at hC; cases hC; exact hr
        · obtain ⟨C, hC, hr⟩ := hI.x.c4 s V c v hV hv
          rw [hC0] at hC; cases hC; exact Nat.ne_of_lt hr
      have h1 := hI.retrieveReturned (cid c)
      have k1 := (retrieveReturned_hk w (cid c)).1
      have hcl1 : getCl (ReqRes.retrieveReturned w (cid c)) c = some C0 := by
        rw [k1.getCl_eq]; exact hC0
      have hq1 := hq0.of_hk k1
      have hcfg1 := k1.cfg
      generalize ReqRes.retrieveReturned w (cid c) = w1 at h1 hcl1 hq1 hcfg1
      split
      · exact ⟨h1, fun q h => by simp at h⟩
      · next S hS =>
        split
        · exact ⟨h1, fun q h => by simp at h⟩
        · exact ⟨h1, fun q h => by simp at h⟩
        · exact ⟨h1.panic, fun q h => by simp at h⟩
        · next S' chunk hal =>
          have hk := allocate_key S
          rw [hal] at hk
          have h2 := h1.setSnd_same (S' := S') hS hk.1 hk.2
          have hcl2 : getCl (setSnd w1 (cid c) S') c = some C0 := by simpa using hcl1
          split
          · exact ⟨h2.panic, fun q h => by simp at h⟩
          · next ch ids hids =>
            have hf6 := h2.f.f6 c C0 hcl2
            have hcfg2 : (setSnd w1 (cid c) S').cfg = w.cfg := hcfg1
            have h3 := h2.setCl (C' := { C0 with chanIds := ids, ridCtr := C0.ridCtr + 1, loanCnt := C0.loanCnt + 1 }) hcl2 rfl rfl
              (Nat.le_succ _) (fun P hP => Nat.lt_succ_of_lt (h2.cl1 c C0 P hcl2 hP)) (h2.cl2 c C0 hcl2)
              (fun P hP m hm => h2.x.g1 c C0 P m hcl2 hP hm) (h2.x.cl3 c C0 hcl2)
              (h2.y.setCl_sub hcl2 (fun P hP => Or.inl ⟨P, hP, rfl, rfl⟩)) (Nat.le_refl _)
              (h2.f.setCl_sub hcl2 (List.Sublist.refl _) (fun P' hP' => ⟨P', hP', rfl⟩) (Nat.le_succ _)
                (by
                  show C0.qloans.length ≤ C0.loanCnt + 1 ∧ C0.loanCnt + 1 ≤ (setSnd w1 (cid c) S').cfg.maxLoans
                  rw [hcfg2] at hf6 ⊢; omega))
            refine ⟨h3, fun q hq => ?_⟩
            simp only [Option.some.injEq] at hq
            subst hq
            refine ⟨{ C0 with chanIds := ids, ridCtr := C0.ridCtr + 1, loanCnt := C0.loanCnt + 1 }, by rw [getCl_setCl]; exact if_pos rfl,
              Nat.lt_succ_self _, fun P hP => Nat.ne_of_lt (hI.cl1 c C0 P hC0 hP),
              fun q hq => Nat.ne_of_lt (hI.f.f1 c C0 q hC0 hq), ?_, Nat.lt_succ_of_le hf6.1⟩
            exact (hq1.of_same (w' := setSnd w1 (cid c) S') rfl rfl).of_same rfl rfl

theorem Inv.clientReleaseLoan {w : World} (hI : Inv w) (c : Nat) (q : QLoan)
    (hloan : ∀ C, getCl w c = some C → C.qloans.length < C.loanCnt) : Inv (clientReleaseLoan w c q) := by
  unfold ReqRes.clientReleaseLoan
  split
  · exact hI
  · next C hC =>
    have hf6 := hI.f.f6 c C hC
    have hl := hloan C hC
    refine Inv.sndReturnLoan ?_ _ _
    exact hI.setCl_frame' (C' := { C with chanIds := C.chanIds ++ [q.channel], loanCnt := C.loanCnt - 1 }) hC rfl rfl rfl rfl
      (fun P hP m hm => hI.x.g1 c C P m hC hP hm) (hI.x.cl3 c C hC)
      (hI.y.setCl_sub hC (fun P hP => Or.inl ⟨P, hP, rfl, rfl⟩)) rfl
      (hI.f.setCl_sub hC (List.Sublist.refl _) (fun P' hP' => ⟨P', hP', rfl⟩) (Nat.le_refl _)
        (by show C.qloans.length ≤ C.loanCnt - 1 ∧ C.loanCnt - 1 ≤ w.cfg.maxLoans; omega))

theorem Inv.clientSendLoan {w : World} (hI : Inv w) (c : Nat) (q : QLoan) (r tag : Nat) (hok : LoanOk w c q.rid) :
    Inv (clientSendLoan w c q r tag).1 := by
  unfold ReqRes.clientSendLoan
  obtain ⟨C, hC, hlt, hnp, hnq, hqb, hlen⟩ := hok
  rw [hC]
  simp only []
  split
  · exact hI.clientReleaseLoan c q (fun C' hC' => by rw [hC] at hC'; cases hC'; exact hlen)
  · next hroom => exact hI.sendRequest c r q.channel q.rid q.chunk tag C hC hlt hnp hnq hqb (Nat.lt_of_not_le hroom) hlen

theorem Inv.opSend {w : World} (hI : Inv w) (c r tag : Nat) : Inv (opSend w c r tag).1 := by
  unfold ReqRes.opSend
  split
  · exact hI
  · next C0 hC0 =>
    split
    · exact hI
    · split
      · exact hI
      · obtain ⟨h1, hok⟩ := hI.clientLoan c 0
        split
        · next w1 out heq => rw [heq] at h1; exact h1
        · next w1 q _ heq =>
          rw [heq] at h1 hok
          have h1 : Inv w1 := h1
          have hok : LoanOk w1 c q.rid := hok q rfl
          exact h1.clientSendLoan c q r tag hok

theorem mem_pairwise_qrid {l : List QLoan} (h : l.Pairwise (fun a b => a.rid ≠ b.rid)) {a b : QLoan} (ha : a ∈ l) (hb : b ∈ l)
    (hab : a.rid = b.rid) : a = b := by
  induction l with
  | nil => cases ha
  | cons x r ih =>
    rw [List.pairwise_cons] at h
    rcases List.mem_cons.mp ha with rfl | ha'
    · rcases List.mem_cons.mp hb with rfl | hb'
      · rfl
      · exact absurd hab (h.1 b hb')
    · rcases List.mem_cons.mp hb with rfl | hb'
      · exact absurd hab.symm (h.1 a ha')
      · exact ih h.2 ha' hb'

theorem Inv.opQLoan {w : World} (hI : Inv w) (c l : Nat) : Inv (opQLoan w c l).1 := by
  unfold ReqRes.opQLoan
  split
  · exact hI
  · next C0 hC0 =>
    split
    · exact hI
    · split
      · exact hI
      · obtain ⟨h1, hok⟩ := hI.clientLoan c l
        split
        · next w1 out heq => rw [heq] at h1; exact h1
        · next w1 q _ heq =>
          rw [heq] at h1 hok
          have h1 : Inv w1 := h1
          have hok : LoanOk w1 c q.rid := hok q rfl
          obtain ⟨C, hC, hlt, hnp, hnq, hqb, hlen⟩ := hok
          rw [hC]
          simp only []
          have hf6 := h1.f.f6 c C hC
          refine h1.setCl_frame' (C' := { C with qloans := C.qloans ++ [q], usedLoanLabels := l :: C.usedLoanLabels }) hC rfl rfl rfl rfl
            (fun P hP m hm => h1.x.g1 c C P m hC hP hm) (h1.x.cl3 c C hC)
            (h1.y.setCl_sub hC (fun P hP => Or.inl ⟨P, hP, rfl, rfl⟩)) rfl ?_
          refine h1.f.setCl' (c := c) rfl (fun _ => getCl_setCl _ _ _ _) (fun _ => rfl) (fun _ _ => rfl) ?_ ?_ ?_ ?_ ?_ ?_
          · intro q' hq'
            rcases List.mem_append.mp hq' with h | h
            · exact h1.f.f1 c C q' hC h
            · simp only [List.mem_singleton] at h; subst h; exact hlt
          · show (C.qloans ++ [q]).Pairwise _
            rw [List.pairwise_append]
            refine ⟨h1.f.f2 c C hC, List.pairwise_singleton _ _, ?_⟩
            intro a ha b hb
            simp only [List.mem_singleton] at hb; subst hb
            exact hnq a ha
          · intro q' hq' P hP
            rcases List.mem_append.mp hq' with h | h
            · exact h1.f.f3 c C q' P hC h hP
            · simp only [List.mem_singleton] at h; subst h; exact hnp P hP
          · intro q' hq' t conn ch x e hc hx he ht
            rcases List.mem_append.mp hq' with h | h
            · exact h1.f.f4 c C q' t conn ch x e hC h hc hx he ht
            · simp only [List.mem_singleton] at h; subst h; exact (hqb.1 t conn ch x e hc hx he ht).2
          · intro q' hq' s V v hV hv
            rcases List.mem_append.mp hq' with h | h
            · exact h1.f.f5 c C q' s V v hC h hV hv
            · simp only [List.mem_singleton] at h; subst h; exact hqb.2.2 s V v hV hv
          · show (C.qloans ++ [q]).length ≤ C.loanCnt ∧ C.loanCnt ≤ w1.cfg.maxLoans
            simp only [List.length_append, List.length_singleton]
            omega

/-- a kept loan is taken out of the list of loans: what is known about it afterwards -/
theorem Inv.takeLoan {w : World} (hI : Inv w) (c l : Nat) (C : Client) (q : QLoan) (hC : getCl w c = some C)
    (hfind : C.qloans.find? (·.label = l) = some q) :
    Inv (ReqRes.setCl w c { C with qloans := C.qloans.filter (·.label ≠ l) }) ∧
    LoanOk (ReqRes.setCl w c { C with qloans := C.qloans.filter (·.label ≠ l) }) c q.rid := by
  have hq : q ∈ C.qloans := List.mem_of_find?_eq_some hfind
  have hlab : q.label = l := by simpa using List.find?_some hfind
  have hf6 := hI.f.f6 c C hC
  have hlt : (C.qloans.filter (·.label ≠ l)).length < C.qloans.length := by
    apply List.length_filter_lt_length_iff_exists.mpr
    exact ⟨q, hq, by simp [hlab]⟩
  refine ⟨?_, ?_⟩
  · exact hI.setCl_frame' (C' := { C with qloans := C.qloans.filter (·.label ≠ l) }) hC rfl rfl rfl rfl
      (fun P hP m hm => hI.x.g1 c C P m hC hP hm) (hI.x.cl3 c C hC)
      (hI.y.setCl_sub hC (fun P hP => Or.inl ⟨P, hP, rfl, rfl⟩)) rfl
      (hI.f.setCl_sub hC List.filter_sublist (fun P' hP' => ⟨P', hP', rfl⟩) (Nat.le_refl _)
        (by show (C.qloans.filter (·.label ≠ l)).length ≤ C.loanCnt ∧ C.loanCnt ≤ w.cfg.maxLoans; omega))
  · refine ⟨{ C with qloans := C.qloans.filter (·.label ≠ l) }, by rw [getCl_setCl]; exact if_pos rfl,
      hI.f.f1 c C q hC hq, fun P hP => hI.f.f3 c C q P hC hq hP, ?_, ?_, ?_⟩
    · intro q' hq' e
      obtain ⟨hq1, hq2⟩ := List.mem_filter.mp hq'
      have := mem_pairwise_qrid (hI.f.f2 c C hC) hq1 hq e
      subst this
      simp [hlab] at hq2
    · refine ⟨fun t conn ch x e' hc hx he ht => ?_, fun s V v hV hv => ?_, fun s V v hV hv => ?_⟩
      · obtain ⟨_, _, C', hC', _, hs⟩ := hI.e1 (cid c) t conn ch x e' hc hx he ht
        simp only [cid_n] at hC'; rw [hC] at hC'; cases hC'
        exact ⟨hs, hI.f.f4 c C q t conn ch x e' hC hq hc hx he ht⟩
      · obtain ⟨C', hC', hr⟩ := hI.x.c4s s V c v hV hv
        rw [hC] at hC'; cases hC'; exact hr
      · exact hI.f.f5 c C q s V v hC hq hV hv
    · show (C.qloans.filter (·.label ≠ l)).length < C.loanCnt
      omega

theorem Inv.opQSend {w : World} (hI : Inv w) (c l r tag : Nat) : Inv (opQSend w c l r tag).1 := by
  unfold ReqRes.opQSend
  split
  · exact hI
  · next C hC =>
    split
    · exact hI
    · next q hfind =>
      split
      · exact hI
      · obtain ⟨h1, hok⟩ := hI.takeLoan c l C q hC hfind
        exact (h1.clientSendLoan c q r tag hok).clientDestroy c

theorem Inv.opQDrop {w : World} (hI : Inv w) (c l : Nat) : Inv (opQDrop w c l).1 := by
  unfold ReqRes.opQDrop
  split
  · exact hI
  · next C hC =>
    split
    · exact hI
    · next q hfind =>
      obtain ⟨h1, C', hC', _, _, _, _, hlen⟩ := hI.takeLoan c l C q hC hfind
      exact (h1.clientReleaseLoan c q (fun C'' hC'' => by rw [hC'] at hC''; cases hC''; exact hlen)).clientDestroy c

/-- what is known about a request handed out by `Server::receive` -/
def RecvOk (s : Nat) (w : World) (m : Msg) : Prop :=
  MsgOk w m ∧
  (∀ V q', getSv w s = some V → (m.client, q') ∈ V.gRecvSeq → q' < m.gSeq) ∧
  (∀ V v', getSv w s = some V → (m.client, v') ∈ V.gRecvReq → v' ≠ m.rid) ∧
  (∀ (conn : Conn) (x : Chan) (e : Entry), getConn w (cid m.client) (sid s) = some conn → conn.chans[0]? = some x →
    e ∈ x.sub → m.gSeq < e.msg.gSeq ∧ m.rid ≠ e.msg.rid) ∧
  (∀ C (q : QLoan), getCl w m.client = some C → q ∈ C.qloans → m.rid ≠ q.rid)

/-- the loop of `Server::receive`: the invariant is kept, and a returned request was written by a known
client, was sent after everything handed out before and before everything still queued, and its request id
differs from all of those and from every loan -/
theorem serverReceive_inv (s : Nat) (fuel : Nat) (w : World) (hI : Inv w) :
    Inv (serverReceive w s fuel).1 ∧
    ∀ h m, (serverReceive w s fuel).2 = some (.some h m) → RecvOk s (serverReceive w s fuel).1 m := by
  induction fuel generalizing w with
  | zero => exact ⟨hI, fun _ _ h => by cases h⟩
  | succ fuel ih =>
    simp only [serverReceive]
    have h1 := hI.serverUpdate s
    generalize ReqRes.serverUpdate w s = w1 at h1
    split
    · exact ⟨h1, fun _ _ h => by cases h⟩
    · have hs := rcvReceive_spec w1 (sid s) 0
      split
      · next w2 heq => rw [heq] at hs; exact ⟨h1.hkR hs.1, fun _ _ h => by cases h⟩
      · next w2 heq => rw [heq] at hs; exact ⟨h1.hkR hs.1, fun _ _ h => by cases h⟩
      · next w2 h m heq =>
        rw [heq] at hs
        have h2 : Inv w2 := h1.hkR hs.1
        have hm : RecvOk s w2 m := by
          obtain ⟨_, c, x, c', x', hc, hx, hc', hx', hsuf, _⟩ := hs.2 h m rfl
          have hmem : (⟨h.chunk, m⟩ : Entry) ∈ x.sub := hsuf.subset (List.mem_cons_self ..)
          obtain ⟨hsrv, hcl, C, hC, hr⟩ := h1.e1 h.origin (sid s) c 0 x _ hc hx hmem rfl
          simp only [] at hcl
          have horig : h.origin = cid m.client := by rw [hcl]; exact pid_eq_cid _ hsrv
          refine ⟨MsgOk.of_clients ⟨C, by rw [hcl]; exact hC, hr⟩ hs.1.toHk.clients, ?_, ?_, ?_, ?_⟩
          · intro V v' hV hv
            rw [hs.1.toHk.getSv_eq] at hV
            exact h1.x.cs.c3 s V m.client v' c x _ hV hv (horig ▸ hc) hx hmem
          · intro V v' hV hv
            rw [hs.1.toHk.getSv_eq] at hV
            exact h1.x.cr.c3 s V m.client v' c x _ hV hv (horig ▸ hc) hx hmem
          · intro conn y e hcy hy he
            rw [← horig, hc'] at hcy; cases hcy
            rw [hx'] at hy; cases hy
            have hpw := (h1.x.cs.c2 h.origin (sid s) c 0 x hc hx rfl).sublist (hsuf.sublist.map _)
            have hpr := (h1.x.cr.c2 h.origin (sid s) c 0 x hc hx rfl).sublist (hsuf.sublist.map _)
            simp only [List.map_cons, List.pairwise_cons] at hpw hpr
            exact ⟨hpw.1 _ (List.mem_map.mpr ⟨e, he, rfl⟩), hpr.1 _ (List.mem_map.mpr ⟨e, he, rfl⟩)⟩
          · intro C' q hC' hq
            rw [hs.1.toHk.getCl_eq] at hC'
            exact h1.f.f4 m.client C' q (sid s) c 0 x _ hC' hq (horig ▸ hc) hx hmem rfl
        split
        · split
          · refine ih _ ((h2.rcvRelease (sid s) h).activeFinish s _ _ _)
          · exact ⟨h2, fun h' m' e => by cases e; exact hm⟩
        · split
          · exact ⟨h2, fun h' m' e => by cases e; exact hm⟩
          · exact ih _ (h2.rcvRelease _ _)

theorem connIdOf_spec (l : List (Option Pid)) (t : Pid) (k i : Nat) (h : connIdOf l t k = some i) :
    k ≤ i ∧ l.getD (i - k) none = some t := by
  induction l generalizing k with
  | nil => simp [connIdOf] at h
  | cons a r ih =>
    simp only [connIdOf] at h
    split at h
    · next ha => cases h; simp [ha]
    · obtain ⟨h1, h2⟩ := ih (k + 1) h
      refine ⟨by omega, ?_⟩
      have : i - k = (i - (k + 1)) + 1 := by omega
      rw [this]; simpa using h2

theorem Inv.opRecvReq {w : World} (hI : Inv w) (s a : Nat) : Inv (opRecvReq w s a).1 := by
  unfold ReqRes.opRecvReq
  split
  · exact hI
  · split
    · exact hI
    · split
      · exact hI
      · obtain ⟨h1, hm⟩ := serverReceive_inv s (totalQueued w.conns + 1) w hI
        split
        · exact hI.panic
        · next w1 heq => rw [heq] at h1; exact h1
        · next w1 heq => rw [heq] at h1; exact h1
        · next w1 h m heq =>
          rw [heq] at h1 hm
          obtain ⟨hmo, hlog1s, hlog1, hlog3, hloan⟩ := hm h m rfl
          split
          · next V hV =>
            have hnotin : (m.client, m.rid) ∉ V.gRecvReq := fun hin => hlog1 V m.rid hV hin rfl
            refine h1.setSv s _ ?hact (h1.x.setSv_log hV rfl rfl rfl rfl (fun v' hv => hlog1 V v' hV hv)
              (fun q' hq => hlog1s V q' hV hq) hlog3 hmo) ?hy
              (h1.f.setSv' (s := s) rfl (fun _ => rfl) (fun _ => getSv_setSv _ _ _ _) (fun _ _ => rfl) (fun c v hv => by
                rcases List.mem_append.mp hv with hv | hv
                · exact Or.inl ⟨V, hV, hv⟩
                · simp only [List.mem_singleton, Prod.mk.injEq] at hv
                  obtain ⟨rfl, rfl⟩ := hv
                  exact Or.inr hloan))
            case hy =>
              refine h1.y.setSv s _ (fun V0 hV0 x hx => by rw [hV] at hV0; cases hV0; exact List.mem_append_left _ hx) ?_ ?_ ?_ ?_
              · show (V.actives ++ [_]).Pairwise _
                rw [List.pairwise_append]
                refine ⟨h1.y.u1 s V hV, List.pairwise_singleton _ _, ?_⟩
                intro A0 hA0 b hb
                simp only [List.mem_singleton] at hb; subst hb
                intro hh
                have := h1.y.u2 s V A0 hV hA0
                rw [hh.1, hh.2] at this
                exact hnotin this
              · intro A hA
                simp only [List.mem_append, List.mem_singleton] at hA
                rcases hA with hA | rfl
                · exact List.mem_append_left _ (h1.y.u2 s V A hV hA)
                · exact List.mem_append_right _ (List.mem_singleton.mpr rfl)
              · intro A hA t conn ch x e hc hx he hf
                simp only [List.mem_append, List.mem_singleton] at hA
                rcases hA with hA | rfl
                · exact h1.y.b3 s V A t conn ch x e hV hA hc hx he hf
                · exfalso
                  have hts : t.srv = false := by
                    cases hts : t.srv with
                    | false => rfl
                    | true => exact absurd (h1.e1 (sid s) t conn ch x e hc hx he hts).1 (by simp)
                  obtain ⟨_, _, V', hV', hmem⟩ := h1.y.b0 (sid s) t conn ch x e hc hx he hts
                  simp only [sid_n] at hV'
                  rw [hV] at hV'; cases hV'
                  rw [hf.1, hf.2] at hmem
                  exact hnotin hmem
              · intro A hA c C P m' hC hP hm' hs hf
                simp only [List.mem_append, List.mem_singleton] at hA
                rcases hA with hA | rfl
                · exact h1.y.b4 s V A c C P m' hV hA hC hP hm' hs hf
                · exfalso
                  obtain ⟨V', hV', hmem⟩ := h1.y.g2 c C P m' hC hP hm'
                  rw [hs, hV] at hV'; cases hV'
                  rw [hf.1, hf.2] at hmem
                  exact hnotin hmem
            case hact =>
            intro A hA
            simp only [List.mem_append, List.mem_singleton] at hA
            rcases hA with hA | rfl
            · exact ⟨h1.a2 s V A hV hA, fun i C hi hC hex =>
                ⟨h1.a1 s V A i C hV hA hi hC hex, fun S t hS ht => h1.j s V A i S t C hV hA hi hS ht hC hex⟩⟩
            · refine ⟨(let ⟨C, hC, h, _⟩ := hmo; ⟨C, hC, h⟩), fun i C hi hC hex => ?_⟩
              simp only [] at hi hC
              unfold sndConns at hi
              split at hi
              · next S hS =>
                obtain ⟨_, hget⟩ := connIdOf_spec _ _ _ _ hi
                simp only [Nat.sub_zero] at hget
                obtain ⟨C', hC', hsl⟩ := h1.r2 s S i _ hS hget
                simp only [cid_n] at hC'
                rw [hC] at hC'; cases hC'
                refine ⟨hsl hex, fun S' t hS' ht => ?_⟩
                rw [hS] at hS'; cases hS'
                rw [hget] at ht; cases ht; rfl
              · simp [connIdOf] at hi
          · exact h1

theorem pairwise_map_origin (l : List Active) (f : Active → Active) (hf : ∀ x, (f x).msg = x.msg)
    (h : l.Pairwise (fun a b => ¬ (a.msg.client = b.msg.client ∧ a.msg.rid = b.msg.rid))) :
    (l.map f).Pairwise (fun a b => ¬ (a.msg.client = b.msg.client ∧ a.msg.rid = b.msg.rid)) := by
  rw [List.pairwise_map]
  exact h.imp (fun {a b} hab => by rw [hf a, hf b]; exact hab)

theorem Inv.updActive {w : World} (hI : Inv w) (s a : Nat) (f : Active → Active)
    (hf : ∀ x, (f x).connId = x.connId ∧ (f x).msg = x.msg ∧ x.gSent ≤ (f x).gSent) : Inv (ReqRes.updActive w s a f) := by
  unfold ReqRes.updActive
  split
  · next V hV =>
    refine hI.setSv_sub hV ?_ ?_ rfl rfl rfl rfl
    · intro A' hA'
      simp only [List.mem_map] at hA'
      obtain ⟨A, hA, rfl⟩ := hA'
      refine ⟨A, hA, ?_⟩
      split
      · exact hf A
      · exact ⟨rfl, rfl, Nat.le_refl _⟩
    · exact pairwise_map_origin _ _ (fun x => by split; exact (hf x).2.1; rfl) (hI.y.u1 s V hV)
  · exact hI

theorem getSv_updActive_actives (w : World) (s a : Nat) (f : Active → Active) (V : Server) (hV : getSv w s = some V) :
    ∃ V', getSv (ReqRes.updActive w s a f) s = some V' ∧
      V'.actives = V.actives.map (fun x => if x.label = a then f x else x) := by
  unfold ReqRes.updActive; rw [hV]
  exact ⟨{ V with actives := V.actives.map fun x => if x.label = a then f x else x }, by simp, rfl⟩

theorem respondTarget_some (w : World) (s : Nat) (connId : Option Nat) (t : Pid) (h : respondTarget w s connId = some t) :
    ∃ i S, connId = some i ∧ getSnd w (sid s) = some S ∧ S.conns.getD i none = some t := by
  unfold respondTarget at h
  split at h
  · next i =>
    unfold sndConns at h
    split at h
    · next S hS => exact ⟨i, S, rfl, hS, h⟩
    · simp at h
  · cases h

/-- every response server `s` sent for request `(c, v)` - queued anywhere or received - has a number below `k` -/
def RBelow (w : World) (s c v k : Nat) : Prop :=
  (∀ (t : Pid) (conn : Conn) (ch : Nat) (x : Chan) (e' : Entry), getConn w (sid s) t = some conn → conn.chans[ch]? = some x →
    e' ∈ x.sub → e'.msg.forReq c v → e'.msg.gSeq < k) ∧
  (∀ c' C (P : Pending) (m : Msg), getCl w c' = some C → P ∈ C.pendings → m ∈ P.gRecv → m.server = s → m.forReq c v → m.gSeq < k)

theorem RBelow.of_hk {w w' : World} {me : Pid} {s c v k : Nat} (h : RBelow w s c v k) (hk : Hk me w w') : RBelow w' s c v k := by
  refine ⟨?_, fun c' C P m hC => h.2 c' C P m (by rw [← hk.getCl_eq]; exact hC)⟩
  intro t conn ch x e' hc hx he
  rcases hk.conns _ _ conn hc with ⟨c0, hc0, l⟩ | fr
  · obtain ⟨x0, hx0, l0⟩ := l.1 ch x hx
    exact h.1 t c0 ch x0 e' hc0 hx0 (l0.2.subset he)
  · rw [(fr ch x hx).1] at he; cases he

theorem RBelow.of_same {w w' : World} {s c v k : Nat} (h : RBelow w s c v k) (h1 : w'.conns = w.conns)
    (h2 : w'.clients = w.clients) : RBelow w' s c v k :=
  ⟨fun t conn ch x e' hc => h.1 t conn ch x e' (by unfold getConn at *; rw [← h1]; exact hc),
   fun c' C P m hC => h.2 c' C P m (by unfold getCl at *; rw [← h2]; exact hC)⟩

/-- what `sendResponse` needs to know about the active request it was called for: the current record of
the server has an active request with the same routing data, label and response counter -/
def ActiveIn (w : World) (s : Nat) (A : Active) : Prop :=
  ∃ V, getSv w s = some V ∧ ∃ A' ∈ V.actives, A'.connId = A.connId ∧ A'.msg = A.msg ∧ A'.gSent = A.gSent ∧ A'.label = A.label

theorem Inv.respondDeliver {w : World} (hI : Inv w) (s : Nat) (A : Active) (e : Entry)
    (hA : ∃ V, getSv w s = some V ∧ ∃ A' ∈ V.actives, A'.connId = A.connId ∧ A'.msg = A.msg)
    (he : e.msg.gClient = A.msg.client) (hrid : e.msg.rid = A.msg.rid) (hsrv : e.msg.server = s)
    (hst : e.msg.gStale = ReqRes.clientGone w A.msg.client)
    (hbelow : RBelow w s A.msg.client A.msg.rid e.msg.gSeq)
    (habove : ∀ V (A'' : Active), getSv w s = some V → A'' ∈ V.actives → A''.msg.client = A.msg.client → A''.msg.rid = A.msg.rid →
      e.msg.gSeq < A''.gSent) :
    Inv (respondDeliver w s A e) := by
  unfold ReqRes.respondDeliver
  simp only []
  have h2 : Inv (respondRetrieve w s A.connId) := by
    unfold respondRetrieve; split
    · exact hI.retrieveReturned _
    · exact hI
  have k2 : Hk (sid s) w (respondRetrieve w s A.connId) := by
    unfold respondRetrieve; split
    · exact (retrieveReturned_hk _ _).1
    · exact Hk.refl _ _
  have hb2 := hbelow.of_hk k2
  generalize respondRetrieve w s A.connId = w2 at h2 k2 hb2
  split
  · next t ht =>
    obtain ⟨i, S, hi, hS, hget⟩ := respondTarget_some _ _ _ _ ht
    have hkind : t.srv = false := by simpa using h2.slotKind _ S i t hS hget
    obtain ⟨V, hV, A', hA', e1, e2⟩ := hA
    have hV2 : getSv w2 s = some V := by rw [k2.getSv_eq]; exact hV
    refine h2.deliverTo _ _ _ _ (fun h => by rw [hkind] at h; cases h) (fun _ => ?_)
      (fun h => by rw [hkind] at h; cases h) (fun c' s' V v _ ht' => by rw [ht'] at hkind; cases hkind)
      (fun c' s' V v _ ht' => by rw [ht'] at hkind; cases hkind) (fun h => by rw [hkind] at h; cases h) ?_
    · rw [he, hst]
      unfold ReqRes.clientGone
      cases hcl : getCl w A.msg.client with
      | none => right; rfl
      | some C =>
        cases hex : C.ex with
        | false => right; simp [hex]
        | true =>
          left
          have hC2 : getCl w2 A'.msg.client = some C := by rw [k2.getCl_eq, e2]; exact hcl
          have := h2.j s V A' i S t C hV2 hA' (e1.trans hi) hS hget hC2 hex
          rw [this, e2]; rfl
    · refine h2.y.deliverTo _ _ _ _ (fun _ => ⟨rfl, hsrv, V, hV2, ?_⟩) ?_ ?_ ?_
      · rw [he, hrid, ← e2]; exact h2.y.u2 s V A' hV2 hA'
      · intro _ conn x e' hc hx he' hf
        rw [he, hrid] at hf
        exact hb2.1 t conn _ x e' hc hx he' hf
      · intro c C P m htc hC hP hm hp hf
        simp only [sid_inj] at hp
        have hf' : m.forReq A.msg.client A.msg.rid := by
          unfold Msg.forReq at hf ⊢; rw [← he, ← hrid]; exact ⟨hf.1.symm, hf.2.symm⟩
        exact hb2.2 c C P m hC hP hm hp.symm hf'
      · intro s' V' A'' hp hV' hA'' hf
        simp only [sid_inj] at hp; subst hp
        rw [k2.getSv_eq] at hV'
        exact habove V' A'' hV' hA'' (by rw [← hf.1, he]) (by rw [← hf.2, hrid])
  · exact h2

theorem mem_pairwise_eq {l : List Active} (h : l.Pairwise (fun a b => ¬ (a.msg.client = b.msg.client ∧ a.msg.rid = b.msg.rid)))
    {a b : Active} (ha : a ∈ l) (hb : b ∈ l) (hab : a.msg.client = b.msg.client ∧ a.msg.rid = b.msg.rid) : a = b := by
  induction l with
  | nil => cases ha
  | cons x r ih =>
    rw [List.pairwise_cons] at h
    rcases List.mem_cons.mp ha with rfl | ha'
    · rcases List.mem_cons.mp hb with rfl | hb'
      · rfl
      · exact absurd hab (h.1 b hb')
    · rcases List.mem_cons.mp hb with rfl | hb'
      · exact absurd ⟨hab.1.symm, hab.2.symm⟩ (h.1 a ha')
      · exact ih h.2 ha' hb'

theorem Inv.sendResponse {w : World} (hI : Inv w) (s : Nat) (A : Active) (chunk tag : Nat) (hA : ActiveIn w s A) :
    Inv (sendResponse w s A chunk tag).1 := by
  unfold ReqRes.sendResponse
  simp only []
  have h1 := hI.serverUpdate s
  have k1 := (serverUpdate_spec w s (hI.sndInit _) (fun R hR => by simpa [rcvInitState, initState] using hI.rcvInit _ R hR)).1
  obtain ⟨V, hV, A', hA', e1, e2, e3, e4⟩ := hA
  -- everything server `s` sent for this request so far is below the counter of the active request
  have hb0 : RBelow w s A.msg.client A.msg.rid A.gSent := by
    refine ⟨fun t conn ch x e' hc hx he' hf => ?_, fun c' C P m hC hP hm hs hf => ?_⟩
    · rw [← e3]; exact hI.y.b3 s V A' t conn ch x e' hV hA' hc hx he' (by rw [e2]; exact hf)
    · rw [← e3]; exact hI.y.b4 s V A' c' C P m hV hA' hC hP hm hs (by rw [e2]; exact hf)
  have hb1 := hb0.of_hk k1
  have hV1 : getSv (ReqRes.serverUpdate w s) s = some V := by rw [k1.getSv_eq]; exact hV
  generalize ReqRes.serverUpdate w s = w1 at h1 k1 hb1 hV1
  split
  · exact hI.panic
  · have h2 := h1.updActive s A.label (fun x => { x with loans := x.loans - 1, gSent := x.gSent + 1 })
      (fun x => ⟨rfl, rfl, Nat.le_succ _⟩)
    obtain ⟨V2, hV2, hact⟩ := getSv_updActive_actives w1 s A.label (fun x => { x with loans := x.loans - 1, gSent := x.gSent + 1 }) V hV1
    have hb2 : RBelow (ReqRes.updActive w1 s A.label fun x => { x with loans := x.loans - 1, gSent := x.gSent + 1 }) s
        A.msg.client A.msg.rid A.gSent := by
      refine hb1.of_same ?_ ?_ <;> (unfold ReqRes.updActive; split <;> rfl)
    have hcg : ReqRes.clientGone (ReqRes.updActive w1 s A.label fun x => { x with loans := x.loans - 1, gSent := x.gSent + 1 }) A.msg.client
        = ReqRes.clientGone w1 A.msg.client := by
      unfold ReqRes.clientGone
      have : ∀ c, getCl (ReqRes.updActive w1 s A.label fun x => { x with loans := x.loans - 1, gSent := x.gSent + 1 }) c = getCl w1 c := by
        intro c; unfold ReqRes.updActive; split <;> rfl
      rw [this]
    have h3 := h2.respondDeliver s A { chunk := chunk, msg := responseMsg w1 s A tag }
      ⟨V2, hV2, { A' with loans := A'.loans - 1, gSent := A'.gSent + 1 }, by
          rw [hact]; exact List.mem_map.mpr ⟨A', hA', by simp [e4]⟩, e1, e2⟩
      rfl rfl rfl (by rw [hcg]; rfl) hb2 ?_
    · exact h3.sndReturnLoan _ _
    · intro V'' A'' hV'' hA'' hc hr
      rw [hV2] at hV''; cases hV''
      rw [hact] at hA''
      obtain ⟨A0, hA0, rfl⟩ := List.mem_map.mp hA''
      have hA0' : A0 = A' := by
        refine mem_pairwise_eq (h1.y.u1 s V hV1) hA0 hA' ?_
        have hm : (if A0.label = A.label then ({ A0 with loans := A0.loans - 1, gSent := A0.gSent + 1 } : Active) else A0).msg = A0.msg := by
          split <;> rfl
        rw [hm] at hc hr
        rw [e2]; exact ⟨hc, hr⟩
      subst hA0'
      simp only [e4, if_true]
      show (responseMsg w1 s A tag).gSeq < A0.gSent + 1
      show A.gSent < A0.gSent + 1
      omega

theorem findActive_mem {V : Server} {a : Nat} {A : Active} (h : findActive V a = some A) : A ∈ V.actives ∧ A.label = a := by
  unfold findActive at h
  refine ⟨List.mem_of_find?_eq_some h, ?_⟩
  have := List.find?_some h
  simp only [Bool.and_eq_true, decide_eq_true_eq] at this
  exact this.1

theorem findActiveAny_mem {V : Server} {a : Nat} {A : Active} (h : findActiveAny V a = some A) : A ∈ V.actives ∧ A.label = a := by
  unfold findActiveAny at h
  refine ⟨List.mem_of_find?_eq_some h, ?_⟩
  have := List.find?_some h
  simpa using this

/-- `ActiveRequest::loan_chunk`: the invariant is kept, and after a successful loan the active request is
still there with the same routing data and response counter -/
theorem Inv.activeLoan {w : World} (hI : Inv w) (s a lpr : Nat) (A : Active) (V0 : Server) (hV0 : getSv w s = some V0)
    (hA : A ∈ V0.actives) (hlab : A.label = a) :
    Inv (activeLoan w s a lpr A).1 ∧
    ∀ chunk, (activeLoan w s a lpr A).2.1 = some chunk → ActiveIn (activeLoan w s a lpr A).1 s A := by
  unfold ReqRes.activeLoan
  split
  · exact ⟨hI, fun _ h => by simp at h⟩
  · simp only []
    have h1 := hI.updActive s a (fun x => { x with loans := x.loans + 1 }) (fun x => ⟨rfl, rfl, Nat.le_refl _⟩)
    have hsv1 : ActiveIn (ReqRes.updActive w s a fun x => { x with loans := x.loans + 1 }) s A := by
      obtain ⟨V', hV', hact⟩ := getSv_updActive_actives w s a (fun x => { x with loans := x.loans + 1 }) V0 hV0
      refine ⟨V', hV', { A with loans := A.loans + 1 }, by rw [hact]; exact List.mem_map.mpr ⟨A, hA, by simp [hlab]⟩, rfl, rfl, rfl, rfl⟩
    generalize ReqRes.updActive w s a (fun x => { x with loans := x.loans + 1 }) = w1 at h1 hsv1
    have h2 := h1.retrieveReturned (sid s)
    have k2 := (retrieveReturned_hk w1 (sid s)).1
    generalize ReqRes.retrieveReturned w1 (sid s) = w2 at h2 k2
    split
    · exact ⟨h2, fun _ h => by simp at h⟩
    · next S hS =>
      split
      · exact ⟨h2.updActive s a (fun x => { x with loans := x.loans - 1 }) (fun x => ⟨rfl, rfl, Nat.le_refl _⟩), fun _ h => by simp at h⟩
      · exact ⟨h2.updActive s a (fun x => { x with loans := x.loans - 1 }) (fun x => ⟨rfl, rfl, Nat.le_refl _⟩), fun _ h => by simp at h⟩
      · exact ⟨h2.panic, fun _ h => by simp at h⟩
      · next S' chunk hal =>
        have hk := allocate_key S
        rw [hal] at hk
        have h3 := h2.setSnd_same (S' := S') hS hk.1 hk.2
        refine ⟨h3, fun _ _ => ?_⟩
        obtain ⟨V, hV, rest⟩ := hsv1
        exact ⟨V, by simp only [getSv_setSnd]; rw [k2.getSv_eq]; exact hV, rest⟩

theorem Inv.opRespond {w : World} (hI : Inv w) (s a tag : Nat) : Inv (opRespond w s a tag).1 := by
  unfold ReqRes.opRespond
  split
  · exact hI
  · next V0 hV0 =>
    split
    · exact hI
    · next A hfind =>
      obtain ⟨hA, hlab⟩ := findActive_mem hfind
      obtain ⟨h1, hok⟩ := hI.activeLoan s a V0.loanPerReq A V0 hV0 hA hlab
      split
      · next w1 out heq => rw [heq] at h1; exact h1
      · next w1 chunk _ heq =>
        rw [heq] at h1 hok
        have h1 : Inv w1 := h1
        have hok : ActiveIn w1 s A := hok chunk rfl
        exact h1.sendResponse s A chunk tag hok

theorem Inv.reapActive {w : World} (hI : Inv w) (s a : Nat) : Inv (reapActive w s a) := by
  unfold ReqRes.reapActive
  split
  · exact hI
  · next V hV =>
    exact hI.setSv_sub hV (fun A' hA' => ⟨A', (List.mem_filter.mp hA').1, rfl, rfl, Nat.le_refl _⟩)
      ((hI.y.u1 s V hV).sublist List.filter_sublist) rfl rfl rfl rfl

theorem Inv.opRLoan {w : World} (hI : Inv w) (s a l : Nat) : Inv (opRLoan w s a l).1 := by
  unfold ReqRes.opRLoan
  split
  · exact hI
  · next V0 hV0 =>
    split
    · exact hI
    · next A hfind =>
      split
      · exact hI
      · obtain ⟨hA, hlab⟩ := findActive_mem hfind
        obtain ⟨h1, _⟩ := hI.activeLoan s a V0.loanPerReq A V0 hV0 hA hlab
        split
        · next w1 out heq => rw [heq] at h1; exact h1
        · next w1 chunk _ heq =>
          rw [heq] at h1
          have h1 : Inv w1 := h1
          split
          · exact h1
          · next V hV =>
            exact h1.setSv_sub hV (fun A' hA' => ⟨A', hA', rfl, rfl, Nat.le_refl _⟩) (h1.y.u1 s V hV) rfl rfl rfl rfl

theorem Inv.opRSend {w : World} (hI : Inv w) (s l tag : Nat) : Inv (opRSend w s l tag).1 := by
  unfold ReqRes.opRSend
  split
  · exact hI
  · next V hV =>
    split
    · exact hI
    · next L hL =>
      split
      · exact hI
      · next A hfind =>
        obtain ⟨hA, hlab⟩ := findActiveAny_mem hfind
        have h1 := hI.setSv_sub (V' := { V with rloans := V.rloans.filter (·.label ≠ l) }) hV
          (fun A' hA' => ⟨A', hA', rfl, rfl, Nat.le_refl _⟩) (hI.y.u1 s V hV) rfl rfl rfl rfl
        have hin : ActiveIn (ReqRes.setSv w s { V with rloans := V.rloans.filter (·.label ≠ l) }) s A :=
          ⟨{ V with rloans := V.rloans.filter (·.label ≠ l) }, by rw [getSv_setSv]; exact if_pos rfl, A, hA, rfl, rfl, rfl, rfl⟩
        exact (((h1.sendResponse s A L.chunk tag hin).reapActive s L.aLabel).serverDestroy s)

theorem Inv.opRDrop {w : World} (hI : Inv w) (s l : Nat) : Inv (opRDrop w s l).1 := by
  unfold ReqRes.opRDrop
  split
  · exact hI
  · next V hV =>
    split
    · exact hI
    · next L hL =>
      have h1 := hI.setSv_sub (V' := { V with rloans := V.rloans.filter (·.label ≠ l) }) hV
        (fun A' hA' => ⟨A', hA', rfl, rfl, Nat.le_refl _⟩) (hI.y.u1 s V hV) rfl rfl rfl rfl
      exact (((((h1.updActive s L.aLabel (fun x => { x with loans := x.loans - 1 }) (fun x => ⟨rfl, rfl, Nat.le_refl _⟩)).sndReturnLoan
        (sid s) L.chunk).reapActive s L.aLabel).serverDestroy s))

theorem Inv.opDActive {w : World} (hI : Inv w) (s a : Nat) : Inv (opDActive w s a).1 := by
  unfold ReqRes.opDActive
  split
  · exact hI
  · next V hV =>
    split
    · exact hI
    · next A _ =>
      exact ((((((hI.updActive s a (fun x => { x with live := false }) (fun x => ⟨rfl, rfl, Nat.le_refl _⟩)).reapActive s a).rcvRelease
        (sid s) A.det).activeFinish s A.connId A.msg.channel A.msg.rid).serverDestroy s))

/-- what is known about a response handed out by `PendingResponse::receive` of a pending response of
client `c` on channel `ch` with request id `rid` -/
def RespOk (c ch rid : Nat) (w : World) (m : Msg) : Prop :=
  m.rid = rid ∧ (m.gClient = c ∨ m.gStale = true) ∧
  (∃ V, getSv w m.server = some V ∧ (m.gClient, m.rid) ∈ V.gRecvReq) ∧
  (∀ C (P : Pending) (m0 : Msg), getCl w c = some C → P ∈ C.pendings → P.channel = ch → m0 ∈ P.gRecv → m0.server = m.server →
    m0.gClient = m.gClient → m0.rid = m.rid → m0.gSeq < m.gSeq) ∧
  (∀ (conn : Conn) (x : Chan) (e : Entry), getConn w (sid m.server) (cid c) = some conn → conn.chans[ch]? = some x → e ∈ x.sub →
    e.msg.forReq m.gClient m.rid → m.gSeq < e.msg.gSeq) ∧
  (∀ V (A : Active), getSv w m.server = some V → A ∈ V.actives → m.forReq A.msg.client A.msg.rid → m.gSeq < A.gSent)

theorem pendingReceive_inv (c ch rid : Nat) (fuel : Nat) (w : World) (hI : Inv w) :
    Inv (pendingReceive w c ch rid fuel).1 ∧ (∀ c', getCl (pendingReceive w c ch rid fuel).1 c' = getCl w c') ∧
    ∀ h m, (pendingReceive w c ch rid fuel).2 = some (.some h m) → RespOk c ch rid (pendingReceive w c ch rid fuel).1 m := by
  induction fuel generalizing w with
  | zero => exact ⟨hI, fun _ => rfl, fun _ _ h => by cases h⟩
  | succ fuel ih =>
    simp only [pendingReceive]
    have h1 := hI.clientUpdate c
    have k1 := (clientUpdate_spec w c (hI.sndInit _) (fun R hR => by simpa [rcvInitState, initState] using hI.rcvInit _ R hR)).1
    generalize ReqRes.clientUpdate w c = w1 at h1 k1
    split
    · exact ⟨h1, k1.getCl_eq, fun _ _ h => by cases h⟩
    · have hs := rcvReceive_spec w1 (cid c) ch
      split
      · next w2 heq => rw [heq] at hs; exact ⟨h1.hkR hs.1, fun c' => (hs.1.toHk.getCl_eq c').trans (k1.getCl_eq c'), fun _ _ h => by cases h⟩
      · next w2 heq => rw [heq] at hs; exact ⟨h1.hkR hs.1, fun c' => (hs.1.toHk.getCl_eq c').trans (k1.getCl_eq c'), fun _ _ h => by cases h⟩
      · next w2 h m heq =>
        rw [heq] at hs
        have h2 : Inv w2 := h1.hkR hs.1
        have hcl2 : ∀ c', getCl w2 c' = getCl w c' := fun c' => (hs.1.toHk.getCl_eq c').trans (k1.getCl_eq c')
        split
        · obtain ⟨i1, i2, i3⟩ := ih _ (h2.rcvRelease _ _)
          exact ⟨i1, fun c' => (i2 c').trans (((rcvRelease_hk w2 (cid c) h).toHk.getCl_eq c').trans (hcl2 c')), i3⟩
        · next hrid =>
          refine ⟨h2, hcl2, fun h' m' e => ?_⟩
          cases e
          obtain ⟨_, c0, x, c', x', hc, hx, hc', hx', hsuf, _⟩ := hs.2 h m rfl
          have hmem : (⟨h.chunk, m⟩ : Entry) ∈ x.sub := hsuf.subset (List.mem_cons_self ..)
          have he2 := h1.e2 h.origin (cid c) c0 ch x _ hc hx hmem rfl
          obtain ⟨hosrv, hosv, V, hV, hVm⟩ := h1.y.b0 h.origin (cid c) c0 ch x _ hc hx hmem rfl
          simp only [] at hosv hVm he2
          have horig : h.origin = sid m.server := by rw [hosv]; exact pid_eq_sid _ hosrv
          have hsv2 : ∀ s', getSv w2 s' = getSv w1 s' := hs.1.toHk.getSv_eq
          have hcl21 : ∀ c', getCl w2 c' = getCl w1 c' := hs.1.toHk.getCl_eq
          refine ⟨by simpa using hrid, he2, ⟨V, by rw [hsv2, hosv]; exact hV, hVm⟩, ?_, ?_, ?_⟩
          · intro C P m0 hC hP hch hm0 hs0 hg0 hr0
            rw [hcl21] at hC
            refine h1.y.b2 c C P m0 c0 x _ hC hP hm0 (by rw [hs0, ← horig]; exact hc) (by rw [hch]; exact hx) hmem ?_
            exact ⟨hg0.symm, hr0.symm⟩
          · intro conn y e hcy hy he hf
            rw [← horig, hc'] at hcy; cases hcy
            rw [hx'] at hy; cases hy
            have hpw := (h1.y.b1 h.origin (cid c) c0 ch x m.gClient m.rid hc hx rfl).sublist (seqsOf_suffix hsuf _ _)
            have hself : (⟨h.chunk, m⟩ : Entry).msg.forReq m.gClient m.rid := ⟨rfl, rfl⟩
            unfold seqsOf at hpw
            rw [List.filter_cons_of_pos (by simpa using hself), List.map_cons, List.pairwise_cons] at hpw
            exact hpw.1 _ (List.mem_map.mpr ⟨e, List.mem_filter.mpr ⟨he, by simpa using hf⟩, rfl⟩)
          · intro V' A hV' hA hf
            rw [hsv2] at hV'
            exact h1.y.b3 m.server V' A (cid c) c0 ch x _ hV' hA (horig ▸ hc) hx hmem hf

theorem map_gRecv_keys (l : List Pending) (r : Nat) (m : Msg) :
    (l.map fun x => if x.rid = r then { x with gRecv := x.gRecv ++ [m] } else x).map (fun P => (P.rid, P.channel))
      = l.map (fun P => (P.rid, P.channel)) := by
  rw [List.map_map]
  apply List.map_congr_left
  intro x _
  simp only [Function.comp]
  split <;> rfl

theorem recvSeqs_append (l : List Msg) (m : Msg) (s c : Nat) :
    recvSeqs (l ++ [m]) s c = recvSeqs l s c ++ (if m.server = s ∧ m.gClient = c then [m.gSeq] else []) := by
  unfold recvSeqs
  rw [List.filter_append, List.map_append]
  congr 1
  simp only [List.filter_cons, List.filter_nil]
  split <;> simp_all

theorem mem_pairwise_rid {l : List Pending} (h : l.Pairwise (fun a b => a.rid ≠ b.rid)) {a b : Pending} (ha : a ∈ l) (hb : b ∈ l)
    (hab : a.rid = b.rid) : a = b := by
  induction l with
  | nil => cases ha
  | cons x r ih =>
    rw [List.pairwise_cons] at h
    rcases List.mem_cons.mp ha with rfl | ha'
    · rcases List.mem_cons.mp hb with rfl | hb'
      · rfl
      · exact absurd hab (h.1 b hb')
    · rcases List.mem_cons.mp hb with rfl | hb'
      · exact absurd hab.symm (h.1 a ha')
      · exact ih h.2 ha' hb'

theorem Inv.opRecvResp {w : World} (hI : Inv w) (c r : Nat) : Inv (opRecvResp w c r).1 := by
  unfold ReqRes.opRecvResp
  split
  · exact hI
  · next C0 hC0 =>
    split
    · exact hI
    · next P hfind =>
      have hP0 : P ∈ C0.pendings := List.mem_of_find?_eq_some hfind
      obtain ⟨h1, hclw, hm⟩ := pendingReceive_inv c P.channel P.rid (totalQueued w.conns + 1) w hI
      split
      · exact hI.panic
      · next w1 heq => rw [heq] at h1; exact h1
      · next w1 heq => rw [heq] at h1; exact h1
      · next w1 h m heq =>
        rw [heq] at h1 hm hclw
        obtain ⟨hm1, hm2, hmV, hmOld, hmQ, hmA⟩ := hm h m rfl
        split
        · exact h1
        · next C hC =>
          have hCC : C = C0 := by
            have := hclw c; simp only [] at this
            rw [hC, hC0] at this; exact Option.some.inj this
          subst hCC
          -- a pending response with the request id of `P` is `P`
          have hsame : ∀ P1 ∈ C.pendings, P1.rid = P.rid → P1 = P := fun P1 hP1 he =>
            mem_pairwise_rid (h1.cl2 c C hC) hP1 hP0 he
          refine h1.setCl_frame hC rfl rfl rfl (map_gRecv_keys _ _ _) ?_
            (by simpa only [List.length_map] using h1.x.cl3 c C hC) ?_ rfl rfl rfl
          · intro P' hP' m' hm'
            simp only [List.mem_map] at hP'
            obtain ⟨P1, hP1, rfl⟩ := hP'
            by_cases hlab : P1.rid = P.rid
            · simp only [hlab, if_true, List.mem_append, List.mem_singleton] at hm' ⊢
              rcases hm' with hm' | rfl
              · exact hlab ▸ h1.x.g1 c C P1 m' hC hP1 hm'
              · exact ⟨hm1, hm2⟩
            · simp only [hlab, if_false] at hm' ⊢
              exact h1.x.g1 c C P1 m' hC hP1 hm'
          · refine h1.y.setCl ?_ ?_ ?_ ?_
            · intro P' hP' m' hm'
              simp only [List.mem_map] at hP'
              obtain ⟨P1, hP1, rfl⟩ := hP'
              by_cases hlab : P1.rid = P.rid
              · simp only [hlab, if_true, List.mem_append, List.mem_singleton] at hm'
                rcases hm' with hm' | rfl
                · exact h1.y.g2 c C P1 m' hC hP1 hm'
                · exact hmV
              · simp only [hlab, if_false] at hm'
                exact h1.y.g2 c C P1 m' hC hP1 hm'
            · intro P' hP' s c'
              simp only [List.mem_map] at hP'
              obtain ⟨P1, hP1, rfl⟩ := hP'
              by_cases hlab : P1.rid = P.rid
              · simp only [hlab, if_true]
                have hPP := hsame P1 hP1 hlab
                rw [recvSeqs_append, List.pairwise_append]
                refine ⟨h1.y.g3 c C P1 s c' hC hP1, by split <;> simp, ?_⟩
                intro a ha b hb
                split at hb
                · next hmatch =>
                  simp only [List.mem_singleton] at hb; subst hb
                  unfold recvSeqs at ha
                  obtain ⟨m0, hm0, rfl⟩ := List.mem_map.mp ha
                  obtain ⟨hm01, hm02⟩ := List.mem_filter.mp hm0
                  simp only [decide_eq_true_eq] at hm02
                  refine hmOld C P1 m0 hC hP1 (by rw [hPP]) hm01 (hm02.1.trans hmatch.1.symm) (hm02.2.trans hmatch.2.symm) ?_
                  rw [(h1.x.g1 c C P1 m0 hC hP1 hm01).1, hlab, hm1]
                · cases hb
              · simp only [hlab, if_false]
                exact h1.y.g3 c C P1 s c' hC hP1
            · intro P' hP' m' hm' conn x e hc hx he hf
              simp only [List.mem_map] at hP'
              obtain ⟨P1, hP1, rfl⟩ := hP'
              by_cases hlab : P1.rid = P.rid
              · simp only [hlab, if_true, List.mem_append, List.mem_singleton] at hm' hx
                have hPP := hsame P1 hP1 hlab
                rcases hm' with hm' | rfl
                · exact h1.y.b2 c C P1 m' conn x e hC hP1 hm' hc hx he hf
                · exact hmQ conn x e hc (by rw [← hPP]; exact hx) he hf
              · simp only [hlab, if_false] at hm' hx
                exact h1.y.b2 c C P1 m' conn x e hC hP1 hm' hc hx he hf
            · intro P' hP' m' hm' V A hV hA hf
              simp only [List.mem_map] at hP'
              obtain ⟨P1, hP1, rfl⟩ := hP'
              by_cases hlab : P1.rid = P.rid
              · simp only [hlab, if_true, List.mem_append, List.mem_singleton] at hm'
                rcases hm' with hm' | rfl
                · exact h1.y.b4 _ V A c C P1 m' hV hA hC hP1 hm' rfl hf
                · exact hmA V A hV hA hf
              · simp only [hlab, if_false] at hm'
                exact h1.y.b4 _ V A c C P1 m' hV hA hC hP1 hm' rfl hf

theorem Inv.opDResp {w : World} (hI : Inv w) (c k : Nat) : Inv (opDResp w c k).1 := by
  unfold ReqRes.opDResp
  split
  · exact hI
  · next C hC =>
    split
    · exact hI
    · next h _ =>
      exact ((hI.setCl_frame (C' := { C with held := C.held.eraseIdx k }) hC rfl rfl rfl rfl
        (fun P hP m hm => hI.x.g1 c C P m hC hP hm) (hI.x.cl3 c C hC)
        (hI.y.setCl_sub hC (fun P hP => Or.inl ⟨P, hP, rfl, rfl⟩)) rfl rfl rfl).rcvRelease (cid c) h).clientDestroy c

theorem Inv.opDPending {w : World} (hI : Inv w) (c r : Nat) : Inv (opDPending w c r).1 := by
  unfold ReqRes.opDPending
  split
  · exact hI
  · next C hC =>
    split
    · exact hI
    · next P _ =>
      have h1 := hI.rcvMapAll (cid c) P.channel (fun x => x.close P.rid) (fun x => close_sub x _)
      have hC1 : getCl (ReqRes.rcvMapAll w (cid c) P.channel fun x => x.close P.rid) c = some C := by
        rw [getCl_rcvMapAll]; exact hC
      have h2 := h1.setCl (C' := C.dropPending P) hC1 rfl rfl (Nat.le_refl _)
        (fun P' hP' => hI.cl1 c C P' hC (List.mem_filter.mp hP').1)
        ((hI.cl2 c C hC).sublist List.filter_sublist)
        (fun P' hP' m hm => hI.x.g1 c C P' m hC (List.mem_filter.mp hP').1 hm)
        (by
          have hP : P ∈ C.pendings := List.mem_of_find?_eq_some (by assumption)
          have h3 := hI.x.cl3 c C hC
          show (C.pendings.filter (fun x => x.label ≠ P.label)).length ≤ C.activeCnt - 1 ∧ C.activeCnt - 1 ≤ C.maxActive
          have hlt : (C.pendings.filter (fun x => x.label ≠ P.label)).length < C.pendings.length := by
            apply List.length_filter_lt_length_iff_exists.mpr
            exact ⟨P, hP, by simp⟩
          omega)
        (h1.y.setCl_sub hC1 (fun P' hP' => Or.inl ⟨P', (List.mem_filter.mp hP').1, rfl, rfl⟩))
        (Nat.le_refl _)
        (h1.f.setCl_sub hC1 (List.Sublist.refl _) (fun P' hP' => ⟨P', (List.mem_filter.mp hP').1, rfl⟩) (Nat.le_refl _)
          (h1.f.f6 c C hC1))
      exact ((h2.sndReturnLoan (cid c) P.chunk).clientDestroy c)

theorem Inv.opHint {w : World} (hI : Inv w) (c r : Nat) : Inv (opHint w c r).1 := by
  unfold ReqRes.opHint
  split
  · exact hI
  · split
    · exact hI.rcvMapAll _ _ _ (fun x => setHint_sub x _)
    · exact hI

theorem Inv.opHasReq {w : World} (hI : Inv w) (s : Nat) : Inv (opHasReq w s).1 := by
  unfold ReqRes.opHasReq
  split
  · exact hI
  · split
    · exact hI
    · simp only []
      split
      · exact hI.panic
      · split
        · exact hI.serverUpdate s
        · exact hI.serverUpdate s

theorem Inv.opUpdC {w : World} (hI : Inv w) (c : Nat) : Inv (opUpdC w c).1 := by
  unfold ReqRes.opUpdC
  split
  · exact hI
  · split
    · exact hI
    · exact Inv.finishPanic hI (r := (ReqRes.clientUpdate w c, "ok")) (hI.clientUpdate c)

theorem Inv.opUpdS {w : World} (hI : Inv w) (s : Nat) : Inv (opUpdS w s).1 := by
  unfold ReqRes.opUpdS
  split
  · exact hI
  · split
    · exact hI
    · exact Inv.finishPanic hI (r := (ReqRes.serverUpdate w s, "ok")) (hI.serverUpdate s)

theorem opConnected_world (w : World) (c r : Nat) : (opConnected w c r).1 = w := by
  unfold opConnected; split
  · rfl
  · split <;> rfl
theorem opAConnected_world (w : World) (s a : Nat) : (opAConnected w s a).1 = w := by
  unfold opAConnected; split
  · rfl
  · split <;> rfl
theorem opAHint_world (w : World) (s a : Nat) : (opAHint w s a).1 = w := by
  unfold opAHint; split
  · rfl
  · split <;> rfl
theorem opHas_world (w : World) (c r : Nat) : (opHas w c r).1 = w := by
  unfold opHas; split
  · rfl
  · split <;> rfl

theorem Inv.step {w : World} (hI : Inv w) (op : Op) : Inv (step w op).1 := by
  cases op with
  | cclient c ma => exact hI.opCClient c ma
  | dclient c => exact hI.opDClient c
  | cserver s ml => exact hI.opCServer s ml
  | dserver s => exact hI.opDServer s
  | send c r tag => exact hI.opSend c r tag
  | recvreq s a => exact hI.opRecvReq s a
  | respond s a tag => exact hI.opRespond s a tag
  | dactive s a => exact hI.opDActive s a
  | recvresp c r => exact hI.opRecvResp c r
  | dresp c k => exact hI.opDResp c k
  | dpending c r => exact hI.opDPending c r
  | connected c r => show Inv (opConnected w c r).1; rw [opConnected_world]; exact hI
  | aconnected s a => show Inv (opAConnected w s a).1; rw [opAConnected_world]; exact hI
  | hint c r => exact hI.opHint c r
  | ahint s a => show Inv (opAHint w s a).1; rw [opAHint_world]; exact hI
  | has c r => show Inv (opHas w c r).1; rw [opHas_world]; exact hI
  | hasreq s => exact hI.opHasReq s
  | updC c => exact hI.opUpdC c
  | updS s => exact hI.opUpdS s
  | qloan c l => exact hI.opQLoan c l
  | qsend c l r tag => exact hI.opQSend c l r tag
  | qdrop c l => exact hI.opQDrop c l
  | rloan s a l => exact hI.opRLoan s a l
  | rsend s l tag => exact hI.opRSend s l tag
  | rdrop s l => exact hI.opRDrop s l

/-- the invariant holds in every reachable state -/
theorem inv_of_reach {c : Cfg} {w : World} (h : Reach c w) : Inv w := by
  induction h with
  | init => exact Inv.init c
  | step op _ _ ih => exact ih.step op

end Iox2.ReqRes
