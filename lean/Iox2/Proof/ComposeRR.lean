/-
Invariant of the request-response composition model (`Model/Compose.lean`, namespace `RR`) for the
program `[refresh, openChannel, count, deliver]`.
-/
import Iox2.Model.Compose
namespace Iox2.Compose.RR

def nominal : List COp := [.refresh, .openChannel, .count, .deliver]

/-- the running request has opened its response channel already -/
def Opened (rem : List COp) : Prop := COp.openChannel ∉ rem

/-- every request that is under way to the server is answerable or given up by its client -/
def Covered (s : St) (p : Nat × Nat) : Prop :=
  p.1 ∈ s.dropped ∨ p ∈ s.alive ∨ ∃ rem, s.cur = some (p.1, p.2, rem) ∧ Opened rem

structure Inv (s : St) : Prop where
  aliveOpen : ∀ p ∈ s.alive, s.chan p.2 = some p.1
  aliveNodup : (s.alive.map (·.2)).Nodup
  curOk : ∀ r c rem, s.cur = some (r, c, rem) →
            (∃ pre, pre ++ rem = nominal) ∧ c ∉ s.alive.map (·.2) ∧ (Opened rem → s.chan c = some r)
  queueCov : ∀ p ∈ s.queue, Covered s p
  poppedCov : ∀ p, s.popped = some p → Covered s p
  disc : ∀ r ∈ s.discarded, r ∈ s.dropped

theorem inv_init : Inv St.init := by
  constructor <;> simp [St.init]

theorem chanFree_iff (s : St) (c : Nat) : chanFree s c = true ↔ c ∉ s.alive.map (·.2) := by
  simp only [chanFree, List.all_eq_true, bne_iff_ne, ne_eq, List.mem_map, not_exists, not_and]

theorem cbegin_inv (s : St) (c : Nat) (h : Inv s) : Inv (cbegin nominal s c) := by
  unfold cbegin
  split
  next hc =>
    simp only [Bool.and_eq_true, Option.isNone_iff_eq_none] at hc
    obtain ⟨hn, hf⟩ := hc
    have hf' := (chanFree_iff s c).1 hf
    refine ⟨h.aliveOpen, h.aliveNodup, ?_, ?_, ?_, h.disc⟩
    · intro r c' rem e
      simp only [Option.some.injEq, Prod.mk.injEq] at e
      obtain ⟨rfl, rfl, rfl⟩ := e
      refine ⟨⟨[], rfl⟩, hf', ?_⟩
      intro ho; exact absurd (by simp [nominal]) ho
    · intro p hp
      rcases h.queueCov p hp with h1 | h1 | ⟨rem, e, _⟩
      · exact Or.inl h1
      · exact Or.inr (Or.inl h1)
      · rw [hn] at e; cases e
    · intro p hp
      rcases h.poppedCov p hp with h1 | h1 | ⟨rem, e, _⟩
      · exact Or.inl h1
      · exact Or.inr (Or.inl h1)
      · rw [hn] at e; cases e
  next => exact h

theorem suffix_cases (pre rem : List COp) (op : COp) (h : pre ++ op :: rem = nominal) :
    (op = .refresh ∧ rem = [.openChannel, .count, .deliver]) ∨ (op = .openChannel ∧ rem = [.count, .deliver])
    ∨ (op = .count ∧ rem = [.deliver]) ∨ (op = .deliver ∧ rem = []) := by
  unfold nominal at h
  match pre, h with
  | [], h => simp at h; simp [h.1, h.2]
  | [_], h => simp at h; simp [h.2.1, h.2.2]
  | [_, _], h => simp at h; simp [h.2.2.1, h.2.2.2]
  | [_, _, _], h => simp at h; simp [h.2.2.2.1, h.2.2.2.2]
  | _ :: _ :: _ :: _ :: _, h => simp at h

theorem covered_mono (s t : St) (p : Nat × Nat) (hd : ∀ r ∈ s.dropped, r ∈ t.dropped) (ha : ∀ q ∈ s.alive, q ∈ t.alive ∨ q.1 ∈ t.dropped)
    (hc : ∀ rem, s.cur = some (p.1, p.2, rem) → Opened rem → (∃ rem', t.cur = some (p.1, p.2, rem') ∧ Opened rem') ∨ p ∈ t.alive)
    (h : Covered s p) : Covered t p := by
  rcases h with h | h | ⟨rem, e, ho⟩
  · exact Or.inl (hd _ h)
  · rcases ha p h with h' | h'
    · exact Or.inr (Or.inl h')
    · exact Or.inl h'
  · rcases hc rem e ho with h' | h'
    · exact Or.inr (Or.inr h')
    · exact Or.inr (Or.inl h')

theorem cstep_inv (s : St) (h : Inv s) : Inv (cstep s) := by
  unfold cstep
  split
  next => exact h
  next r c hcur =>
    -- the call returns: the caller owns the pending response
    obtain ⟨_, hfree, hopen⟩ := h.curOk r c [] hcur
    have ho : s.chan c = some r := hopen (by simp [Opened])
    have cov : ∀ p, Covered s p → Covered { s with cur := none, alive := s.alive ++ [(r, c)] } p := by
      intro p hp
      refine covered_mono s _ p (fun _ h => h) (fun q hq => Or.inl (by simp [hq])) ?_ hp
      intro rem e _
      rw [hcur] at e; simp at e
      right; simp; right; exact Prod.ext e.1.symm e.2.1.symm
    refine ⟨?_, ?_, by simp, fun p hp => cov p (h.queueCov p hp), fun p hp => cov p (h.poppedCov p hp), h.disc⟩
    · intro p hp
      simp only [List.mem_append, List.mem_singleton] at hp
      rcases hp with hp | rfl
      · exact h.aliveOpen p hp
      · exact ho
    · simp only [List.map_append, List.map_cons, List.map_nil]
      rw [List.nodup_append]
      refine ⟨h.aliveNodup, by simp, ?_⟩
      intro a ha b hb; simp at hb; subst hb
      intro e; exact hfree (e ▸ ha)
  next r c op rest hcur =>
    obtain ⟨⟨pre, hpre⟩, hfree, hopen⟩ := h.curOk r c (op :: rest) hcur
    have hsuf : ∃ pre', pre' ++ rest = nominal := ⟨pre ++ [op], by simpa using hpre⟩
    rcases suffix_cases pre rest op hpre with ⟨rfl, hr⟩ | ⟨rfl, hr⟩ | ⟨rfl, hr⟩ | ⟨rfl, hr⟩
    · -- refresh
      have cov : ∀ p, Covered s p → Covered { cexec s r c .refresh with cur := some (r, c, rest) } p := by
        intro p hp
        refine covered_mono s _ p (fun _ h => h) (fun q hq => Or.inl hq) ?_ hp
        intro rem e ho'
        rw [hcur] at e; simp at e
        exact absurd (by simp [← e.2.2, hr]) ho'
      refine ⟨h.aliveOpen, h.aliveNodup, ?_, fun p hp => cov p (h.queueCov p hp), fun p hp => cov p (h.poppedCov p hp), h.disc⟩
      intro r' c' rem' e; simp [cexec] at e; obtain ⟨rfl, rfl, rfl⟩ := e
      refine ⟨hsuf, hfree, ?_⟩
      intro ho'; exact absurd (by simp [hr]) ho'
    · -- openChannel
      have cov : ∀ p, Covered s p → Covered { cexec s r c .openChannel with cur := some (r, c, rest) } p := by
        intro p hp
        refine covered_mono s _ p (fun _ h => h) (fun q hq => Or.inl hq) ?_ hp
        intro rem e ho'
        rw [hcur] at e; simp at e
        exact absurd (by simp [← e.2.2]) ho'
      refine ⟨?_, h.aliveNodup, ?_, fun p hp => cov p (h.queueCov p hp), fun p hp => cov p (h.poppedCov p hp), h.disc⟩
      · intro p hp
        have hne : p.2 ≠ c := fun e => hfree (e ▸ List.mem_map_of_mem hp)
        simp [cexec, hne]; exact h.aliveOpen p hp
      · intro r' c' rem' e; simp [cexec] at e; obtain ⟨rfl, rfl, rfl⟩ := e
        exact ⟨hsuf, hfree, fun _ => by simp [cexec]⟩
    · -- count
      have hop : Opened (COp.count :: rest) := by simp [Opened, hr]
      have cov : ∀ p, Covered s p → Covered { cexec s r c .count with cur := some (r, c, rest) } p := by
        intro p hp
        refine covered_mono s _ p (fun _ h => h) (fun q hq => Or.inl hq) ?_ hp
        intro rem e _
        rw [hcur] at e; simp at e
        left; exact ⟨rest, by simp [cexec, e.1, e.2.1], by simp [Opened, hr]⟩
      refine ⟨h.aliveOpen, h.aliveNodup, ?_, fun p hp => cov p (h.queueCov p hp), fun p hp => cov p (h.poppedCov p hp), h.disc⟩
      intro r' c' rem' e; simp [cexec] at e; obtain ⟨rfl, rfl, rfl⟩ := e
      exact ⟨hsuf, hfree, fun _ => hopen hop⟩
    · -- deliver
      have hop : Opened (COp.deliver :: rest) := by simp [Opened, hr]
      have cov : ∀ p, Covered s p → Covered { cexec s r c .deliver with cur := some (r, c, rest) } p := by
        intro p hp
        refine covered_mono s _ p (fun _ h => h) (fun q hq => Or.inl hq) ?_ hp
        intro rem e _
        rw [hcur] at e; simp at e
        left; exact ⟨rest, by simp [cexec, e.1, e.2.1], by simp [Opened, hr]⟩
      refine ⟨h.aliveOpen, h.aliveNodup, ?_, ?_, fun p hp => cov p (h.poppedCov p hp), h.disc⟩
      · intro r' c' rem' e; simp [cexec] at e; obtain ⟨rfl, rfl, rfl⟩ := e
        exact ⟨hsuf, hfree, fun _ => hopen hop⟩
      · intro p hp
        simp only [cexec, List.mem_append, List.mem_singleton] at hp
        rcases hp with hp | rfl
        · exact cov p (h.queueCov p hp)
        · exact Or.inr (Or.inr ⟨rest, rfl, by simp [Opened, hr]⟩)

theorem cdrop_inv (s : St) (k : Nat) (h : Inv s) : Inv (cdrop s k) := by
  unfold cdrop
  split
  next => exact h
  next r c hk =>
    have hmem : (r, c) ∈ s.alive := List.mem_of_getElem? hk
    have herase : ∀ q ∈ s.alive, q ∈ s.alive.eraseIdx k ∨ q = (r, c) := by
      intro q hq
      by_cases e : q = (r, c)
      · exact Or.inr e
      · left
        obtain ⟨i, hi⟩ := List.getElem?_of_mem hq
        rw [List.mem_eraseIdx_iff_getElem?]
        refine ⟨i, ?_, hi⟩
        intro e'; subst e'; rw [hk] at hi; exact e (by simpa using hi.symm)
    have hsub : ∀ q ∈ s.alive.eraseIdx k, q ∈ s.alive := fun q hq => List.mem_of_mem_eraseIdx hq
    -- the channels of the others are different from c
    have hother : ∀ q ∈ s.alive.eraseIdx k, q.2 ≠ c := by
      intro q hq e
      rw [List.mem_eraseIdx_iff_getElem?] at hq
      obtain ⟨i, hik, hi⟩ := hq
      have hil : i < s.alive.length := by
        rcases Nat.lt_or_ge i s.alive.length with h' | h'
        · exact h'
        · rw [List.getElem?_eq_none h'] at hi; cases hi
      have h1 : (s.alive.map (·.2))[i]? = (s.alive.map (·.2))[k]? := by
        simp [List.getElem?_map, hi, hk, e]
      exact hik ((List.getElem?_inj (by simpa using hil) h.aliveNodup).1 h1)
    have cov : ∀ p, Covered s p → Covered { s with alive := s.alive.eraseIdx k, dropped := r :: s.dropped, chan := fun j => if j = c ∧ s.chan c = some r then none else s.chan j } p := by
      intro p hp
      refine covered_mono s _ p (fun _ h => by simp [h]) ?_ (fun rem e ho => Or.inl ⟨rem, e, ho⟩) hp
      intro q hq
      rcases herase q hq with h' | rfl
      · exact Or.inl h'
      · right; simp
    refine ⟨?_, ?_, ?_, fun p hp => cov p (h.queueCov p hp), fun p hp => cov p (h.poppedCov p hp), ?_⟩
    · intro p hp
      simp [hother p hp]; exact h.aliveOpen p (hsub p hp)
    · show ((s.alive.eraseIdx k).map (·.2)).Nodup
      exact List.Nodup.sublist ((List.eraseIdx_sublist s.alive k).map _) h.aliveNodup
    · intro r' c' rem' e
      obtain ⟨hs, hfree, hopen⟩ := h.curOk r' c' rem' e
      refine ⟨hs, ?_, ?_⟩
      · intro hm
        simp only [List.mem_map] at hm hfree
        obtain ⟨q, hq, rfl⟩ := hm
        exact hfree ⟨q, hsub q hq, rfl⟩
      · intro ho
        have hne : c' ≠ c := fun e' => hfree (e' ▸ List.mem_map_of_mem hmem)
        simp [hne]; exact hopen ho
    · intro r' hr'; simp; exact Or.inr (h.disc r' hr')

theorem spop_inv (s : St) (h : Inv s) : Inv (spop s) := by
  unfold spop
  split
  next q rest hp hq =>
    have cov : ∀ p, Covered s p → Covered { s with popped := some q, queue := rest } p := fun p hp => hp
    refine ⟨h.aliveOpen, h.aliveNodup, h.curOk, ?_, ?_, h.disc⟩
    · intro p hp'; exact cov p (h.queueCov p (by rw [hq]; simp [hp']))
    · intro p hp'; simp at hp'; subst hp'; exact cov _ (h.queueCov _ (by rw [hq]; simp))
  next => exact h

theorem sjudge_inv (s : St) (h : Inv s) : Inv (sjudge s) := by
  unfold sjudge
  split
  next => exact h
  next r c hp =>
    split
    next hc =>
      exact ⟨h.aliveOpen, h.aliveNodup, h.curOk, h.queueCov, by simp, h.disc⟩
    next hc =>
      refine ⟨h.aliveOpen, h.aliveNodup, h.curOk, h.queueCov, by simp, ?_⟩
      intro r' hr'
      simp only [List.mem_append, List.mem_singleton] at hr'
      rcases hr' with hr' | rfl
      · exact h.disc r' hr'
      · rcases h.poppedCov (r', c) hp with h1 | h1 | ⟨rem, e, ho⟩
        · exact h1
        · exact absurd (h.aliveOpen _ h1) hc
        · exact absurd ((h.curOk r' c rem e).2.2 ho) hc

theorem reach_inv (s : St) (h : Reach nominal s) : Inv s := by
  induction h with
  | init => exact inv_init
  | cbegin c _ ih => exact cbegin_inv _ c ih
  | cstep _ ih => exact cstep_inv _ ih
  | cdrop k _ ih => exact cdrop_inv _ k ih
  | spop _ ih => exact spop_inv _ ih
  | sjudge _ ih => exact sjudge_inv _ ih

end Iox2.Compose.RR
