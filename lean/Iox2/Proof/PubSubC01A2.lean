/-
Layer A: slot-map interface, per-connection log lemmas (`trySend`, receive), attach / detach.
-/
import Iox2.Proof.PubSubC01A1
namespace Iox2.PubSub.C01P
open Iox2.PubSub
open Iox2.C16.SlotMapP (abs WInv)

variable {cfg : Cfg} {np ns : Option Nat} {w : World}

/-! ### slot map interface -/

theorem smGet_eq_abs (m : SlotMap.St Nat) (k : Nat) : smGet m k = abs m k := by
  unfold smGet
  rw [Iox2.C16.SlotMapP.get_w]
  simp only [abs, List.getD_eq_getElem?_getD]
  cases h1 : m.idxToData[k]? with
  | none => rfl
  | some o =>
    cases o with
    | none => rfl
    | some di =>
      simp only [Option.getD_some]
      cases h2 : m.data[di]? with
      | none => rfl
      | some e => cases e <;> rfl

theorem smInsert_spec {m m' : SlotMap.St Nat} {e k : Nat} (h : WInv m) (hi : smInsert m e = (m', some k)) :
    WInv m' ∧ abs m k = none ∧ ∀ k', abs m' k' = if k' = k then some e else abs m k' := by
  unfold smInsert at hi
  rcases Iox2.C16.SlotMapP.insert_w m e h with ⟨k0, s', hst, _, hk0, _, _, hw, habs, _⟩ | ⟨_, hst, _⟩
  · rw [hst] at hi
    simp only [Prod.mk.injEq, Option.some.injEq] at hi
    obtain ⟨rfl, rfl⟩ := hi
    exact ⟨hw, Iox2.C16.SlotMapP.abs_unused hk0, habs⟩
  · rw [hst] at hi
    simp at hi

theorem smRemove_spec {m : SlotMap.St Nat} (k : Nat) (h : WInv m) :
    WInv (smRemove m k) ∧ ∀ k', abs (smRemove m k) k' = if k' = k then none else abs m k' := by
  unfold smRemove
  obtain ⟨s', hst, _, hw, habs, _⟩ := Iox2.C16.SlotMapP.remove_w m k h
  rw [hst]
  exact ⟨hw, habs⟩

/-! ### list facts -/

theorem Il.snoc_left {a b l : List Nat} (x : Nat) (h : Il a b l) : Il (a ++ [x]) b (l ++ [x]) := by
  induction h with
  | nil => exact Il.left Il.nil
  | left _ ih => exact Il.left ih
  | right _ ih => exact Il.right ih

theorem Il.snoc_right {a b l : List Nat} (x : Nat) (h : Il a b l) : Il a (b ++ [x]) (l ++ [x]) := by
  induction h with
  | nil => exact Il.right Il.nil
  | left _ ih => exact Il.left ih
  | right _ ih => exact Il.right ih

theorem Il.nil_nil {l : List Nat} (h : Il [] [] l) : l = [] := by
  cases h; rfl

theorem Il.left_sublist {a b l : List Nat} (h : Il a b l) : a.Sublist l := by
  induction h with
  | nil => exact List.Sublist.slnil
  | left _ ih => exact ih.cons_cons _
  | right _ ih => exact ih.cons _

theorem Il.length {a b l : List Nat} (h : Il a b l) : l.length = a.length + b.length := by
  induction h with
  | nil => rfl
  | left _ ih => simp [ih]; omega
  | right _ ih => simp [ih]; omega

/-! ### the per-connection log -/

theorem ConnLog.fresh {ov : Bool} {cn : Conn} (h1 : cn.sub = []) (h2 : cn.gDelivered = []) (h3 : cn.gReceived = [])
    (h4 : cn.gEvicted = []) (h5 : cn.gSkipped = []) (hc : 1 ≤ cn.cap) : ConnLog ov cn := by
  refine ⟨⟨[], ?_, ?_⟩, fun _ => h4, fun _ => h5, ?_, hc, fun _ h => absurd h4 h⟩
  · rw [h3, h4]; exact Il.nil
  · simp [pend, h1, h2]
  · simp [pend, h1]

/-- a connection update that does not touch the logs -/
theorem ConnLog.congr {ov : Bool} {c x : Conn} (h : ConnLog ov c) (h1 : x.sub = c.sub)
    (h2 : x.gDelivered = c.gDelivered) (h3 : x.gReceived = c.gReceived) (h4 : x.gEvicted = c.gEvicted)
    (h5 : x.gSkipped = c.gSkipped) (hc : x.cap = c.cap) : ConnLog ov x := by
  obtain ⟨⟨l, hl1, hl2⟩, a, b, c1, c2, c3⟩ := h
  have hp : pend x = pend c := by simp [pend, h1]
  refine ⟨⟨l, ?_, ?_⟩, ?_, ?_, ?_, ?_, ?_⟩
  · rw [h3, h4]; exact hl1
  · rw [h2, hp]; exact hl2
  · rw [h4]; exact a
  · rw [h5]; exact b
  · rw [hp, hc]; exact c1
  · rw [hc]; exact c2
  · rw [h3, h4, hp, hc]; exact c3

theorem trySend_pid (c : Conn) (ov : Bool) (ch q : Nat) : (c.trySend ov ch q).1.pid = c.pid := by
  unfold Conn.trySend
  split
  · rfl
  · simp only
    split
    · split
      · rfl
      · split <;> rfl
    · rfl

theorem trySend_sid (c : Conn) (ov : Bool) (ch q : Nat) : (c.trySend ov ch q).1.sid = c.sid := by
  unfold Conn.trySend
  split
  · rfl
  · simp only
    split
    · split
      · rfl
      · split <;> rfl
    · rfl

theorem trySend_sAtt (c : Conn) (ov : Bool) (ch q : Nat) : (c.trySend ov ch q).1.sAtt = c.sAtt := by
  unfold Conn.trySend
  split
  · rfl
  · simp only
    split
    · split
      · rfl
      · split <;> rfl
    · rfl

theorem trySend_rAtt (c : Conn) (ov : Bool) (ch q : Nat) : (c.trySend ov ch q).1.rAtt = c.rAtt := by
  unfold Conn.trySend
  split
  · rfl
  · simp only
    split
    · split
      · rfl
      · split <;> rfl
    · rfl

theorem trySend_gReceived (c : Conn) (ov : Bool) (ch q : Nat) : (c.trySend ov ch q).1.gReceived = c.gReceived := by
  unfold Conn.trySend
  split
  · rfl
  · simp only
    split
    · split
      · rfl
      · split <;> rfl
    · rfl

theorem trySend_cap (c : Conn) (ov : Bool) (ch q : Nat) : (c.trySend ov ch q).1.cap = c.cap := by
  unfold Conn.trySend
  split
  · rfl
  · simp only
    split
    · split
      · rfl
      · split <;> rfl
    · rfl

theorem trySend_gFirst (c : Conn) (ov : Bool) (ch q : Nat) : (c.trySend ov ch q).1.gFirst = c.gFirst := by
  unfold Conn.trySend
  split
  · rfl
  · simp only
    split
    · split
      · rfl
      · split <;> rfl
    · rfl

theorem trySend_gHist (c : Conn) (ov : Bool) (ch q : Nat) : (c.trySend ov ch q).1.gHist = c.gHist := by
  unfold Conn.trySend
  split
  · rfl
  · simp only
    split
    · split
      · rfl
      · split <;> rfl
    · rfl

theorem trySend_comp (c : Conn) (ov : Bool) (ch q : Nat) : (c.trySend ov ch q).1.comp = c.comp := by
  unfold Conn.trySend
  split
  · rfl
  · simp only
    split
    · split
      · rfl
      · split <;> rfl
    · rfl

theorem trySend_borrow (c : Conn) (ov : Bool) (ch q : Nat) : (c.trySend ov ch q).1.borrow = c.borrow := by
  unfold Conn.trySend
  split
  · rfl
  · simp only
    split
    · split
      · rfl
      · split <;> rfl
    · rfl

/-- the three outcomes of a push, on the queue and the ghost logs -/
theorem trySend_log (c : Conn) (ov : Bool) (ch q : Nat) :
    let r := c.trySend ov ch q
    (r.2 = .full ∧ ov = false ∧ c.cap ≤ c.sub.length ∧ r.1 = { c with gSkipped := c.gSkipped ++ [q] }) ∨
    ((r.2 = .ok none) ∧ r.1.sub = c.sub ++ [(ch, q)] ∧ r.1.gDelivered = c.gDelivered ++ [q] ∧
       r.1.gEvicted = c.gEvicted ∧ r.1.gSkipped = c.gSkipped ∧ (c.sub.length < c.cap ∨ c.sub = []) ∧
       r.1.used = c.used.set ch true) ∨
    (∃ old oseq rest, c.sub = (old, oseq) :: rest ∧ (r.2 = .ok (some old) ∨ r.2 = .corrupted) ∧ ov = true ∧
       c.cap ≤ c.sub.length ∧
       r.1.sub = rest ++ [(ch, q)] ∧ r.1.gDelivered = c.gDelivered ++ [q] ∧
       r.1.gEvicted = c.gEvicted ++ [oseq] ∧ r.1.gSkipped = c.gSkipped ∧
       (r.2 = .ok (some old) → (c.used.set ch true).getD old false = true ∧
          r.1.used = (c.used.set ch true).set old false) ∧
       (r.2 = .corrupted → (c.used.set ch true).getD old false = false)) := by
  intro r
  by_cases h1 : (!ov && decide (c.sub.length ≥ c.cap)) = true
  · left
    have hr : r = ({ c with gSkipped := c.gSkipped ++ [q] }, .full) := by
      show c.trySend ov ch q = _
      unfold Conn.trySend; rw [if_pos h1]
    simp only [Bool.and_eq_true, Bool.not_eq_true', decide_eq_true_eq] at h1
    rw [hr]; exact ⟨rfl, h1.1, h1.2, rfl⟩
  · right
    by_cases h2 : c.sub.length ≥ c.cap
    · cases hsub : c.sub with
      | nil =>
        left
        have hr : r = ({ c with used := c.used.set ch true, gDelivered := c.gDelivered ++ [q], sub := [(ch, q)] }, .ok none) := by
          show c.trySend ov ch q = _
          unfold Conn.trySend; rw [if_neg h1]; simp only; rw [if_pos h2]; simp only [hsub]
        rw [hr]; simp
      | cons hd rest =>
        obtain ⟨old, oseq⟩ := hd
        right
        have hov : ov = true := by
          cases ov
          · simp [h2] at h1
          · rfl
        by_cases h3 : (c.used.set ch true).getD old false = true
        · have hr : r = ({ c with used := (c.used.set ch true).set old false, gDelivered := c.gDelivered ++ [q], sub := rest ++ [(ch, q)], gEvicted := c.gEvicted ++ [oseq] }, .ok (some old)) := by
            show c.trySend ov ch q = _
            unfold Conn.trySend; rw [if_neg h1]; simp only; rw [if_pos h2]; simp only [hsub]; rw [if_pos h3]
          rw [hr]
          exact ⟨old, oseq, rest, rfl, Or.inl rfl, hov, hsub ▸ h2, rfl, rfl, rfl, rfl, fun _ => ⟨h3, rfl⟩,
            fun h => SendRes.noConfusion h⟩
        · have hr : r = ({ c with used := c.used.set ch true, gDelivered := c.gDelivered ++ [q], sub := rest ++ [(ch, q)], gEvicted := c.gEvicted ++ [oseq] }, .corrupted) := by
            show c.trySend ov ch q = _
            unfold Conn.trySend; rw [if_neg h1]; simp only; rw [if_pos h2]; simp only [hsub]; rw [if_neg h3]
          rw [hr]
          exact ⟨old, oseq, rest, rfl, Or.inr rfl, hov, hsub ▸ h2, rfl, rfl, rfl, rfl,
            fun h => SendRes.noConfusion h, fun _ => by simpa using h3⟩
    · left
      have hr : r = ({ c with used := c.used.set ch true, gDelivered := c.gDelivered ++ [q], sub := c.sub ++ [(ch, q)] }, .ok none) := by
        show c.trySend ov ch q = _
        unfold Conn.trySend; rw [if_neg h1]; simp only; rw [if_neg h2]
      rw [hr]
      exact ⟨rfl, rfl, rfl, rfl, rfl, Or.inl (by omega), rfl⟩

theorem ConnLog.trySend {ov : Bool} {c : Conn} (h : ConnLog ov c) (ch q : Nat) : ConnLog ov (c.trySend ov ch q).1 := by
  obtain ⟨⟨l, hl1, hl2⟩, a, b, c1, c2, c3⟩ := h
  have hcap := trySend_cap c ov ch q
  have hrecv := trySend_gReceived c ov ch q
  rcases trySend_log c ov ch q with ⟨_, hov, hfull, heq⟩ | ⟨_, hsub, hdel, hev, hsk, hlt, _⟩ |
      ⟨old, oseq, rest, hsub0, _, hov, hfull, hsub, hdel, hev, hsk, _, _⟩
  · rw [heq]
    refine ⟨⟨l, hl1, hl2⟩, a, ?_, c1, c2, c3⟩
    intro h; rw [hov] at h; cases h
  · have hp : pend (c.trySend ov ch q).1 = pend c ++ [q] := by simp [pend, hsub]
    refine ⟨⟨l, ?_, ?_⟩, ?_, ?_, ?_, ?_, ?_⟩
    · rw [hrecv, hev]; exact hl1
    · rw [hdel, hp, hl2, List.append_assoc]
    · rw [hev]; exact a
    · rw [hsk]; exact b
    · rw [hp, hcap]
      rcases hlt with hlt | hnil
      · simp [pend] at c1 ⊢; omega
      · simp [pend, hnil]; omega
    · rw [hcap]; exact c2
    · rw [hrecv, hev, hp, hcap]
      intro h1 h2
      have := c3 h1 h2
      rcases hlt with hlt | hnil
      · simp [pend] at this; omega
      · simp [pend, hnil] at this ⊢; omega
  · have hp0 : pend c = oseq :: rest.map (·.2) := by simp [pend, hsub0]
    have hp : pend (c.trySend ov ch q).1 = rest.map (·.2) ++ [q] := by simp [pend, hsub]
    have hlen : (pend c).length = c.cap := by
      have : (pend c).length = c.sub.length := by simp [pend]
      omega
    refine ⟨⟨l ++ [oseq], ?_, ?_⟩, ?_, ?_, ?_, ?_, ?_⟩
    · rw [hrecv, hev]; exact hl1.snoc_right oseq
    · rw [hdel, hp, hl2, hp0]; simp
    · intro h; rw [hov] at h; cases h
    · rw [hsk]; exact b
    · rw [hp, hcap]; rw [hp0] at hlen; simp at hlen ⊢; omega
    · rw [hcap]; exact c2
    · intro _ _; rw [hp, hcap]; rw [hp0] at hlen; simp at hlen ⊢; omega

/-- the receiver takes the oldest entry -/
theorem ConnLog.recv {ov : Bool} {c : Conn} (h : ConnLog ov c) {ch q : Nat} {rest : List (Nat × Nat)}
    (hsub : c.sub = (ch, q) :: rest) (b : Nat) :
    ConnLog ov { c with sub := rest, borrow := b, gReceived := c.gReceived ++ [q] } := by
  obtain ⟨⟨l, hl1, hl2⟩, a, b', c1, c2, c3⟩ := h
  have hp0 : pend c = q :: rest.map (·.2) := by simp [pend, hsub]
  refine ⟨⟨l ++ [q], hl1.snoc_left q, ?_⟩, a, b', ?_, c2, ?_⟩
  · simp only [pend] at hl2 hp0 ⊢; rw [hl2, hp0]; simp
  · simp only [pend] at c1 hp0 ⊢; rw [hp0] at c1; simp at c1 ⊢; omega
  · intro h; simp at h

end Iox2.PubSub.C01P
