/-
Invariant of the blackboard composition model (`Model/Compose.lean`, namespace `BB`) for the
program `[getPtr, wLo, wHi, pub]`.
-/
import Iox2.Model.Compose
namespace Iox2.Compose.BB

def nominal : List WOp := [.getPtr, .wLo, .wHi, .pub]

theorem get_set (s : Sh) (i j : Nat) (v : Nat × Nat) :
    (s.set i v).get j = if i % 2 = j % 2 then v else s.get j := by
  unfold Sh.set Sh.get
  by_cases hi : i % 2 = 0 <;> by_cases hj : j % 2 = 0 <;> simp [hi, hj] <;> omega

@[simp] theorem set_wc (s : Sh) (i : Nat) (v : Nat × Nat) : (s.set i v).wc = s.wc := by
  unfold Sh.set; split <;> rfl

/-- writer part -/
def WInv (sh : Sh) (w : Wr) : Prop :=
  w.rem = [] ∨ w.rem = nominal
  ∨ (w.rem = [.wLo, .wHi, .pub] ∧ w.tgt = sh.wc % 2 ∧ w.val = sh.wc)
  ∨ (w.rem = [.wHi, .pub] ∧ w.tgt = sh.wc % 2 ∧ w.val = sh.wc ∧ (sh.get sh.wc).1 = sh.wc)
  ∨ (w.rem = [.pub] ∧ sh.get sh.wc = (sh.wc, sh.wc))

/-- reader part -/
def RInv (sh : Sh) (r : Rd) : Prop :=
  r.w ≤ sh.wc
  ∧ (r.pc ≠ .idle → 1 ≤ r.w)
  ∧ (r.pc = .rHi → sh.wc = r.w → r.a = r.w - 1)
  ∧ (r.pc = .chk → sh.wc = r.w → r.a = r.w - 1 ∧ r.b = r.w - 1)
  ∧ (∀ p ∈ r.got, p.1 = p.2 ∧ p.1 + 1 ≤ sh.wc)
  ∧ (r.pc ≠ .idle → ∀ p ∈ r.got, p.1 + 1 ≤ r.w)
  ∧ r.got.Pairwise (fun p q => p.1 ≤ q.1)

def Inv (s : St) : Prop :=
  1 ≤ s.sh.wc ∧ s.sh.get (s.sh.wc - 1) = (s.sh.wc - 1, s.sh.wc - 1) ∧ WInv s.sh s.wr ∧ ∀ i, RInv s.sh (s.rd i)

theorem inv_init : Inv St.init := by
  refine ⟨by decide, by decide, Or.inl rfl, fun i => ?_⟩
  simp [St.init, RInv, Rd.init]

/-- a write into the spare cell leaves the readers' facts alone -/
theorem rinv_set_spare (sh : Sh) (r : Rd) (v : Nat × Nat) (h : RInv sh r) : RInv (sh.set sh.wc v) r := by
  obtain ⟨h1, h2, h3, h4, h5, h6, h7⟩ := h
  exact ⟨by simpa using h1, h2, by simpa using h3, by simpa using h4, by simpa using h5, h6, h7⟩

theorem rinv_pub (sh : Sh) (r : Rd) (h : RInv sh r) : RInv { sh with wc := sh.wc + 1 } r := by
  obtain ⟨h1, h2, h3, h4, h5, h6, h7⟩ := h
  refine ⟨by simp; omega, h2, ?_, ?_, ?_, h6, h7⟩
  · intro _ hw; simp at hw; omega
  · intro _ hw; simp at hw; omega
  · intro p hp; have := h5 p hp; simp; omega

theorem wstep_eq (prog : List WOp) (s : St) (op : WOp) (rest : List WOp)
    (h : (if s.wr.rem = [] then prog else s.wr.rem) = op :: rest) :
    wstep prog s = { s with sh := (wexec s.sh s.wr op rest).1, wr := (wexec s.sh s.wr op rest).2 } := by
  unfold wstep; rw [h]

theorem set_mod (sh : Sh) (v : Nat × Nat) : sh.set (sh.wc % 2) v = sh.set sh.wc v := by
  unfold Sh.set; simp
theorem get_mod (sh : Sh) : sh.get (sh.wc % 2) = sh.get sh.wc := by
  unfold Sh.get; simp

theorem wstep_inv (s : St) (h : Inv s) : Inv (wstep nominal s) := by
  obtain ⟨hwc, hcur, hw, hr⟩ := h
  have hne : ¬ (s.sh.wc % 2 = (s.sh.wc - 1) % 2) := by omega
  rcases hw with h0 | h0 | ⟨h0, ht, hv⟩ | ⟨h0, ht, hv, hlo⟩ | ⟨h0, hfull⟩
  · -- between two updates: getPtr
    rw [wstep_eq nominal s .getPtr [.wLo, .wHi, .pub] (by simp [h0, nominal])]
    exact ⟨hwc, hcur, Or.inr (Or.inr (Or.inl ⟨rfl, rfl, rfl⟩)), hr⟩
  · rw [wstep_eq nominal s .getPtr [.wLo, .wHi, .pub] (by simp [h0, nominal])]
    exact ⟨hwc, hcur, Or.inr (Or.inr (Or.inl ⟨rfl, rfl, rfl⟩)), hr⟩
  · -- wLo
    rw [wstep_eq nominal s .wLo [.wHi, .pub] (by simp [h0])]
    simp only [wexec, ht, hv, set_mod, get_mod]
    refine ⟨by simpa using hwc, ?_, ?_, fun i => rinv_set_spare _ _ _ (hr i)⟩
    · simp only [set_wc, get_set]; rw [if_neg hne]; exact hcur
    · refine Or.inr (Or.inr (Or.inr (Or.inl ⟨rfl, by simp [ht], by simp [hv], ?_⟩)))
      simp [get_set]
  · -- wHi
    rw [wstep_eq nominal s .wHi [.pub] (by simp [h0])]
    simp only [wexec, ht, hv, set_mod, get_mod]
    refine ⟨by simpa using hwc, ?_, ?_, fun i => rinv_set_spare _ _ _ (hr i)⟩
    · simp only [set_wc, get_set]; rw [if_neg hne]; exact hcur
    · refine Or.inr (Or.inr (Or.inr (Or.inr ⟨rfl, ?_⟩)))
      simp [get_set, hlo]
  · -- pub
    rw [wstep_eq nominal s .pub [] (by simp [h0])]
    simp only [wexec]
    refine ⟨by simp, ?_, Or.inl rfl, fun i => rinv_pub _ _ (hr i)⟩
    have : Sh.get { s.sh with wc := s.sh.wc + 1 } (s.sh.wc + 1 - 1) = s.sh.get s.sh.wc := by
      unfold Sh.get; simp
    show Sh.get { s.sh with wc := s.sh.wc + 1 } (s.sh.wc + 1 - 1) = _
    rw [this, hfull]; simp

theorem rexec_inv (sh : Sh) (r : Rd) (hwc : 1 ≤ sh.wc) (hcur : sh.get (sh.wc - 1) = (sh.wc - 1, sh.wc - 1))
    (h : RInv sh r) : RInv sh (rexec sh r) := by
  obtain ⟨h1, h2, h3, h4, h5, h6, h7⟩ := h
  unfold rexec
  cases hpc : r.pc with
  | idle =>
    refine ⟨by simp, by simp; omega, by simp, by simp, h5, ?_, h7⟩
    intro _ p hp; exact (h5 p hp).2
  | rLo =>
    have hw := h2 (by simp [hpc])
    refine ⟨h1, fun _ => hw, ?_, by simp, h5, fun _ => h6 (by simp [hpc]), h7⟩
    intro _ he; simp; rw [← he, hcur]
  | rHi =>
    have hw := h2 (by simp [hpc])
    refine ⟨h1, fun _ => hw, by simp, ?_, h5, fun _ => h6 (by simp [hpc]), h7⟩
    intro _ he; simp
    exact ⟨h3 hpc he, by rw [← he, hcur]⟩
  | chk =>
    have hw := h2 (by simp [hpc])
    have h6' := h6 (by simp [hpc])
    by_cases he : sh.wc = r.w
    · rw [if_pos he]
      obtain ⟨ha, hb⟩ := h4 hpc he
      refine ⟨h1, by simp, by simp, by simp, ?_, by simp, ?_⟩
      · intro p hp
        rcases List.mem_append.1 hp with hp | hp
        · exact h5 p hp
        · simp at hp; subst hp; simp; omega
      · rw [List.pairwise_append]
        refine ⟨h7, by simp, ?_⟩
        intro p hp q hq; simp at hq; subst hq
        have := h6' p hp; simp; omega
    · rw [if_neg he]
      refine ⟨by simp, by simp; omega, by simp, by simp, h5, ?_, h7⟩
      intro _ p hp; exact (h5 p hp).2

theorem rstep_inv (s : St) (i : Nat) (h : Inv s) : Inv (rstep s i) := by
  obtain ⟨hwc, hcur, hw, hr⟩ := h
  refine ⟨hwc, hcur, hw, fun j => ?_⟩
  unfold rstep
  by_cases hj : j = i
  · subst hj; simp; exact rexec_inv _ _ hwc hcur (hr j)
  · simp [hj]; exact hr j

theorem reach_inv (s : St) (h : Reach nominal s) : Inv s := by
  induction h with
  | init => exact inv_init
  | writer _ ih => exact wstep_inv _ ih
  | reader i _ ih => exact rstep_inv _ i ih

end Iox2.Compose.BB
