/-
Layer B: a sample is received / released (the chunk moves between the submission queue, the
subscriber's `held` list and the completion queue of one connection).
-/
import Iox2.Proof.PubSubC01BL1
import Iox2.Proof.ListLemmas
namespace Iox2.PubSub.C01P
open Iox2.PubSub

variable {fl : Option (Nat × Nat × Bool)} {w : World}

theorem heldCh_sublist {S S' : Sub} (h : S'.held.Sublist S.held) (a : Nat) :
    (heldCh S' a).Sublist (heldCh S a) := by
  unfold heldCh
  exact (h.filter _).map _

/-- the `held` list of a subscriber shrinks -/
theorem invB_setS_heldSub (h : InvB fl w) {s : Nat} {S S' : Sub} (hS : getS w s = some S)
    (hh : S'.held.Sublist S.held) (ha : S'.alive = true → S.alive = true) : InvB fl (setS w s S') := by
  have key : ∀ a Q, getS (setS w s S') a = some Q → ∃ Q0, getS w a = some Q0 ∧ Q.held.Sublist Q0.held ∧
      (Q.alive = true → Q0.alive = true) := by
    intro a Q hq
    rw [getS_setS] at hq
    by_cases hap : a = s
    · subst hap
      simp only [if_true, hS, Option.map_some, Option.some.injEq] at hq
      subst hq
      exact ⟨S, hS, hh, ha⟩
    · rw [if_neg hap] at hq
      exact ⟨Q, hq, List.Sublist.refl _, id⟩
  constructor
  · exact h.keys
  · exact h.lens
  · exact h.usedLen
  · exact h.free
  · exact h.rc
  · exact h.loans
  · exact h.deadLoans
  · exact h.histOk
  · exact h.flOk
  · intro cn hcn hsa Q S0 hq hex hS0
    obtain ⟨Q0, h0, e1, _⟩ := key _ S0 hS0
    obtain ⟨hnd, hu⟩ := h.inqOk cn hcn hsa Q Q0 hq hex h0
    have hsl : (inq cn S0).Sublist (inq cn Q0) := by
      unfold inq
      exact List.Sublist.append (List.Sublist.refl _) (heldCh_sublist e1 _)
    exact ⟨hnd.sublist hsl, fun c hc => hu c (hsl.subset hc)⟩
  · exact h.unatt
  · intro cn hcn Q S0 hq hS0 hor ch q hm
    obtain ⟨Q0, h0, _, e2⟩ := key _ S0 hS0
    exact h.ppi cn hcn Q Q0 hq h0 (hor.imp id e2) ch q hm

/-- one connection and the record of its subscriber change together: the chunks in flight on the
connection are permuted, the other connections of the subscriber lose at most something -/
theorem invB_setCS (h : InvB fl w) {s p : Nat} {S S' : Sub} {c x : Conn}
    (hS : getS w s = some S) (hC : getC w p s = some c)
    (hxp : x.pid = c.pid) (hxs : x.sid = c.sid) (hxa : x.sAtt = c.sAtt) (hxu : x.used = c.used)
    (hsub : ∀ e ∈ x.sub, e ∈ c.sub) (ha : S'.alive = true → S.alive = true)
    (hperm : (inq x S').Perm (inq c S))
    (hoth : ∀ a, a ≠ p → (heldCh S' a).Sublist (heldCh S a)) :
    InvB fl (setS (setC w x) s S') := by
  obtain ⟨hcm, hcp, hcs⟩ := getC_some hC
  have hxp' : x.pid = p := hxp.trans hcp
  have hxs' : x.sid = s := hxs.trans hcs
  have hCx : getC w x.pid x.sid = some c := by rw [hxp', hxs']; exact hC
  have key : ∀ a Q, getS (setS (setC w x) s S') a = some Q →
      (a = s ∧ Q = S') ∨ (a ≠ s ∧ getS w a = some Q) := by
    intro a Q hq
    rw [getS_setS] at hq
    by_cases hap : a = s
    · subst hap
      simp only [if_true, getS_setC, hS, Option.map_some, Option.some.injEq] at hq
      exact Or.inl ⟨rfl, hq.symm⟩
    · rw [if_neg hap] at hq
      exact Or.inr ⟨hap, hq⟩
  have hmem : ∀ cn ∈ (setC w x).conns, cn = x ∨ (cn ∈ w.conns ∧ ¬ (cn.pid = p ∧ cn.sid = s)) := by
    intro cn hcn
    rcases mem_setC hcn with ⟨rfl, _⟩ | ⟨hm, hne⟩
    · exact Or.inl rfl
    · rw [hxp', hxs'] at hne; exact Or.inr ⟨hm, hne⟩
  have hind : ∀ a y, ind a y x = ind a y c := by
    intro a y; unfold ind; rw [hxa, hxu, hxp]
  have hcnt : ∀ a y, usedCnt (setS (setC w x) s S') a y = usedCnt w a y := by
    intro a y
    show usedCnt (setC w x) a y = usedCnt w a y
    have := usedCnt_setC h.keys hCx a y
    rw [hind] at this; omega
  constructor
  · exact h.keys.setC x
  · exact h.lens
  · intro cn hcn Q hq
    rcases hmem cn hcn with rfl | ⟨hm, _⟩
    · rw [hxu]; exact h.usedLen c hcm Q (hxp ▸ hq)
    · exact h.usedLen cn hm Q hq
  · exact h.free
  · intro a Q hq hex y hy
    rw [hcnt]; exact h.rc a Q hq hex y hy
  · exact h.loans
  · exact h.deadLoans
  · exact h.histOk
  · exact h.flOk
  · intro cn hcn hsa Q S0 hq hex hS0
    rcases hmem cn hcn with rfl | ⟨hm, hne⟩
    · rcases key _ S0 hS0 with ⟨_, rfl⟩ | ⟨hap, _⟩
      · obtain ⟨hnd, hu⟩ := h.inqOk c hcm (hxa ▸ hsa) Q S (hxp ▸ hq) hex (hcs ▸ hS)
        refine ⟨(hperm.nodup_iff).mpr hnd, fun y hy => ?_⟩
        rw [hxu]; exact hu y ((hperm.mem_iff).mp hy)
      · exact absurd hxs' hap
    · rcases key _ S0 hS0 with ⟨hap, rfl⟩ | ⟨_, h0⟩
      · have hnp : cn.pid ≠ p := fun hh => hne ⟨hh, hap⟩
        obtain ⟨hnd, hu⟩ := h.inqOk cn hm hsa Q S hq hex (hap ▸ hS)
        have hsl : (inq cn S0).Sublist (inq cn S) := by
          unfold inq
          exact List.Sublist.append (List.Sublist.refl _) (hoth _ hnp)
        exact ⟨hnd.sublist hsl, fun y hy => hu y (hsl.subset hy)⟩
      · exact h.inqOk cn hm hsa Q S0 hq hex h0
  · intro cn hcn hsa Q hq hex
    rcases hmem cn hcn with rfl | ⟨hm, _⟩
    · rw [hxu]; exact h.unatt c hcm (hxa ▸ hsa) Q (hxp ▸ hq) hex
    · exact h.unatt cn hm hsa Q hq hex
  · intro cn hcn Q S0 hq hS0 hor ch q hm'
    rcases hmem cn hcn with rfl | ⟨hm, _⟩
    · rcases key _ S0 hS0 with ⟨_, rfl⟩ | ⟨hap, _⟩
      · exact h.ppi c hcm Q S (hxp ▸ hq) (hcs ▸ hS) (by rw [← hxa]; exact hor.imp id ha) ch q (hsub _ hm')
      · exact absurd hxs' hap
    · rcases key _ S0 hS0 with ⟨hap, rfl⟩ | ⟨_, h0⟩
      · exact h.ppi cn hm Q S hq (hap ▸ hS) (hor.imp id ha) ch q hm'
      · exact h.ppi cn hm Q S0 hq h0 hor ch q hm'

/-- the receiver pops the head of a submission queue and records the sample -/
theorem invB_recvStep (h : InvB fl w) {s p ch q b : Nat} {S S' : Sub} {c : Conn} {rest : List (Nat × Nat)}
    {hd : Held}
    (hS : getS w s = some S) (hC : getC w p s = some c) (hsub : c.sub = (ch, q) :: rest)
    (hpid : hd.pid = p) (hch : hd.chunk = ch) (ha : S'.alive = S.alive) (hheld : S'.held = S.held ++ [hd]) :
    InvB fl (setS (setC w { c with sub := rest, borrow := b, gReceived := c.gReceived ++ [q] }) s S') := by
  obtain ⟨hcm, hcp, hcs⟩ := getC_some hC
  refine invB_setCS h (x := { c with sub := rest, borrow := b, gReceived := c.gReceived ++ [q] }) hS hC
    rfl rfl rfl rfl ?_ (fun hx => ha ▸ hx) ?_ ?_
  · intro e he
    rw [hsub]; exact List.mem_cons_of_mem _ he
  · have hh : heldCh S' c.pid = heldCh S c.pid ++ [ch] := by
      unfold heldCh
      rw [hheld, List.filter_append, List.map_append]
      have : List.filter (fun x => decide (x.pid = c.pid)) [hd] = [hd] := by
        simp [hpid, hcp]
      rw [this, List.map_cons, List.map_nil, hch]
    unfold inq
    show (rest.map (·.1) ++ c.comp ++ heldCh S' c.pid).Perm (c.sub.map (·.1) ++ c.comp ++ heldCh S c.pid)
    rw [hh, hsub, List.map_cons, ← List.append_assoc]
    simp only [List.cons_append]
    exact List.perm_append_singleton _ _
  · intro a hap
    have hh : heldCh S' a = heldCh S a := by
      unfold heldCh
      rw [hheld, List.filter_append, List.map_append]
      have : List.filter (fun x => decide (x.pid = a)) [hd] = [] := by
        have : hd.pid ≠ a := fun hx => hap (hx.symm.trans hpid)
        simp [this]
      rw [this, List.map_nil, List.append_nil]
    rw [hh]; exact List.Sublist.refl _

theorem heldCh_eraseIdx_perm {S : Sub} {k : Nat} {hd : Held} (hk : S.held[k]? = some hd) :
    (heldCh { S with held := S.held.eraseIdx k } hd.pid ++ [hd.chunk]).Perm (heldCh S hd.pid) := by
  have hp := Iox2.ListLemmas.perm_eraseIdx S.held k hd hk
  have := (hp.filter (fun x => decide (x.pid = hd.pid))).map (·.chunk)
  unfold heldCh
  rw [List.filter_append, List.map_append] at this
  have h1 : List.filter (fun x => decide (x.pid = hd.pid)) [hd] = [hd] := by simp
  rw [h1] at this
  exact this

/-- a held sample is dropped: it leaves `held` and (if its connection is still known) goes to the
completion queue -/
theorem invB_releaseStep (h : InvB fl w) {s k : Nat} {S : Sub} {hd : Held}
    (hS : getS w s = some S) (hk : S.held[k]? = some hd) :
    InvB fl (subRelease (setS w s { S with held := S.held.eraseIdx k }) s hd) := by
  have hsl : (S.held.eraseIdx k).Sublist S.held := List.eraseIdx_sublist _ _
  have h1 : InvB fl (setS w s { S with held := S.held.eraseIdx k }) :=
    invB_setS_heldSub h hS hsl id
  unfold Iox2.PubSub.subRelease
  rw [getS_setS_self _ hS]
  simp only
  cases hg : smGet S.storage hd.key with
  | none => exact h1
  | some p =>
    simp only
    split
    · exact h1
    · rename_i hpp
      simp only [ne_eq, Decidable.not_not] at hpp
      cases hC : getC w p s with
      | none => simp only [getC_setS, hC]; exact h1
      | some c =>
        simp only [getC_setS, hC]
        split
        · obtain ⟨hcm, hcp, hcs⟩ := getC_some hC
          show InvB fl (setS (setC w { c with comp := c.comp ++ [hd.chunk], borrow := c.borrow - 1 }) s
            { S with held := S.held.eraseIdx k })
          refine invB_setCS h (x := { c with comp := c.comp ++ [hd.chunk], borrow := c.borrow - 1 }) hS hC
            rfl rfl rfl rfl (fun e he => he) id ?_ (fun a _ => heldCh_sublist hsl a)
          have hpe := heldCh_eraseIdx_perm hk
          rw [← hpp, ← hcp] at hpe
          unfold inq
          show (c.sub.map (·.1) ++ (c.comp ++ [hd.chunk]) ++ heldCh { S with held := S.held.eraseIdx k } c.pid).Perm
            (c.sub.map (·.1) ++ c.comp ++ heldCh S c.pid)
          simp only [List.append_assoc]
          refine List.Perm.append_left _ (List.Perm.append_left _ ?_)
          exact List.perm_append_comm.trans hpe
        · exact h1

end Iox2.PubSub.C01P
