/-
C02 — subscriber lifecycle: `subDestroyIfUnreferenced`, the `.dsub` unregistration and the three
phases of `.csub` (port object created, registered / registry full) preserve the invariant.
-/
import Iox2.Proof.PubSubC02SubDrop

namespace Iox2.PubSub.C02P
open Iox2.PubSub
open Iox2.C16.SlotMapP (abs WInv)

/-! ### small lemmas -/

theorem sl_mem_items_iff {m : SlotMap.St Nat} {k e : Nat} :
    (k, e) ∈ SlotMap.items m ↔ abs m k = some e := by
  rw [Iox2.C16.SlotMapP.mem_items]
  constructor
  · exact fun h => h.2
  · intro h
    refine ⟨?_, h⟩
    apply Nat.lt_of_not_le
    intro hle
    rw [Iox2.C16.SlotMapP.abs_oob (List.getElem?_eq_none hle)] at h
    cases h

theorem sl_firstFree_spec {α : Type} : ∀ (l : List (Option α)) (k i : Nat),
    firstFree l k = some i → k ≤ i ∧ l[i - k]? = some none
  | [], k, i, h => by simp [firstFree] at h
  | none :: r, k, i, h => by
    simp only [firstFree, Option.some.injEq] at h
    subst h; simp
  | some a :: r, k, i, h => by
    simp only [firstFree] at h
    obtain ⟨h1, h2⟩ := sl_firstFree_spec r (k + 1) i h
    refine ⟨by omega, ?_⟩
    have : i - k = (i - (k + 1)) + 1 := by omega
    rw [this]; simpa using h2

theorem sl_getS_append (w : World) (s t : Nat) (X : Sub) (hnone : getS w s = none) :
    getS { w with subs := w.subs ++ [(s, X)] } t = if t = s then some X else getS w t := by
  unfold getS at *
  simp only [List.find?_append, List.find?_cons, List.find?_nil]
  by_cases h : t = s
  · subst h
    simp only [if_true]
    cases hf : w.subs.find? (·.1 = t) with
    | none => simp
    | some x => rw [hf] at hnone; simp at hnone
  · simp only [h, if_false]
    have : ¬ s = t := fun e => h e.symm
    cases hf : w.subs.find? (·.1 = t) <;> simp [this]

theorem sl_getS_filter (w : World) (s t : Nat) :
    getS { w with subs := w.subs.filter fun e => e.1 ≠ s } t =
      if t = s then none else getS w t := by
  unfold getS
  simp only [List.find?_filter]
  by_cases h : t = s
  · subst h
    simp only [if_true, Option.map_eq_none_iff]
    rw [List.find?_eq_none]
    intro x _
    by_cases hx : x.1 = t <;> simp [hx]
  · simp only [h, if_false]
    congr 1
    congr 1
    funext x
    by_cases hx : x.1 = t
    · have : ¬ x.1 = s := fun e => h (hx.symm.trans e)
      simp [hx, h]
    · simp [hx]

/-! ### `detachReceiver`, `subDestroyKeys` by observations -/

/-- what happens to a connection whose receiver side goes away -/
def slDetR (oc : Option Conn) : Option Conn :=
  match oc with
  | none => none
  | some c => if c.sAtt then some { c with rAtt := false } else none

theorem slDetR_some_true {cn : Conn} (h : cn.sAtt = true) :
    slDetR (some cn) = some { cn with rAtt := false } := if_pos h
theorem slDetR_some_false {cn : Conn} (h : cn.sAtt = false) : slDetR (some cn) = none := by
  simp [slDetR, h]

theorem slDetR_idem (oc : Option Conn) : slDetR (slDetR oc) = slDetR oc := by
  cases oc with
  | none => rfl
  | some c =>
    cases h : c.sAtt <;> simp [slDetR, h]

theorem sl_getC_detachReceiver (w : World) (p s a b : Nat) :
    getC (detachReceiver w p s) a b = if a = p ∧ b = s then slDetR (getC w a b) else getC w a b := by
  rw [detachReceiver_eq]
  cases hC : getC w p s with
  | none =>
    simp only
    split
    · rename_i h; rw [h.1, h.2, hC]; rfl
    · rfl
  | some c =>
    obtain ⟨hpid, hsid, _⟩ := getC_some hC
    simp only
    cases hsa : c.sAtt with
    | true =>
      simp only [if_true]
      rw [getC_setC]
      simp only [hpid, hsid]
      split
      · rename_i h; rw [h.1, h.2, hC]; simp [slDetR, hsa, hpid, hsid]
      · rfl
    | false =>
      simp only [Bool.false_eq_true, if_false]
      rw [getC_delC]
      split
      · rename_i h; rw [h.1, h.2, hC]; simp [slDetR, hsa]
      · rfl

theorem sl_detachReceiver_fields (w : World) (p s : Nat) :
    (detachReceiver w p s).cfg = w.cfg ∧ (detachReceiver w p s).pubReg = w.pubReg ∧
    (detachReceiver w p s).subReg = w.subReg ∧ (detachReceiver w p s).pubs = w.pubs ∧
    (detachReceiver w p s).subs = w.subs := by
  rw [detachReceiver_eq]
  cases getC w p s with
  | none => exact ⟨rfl, rfl, rfl, rfl, rfl⟩
  | some c =>
    simp only
    split <;> exact ⟨rfl, rfl, rfl, rfl, rfl⟩

theorem sl_nodup_detachReceiver {w : World} (p s : Nat)
    (hn : w.conns.Pairwise fun a b => ¬ (a.pid = b.pid ∧ a.sid = b.sid)) :
    (detachReceiver w p s).conns.Pairwise fun a b => ¬ (a.pid = b.pid ∧ a.sid = b.sid) := by
  rw [detachReceiver_eq]
  cases getC w p s with
  | none => exact hn
  | some c =>
    simp only
    split
    · exact nodup_setC _ hn
    · exact nodup_delC _ _ hn

theorem subDestroyKeys_obs (s : Nat) : ∀ (l : List (Nat × Nat)) (w : World),
    (w.conns.Pairwise fun a b => ¬ (a.pid = b.pid ∧ a.sid = b.sid)) →
    (subDestroyKeys w s l).cfg = w.cfg ∧ (subDestroyKeys w s l).pubReg = w.pubReg ∧
    (subDestroyKeys w s l).subReg = w.subReg ∧ (subDestroyKeys w s l).pubs = w.pubs ∧
    (subDestroyKeys w s l).subs = w.subs ∧
    (∀ a b, getC (subDestroyKeys w s l) a b =
      if b = s ∧ a ∈ l.map (·.2) then slDetR (getC w a b) else getC w a b) ∧
    ((subDestroyKeys w s l).conns.Pairwise fun a b => ¬ (a.pid = b.pid ∧ a.sid = b.sid))
  | [], w, hn => by
    refine ⟨rfl, rfl, rfl, rfl, rfl, ?_, hn⟩
    intro a b; simp [subDestroyKeys]
  | (k, p) :: r, w, hn => by
    obtain ⟨f1, f2, f3, f4, f5⟩ := sl_detachReceiver_fields w p s
    obtain ⟨g1, g2, g3, g4, g5, g6, g7⟩ :=
      subDestroyKeys_obs s r (detachReceiver w p s) (sl_nodup_detachReceiver p s hn)
    have e : subDestroyKeys w s ((k, p) :: r) = subDestroyKeys (detachReceiver w p s) s r := rfl
    rw [e]
    refine ⟨g1.trans f1, g2.trans f2, g3.trans f3, g4.trans f4, g5.trans f5, ?_, g7⟩
    intro a b
    rw [g6, sl_getC_detachReceiver]
    by_cases hb : b = s
    · by_cases ha : a = p
      · subst ha; subst hb
        simp only [and_self, if_true, true_and, List.map_cons, List.mem_cons]
        split
        · exact slDetR_idem _
        · rfl
      · simp only [hb, ha, false_and, if_false, true_and, List.map_cons, List.mem_cons, false_or]
    · simp [hb]

/-! ### congruences across a change of the ghost context -/

theorem SubTop.slChG {G G' : GT} {w : World} {s : Nat} {S : Sub} (h : SubTop G w s S)
    (hh : G'.hole = G.hole) (hp : G'.np = G.np) : SubTop G' w s S :=
  ⟨h.lenC, h.lenSnap, h.aliveEx, h.dead, h.winv, by rw [hh, hp]; exact h.stor, h.inj,
   by rw [hh]; exact h.conn, by rw [hp]; exact h.snap, h.tbrNodup, by rw [hh]; exact h.tbr⟩

theorem SubTop.slChS {G : GT} {w : World} {s : Nat} {S S' : Sub} (h : SubTop G w s S)
    (e1 : S'.ex = S.ex) (e2 : S'.conns = S.conns) (e3 : S'.snap = S.snap)
    (e4 : S'.storage = S.storage) (e5 : S'.tbr = S.tbr) (ha : S'.alive = true → S'.ex = true) :
    SubTop G w s S' :=
  ⟨by rw [e2]; exact h.lenC, by rw [e3]; exact h.lenSnap, ha, by rw [e1, e4]; exact h.dead,
   by rw [e4]; exact h.winv, by rw [e4, e2, e3]; exact h.stor, by rw [e4]; exact h.inj,
   by rw [e2, e4, e3]; exact h.conn, by rw [e3]; exact h.snap, by rw [e5]; exact h.tbrNodup,
   by rw [e5, e4, e2]; exact h.tbr⟩

/-- registered subscribers stay registered, at the same slot, and do not come to life -/
def SlSubsOK (G G' : GT) (w w' : World) : Prop :=
  ∀ t T, getS w t = some T → G.ns ≠ some t → SReg w t T →
    ∃ T', getS w' t = some T' ∧ T'.slot = T.slot ∧ SReg w' t T' ∧ G'.ns ≠ some t ∧
      (T'.alive = true → T.alive = true)

theorem PubTop.slCongr {G G' : GT} {w w' : World} {p : Nat} {P : Pub} (h : PubTop G w p P)
    (hcfg : w'.cfg = w.cfg) (hs : SlSubsOK G G' w w')
    (hc : ∀ t cn, getC w p t = some cn → cn.sAtt = true → G.ns ≠ some t →
      ∃ cn', getC w' p t = some cn' ∧ cn'.sAtt = true) : PubTop G' w' p P := by
  refine ⟨by rw [hcfg]; exact h.lenC, by rw [hcfg]; exact h.lenSnap, h.aliveEx, h.dead, ?_, ?_⟩
  · intro i s hi
    obtain ⟨S, hS, h1, h2, h3, h4, cn, h5, h6⟩ := h.conn i s hi
    obtain ⟨S', hS', e1, e2, e3, e4⟩ := hs s S hS h3 h2
    obtain ⟨cn', h7, h8⟩ := hc s cn h5 h6 h3
    exact ⟨S', hS', by rw [e1]; exact h1, e2, e3, fun ha => h4 (e4 ha), cn', h7, h8⟩
  · intro i e hi
    obtain ⟨S, hS, h1, h2, h3⟩ := h.snap i e hi
    obtain ⟨S', hS', e1, e2, e3, _⟩ := hs e.sid S hS h3 h2
    exact ⟨S', hS', by rw [e1]; exact h1, e2, e3⟩

def SlSubAccOK (w : World) (S : Sub) : Prop :=
  (S.ex = false → S.held = []) ∧ (∀ h ∈ S.held, abs S.storage h.key = some h.pid) ∧
  (S.alive = true → ∀ h ∈ S.held, ∃ P, getP w h.pid = some P ∧ P.payload.getD h.chunk 0 = h.tag)

theorem Inv.slConnFacts {G : GT} {A : GA} {w : World} (hi : Inv G A w) {a b : Nat} {cn : Conn}
    (hcn : getC w a b = some cn) :
    ∃ P S, getP w a = some P ∧ getS w b = some S ∧ ConnTop cn P S ∧ ConnAcc w.cfg cn P S := by
  obtain ⟨P, S, hP, hS, ct⟩ := hi.top.conns a b cn hcn
  exact ⟨P, S, hP, hS, ct, hi.acc.conns a b cn hcn P S hP hS⟩

/-- The publishers do not change; subscribers and connections do. -/
theorem sl_inv_of_sub_change {G G' : GT} {A : GA} {w w' : World} (hi : Inv G A w)
    (hcfg : w'.cfg = w.cfg) (hgP : ∀ q, getP w' q = getP w q)
    (hreg : RegOK G' w') (hsok : SlSubsOK G G' w w')
    (hcS : ∀ p t cn, getC w p t = some cn → cn.sAtt = true → G.ns ≠ some t →
      ∃ cn', getC w' p t = some cn' ∧ cn'.sAtt = true ∧ cn'.used = cn.used)
    (hsub : ∀ t T', getS w' t = some T' → SubTop G' w' t T' ∧ SlSubAccOK w T')
    (hconn : ∀ a b cn', getC w' a b = some cn' →
      ∃ P S', getP w a = some P ∧ getS w' b = some S' ∧ ConnTop cn' P S' ∧
        ConnAcc w.cfg cn' P S') :
    Inv G' A w' := by
  refine ⟨⟨hreg, ?_, fun t T' h => (hsub t T' h).1, ?_⟩, ⟨?_, ?_, ?_⟩⟩
  · intro p P hP
    rw [hgP] at hP
    apply (hi.top.pubs p P hP).slCongr hcfg hsok
    intro t cn h1 h2 h3
    obtain ⟨cn', a, b, _⟩ := hcS p t cn h1 h2 h3
    exact ⟨cn', a, b⟩
  · intro a b cn hcn
    obtain ⟨P, S', hP, hS', ct, _⟩ := hconn a b cn hcn
    exact ⟨P, S', by rw [hgP]; exact hP, hS', ct⟩
  · intro p P hP
    rw [hgP] at hP
    obtain ⟨h1, h2⟩ := hi.acc.pubs p P hP
    refine ⟨fun hx => (h1 hx).congr ?_, h2⟩
    intro t c ht
    obtain ⟨i, hi'⟩ := List.mem_iff_getElem?.mp ht
    obtain ⟨S, _, _, _, hns, _, cn, hcn, hsa⟩ := (hi.top.pubs p P hP).conn i t hi'
    obtain ⟨cn', hcn', _, hu⟩ := hcS p t cn hcn hsa hns
    unfold usedBit
    rw [hcn', hcn]
    simp only [hu]
  · intro t T' hT'
    obtain ⟨h1, h2, h3⟩ := (hsub t T' hT').2
    refine ⟨h1, h2, fun ha x hx => ?_⟩
    rw [hgP]; exact h3 ha x hx
  · intro a b cn hcn P S hP hS
    obtain ⟨P0, S0, hP0, hS0, _, ca⟩ := hconn a b cn hcn
    rw [hgP, hP0] at hP; cases hP
    rw [hS0] at hS; cases hS
    rw [hcfg]; exact ca

/-- an untouched subscriber -/
theorem sl_sub_untouched {G G' : GT} {A : GA} {w w' : World} (hi : Inv G A w)
    (hh : G'.hole = G.hole) (hp : G'.np = G.np)
    (hcfg : w'.cfg = w.cfg) (hrp : w'.pubReg = w.pubReg) (hgP : ∀ q, getP w' q = getP w q)
    {t : Nat} {T : Sub} (hT : getS w t = some T)
    (hc : ∀ q cn, getC w q t = some cn → cn.rAtt = true →
      ∃ cn', getC w' q t = some cn' ∧ cn'.rAtt = true) :
    SubTop G' w' t T ∧ SlSubAccOK w T :=
  ⟨((hi.top.subs t T hT).slChG hh hp).congr hcfg hrp (PubsKept.of_eq hgP) hc, hi.acc.subs t T hT⟩

/-! ### `.dsub`: unregistration -/

/-- `.dsub`: the port object is dropped and leaves the registry -/
theorem dsub_unregister_inv {G : GT} {A : GA} {w : World} {s : Nat} {S : Sub}
    (hi : Inv G A w) (hns : G.ns = none) (hS : getS w s = some S) (ha : S.alive = true) :
    Inv G A { setS w s { S with alive := false } with subReg := w.subReg.remove S.slot } := by
  generalize hS' : ({ S with alive := false } : Sub) = S'
  have hS'f : S'.alive = false ∧ S'.ex = S.ex ∧ S'.slot = S.slot ∧ S'.conns = S.conns ∧
      S'.snap = S.snap ∧ S'.tbr = S.tbr ∧ S'.held = S.held ∧ S'.storage = S.storage := by
    subst hS'; simp
  obtain ⟨f1, f2, f3, f4, f5, f6, f7, f8⟩ := hS'f
  have hres : ∃ w', { setS w s S' with subReg := w.subReg.remove S.slot } = w' ∧
      w'.cfg = w.cfg ∧ w'.pubReg = w.pubReg ∧
      w'.subReg.slots = w.subReg.slots.set S.slot none ∧ (∀ q, getP w' q = getP w q) ∧
      (∀ t, getS w' t = if t = s then some S' else getS w t) ∧
      (∀ a b, getC w' a b = getC w a b) ∧ w'.conns = w.conns := by
    refine ⟨_, rfl, rfl, rfl, rfl, fun _ => rfl, ?_, fun _ _ => rfl, rfl⟩
    intro t
    show getS (setS w s S') t = _
    simp [hS]
  obtain ⟨w', hw'e, hcfg, hrp, hrs, hgP, hgS, hgC, hcs⟩ := hres
  rw [hw'e]
  have r := hi.top.reg
  have hnst : ∀ t, G.ns ≠ some t := by intro t; rw [hns]; exact fun h => by cases h
  obtain ⟨e0, he0, he0s⟩ : ∃ e, w.subReg.slots[S.slot]? = some (some e) ∧ e.sid = s := by
    rcases r.r3s s S hS (hnst s) with h | h
    · rw [ha] at h; cases h
    · exact h
  have hsl : ∀ (i : Nat) (e : SubEntry), w'.subReg.slots[i]? = some (some e) ↔
      (i ≠ S.slot ∧ w.subReg.slots[i]? = some (some e)) := by
    intro i e
    rw [hrs, List.getElem?_set]
    by_cases h : S.slot = i
    · simp only [h, if_true]
      split <;> simp
    · simp only [h, if_false]
      constructor
      · exact fun h' => ⟨fun e => h e.symm, h'⟩
      · exact fun h' => h'.2
  have keep : ∀ t T, t ≠ s → getS w t = some T → SReg w t T → SReg w' t T := by
    intro t T hts hT hsr
    rcases hsr with h | ⟨e, he, hes⟩
    · exact Or.inl h
    · refine Or.inr ⟨e, (hsl _ e).mpr ⟨?_, he⟩, hes⟩
      intro heq
      rw [heq, he0] at he
      have : e0 = e := Option.some.inj (Option.some.inj he)
      apply hts; rw [← hes, ← this]; exact he0s
  have hgSo : ∀ t, t ≠ s → getS w' t = getS w t := by intro t h; rw [hgS]; simp [h]
  have hgSs : getS w' s = some S' := by rw [hgS]; simp
  apply sl_inv_of_sub_change hi hcfg hgP
  · -- registry
    refine ⟨by rw [hrp, hcfg]; exact r.lenP, by rw [hrs, hcfg, List.length_set]; exact r.lenS,
      ?_, ?_, ?_, ?_, by rw [hrp]; exact r.npFresh, ?_, ?_, ?_, by rw [hcs]; exact r.nodup⟩
    · intro i p hp
      rw [hrp] at hp
      obtain ⟨P, hP, h1, h2⟩ := r.r1 i p hp
      exact ⟨P, by rw [hgP]; exact hP, h1, h2⟩
    · intro i e he
      obtain ⟨hne, he'⟩ := (hsl i e).mp he
      obtain ⟨T, hT, h1, h2⟩ := r.r2 i e he'
      have : e.sid ≠ s := by
        intro h; rw [h, hS] at hT; cases hT; exact hne h2.symm
      exact ⟨T, by rw [hgSo _ this]; exact hT, h1, h2⟩
    · intro p P hP hnp
      rw [hgP] at hP
      have := r.r3p p P hP hnp
      unfold PReg at *; rw [hrp]; exact this
    · intro t T' hT' _
      by_cases hts : t = s
      · subst hts; rw [hgSs] at hT'; cases hT'; exact Or.inl f1
      · rw [hgSo t hts] at hT'
        exact keep t T' hts hT' (r.r3s t T' hT' (hnst t))
    · intro t ht; exact absurd ht (hnst t)
    · intro p hp
      obtain ⟨P, hP, h1⟩ := r.npAlive p hp
      exact ⟨P, by rw [hgP]; exact hP, h1⟩
    · intro t ht; exact absurd ht (hnst t)
  · -- SlSubsOK
    intro t T hT hn hsr
    by_cases hts : t = s
    · subst hts; rw [hS] at hT; cases hT
      exact ⟨S', hgSs, f3, Or.inl f1, hn, fun h => by rw [f1] at h; cases h⟩
    · exact ⟨T, by rw [hgSo t hts]; exact hT, rfl, keep t T hts hT hsr, hn, id⟩
  · intro p t cn hcn hsa _
    exact ⟨cn, by rw [hgC]; exact hcn, hsa, rfl⟩
  · intro t T' hT'
    by_cases hts : t = s
    · subst hts; rw [hgSs] at hT'; cases hT'
      obtain ⟨h1, h2⟩ := sl_sub_untouched (G' := G) hi rfl rfl hcfg hrp hgP hS
        (fun q cn h1 h2 => ⟨cn, by rw [hgC]; exact h1, h2⟩)
      refine ⟨h1.slChS f2 f4 f5 f8 f6 (fun h => by rw [f1] at h; cases h), ?_⟩
      obtain ⟨g1, g2, _⟩ := h2
      exact ⟨by rw [f2, f7]; exact g1, by rw [f7, f8]; exact g2, fun h => by rw [f1] at h; cases h⟩
    · rw [hgSo t hts] at hT'
      exact sl_sub_untouched hi rfl rfl hcfg hrp hgP hT'
        (fun q cn h1 h2 => ⟨cn, by rw [hgC]; exact h1, h2⟩)
  · intro a b cn hcn
    rw [hgC] at hcn
    obtain ⟨P, Sb, hP, hSb, ct, ca⟩ := hi.slConnFacts hcn
    by_cases hbs : b = s
    · subst hbs; rw [hS] at hSb; cases hSb
      have hh : heldOf S' cn.pid = heldOf S cn.pid := by unfold heldOf; rw [f7]
      have hf : flight cn S' = flight cn S := by unfold flight; rw [hh]
      refine ⟨P, S', hP, hgSs, ⟨ct.att, ct.sAtt, by rw [f8]; exact ct.rAtt⟩,
        ⟨ca.usedLen, ca.subCap, ca.borrowMax, ca.total, by rw [hh]; exact ca.borrow,
         by rw [hf]; exact ca.nodup, by rw [hf]; exact ca.used,
         fun h1 h2 => ⟨(ca.idle h1 h2).1, fun h => by rw [f1] at h; cases h⟩⟩⟩
    · exact ⟨P, Sb, hP, by rw [hgSo b hbs]; exact hSb, ct, ca⟩

/-! ### all connections of the storage are closed -/

theorem sl_getP_of_pubs {w w' : World} (h : w'.pubs = w.pubs) (q : Nat) : getP w' q = getP w q := by
  unfold getP; rw [h]
theorem sl_getS_of_subs {w w' : World} (h : w'.subs = w.subs) (q : Nat) : getS w' q = getS w q := by
  unfold getS; rw [h]

theorem subDestroyKeys_items {G : GT} {w : World} {s : Nat} {S : Sub} (ht : TopInv G w)
    (hS : getS w s = some S) (a b : Nat) :
    getC (subDestroyKeys w s (SlotMap.items S.storage)) a b =
      if b = s then slDetR (getC w a b) else getC w a b := by
  obtain ⟨_, _, _, _, _, g6, _⟩ := subDestroyKeys_obs s (SlotMap.items S.storage) w ht.reg.nodup
  rw [g6]
  by_cases hb : b = s
  · subst hb
    by_cases hm : a ∈ (SlotMap.items S.storage).map (·.2)
    · simp only [hm, and_self, if_true]
    · simp only [hm, and_false, if_false, if_true]
      cases hC : getC w a b with
      | none => rfl
      | some cn =>
        obtain ⟨hpid, _, _⟩ := getC_some hC
        obtain ⟨P, S0, _, hS0, ct⟩ := ht.conns a b cn hC
        rw [hS] at hS0; cases hS0
        have hr : cn.rAtt = false := by
          cases h : cn.rAtt with
          | false => rfl
          | true =>
            exfalso
            obtain ⟨k, hk⟩ := ct.rAtt.mp h
            apply hm
            rw [hpid] at hk
            exact List.mem_map.mpr ⟨(k, a), sl_mem_items_iff.mpr hk, rfl⟩
        have hsa : cn.sAtt = true := by
          rcases ct.att with h | h
          · exact h
          · rw [hr] at h; cases h
        have e : ({ cn with rAtt := false } : Conn) = cn := by
          cases cn; simp only at hr; subst hr; rfl
        show some cn = (if cn.sAtt = true then some { cn with rAtt := false } else none)
        rw [if_pos hsa, e]
  · simp only [hb, false_and, if_false]

/-! ### `subDestroyIfUnreferenced` -/

theorem subDestroyIfUnreferenced_inv {G : GT} {A : GA} {w : World} {s : Nat}
    (hi : Inv G A w) (hh : G.hole = none) : Inv G A (subDestroyIfUnreferenced w s) := by
  have _ := hh
  cases hS : getS w s with
  | none => simp only [subDestroyIfUnreferenced, hS]; exact hi
  | some S =>
    simp only [subDestroyIfUnreferenced, hS]
    split
    · exact hi
    · rename_i hcond
      have hcond' : S.alive = false ∧ S.held = [] ∧ S.ex = true := by
        cases h1 : S.alive <;> cases h2 : S.ex <;> cases h3 : S.held <;>
          simp [h1, h2, h3] at hcond ⊢
      obtain ⟨hal, hheld, hex⟩ := hcond'
      have st := hi.top.subs s S hS
      have r := hi.top.reg
      generalize hS' : ({ S with
        ex := false, storage := SlotMap.init 0, tbr := [],
        conns := S.conns.map fun _ => none } : Sub) = S'
      have hS'f : S'.alive = S.alive ∧ S'.ex = false ∧ S'.slot = S.slot ∧
          S'.conns = S.conns.map (fun _ => none) ∧
          S'.snap = S.snap ∧ S'.tbr = [] ∧ S'.held = S.held ∧ S'.storage = SlotMap.init 0 := by
        subst hS'; simp
      obtain ⟨f1, f2, f3, f4, f5, f6, f7, f8⟩ := hS'f
      have hres : ∃ w', setS (subDestroyKeys w s (SlotMap.items S.storage)) s S' = w' ∧
          w'.cfg = w.cfg ∧ w'.pubReg = w.pubReg ∧ w'.subReg = w.subReg ∧
          (∀ q, getP w' q = getP w q) ∧
          (∀ t, getS w' t = if t = s then some S' else getS w t) ∧
          (∀ a b, getC w' a b = if b = s then slDetR (getC w a b) else getC w a b) ∧
          w'.conns.Pairwise fun a b => ¬ (a.pid = b.pid ∧ a.sid = b.sid) := by
        obtain ⟨g1, g2, g3, g4, g5, _, g7⟩ :=
          subDestroyKeys_obs s (SlotMap.items S.storage) w r.nodup
        refine ⟨_, rfl, g1, g2, g3, fun q => sl_getP_of_pubs g4 q, ?_, ?_, g7⟩
        · intro t
          rw [getS_setS, sl_getS_of_subs g5, sl_getS_of_subs g5, hS]
          rfl
        · intro a b
          rw [getC_setS]
          exact subDestroyKeys_items hi.top hS a b
      obtain ⟨w', hw'e, hcfg, hrp, hrs, hgP, hgS, hgC, hnd⟩ := hres
      rw [hw'e]
      have hgSo : ∀ t, t ≠ s → getS w' t = getS w t := by intro t h; rw [hgS]; simp [h]
      have hgSs : getS w' s = some S' := by rw [hgS]; simp
      have hgCo : ∀ a b, b ≠ s → getC w' a b = getC w a b := by intro a b h; rw [hgC]; simp [h]
      have sreg' : ∀ t T, SReg w t T → SReg w' t T := by
        intro t T; unfold SReg; rw [hrs]; exact id
      have hsk : SubsKept w w' := by
        intro t T hT
        by_cases hts : t = s
        · subst hts; rw [hS] at hT; cases hT
          exact ⟨S', hgSs, f3, f1⟩
        · exact ⟨T, by rw [hgSo t hts]; exact hT, rfl, rfl⟩
      apply sl_inv_of_sub_change hi hcfg hgP
      · exact r.congr hcfg hrp hrs (PubsKept.of_eq hgP) hsk
          (fun q P' h => ⟨P', by rw [← hgP]; exact h⟩)
          (fun t T' h => by
            by_cases hts : t = s
            · subst hts; exact ⟨S, hS⟩
            · rw [hgSo t hts] at h; exact ⟨T', h⟩) hnd
      · intro t T hT hn hsr
        by_cases hts : t = s
        · subst hts; rw [hS] at hT; cases hT
          refine ⟨S', hgSs, f3, ?_, hn, by rw [f1]; exact id⟩
          have := sreg' t S hsr
          unfold SReg at *; rw [f1, f3]; exact this
        · exact ⟨T, by rw [hgSo t hts]; exact hT, rfl, sreg' t T hsr, hn, id⟩
      · intro p t cn hcn hsa _
        by_cases hts : t = s
        · subst hts
          refine ⟨{ cn with rAtt := false }, ?_, hsa, rfl⟩
          rw [hgC, hcn]; simp [slDetR, hsa]
        · exact ⟨cn, by rw [hgCo p t hts]; exact hcn, hsa, rfl⟩
      · intro t T' hT'
        by_cases hts : t = s
        · subst hts; rw [hgSs] at hT'; cases hT'
          refine ⟨⟨by rw [f4, List.length_map, hcfg]; exact st.lenC,
            by rw [f5, hcfg]; exact st.lenSnap,
            by rw [f1, hal]; exact (fun h => by cases h),
            (fun _ k => by rw [f8]; exact abs_init_none 0 k),
            by rw [f8]; exact winv_init 0, ?_, ?_, ?_, ?_,
            by rw [f6]; exact List.nodup_nil, by rw [f6]; exact (fun k hk => by cases hk)⟩, ?_⟩
          · intro k p hk; rw [f8, abs_init_none] at hk; cases hk
          · intro k1 k2 p hk; rw [f8, abs_init_none] at hk; cases hk
          · intro j k hj
            rw [f4, List.getElem?_map] at hj
            cases hc : S.conns[j]? <;> simp [hc] at hj
          · intro j p hj
            rw [f5] at hj
            obtain ⟨P, hP, h1, h2, h3⟩ := st.snap j p hj
            refine ⟨P, by rw [hgP]; exact hP, h1, ?_, h3⟩
            unfold PReg at *; rw [hrp]; exact h2
          · refine ⟨fun _ => by rw [f7]; exact hheld, ?_, ?_⟩
            · intro x hx; rw [f7, hheld] at hx; cases hx
            · intro _ x hx; rw [f7, hheld] at hx; cases hx
        · rw [hgSo t hts] at hT'
          exact sl_sub_untouched hi rfl rfl hcfg hrp hgP hT'
            (fun q cn h1 h2 => ⟨cn, by rw [hgCo q t hts]; exact h1, h2⟩)
      · intro a b cn' hcn'
        by_cases hbs : b = s
        · subst hbs
          rw [hgC] at hcn'
          simp only [if_true] at hcn'
          cases hC : getC w a b with
          | none => rw [hC] at hcn'; simp [slDetR] at hcn'
          | some cn =>
            rw [hC] at hcn'
            cases hsa : cn.sAtt with
            | false => simp [slDetR, hsa] at hcn'
            | true =>
              rw [slDetR_some_true hsa, Option.some.injEq] at hcn'
              obtain ⟨P, S0, hP, hS0, ct, ca⟩ := hi.slConnFacts hC
              rw [hS] at hS0; cases hS0
              have hhd : heldOf S' cn.pid = heldOf S cn.pid := by unfold heldOf; rw [f7]
              have ca' := ca.congr (P' := P) (S' := S') rfl rfl hhd f1
              subst hcn'
              refine ⟨P, S', hP, hgSs, ⟨Or.inl hsa, ct.sAtt, ?_⟩,
                ⟨ca'.usedLen, ca'.subCap, ca'.borrowMax, ca'.total, ca'.borrow, ca'.nodup,
                 ca'.used, ca'.idle⟩⟩
              constructor
              · intro h; cases h
              · rintro ⟨k, hk⟩; rw [f8, abs_init_none] at hk; cases hk
        · rw [hgCo a b hbs] at hcn'
          obtain ⟨P, Sb, hP, hSb, ct, ca⟩ := hi.slConnFacts hcn'
          exact ⟨P, Sb, hP, by rw [hgSo b hbs]; exact hSb, ct, ca⟩

/-! ### `.csub` -/

/-- `.csub`, first step: the new port object exists but is not registered yet -/
theorem csub_init_inv {A : GA} {w : World} {s buffer histReq tbrCap : Nat}
    (hi : Inv {} A w) (hnone : getS w s = none) :
    Inv { ns := some s } A
      { w with subs := w.subs ++ [(s, ({
          buffer := buffer, histReq := histReq,
          conns := List.replicate w.cfg.maxPubs none,
          storage := SlotMap.init (tbrCap + w.cfg.maxPubs), tbrCap := tbrCap,
          snapCtr := w.pubReg.counter, snap := w.pubReg.slots } : Sub))] } := by
  generalize hS0 : ({
          buffer := buffer, histReq := histReq,
          conns := List.replicate w.cfg.maxPubs none,
          storage := SlotMap.init (tbrCap + w.cfg.maxPubs), tbrCap := tbrCap,
          snapCtr := w.pubReg.counter, snap := w.pubReg.slots } : Sub) = S0
  have hS0f : S0.alive = true ∧ S0.ex = true ∧ S0.conns = List.replicate w.cfg.maxPubs none ∧
      S0.snap = w.pubReg.slots ∧ S0.tbr = [] ∧ S0.held = [] ∧
      S0.storage = SlotMap.init (tbrCap + w.cfg.maxPubs) := by
    subst hS0; simp
  obtain ⟨f1, f2, f4, f5, f6, f7, f8⟩ := hS0f
  have hres : ∃ w', { w with subs := w.subs ++ [(s, S0)] } = w' ∧
      w'.cfg = w.cfg ∧ w'.pubReg = w.pubReg ∧ w'.subReg = w.subReg ∧
      (∀ q, getP w' q = getP w q) ∧
      (∀ t, getS w' t = if t = s then some S0 else getS w t) ∧
      (∀ a b, getC w' a b = getC w a b) ∧ w'.conns = w.conns :=
    ⟨_, rfl, rfl, rfl, rfl, fun _ => rfl, fun t => sl_getS_append w s t S0 hnone, fun _ _ => rfl, rfl⟩
  obtain ⟨w', hw'e, hcfg, hrp, hrs, hgP, hgS, hgC, hcs⟩ := hres
  rw [hw'e]
  have r := hi.top.reg
  have hne : ∀ t T, getS w t = some T → t ≠ s := by
    intro t T h e; rw [e, hnone] at h; cases h
  have hgSo : ∀ t, t ≠ s → getS w' t = getS w t := by intro t h; rw [hgS]; simp [h]
  have hgSs : getS w' s = some S0 := by rw [hgS]; simp
  have sreg' : ∀ t T, SReg w t T → SReg w' t T := by
    intro t T; unfold SReg; rw [hrs]; exact id
  have hnp0 : ∀ p, ({} : GT).np ≠ some p := fun p h => by cases h
  have hns0 : ∀ t, ({} : GT).ns ≠ some t := fun t h => by cases h
  apply sl_inv_of_sub_change hi hcfg hgP
  · refine ⟨by rw [hrp, hcfg]; exact r.lenP, by rw [hrs, hcfg]; exact r.lenS,
      ?_, ?_, ?_, ?_, ?_, ?_, ?_, ?_, by rw [hcs]; exact r.nodup⟩
    · intro i p hp
      rw [hrp] at hp
      obtain ⟨P, hP, h1, h2⟩ := r.r1 i p hp
      exact ⟨P, by rw [hgP]; exact hP, h1, h2⟩
    · intro i e he
      rw [hrs] at he
      obtain ⟨T, hT, h1, h2⟩ := r.r2 i e he
      exact ⟨T, by rw [hgSo _ (hne _ T hT)]; exact hT, h1, h2⟩
    · intro p P hP _
      rw [hgP] at hP
      have := r.r3p p P hP (hnp0 p)
      unfold PReg at *; rw [hrp]; exact this
    · intro t T hT hn
      have hts : t ≠ s := fun e => hn (by rw [e])
      rw [hgSo t hts] at hT
      exact sreg' t T (r.r3s t T hT (hns0 t))
    · intro p hp; cases hp
    · intro t ht i e he hes
      cases ht
      rw [hrs] at he
      obtain ⟨T, hT, _, _⟩ := r.r2 i e he
      exact hne _ T hT hes
    · intro p hp; cases hp
    · intro t ht
      cases ht
      exact ⟨S0, hgSs, f1⟩
  · intro t T hT _ hsr
    have hts := hne t T hT
    exact ⟨T, by rw [hgSo t hts]; exact hT, rfl, sreg' t T hsr,
      fun h => hts (Option.some.inj h).symm, id⟩
  · intro p t cn hcn hsa _
    exact ⟨cn, by rw [hgC]; exact hcn, hsa, rfl⟩
  · intro t T' hT'
    by_cases hts : t = s
    · subst hts; rw [hgSs] at hT'; cases hT'
      refine ⟨⟨by rw [f4, List.length_replicate, hcfg],
        by rw [f5, hcfg]; exact r.lenP,
        fun _ => f2,
        (fun h => by rw [f2] at h; cases h),
        by rw [f8]; exact winv_init _, ?_, ?_, ?_, ?_,
        by rw [f6]; exact List.nodup_nil, by rw [f6]; exact (fun k hk => by cases hk)⟩, ?_⟩
      · intro k p hk; rw [f8, abs_init_none] at hk; cases hk
      · intro k1 k2 p hk; rw [f8, abs_init_none] at hk; cases hk
      · intro j k hj
        rw [f4, List.getElem?_replicate] at hj
        split at hj <;> simp at hj
      · intro j p hj
        rw [f5] at hj
        obtain ⟨P, hP, h1, h2⟩ := r.r1 j p hj
        refine ⟨P, by rw [hgP]; exact hP, h2, Or.inr ?_, fun h => by cases h⟩
        rw [hrp, h2]; exact hj
      · refine ⟨fun _ => f7, ?_, ?_⟩
        · intro x hx; rw [f7] at hx; cases hx
        · intro _ x hx; rw [f7] at hx; cases hx
    · rw [hgSo t hts] at hT'
      exact sl_sub_untouched (G' := { ns := some s }) hi rfl rfl hcfg hrp hgP hT'
        (fun q cn h1 h2 => ⟨cn, by rw [hgC]; exact h1, h2⟩)
  · intro a b cn hcn
    rw [hgC] at hcn
    obtain ⟨P, Sb, hP, hSb, ct, ca⟩ := hi.slConnFacts hcn
    exact ⟨P, Sb, hP, by rw [hgSo b (hne b Sb hSb)]; exact hSb, ct, ca⟩

/-- `.csub`, registration succeeded -/
theorem csub_ok_inv {A : GA} {w1 : World} {s slot : Nat} {S1 : Sub} {e : SubEntry}
    {reg : Reg SubEntry}
    (hi : Inv { ns := some s } A w1) (he : e.sid = s) (hadd : w1.subReg.add e = some (reg, slot))
    (hS1 : getS w1 s = some S1) :
    Inv {} A { setS w1 s { S1 with slot := slot } with subReg := reg } := by
  have r := hi.top.reg
  have st := hi.top.subs s S1 hS1
  -- the registry
  have hregf : reg.slots = w1.subReg.slots.set slot (some e) ∧
      w1.subReg.slots[slot]? = some none := by
    unfold Reg.add at hadd
    cases hf : firstFree w1.subReg.slots 0 with
    | none => rw [hf] at hadd; cases hadd
    | some i =>
      rw [hf] at hadd
      simp only [Option.some.injEq, Prod.mk.injEq] at hadd
      obtain ⟨h1, h2⟩ := hadd
      subst h2
      refine ⟨by rw [← h1], ?_⟩
      have := (sl_firstFree_spec _ _ _ hf).2
      simpa using this
  obtain ⟨hrs0, hfree⟩ := hregf
  have hlt : slot < w1.subReg.slots.length := (List.getElem?_eq_some_iff.mp hfree).1
  have hal : S1.alive = true := by
    obtain ⟨T, hT, h⟩ := r.nsAlive s rfl
    rw [hS1] at hT; cases hT; exact h
  generalize hS' : ({ S1 with slot := slot } : Sub) = S'
  have hS'f : S'.alive = S1.alive ∧ S'.ex = S1.ex ∧ S'.slot = slot ∧ S'.conns = S1.conns ∧
      S'.snap = S1.snap ∧ S'.tbr = S1.tbr ∧ S'.held = S1.held ∧ S'.storage = S1.storage := by
    subst hS'; simp
  obtain ⟨f1, f2, f3, f4, f5, f6, f7, f8⟩ := hS'f
  have hres : ∃ w', { setS w1 s S' with subReg := reg } = w' ∧
      w'.cfg = w1.cfg ∧ w'.pubReg = w1.pubReg ∧
      w'.subReg.slots = w1.subReg.slots.set slot (some e) ∧ (∀ q, getP w' q = getP w1 q) ∧
      (∀ t, getS w' t = if t = s then some S' else getS w1 t) ∧
      (∀ a b, getC w' a b = getC w1 a b) ∧ w'.conns = w1.conns := by
    refine ⟨_, rfl, rfl, rfl, hrs0, fun _ => rfl, ?_, fun _ _ => rfl, rfl⟩
    intro t
    show getS (setS w1 s S') t = _
    simp [hS1]
  obtain ⟨w', hw'e, hcfg, hrp, hrs, hgP, hgS, hgC, hcs⟩ := hres
  rw [hw'e]
  have hgSo : ∀ t, t ≠ s → getS w' t = getS w1 t := by intro t h; rw [hgS]; simp [h]
  have hgSs : getS w' s = some S' := by rw [hgS]; simp
  have hnp0 : ∀ p, ({ ns := some s } : GT).np ≠ some p := fun p h => by cases h
  have hns0 : ∀ t, ({} : GT).ns ≠ some t := fun t h => by cases h
  have hns1 : ∀ t, t ≠ s → ({ ns := some s } : GT).ns ≠ some t :=
    fun t h h' => h (Option.some.inj h').symm
  have hsl : ∀ (i : Nat) (e' : SubEntry), w'.subReg.slots[i]? = some (some e') ↔
      ((i = slot ∧ e' = e) ∨ (i ≠ slot ∧ w1.subReg.slots[i]? = some (some e'))) := by
    intro i e'
    rw [hrs, List.getElem?_set]
    by_cases h : slot = i
    · subst h
      simp only [if_true, hlt, Option.some.injEq, ne_eq, not_true_eq_false, false_and, or_false,
        true_and]
      exact ⟨fun h => h.symm, fun h => h.symm⟩
    · have h' : ¬ i = slot := fun e => h e.symm
      simp only [h, if_false, h', false_and, false_or, ne_eq, not_false_eq_true, true_and]
  have keep : ∀ t T, SReg w1 t T → SReg w' t T := by
    intro t T hsr
    rcases hsr with h | ⟨e', he', hes⟩
    · exact Or.inl h
    · refine Or.inr ⟨e', (hsl _ e').mpr (Or.inr ⟨?_, he'⟩), hes⟩
      intro heq
      rw [heq, hfree] at he'
      cases he'
  apply sl_inv_of_sub_change hi hcfg hgP
  · refine ⟨by rw [hrp, hcfg]; exact r.lenP, by rw [hrs, hcfg, List.length_set]; exact r.lenS,
      ?_, ?_, ?_, ?_, ?_, ?_, ?_, ?_, by rw [hcs]; exact r.nodup⟩
    · intro i p hp
      rw [hrp] at hp
      obtain ⟨P, hP, h1, h2⟩ := r.r1 i p hp
      exact ⟨P, by rw [hgP]; exact hP, h1, h2⟩
    · intro i e' he'
      rcases (hsl i e').mp he' with ⟨h1, h2⟩ | ⟨_, h2⟩
      · subst h1; subst h2
        exact ⟨S', by rw [he]; exact hgSs, f1.trans hal, f3⟩
      · obtain ⟨T, hT, g1, g2⟩ := r.r2 i e' h2
        have := r.nsFresh s rfl i e' h2
        exact ⟨T, by rw [hgSo _ this]; exact hT, g1, g2⟩
    · intro p P hP _
      rw [hgP] at hP
      have := r.r3p p P hP (hnp0 p)
      unfold PReg at *; rw [hrp]; exact this
    · intro t T hT _
      by_cases hts : t = s
      · subst hts; rw [hgSs] at hT; cases hT
        refine Or.inr ⟨e, ?_, he⟩
        rw [f3]; exact (hsl slot e).mpr (Or.inl ⟨rfl, rfl⟩)
      · rw [hgSo t hts] at hT
        exact keep t T (r.r3s t T hT (hns1 t hts))
    · intro p hp; cases hp
    · intro t ht; cases ht
    · intro p hp; cases hp
    · intro t ht; cases ht
  · intro t T hT hn hsr
    have hts : t ≠ s := fun e => hn (by rw [e])
    exact ⟨T, by rw [hgSo t hts]; exact hT, rfl, keep t T hsr, hns0 t, id⟩
  · intro p t cn hcn hsa _
    exact ⟨cn, by rw [hgC]; exact hcn, hsa, rfl⟩
  · intro t T' hT'
    by_cases hts : t = s
    · subst hts; rw [hgSs] at hT'; cases hT'
      obtain ⟨h1, h2⟩ := sl_sub_untouched (G' := {}) hi rfl rfl hcfg hrp hgP hS1
        (fun q cn h1 h2 => ⟨cn, by rw [hgC]; exact h1, h2⟩)
      refine ⟨h1.slChS f2 f4 f5 f8 f6 (by rw [f1, f2]; exact st.aliveEx), ?_⟩
      obtain ⟨g1, g2, g3⟩ := h2
      exact ⟨by rw [f2, f7]; exact g1, by rw [f7, f8]; exact g2, by rw [f1, f7]; exact g3⟩
    · rw [hgSo t hts] at hT'
      exact sl_sub_untouched (G' := {}) hi rfl rfl hcfg hrp hgP hT'
        (fun q cn h1 h2 => ⟨cn, by rw [hgC]; exact h1, h2⟩)
  · intro a b cn hcn
    rw [hgC] at hcn
    obtain ⟨P, Sb, hP, hSb, ct, ca⟩ := hi.slConnFacts hcn
    by_cases hbs : b = s
    · subst hbs; rw [hS1] at hSb; cases hSb
      have hhd : heldOf S' cn.pid = heldOf S1 cn.pid := by unfold heldOf; rw [f7]
      exact ⟨P, S', hP, hgSs, ⟨ct.att, ct.sAtt, by rw [f8]; exact ct.rAtt⟩,
        ca.congr rfl rfl hhd f1⟩
    · exact ⟨P, Sb, hP, by rw [hgSo b hbs]; exact hSb, ct, ca⟩

/-- `.csub`, registry full: the port is dropped again -/
theorem csub_fail_inv {A : GA} {w1 : World} {s : Nat} {S1 : Sub}
    (hi : Inv { ns := some s } A w1) (hS1 : getS w1 s = some S1) :
    Inv {} A { (subDestroyKeys w1 s (SlotMap.items S1.storage)) with
      subs := (subDestroyKeys w1 s (SlotMap.items S1.storage)).subs.filter fun e => e.1 ≠ s } := by
  have r := hi.top.reg
  have hnp0 : ∀ p, ({ ns := some s } : GT).np ≠ some p := fun p h => by cases h
  have hns0 : ∀ t, ({} : GT).ns ≠ some t := fun t h => by cases h
  have hns1 : ∀ t, t ≠ s → ({ ns := some s } : GT).ns ≠ some t :=
    fun t h h' => h (Option.some.inj h').symm
  -- no sender is attached to a connection of `s`
  have hnos : ∀ a cn, getC w1 a s = some cn → cn.sAtt = false := by
    intro a cn hcn
    cases hsa : cn.sAtt with
    | false => rfl
    | true =>
      exfalso
      obtain ⟨_, hsid, _⟩ := getC_some hcn
      obtain ⟨P, S, hP, _, ct⟩ := hi.top.conns a s cn hcn
      have hm := ct.sAtt.mp hsa
      rw [hsid] at hm
      obtain ⟨i, hi'⟩ := List.mem_iff_getElem?.mp hm
      obtain ⟨_, _, _, _, hns, _⟩ := (hi.top.pubs a P hP).conn i s hi'
      exact hns rfl
  have hres : ∃ w', { (subDestroyKeys w1 s (SlotMap.items S1.storage)) with
      subs := (subDestroyKeys w1 s (SlotMap.items S1.storage)).subs.filter fun e => e.1 ≠ s } = w' ∧
      w'.cfg = w1.cfg ∧ w'.pubReg = w1.pubReg ∧ w'.subReg = w1.subReg ∧
      (∀ q, getP w' q = getP w1 q) ∧
      (∀ t, getS w' t = if t = s then none else getS w1 t) ∧
      (∀ a b, getC w' a b = if b = s then none else getC w1 a b) ∧
      w'.conns.Pairwise fun a b => ¬ (a.pid = b.pid ∧ a.sid = b.sid) := by
    obtain ⟨g1, g2, g3, g4, g5, _, g7⟩ :=
      subDestroyKeys_obs s (SlotMap.items S1.storage) w1 r.nodup
    refine ⟨_, rfl, g1, g2, g3, fun q => sl_getP_of_pubs g4 q, ?_, ?_, g7⟩
    · intro t
      rw [sl_getS_filter, sl_getS_of_subs g5]
    · intro a b
      show getC (subDestroyKeys w1 s (SlotMap.items S1.storage)) a b = _
      rw [subDestroyKeys_items hi.top hS1]
      by_cases hb : b = s
      · subst hb
        simp only [if_true]
        cases hC : getC w1 a b with
        | none => rfl
        | some cn => exact slDetR_some_false (hnos a cn hC)
      · simp only [hb, if_false]
  obtain ⟨w', hw'e, hcfg, hrp, hrs, hgP, hgS, hgC, hnd⟩ := hres
  rw [hw'e]
  have hgSo : ∀ t, t ≠ s → getS w' t = getS w1 t := by intro t h; rw [hgS]; simp [h]
  have hgSs : getS w' s = none := by rw [hgS]; simp
  have hgCo : ∀ a b, b ≠ s → getC w' a b = getC w1 a b := by intro a b h; rw [hgC]; simp [h]
  have hne : ∀ t T, getS w' t = some T → t ≠ s := by
    intro t T h e; rw [e, hgSs] at h; cases h
  have sreg' : ∀ t T, SReg w1 t T → SReg w' t T := by
    intro t T; unfold SReg; rw [hrs]; exact id
  apply sl_inv_of_sub_change hi hcfg hgP
  · refine ⟨by rw [hrp, hcfg]; exact r.lenP, by rw [hrs, hcfg]; exact r.lenS,
      ?_, ?_, ?_, ?_, ?_, ?_, ?_, ?_, hnd⟩
    · intro i p hp
      rw [hrp] at hp
      obtain ⟨P, hP, h1, h2⟩ := r.r1 i p hp
      exact ⟨P, by rw [hgP]; exact hP, h1, h2⟩
    · intro i e' he'
      rw [hrs] at he'
      obtain ⟨T, hT, g1, g2⟩ := r.r2 i e' he'
      have := r.nsFresh s rfl i e' he'
      exact ⟨T, by rw [hgSo _ this]; exact hT, g1, g2⟩
    · intro p P hP _
      rw [hgP] at hP
      have := r.r3p p P hP (hnp0 p)
      unfold PReg at *; rw [hrp]; exact this
    · intro t T hT _
      have hts := hne t T hT
      rw [hgSo t hts] at hT
      exact sreg' t T (r.r3s t T hT (hns1 t hts))
    · intro p hp; cases hp
    · intro t ht; cases ht
    · intro p hp; cases hp
    · intro t ht; cases ht
  · intro t T hT hn hsr
    have hts : t ≠ s := fun e => hn (by rw [e])
    exact ⟨T, by rw [hgSo t hts]; exact hT, rfl, sreg' t T hsr, hns0 t, id⟩
  · intro p t cn hcn hsa hn
    have hts : t ≠ s := fun e => hn (by rw [e])
    exact ⟨cn, by rw [hgCo p t hts]; exact hcn, hsa, rfl⟩
  · intro t T' hT'
    have hts := hne t T' hT'
    rw [hgSo t hts] at hT'
    exact sl_sub_untouched (G' := {}) hi rfl rfl hcfg hrp hgP hT'
      (fun q cn h1 h2 => ⟨cn, by rw [hgCo q t hts]; exact h1, h2⟩)
  · intro a b cn hcn
    have hbs : b ≠ s := by
      intro e; rw [hgC] at hcn; simp [e] at hcn
    rw [hgCo a b hbs] at hcn
    obtain ⟨P, Sb, hP, hSb, ct, ca⟩ := hi.slConnFacts hcn
    exact ⟨P, Sb, hP, by rw [hgSo b hbs]; exact hSb, ct, ca⟩

end Iox2.PubSub.C02P
