/-
C02 — subscriber lifecycle: `subDestroyIfUnreferenced`, the `.dsub` unregistration and the three
phases of `.csub` (port object created, registered / registry full) preserve the invariant.
-/
import Iox2.Proof.PubSubC02SubDrop

namespace Iox2.PubSub.C02P
open Iox2.PubSub
open Iox2.C16.SlotMapP (abs WInv)

/-! ### small lemmas -/

theorem mem_items_iff {m : SlotMap.St Nat} {k e : Nat} :
    (k, e) ∈ SlotMap.items m ↔ abs m k = some e := by
  rw [Iox2.C16.SlotMapP.mem_items]
  constructor
  · exact fun h => h.2
  · intro h
    refine ⟨?_, h⟩
    apply Nat.lt_of_not_le
    intro hle
    rw [Iox2.C16.SlotMapP.abs_oob (List.getElem?_eq_none hle)] at h
    cases h

theorem firstFree_spec {α : Type} : ∀ (l : List (Option α)) (k i : Nat),
    firstFree l k = some i → k ≤ i ∧ l[i - k]? = some none
  | [], k, i, h => by simp [firstFree] at h
  | none :: r, k, i, h => by
    simp only [firstFree, Option.some.injEq] at h
    subst h; simp
  | some a :: r, k, i, h => by
    simp only [firstFree] at h
    obtain ⟨h1, h2⟩ := firstFree_spec r (k + 1) i h
    refine ⟨by omega, ?_⟩
    have : i - k = (i - (k + 1)) + 1 := by omega
    rw [this]; simpa using h2

theorem getS_append (w : World) (s t : Nat) (X : Sub) (hnone : getS w s = none) :
    getS { w with subs := w.subs ++ [(s, X)] } t = if t = s then some X else getS w t := by
  unfold getS at *
  simp only [List.find?_append, List.find?_cons, List.find?_nil]
  by_cases h : t = s
  · subst h
    simp only [if_true]
    cases hf : w.subs.find? (·.1 = t) with
    | none => simp
    | some x => rw [hf] at hnone; simp at hnone
  · simp only [h, if_false]
    have : ¬ s = t := fun e => h e.symm
    cases hf : w.subs.find? (·.1 = t) <;> simp [this]

theorem getS_filter (w : World) (s t : Nat) :
    getS { w with subs := w.subs.filter fun e => e.1 ≠ s } t =
      if t = s then none else getS w t := by
  unfold getS
  simp only [List.find?_filter]
  by_cases h : t = s
  · subst h
    simp only [if_true, Option.map_eq_none_iff]
    rw [List.find?_eq_none]
    intro x _
    by_cases hx : x.1 = t <;> simp [hx]
  · simp only [h, if_false]
    congr 1
    congr 1
    funext x
    by_cases hx : x.1 = t
    · have : ¬ x.1 = s := fun e => h (hx.symm.trans e)
      simp [hx, this, h]
    · simp [hx]

/-! ### `detachReceiver`, `subDestroyKeys` by observations -/

/-- what happens to a connection whose receiver side goes away -/
def detR (oc : Option Conn) : Option Conn :=
  match oc with
  | none => none
  | some c => if c.sAtt then some { c with rAtt := false } else none

theorem detR_idem (oc : Option Conn) : detR (detR oc) = detR oc := by
  cases oc with
  | none => rfl
  | some c =>
    cases h : c.sAtt <;> simp [detR, h]

theorem getC_detachReceiver (w : World) (p s a b : Nat) :
    getC (detachReceiver w p s) a b = if a = p ∧ b = s then detR (getC w a b) else getC w a b := by
  rw [detachReceiver_eq]
  cases hC : getC w p s with
  | none =>
    simp only
    split
    · rename_i h; rw [h.1, h.2, hC]; rfl
    · rfl
  | some c =>
    obtain ⟨hpid, hsid, _⟩ := getC_some hC
    simp only
    cases hsa : c.sAtt with
    | true =>
      simp only [if_true]
      rw [getC_setC]
      simp only [hpid, hsid]
      split
      · rename_i h; rw [h.1, h.2, hC]; simp [detR, hsa]
      · rfl
    | false =>
      simp only [Bool.false_eq_true, if_false]
      rw [getC_delC]
      split
      · rename_i h; rw [h.1, h.2, hC]; simp [detR, hsa]
      · rfl

theorem detachReceiver_fields (w : World) (p s : Nat) :
    (detachReceiver w p s).cfg = w.cfg ∧ (detachReceiver w p s).pubReg = w.pubReg ∧
    (detachReceiver w p s).subReg = w.subReg ∧ (detachReceiver w p s).pubs = w.pubs ∧
    (detachReceiver w p s).subs = w.subs := by
  rw [detachReceiver_eq]
  cases getC w p s with
  | none => exact ⟨rfl, rfl, rfl, rfl, rfl⟩
  | some c =>
    simp only
    split <;> exact ⟨rfl, rfl, rfl, rfl, rfl⟩

theorem nodup_detachReceiver {w : World} (p s : Nat)
    (hn : w.conns.Pairwise fun a b => ¬ (a.pid = b.pid ∧ a.sid = b.sid)) :
    (detachReceiver w p s).conns.Pairwise fun a b => ¬ (a.pid = b.pid ∧ a.sid = b.sid) := by
  rw [detachReceiver_eq]
  cases getC w p s with
  | none => exact hn
  | some c =>
    simp only
    split
    · exact nodup_setC _ hn
    · exact nodup_delC _ _ hn

theorem subDestroyKeys_obs (s : Nat) : ∀ (l : List (Nat × Nat)) (w : World),
    (w.conns.Pairwise fun a b => ¬ (a.pid = b.pid ∧ a.sid = b.sid)) →
    (subDestroyKeys w s l).cfg = w.cfg ∧ (subDestroyKeys w s l).pubReg = w.pubReg ∧
    (subDestroyKeys w s l).subReg = w.subReg ∧ (subDestroyKeys w s l).pubs = w.pubs ∧
    (subDestroyKeys w s l).subs = w.subs ∧
    (∀ a b, getC (subDestroyKeys w s l) a b =
      if b = s ∧ (∃ k, (k, a) ∈ l) then detR (getC w a b) else getC w a b) ∧
    ((subDestroyKeys w s l).conns.Pairwise fun a b => ¬ (a.pid = b.pid ∧ a.sid = b.sid))
  | [], w, hn => by
    refine ⟨rfl, rfl, rfl, rfl, rfl, ?_, hn⟩
    intro a b; simp [subDestroyKeys]
  | (k, p) :: r, w, hn => by
    obtain ⟨f1, f2, f3, f4, f5⟩ := detachReceiver_fields w p s
    obtain ⟨g1, g2, g3, g4, g5, g6, g7⟩ :=
      subDestroyKeys_obs s r (detachReceiver w p s) (nodup_detachReceiver p s hn)
    have e : subDestroyKeys w s ((k, p) :: r) = subDestroyKeys (detachReceiver w p s) s r := rfl
    rw [e]
    refine ⟨g1.trans f1, g2.trans f2, g3.trans f3, g4.trans f4, g5.trans f5, ?_, g7⟩
    intro a b
    rw [g6, getC_detachReceiver]
    by_cases hb : b = s
    · by_cases ha : a = p
      · have h1 : ∃ k', (k', a) ∈ (k, p) :: r := ⟨k, by rw [ha]; exact List.mem_cons_self⟩
        simp only [hb, ha, and_self, if_true, true_and, h1]
        rw [← ha]
        split
        · exact detR_idem _
        · rfl
      · have h1 : (∃ k', (k', a) ∈ (k, p) :: r) ↔ ∃ k', (k', a) ∈ r := by
          constructor
          · rintro ⟨k', hk'⟩
            rcases List.mem_cons.mp hk' with h | h
            · exact absurd (Prod.mk.inj h).2 ha
            · exact ⟨k', h⟩
          · rintro ⟨k', hk'⟩; exact ⟨k', List.mem_cons_of_mem _ hk'⟩
        simp only [hb, ha, false_and, if_false, true_and, h1]
    · simp [hb]

end Iox2.PubSub.C02P
