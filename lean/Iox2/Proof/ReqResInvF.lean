/-
Fourth part of the state invariant of the request-response model: requests that are loaned and not yet
sent (`Client.qloans`).  A request id is assigned when the request is loaned; until the request is sent the
id is used by nothing else - no pending response, no queued request, no request a server handed out, no
other loan.  `InvF` is a field of `Inv`.
-/
import Iox2.Proof.ReqResInvB
namespace Iox2.ReqRes

structure InvF (w : World) : Prop where
  /-- the request id of a loan is below the client's counter -/
  f1 : ∀ c C (q : QLoan), getCl w c = some C → q ∈ C.qloans → q.rid < C.ridCtr
  /-- loans have pairwise different request ids -/
  f2 : ∀ c C, getCl w c = some C → C.qloans.Pairwise (fun a b => a.rid ≠ b.rid)
  /-- no pending response has the request id of a loan -/
  f3 : ∀ c C (q : QLoan) (P : Pending), getCl w c = some C → q ∈ C.qloans → P ∈ C.pendings → P.rid ≠ q.rid
  /-- no queued request of the client has the request id of a loan -/
  f4 : ∀ c C (q : QLoan) (t : Pid) (conn : Conn) (ch : Nat) (x : Chan) (e : Entry), getCl w c = some C → q ∈ C.qloans →
        getConn w (cid c) t = some conn → conn.chans[ch]? = some x → e ∈ x.sub → t.srv = true → e.msg.rid ≠ q.rid
  /-- no request of the client a server handed out has the request id of a loan -/
  f5 : ∀ c C (q : QLoan) s V v, getCl w c = some C → q ∈ C.qloans → getSv w s = some V → (c, v) ∈ V.gRecvReq → v ≠ q.rid
  /-- (e) the loan counter is at least the number of loans kept and stays within `max_loaned_requests` -/
  f6 : ∀ c C, getCl w c = some C → C.qloans.length ≤ C.loanCnt ∧ C.loanCnt ≤ w.cfg.maxLoans

namespace InvF

/-- clients and servers stay, queues shrink to suffixes or are empty -/
theorem of_shrink {w w' : World} (hI : InvF w) (hcfg : w'.cfg = w.cfg) (hcl : ∀ c, getCl w' c = getCl w c)
    (hsv : ∀ s, getSv w' s = getSv w s)
    (hconn : ∀ (f t : Pid) (c' : Conn) (ch : Nat) (x' : Chan), getConn w' f t = some c' → c'.chans[ch]? = some x' →
      (∃ c x, getConn w f t = some c ∧ c.chans[ch]? = some x ∧ x'.sub <:+ x.sub) ∨ x'.sub = []) : InvF w' := by
  refine ⟨?_, ?_, ?_, ?_, ?_, ?_⟩
  · intro c C q hC; rw [hcl] at hC; exact hI.f1 c C q hC
  · intro c C hC; rw [hcl] at hC; exact hI.f2 c C hC
  · intro c C q P hC; rw [hcl] at hC; exact hI.f3 c C q P hC
  · intro c C q t conn ch x e hC hq hc hx he ht
    rw [hcl] at hC
    rcases hconn _ _ conn ch x hc hx with ⟨c0, x0, hc0, hx0, hsub⟩ | hnil
    · exact hI.f4 c C q t c0 ch x0 e hC hq hc0 hx0 (hsub.subset he) ht
    · rw [hnil] at he; cases he
  · intro c C q s V v hC hq hV; rw [hcl] at hC; rw [hsv] at hV; exact hI.f5 c C q s V v hC hq hV
  · intro c C hC; rw [hcl] at hC; rw [hcfg]; exact hI.f6 c C hC

theorem of_same {w w' : World} (hI : InvF w) (hcfg : w'.cfg = w.cfg) (hcl : ∀ c, getCl w' c = getCl w c)
    (hsv : ∀ s, getSv w' s = getSv w s) (hco : ∀ f t, getConn w' f t = getConn w f t) : InvF w' :=
  hI.of_shrink hcfg hcl hsv (fun f t c' ch x' hc hx => Or.inl ⟨c', x', by rw [← hco]; exact hc, hx, List.suffix_refl _⟩)

theorem hk {w w' : World} {me : Pid} (hI : InvF w) (h : Hk me w w') : InvF w' := by
  refine hI.of_shrink h.cfg h.getCl_eq h.getSv_eq ?_
  intro f t c' ch x' hc hx
  rcases h.conns f t c' hc with ⟨c, hc0, l⟩ | fr
  · obtain ⟨x, hx0, l0⟩ := l.1 ch x' hx
    exact Or.inl ⟨c, x, hc0, hx0, l0.2⟩
  · exact Or.inr (fr ch x' hx).1

/-- the record of client `c` is written (or appears) -/
theorem setCl' {w w' : World} (hI : InvF w) {c : Nat} {C' : Client} (hcfg : w'.cfg = w.cfg)
    (hcl : ∀ c', getCl w' c' = if c' = c then some C' else getCl w c') (hsv : ∀ s, getSv w' s = getSv w s)
    (hco : ∀ f t, getConn w' f t = getConn w f t)
    (h1 : ∀ q ∈ C'.qloans, q.rid < C'.ridCtr) (h2 : C'.qloans.Pairwise (fun a b => a.rid ≠ b.rid))
    (h3 : ∀ q ∈ C'.qloans, ∀ P ∈ C'.pendings, P.rid ≠ q.rid)
    (h4 : ∀ q ∈ C'.qloans, ∀ (t : Pid) (conn : Conn) (ch : Nat) (x : Chan) (e : Entry), getConn w (cid c) t = some conn →
      conn.chans[ch]? = some x → e ∈ x.sub → t.srv = true → e.msg.rid ≠ q.rid)
    (h5 : ∀ q ∈ C'.qloans, ∀ s V v, getSv w s = some V → (c, v) ∈ V.gRecvReq → v ≠ q.rid)
    (h6 : C'.qloans.length ≤ C'.loanCnt ∧ C'.loanCnt ≤ w.cfg.maxLoans) : InvF w' := by
  refine ⟨?_, ?_, ?_, ?_, ?_, ?_⟩
  · intro c' X q hX hq
    rw [hcl] at hX; split at hX
    · cases hX; exact h1 q hq
    · exact hI.f1 c' X q hX hq
  · intro c' X hX
    rw [hcl] at hX; split at hX
    · cases hX; exact h2
    · exact hI.f2 c' X hX
  · intro c' X q P hX hq hP
    rw [hcl] at hX; split at hX
    · cases hX; exact h3 q hq P hP
    · exact hI.f3 c' X q P hX hq hP
  · intro c' X q t conn ch x e hX hq hc hx he ht
    rw [hco] at hc
    rw [hcl] at hX; split at hX
    · next hcc => cases hX; subst hcc; exact h4 q hq t conn ch x e hc hx he ht
    · exact hI.f4 c' X q t conn ch x e hX hq hc hx he ht
  · intro c' X q s V v hX hq hV hv
    rw [hsv] at hV
    rw [hcl] at hX; split at hX
    · next hcc => cases hX; subst hcc; exact h5 q hq s V v hV hv
    · exact hI.f5 c' X q s V v hX hq hV hv
  · intro c' X hX
    rw [hcfg]
    rw [hcl] at hX; split at hX
    · cases hX; exact h6
    · exact hI.f6 c' X hX

/-- the record of an existing client is replaced: loans are taken from the old loans, the request ids of the
pending responses from the old pending responses -/
theorem setCl_sub {w : World} (hI : InvF w) {c : Nat} {C C' : Client} (hC : getCl w c = some C)
    (hq : C'.qloans.Sublist C.qloans) (hp : ∀ P' ∈ C'.pendings, ∃ P ∈ C.pendings, P.rid = P'.rid)
    (hr : C.ridCtr ≤ C'.ridCtr) (h6 : C'.qloans.length ≤ C'.loanCnt ∧ C'.loanCnt ≤ w.cfg.maxLoans) :
    InvF (ReqRes.setCl w c C') := by
  refine hI.setCl' (c := c) (C' := C') rfl (fun _ => getCl_setCl _ _ _ _) (fun _ => rfl) (fun _ _ => rfl) ?_ ?_ ?_ ?_ ?_ h6
  · intro q hq'; exact Nat.lt_of_lt_of_le (hI.f1 c C q hC (hq.subset hq')) hr
  · exact (hI.f2 c C hC).sublist hq
  · intro q hq' P' hP'
    obtain ⟨P, hP, e⟩ := hp P' hP'
    rw [← e]; exact hI.f3 c C q P hC (hq.subset hq') hP
  · intro q hq' t conn ch x e; exact hI.f4 c C q t conn ch x e hC (hq.subset hq')
  · intro q hq' s V v; exact hI.f5 c C q s V v hC (hq.subset hq')

/-- a server record is written: what its log holds beyond the old log differs from every loan -/
theorem setSv' {w w' : World} (hI : InvF w) {s : Nat} {V' : Server} (hcfg : w'.cfg = w.cfg)
    (hcl : ∀ c, getCl w' c = getCl w c) (hsv : ∀ s', getSv w' s' = if s' = s then some V' else getSv w s')
    (hco : ∀ f t, getConn w' f t = getConn w f t)
    (hlog : ∀ c v, (c, v) ∈ V'.gRecvReq → (∃ V, getSv w s = some V ∧ (c, v) ∈ V.gRecvReq) ∨
      (∀ C (q : QLoan), getCl w c = some C → q ∈ C.qloans → v ≠ q.rid)) : InvF w' := by
  refine ⟨?_, ?_, ?_, ?_, ?_, ?_⟩
  · intro c C q hC; rw [hcl] at hC; exact hI.f1 c C q hC
  · intro c C hC; rw [hcl] at hC; exact hI.f2 c C hC
  · intro c C q P hC; rw [hcl] at hC; exact hI.f3 c C q P hC
  · intro c C q t conn ch x e hC hq hc; rw [hcl] at hC; rw [hco] at hc; exact hI.f4 c C q t conn ch x e hC hq hc
  · intro c C q s' X v hC hq hX hv
    rw [hcl] at hC
    rw [hsv] at hX; split at hX
    · next hss =>
      cases hX; subst hss
      rcases hlog c v hv with ⟨V, hV, hv'⟩ | h
      · exact hI.f5 c C q s' V v hC hq hV hv'
      · exact h C q hC hq
    · exact hI.f5 c C q s' X v hC hq hX hv
  · intro c C hC; rw [hcl] at hC; rw [hcfg]; exact hI.f6 c C hC

theorem cfg_mapChanAt (w : World) (f t : Pid) (ch : Nat) (g : Chan → Chan) :
    (ReqRes.mapChanAt w f t ch g).cfg = w.cfg := by
  unfold ReqRes.mapChanAt; split
  · split <;> rfl
  · rfl

theorem mapChanAt {w : World} (hI : InvF w) (f t : Pid) (ch : Nat) (g : Chan → Chan) (hg : ∀ x, (g x).sub = x.sub) :
    InvF (ReqRes.mapChanAt w f t ch g) := by
  refine hI.of_shrink (cfg_mapChanAt w f t ch g) (fun c => getCl_mapChanAt w f t ch g c) (fun s => getSv_mapChanAt w f t ch g s) ?_
  intro f' t' c' j x' hc hx
  obtain ⟨c0, hc0, k⟩ := mapChanAt_conn w f t ch g f' t' c' hc
  obtain ⟨x, hx0, hor⟩ := k j x' hx
  refine Or.inl ⟨c0, x, hc0, hx0, ?_⟩
  rcases hor with rfl | ⟨_, _, _, rfl⟩
  · exact List.suffix_refl _
  · rw [hg x]; exact List.suffix_refl _

/-- `deliverTo`: a pushed request must not carry the request id of a loan of its client -/
theorem deliverTo {w : World} (hI : InvF w) (p t : Pid) (ch : Nat) (e : Entry)
    (h : t.srv = true → ∀ c C (q : QLoan), p = cid c → getCl w c = some C → q ∈ C.qloans → e.msg.rid ≠ q.rid) :
    InvF (ReqRes.deliverTo w p t ch e).1 := by
  obtain ⟨_, _, k3, k4, _, k6, _⟩ := deliverTo_core w p t ch e
  have hconn := deliverTo_conn w p t ch e
  have hcl : ∀ c, getCl (ReqRes.deliverTo w p t ch e).1 c = getCl w c := fun c => by unfold getCl; rw [k3]
  have hsv : ∀ c, getSv (ReqRes.deliverTo w p t ch e).1 c = getSv w c := fun c => by unfold getSv; rw [k4]
  refine ⟨?_, ?_, ?_, ?_, ?_, ?_⟩
  · intro c C q hC; rw [hcl] at hC; exact hI.f1 c C q hC
  · intro c C hC; rw [hcl] at hC; exact hI.f2 c C hC
  · intro c C q P hC; rw [hcl] at hC; exact hI.f3 c C q P hC
  · intro c C q t' conn j x' e' hC hq hc hx he ht
    rw [hcl] at hC
    obtain ⟨c0, hc0, k⟩ := hconn _ _ conn hc
    obtain ⟨x, hx0, _, hor⟩ := k j x' hx
    rcases hor with h' | ⟨hp, rfl, rfl, l, hl, hs⟩
    · rw [h'] at he; exact hI.f4 c C q t' c0 j x e' hC hq hc0 hx0 he ht
    · rw [hs] at he
      rcases List.mem_append.mp he with h' | h'
      · exact hI.f4 c C q _ c0 _ x e' hC hq hc0 hx0 (hl.subset h') ht
      · simp only [List.mem_singleton] at h'; subst h'
        exact h ht c C q hp.symm hC hq
  · intro c C q s V v hC hq hV; rw [hcl] at hC; rw [hsv] at hV; exact hI.f5 c C q s V v hC hq hV
  · intro c C hC; rw [hcl] at hC; rw [k6]; exact hI.f6 c C hC

theorem init (c : Cfg) : InvF (World.init c) := by
  have hC : ∀ p, getCl (World.init c) p = none := fun _ => rfl
  refine ⟨?_, ?_, ?_, ?_, ?_, ?_⟩
  · intro p C q h; rw [hC] at h; cases h
  · intro p C h; rw [hC] at h; cases h
  · intro p C q P h; rw [hC] at h; cases h
  · intro p C q t conn ch x e h; rw [hC] at h; cases h
  · intro p C q s V v h; rw [hC] at h; cases h
  · intro p C h; rw [hC] at h; cases h

end InvF
end Iox2.ReqRes
