/-
C17 — the "life-cycle view" of a publish-subscribe world: per port its id, `alive`, `ex` and whether
it still has loans / held samples.  Every helper function of the model leaves the view unchanged;
the API operations change it in a controlled way.  Definitions and elementary lemmas.
-/
import Iox2.Proof.PubSubC02Basic

namespace Iox2.PubSub.C17P
open Iox2.PubSub Iox2.PubSub.C02P

def pv (P : Pub) : Bool × Bool × Bool := (P.alive, P.ex, P.loans.isEmpty)
def sv (S : Sub) : Bool × Bool × Bool := (S.alive, S.ex, S.held.isEmpty)

def pview (w : World) : List (Nat × Bool × Bool × Bool) := w.pubs.map fun e => (e.1, pv e.2)
def sview (w : World) : List (Nat × Bool × Bool × Bool) := w.subs.map fun e => (e.1, sv e.2)

/-- the two worlds have the same life-cycle view -/
structure VEq (w w' : World) : Prop where
  pubs : pview w' = pview w
  subs : sview w' = sview w

/-- port ids are unique -/
structure NodupK (w : World) : Prop where
  pubs : (w.pubs.map (·.1)).Nodup
  subs : (w.subs.map (·.1)).Nodup

theorem VEq.refl (w : World) : VEq w w := ⟨rfl, rfl⟩
theorem VEq.trans {a b c : World} (h1 : VEq a b) (h2 : VEq b c) : VEq a c :=
  ⟨h2.pubs.trans h1.pubs, h2.subs.trans h1.subs⟩

theorem pview_keys (w : World) : (pview w).map (·.1) = w.pubs.map (·.1) := by
  simp [pview, List.map_map, Function.comp_def]
theorem sview_keys (w : World) : (sview w).map (·.1) = w.subs.map (·.1) := by
  simp [sview, List.map_map, Function.comp_def]

theorem NodupK.of_veq {w w' : World} (h : NodupK w) (e : VEq w w') : NodupK w' := by
  refine ⟨?_, ?_⟩
  · rw [← pview_keys, e.pubs, pview_keys]; exact h.pubs
  · rw [← sview_keys, e.subs, sview_keys]; exact h.subs

/-- the views only depend on `pubs` and `subs` -/
theorem VEq.of_eq {w w' : World} (hp : w'.pubs = w.pubs) (hs : w'.subs = w.subs) : VEq w w' :=
  ⟨by unfold pview; rw [hp], by unfold sview; rw [hs]⟩

/-! ### association lists with unique keys -/

theorem mem_of_getP {w : World} {p : Nat} {P : Pub} (h : getP w p = some P) : (p, P) ∈ w.pubs := by
  unfold getP at h
  cases hf : w.pubs.find? (·.1 = p) with
  | none => rw [hf] at h; cases h
  | some e =>
    rw [hf] at h
    have h1 := List.find?_some hf
    have h2 := List.mem_of_find?_eq_some hf
    simp at h1 h
    obtain ⟨a, b⟩ := e
    simp at h1 h; subst h1; subst h; exact h2

theorem mem_of_getS {w : World} {s : Nat} {S : Sub} (h : getS w s = some S) : (s, S) ∈ w.subs := by
  unfold getS at h
  cases hf : w.subs.find? (·.1 = s) with
  | none => rw [hf] at h; cases h
  | some e =>
    rw [hf] at h
    have h1 := List.find?_some hf
    have h2 := List.mem_of_find?_eq_some hf
    simp at h1 h
    obtain ⟨a, b⟩ := e
    simp at h1 h; subst h1; subst h; exact h2

theorem assoc_unique {α : Type} : ∀ {l : List (Nat × α)}, (l.map (·.1)).Nodup →
    ∀ {k : Nat} {a b : α}, (k, a) ∈ l → (k, b) ∈ l → a = b
  | [], _, _, _, _, h, _ => by cases h
  | x :: t, hn, k, a, b, ha, hb => by
    simp only [List.map_cons, List.nodup_cons] at hn
    rcases List.mem_cons.mp ha with ha | ha <;> rcases List.mem_cons.mp hb with hb | hb
    · rw [← ha] at hb; exact (Prod.mk.inj hb).2.symm
    · exfalso; apply hn.1; rw [← ha]; exact List.mem_map.mpr ⟨(k, b), hb, rfl⟩
    · exfalso; apply hn.1; rw [← hb]; exact List.mem_map.mpr ⟨(k, a), ha, rfl⟩
    · exact assoc_unique hn.2 ha hb

theorem getP_of_mem {w : World} (h : NodupK w) {p : Nat} {P : Pub} (hm : (p, P) ∈ w.pubs) :
    getP w p = some P := by
  cases hg : getP w p with
  | none =>
    unfold getP at hg
    simp only [Option.map_eq_none_iff, List.find?_eq_none] at hg
    have := hg (p, P) hm
    simp at this
  | some Q => rw [assoc_unique h.pubs (mem_of_getP hg) hm]

theorem getS_of_mem {w : World} (h : NodupK w) {s : Nat} {S : Sub} (hm : (s, S) ∈ w.subs) :
    getS w s = some S := by
  cases hg : getS w s with
  | none =>
    unfold getS at hg
    simp only [Option.map_eq_none_iff, List.find?_eq_none] at hg
    have := hg (s, S) hm
    simp at this
  | some Q => rw [assoc_unique h.subs (mem_of_getS hg) hm]

theorem map_upd_view {α β : Type} (f : α → β) (l : List (Nat × α)) (p : Nat) (x : α)
    (h : ∀ e ∈ l, e.1 = p → f e.2 = f x) :
    (l.map fun e => if e.1 = p then (p, x) else e).map (fun e => (e.1, f e.2)) =
      l.map (fun e => (e.1, f e.2)) := by
  rw [List.map_map]
  apply List.map_congr_left
  intro e he
  simp only [Function.comp]
  by_cases hp : e.1 = p
  · simp only [hp, if_true]; rw [← h e he hp, ← hp]
  · simp only [hp, if_false]

/-- replacing a publisher by one with the same view -/
theorem veq_setP {w : World} (hn : NodupK w) {p : Nat} {P X : Pub} (hP : getP w p = some P)
    (hv : pv X = pv P) : VEq w (setP w p X) := by
  refine ⟨?_, rfl⟩
  unfold pview setP
  simp only
  apply map_upd_view pv
  intro e he hp
  have : e = (p, e.2) := by rw [← hp]
  rw [this] at he
  rw [assoc_unique hn.pubs he (mem_of_getP hP), hv]

theorem veq_setS {w : World} (hn : NodupK w) {s : Nat} {S X : Sub} (hS : getS w s = some S)
    (hv : sv X = sv S) : VEq w (setS w s X) := by
  refine ⟨rfl, ?_⟩
  unfold sview setS
  simp only
  apply map_upd_view sv
  intro e he hp
  have : e = (s, e.2) := by rw [← hp]
  rw [this] at he
  rw [assoc_unique hn.subs he (mem_of_getS hS), hv]

theorem veq_setC (w : World) (c : Conn) : VEq w (setC w c) := VEq.of_eq rfl rfl
theorem veq_addC (w : World) (c : Conn) : VEq w (addC w c) := VEq.of_eq rfl rfl
theorem veq_delC (w : World) (p s : Nat) : VEq w (delC w p s) := VEq.of_eq rfl rfl
theorem veq_panic (w : World) : VEq w { w with panicked := true } := VEq.of_eq rfl rfl

theorem veq_detachSender (w : World) (p s : Nat) : VEq w (detachSender w p s) := by
  rw [detachSender_eq]; split
  · exact VEq.refl w
  · split
    · exact veq_setC _ _
    · exact veq_delC _ _ _

theorem veq_detachReceiver (w : World) (p s : Nat) : VEq w (detachReceiver w p s) := by
  rw [detachReceiver_eq]; split
  · exact VEq.refl w
  · split
    · exact veq_setC _ _
    · exact veq_delC _ _ _

/-! ### the extra invariant: no zombie port cores -/

def GoodP (P : Pub) : Prop := P.ex = true → (P.alive = true ∨ P.loans ≠ [])
def GoodS (S : Sub) : Prop := S.ex = true → (S.alive = true ∨ S.held ≠ [])

/-- a port core exists only while its port object or one of its loans / samples exists -/
structure XInv (w : World) : Prop where
  nodup : NodupK w
  pubs : ∀ e ∈ w.pubs, GoodP e.2
  subs : ∀ e ∈ w.subs, GoodS e.2

theorem goodP_of_pv {P Q : Pub} (h : pv Q = pv P) (g : GoodP P) : GoodP Q := by
  simp only [pv, Prod.mk.injEq] at h
  obtain ⟨h1, h2, h3⟩ := h
  intro hex
  rw [h2] at hex
  rcases g hex with g | g
  · left; rw [h1]; exact g
  · right
    intro hq; apply g
    have : Q.loans.isEmpty = true := by rw [hq]; rfl
    rw [h3] at this
    exact List.isEmpty_iff.mp this

theorem goodS_of_sv {S Q : Sub} (h : sv Q = sv S) (g : GoodS S) : GoodS Q := by
  simp only [sv, Prod.mk.injEq] at h
  obtain ⟨h1, h2, h3⟩ := h
  intro hex
  rw [h2] at hex
  rcases g hex with g | g
  · left; rw [h1]; exact g
  · right
    intro hq; apply g
    have : Q.held.isEmpty = true := by rw [hq]; rfl
    rw [h3] at this
    exact List.isEmpty_iff.mp this

/-- the extra invariant only depends on the view -/
theorem XInv.of_veq {w w' : World} (h : XInv w) (e : VEq w w') : XInv w' := by
  refine ⟨h.nodup.of_veq e, ?_, ?_⟩
  · intro x hx
    have : (x.1, pv x.2) ∈ pview w' := List.mem_map.mpr ⟨x, hx, rfl⟩
    rw [e.pubs] at this
    obtain ⟨y, hy, hxy⟩ := List.mem_map.mp this
    simp only [Prod.mk.injEq] at hxy
    exact goodP_of_pv hxy.2.symm (h.pubs y hy)
  · intro x hx
    have : (x.1, sv x.2) ∈ sview w' := List.mem_map.mpr ⟨x, hx, rfl⟩
    rw [e.subs] at this
    obtain ⟨y, hy, hxy⟩ := List.mem_map.mp this
    simp only [Prod.mk.injEq] at hxy
    exact goodS_of_sv hxy.2.symm (h.subs y hy)

/-- the extra invariant with one publisher / one subscriber exempted (inside an API call) -/
structure XInvE (ep es : Option Nat) (w : World) : Prop where
  nodup : NodupK w
  pubs : ∀ e ∈ w.pubs, some e.1 ≠ ep → GoodP e.2
  subs : ∀ e ∈ w.subs, some e.1 ≠ es → GoodS e.2

theorem XInv.toE {w : World} (h : XInv w) (ep es : Option Nat) : XInvE ep es w :=
  ⟨h.nodup, fun e he _ => h.pubs e he, fun e he _ => h.subs e he⟩

theorem XInvE.toX {w : World} (h : XInvE none none w) : XInv w :=
  ⟨h.nodup, fun e he => h.pubs e he (by simp), fun e he => h.subs e he (by simp)⟩

theorem XInvE.of_veq {ep es : Option Nat} {w w' : World} (h : XInvE ep es w) (e : VEq w w') :
    XInvE ep es w' := by
  refine ⟨h.nodup.of_veq e, ?_, ?_⟩
  · intro x hx hne
    have : (x.1, pv x.2) ∈ pview w' := List.mem_map.mpr ⟨x, hx, rfl⟩
    rw [e.pubs] at this
    obtain ⟨y, hy, hxy⟩ := List.mem_map.mp this
    simp only [Prod.mk.injEq] at hxy
    exact goodP_of_pv hxy.2.symm (h.pubs y hy (by rw [hxy.1]; exact hne))
  · intro x hx hne
    have : (x.1, sv x.2) ∈ sview w' := List.mem_map.mpr ⟨x, hx, rfl⟩
    rw [e.subs] at this
    obtain ⟨y, hy, hxy⟩ := List.mem_map.mp this
    simp only [Prod.mk.injEq] at hxy
    exact goodS_of_sv hxy.2.symm (h.subs y hy (by rw [hxy.1]; exact hne))

theorem keys_setP (w : World) (p : Nat) (X : Pub) :
    (setP w p X).pubs.map (·.1) = w.pubs.map (·.1) := by
  unfold setP
  simp only [List.map_map]
  apply List.map_congr_left
  intro e _
  simp only [Function.comp]
  split
  · rename_i h; exact h.symm
  · rfl

theorem keys_setS (w : World) (s : Nat) (X : Sub) :
    (setS w s X).subs.map (·.1) = w.subs.map (·.1) := by
  unfold setS
  simp only [List.map_map]
  apply List.map_congr_left
  intro e _
  simp only [Function.comp]
  split
  · rename_i h; exact h.symm
  · rfl

theorem mem_setP {w : World} {p : Nat} {X : Pub} {e : Nat × Pub} (h : e ∈ (setP w p X).pubs) :
    e = (p, X) ∨ (e ∈ w.pubs ∧ e.1 ≠ p) := by
  unfold setP at h
  simp only [List.mem_map] at h
  obtain ⟨y, hy, hye⟩ := h
  split at hye
  · left; exact hye.symm
  · right; rw [← hye]; exact ⟨hy, by assumption⟩

theorem mem_setS {w : World} {s : Nat} {X : Sub} {e : Nat × Sub} (h : e ∈ (setS w s X).subs) :
    e = (s, X) ∨ (e ∈ w.subs ∧ e.1 ≠ s) := by
  unfold setS at h
  simp only [List.mem_map] at h
  obtain ⟨y, hy, hye⟩ := h
  split at hye
  · left; exact hye.symm
  · right; rw [← hye]; exact ⟨hy, by assumption⟩

/-- an arbitrary change of publisher `p` (it must be good unless `p` is exempted) -/
theorem XInvE.setP {ep es : Option Nat} {w : World} (h : XInvE ep es w) (p : Nat) (X : Pub)
    (hg : ep ≠ some p → GoodP X) : XInvE ep es (setP w p X) := by
  refine ⟨⟨by rw [keys_setP]; exact h.nodup.pubs, h.nodup.subs⟩, ?_, h.subs⟩
  intro e he hne
  rcases mem_setP he with rfl | ⟨h1, _⟩
  · exact hg (fun hh => hne hh.symm)
  · exact h.pubs e h1 hne

theorem XInvE.setS {ep es : Option Nat} {w : World} (h : XInvE ep es w) (s : Nat) (X : Sub)
    (hg : es ≠ some s → GoodS X) : XInvE ep es (setS w s X) := by
  refine ⟨⟨h.nodup.pubs, by rw [keys_setS]; exact h.nodup.subs⟩, h.pubs, ?_⟩
  intro e he hne
  rcases mem_setS he with rfl | ⟨h1, _⟩
  · exact hg (fun hh => hne hh.symm)
  · exact h.subs e h1 hne

/-- exempting a port is always possible -/
theorem XInvE.exemptP {es : Option Nat} {w : World} (h : XInvE none es w) (p : Nat) :
    XInvE (some p) es w :=
  ⟨h.nodup, fun e he _ => h.pubs e he (by simp), h.subs⟩

theorem XInvE.exemptS {ep : Option Nat} {w : World} (h : XInvE ep none w) (s : Nat) :
    XInvE ep (some s) w :=
  ⟨h.nodup, h.pubs, fun e he _ => h.subs e he (by simp)⟩

/-- registries, `cfg` and `panicked` are not part of the view -/
theorem XInvE.of_eq {ep es : Option Nat} {w w' : World} (h : XInvE ep es w)
    (hp : w'.pubs = w.pubs) (hs : w'.subs = w.subs) : XInvE ep es w' :=
  h.of_veq (VEq.of_eq hp hs)

end Iox2.PubSub.C17P
