/-
The state invariant of the request-response model behind the C11 theorems, and its preservation
by the building blocks of the API operations.
-/
import Iox2.Proof.ReqResFrame
namespace Iox2.ReqRes

/-- initial channel state a receiver of kind `p` expects: the one of the opposite kind's sender -/
def rcvInitState (p : Pid) : ChState := initState ⟨!p.srv, 0⟩

structure Inv (w : World) : Prop where
  /-- static configuration of the ports -/
  sndInit : ∀ p S, getSnd w p = some S → S.init = initState p
  rcvInit : ∀ p R, getRcv w p = some R → R.init = rcvInitState p
  slotKind : ∀ p S i t, getSnd w p = some S → S.conns.getD i none = some t → t.srv = !p.srv
  /-- request ids of the pending responses of a client are distinct and below its counter -/
  cl1 : ∀ c C P, getCl w c = some C → P ∈ C.pendings → P.rid < C.ridCtr
  cl2 : ∀ c C, getCl w c = some C → C.pendings.Pairwise (fun a b => a.rid ≠ b.rid)
  /-- a response channel that is not closed carries the request id of a pending response that owns it -/
  s1 : ∀ (f : Pid) (c : Nat) (conn : Conn) (ch : Nat) (x : Chan) (v : Nat) (h : Bool), getConn w f (cid c) = some conn → conn.chans[ch]? = some x → x.state = .id v h →
        f.srv = true → ∃ C, getCl w c = some C ∧ ∃ P ∈ C.pendings, P.rid = v ∧ P.channel = ch
  /-- queued requests were written by the client at the sending end of their connection -/
  e1 : ∀ (f t : Pid) (conn : Conn) (ch : Nat) (x : Chan) (e : Entry), getConn w f t = some conn → conn.chans[ch]? = some x → e ∈ x.sub → t.srv = true →
        f.srv = false ∧ e.msg.client = f.n ∧ ∃ C, getCl w f.n = some C ∧ e.msg.rid < C.ridCtr
  /-- queued responses answer a request of the client at the receiving end, unless that request's
  client was gone when they were sent -/
  e2 : ∀ (f t : Pid) (conn : Conn) (ch : Nat) (x : Chan) (e : Entry), getConn w f t = some conn → conn.chans[ch]? = some x → e ∈ x.sub → t.srv = false →
        e.msg.gClient = t.n ∨ e.msg.gStale = true
  /-- active requests stem from known clients -/
  a2 : ∀ s V A, getSv w s = some V → A ∈ V.actives → ∃ C, getCl w A.msg.client = some C ∧ A.msg.rid < C.ridCtr
  /-- the response connection slot of an active request is the registry slot of its client, and it
  leads to that client - as long as the client exists -/
  a1 : ∀ s V A i C, getSv w s = some V → A ∈ V.actives → A.connId = some i → getCl w A.msg.client = some C →
        C.ex = true → C.slot = i
  j : ∀ s V A i S t C, getSv w s = some V → A ∈ V.actives → A.connId = some i → getSnd w (sid s) = some S →
        S.conns.getD i none = some t → getCl w A.msg.client = some C → C.ex = true → t = cid A.msg.client
  /-- client registry: exactly the existing clients, each at its slot -/
  r1 : ∀ c C, getCl w c = some C → C.ex = true → ∃ n, w.clientReg.slots.getD C.slot none = some (c, n)
  r3 : ∀ i c n, w.clientReg.slots.getD i none = some (c, n) → ∃ C, getCl w c = some C ∧ C.ex = true ∧ C.slot = i
  r2 : ∀ s S i t, getSnd w (sid s) = some S → S.conns.getD i none = some t →
        ∃ C, getCl w t.n = some C ∧ (C.ex = true → C.slot = i)

theorem getD_eq_some_iff {α : Type} (l : List (Option α)) (i : Nat) (a : α) :
    l.getD i none = some a ↔ l[i]? = some (some a) := by
  rw [List.getD_eq_getElem?_getD]
  cases h : l[i]? with
  | none => simp
  | some v => cases v <;> simp

/-- housekeeping by port `me` whose new connection slots (if any) come from the client registry -/
theorem Inv.hk {w w' : World} {me : Pid} {P : Nat → Pid → Prop} (hI : Inv w) (h : Hk me w w')
    (hs : SlotsFrom me P w w')
    (hP : ∀ i t, P i t → t.srv = !me.srv ∧ (me.srv = true → ∃ n, w.clientReg.slots.getD i none = some (t.n, n))) :
    Inv w' := by
  have hcl : ∀ c, getCl w' c = getCl w c := h.getCl_eq
  have hsv : ∀ s, getSv w' s = getSv w s := h.getSv_eq
  have hsnd : ∀ p S', getSnd w' p = some S' → ∃ S, getSnd w p = some S ∧ S'.init = S.init ∧
      ∀ i t, S'.conns.getD i none = some t → S.conns.getD i none = some t ∨ (p = me ∧ P i t) := by
    intro p S' hS'
    by_cases hp : p = me
    · subst hp
      obtain ⟨S, hS, k⟩ := hs S' hS'
      have := h.sndInit; rw [hS', hS] at this
      simp only [Option.map_some, Option.some.injEq] at this
      exact ⟨S, hS, this, fun i t ht => (k i t ht).imp id fun x => ⟨rfl, x⟩⟩
    · rw [h.snds p hp] at hS'
      exact ⟨S', hS', rfl, fun i t ht => Or.inl ht⟩
  have hconn : ∀ (f t : Pid) (c' : Conn) (ch : Nat) (x' : Chan), getConn w' f t = some c' → c'.chans[ch]? = some x' →
      (∃ c x, getConn w f t = some c ∧ c.chans[ch]? = some x ∧ x'.state = x.state ∧ x'.sub <:+ x.sub) ∨
      (x'.sub = [] ∧ x'.state = initState f) := by
    intro f t c' ch x' hc hx
    rcases h.conns f t c' hc with ⟨c, hc0, l⟩ | fr
    · obtain ⟨x, hx0, l0⟩ := l ch x' hx
      exact Or.inl ⟨c, x, hc0, hx0, l0.1, l0.2⟩
    · exact Or.inr (fr ch x' hx)
  refine ⟨?_, ?_, ?_, ?_, ?_, ?_, ?_, ?_, ?_, ?_, ?_, ?_, ?_, ?_⟩
  · intro p S' hS'
    obtain ⟨S, hS, hi, _⟩ := hsnd p S' hS'
    rw [hi]; exact hI.sndInit p S hS
  · intro p R' hR'
    by_cases hp : p = me
    · subst hp
      have := h.rcvInit; rw [hR'] at this
      cases hR : getRcv w p with
      | none => rw [hR] at this; cases this
      | some R =>
        rw [hR] at this
        simp only [Option.map_some, Option.some.injEq] at this
        rw [this]; exact hI.rcvInit p R hR
    · rw [h.rcvs p hp] at hR'; exact hI.rcvInit p R' hR'
  · intro p S' i t hS' ht
    obtain ⟨S, hS, _, k⟩ := hsnd p S' hS'
    rcases k i t ht with h1 | ⟨rfl, h2⟩
    · exact hI.slotKind p S i t hS h1
    · exact (hP i t h2).1
  · intro c C P' hC hP'; rw [hcl] at hC; exact hI.cl1 c C P' hC hP'
  · intro c C hC; rw [hcl] at hC; exact hI.cl2 c C hC
  · intro f c conn ch x v hh hc hx hst hf
    rcases hconn f (cid c) conn ch x hc hx with ⟨c0, x0, hc0, hx0, hs0, _⟩ | ⟨_, hs0⟩
    · rw [hcl]; exact hI.s1 f c c0 ch x0 v hh hc0 hx0 (hs0 ▸ hst) hf
    · rw [hs0] at hst; simp [initState, hf] at hst
  · intro f t conn ch x e hc hx he ht
    rcases hconn f t conn ch x hc hx with ⟨c0, x0, hc0, hx0, _, hsub⟩ | ⟨hnil, _⟩
    · rw [hcl]; exact hI.e1 f t c0 ch x0 e hc0 hx0 (hsub.subset he) ht
    · rw [hnil] at he; cases he
  · intro f t conn ch x e hc hx he ht
    rcases hconn f t conn ch x hc hx with ⟨c0, x0, hc0, hx0, _, hsub⟩ | ⟨hnil, _⟩
    · exact hI.e2 f t c0 ch x0 e hc0 hx0 (hsub.subset he) ht
    · rw [hnil] at he; cases he
  · intro s V A hV hA; rw [hsv] at hV; rw [hcl]; exact hI.a2 s V A hV hA
  · intro s V A i C hV hA hi hC hex; rw [hsv] at hV; rw [hcl] at hC; exact hI.a1 s V A i C hV hA hi hC hex
  · intro s V A i S' t C hV hA hi hS' ht hC hex
    rw [hsv] at hV; rw [hcl] at hC
    obtain ⟨S, hS, _, k⟩ := hsnd (sid s) S' hS'
    rcases k i t ht with h1 | ⟨hme, h2⟩
    · exact hI.j s V A i S t C hV hA hi hS h1 hC hex
    · obtain ⟨hk, hreg⟩ := hP i t h2
      obtain ⟨n, hn⟩ := hreg (by rw [← hme]; rfl)
      have hslot := hI.a1 s V A i C hV hA hi hC hex
      obtain ⟨n', hn'⟩ := hI.r1 _ C hC hex
      rw [hslot, hn] at hn'
      simp only [Option.some.injEq, Prod.mk.injEq] at hn'
      have hsrv : t.srv = false := by rw [hk, ← hme]; rfl
      rw [pid_eq_cid t hsrv, hn'.1]
  · intro c C hC hex; rw [hcl] at hC; rw [h.clientReg]; exact hI.r1 c C hC hex
  · intro i c n hreg; rw [h.clientReg] at hreg; simp only [hcl]; exact hI.r3 i c n hreg
  · intro s S' i t hS' ht
    simp only [hcl]
    obtain ⟨S, hS, _, k⟩ := hsnd (sid s) S' hS'
    rcases k i t ht with h1 | ⟨hme, h2⟩
    · exact hI.r2 s S i t hS h1
    · obtain ⟨_, hreg⟩ := hP i t h2
      obtain ⟨n, hn⟩ := hreg (by rw [← hme]; rfl)
      obtain ⟨C, hC, hex, hsl⟩ := hI.r3 i t.n n hn
      exact ⟨C, hC, fun _ => hsl⟩

/-- housekeeping that adds no connection slot -/
theorem Inv.hk0 {w w' : World} {me : Pid} (hI : Inv w) (h : Hk me w w')
    (hs : SlotsFrom me (fun _ _ => False) w w') : Inv w' :=
  hI.hk h hs (fun _ _ hf => hf.elim)

theorem Inv.hkSame {w w' : World} {me : Pid} (hI : Inv w) (h : Hk me w w') (hs : SlotsSame me w w') : Inv w' :=
  hI.hk0 h (hs.from _)

theorem Inv.hkR {w w' : World} {me : Pid} (hI : Inv w) (h : HkR me w w') : Inv w' :=
  hI.hkSame h.toHk (h.slotsSame me)

end Iox2.ReqRes
