/-
The state invariant of the request-response model behind the C11 theorems, and its preservation
by the building blocks of the API operations.
-/
import Iox2.Proof.ReqResInvF
namespace Iox2.ReqRes
open Iox2.PubSub (Reg firstFree)

/-- initial channel state a receiver of kind `p` expects: the one of the opposite kind's sender -/
def rcvInitState (p : Pid) : ChState := initState ⟨!p.srv, 0⟩

structure Inv (w : World) : Prop where
  /-- static configuration of the ports -/
  sndInit : ∀ p S, getSnd w p = some S → S.init = initState p
  rcvInit : ∀ p R, getRcv w p = some R → R.init = rcvInitState p
  slotKind : ∀ p S i t, getSnd w p = some S → S.conns.getD i none = some t → t.srv = !p.srv
  /-- request ids of the pending responses of a client are distinct and below its counter -/
  cl1 : ∀ c C P, getCl w c = some C → P ∈ C.pendings → P.rid < C.ridCtr
  cl2 : ∀ c C, getCl w c = some C → C.pendings.Pairwise (fun a b => a.rid ≠ b.rid)
  /-- queued requests were written by the client at the sending end of their connection -/
  e1 : ∀ (f t : Pid) (conn : Conn) (ch : Nat) (x : Chan) (e : Entry), getConn w f t = some conn → conn.chans[ch]? = some x → e ∈ x.sub → t.srv = true →
        f.srv = false ∧ e.msg.client = f.n ∧ ∃ C, getCl w f.n = some C ∧ e.msg.rid < C.ridCtr ∧ e.msg.gSeq < C.gSendCtr
  /-- queued responses answer a request of the client at the receiving end, unless that request's
  client was gone when they were sent -/
  e2 : ∀ (f t : Pid) (conn : Conn) (ch : Nat) (x : Chan) (e : Entry), getConn w f t = some conn → conn.chans[ch]? = some x → e ∈ x.sub → t.srv = false →
        e.msg.gClient = t.n ∨ e.msg.gStale = true
  /-- active requests stem from known clients -/
  a2 : ∀ s V A, getSv w s = some V → A ∈ V.actives → ∃ C, getCl w A.msg.client = some C ∧ A.msg.rid < C.ridCtr
  /-- the response connection slot of an active request is the registry slot of its client, and it
  leads to that client - as long as the client exists -/
  a1 : ∀ s V A i C, getSv w s = some V → A ∈ V.actives → A.connId = some i → getCl w A.msg.client = some C →
        C.ex = true → C.slot = i
  j : ∀ s V A i S t C, getSv w s = some V → A ∈ V.actives → A.connId = some i → getSnd w (sid s) = some S →
        S.conns.getD i none = some t → getCl w A.msg.client = some C → C.ex = true → t = cid A.msg.client
  /-- client registry: exactly the existing clients, each at its slot -/
  r1 : ∀ c C, getCl w c = some C → C.ex = true → ∃ n, w.clientReg.slots.getD C.slot none = some (c, n)
  r3 : ∀ i c n, w.clientReg.slots.getD i none = some (c, n) → ∃ C, getCl w c = some C ∧ C.ex = true ∧ C.slot = i
  r2 : ∀ s S i t, getSnd w (sid s) = some S → S.conns.getD i none = some t →
        ∃ C, getCl w t.n = some C ∧ (C.ex = true → C.slot = i)
  /-- ghost logs, request order, server registry -/
  x : InvX w
  /-- response streams -/
  y : InvB w
  /-- loaned requests -/
  f : InvF w

theorem getD_eq_some_iff {α : Type} (l : List (Option α)) (i : Nat) (a : α) :
    l.getD i none = some a ↔ l[i]? = some (some a) := by
  rw [List.getD_eq_getElem?_getD]
  cases h : l[i]? with
  | none => simp
  | some v => cases v <;> simp

/-- housekeeping by port `me` whose new connection slots (if any) come from the client registry -/
theorem Inv.hk {w w' : World} {me : Pid} {P : Nat → Pid → Prop} (hI : Inv w) (h : Hk me w w')
    (hs : SlotsFrom me P w w')
    (hP : ∀ i t, P i t → t.srv = !me.srv ∧ (me.srv = true → ∃ n, w.clientReg.slots.getD i none = some (t.n, n)) ∧
      (me.srv = false → ∃ n, w.serverReg.slots.getD i none = some (t.n, n))) :
    Inv w' := by
  have hcl : ∀ c, getCl w' c = getCl w c := h.getCl_eq
  have hsv : ∀ s, getSv w' s = getSv w s := h.getSv_eq
  have hsnd : ∀ p S', getSnd w' p = some S' → ∃ S, getSnd w p = some S ∧ S'.init = S.init ∧
      ∀ i t, S'.conns.getD i none = some t → S.conns.getD i none = some t ∨ (p = me ∧ P i t) := by
    intro p S' hS'
    by_cases hp : p = me
    · subst hp
      obtain ⟨S, hS, k⟩ := hs S' hS'
      have := h.sndInit; rw [hS', hS] at this
      simp only [Option.map_some, Option.some.injEq] at this
      exact ⟨S, hS, this, fun i t ht => (k i t ht).imp id fun x => ⟨rfl, x⟩⟩
    · rw [h.snds p hp] at hS'
      exact ⟨S', hS', rfl, fun i t ht => Or.inl ht⟩
  have hconn : ∀ (f t : Pid) (c' : Conn) (ch : Nat) (x' : Chan), getConn w' f t = some c' → c'.chans[ch]? = some x' →
      (∃ c x, getConn w f t = some c ∧ c.chans[ch]? = some x ∧ x'.state = x.state ∧ x'.sub <:+ x.sub) ∨
      (x'.sub = [] ∧ x'.state = initState f) := by
    intro f t c' ch x' hc hx
    rcases h.conns f t c' hc with ⟨c, hc0, l⟩ | fr
    · obtain ⟨x, hx0, l0⟩ := l.1 ch x' hx
      exact Or.inl ⟨c, x, hc0, hx0, l0.1, l0.2⟩
    · exact Or.inr (fr ch x' hx)
  refine ⟨?_, ?_, ?_, ?_, ?_, ?_, ?_, ?_, ?_, ?_, ?_, ?_, ?_, hI.x.hk h hs (fun i t hp hme => (hP i t hp).2.2 hme), hI.y.hk h, hI.f.hk h⟩
  · intro p S' hS'
    obtain ⟨S, hS, hi, _⟩ := hsnd p S' hS'
    rw [hi]; exact hI.sndInit p S hS
  · intro p R' hR'
    by_cases hp : p = me
    · subst hp
      have := h.rcvInit; rw [hR'] at this
      cases hR : getRcv w p with
      | none => rw [hR] at this; cases this
      | some R =>
        rw [hR] at this
        simp only [Option.map_some, Option.some.injEq] at this
        rw [this]; exact hI.rcvInit p R hR
    · rw [h.rcvs p hp] at hR'; exact hI.rcvInit p R' hR'
  · intro p S' i t hS' ht
    obtain ⟨S, hS, _, k⟩ := hsnd p S' hS'
    rcases k i t ht with h1 | ⟨rfl, h2⟩
    · exact hI.slotKind p S i t hS h1
    · exact (hP i t h2).1
  · intro c C P' hC hP'; rw [hcl] at hC; exact hI.cl1 c C P' hC hP'
  · intro c C hC; rw [hcl] at hC; exact hI.cl2 c C hC
  · intro f t conn ch x e hc hx he ht
    rcases hconn f t conn ch x hc hx with ⟨c0, x0, hc0, hx0, _, hsub⟩ | ⟨hnil, _⟩
    · rw [hcl]; exact hI.e1 f t c0 ch x0 e hc0 hx0 (hsub.subset he) ht
    · rw [hnil] at he; cases he
  · intro f t conn ch x e hc hx he ht
    rcases hconn f t conn ch x hc hx with ⟨c0, x0, hc0, hx0, _, hsub⟩ | ⟨hnil, _⟩
    · exact hI.e2 f t c0 ch x0 e hc0 hx0 (hsub.subset he) ht
    · rw [hnil] at he; cases he
  · intro s V A hV hA; rw [hsv] at hV; rw [hcl]; exact hI.a2 s V A hV hA
  · intro s V A i C hV hA hi hC hex; rw [hsv] at hV; rw [hcl] at hC; exact hI.a1 s V A i C hV hA hi hC hex
  · intro s V A i S' t C hV hA hi hS' ht hC hex
    rw [hsv] at hV; rw [hcl] at hC
    obtain ⟨S, hS, _, k⟩ := hsnd (sid s) S' hS'
    rcases k i t ht with h1 | ⟨hme, h2⟩
    · exact hI.j s V A i S t C hV hA hi hS h1 hC hex
    · obtain ⟨hk, hreg⟩ := hP i t h2
      obtain ⟨n, hn⟩ := hreg.1 (by rw [← hme]; rfl)
      have hslot := hI.a1 s V A i C hV hA hi hC hex
      obtain ⟨n', hn'⟩ := hI.r1 _ C hC hex
      rw [hslot, hn] at hn'
      simp only [Option.some.injEq, Prod.mk.injEq] at hn'
      have hsrv : t.srv = false := by rw [hk, ← hme]; rfl
      rw [pid_eq_cid t hsrv, hn'.1]
  · intro c C hC hex; rw [hcl] at hC; rw [h.clientReg]; exact hI.r1 c C hC hex
  · intro i c n hreg; rw [h.clientReg] at hreg; simp only [hcl]; exact hI.r3 i c n hreg
  · intro s S' i t hS' ht
    simp only [hcl]
    obtain ⟨S, hS, _, k⟩ := hsnd (sid s) S' hS'
    rcases k i t ht with h1 | ⟨hme, h2⟩
    · exact hI.r2 s S i t hS h1
    · obtain ⟨_, hreg⟩ := hP i t h2
      obtain ⟨n, hn⟩ := hreg.1 (by rw [← hme]; rfl)
      obtain ⟨C, hC, hex, hsl⟩ := hI.r3 i t.n n hn
      exact ⟨C, hC, fun _ => hsl⟩

/-- housekeeping that adds no connection slot -/
theorem Inv.hk0 {w w' : World} {me : Pid} (hI : Inv w) (h : Hk me w w')
    (hs : SlotsFrom me (fun _ _ => False) w w') : Inv w' :=
  hI.hk h hs (fun _ _ hf => hf.elim)

theorem Inv.hkSame {w w' : World} {me : Pid} (hI : Inv w) (h : Hk me w w') (hs : SlotsSame me w w') : Inv w' :=
  hI.hk0 h (hs.from _)

theorem Inv.hkR {w w' : World} {me : Pid} (hI : Inv w) (h : HkR me w w') : Inv w' :=
  hI.hkSame h.toHk (h.slotsSame me)

/-- a step that keeps clients, servers, registries and connections and only adds / removes /
replaces port records by fresh ones (right initial state, no connection slot in use) -/
theorem Inv.of_core {w w' : World} (hI : Inv w) (h0 : w'.cfg = w.cfg) (h1 : w'.clientReg = w.clientReg) (h2 : w'.serverReg = w.serverReg) (h4 : w'.clients = w.clients)
    (h5 : w'.servers = w.servers) (h6 : w'.conns = w.conns)
    (hs : ∀ p S', getSnd w' p = some S' → getSnd w p = some S' ∨ (S'.init = initState p ∧ ∀ i, S'.conns.getD i none = none))
    (hr : ∀ p R', getRcv w' p = some R' → getRcv w p = some R' ∨ R'.init = rcvInitState p) : Inv w' := by
  have hcl : ∀ c, getCl w' c = getCl w c := fun c => by unfold getCl; rw [h4]
  have hsv : ∀ s, getSv w' s = getSv w s := fun c => by unfold getSv; rw [h5]
  have hco : ∀ f t, getConn w' f t = getConn w f t := fun f t => by unfold getConn; rw [h6]
  refine ⟨?_, ?_, ?_, ?_, ?_, ?_, ?_, ?_, ?_, ?_, ?_, ?_, ?_,
    hI.x.of_core h2 h4 h5 h6 (fun p S' h => (hs p S' h).imp id (·.2)), hI.y.of_core h4 h5 h6, hI.f.of_same h0 hcl hsv hco⟩
  · intro p S' hS'
    rcases hs p S' hS' with h | h
    · exact hI.sndInit p S' h
    · exact h.1
  · intro p R' hR'
    rcases hr p R' hR' with h | h
    · exact hI.rcvInit p R' h
    · exact h
  · intro p S' i t hS' ht
    rcases hs p S' hS' with h | h
    · exact hI.slotKind p S' i t h ht
    · rw [h.2 i] at ht; cases ht
  · intro c C P hC hP; rw [hcl] at hC; exact hI.cl1 c C P hC hP
  · intro c C hC; rw [hcl] at hC; exact hI.cl2 c C hC
  · intro f t conn ch x e hc hx he ht
    rw [hco] at hc; rw [hcl]; exact hI.e1 f t conn ch x e hc hx he ht
  · intro f t conn ch x e hc hx he ht
    rw [hco] at hc; exact hI.e2 f t conn ch x e hc hx he ht
  · intro s V A hV hA; rw [hsv] at hV; rw [hcl]; exact hI.a2 s V A hV hA
  · intro s V A i C hV hA hi hC hex; rw [hsv] at hV; rw [hcl] at hC; exact hI.a1 s V A i C hV hA hi hC hex
  · intro s V A i S' t C hV hA hi hS' ht hC hex
    rw [hsv] at hV; rw [hcl] at hC
    rcases hs _ S' hS' with h | h
    · exact hI.j s V A i S' t C hV hA hi h ht hC hex
    · rw [h.2 i] at ht; cases ht
  · intro c C hC hex; rw [hcl] at hC; rw [h1]; exact hI.r1 c C hC hex
  · intro i c n hreg; rw [h1] at hreg; simp only [hcl]; exact hI.r3 i c n hreg
  · intro s S' i t hS' ht
    simp only [hcl]
    rcases hs _ S' hS' with h | h
    · exact hI.r2 s S' i t h ht
    · rw [h.2 i] at ht; cases ht

theorem Inv.panic {w : World} (hI : Inv w) : Inv { w with panicked := true } :=
  hI.of_core rfl rfl rfl rfl rfl rfl (fun _ _ h => Or.inl h) (fun _ _ h => Or.inl h)

theorem Inv.setSnap {w : World} (hI : Inv w) (p : Pid) (x : Snap) : Inv (setSnap w p x) :=
  hI.of_core rfl rfl rfl rfl rfl rfl (fun _ _ h => Or.inl h) (fun _ _ h => Or.inl h)

/-- the records of a new port -/
theorem Inv.newPort {w : World} (hI : Inv w) (p : Pid) (S : Snd) (R : Rcv) (sp : Snap)
    (hS : S.init = initState p) (hSc : ∀ i, S.conns.getD i none = none) (hR : R.init = rcvInitState p) :
    Inv (ReqRes.setSnap (setRcv (setSnd w p S) p R) p sp) := by
  refine hI.of_core rfl rfl rfl rfl rfl rfl ?_ ?_
  · intro p' S' h
    simp only [getSnd_setSnap, getSnd_setRcv, getSnd_setSnd] at h
    split at h
    · next hp => cases h; subst hp; exact Or.inr ⟨hS, hSc⟩
    · exact Or.inl h
  · intro p' R' h
    simp only [getRcv_setSnap, getRcv_setRcv] at h
    split at h
    · next hp => cases h; subst hp; exact Or.inr hR
    · exact Or.inl h

/-- the records of a port that never got registered are removed again -/
theorem Inv.delPort {w : World} (hI : Inv w) (p : Pid) : Inv (ReqRes.delPort w p) := by
  unfold ReqRes.delPort
  refine hI.of_core rfl rfl rfl rfl rfl rfl ?_ ?_
  · intro p' S' h
    simp only [getSnd, AMap.get_del] at h
    split at h
    · cases h
    · exact Or.inl h
  · intro p' R' h
    simp only [getRcv, AMap.get_del] at h
    split at h
    · cases h
    · exact Or.inl h

theorem getD_replicate_none {α : Type} (n i : Nat) : (List.replicate n (none : Option α)).getD i none = none := by
  rw [List.getD_eq_getElem?_getD, List.getElem?_replicate]
  split <;> rfl

/-- the record of an existing client is replaced: same existence and slot, the request-id counter
does not go back -/
theorem Inv.setCl {w : World} (hI : Inv w) {c : Nat} {C C' : Client} (hC : getCl w c = some C)
    (hex : C'.ex = C.ex) (hslot : C'.slot = C.slot) (hrid : C.ridCtr ≤ C'.ridCtr)
    (h1 : ∀ P ∈ C'.pendings, P.rid < C'.ridCtr) (h2 : C'.pendings.Pairwise (fun a b => a.rid ≠ b.rid))
    (hg : ∀ P ∈ C'.pendings, ∀ m ∈ P.gRecv, m.rid = P.rid ∧ (m.gClient = c ∨ m.gStale = true))
    (hcnt : C'.pendings.length ≤ C'.activeCnt ∧ C'.activeCnt ≤ C'.maxActive)
    (hy : InvB (ReqRes.setCl w c C')) (hseq : C.gSendCtr ≤ C'.gSendCtr) (hf : InvF (ReqRes.setCl w c C')) :
    Inv (ReqRes.setCl w c C') := by
  have hcl : ∀ c', getCl (ReqRes.setCl w c C') c' = if c' = c then some C' else getCl w c' := fun _ => getCl_setCl _ _ _ _
  refine ⟨hI.sndInit, hI.rcvInit, hI.slotKind, ?_, ?_, ?_, hI.e2, ?_, ?_, ?_, ?_, ?_, ?_,
    hI.x.setCl (fun C0 h0 => by rw [hC] at h0; cases h0; exact ⟨hrid, hseq⟩) hg hcnt, hy, hf⟩
  · intro c' X P hX hP
    rw [hcl] at hX; split at hX
    · cases hX; exact h1 P hP
    · exact hI.cl1 c' X P hX hP
  · intro c' X hX
    rw [hcl] at hX; split at hX
    · cases hX; exact h2
    · exact hI.cl2 c' X hX
  · intro f t conn ch x e hc hx he ht
    obtain ⟨a, b, X, hX, hr⟩ := hI.e1 f t conn ch x e hc hx he ht
    refine ⟨a, b, ?_⟩
    rw [hcl]
    by_cases hcc : f.n = c
    · simp only [hcc, if_true]; rw [hcc, hC] at hX; cases hX
      exact ⟨C', rfl, Nat.lt_of_lt_of_le hr.1 hrid, Nat.lt_of_lt_of_le hr.2 hseq⟩
    · simp only [hcc, if_false]; exact ⟨X, hX, hr⟩
  · intro s V A hV hA
    obtain ⟨X, hX, hr⟩ := hI.a2 s V A hV hA
    rw [hcl]
    by_cases hcc : A.msg.client = c
    · simp only [hcc, if_true]; rw [hcc, hC] at hX; cases hX
      exact ⟨C', rfl, Nat.lt_of_lt_of_le hr hrid⟩
    · simp only [hcc, if_false]; exact ⟨X, hX, hr⟩
  · intro s V A i X hV hA hi hX hXex
    rw [hcl] at hX; split at hX
    · next hcc => cases hX; rw [hslot]; exact hI.a1 s V A i C hV hA hi (hcc ▸ hC) (hex ▸ hXex)
    · exact hI.a1 s V A i X hV hA hi hX hXex
  · intro s V A i S t X hV hA hi hS ht hX hXex
    rw [hcl] at hX; split at hX
    · next hcc => cases hX; exact hI.j s V A i S t C hV hA hi hS ht (hcc ▸ hC) (hex ▸ hXex)
    · exact hI.j s V A i S t X hV hA hi hS ht hX hXex
  · intro c' X hX hXex
    rw [hcl] at hX; split at hX
    · next hcc => cases hX; subst hcc; rw [hslot]; exact hI.r1 c' C hC (hex ▸ hXex)
    · exact hI.r1 c' X hX hXex
  · intro i c' n hreg
    obtain ⟨X, hX, hXex, hsl⟩ := hI.r3 i c' n hreg
    rw [hcl]
    by_cases hcc : c' = c
    · subst hcc; simp only [if_true]; rw [hC] at hX; cases hX
      exact ⟨C', rfl, hex ▸ hXex, hslot ▸ hsl⟩
    · simp only [hcc, if_false]; exact ⟨X, hX, hXex, hsl⟩
  · intro s S i t hS ht
    obtain ⟨X, hX, hk⟩ := hI.r2 s S i t hS ht
    rw [hcl]
    by_cases hcc : t.n = c
    · simp only [hcc, if_true]; rw [hcc, hC] at hX; cases hX
      exact ⟨C', rfl, fun h => hslot ▸ hk (hex ▸ h)⟩
    · simp only [hcc, if_false]; exact ⟨X, hX, hk⟩

/-- only fields the invariant does not look at change -/
theorem Inv.setCl_frame' {w : World} (hI : Inv w) {c : Nat} {C C' : Client} (hC : getCl w c = some C)
    (hex : C'.ex = C.ex) (hslot : C'.slot = C.slot) (hrid : C'.ridCtr = C.ridCtr)
    (hp : C'.pendings.map (fun P => (P.rid, P.channel)) = C.pendings.map (fun P => (P.rid, P.channel)))
    (hg : ∀ P ∈ C'.pendings, ∀ m ∈ P.gRecv, m.rid = P.rid ∧ (m.gClient = c ∨ m.gStale = true))
    (hcnt : C'.pendings.length ≤ C'.activeCnt ∧ C'.activeCnt ≤ C'.maxActive)
    (hy : InvB (ReqRes.setCl w c C')) (hseq : C'.gSendCtr = C.gSendCtr) (hf : InvF (ReqRes.setCl w c C')) :
    Inv (ReqRes.setCl w c C') := by
  have hmem : ∀ P' ∈ C'.pendings, ∃ P ∈ C.pendings, P.rid = P'.rid ∧ P.channel = P'.channel := by
    intro P' hP'
    have : (P'.rid, P'.channel) ∈ C'.pendings.map (fun P => (P.rid, P.channel)) := List.mem_map.mpr ⟨P', hP', rfl⟩
    rw [hp] at this
    obtain ⟨P, hP, e⟩ := List.mem_map.mp this
    simp only [Prod.mk.injEq] at e
    exact ⟨P, hP, e.1, e.2⟩
  have hmem' : ∀ P ∈ C.pendings, ∃ P' ∈ C'.pendings, P'.rid = P.rid ∧ P'.channel = P.channel := by
    intro P hP
    have : (P.rid, P.channel) ∈ C.pendings.map (fun P => (P.rid, P.channel)) := List.mem_map.mpr ⟨P, hP, rfl⟩
    rw [← hp] at this
    obtain ⟨P', hP', e⟩ := List.mem_map.mp this
    simp only [Prod.mk.injEq] at e
    exact ⟨P', hP', e.1, e.2⟩
  refine hI.setCl hC hex hslot (Nat.le_of_eq hrid.symm) ?_ ?_ hg hcnt hy (Nat.le_of_eq hseq.symm) hf
  · intro P' hP'
    obtain ⟨P, hP, e, _⟩ := hmem P' hP'
    rw [← e, hrid]; exact hI.cl1 c C P hC hP
  · have hpw := hI.cl2 c C hC
    have h1 : (C.pendings.map (fun P => (P.rid, P.channel))).Pairwise (fun a b => a.1 ≠ b.1) := by
      rw [List.pairwise_map]; exact hpw
    rw [← hp, List.pairwise_map] at h1
    exact h1

/-- the same with the loans untouched as well -/
theorem Inv.setCl_frame {w : World} (hI : Inv w) {c : Nat} {C C' : Client} (hC : getCl w c = some C)
    (hex : C'.ex = C.ex) (hslot : C'.slot = C.slot) (hrid : C'.ridCtr = C.ridCtr)
    (hp : C'.pendings.map (fun P => (P.rid, P.channel)) = C.pendings.map (fun P => (P.rid, P.channel)))
    (hg : ∀ P ∈ C'.pendings, ∀ m ∈ P.gRecv, m.rid = P.rid ∧ (m.gClient = c ∨ m.gStale = true))
    (hcnt : C'.pendings.length ≤ C'.activeCnt ∧ C'.activeCnt ≤ C'.maxActive)
    (hy : InvB (ReqRes.setCl w c C')) (hq : C'.qloans = C.qloans) (hl : C'.loanCnt = C.loanCnt)
    (hseq : C'.gSendCtr = C.gSendCtr) :
    Inv (ReqRes.setCl w c C') := by
  refine hI.setCl_frame' hC hex hslot hrid hp hg hcnt hy hseq
    (hI.f.setCl_sub hC (by rw [hq]; exact List.Sublist.refl _) ?_ (Nat.le_of_eq hrid.symm)
      (by rw [hq, hl]; exact hI.f.f6 c C hC))
  intro P' hP'
  have : (P'.rid, P'.channel) ∈ C'.pendings.map (fun P => (P.rid, P.channel)) := List.mem_map.mpr ⟨P', hP', rfl⟩
  rw [hp] at this
  obtain ⟨P, hP, e⟩ := List.mem_map.mp this
  simp only [Prod.mk.injEq] at e
  exact ⟨P, hP, e.1⟩

/-! ### the registry -/

theorem firstFree_spec {α : Type} (l : List (Option α)) (i j : Nat) (h : firstFree l i = some j) :
    i ≤ j ∧ l[j - i]? = some none := by
  induction l generalizing i with
  | nil => simp [firstFree] at h
  | cons a r ih =>
    cases a with
    | none => simp only [firstFree, Option.some.injEq] at h; subst h; simp
    | some v =>
      simp only [firstFree] at h
      obtain ⟨h1, h2⟩ := ih (i + 1) h
      refine ⟨by omega, ?_⟩
      have : j - i = (j - (i + 1)) + 1 := by omega
      rw [this, List.getElem?_cons_succ]; exact h2

theorem regAdd_spec {α : Type} (r r' : Reg α) (a : α) (j : Nat) (h : r.add a = some (r', j)) :
    r.slots[j]? = some none ∧ r'.slots = r.slots.set j (some a) := by
  unfold Reg.add at h
  split at h
  · cases h
  · next i hi =>
    simp only [Option.some.injEq, Prod.mk.injEq] at h
    obtain ⟨h1, h2⟩ := h
    subst h2
    have := (firstFree_spec r.slots 0 i hi).2
    simp only [Nat.sub_zero] at this
    exact ⟨this, by rw [← h1]⟩

theorem getD_set_self {α : Type} (l : List (Option α)) (i : Nat) (v : Option α) (x : Option α)
    (h : l[i]? = some x) : (l.set i v).getD i none = v := by
  rw [List.getD_eq_getElem?_getD, getElem?_set_self' l i v x h]; rfl

theorem getD_set_ne {α : Type} (l : List (Option α)) (i j : Nat) (v : Option α) (h : i ≠ j) :
    (l.set i v).getD j none = l.getD j none := by
  rw [List.getD_eq_getElem?_getD, List.getD_eq_getElem?_getD, List.getElem?_set]
  simp [h]

/-- a new client registers: its record appears together with its registry entry -/
theorem Inv.clientNew {w : World} (hI : Inv w) {c n slot : Nat} {reg : Reg (Nat × Nat)} {C : Client}
    (hfresh : getCl w c = none) (hadd : w.clientReg.add (c, n) = some (reg, slot))
    (hslot : C.slot = slot) (hpend : C.pendings = []) (hex : C.ex = true) (hcnt : C.activeCnt ≤ C.maxActive)
    (hql : C.qloans = []) (hlc : C.loanCnt = 0) :
    Inv { ReqRes.setCl w c C with clientReg := reg } := by
  obtain ⟨hfree, hreg⟩ := regAdd_spec _ _ _ _ hadd
  have hcl : ∀ c', getCl { ReqRes.setCl w c C with clientReg := reg } c' = if c' = c then some C else getCl w c' :=
    fun _ => getCl_setCl _ _ _ _
  have hfreeD : w.clientReg.slots.getD slot none = none := by
    rw [List.getD_eq_getElem?_getD, hfree]; rfl
  refine ⟨hI.sndInit, hI.rcvInit, hI.slotKind, ?_, ?_, ?_, hI.e2, ?_, ?_, ?_, ?_, ?_, ?_,
    (hI.x.setCl (c := c) (C' := C) (fun C0 h0 => by rw [hfresh] at h0; cases h0)
      (by rw [hpend]; intro P hP; cases hP) (by rw [hpend]; exact ⟨Nat.zero_le _, hcnt⟩)).clientReg reg,
    (hI.y.setCl (c := c) (C' := C) (by rw [hpend]; intro P hP; cases hP) (by rw [hpend]; intro P hP; cases hP)
      (by rw [hpend]; intro P hP; cases hP) (by rw [hpend]; intro P hP; cases hP)).clientReg reg,
    hI.f.setCl' (c := c) (C' := C) rfl hcl (fun _ => rfl) (fun _ _ => rfl) (by rw [hql]; intro q hq; cases hq)
      (by rw [hql]; exact List.Pairwise.nil) (by rw [hql]; intro q hq; cases hq) (by rw [hql]; intro q hq; cases hq)
      (by rw [hql]; intro q hq; cases hq) (by rw [hql, hlc]; exact ⟨Nat.le_refl _, Nat.zero_le _⟩)⟩
  · intro c' X P hX hP
    rw [hcl] at hX; split at hX
    · cases hX; rw [hpend] at hP; cases hP
    · exact hI.cl1 c' X P hX hP
  · intro c' X hX
    rw [hcl] at hX; split at hX
    · cases hX; rw [hpend]; exact List.Pairwise.nil
    · exact hI.cl2 c' X hX
  · intro f t conn ch x e hc hx he ht
    obtain ⟨a, b, X, hX, hr⟩ := hI.e1 f t conn ch x e hc hx he ht
    refine ⟨a, b, ?_⟩
    rw [hcl]
    by_cases hcc : f.n = c
    · rw [hcc, hfresh] at hX; cases hX
    · simp only [hcc, if_false]; exact ⟨X, hX, hr⟩
  · intro s V A hV hA
    obtain ⟨X, hX, hr⟩ := hI.a2 s V A hV hA
    rw [hcl]
    by_cases hcc : A.msg.client = c
    · rw [hcc, hfresh] at hX; cases hX
    · simp only [hcc, if_false]; exact ⟨X, hX, hr⟩
  · intro s V A i X hV hA hi hX hXex
    obtain ⟨X0, hX0, _⟩ := hI.a2 s V A hV hA
    rw [hcl] at hX; split at hX
    · next hcc => rw [hcc, hfresh] at hX0; cases hX0
    · exact hI.a1 s V A i X hV hA hi hX hXex
  · intro s V A i S t X hV hA hi hS ht hX hXex
    obtain ⟨X0, hX0, _⟩ := hI.a2 s V A hV hA
    rw [hcl] at hX; split at hX
    · next hcc => rw [hcc, hfresh] at hX0; cases hX0
    · exact hI.j s V A i S t X hV hA hi hS ht hX hXex
  · intro c' X hX hXex
    rw [hcl] at hX
    show ∃ n, reg.slots.getD X.slot none = some (c', n)
    rw [hreg]
    split at hX
    · next hcc => cases hX; subst hcc; rw [hslot]; exact ⟨n, getD_set_self _ _ _ _ hfree⟩
    · obtain ⟨n', hn'⟩ := hI.r1 c' X hX hXex
      have : slot ≠ X.slot := by intro e; rw [← e, hfreeD] at hn'; cases hn'
      exact ⟨n', by rw [getD_set_ne _ _ _ _ this]; exact hn'⟩
  · intro i c' n' hreg'
    change reg.slots.getD i none = some (c', n') at hreg'
    rw [hreg] at hreg'
    rw [hcl]
    rcases getD_set_some _ _ _ _ _ hreg' with ⟨h1, _⟩ | ⟨h1, h2⟩
    · obtain ⟨X, hX, hXex, hsl⟩ := hI.r3 i c' n' h1
      have hcc : c' ≠ c := by intro e; rw [e, hfresh] at hX; cases hX
      simp only [hcc, if_false]; exact ⟨X, hX, hXex, hsl⟩
    · simp only [Option.some.injEq, Prod.mk.injEq] at h2
      obtain ⟨rfl, _⟩ := h2
      simp only [if_true]
      exact ⟨C, rfl, hex, h1 ▸ hslot⟩
  · intro s S i t hS ht
    obtain ⟨X, hX, hk⟩ := hI.r2 s S i t hS ht
    rw [hcl]
    have hcc : t.n ≠ c := by intro e; rw [e, hfresh] at hX; cases hX
    simp only [hcc, if_false]; exact ⟨X, hX, hk⟩

/-- the shared state of a client goes: its registry entry is released -/
theorem Inv.clientGone {w : World} (hI : Inv w) {c : Nat} {C : Client} (hC : getCl w c = some C) (hex : C.ex = true) :
    Inv { ReqRes.setCl w c { C with ex := false } with clientReg := w.clientReg.remove C.slot } := by
  have hcl : ∀ c', getCl { ReqRes.setCl w c { C with ex := false } with clientReg := w.clientReg.remove C.slot } c'
      = if c' = c then some { C with ex := false } else getCl w c' := fun _ => getCl_setCl _ _ _ _
  have hreg : ({ ReqRes.setCl w c { C with ex := false } with clientReg := w.clientReg.remove C.slot } : World).clientReg.slots
      = w.clientReg.slots.set C.slot none := rfl
  refine ⟨hI.sndInit, hI.rcvInit, hI.slotKind, ?_, ?_, ?_, hI.e2, ?_, ?_, ?_, ?_, ?_, ?_,
    (hI.x.setCl (c := c) (C' := { C with ex := false }) (fun C0 h0 => by rw [hC] at h0; cases h0; exact ⟨Nat.le_refl _, Nat.le_refl _⟩)
      (fun P hP m hm => hI.x.g1 c C P m hC hP hm) (hI.x.cl3 c C hC)).clientReg _,
    (hI.y.setCl_sub (C' := { C with ex := false }) hC (fun P hP => Or.inl ⟨P, hP, rfl, rfl⟩)).clientReg _,
    hI.f.setCl' (c := c) (C' := { C with ex := false }) rfl hcl (fun _ => rfl) (fun _ _ => rfl)
      (fun q hq => hI.f.f1 c C q hC hq) (hI.f.f2 c C hC) (fun q hq P hP => hI.f.f3 c C q P hC hq hP)
      (fun q hq t conn ch x e => hI.f.f4 c C q t conn ch x e hC hq) (fun q hq s V v => hI.f.f5 c C q s V v hC hq)
      (hI.f.f6 c C hC)⟩
  · intro c' X P hX hP
    rw [hcl] at hX; split at hX
    · next hcc => cases hX; exact hI.cl1 c C P hC hP
    · exact hI.cl1 c' X P hX hP
  · intro c' X hX
    rw [hcl] at hX; split at hX
    · cases hX; exact hI.cl2 c C hC
    · exact hI.cl2 c' X hX
  · intro f t conn ch x e hc hx he ht
    obtain ⟨a, b, X, hX, hr⟩ := hI.e1 f t conn ch x e hc hx he ht
    refine ⟨a, b, ?_⟩
    rw [hcl]
    by_cases hcc : f.n = c
    · simp only [hcc, if_true]; rw [hcc, hC] at hX; cases hX; exact ⟨_, rfl, hr⟩
    · simp only [hcc, if_false]; exact ⟨X, hX, hr⟩
  · intro s V A hV hA
    obtain ⟨X, hX, hr⟩ := hI.a2 s V A hV hA
    rw [hcl]
    by_cases hcc : A.msg.client = c
    · simp only [hcc, if_true]; rw [hcc, hC] at hX; cases hX; exact ⟨_, rfl, hr⟩
    · simp only [hcc, if_false]; exact ⟨X, hX, hr⟩
  · intro s V A i X hV hA hi hX hXex
    rw [hcl] at hX; split at hX
    · cases hX; cases hXex
    · exact hI.a1 s V A i X hV hA hi hX hXex
  · intro s V A i S t X hV hA hi hS ht hX hXex
    rw [hcl] at hX; split at hX
    · cases hX; cases hXex
    · exact hI.j s V A i S t X hV hA hi hS ht hX hXex
  · intro c' X hX hXex
    rw [hcl] at hX
    show ∃ n, (w.clientReg.remove C.slot).slots.getD X.slot none = some (c', n)
    split at hX
    · cases hX; cases hXex
    · next hcc =>
      obtain ⟨n', hn'⟩ := hI.r1 c' X hX hXex
      obtain ⟨n, hn⟩ := hI.r1 c C hC hex
      have : C.slot ≠ X.slot := by
        intro e; rw [e, hn'] at hn
        simp only [Option.some.injEq, Prod.mk.injEq] at hn
        exact hcc hn.1
      exact ⟨n', by show (w.clientReg.slots.set C.slot none).getD X.slot none = _; rw [getD_set_ne _ _ _ _ this]; exact hn'⟩
  · intro i c' n' hreg'
    change (w.clientReg.slots.set C.slot none).getD i none = some (c', n') at hreg'
    rw [hcl]
    rcases getD_set_some _ _ _ _ _ hreg' with ⟨h1, hne⟩ | ⟨_, h2⟩
    · obtain ⟨X, hX, hXex, hsl⟩ := hI.r3 i c' n' h1
      have hcc : c' ≠ c := by
        intro e; subst e; rw [hC] at hX; cases hX; exact hne hsl.symm
      simp only [hcc, if_false]; exact ⟨X, hX, hXex, hsl⟩
    · cases h2
  · intro s S i t hS ht
    obtain ⟨X, hX, hk⟩ := hI.r2 s S i t hS ht
    rw [hcl]
    by_cases hcc : t.n = c
    · simp only [hcc, if_true]; exact ⟨_, rfl, fun h => by cases h⟩
    · simp only [hcc, if_false]; exact ⟨X, hX, hk⟩

/-- a server record is written (possibly with a new server registry): every active request of the new
record must satisfy the active-request clauses; the `InvX` part is supplied by the caller -/
theorem Inv.setSvReg {w : World} (hI : Inv w) (s : Nat) (V' : Server) (reg : Reg (Nat × Nat))
    (h : ∀ A ∈ V'.actives,
      (∃ C, getCl w A.msg.client = some C ∧ A.msg.rid < C.ridCtr) ∧
      (∀ i C, A.connId = some i → getCl w A.msg.client = some C → C.ex = true →
        C.slot = i ∧ ∀ S t, getSnd w (sid s) = some S → S.conns.getD i none = some t → t = cid A.msg.client))
    (hx : InvX { ReqRes.setSv w s V' with serverReg := reg }) (hy : InvB { ReqRes.setSv w s V' with serverReg := reg })
    (hf : InvF { ReqRes.setSv w s V' with serverReg := reg }) :
    Inv { ReqRes.setSv w s V' with serverReg := reg } := by
  have hsv : ∀ s', getSv { ReqRes.setSv w s V' with serverReg := reg } s' = if s' = s then some V' else getSv w s' :=
    fun _ => getSv_setSv _ _ _ _
  refine ⟨hI.sndInit, hI.rcvInit, hI.slotKind, hI.cl1, hI.cl2, hI.e1, hI.e2, ?_, ?_, ?_, hI.r1, hI.r3, hI.r2, hx, hy, hf⟩
  · intro s' V A hV hA
    rw [hsv] at hV; split at hV
    · cases hV; exact (h A hA).1
    · exact hI.a2 s' V A hV hA
  · intro s' V A i C hV hA hi hC hex
    rw [hsv] at hV; split at hV
    · cases hV; exact ((h A hA).2 i C hi hC hex).1
    · exact hI.a1 s' V A i C hV hA hi hC hex
  · intro s' V A i S t C hV hA hi hS ht hC hex
    rw [hsv] at hV; split at hV
    · next hss => cases hV; subst hss; exact ((h A hA).2 i C hi hC hex).2 S t hS ht
    · exact hI.j s' V A i S t C hV hA hi hS ht hC hex

theorem Inv.setSv {w : World} (hI : Inv w) (s : Nat) (V' : Server)
    (h : ∀ A ∈ V'.actives,
      (∃ C, getCl w A.msg.client = some C ∧ A.msg.rid < C.ridCtr) ∧
      (∀ i C, A.connId = some i → getCl w A.msg.client = some C → C.ex = true →
        C.slot = i ∧ ∀ S t, getSnd w (sid s) = some S → S.conns.getD i none = some t → t = cid A.msg.client))
    (hx : InvX (ReqRes.setSv w s V')) (hy : InvB (ReqRes.setSv w s V')) (hf : InvF (ReqRes.setSv w s V')) :
    Inv (ReqRes.setSv w s V') :=
  hI.setSvReg s V' w.serverReg h hx hy hf

theorem Inv.sub_actives {w : World} (hI : Inv w) {s : Nat} {V V' : Server} (hV : getSv w s = some V)
    (h : ∀ A' ∈ V'.actives, ∃ A ∈ V.actives, A'.connId = A.connId ∧ A'.msg = A.msg) :
    ∀ A ∈ V'.actives,
      (∃ C, getCl w A.msg.client = some C ∧ A.msg.rid < C.ridCtr) ∧
      (∀ i C, A.connId = some i → getCl w A.msg.client = some C → C.ex = true →
        C.slot = i ∧ ∀ S t, getSnd w (sid s) = some S → S.conns.getD i none = some t → t = cid A.msg.client) := by
  intro A' hA'
  obtain ⟨A, hA, e1, e2⟩ := h A' hA'
  rw [e1, e2]
  exact ⟨hI.a2 s V A hV hA, fun i C hi hC hex =>
    ⟨hI.a1 s V A i C hV hA hi hC hex, fun S t hS ht => hI.j s V A i S t C hV hA hi hS ht hC hex⟩⟩

/-- the active requests of the new record are (copies of) active requests of the old one; existence,
slot and request log stay -/
theorem Inv.setSv_sub {w : World} (hI : Inv w) {s : Nat} {V V' : Server} (hV : getSv w s = some V)
    (h : ∀ A' ∈ V'.actives, ∃ A ∈ V.actives, A'.connId = A.connId ∧ A'.msg = A.msg ∧ A.gSent ≤ A'.gSent)
    (hu1 : V'.actives.Pairwise (fun a b => ¬ (a.msg.client = b.msg.client ∧ a.msg.rid = b.msg.rid)))
    (hex : V'.ex = V.ex) (hslot : V'.slot = V.slot) (hlog : V'.gRecvReq = V.gRecvReq) (hlogs : V'.gRecvSeq = V.gRecvSeq) :
    Inv (ReqRes.setSv w s V') :=
  hI.setSv s V' (hI.sub_actives hV (fun A' hA' => let ⟨A, hA, e1, e2, _⟩ := h A' hA'; ⟨A, hA, e1, e2⟩))
    (hI.x.setSv hV hex hslot hlog hlogs)
    (hI.y.setSv_mono hV w.serverReg hlog hu1 (fun A' hA' => let ⟨A, hA, _, e2, e3⟩ := h A' hA'; ⟨A, hA, e2, e3⟩))
    (hI.f.setSv' (s := s) (V' := V') rfl (fun _ => rfl) (fun _ => getSv_setSv _ _ _ _) (fun _ _ => rfl)
      (fun c v hv => Or.inl ⟨V, hV, hlog ▸ hv⟩))

/-! ### channel state changes -/

theorem Inv.mapChanAt {w : World} (hI : Inv w) (f t : Pid) (ch : Nat) (g : Chan → Chan) (hg : ∀ x, (g x).sub = x.sub) :
    Inv (ReqRes.mapChanAt w f t ch g) := by
  have hconn := mapChanAt_conn w f t ch g
  refine ⟨?_, ?_, ?_, ?_, ?_, ?_, ?_, ?_, ?_, ?_, ?_, ?_, ?_, hI.x.mapChanAt f t ch g hg, hI.y.mapChanAt f t ch g hg, hI.f.mapChanAt f t ch g hg⟩
  · intro p S hS; rw [getSnd_mapChanAt] at hS; exact hI.sndInit p S hS
  · intro p R hR; rw [getRcv_mapChanAt] at hR; exact hI.rcvInit p R hR
  · intro p S i t' hS ht; rw [getSnd_mapChanAt] at hS; exact hI.slotKind p S i t' hS ht
  · intro c C P hC hP; rw [getCl_mapChanAt] at hC; exact hI.cl1 c C P hC hP
  · intro c C hC; rw [getCl_mapChanAt] at hC; exact hI.cl2 c C hC
  · intro f' t' conn ch' x' e hc hx he ht
    obtain ⟨c0, hc0, k⟩ := hconn f' t' conn hc
    obtain ⟨x, hx0, hor⟩ := k ch' x' hx
    simp only [getCl_mapChanAt]
    have : e ∈ x.sub := by
      rcases hor with rfl | ⟨_, _, _, rfl⟩
      · exact he
      · rw [hg] at he; exact he
    exact hI.e1 f' t' c0 ch' x e hc0 hx0 this ht
  · intro f' t' conn ch' x' e hc hx he ht
    obtain ⟨c0, hc0, k⟩ := hconn f' t' conn hc
    obtain ⟨x, hx0, hor⟩ := k ch' x' hx
    have : e ∈ x.sub := by
      rcases hor with rfl | ⟨_, _, _, rfl⟩
      · exact he
      · rw [hg] at he; exact he
    exact hI.e2 f' t' c0 ch' x e hc0 hx0 this ht
  · intro s V A hV hA; rw [getSv_mapChanAt] at hV; simp only [getCl_mapChanAt]; exact hI.a2 s V A hV hA
  · intro s V A i C hV hA hi hC hex
    rw [getSv_mapChanAt] at hV; rw [getCl_mapChanAt] at hC; exact hI.a1 s V A i C hV hA hi hC hex
  · intro s V A i S t' C hV hA hi hS ht hC hex
    rw [getSv_mapChanAt] at hV; rw [getCl_mapChanAt] at hC; rw [getSnd_mapChanAt] at hS
    exact hI.j s V A i S t' C hV hA hi hS ht hC hex
  · intro c C hC hex; rw [getCl_mapChanAt] at hC; rw [clientReg_mapChanAt]; exact hI.r1 c C hC hex
  · intro i c n hreg; rw [clientReg_mapChanAt] at hreg; simp only [getCl_mapChanAt]; exact hI.r3 i c n hreg
  · intro s S i t' hS ht; rw [getSnd_mapChanAt] at hS; simp only [getCl_mapChanAt]; exact hI.r2 s S i t' hS ht

theorem Inv.rcvMapChan {w : World} (hI : Inv w) (me : Pid) (ch : Nat) (g : Chan → Chan) (hg : ∀ x, (g x).sub = x.sub)
    (l : List (Nat × Pid)) : Inv (ReqRes.rcvMapChan w me ch g l) := by
  induction l generalizing w with
  | nil => exact hI
  | cons a r ih =>
    obtain ⟨k, f⟩ := a
    simp only [ReqRes.rcvMapChan]
    exact ih (hI.mapChanAt f me ch g hg)

theorem Inv.rcvMapAll {w : World} (hI : Inv w) (me : Pid) (ch : Nat) (g : Chan → Chan) (hg : ∀ x, (g x).sub = x.sub) :
    Inv (ReqRes.rcvMapAll w me ch g) := by
  unfold ReqRes.rcvMapAll
  split
  · exact hI.rcvMapChan me ch g hg _
  · exact hI

theorem Inv.activeFinish {w : World} (hI : Inv w) (s : Nat) (connId : Option Nat) (ch rid : Nat) :
    Inv (ReqRes.activeFinish w s connId ch rid) := by
  unfold ReqRes.activeFinish
  split
  · exact hI.mapChanAt _ _ _ _ (fun x => close_sub x _)
  · exact hI

/-! ### sending -/

theorem Inv.deliverTo {w : World} (hI : Inv w) (p t : Pid) (ch : Nat) (e : Entry)
    (he1 : t.srv = true → p.srv = false ∧ e.msg.client = p.n ∧
      ∃ C, getCl w p.n = some C ∧ e.msg.rid < C.ridCtr ∧ e.msg.gSeq < C.gSendCtr)
    (he2 : t.srv = false → e.msg.gClient = t.n ∨ e.msg.gStale = true)
    (h2 : t.srv = true → ∀ (conn : Conn) (x : Chan) (e' : Entry), getConn w p t = some conn → conn.chans[ch]? = some x →
      e' ∈ x.sub → e'.msg.gSeq < e.msg.gSeq ∧ e'.msg.rid ≠ e.msg.rid)
    (h3 : ∀ c s V v, p = cid c → t = sid s → getSv w s = some V → (c, v) ∈ V.gRecvSeq → v < e.msg.gSeq)
    (h3r : ∀ c s V v, p = cid c → t = sid s → getSv w s = some V → (c, v) ∈ V.gRecvReq → v ≠ e.msg.rid)
    (h4 : t.srv = true → ∀ c C (q : QLoan), p = cid c → getCl w c = some C → q ∈ C.qloans → e.msg.rid ≠ q.rid)
    (hy : InvB (ReqRes.deliverTo w p t ch e).1) :
    Inv (ReqRes.deliverTo w p t ch e).1 := by
  obtain ⟨k1, _, k3, k4, k5, _, ks⟩ := deliverTo_core w p t ch e
  have hconn := deliverTo_conn w p t ch e
  have hcl : ∀ c, getCl (ReqRes.deliverTo w p t ch e).1 c = getCl w c := fun c => by unfold getCl; rw [k3]
  have hsv : ∀ c, getSv (ReqRes.deliverTo w p t ch e).1 c = getSv w c := fun c => by unfold getSv; rw [k4]
  have hrc : ∀ c, getRcv (ReqRes.deliverTo w p t ch e).1 c = getRcv w c := fun c => by unfold getRcv; rw [k5]
  refine ⟨?_, ?_, ?_, ?_, ?_, ?_, ?_, ?_, ?_, ?_, ?_, ?_, ?_, hI.x.deliverTo p t ch e h2 h3 h3r, hy, hI.f.deliverTo p t ch e h4⟩
  · intro p' S' hS'
    obtain ⟨S, hS, hi, _⟩ := ks p' S' hS'
    rw [hi]; exact hI.sndInit p' S hS
  · intro p' R hR; rw [hrc] at hR; exact hI.rcvInit p' R hR
  · intro p' S' i t' hS' ht
    obtain ⟨S, hS, _, hc⟩ := ks p' S' hS'
    rw [hc] at ht; exact hI.slotKind p' S i t' hS ht
  · intro c C P hC hP; rw [hcl] at hC; exact hI.cl1 c C P hC hP
  · intro c C hC; rw [hcl] at hC; exact hI.cl2 c C hC
  · intro f' t' conn ch' x' e' hc hx he ht
    obtain ⟨c0, hc0, k⟩ := hconn f' t' conn hc
    obtain ⟨x, hx0, _, hor⟩ := k ch' x' hx
    simp only [hcl]
    rcases hor with h | ⟨rfl, rfl, rfl, l, hl, hs⟩
    · rw [h] at he; exact hI.e1 f' t' c0 ch' x e' hc0 hx0 he ht
    · rw [hs] at he
      rcases List.mem_append.mp he with h | h
      · exact hI.e1 _ _ c0 _ x e' hc0 hx0 (hl.subset h) ht
      · simp only [List.mem_singleton] at h; subst h; exact he1 ht
  · intro f' t' conn ch' x' e' hc hx he ht
    obtain ⟨c0, hc0, k⟩ := hconn f' t' conn hc
    obtain ⟨x, hx0, _, hor⟩ := k ch' x' hx
    rcases hor with h | ⟨rfl, rfl, rfl, l, hl, hs⟩
    · rw [h] at he; exact hI.e2 f' t' c0 ch' x e' hc0 hx0 he ht
    · rw [hs] at he
      rcases List.mem_append.mp he with h | h
      · exact hI.e2 _ _ c0 _ x e' hc0 hx0 (hl.subset h) ht
      · simp only [List.mem_singleton] at h; subst h; exact he2 ht
  · intro s V A hV hA; rw [hsv] at hV; simp only [hcl]; exact hI.a2 s V A hV hA
  · intro s V A i C hV hA hi hC hex; rw [hsv] at hV; rw [hcl] at hC; exact hI.a1 s V A i C hV hA hi hC hex
  · intro s V A i S' t' C hV hA hi hS' ht hC hex
    rw [hsv] at hV; rw [hcl] at hC
    obtain ⟨S, hS, _, hc⟩ := ks _ S' hS'
    rw [hc] at ht
    exact hI.j s V A i S t' C hV hA hi hS ht hC hex
  · intro c C hC hex; rw [hcl] at hC; rw [k1]; exact hI.r1 c C hC hex
  · intro i c n hreg; rw [k1] at hreg; simp only [hcl]; exact hI.r3 i c n hreg
  · intro s S' i t' hS' ht
    obtain ⟨S, hS, _, hc⟩ := ks _ S' hS'
    rw [hc] at ht; simp only [hcl]; exact hI.r2 s S i t' hS ht

theorem Inv.clientUpdate {w : World} (hI : Inv w) (c : Nat) : Inv (ReqRes.clientUpdate w c) := by
  obtain ⟨h1, s1⟩ := clientUpdate_spec w c (hI.sndInit _) (fun R hR => by simpa [rcvInitState, initState] using hI.rcvInit _ R hR)
  exact hI.hk h1 s1 (fun i t ⟨n, hn, ht⟩ => ⟨by simpa using ht, (fun h => by cases h), fun _ => ⟨n, (getD_eq_some_iff _ _ _).mpr hn⟩⟩)

theorem Inv.serverUpdate {w : World} (hI : Inv w) (s : Nat) : Inv (ReqRes.serverUpdate w s) := by
  obtain ⟨h1, s1⟩ := serverUpdate_spec w s (hI.sndInit _) (fun R hR => by simpa [rcvInitState, initState] using hI.rcvInit _ R hR)
  exact hI.hk h1 s1 (fun i t ⟨n, hn, ht⟩ => ⟨by simpa using ht, fun _ => ⟨n, (getD_eq_some_iff _ _ _).mpr hn⟩, (fun h => by cases h)⟩)

theorem Inv.finishPanic {w0 : World} (h0 : Inv w0) {r : World × String} (h : Inv r.1) : Inv (finishPanic w0 r).1 := by
  unfold ReqRes.finishPanic; split
  · exact h0.panic
  · exact h

theorem Inv.retrieveReturned {w : World} (hI : Inv w) (p : Pid) : Inv (ReqRes.retrieveReturned w p) := by
  obtain ⟨h, s⟩ := retrieveReturned_hk w p
  exact hI.hkSame h s

theorem Inv.portDestroy {w : World} (hI : Inv w) (p : Pid) : Inv (ReqRes.portDestroy w p) := by
  obtain ⟨h, s⟩ := portDestroy_hk w p
  exact hI.hk0 h s

theorem Inv.rcvRelease {w : World} (hI : Inv w) (p : Pid) (h : Held) : Inv (ReqRes.rcvRelease w p h) :=
  hI.hkR (rcvRelease_hk w p h)

/-- replacing a `Snd` record by one with the same `init` and slots -/
theorem Inv.setSnd_same {w : World} (hI : Inv w) {p : Pid} {S S' : Snd} (hS : getSnd w p = some S)
    (hi : S'.init = S.init) (hc : S'.conns = S.conns) : Inv (ReqRes.setSnd w p S') := by
  refine hI.hkSame (Hk.setSnd hS hi) ?_
  simp [SlotsSame, hS, hc]

theorem Inv.sndReturnLoan {w : World} (hI : Inv w) (p : Pid) (c : Nat) : Inv (ReqRes.sndReturnLoan w p c) := by
  unfold ReqRes.sndReturnLoan; split
  · next S hS => exact hI.setSnd_same hS (by simp) (by simp)
  · exact hI

end Iox2.ReqRes
