/-
C06 Part B — definitions of the invariant of the step-level creation protocol
(`Iox2/Model/ServiceLifeConc.lean`) and of the termination measure.
-/
import Iox2.Model.ServiceLifeConc

namespace Iox2.ServiceLifeConc
open Iox2.Sched

/-- how far a creator got: 3..10 = its pc after winning the O_EXCL on the static config, 11 = returned the
service; 0 = did not (yet) win -/
def stage (t : Local) : Nat :=
  if t.role = .creator then
    (if 3 ≤ t.pc ∧ t.pc ≤ 10 then t.pc else if t.res = some .created then 11 else 0)
  else 0

def validPc (t : Local) : Prop :=
  match t.role with
  | .creator => t.pc ≤ 10 ∨ t.pc = 20 ∨ t.pc = 99
  | .opener => t.pc ≤ 6 ∨ t.pc = 30 ∨ t.pc = 31 ∨ t.pc = 99

/-- opener pcs at which the static config has been read in the current round -/
def hasSeen (t : Local) : Prop := t.pc = 3 ∨ t.pc = 4 ∨ t.pc = 5 ∨ t.pc = 6 ∨ t.pc = 30 ∨ t.pc = 31

/-- opener pcs at which the dynamic config was found fully initialised -/
def pastDyn (t : Local) : Prop := t.pc = 5 ∨ t.pc = 6 ∨ t.pc = 31

structure Inv (c : Cfg Shared Local) : Prop where
  ids : ∀ (i : Nat) (t : Local), c.th[i]? = some t → t.id = i
  pcs : ∀ (i : Nat) (t : Local), c.th[i]? = some t → validPc t ∧ (t.res = none ↔ t.pc ≠ 99) ∧
          (t.role = .creator → ∀ o, t.res ≠ some (.opened o)) ∧ (t.role = .opener → t.res ≠ some .created)
  /-- the static config belongs to the one creator that won the O_EXCL; its flags follow that creator's progress -/
  owner : ∀ s, c.sh.static = some s → ∃ t, c.th[s.owner]? = some t ∧ 3 ≤ stage t ∧
          s.written = decide (4 ≤ stage t) ∧ s.unlocked = decide (5 ≤ stage t)
  /-- the dynamic config belongs to the same creator; its flags follow that creator's progress -/
  dynOwner : ∀ d, c.sh.dyn = some d → ∃ s t, c.sh.static = some s ∧ s.owner = d.owner ∧ c.th[d.owner]? = some t ∧
          6 ≤ stage t ∧ d.sized = decide (7 ≤ stage t) ∧ d.inited = decide (8 ≤ stage t) ∧
          d.versioned = decide (9 ≤ stage t) ∧ d.final = decide (10 ≤ stage t) ∧ (8 ≤ stage t → t.node ∈ d.regs)
  /-- a creator past the O_EXCL owns the static config, past the shm creation the dynamic config -/
  won : ∀ (i : Nat) (t : Local), c.th[i]? = some t → 3 ≤ stage t →
          (∃ s, c.sh.static = some s ∧ s.owner = i) ∧ (6 ≤ stage t → ∃ d, c.sh.dyn = some d ∧ d.owner = i)
  /-- what an opener has read is the complete, unlocked static config of the winner -/
  seen : ∀ (i : Nat) (t : Local), c.th[i]? = some t → t.role = .opener →
          (∀ o, t.seen = some o → ∃ s, c.sh.static = some s ∧ s.owner = o ∧ s.written = true ∧ s.unlocked = true) ∧
          ((hasSeen t ∨ ∃ o, t.res = some (.opened o)) → t.seen.isSome) ∧
          (∀ o, t.res = some (.opened o) → t.seen = some o) ∧
          ((pastDyn t ∨ ∃ o, t.res = some (.opened o)) → dynReady c.sh (t.seen.getD 0) = true) ∧
          ((t.pc = 6 ∨ ∃ o, t.res = some (.opened o)) → ∃ d, c.sh.dyn = some d ∧ t.node ∈ d.regs)
  /-- (appended) an opener that found the static config unlocked (pc 1 → 2) still finds it unlocked when it reads it -/
  atRead : ∀ (i : Nat) (t : Local), c.th[i]? = some t → t.role = .opener → t.pc = 2 →
          ∃ s, c.sh.static = some s ∧ s.unlocked = true
  /-- (appended) every node-local reference entry belongs to a node registered in the dynamic config -/
  refsReg : ∀ r, r ∈ c.sh.refs → ∃ d, c.sh.dyn = some d ∧ r.1 ∈ d.regs

/-- termination measure of one call: an upper bound of the number of steps it can still take -/
def measureT (t : Local) : Nat :=
  if t.res.isSome then 0 else
  match t.role with
  | .creator => if t.pc ≤ 10 then 12 - t.pc else 1
  | .opener =>
    if t.pc = 0 then 9 * (t.budget + 1) + 1
    else 9 * t.budget + (match t.pc with
      | 1 => 8 | 2 => 6 | 3 => 5 | 4 => 4 | 30 => 2 | 5 => 3 | 31 => 1 | 6 => 1 | _ => 0)

def measure (c : Cfg Shared Local) : Nat := (c.th.map measureT).sum

end Iox2.ServiceLifeConc
