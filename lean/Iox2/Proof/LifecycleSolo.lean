/-
A survivor's complete dead-node clean-up, running alone, from ANY state in which the token of a dead, committed owner
is intact: everything of the node is removed (any number of tags).
-/
import Iox2.Proof.LifecycleInv
namespace Iox2.Lifecycle

theorem runSolo_stuck {fs : FS} {t : Th} (h : stepL fs t = none) (n : Nat) : runSolo n fs t = (fs, t) := by
  cases n <;> simp [runSolo, h]

theorem runSolo_add (a b : Nat) (fs : FS) (t : Th) :
    runSolo (a + b) fs t = runSolo b (runSolo a fs t).1 (runSolo a fs t).2 := by
  induction a generalizing fs t with
  | zero => simp [runSolo]
  | succ a ih =>
    rw [Nat.succ_add]
    simp only [runSolo]
    cases h : stepL fs t with
    | none => simp [runSolo_stuck h]
    | some r => obtain ⟨fs', t', s⟩ := r; simp [ih]

/-- `Node::list` (reported dead), `ProcessCleaner::new` up to and including the successful `F_SETLK`: 24 steps -/
theorem solo_phase1 (fs : FS) (pid : Nat) (hp : pid ≠ 0) (h1 : fs.ctx.linked = true) (h2 : fs.st.linked = true)
    (h3 : fs.ol.linked = true) (h4 : fs.ctx.perm = .final) (h5 : fs.st.lock = none) (h6 : fs.ol.lock = none)
    (h7 : fs.ctxPid = some 0) :
    runSolo 24 fs (mkCleaner pid) =
      ({ fs with ol := { fs.ol with lock := some pid } },
       { mkCleaner pid with pc := 25, hasDet := fs.det.linked && fs.det.perm == .final, raw := some .dead, listed := some .dead }) := by
  have hp' : ¬ (0 = pid) := fun h => hp h.symm
  simp [runSolo, stepL, mkCleaner, cleanerStep, qstep, File.lockedByOther, h1, h2, h3, h4, h5, h6, h7, calOf, cleanerRefusal, hp', pcDone]

/-- the tag loop: one `unlink` per listed tag -/
theorem solo_tags (k : Nat) : ∀ (fs : FS) (t : Th), t.role = .cleaner → t.pc = 27 → t.todo = k + 1 → fs.tags = k + 1 →
    runSolo (k + 1) fs t = ({ fs with tags := 0 }, { t with pc := 28, todo := 0 }) := by
  induction k with
  | zero =>
    intro fs t hr hpc htodo htags
    simp [runSolo, stepL, hr, cleanerStep, hpc, cleanerNorm, htodo, htags]
  | succ k ih =>
    intro fs t hr hpc htodo htags
    rw [runSolo]
    have hstep : stepL fs t = some ({ fs with tags := k + 1 }, { t with pc := 27, todo := k + 1 }, "unlink tag") := by
      simp [stepL, hr, cleanerStep, hpc, cleanerNorm, htodo, htags]
    rw [hstep]
    simp only []
    exact ih { fs with tags := k + 1 } { t with pc := 27, todo := k + 1 } hr rfl rfl rfl

/-- the two listings and the tag loop: from pc 25 to pc 28 in `2 + tags` steps -/
theorem solo_phase2 (fs : FS) (t : Th) (hr : t.role = .cleaner) (hpc : t.pc = 25) (hsf : t.svcFails = false) :
    runSolo (2 + fs.tags) fs t = ({ fs with tags := 0 }, { t with pc := 28, todo := 0 }) := by
  rw [runSolo_add]
  have h2 : runSolo 2 fs t = (fs, cleanerNorm { t with pc := 27, todo := fs.tags }) := by
    simp [runSolo, stepL, hr, cleanerStep, hpc, hsf]
  rw [h2]
  simp only []
  cases hk : fs.tags with
  | zero =>
    simp [runSolo, cleanerNorm]
    cases fs; simp_all
  | succ k =>
    have hn : cleanerNorm { t with pc := 27, todo := k + 1 } = { t with pc := 27, todo := k + 1 } := by
      simp [cleanerNorm]
    rw [hn]
    exact solo_tags k fs { t with pc := 27, todo := k + 1 } hr rfl rfl hk

/-- remove_node and the removal of the token: from pc 28 to the end in 12 steps (11 if there are no details) -/
theorem solo_phase3_12 (fs : FS) (t : Th) (hr : t.role = .cleaner) (hpc : t.pc = 28) (ht : fs.tags = 0) (hti : fs.tagsInit = 0)
    (hdet : fs.det.linked = true → fs.det.perm = .final) (hl : fs.ol.lock = some t.pid) (hsf : t.svcFails = false) :
    Clean (runSolo 12 fs t).1 ∧ (runSolo 12 fs t).2.res = some .ok ∧ (runSolo 12 fs t).2.pc = pcDone ∧
    (runSolo 12 fs t).2.role = .cleaner := by
  by_cases hd : fs.det.linked = true
  · have hperm := hdet hd
    by_cases hdir : fs.dir = true <;>
      simp [runSolo, stepL, hr, cleanerStep, hpc, cleanerNorm, hd, hperm, ht, hti, hl, File.closeBy_linked, pcDone, hdir, Clean, hsf]
  · have hd' : fs.det.linked = false := by simpa using hd
    by_cases hdir : fs.dir = true <;>
      simp [runSolo, stepL, hr, cleanerStep, hpc, cleanerNorm, hd', ht, hti, hl, File.closeBy_linked, pcDone, hdir, Clean, hsf]

theorem solo_phase3 (fs : FS) (t : Th) (hr : t.role = .cleaner) (hpc : t.pc = 28) (ht : fs.tags = 0) (hti : fs.tagsInit = 0)
    (hdet : fs.det.linked = true → fs.det.perm = .final) (hl : fs.ol.lock = some t.pid) (hsf : t.svcFails = false) (n : Nat) :
    Clean (runSolo (12 + n) fs t).1 ∧ (runSolo (12 + n) fs t).2.res = some .ok ∧ (runSolo (12 + n) fs t).2.pc = pcDone := by
  obtain ⟨h1, h2, h3, h4⟩ := solo_phase3_12 fs t hr hpc ht hti hdet hl hsf
  rw [runSolo_add]
  have hstuck : stepL (runSolo 12 fs t).1 (runSolo 12 fs t).2 = none := by
    simp [stepL, h4, cleanerStep, h3, pcDone]
  rw [runSolo_stuck hstuck]
  exact ⟨h1, h2, h3⟩

end Iox2.Lifecycle
