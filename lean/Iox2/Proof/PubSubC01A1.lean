/-
Layer A of the C01 invariant: generic preservation lemmas (updates of one publisher / subscriber /
connection record) and attach / detach.
-/
import Iox2.Proof.PubSubC01Inv
namespace Iox2.PubSub.C01P
open Iox2.PubSub
open Iox2.C16.SlotMapP (abs WInv)

variable {cfg : Cfg} {np ns : Option Nat} {w : World}

/-! ### frame facts for detach -/

@[simp] theorem detachSender_pubs (w : World) (p s : Nat) : (detachSender w p s).pubs = w.pubs := by
  rw [detachSender_eq]; split
  · rfl
  · split <;> rfl
@[simp] theorem detachSender_subs (w : World) (p s : Nat) : (detachSender w p s).subs = w.subs := by
  rw [detachSender_eq]; split
  · rfl
  · split <;> rfl
@[simp] theorem detachSender_cfg (w : World) (p s : Nat) : (detachSender w p s).cfg = w.cfg := by
  rw [detachSender_eq]; split
  · rfl
  · split <;> rfl
@[simp] theorem detachSender_pubReg (w : World) (p s : Nat) : (detachSender w p s).pubReg = w.pubReg := by
  rw [detachSender_eq]; split
  · rfl
  · split <;> rfl
@[simp] theorem detachSender_subReg (w : World) (p s : Nat) : (detachSender w p s).subReg = w.subReg := by
  rw [detachSender_eq]; split
  · rfl
  · split <;> rfl
@[simp] theorem detachSender_panicked (w : World) (p s : Nat) : (detachSender w p s).panicked = w.panicked := by
  rw [detachSender_eq]; split
  · rfl
  · split <;> rfl
@[simp] theorem getP_detachSender (w : World) (p s a : Nat) : getP (detachSender w p s) a = getP w a := by
  unfold getP; rw [detachSender_pubs]
@[simp] theorem getS_detachSender (w : World) (p s a : Nat) : getS (detachSender w p s) a = getS w a := by
  unfold getS; rw [detachSender_subs]

@[simp] theorem detachReceiver_pubs (w : World) (p s : Nat) : (detachReceiver w p s).pubs = w.pubs := by
  rw [detachReceiver_eq]; split
  · rfl
  · split <;> rfl
@[simp] theorem detachReceiver_subs (w : World) (p s : Nat) : (detachReceiver w p s).subs = w.subs := by
  rw [detachReceiver_eq]; split
  · rfl
  · split <;> rfl
@[simp] theorem detachReceiver_cfg (w : World) (p s : Nat) : (detachReceiver w p s).cfg = w.cfg := by
  rw [detachReceiver_eq]; split
  · rfl
  · split <;> rfl
@[simp] theorem detachReceiver_pubReg (w : World) (p s : Nat) : (detachReceiver w p s).pubReg = w.pubReg := by
  rw [detachReceiver_eq]; split
  · rfl
  · split <;> rfl
@[simp] theorem detachReceiver_subReg (w : World) (p s : Nat) : (detachReceiver w p s).subReg = w.subReg := by
  rw [detachReceiver_eq]; split
  · rfl
  · split <;> rfl
@[simp] theorem detachReceiver_panicked (w : World) (p s : Nat) : (detachReceiver w p s).panicked = w.panicked := by
  rw [detachReceiver_eq]; split
  · rfl
  · split <;> rfl
@[simp] theorem getP_detachReceiver (w : World) (p s a : Nat) : getP (detachReceiver w p s) a = getP w a := by
  unfold getP; rw [detachReceiver_pubs]
@[simp] theorem getS_detachReceiver (w : World) (p s a : Nat) : getS (detachReceiver w p s) a = getS w a := by
  unfold getS; rw [detachReceiver_subs]

theorem mem_detachSender {p s : Nat} {c' : Conn} (h : c' ∈ (detachSender w p s).conns) :
    (c' ∈ w.conns ∧ ¬ (c'.pid = p ∧ c'.sid = s)) ∨
    (∃ c, getC w p s = some c ∧ c.rAtt = true ∧ c' = { c with sAtt := false }) ∨
    (c' ∈ w.conns ∧ getC w p s = none) := by
  cases hg : getC w p s with
  | none => rw [detachSender_none hg] at h; exact Or.inr (Or.inr ⟨h, rfl⟩)
  | some c =>
    obtain ⟨hm, hp, hs⟩ := getC_some hg
    cases hr : c.rAtt with
    | true =>
      rw [detachSender_keep hg hr] at h
      rcases mem_setC h with ⟨rfl, _⟩ | ⟨hm', hne⟩
      · exact Or.inr (Or.inl ⟨c, rfl, hr, rfl⟩)
      · simp only [hp, hs] at hne
        exact Or.inl ⟨hm', hne⟩
    | false =>
      rw [detachSender_drop hg hr, mem_dropC] at h
      exact Or.inl h

theorem getC_detachSender (w : World) (p s a b : Nat) :
    getC (detachSender w p s) a b =
      if a = p ∧ b = s then (getC w p s).bind fun c => if c.rAtt then some { c with sAtt := false } else none
      else getC w a b := by
  cases hg : getC w p s with
  | none =>
    rw [detachSender_none hg]
    by_cases h : a = p ∧ b = s
    · obtain ⟨rfl, rfl⟩ := h; simp [hg]
    · simp [h]
  | some c =>
    obtain ⟨hm, hp, hs⟩ := getC_some hg
    cases hr : c.rAtt with
    | true =>
      rw [detachSender_keep hg hr, getC_setC]
      simp only [hp, hs, Option.bind_some, hr, if_true]
      by_cases h : a = p ∧ b = s
      · obtain ⟨rfl, rfl⟩ := h; simp [hg]
      · simp [h]
    | false =>
      rw [detachSender_drop hg hr, getC_dropC]
      by_cases h : a = p ∧ b = s <;> simp [h, hr]

theorem mem_detachReceiver {p s : Nat} {c' : Conn} (h : c' ∈ (detachReceiver w p s).conns) :
    (c' ∈ w.conns ∧ ¬ (c'.pid = p ∧ c'.sid = s)) ∨
    (∃ c, getC w p s = some c ∧ c.sAtt = true ∧ c' = { c with rAtt := false }) ∨
    (c' ∈ w.conns ∧ getC w p s = none) := by
  cases hg : getC w p s with
  | none => rw [detachReceiver_none hg] at h; exact Or.inr (Or.inr ⟨h, rfl⟩)
  | some c =>
    obtain ⟨hm, hp, hs⟩ := getC_some hg
    cases hr : c.sAtt with
    | true =>
      rw [detachReceiver_keep hg hr] at h
      rcases mem_setC h with ⟨rfl, _⟩ | ⟨hm', hne⟩
      · exact Or.inr (Or.inl ⟨c, rfl, hr, rfl⟩)
      · simp only [hp, hs] at hne
        exact Or.inl ⟨hm', hne⟩
    | false =>
      rw [detachReceiver_drop hg hr, mem_dropC] at h
      exact Or.inl h

theorem getC_detachReceiver (w : World) (p s a b : Nat) :
    getC (detachReceiver w p s) a b =
      if a = p ∧ b = s then (getC w p s).bind fun c => if c.sAtt then some { c with rAtt := false } else none
      else getC w a b := by
  cases hg : getC w p s with
  | none =>
    rw [detachReceiver_none hg]
    by_cases h : a = p ∧ b = s
    · obtain ⟨rfl, rfl⟩ := h; simp [hg]
    · simp [h]
  | some c =>
    obtain ⟨hm, hp, hs⟩ := getC_some hg
    cases hr : c.sAtt with
    | true =>
      rw [detachReceiver_keep hg hr, getC_setC]
      simp only [hp, hs, Option.bind_some, hr, if_true]
      by_cases h : a = p ∧ b = s
      · obtain ⟨rfl, rfl⟩ := h; simp [hg]
      · simp [h]
    | false =>
      rw [detachReceiver_drop hg hr, getC_dropC]
      by_cases h : a = p ∧ b = s <;> simp [h, hr]

theorem UniqC.detachSender (h : UniqC w) (p s : Nat) : UniqC (detachSender w p s) := by
  rw [detachSender_eq]
  split
  · exact h
  · split
    · exact h.setC
    · exact h.dropC

theorem UniqC.detachReceiver (h : UniqC w) (p s : Nat) : UniqC (detachReceiver w p s) := by
  rw [detachReceiver_eq]
  split
  · exact h
  · split
    · exact h.setC
    · exact h.dropC

/-! ### irrelevant updates of a publisher / subscriber record -/

/-- update of a publisher record: liveness flags may only go down consistently, the connection array may
only lose entries that no attached connection needs -/
theorem InvA.setP_gen (h : InvA cfg np ns w) {p : Nat} {P P' : Pub} (hp : getP w p = some P)
    (ha : P'.alive = P.alive) (hdown : P'.ex = true → P.ex = true) (hpal : P'.alive = true → P'.ex = true)
    (hs : P'.slot = P.slot) (hlen : P'.conns.length = P.conns.length)
    (hsub : ∀ (i : Nat) b, P'.conns[i]? = some (some b) → P.conns[i]? = some (some b))
    (hkeep : ∀ cn ∈ w.conns, cn.pid = p → cn.sAtt = true → ∀ i : Nat, P.conns[i]? = some (some cn.sid) →
      P'.conns[i]? = some (some cn.sid)) :
    InvA cfg np ns (setP w p P') := by
  have key : ∀ a Q, getP (setP w p P') a = some Q → (a = p ∧ Q = P') ∨ (a ≠ p ∧ getP w a = some Q) := by
    intro a Q hq
    rw [getP_setP] at hq
    by_cases hap : a = p
    · subst hap
      simp only [if_true, hp, Option.map_some, Option.some.injEq] at hq
      exact Or.inl ⟨rfl, hq.symm⟩
    · rw [if_neg hap] at hq
      exact Or.inr ⟨hap, hq⟩
  have key2 : ∀ a Q0, getP w a = some Q0 →
      ∃ Q, getP (setP w p P') a = some Q ∧ Q.alive = Q0.alive ∧ Q.slot = Q0.slot := by
    intro a Q0 hq
    rw [getP_setP]
    by_cases hap : a = p
    · subst hap
      rw [hp] at hq; cases hq
      exact ⟨P', by simp [hp], ha, hs⟩
    · rw [if_neg hap]
      exact ⟨Q0, hq, rfl, rfl⟩
  constructor
  · exact h.cfgEq
  · exact h.uniqC
  · exact h.sregLen
  · intro i a hi
    obtain ⟨h1, Q0, h2, h3, h4⟩ := h.preg i a hi
    obtain ⟨Q, hq, e1, e3⟩ := key2 a Q0 h2
    exact ⟨h1, Q, hq, e1 ▸ h3, e3 ▸ h4⟩
  · exact h.sreg
  · intro a Q hq hal
    rcases key a Q hq with ⟨rfl, rfl⟩ | ⟨_, h0⟩
    · rw [hs]; exact ⟨hpal hal, (h.palive a P hp (ha ▸ hal)).2⟩
    · exact h.palive a Q h0 hal
  · exact h.salive
  · exact h.sbuf
  · intro a Q hq
    rcases key a Q hq with ⟨rfl, rfl⟩ | ⟨_, h0⟩
    · obtain ⟨h1, h2⟩ := h.pconns a P hp
      exact ⟨hlen ▸ h1, fun i b hi => h2 i b (hsub i b hi)⟩
    · exact h.pconns a Q h0
  · intro cn hcn
    obtain ⟨⟨Q0, h0⟩, hS⟩ := h.ends cn hcn
    obtain ⟨Q, hq, _⟩ := key2 _ Q0 h0
    exact ⟨⟨Q, hq⟩, hS⟩
  · exact h.a1
  · intro s S hS
    obtain ⟨h1, h2⟩ := h.stor s S hS
    refine ⟨h1, fun k a hk => ?_⟩
    obtain ⟨h3, Q0, h0⟩ := h2 k a hk
    obtain ⟨Q, hq, _⟩ := key2 _ Q0 h0
    exact ⟨h3, Q, hq⟩
  · intro cn hcn hsa
    obtain ⟨Q0, h0, i, hi⟩ := h.a2 cn hcn hsa
    by_cases hap : cn.pid = p
    · rw [hap] at h0 ⊢
      rw [hp] at h0; cases h0
      exact ⟨P', by simp [getP_setP, hp], i, hkeep cn hcn hap hsa i hi⟩
    · refine ⟨Q0, ?_, i, hi⟩
      rw [getP_setP, if_neg hap]; exact h0
  · intro a Q hq hex i s hi
    rcases key a Q hq with ⟨rfl, rfl⟩ | ⟨_, h0⟩
    · exact h.a2c a P hp (hdown hex) i s (hsub i s hi)
    · exact h.a2c a Q h0 hex i s hi
  · exact h.a3
  · intro cn hcn hsa Q S hq hS hex hal
    rcases key _ Q hq with ⟨hap, rfl⟩ | ⟨_, h0⟩
    · exact h.virg cn hcn hsa P S (hap ▸ hp) hS (hdown hex) hal
    · exact h.virg cn hcn hsa Q S h0 hS hex hal
  · intro s S hS hal e he Q hq hqa
    rcases key _ Q hq with ⟨hap, rfl⟩ | ⟨_, h0⟩
    · exact h.k2 s S hS hal e he P (hap ▸ hp) (ha ▸ hqa)
    · exact h.k2 s S hS hal e he Q h0 hqa
  · exact h.l3
  · exact h.l4
  · exact h.clog
  · intro s S hS e he
    obtain ⟨h1, Q0, h0⟩ := h.gr s S hS e he
    obtain ⟨Q, hq, _⟩ := key2 _ Q0 h0
    exact ⟨h1, Q, hq⟩

theorem InvA.setP_irrel (h : InvA cfg np ns w) {p : Nat} {P P' : Pub} (hp : getP w p = some P)
    (ha : P'.alive = P.alive) (he : P'.ex = P.ex) (hs : P'.slot = P.slot) (hc : P'.conns = P.conns) :
    InvA cfg np ns (setP w p P') := by
  refine h.setP_gen hp ha (fun hx => he ▸ hx) (fun hx => ?_) hs (by rw [hc]) (fun i b hi => hc ▸ hi)
    (fun cn _ _ _ i hi => hc ▸ hi)
  rw [he]; exact (h.palive p P hp (ha ▸ hx)).1

theorem InvA.setS_irrel (h : InvA cfg np ns w) {s : Nat} {S S' : Sub} (hp : getS w s = some S)
    (ha : S'.alive = S.alive) (he : S'.ex = S.ex) (hs : S'.slot = S.slot) (hb : S'.buffer = S.buffer)
    (hst : S'.storage = S.storage) (hg : S'.ghostRecv = S.ghostRecv) (hh : S'.held = S.held) :
    InvA cfg np ns (setS w s S') := by
  have key : ∀ a Q, getS (setS w s S') a = some Q →
      ∃ Q0, getS w a = some Q0 ∧ Q.alive = Q0.alive ∧ Q.ex = Q0.ex ∧ Q.slot = Q0.slot ∧
        Q.buffer = Q0.buffer ∧ Q.storage = Q0.storage ∧ Q.ghostRecv = Q0.ghostRecv ∧ Q.held = Q0.held := by
    intro a Q hq
    rw [getS_setS] at hq
    by_cases hap : a = s
    · subst hap
      simp only [if_true, hp, Option.map_some, Option.some.injEq] at hq
      subst hq
      exact ⟨S, hp, ha, he, hs, hb, hst, hg, hh⟩
    · rw [if_neg hap] at hq
      exact ⟨Q, hq, rfl, rfl, rfl, rfl, rfl, rfl, rfl⟩
  have key2 : ∀ a Q0, getS w a = some Q0 →
      ∃ Q, getS (setS w s S') a = some Q ∧ Q.alive = Q0.alive ∧ Q.ex = Q0.ex ∧ Q.slot = Q0.slot ∧
        Q.buffer = Q0.buffer ∧ Q.storage = Q0.storage ∧ Q.ghostRecv = Q0.ghostRecv ∧ Q.held = Q0.held := by
    intro a Q0 hq
    rw [getS_setS]
    by_cases hap : a = s
    · subst hap
      rw [hp] at hq; cases hq
      exact ⟨S', by simp [hp], ha, he, hs, hb, hst, hg, hh⟩
    · rw [if_neg hap]
      exact ⟨Q0, hq, rfl, rfl, rfl, rfl, rfl, rfl, rfl⟩
  constructor
  · exact h.cfgEq
  · exact h.uniqC
  · exact h.sregLen
  · exact h.preg
  · intro i e hi
    obtain ⟨h1, Q0, h2, h3, h4, h5⟩ := h.sreg i e hi
    obtain ⟨Q, hq, e1, e2, e3, e4, _⟩ := key2 _ Q0 h2
    exact ⟨h1, Q, hq, e1 ▸ h3, e3 ▸ h4, e4 ▸ h5⟩
  · exact h.palive
  · intro a Q hq hal
    obtain ⟨Q0, h0, e1, e2, e3, _⟩ := key a Q hq
    have := h.salive a Q0 h0 (e1 ▸ hal)
    rw [e2, e3]; exact this
  · intro a Q hq
    obtain ⟨Q0, h0, e1, e2, e3, e4, _⟩ := key a Q hq
    rw [e4]; exact h.sbuf a Q0 h0
  · intro a Q hq
    obtain ⟨h1, h2⟩ := h.pconns a Q hq
    refine ⟨h1, fun i b hi => ?_⟩
    obtain ⟨h3, Q0, h0, h4⟩ := h2 i b hi
    obtain ⟨Q', hq', e1, e2, e3, _⟩ := key2 _ Q0 h0
    exact ⟨h3, Q', hq', e3 ▸ h4⟩
  · intro cn hcn
    obtain ⟨hP, ⟨Q0, h0⟩⟩ := h.ends cn hcn
    obtain ⟨Q, hq, _⟩ := key2 _ Q0 h0
    exact ⟨hP, ⟨Q, hq⟩⟩
  · intro cn hcn hr
    obtain ⟨Q0, h0, h1, h2⟩ := h.a1 cn hcn hr
    obtain ⟨Q, hq, e1, e2, e3, e4, e5, _⟩ := key2 _ Q0 h0
    exact ⟨Q, hq, e2 ▸ h1, e5 ▸ h2⟩
  · intro a Q hq
    obtain ⟨Q0, h0, e1, e2, e3, e4, e5, _⟩ := key a Q hq
    rw [e5]; exact h.stor a Q0 h0
  · exact h.a2
  · exact h.a2c
  · exact h.a3
  · intro cn hcn hsa P Q hP hq hex hal
    obtain ⟨Q0, h0, e1, _⟩ := key _ Q hq
    exact h.virg cn hcn hsa P Q0 hP h0 hex (e1 ▸ hal)
  · intro a Q hq hal e he P hP hPa
    obtain ⟨Q0, h0, e1, e2, e3, e4, e5, e6, e7⟩ := key a Q hq
    exact h.k2 a Q0 h0 (e1 ▸ hal) e (e6 ▸ he) P hP hPa
  · intro cn hcn Q hq
    obtain ⟨Q0, h0, e1, e2, e3, e4, e5, e6, e7⟩ := key _ Q hq
    rw [e6]; exact h.l3 cn hcn Q0 h0
  · intro a Q hq hd hhd
    obtain ⟨Q0, h0, e1, e2, e3, e4, e5, e6, e7⟩ := key a Q hq
    rw [e6]; exact h.l4 a Q0 h0 hd (e7 ▸ hhd)
  · exact h.clog
  · intro a Q hq e he
    obtain ⟨Q0, h0, e1, e2, e3, e4, e5, e6, e7⟩ := key a Q hq
    exact h.gr a Q0 h0 e (e6 ▸ he)

/-! ### update of one connection that keeps the attachment flags -/

theorem InvA.setC_same (h : InvA cfg np ns w) {c x : Conn} (hg : getC w x.pid x.sid = some c)
    (hs : x.sAtt = c.sAtt) (hr : x.rAtt = c.rAtt) (hrecv : x.gReceived = c.gReceived)
    (hlog : ConnLog cfg.overflow x) (hv : x.sAtt = false → Virgin c → Virgin x) :
    InvA cfg np ns (setC w x) := by
  obtain ⟨hcm, hcp, hcs⟩ := getC_some hg
  have hgx : ∀ a b cn, getC (setC w x) a b = some cn →
      ∃ cn0, getC w a b = some cn0 ∧ cn.sAtt = cn0.sAtt := by
    intro a b cn hcn
    rw [getC_setC] at hcn
    by_cases hab : a = x.pid ∧ b = x.sid
    · obtain ⟨rfl, rfl⟩ := hab
      simp only [and_self, if_true, hg, Option.map_some, Option.some.injEq] at hcn
      subst hcn
      exact ⟨c, hg, hs⟩
    · rw [if_neg hab] at hcn
      exact ⟨cn, hcn, rfl⟩
  have hgx2 : ∀ a b cn0, getC w a b = some cn0 →
      ∃ cn, getC (setC w x) a b = some cn ∧ cn.sAtt = cn0.sAtt := by
    intro a b cn0 hcn
    rw [getC_setC]
    by_cases hab : a = x.pid ∧ b = x.sid
    · obtain ⟨rfl, rfl⟩ := hab
      rw [hg] at hcn; cases hcn
      exact ⟨x, by simp [hg], hs⟩
    · rw [if_neg hab]
      exact ⟨cn0, hcn, rfl⟩
  constructor
  · exact h.cfgEq
  · exact h.uniqC.setC
  · exact h.sregLen
  · exact h.preg
  · exact h.sreg
  · exact h.palive
  · exact h.salive
  · exact h.sbuf
  · exact h.pconns
  · intro cn hcn
    rcases mem_setC hcn with ⟨rfl, _⟩ | ⟨hm, _⟩
    · have := h.ends c hcm; rwa [hcp, hcs] at this
    · exact h.ends cn hm
  · intro cn hcn hra
    rcases mem_setC hcn with ⟨rfl, _⟩ | ⟨hm, _⟩
    · have := h.a1 c hcm (hr ▸ hra); rwa [hcp, hcs] at this
    · exact h.a1 cn hm hra
  · exact h.stor
  · intro cn hcn hsa
    rcases mem_setC hcn with ⟨rfl, _⟩ | ⟨hm, _⟩
    · have := h.a2 c hcm (hs ▸ hsa); rwa [hcp, hcs] at this
    · exact h.a2 cn hm hsa
  · intro p P hP hex i s hi
    obtain ⟨cn0, h0, h1⟩ := h.a2c p P hP hex i s hi
    obtain ⟨cn, h2, h3⟩ := hgx2 _ _ cn0 h0
    exact ⟨cn, h2, h3 ▸ h1⟩
  · intro cn hcn
    rcases mem_setC hcn with ⟨rfl, _⟩ | ⟨hm, _⟩
    · rw [hs, hr]; exact h.a3 c hcm
    · exact h.a3 cn hm
  · intro cn hcn hsa P S hP hS hex hal
    rcases mem_setC hcn with ⟨rfl, _⟩ | ⟨hm, _⟩
    · refine hv hsa (h.virg c hcm (hs ▸ hsa) P S ?_ ?_ hex hal)
      · rwa [hcp]
      · rwa [hcs]
    · exact h.virg cn hm hsa P S hP hS hex hal
  · intro s S hS hal e he P hP hPa
    obtain ⟨cn0, h0⟩ := h.k2 s S hS hal e he P hP hPa
    obtain ⟨cn, h2, _⟩ := hgx2 _ _ cn0 h0
    exact ⟨cn, h2⟩
  · intro cn hcn S hS
    rcases mem_setC hcn with ⟨rfl, _⟩ | ⟨hm, _⟩
    · rw [hrecv]
      have := h.l3 c hcm S (by rwa [hcs])
      rwa [hcp] at this
    · exact h.l3 cn hm S hS
  · exact h.l4
  · intro cn hcn
    rcases mem_setC hcn with ⟨rfl, _⟩ | ⟨hm, _⟩
    · exact hlog
    · exact h.clog cn hm
  · exact h.gr

end Iox2.PubSub.C01P
