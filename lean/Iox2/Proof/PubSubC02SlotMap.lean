/-
C02 — the subscriber's connection storage (slot map) as a partial map.
-/
import Iox2.Proof.PubSubC02Defs

namespace Iox2.PubSub.C02P
open Iox2.PubSub
open Iox2.C16.SlotMapP (abs WInv)

theorem smGet_eq_abs (m : SlotMap.St Nat) (k : Nat) : smGet m k = abs m k := by
  unfold smGet
  rw [Iox2.C16.SlotMapP.get_w]
  simp only
  cases h : m.idxToData[k]? with
  | none => rw [Iox2.C16.SlotMapP.abs_oob h]
  | some v =>
    cases v with
    | none => rw [Iox2.C16.SlotMapP.abs_unused h]
    | some di =>
      rw [Iox2.C16.SlotMapP.abs_used h]
      cases hd : m.data.getD di none <;> simp only [hd]

theorem smRemove_spec {m : SlotMap.St Nat} (h : WInv m) (k : Nat) :
    WInv (smRemove m k) ∧ ∀ k', abs (smRemove m k) k' = if k' = k then none else abs m k' := by
  obtain ⟨m', h1, _, h3, h4, _, _⟩ := Iox2.C16.SlotMapP.remove_w m k h
  unfold smRemove
  rw [h1]
  exact ⟨h3, h4⟩

theorem smInsert_spec {m : SlotMap.St Nat} (h : WInv m) (e : Nat) :
    (∃ k m', smInsert m e = (m', some k) ∧ abs m k = none ∧ WInv m' ∧
      ∀ k', abs m' k' = if k' = k then some e else abs m k') ∨
    (∃ m', smInsert m e = (m', none)) := by
  rcases Iox2.C16.SlotMapP.insert_w m e h with ⟨k, m', h1, _, h3, _, _, h6, h7, _⟩ | ⟨_, h2, _⟩
  · left
    refine ⟨k, m', ?_, Iox2.C16.SlotMapP.abs_unused h3, h6, h7⟩
    unfold smInsert; rw [h1]
  · right
    exact ⟨m, by unfold smInsert; rw [h2]⟩

theorem abs_init_none (cap k : Nat) : abs (SlotMap.init (α := Nat) cap) k = none :=
  Iox2.C16.SlotMapP.abs_init cap k

theorem winv_init (cap : Nat) : WInv (SlotMap.init (α := Nat) cap) :=
  Iox2.C16.SlotMapP.winv_init cap

/-- the entries of the storage, as the iteration order of `connection_storage.iter()` -/
theorem mem_items_abs {m : SlotMap.St Nat} {k e : Nat} (h : (k, e) ∈ SlotMap.items m) :
    abs m k = some e := (Iox2.C16.SlotMapP.mem_items.mp h).2

end Iox2.PubSub.C02P
