/-
C06 Part B — the invariant is preserved by every step of an opener.
-/
import Iox2.Proof.ServiceLifeConcInvBase

namespace Iox2.ServiceLifeConc
open Iox2.Sched

theorem opener_pcs {t : Local} (hr : t.role = .opener) (hv : validPc t) :
    t.pc = 0 ∨ t.pc = 1 ∨ t.pc = 2 ∨ t.pc = 3 ∨ t.pc = 4 ∨ t.pc = 5 ∨ t.pc = 6 ∨ t.pc = 30 ∨ t.pc = 31 ∨
      t.pc = 99 := by
  simp only [validPc, hr] at hv; omega

theorem stage_opener {t : Local} (hr : t.role = .opener) : stage t = 0 := by
  simp [stage, hr]

theorem refOf_ne_zero {sh : Shared} {n : Nat} (h : refOf sh n ≠ 0) : ∃ r, r ∈ sh.refs ∧ r.1 = n := by
  unfold refOf at h
  cases hf : sh.refs.find? (fun r => r.1 == n) with
  | none => rw [hf] at h; exact absurd rfl h
  | some r =>
    refine ⟨r, List.mem_of_find?_eq_some hf, ?_⟩
    have := List.find?_some hf
    simpa using this

/-- an opener step that touches neither the configs nor the reference counts -/
theorem opener_frame {c : Cfg Shared Local} {i : Nat} {t t' : Local} {sh' : Shared}
    (h : Inv c) (ht : c.th[i]? = some t) (hr : t.role = .opener) (hr' : t'.role = .opener)
    (hB : TBase i t') (hS : TSeen c.sh t')
    (hst : sh'.static = c.sh.static) (hd : sh'.dyn = c.sh.dyn) (hrf : sh'.refs = c.sh.refs) :
    Inv { sh := sh', th := c.th.set i t' } :=
  frame_step h ht hB (hS.mono (ShLe.of_eq hst hd)) (by rw [stage_opener hr]; omega)
    (by rw [stage_opener hr']; omega) hst hd hrf

theorem opener_step_inv {c : Cfg Shared Local} {i : Nat} {t t' : Local} {sh' : Shared} {evs : List Ev}
    (h : Inv c) (ht : c.th[i]? = some t) (hr : t.role = .opener)
    (hst : openerStep c.sh t = some (sh', t', evs)) : Inv { sh := sh', th := c.th.set i t' } := by
  obtain ⟨hid, hv, hres, -, -⟩ := h.tbase ht
  obtain ⟨⟨a, b, c0, d, e⟩, f⟩ := h.tseen ht hr
  subst hid
  rcases opener_pcs hr hv with hpc | hpc | hpc | hpc | hpc | hpc | hpc | hpc | hpc | hpc
  · -- 0: dead-node scan
    have hres : t.res = none := by simpa [hpc] using hres
    simp [openerStep, hpc] at hst
    obtain ⟨rfl, rfl, -⟩ := hst
    refine opener_frame h ht hr hr (by simp [TBase, validPc, hr, hres]) ?_ rfl rfl rfl
    refine fun _ => ⟨⟨a, ?_, ?_, ?_, ?_⟩, ?_⟩ <;> simp [hasSeen, pastDyn, hres]
  · -- 1: is_service_available
    have hres : t.res = none := by simpa [hpc] using hres
    cases hs : c.sh.static with
    | none =>
      simp [openerStep, hpc, hs, finish] at hst
      obtain ⟨rfl, rfl, -⟩ := hst
      refine opener_frame h ht hr hr (by simp [TBase, validPc, hr]) ?_ rfl rfl rfl
      refine fun _ => ⟨⟨a, ?_, ?_, ?_, ?_⟩, ?_⟩ <;> simp [hasSeen, pastDyn]
    | some s =>
      cases hu : s.unlocked with
      | true =>
        simp [openerStep, hpc, hs, hu] at hst
        obtain ⟨rfl, rfl, -⟩ := hst
        refine opener_frame h ht hr hr (by simp [TBase, validPc, hr, hres]) ?_ rfl rfl rfl
        refine fun _ => ⟨⟨a, ?_, ?_, ?_, ?_⟩, ?_⟩ <;> simp [hasSeen, pastDyn, hres, hs, hu]
      | false =>
        by_cases hb : t.budget = 0
        · simp [openerStep, hpc, hs, hu, hb, finish] at hst
          obtain ⟨rfl, rfl, -⟩ := hst
          refine opener_frame h ht hr hr (by simp [TBase, validPc, hr]) ?_ rfl rfl rfl
          refine fun _ => ⟨⟨a, ?_, ?_, ?_, ?_⟩, ?_⟩ <;> simp [hasSeen, pastDyn]
        · simp [openerStep, hpc, hs, hu, hb] at hst
          obtain ⟨rfl, rfl, -⟩ := hst
          refine opener_frame h ht hr hr (by simp [TBase, validPc, hr, hres]) ?_ rfl rfl rfl
          refine fun _ => ⟨⟨a, ?_, ?_, ?_, ?_⟩, ?_⟩ <;> simp [hasSeen, pastDyn, hres]
  · -- 2: read the static config
    have hres : t.res = none := by simpa [hpc] using hres
    cases hs : c.sh.static with
    | none =>
      simp [openerStep, hpc, hs, finish] at hst
      obtain ⟨rfl, rfl, -⟩ := hst
      refine opener_frame h ht hr hr (by simp [TBase, validPc, hr]) ?_ rfl rfl rfl
      refine fun _ => ⟨⟨a, ?_, ?_, ?_, ?_⟩, ?_⟩ <;> simp [hasSeen, pastDyn]
    | some s =>
      cases hc : t.compatible with
      | false =>
        simp [openerStep, hpc, hs, hc, finish] at hst
        obtain ⟨rfl, rfl, -⟩ := hst
        refine opener_frame h ht hr hr (by simp [TBase, validPc, hr]) ?_ rfl rfl rfl
        refine fun _ => ⟨⟨a, ?_, ?_, ?_, ?_⟩, ?_⟩ <;> simp [hasSeen, pastDyn]
      | true =>
        simp [openerStep, hpc, hs, hc] at hst
        obtain ⟨rfl, rfl, -⟩ := hst
        obtain ⟨s0, hs0, hu0⟩ := f hpc
        rw [hs] at hs0
        cases hs0
        obtain ⟨t2, -, -, hw2, hu2⟩ := h.owner s hs
        have hw0 : s.written = true := by
          rw [hu0] at hu2
          have : 5 ≤ stage t2 := by simpa using hu2.symm
          rw [hw2]; simp; omega
        refine opener_frame h ht hr hr (by simp [TBase, validPc, hr, hres]) ?_ rfl rfl rfl
        refine fun _ => ⟨⟨?_, ?_, ?_, ?_, ?_⟩, ?_⟩ <;> simp [hasSeen, pastDyn, hres]
        exact ⟨s, hs, rfl, hw0, hu0⟩
  · -- 3: service tag
    have hres : t.res = none := by simpa [hpc] using hres
    simp [openerStep, hpc] at hst
    obtain ⟨rfl, rfl, -⟩ := hst
    refine opener_frame h ht hr (by simp [hr]) (by simp [TBase, validPc, hr, hres]) ?_ (by simp) (by simp) (by simp)
    refine fun _ => ⟨⟨by simpa using a, ?_, ?_, ?_, ?_⟩, ?_⟩ <;> simp [hasSeen, pastDyn, hres]
    exact b (Or.inl (by simp [hasSeen, hpc]))
  · -- 4: open the dynamic config
    have hres : t.res = none := by simpa [hpc] using hres
    have hb := b (Or.inl (by simp [hasSeen, hpc]))
    cases hdr : dynReady c.sh (t.seen.getD 0) with
    | true =>
      simp [openerStep, hpc, hdr] at hst
      obtain ⟨rfl, rfl, -⟩ := hst
      refine opener_frame h ht hr hr (by simp [TBase, validPc, hr, hres]) ?_ rfl rfl rfl
      refine fun _ => ⟨⟨a, ?_, ?_, ?_, ?_⟩, ?_⟩ <;> simp [hasSeen, pastDyn, hres, hb]
      exact hdr
    | false =>
      simp [openerStep, hpc, hdr] at hst
      obtain ⟨rfl, rfl, -⟩ := hst
      refine opener_frame h ht hr hr (by simp [TBase, validPc, hr, hres]) ?_ rfl rfl rfl
      refine fun _ => ⟨⟨a, ?_, ?_, ?_, ?_⟩, ?_⟩ <;> simp [hasSeen, pastDyn, hres, hb]
  · -- 5: node-local reference / registration
    have hres : t.res = none := by simpa [hpc] using hres
    have hb := b (Or.inl (by simp [hasSeen, hpc]))
    have hd := d (Or.inl (by simp [pastDyn, hpc]))
    have h0 : stage t < 3 := by rw [stage_opener hr]; omega
    by_cases hrf : refOf c.sh t.node = 0
    · cases hdy : c.sh.dyn with
      | none =>
        simp [openerStep, hpc, hrf, hdy] at hst
        obtain ⟨rfl, rfl, -⟩ := hst
        refine opener_frame h ht hr hr (by simp [TBase, validPc, hr, hres]) ?_ rfl rfl rfl
        refine fun _ => ⟨⟨a, ?_, ?_, ?_, ?_⟩, ?_⟩ <;> simp [hasSeen, pastDyn, hres, hb]
        exact hd
      | some dd =>
        by_cases hmx : c.sh.maxNodes ≤ dd.regs.length
        · simp [openerStep, hpc, hrf, hdy, hmx] at hst
          obtain ⟨rfl, rfl, -⟩ := hst
          refine opener_frame h ht hr hr (by simp [TBase, validPc, hr, hres]) ?_ rfl rfl rfl
          refine fun _ => ⟨⟨a, ?_, ?_, ?_, ?_⟩, ?_⟩ <;> simp [hasSeen, pastDyn, hres, hb]
          exact hd
        · simp [openerStep, hpc, hrf, hdy, hmx] at hst
          obtain ⟨rfl, rfl, -⟩ := hst
          have hle : ShLe c.sh (incRef { c.sh with dyn := some { dd with regs := t.node :: dd.regs } } t.node) :=
            ShLe.of_dyn (d' := { dd with regs := t.node :: dd.regs }) (by simp) hdy (by simp) rfl id
              (fun n hn => List.mem_cons_of_mem _ hn)
          obtain ⟨⟨a', -, -, d', -⟩, -⟩ := (h.tseen ht).mono hle hr
          have hd' := d' (Or.inl (by simp [pastDyn, hpc]))
          refine inv_of_parts h ht (by simp [TBase, validPc, hr, hres]) ?_ hle ?_ ?_
          · refine fun _ => ⟨⟨a', ?_, ?_, ?_, ?_⟩, ?_⟩ <;> simp [hasSeen, pastDyn, hres, hb]
            exact hd'
          · exact global_frame h.global ht h0 (by rw [stage_opener (by simp [hr])]; omega) (by simp)
              (Or.inr ⟨dd, t.node, hdy, by simp⟩)
          · refine RefsReg.incRef ?_ _ ⟨_, rfl, by simp⟩
            exact h.refsReg'.mono (ShLe.of_dyn (d' := { dd with regs := t.node :: dd.regs }) rfl hdy rfl rfl id
              (fun n hn => List.mem_cons_of_mem _ hn)) rfl
    · simp [openerStep, hpc, hrf] at hst
      obtain ⟨rfl, rfl, -⟩ := hst
      obtain ⟨r, hrm, hrn⟩ := refOf_ne_zero hrf
      have hreg := h.refsReg r hrm
      rw [hrn] at hreg
      have hle : ShLe c.sh (incRef c.sh t.node) := ShLe.of_eq (by simp) (by simp)
      refine inv_of_parts h ht (by simp [TBase, validPc, hr, hres]) ?_ hle ?_ (h.refsReg'.incRef _ hreg)
      · refine TSeen.mono ?_ hle
        refine fun _ => ⟨⟨a, ?_, ?_, ?_, ?_⟩, ?_⟩ <;> simp [hasSeen, pastDyn, hres, hb]
        · exact hd
        · exact hreg
      · exact global_frame h.global ht h0 (by rw [stage_opener (by simp [hr])]; omega) (by simp)
          (Or.inl (by simp))
  · -- 6: return
    have hb := b (Or.inl (by simp [hasSeen, hpc]))
    have hd := d (Or.inl (by simp [pastDyn, hpc]))
    have he := e (Or.inl hpc)
    simp [openerStep, hpc, finish] at hst
    obtain ⟨rfl, rfl, -⟩ := hst
    refine opener_frame h ht hr hr (by simp [TBase, validPc, hr]) ?_ rfl rfl rfl
    refine fun _ => ⟨⟨a, ?_, ?_, ?_, ?_⟩, ?_⟩ <;> simp [hasSeen, pastDyn, hb]
    · cases hsn : t.seen with
      | none => rw [hsn] at hb; cases hb
      | some o => simp
    · exact hd
    · exact he
  · -- 30: retry
    have hres : t.res = none := by simpa [hpc] using hres
    by_cases hbud : t.budget = 0
    · simp [openerStep, hpc, hbud, finish] at hst
      obtain ⟨rfl, rfl, -⟩ := hst
      refine opener_frame h ht hr (by simp [hr]) (by simp [TBase, validPc, hr]) ?_ (by simp) (by simp) (by simp)
      refine fun _ => ⟨⟨by simpa using a, ?_, ?_, ?_, ?_⟩, ?_⟩ <;> simp [hasSeen, pastDyn]
    · simp [openerStep, hpc, hbud] at hst
      obtain ⟨rfl, rfl, -⟩ := hst
      refine opener_frame h ht hr (by simp [hr]) (by simp [TBase, validPc, hr, hres]) ?_ (by simp) (by simp) (by simp)
      refine fun _ => ⟨⟨?_, ?_, ?_, ?_, ?_⟩, ?_⟩ <;> simp [hasSeen, pastDyn, hres]
  · -- 31: too many nodes
    simp [openerStep, hpc, finish] at hst
    obtain ⟨rfl, rfl, -⟩ := hst
    refine opener_frame h ht hr (by simp [hr]) (by simp [TBase, validPc, hr]) ?_ (by simp) (by simp) (by simp)
    refine fun _ => ⟨⟨by simpa using a, ?_, ?_, ?_, ?_⟩, ?_⟩ <;> simp [hasSeen, pastDyn]
  · -- 99: returned
    simp [openerStep, hpc] at hst

end Iox2.ServiceLifeConc
