/-
C08 helper: the global invariant of the publish-subscribe model.
-/
import Iox2.Proof.PubSubC08Frame
import Iox2.Proof.PubSubC08Sm
set_option linter.unusedSimpArgs false
namespace Iox2.PubSub.C08
open Iox2.PubSub
open Iox2.C16.SlotMapP (abs)

/-! ### vocabulary -/

/-- used bit of chunk `c` in connection `(p, s)` -/
def usedAt (w : World) (p s c : Nat) : Bool :=
  match getC w p s with
  | some cn => cn.used.getD c false
  | none => false

def slotRef (w : World) (p : Nat) (c : Nat) (sl : Option Nat) : Nat :=
  match sl with
  | some s => if usedAt w p s c then 1 else 0
  | none => 0

/-- number of connection slots of publisher `p` whose connection uses chunk `c` -/
def slotSum (w : World) (p : Nat) (slots : List (Option Nat)) (c : Nat) : Nat :=
  (slots.map (slotRef w p c)).sum

/-- chunks of publisher `p` held by the application of subscriber `S` -/
def heldChunks (S : Sub) (p : Nat) : List Nat := (S.held.filter (·.pid = p)).map (·.chunk)

/-- the chunks a connection accounts for -/
def connChunks (c : Conn) (S : Sub) : List Nat := c.sub.map (·.1) ++ heldChunks S c.pid ++ c.comp

/-! ### connection invariant -/

structure ConnOK (cfg : Cfg) (c : Conn) : Prop where
  cap1 : 1 ≤ c.cap
  capM : c.cap ≤ cfg.bufMax
  subLe : c.sub.length ≤ c.cap
  borLe : c.borrow ≤ cfg.borrowMax
  tot : c.sub.length + c.borrow + c.comp.length ≤ c.cap + cfg.borrowMax

structure ConnInv (cfg : Cfg) (w : World) (p s : Nat) (c : Conn) : Prop where
  ok : ConnOK cfg c
  hasP : ∃ P, getP w p = some P
  hasS : ∃ S, getS w s = some S
  held : ∀ S, getS w s = some S → c.borrow = (S.held.filter (·.pid = p)).length
  exact : c.sAtt = true → ∀ S, getS w s = some S →
    (connChunks c S).Nodup ∧ ∀ ch, c.used.getD ch false = true ↔ ch ∈ connChunks c S
  fresh : c.sAtt = false → ∀ P S, getP w p = some P → getS w s = some S → P.ex = true → S.alive = true →
    c.sub = [] ∧ c.comp = [] ∧ c.borrow = 0 ∧ ∀ ch, c.used.getD ch false = false
  inSlot : c.sAtt = true → ∃ P, getP w p = some P ∧ P.ex = true ∧ ∃ i : Nat, P.conns[i]? = some (some s)
  usedLen : ∀ P, getP w p = some P → c.used.length = P.n

def CInv (cfg : Cfg) (w : World) : Prop :=
  ∀ p s c, getC w p s = some c → ConnInv cfg w p s c

/-! ### publisher invariant -/

/-- slots of a publisher (every publisher) -/
structure SlotsOK (cfg : Cfg) (w : World) (p : Nat) (P : Pub) : Prop where
  connsLen : P.conns.length = cfg.maxSubs
  slotConn : ∀ (i s : Nat), P.conns[i]? = some (some s) → ∃ c, getC w p s = some c ∧ c.sAtt = true
  slotSlot : ∀ (i s : Nat), P.conns[i]? = some (some s) → ∃ S, getS w s = some S ∧ S.slot = i
  aliveEx : P.alive = true → P.ex = true

/-- reference counters and free list of the pool -/
structure FreeOK (P : Pub) : Prop where
  rcLen : P.rc.length = P.n
  freeNodup : P.free.Nodup
  freeRc : ∀ c ∈ P.free, c < P.n ∧ P.rc.getD c 0 = 0
  rcFree : ∀ c, c < P.n → P.rc.getD c 0 = 0 → c ∈ P.free

/-- memory of a live publisher; `xs` = chunks with an in-flight reference (a sample being sent);
`strict`: the in-flight chunks are referenced by nothing else yet -/
structure MemOK (cfg : Cfg) (w : World) (p : Nat) (P : Pub) (xs : List Nat) (strict : Bool) : Prop where
  fr : FreeOK P
  nEq : P.n = cfg.nChunks P.maxLoans
  rcEq : ∀ c, P.rc.getD c 0 =
    xs.count c + (P.loans.map (·.2)).count c + P.hist.count c + slotSum w p P.conns c
  loanCnt : P.loanCnt = P.loans.length + xs.length
  histLen : P.hist.length ≤ cfg.hist
  labels : (P.loans.map (·.1)).Nodup
  loanRc : ∀ lc ∈ P.loans, P.rc.getD lc.2 0 = 1
  xsRc : strict = true → ∀ c ∈ xs, P.rc.getD c 0 = 1
  histNodup : P.hist.Nodup

/-- `p0`, `xs`, `strict`: the publisher that is in the middle of a `send` -/
def PInvG (cfg : Cfg) (w : World) (p0 : Nat) (xs : List Nat) (strict : Bool) : Prop :=
  ∀ p P, getP w p = some P → SlotsOK cfg w p P ∧
    (P.alive = true → MemOK cfg w p P (if p = p0 then xs else []) strict)

def PInv (cfg : Cfg) (w : World) : Prop :=
  ∀ p P, getP w p = some P → SlotsOK cfg w p P ∧ (P.alive = true → MemOK cfg w p P [] false)

theorem PInv.toG {cfg : Cfg} {w : World} (h : PInv cfg w) (p0 : Nat) : PInvG cfg w p0 [] false := by
  intro p P hp
  obtain ⟨a, b⟩ := h p P hp
  exact ⟨a, fun ha => by simpa using b ha⟩
theorem PInvG.toPInv {cfg : Cfg} {w : World} {p0 : Nat} (h : PInvG cfg w p0 [] false) : PInv cfg w := by
  intro p P hp
  obtain ⟨a, b⟩ := h p P hp
  exact ⟨a, fun ha => by simpa using b ha⟩

/-! ### subscriber invariant -/

/-- `hole` = a connection slot whose entry is stale (between `prepare_connection_removal`
and the overwrite of the slot) -/
structure SubOK (cfg : Cfg) (w : World) (s : Nat) (S : Sub) (hole : Option Nat) : Prop where
  stI : SmInv S.storage
  connsLen : S.conns.length = cfg.maxPubs
  capEq : S.alive = true → S.storage.cap = S.tbrCap + cfg.maxPubs ∧ cfg.borrowMax ≤ S.tbrCap
  buf1 : 1 ≤ S.buffer
  bufM : S.buffer ≤ cfg.bufMax
  tbrNodup : S.tbr.Nodup
  tbrLen : S.tbr.length ≤ S.tbrCap
  tbrIn : ∀ k ∈ S.tbr, abs S.storage k ≠ none
  connKey : ∀ (i k : Nat), some i ≠ hole → S.conns[i]? = some (some k) → abs S.storage k ≠ none ∧ k ∉ S.tbr
  connInj : ∀ (i j k : Nat), some i ≠ hole → some j ≠ hole → S.conns[i]? = some (some k) →
    S.conns[j]? = some (some k) → i = j
  cover : ∀ k, abs S.storage k ≠ none → k ∈ S.tbr ∨ ∃ i : Nat, some i ≠ hole ∧ S.conns[i]? = some (some k)
  hasConn : ∀ k p, abs S.storage k = some p → ∃ c, getC w p s = some c ∧ c.rAtt = true
  pidInj : ∀ k1 k2 p, abs S.storage k1 = some p → abs S.storage k2 = some p → k1 = k2
  heldKey : ∀ h ∈ S.held, abs S.storage h.key = some h.pid
  tbrDead : ∀ k ∈ S.tbr, ∀ p P, abs S.storage k = some p → getP w p = some P → P.alive = false
  connSlot : ∀ (i k p : Nat), some i ≠ hole → S.conns[i]? = some (some k) → abs S.storage k = some p →
    ∃ P, getP w p = some P ∧ P.slot = i
  aliveEx : S.alive = true → S.ex = true

/-- `s0`, `hole`: the subscriber that is in the middle of a connection update -/
def SInvG (cfg : Cfg) (w : World) (s0 : Nat) (hole : Option Nat) : Prop :=
  ∀ s S, getS w s = some S → SubOK cfg w s S (if s = s0 then hole else none)

def SInv (cfg : Cfg) (w : World) : Prop :=
  ∀ s S, getS w s = some S → SubOK cfg w s S none

theorem SInv.toG {cfg : Cfg} {w : World} (h : SInv cfg w) (s0 : Nat) : SInvG cfg w s0 none := by
  intro s S hs
  simpa using h s S hs
theorem SInvG.toSInv {cfg : Cfg} {w : World} {s0 : Nat} (h : SInvG cfg w s0 none) : SInv cfg w := by
  intro s S hs
  simpa using h s S hs

/-! ### registries -/

/-- `xp` / `xs`: a port that is being created (alive, not yet registered) -/
structure RInv (cfg : Cfg) (w : World) (xp xs : Option Nat) : Prop where
  cfgEq : w.cfg = cfg
  pubLen : w.pubReg.slots.length = cfg.maxPubs
  subLen : w.subReg.slots.length = cfg.maxSubs
  rp1 : ∀ (i p : Nat), w.pubReg.slots[i]? = some (some p) → ∃ P, getP w p = some P ∧ P.alive = true ∧ P.slot = i
  rp2 : ∀ p P, getP w p = some P → P.alive = true → some p ≠ xp → w.pubReg.slots[P.slot]? = some (some p)
  rs1 : ∀ (i : Nat) (e : SubEntry), w.subReg.slots[i]? = some (some e) →
    ∃ S, getS w e.sid = some S ∧ S.alive = true ∧ S.slot = i ∧ e.buffer = S.buffer
  rs2 : ∀ s S, getS w s = some S → S.alive = true → some s ≠ xs →
    ∃ e, w.subReg.slots[S.slot]? = some (some e) ∧ e.sid = s

/-- connection keys are unique -/
def ConnsUniq (w : World) : Prop :=
  w.conns.Pairwise fun a b => ¬ (a.pid = b.pid ∧ a.sid = b.sid)

/-- invariant during publisher-side work -/
structure InvP (cfg : Cfg) (w : World) (xp : Option Nat) (p0 : Nat) (xs : List Nat) (strict : Bool) : Prop where
  r : RInv cfg w xp none
  c : CInv cfg w
  p : PInvG cfg w p0 xs strict
  s : SInv cfg w
  u : ConnsUniq w

/-- invariant during subscriber-side work -/
structure InvS (cfg : Cfg) (w : World) (xs : Option Nat) (s0 : Nat) (hole : Option Nat) : Prop where
  r : RInv cfg w none xs
  c : CInv cfg w
  p : PInv cfg w
  s : SInvG cfg w s0 hole
  u : ConnsUniq w

structure Inv (cfg : Cfg) (w : World) : Prop where
  r : RInv cfg w none none
  c : CInv cfg w
  p : PInv cfg w
  s : SInv cfg w
  u : ConnsUniq w

theorem Inv.toP {cfg : Cfg} {w : World} (h : Inv cfg w) (p0 : Nat) : InvP cfg w none p0 [] false :=
  ⟨h.r, h.c, h.p.toG p0, h.s, h.u⟩
theorem Inv.toS {cfg : Cfg} {w : World} (h : Inv cfg w) (s0 : Nat) : InvS cfg w none s0 none :=
  ⟨h.r, h.c, h.p, h.s.toG s0, h.u⟩
theorem InvP.toInv {cfg : Cfg} {w : World} {p0 : Nat} (h : InvP cfg w none p0 [] false) : Inv cfg w :=
  ⟨h.r, h.c, h.p.toPInv, h.s, h.u⟩
theorem InvS.toInv {cfg : Cfg} {w : World} {s0 : Nat} (h : InvS cfg w none s0 none) : Inv cfg w :=
  ⟨h.r, h.c, h.p, h.s.toSInv, h.u⟩

end Iox2.PubSub.C08
