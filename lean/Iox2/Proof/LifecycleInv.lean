/-
Invariant of the lifecycle system (all interleavings, all crash points): global facts `G` about the file
system in terms of the owner's progress (ghost `opc`, `odead`), per-process facts `L` in terms of the
program counter, and the guarantee `Guar` every step gives to the other processes (rely / guarantee).
-/
import Iox2.Model.Lifecycle
namespace Iox2.Lifecycle
open Iox2.Sched

/-! ### vocabulary -/

/-- facts about the file system that hold in every reachable state -/
structure G (fs : FS) : Prop where
  opcLe : fs.opc ≤ 33
  stLock : fs.st.lock = none ∨ fs.st.lock = some 0
  stLockOwner : fs.st.lock = some 0 → fs.odead = false ∧ 14 ≤ fs.opc ∧ fs.opc ≤ 25
  stLocked : fs.odead = false → 14 ≤ fs.opc → fs.opc ≤ 25 → fs.st.lock = some 0
  ctxFinal : fs.ctx.perm = .final → 17 ≤ fs.opc
  ctxFinal' : 17 ≤ fs.opc → fs.ctx.perm = .final
  stLinked : fs.st.linked = true → 9 ≤ fs.opc ∧ fs.opc ≤ 24
  stLinked' : fs.odead = false → 9 ≤ fs.opc → fs.opc ≤ 24 → fs.st.linked = true
  olLinked : fs.ol.linked = true → 11 ≤ fs.opc ∧ fs.opc ≤ 27
  olLinked' : fs.odead = false → 11 ≤ fs.opc → fs.opc ≤ 27 → fs.ol.linked = true
  ctxLinked : fs.ctx.linked = true → 7 ≤ fs.opc ∧ fs.opc ≤ 30
  ctxLinked' : fs.odead = false → 7 ≤ fs.opc → fs.opc ≤ 30 → fs.ctx.linked = true
  order : 17 ≤ fs.opc → fs.st.linked = true → fs.ol.linked = true ∧ fs.ctx.linked = true
  olLock : ∀ p, fs.ol.lock = some p → fs.odead = true ∧ p ≠ 0
  ctxPid : 13 ≤ fs.opc → fs.ctxPid = some 0
  detFinal : 6 ≤ fs.opc → fs.det.perm = .final
  detDir : fs.det.linked = true → fs.dir = true
  tagDir : 0 < fs.tags + fs.tagsInit → fs.dir = true
  dirLive : fs.odead = false → 1 ≤ fs.opc → fs.opc ≤ 22 → fs.dir = true

/-- facts about one (live) process in terms of its program counter -/
structure L (fs : FS) (t : Th) : Prop where
  role : t.role = .owner ↔ t.pid = 0
  -- owner
  oAlive : t.role = .owner → fs.odead = false
  oPc : t.role = .owner → fs.opc = phaseOf t.pc ∧ t.pc ≤ 33
  -- monitor, cleaner: the two `state()` queries (monitor: pc 2..10; cleaner: 2..10 and 11..19)
  qFinal : t.role ≠ .owner → ((4 ≤ t.pc ∧ t.pc ≤ 10) ∨ (13 ≤ t.pc ∧ t.pc ≤ 19)) → 17 ≤ fs.opc
  qOl : t.role ≠ .owner → (t.pc = 9 ∨ t.pc = 18) → fs.ol.linked = false
  rawDead : t.role = .monitor → t.raw = some .dead → fs.odead = false → 26 ≤ fs.opc
  rawCleaning : t.role = .monitor → t.raw = some .cleaningUp → fs.odead = false → 25 ≤ fs.opc
  rawErr : t.raw ≠ some .corrupted ∧ t.raw ≠ some .ctxUnreadable
  rawAliveM : t.role = .monitor → t.listed = some .alive → t.raw = some .alive
  -- cleaner
  cDead : t.role = .cleaner → 11 ≤ t.pc → t.pc ≤ 43 → 17 ≤ fs.opc ∧ (fs.odead = false → 25 ≤ fs.opc)
  cOwnerDead : t.role = .cleaner → (t.pc = 19 ∨ (20 ≤ t.pc ∧ t.pc ≤ 43)) → fs.odead = true
  cHolds : t.role = .cleaner → ((25 ≤ t.pc ∧ t.pc ≤ 36) ∨ (40 ≤ t.pc ∧ t.pc ≤ 41)) → fs.ol.lock = some t.pid
  cStGone : t.role = .cleaner → 33 ≤ t.pc → t.pc ≤ 39 → fs.st.linked = false
  cNoPanic : t.res ≠ some .panicStillAlive
  cOk : t.res = some .ok → fs.odead = true

/-- what a step (or the death) of process `pid` guarantees to all other processes -/
structure Guar (fs fs' : FS) (pid : Nat) : Prop where
  opcMono : fs.opc ≤ fs'.opc
  odeadMono : fs.odead = true → fs'.odead = true
  olLock : ∀ p, p ≠ pid → fs.ol.lock = some p → fs'.ol.lock = some p
  stGone : fs.st.linked = false → 17 ≤ fs.opc → fs'.st.linked = false
  olGone : fs.ol.linked = false → 17 ≤ fs.opc → fs'.ol.linked = false
  /-- an owner-lock lock that is there afterwards was there before, or is the stepping process's own -/
  olNew : ∀ p, fs'.ol.lock = some p → p = pid ∨ fs.ol.lock = some p

theorem Guar.refl (fs : FS) (pid : Nat) : Guar fs fs pid :=
  ⟨Nat.le_refl _, id, fun _ _ h => h, fun h _ => h, fun h _ => h, fun _ h => Or.inr h⟩

/-- the other processes' facts survive a step that keeps its guarantee -/
theorem L.stable {fs fs' : FS} {u : Th} {pid : Nat} (hu : L fs u) (hg : Guar fs fs' pid) (hne : u.pid ≠ pid)
    (hown : u.role = .owner → fs'.opc = fs.opc ∧ fs'.odead = fs.odead) : L fs' u := by
  have hm := hg.opcMono
  refine ⟨hu.role, ?_, ?_, ?_, ?_, ?_, ?_, hu.rawErr, hu.rawAliveM, ?_, ?_, ?_, ?_, hu.cNoPanic, ?_⟩
  · intro h; rw [(hown h).2]; exact hu.oAlive h
  · intro h; rw [(hown h).1]; exact hu.oPc h
  · intro h1 h2; have := hu.qFinal h1 h2; omega
  · intro h1 h2; exact hg.olGone (hu.qOl h1 h2) (hu.qFinal h1 (by omega))
  · intro h1 h2 h3
    have : fs.odead = false := by
      cases h : fs.odead with
      | false => rfl
      | true => rw [hg.odeadMono h] at h3; cases h3
    have := hu.rawDead h1 h2 this; omega
  · intro h1 h2 h3
    have : fs.odead = false := by
      cases h : fs.odead with
      | false => rfl
      | true => rw [hg.odeadMono h] at h3; cases h3
    have := hu.rawCleaning h1 h2 this; omega
  · intro h1 h2 h3
    have := hu.cDead h1 h2 h3
    refine ⟨by omega, fun h4 => ?_⟩
    have : fs.odead = false := by
      cases h : fs.odead with
      | false => rfl
      | true => rw [hg.odeadMono h] at h4; cases h4
    have := this |> (hu.cDead h1 h2 h3).2; omega
  · intro h1 h2; exact hg.odeadMono (hu.cOwnerDead h1 h2)
  · intro h1 h2; exact hg.olLock _ hne (hu.cHolds h1 h2)
  · intro h1 h2 h3; exact hg.stGone (hu.cStGone h1 h2 h3) (hu.cDead h1 (by omega) (by omega)).1
  · intro h; exact hg.odeadMono (hu.cOk h)

/-! ### small facts -/

theorem File.closeBy_lock_ne {f : File} {pid p : Nat} (h : p ≠ pid) (hl : f.lock = some p) : (f.closeBy pid).lock = some p := by
  unfold File.closeBy
  split
  · rename_i h'; rw [hl] at h'; cases h'; exact absurd rfl h
  · exact hl

theorem File.closeBy_linked (f : File) (pid : Nat) : (f.closeBy pid).linked = f.linked := by
  unfold File.closeBy; split <;> rfl

theorem File.closeBy_perm (f : File) (pid : Nat) : (f.closeBy pid).perm = f.perm := by
  unfold File.closeBy; split <;> rfl

theorem File.closeBy_lock_cases (f : File) (pid : Nat) :
    ((f.closeBy pid).lock = none ∧ f.lock = some pid) ∨ ((f.closeBy pid).lock = f.lock ∧ f.lock ≠ some pid) := by
  unfold File.closeBy
  split
  · left; exact ⟨rfl, by assumption⟩
  · right; exact ⟨rfl, by assumption⟩

theorem lockedByOther_iff (f : File) (pid : Nat) : f.lockedByOther pid = true ↔ ∃ p, f.lock = some p ∧ p ≠ pid := by
  unfold File.lockedByOther
  cases h : f.lock with
  | none => simp
  | some p => simp

theorem phaseOf_le (pc : Nat) : phaseOf pc ≤ pc := by
  unfold phaseOf; split <;> omega

theorem phaseOf_of_ne {pc : Nat} (h : pc ≠ 18) : phaseOf pc = pc := by
  unfold phaseOf; simp [h]

end Iox2.Lifecycle
