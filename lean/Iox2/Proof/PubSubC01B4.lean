/-
Layer B: the publisher's pool bookkeeping (`release_chunk`, `borrow_chunk`, draining a completion
queue, releasing all used chunks of a connection).
-/
import Iox2.Proof.PubSubC01B3
namespace Iox2.PubSub.C01P
open Iox2.PubSub

def b2n (b : Bool) : Nat := if b then 1 else 0

/-- a chunk is loanable exactly when its counter is zero -/
def FreeOK (P : Pub) : Prop := P.free.Nodup ∧ ∀ c, c ∈ P.free ↔ (c < P.n ∧ P.rc.getD c 0 = 0)

/-- only `rc` and `free` differ -/
def RcFreeOnly (P P' : Pub) : Prop := P' = { P with rc := P'.rc, free := P'.free }

theorem RcFreeOnly.refl (P : Pub) : RcFreeOnly P P := rfl
theorem RcFreeOnly.trans {P P' P'' : Pub} (a : RcFreeOnly P P') (b : RcFreeOnly P' P'') : RcFreeOnly P P'' := by
  unfold RcFreeOnly at *
  rw [b, a]

theorem getD_set_nat (l : List Nat) (i j v : Nat) :
    (l.set i v).getD j 0 = if i = j ∧ i < l.length then v else l.getD j 0 := by
  simp only [List.getD_eq_getElem?_getD, List.getElem?_set]
  by_cases hij : i = j
  · subst hij
    by_cases hlt : i < l.length
    · simp [hlt]
    · simp [hlt]
  · simp [hij]

theorem getD_set_bool (l : List Bool) (i j : Nat) (v : Bool) :
    (l.set i v).getD j false = if i = j ∧ i < l.length then v else l.getD j false := by
  simp only [List.getD_eq_getElem?_getD, List.getElem?_set]
  by_cases hij : i = j
  · subst hij
    by_cases hlt : i < l.length
    · simp [hlt]
    · simp [hlt]
  · simp [hij]

theorem getD_true_lt {l : List Bool} {i : Nat} (h : l.getD i false = true) : i < l.length := by
  rw [List.getD_eq_getElem?_getD] at h
  cases Nat.lt_or_ge i l.length with
  | inl hlt => exact hlt
  | inr hge =>
    rw [List.getElem?_eq_none hge] at h
    simp at h

theorem release_ok {P : Pub} {x : Nat} (hlen : P.rc.length = P.n) (hf : FreeOK P) (hx : x < P.n)
    (h1 : 1 ≤ P.rc.getD x 0) :
    FreeOK (P.releaseChunk x) ∧ (P.releaseChunk x).rc.length = P.n ∧
    (∀ y, (P.releaseChunk x).rc.getD y 0 = if y = x then P.rc.getD x 0 - 1 else P.rc.getD y 0) ∧
    RcFreeOnly P (P.releaseChunk x) := by
  obtain ⟨hnd, hmem⟩ := hf
  have hrc : ∀ y, (P.rc.set x (P.rc.getD x 0 - 1)).getD y 0 = if y = x then P.rc.getD x 0 - 1 else P.rc.getD y 0 := by
    intro y
    rw [getD_set_nat]
    by_cases hyx : y = x
    · subst hyx; simp [hlen, hx]
    · have : ¬ x = y := fun h => hyx h.symm
      simp [hyx, this]
  unfold Pub.releaseChunk
  simp only
  by_cases h2 : P.rc.getD x 0 = 1
  · rw [if_pos h2]
    refine ⟨⟨?_, ?_⟩, by simp [hlen], hrc, rfl⟩
    · show (x :: P.free).Nodup
      rw [List.nodup_cons]
      refine ⟨fun hxf => ?_, hnd⟩
      have := ((hmem x).mp hxf).2
      omega
    · intro c
      show c ∈ x :: P.free ↔ c < P.n ∧ (P.rc.set x (P.rc.getD x 0 - 1)).getD c 0 = 0
      rw [hrc c, List.mem_cons]
      by_cases hcx : c = x
      · subst hcx
        simp only [if_true, true_or, true_iff]
        exact ⟨hx, by omega⟩
      · simp only [hcx, if_false, false_or]; exact hmem c
  · rw [if_neg h2]
    refine ⟨⟨hnd, ?_⟩, by simp [hlen], hrc, rfl⟩
    intro c
    show c ∈ P.free ↔ c < P.n ∧ (P.rc.set x (P.rc.getD x 0 - 1)).getD c 0 = 0
    rw [hrc c]
    by_cases hcx : c = x
    · subst hcx
      simp only [if_true]
      constructor
      · intro hh; have := ((hmem c).mp hh).2; omega
      · intro hh; omega
    · simp only [hcx, if_false]; exact hmem c

theorem borrow_ok {P : Pub} {x : Nat} (hlen : P.rc.length = P.n) (hf : FreeOK P) (hx : x < P.n)
    (h1 : 1 ≤ P.rc.getD x 0) :
    FreeOK (P.borrowChunk x) ∧ (P.borrowChunk x).rc.length = P.n ∧
    (∀ y, (P.borrowChunk x).rc.getD y 0 = if y = x then P.rc.getD x 0 + 1 else P.rc.getD y 0) ∧
    RcFreeOnly P (P.borrowChunk x) := by
  obtain ⟨hnd, hmem⟩ := hf
  have hrc : ∀ y, (P.rc.set x (P.rc.getD x 0 + 1)).getD y 0 = if y = x then P.rc.getD x 0 + 1 else P.rc.getD y 0 := by
    intro y
    rw [getD_set_nat]
    by_cases hyx : y = x
    · subst hyx; simp [hlen, hx]
    · have : ¬ x = y := fun h => hyx h.symm
      simp [hyx, this]
  unfold Pub.borrowChunk
  refine ⟨⟨hnd, ?_⟩, by simp [hlen], hrc, rfl⟩
  intro c
  show c ∈ P.free ↔ c < P.n ∧ (P.rc.set x (P.rc.getD x 0 + 1)).getD c 0 = 0
  rw [hrc c]
  by_cases hcx : c = x
  · subst hcx
    simp only [if_true]
    constructor
    · intro hh; have := ((hmem c).mp hh).2; omega
    · intro hh; omega
  · simp only [hcx, if_false]; exact hmem c

/-- draining a completion queue: `K x` = the references to `x` that do not come from this connection -/
theorem drainComp_inv (K : Nat → Nat) (comp : List Nat) (P : Pub) (used : List Bool) (hlen : P.rc.length = P.n)
    (hul : used.length = P.n) (hf : FreeOK P)
    (hk : ∀ x, x < P.n → P.rc.getD x 0 = K x + b2n (used.getD x false)) :
    FreeOK (drainComp P used comp).1 ∧ (drainComp P used comp).1.rc.length = P.n ∧
    (drainComp P used comp).2.length = P.n ∧
    (∀ x, x < P.n → (drainComp P used comp).1.rc.getD x 0 = K x + b2n ((drainComp P used comp).2.getD x false)) ∧
    (∀ x, (drainComp P used comp).2.getD x false = true → used.getD x false = true) ∧
    (∀ x ∈ comp, (drainComp P used comp).2.getD x false = false) ∧
    (∀ x, x ∉ comp → (drainComp P used comp).2.getD x false = used.getD x false) ∧
    RcFreeOnly P (drainComp P used comp).1 := by
  induction comp generalizing P used with
  | nil =>
    refine ⟨hf, hlen, hul, hk, fun _ h => h, ?_, fun _ _ => rfl, RcFreeOnly.refl P⟩
    intro x hx
    cases hx
  | cons c r ih =>
    unfold drainComp
    by_cases hc : used.getD c false = true
    · rw [if_pos hc]
      have hcn : c < P.n := hul ▸ getD_true_lt hc
      have hrc1 : 1 ≤ P.rc.getD c 0 := by
        rw [hk c hcn, hc]; simp [b2n]
      obtain ⟨f1, l1, r1, o1⟩ := release_ok hlen hf hcn hrc1
      have hn1 : (P.releaseChunk c).n = P.n := by rw [o1]
      have hu1 : ∀ y, (used.set c false).getD y false = if y = c then false else used.getD y false := by
        intro y
        rw [getD_set_bool]
        by_cases hyc : y = c
        · subst hyc; simp [hul, hcn]
        · have : ¬ c = y := fun h => hyc h.symm
          simp [hyc, this]
      have := ih (P.releaseChunk c) (used.set c false) (by rw [hn1]; exact l1) (by simp [hul, hn1])
        (by exact f1) (by
          intro x hx
          rw [hn1] at hx
          rw [r1 x, hu1 x]
          by_cases hxc : x = c
          · subst hxc
            rw [if_pos rfl, if_pos rfl, hk x hx, hc]; simp [b2n]
          · rw [if_neg hxc, if_neg hxc]; exact hk x hx)
      rw [hn1] at this
      obtain ⟨a1, a2, a3, a4, a5, a6, a7, a8⟩ := this
      refine ⟨a1, a2, a3, a4, ?_, ?_, ?_, o1.trans a8⟩
      · intro x hx
        have := a5 x hx
        rw [hu1] at this
        by_cases hxc : x = c
        · rw [if_pos hxc] at this; cases this
        · rw [if_neg hxc] at this; exact this
      · intro x hx
        rcases List.mem_cons.mp hx with rfl | hx
        · cases hh : (drainComp (P.releaseChunk x) (used.set x false) r).2.getD x false with
          | false => rfl
          | true =>
            have := a5 x hh
            rw [hu1, if_pos rfl] at this; cases this
        · exact a6 x hx
      · intro x hx
        have hxc : x ≠ c := fun h => hx (by simp [h])
        have hxr : x ∉ r := fun h => hx (List.mem_cons_of_mem _ h)
        rw [a7 x hxr, hu1, if_neg hxc]
    · rw [if_neg hc]
      obtain ⟨a1, a2, a3, a4, a5, a6, a7, a8⟩ := ih P used hlen hul hf hk
      refine ⟨a1, a2, a3, a4, a5, ?_, ?_, a8⟩
      · intro x hx
        rcases List.mem_cons.mp hx with rfl | hx
        · cases hh : (drainComp P used r).2.getD x false with
          | false => rfl
          | true => exact absurd (a5 x hh) hc
        · exact a6 x hx
      · intro x hx
        exact a7 x (fun h => hx (List.mem_cons_of_mem _ h))

/-- releasing everything a connection holds -/
theorem releaseAllUsed_inv (K : Nat → Nat) (used : List Bool) (k : Nat) (P : Pub) (hlen : P.rc.length = P.n)
    (hul : used.length = P.n) (hf : FreeOK P)
    (hk : ∀ x, x < P.n → P.rc.getD x 0 = K x + b2n (used.getD x false)) :
    FreeOK (releaseAllUsed P used k) ∧ (releaseAllUsed P used k).rc.length = P.n ∧
    (∀ x, x < P.n → (releaseAllUsed P used k).rc.getD x 0 = K x + (if x < k then 0 else b2n (used.getD x false))) ∧
    RcFreeOnly P (releaseAllUsed P used k) := by
  induction k with
  | zero =>
    refine ⟨hf, hlen, fun x hx => ?_, RcFreeOnly.refl P⟩
    show P.rc.getD x 0 = _
    rw [hk x hx]; simp
  | succ k ih =>
    obtain ⟨a1, a2, a3, a4⟩ := ih
    unfold releaseAllUsed
    simp only
    have hn1 : (releaseAllUsed P used k).n = P.n := by rw [a4]
    by_cases hc : used.getD k false = true
    · rw [if_pos hc]
      have hkn : k < P.n := hul ▸ getD_true_lt hc
      have hrc1 : 1 ≤ (releaseAllUsed P used k).rc.getD k 0 := by
        rw [a3 k hkn, hc]; simp [b2n]
      obtain ⟨f1, l1, r1, o1⟩ := release_ok (by rw [hn1]; exact a2) a1 (by rw [hn1]; exact hkn) hrc1
      refine ⟨f1, by rw [l1, hn1], ?_, a4.trans o1⟩
      intro x hx
      rw [r1 x]
      by_cases hxk : x = k
      · subst hxk
        rw [if_pos rfl, a3 x hx, hc]
        simp [b2n]
      · rw [if_neg hxk, a3 x hx]
        by_cases h1 : x < k
        · have : x < k + 1 := by omega
          simp [h1, this]
        · have : ¬ x < k + 1 := by omega
          simp [h1, this]
    · rw [if_neg hc]
      refine ⟨a1, a2, ?_, a4⟩
      intro x hx
      rw [a3 x hx]
      by_cases hxk : x = k
      · subst hxk
        have : used.getD x false = false := by
          cases hh : used.getD x false with
          | false => rfl
          | true => exact absurd hh hc
        rw [this]
        simp [b2n]
      · by_cases h1 : x < k
        · have : x < k + 1 := by omega
          simp [h1, this]
        · have : ¬ x < k + 1 := by omega
          simp [h1, this]

end Iox2.PubSub.C01P
