/-
C06 Part B — the invariant is preserved by every step of a creator.
-/
import Iox2.Proof.ServiceLifeConcInvBase

namespace Iox2.ServiceLifeConc
open Iox2.Sched

theorem creator_pcs {t : Local} (hr : t.role = .creator) (hv : validPc t) :
    t.pc = 0 ∨ t.pc = 1 ∨ t.pc = 2 ∨ t.pc = 3 ∨ t.pc = 4 ∨ t.pc = 5 ∨ t.pc = 6 ∨ t.pc = 7 ∨ t.pc = 8 ∨
      t.pc = 9 ∨ t.pc = 10 ∨ t.pc = 20 ∨ t.pc = 99 := by
  simp only [validPc, hr] at hv; omega

theorem creator_step_inv {c : Cfg Shared Local} {i : Nat} {t t' : Local} {sh' : Shared} {evs : List Ev}
    (h : Inv c) (ht : c.th[i]? = some t) (hr : t.role = .creator)
    (hst : creatorStep c.sh t = some (sh', t', evs)) : Inv { sh := sh', th := c.th.set i t' } := by
  obtain ⟨hid, hv, hres, -, -⟩ := h.tbase ht
  subst hid
  rcases creator_pcs hr hv with hpc | hpc | hpc | hpc | hpc | hpc | hpc | hpc | hpc | hpc | hpc | hpc | hpc
  · -- 0: is_service_available
    have hres : t.res = none := by simpa [hpc] using hres
    have h0 : stage t = 0 := by simp [stage, hr, hpc, hres]
    cases hs : c.sh.static with
    | none =>
      simp [creatorStep, hpc, hs] at hst
      obtain ⟨rfl, rfl, -⟩ := hst
      exact frame_step h ht (by simp [TBase, validPc, hr, hres]) (tseen_creator hr) (by omega)
        (by simp [stage, hr, hres]) rfl rfl rfl
    | some s =>
      simp [creatorStep, hpc, hs, finish] at hst
      obtain ⟨rfl, rfl, -⟩ := hst
      exact frame_step h ht (by simp [TBase, validPc, hr]) (tseen_creator hr) (by omega)
        (by simp [stage, hr]) rfl rfl rfl
  · -- 1: service tag
    have hres : t.res = none := by simpa [hpc] using hres
    have h0 : stage t = 0 := by simp [stage, hr, hpc, hres]
    simp [creatorStep, hpc] at hst
    obtain ⟨rfl, rfl, -⟩ := hst
    exact frame_step h ht (by simp [TBase, validPc, hr, hres]) (tseen_creator (by simp [hr])) (by omega)
      (by simp [stage, hr, hres]) (by simp) (by simp) (by simp)
  · -- 2: O_EXCL on the static config
    have hres : t.res = none := by simpa [hpc] using hres
    have h0 : stage t = 0 := by simp [stage, hr, hpc, hres]
    cases hs : c.sh.static with
    | none =>
      obtain ⟨hdn, hoth⟩ := h.static_none hs
      simp [creatorStep, hpc, hs] at hst
      obtain ⟨rfl, rfl, -⟩ := hst
      refine inv_of_parts' h ht (by simp [TBase, validPc, hr, hres]) (tseen_creator hr) (ShLe.of_none hs hdn) ?_ rfl
      refine global_owner ht (fun j tj hj _ => hoth j tj hj) _ rfl rfl (by simp [stage, hr])
        (by simp [stage, hr]) (by simp [stage, hr]) ?_ (by simp [stage, hr])
      intro d' hd'
      simp [hdn] at hd'
    | some s =>
      simp [creatorStep, hpc, hs] at hst
      obtain ⟨rfl, rfl, -⟩ := hst
      exact frame_step h ht (by simp [TBase, validPc, hr, hres]) (tseen_creator hr) (by omega)
        (by simp [stage, hr, hres]) rfl rfl rfl
  · -- 3: write the static config
    have hres : t.res = none := by simpa [hpc] using hres
    have hk : stage t = 3 := by simp [stage, hr, hpc]
    obtain ⟨s, hs, hso, hw, hu⟩ := h.ownerView ht (by omega)
    have hdn := h.dyn_none ht (by omega) (by omega)
    rw [hk] at hw hu
    simp at hw hu
    obtain ⟨so, sw, su⟩ := s
    simp only at hso hw hu
    subst hso hw hu
    simp [creatorStep, hpc, hs] at hst
    obtain ⟨rfl, rfl, -⟩ := hst
    refine inv_of_parts' h ht (by simp [TBase, validPc, hr, hres]) (tseen_creator hr)
      (ShLe.of_static hs rfl rfl (by simp) (by simp) rfl) ?_ rfl
    refine global_owner ht (h.others ht (by omega)) _ rfl rfl (by simp [stage, hr])
      (by simp [stage, hr]) (by simp [stage, hr]) ?_ (by simp [stage, hr])
    intro d' hd'
    simp [hdn] at hd'
  · -- 4: unlock the static config
    have hres : t.res = none := by simpa [hpc] using hres
    have hk : stage t = 4 := by simp [stage, hr, hpc]
    obtain ⟨s, hs, hso, hw, hu⟩ := h.ownerView ht (by omega)
    have hdn := h.dyn_none ht (by omega) (by omega)
    rw [hk] at hw hu
    simp at hw hu
    obtain ⟨so, sw, su⟩ := s
    simp only at hso hw hu
    subst hso hw hu
    simp [creatorStep, hpc, hs] at hst
    obtain ⟨rfl, rfl, -⟩ := hst
    refine inv_of_parts' h ht (by simp [TBase, validPc, hr, hres]) (tseen_creator hr)
      (ShLe.of_static hs rfl rfl (by simp) (by simp) rfl) ?_ rfl
    refine global_owner ht (h.others ht (by omega)) _ rfl rfl (by simp [stage, hr])
      (by simp [stage, hr]) (by simp [stage, hr]) ?_ (by simp [stage, hr])
    intro d' hd'
    simp [hdn] at hd'
  · -- 5: O_EXCL on the dynamic config (cannot fail)
    have hres : t.res = none := by simpa [hpc] using hres
    have hk : stage t = 5 := by simp [stage, hr, hpc]
    obtain ⟨s, hs, hso, hw, hu⟩ := h.ownerView ht (by omega)
    have hdn := h.dyn_none ht (by omega) (by omega)
    rw [hk] at hw hu
    simp at hw hu
    simp [creatorStep, hpc, hdn] at hst
    obtain ⟨rfl, rfl, -⟩ := hst
    refine inv_of_parts' h ht (by simp [TBase, validPc, hr, hres]) (tseen_creator hr)
      (ShLe.of_none_dyn rfl hdn) ?_ rfl
    refine global_owner ht (h.others ht (by omega)) s hs hso (by simp [stage, hr])
      (by simp [stage, hr, hw]) (by simp [stage, hr, hu]) ?_ (by simp)
    intro d' hd'
    simp at hd'
    subst hd'
    simp [stage, hr]
  · -- 6: size the dynamic config
    have hres : t.res = none := by simpa [hpc] using hres
    have hk : stage t = 6 := by simp [stage, hr, hpc]
    obtain ⟨s, hs, hso, hw, hu⟩ := h.ownerView ht (by omega)
    obtain ⟨d, hd, hdo, h1, h2, h3, h4, h5⟩ := h.dynView ht (by omega)
    rw [hk] at hw hu h1 h2 h3 h4
    simp at hw hu h1 h2 h3 h4
    simp [creatorStep, hpc, hd, hdo] at hst
    obtain ⟨rfl, rfl, -⟩ := hst
    refine inv_of_parts' h ht (by simp [TBase, validPc, hr, hres]) (tseen_creator hr)
      (ShLe.of_dyn rfl hd rfl (by simp [hdo]) (by simp) (by simp)) ?_ rfl
    refine global_owner ht (h.others ht (by omega)) s hs hso (by simp [stage, hr])
      (by simp [stage, hr, hw]) (by simp [stage, hr, hu]) ?_ (by simp)
    intro d' hd'
    simp at hd'
    subst hd'
    simp [stage, hr, h2, h3, h4]
  · -- 7: initialise the dynamic config, register the creator's node
    have hres : t.res = none := by simpa [hpc] using hres
    have hk : stage t = 7 := by simp [stage, hr, hpc]
    obtain ⟨s, hs, hso, hw, hu⟩ := h.ownerView ht (by omega)
    obtain ⟨d, hd, hdo, h1, h2, h3, h4, h5⟩ := h.dynView ht (by omega)
    rw [hk] at hw hu h1 h2 h3 h4
    simp at hw hu h1 h2 h3 h4
    simp [creatorStep, hpc, hd, hdo] at hst
    obtain ⟨rfl, rfl, -⟩ := hst
    refine inv_of_parts' h ht (by simp [TBase, validPc, hr, hres]) (tseen_creator hr)
      (ShLe.of_dyn rfl hd rfl (by simp [hdo]) (by simp) (by simp; intro n hn; exact Or.inr hn)) ?_ rfl
    refine global_owner ht (h.others ht (by omega)) s hs hso (by simp [stage, hr])
      (by simp [stage, hr, hw]) (by simp [stage, hr, hu]) ?_ (by simp)
    intro d' hd'
    simp at hd'
    subst hd'
    simp [stage, hr, h1, h3, h4]
  · -- 8: version
    have hres : t.res = none := by simpa [hpc] using hres
    have hk : stage t = 8 := by simp [stage, hr, hpc]
    obtain ⟨s, hs, hso, hw, hu⟩ := h.ownerView ht (by omega)
    obtain ⟨d, hd, hdo, h1, h2, h3, h4, h5⟩ := h.dynView ht (by omega)
    rw [hk] at hw hu h1 h2 h3 h4 h5
    simp at hw hu h1 h2 h3 h4 h5
    simp [creatorStep, hpc, hd, hdo] at hst
    obtain ⟨rfl, rfl, -⟩ := hst
    refine inv_of_parts' h ht (by simp [TBase, validPc, hr, hres]) (tseen_creator hr)
      (ShLe.of_dyn rfl hd rfl (by simp [hdo]) (by simp) (by simp)) ?_ rfl
    refine global_owner ht (h.others ht (by omega)) s hs hso (by simp [stage, hr])
      (by simp [stage, hr, hw]) (by simp [stage, hr, hu]) ?_ (by simp)
    intro d' hd'
    simp at hd'
    subst hd'
    simp [stage, hr, h1, h2, h4, h5]
  · -- 9: finalize
    have hres : t.res = none := by simpa [hpc] using hres
    have hk : stage t = 9 := by simp [stage, hr, hpc]
    obtain ⟨s, hs, hso, hw, hu⟩ := h.ownerView ht (by omega)
    obtain ⟨d, hd, hdo, h1, h2, h3, h4, h5⟩ := h.dynView ht (by omega)
    rw [hk] at hw hu h1 h2 h3 h4 h5
    simp at hw hu h1 h2 h3 h4 h5
    simp [creatorStep, hpc, hd, hdo] at hst
    obtain ⟨rfl, rfl, -⟩ := hst
    refine inv_of_parts' h ht (by simp [TBase, validPc, hr, hres]) (tseen_creator hr)
      (ShLe.of_dyn rfl hd rfl (by simp [hdo]) (by simp) (by simp)) ?_ rfl
    refine global_owner ht (h.others ht (by omega)) s hs hso (by simp [stage, hr])
      (by simp [stage, hr, hw]) (by simp [stage, hr, hu]) ?_ (by simp)
    intro d' hd'
    simp at hd'
    subst hd'
    simp [stage, hr, h1, h2, h3, h5]
  · -- 10: node-local reference, return
    have hres : t.res = none := by simpa [hpc] using hres
    have hk : stage t = 10 := by simp [stage, hr, hpc]
    obtain ⟨s, hs, hso, hw, hu⟩ := h.ownerView ht (by omega)
    obtain ⟨d, hd, hdo, h1, h2, h3, h4, h5⟩ := h.dynView ht (by omega)
    rw [hk] at hw hu h1 h2 h3 h4 h5
    simp at hw hu h1 h2 h3 h4 h5
    simp [creatorStep, hpc, finish] at hst
    obtain ⟨rfl, rfl, -⟩ := hst
    refine inv_of_parts h ht (by simp [TBase, validPc, hr]) (tseen_creator hr)
      (ShLe.of_eq (by simp) (by simp)) ?_ (h.refsReg'.incRef _ ⟨d, hd, h5⟩)
    refine global_owner ht (h.others ht (by omega)) s (by simp [hs]) hso (by simp [stage, hr])
      (by simp [stage, hr, hw]) (by simp [stage, hr, hu]) ?_ (by simp [hd])
    intro d' hd'
    simp [hd] at hd'
    subst hd'
    simp [stage, hr, h1, h2, h3, h4, h5, hdo]
  · -- 20: O_EXCL lost
    have hres : t.res = none := by simpa [hpc] using hres
    have h0 : stage t = 0 := by simp [stage, hr, hpc, hres]
    simp [creatorStep, hpc, finish] at hst
    obtain ⟨rfl, rfl, -⟩ := hst
    exact frame_step h ht (by simp [TBase, validPc, hr]) (tseen_creator (by simp [hr])) (by omega)
      (by simp [stage, hr]) (by simp) (by simp) (by simp)
  · -- 99: returned
    simp [creatorStep, hpc] at hst

end Iox2.ServiceLifeConc
