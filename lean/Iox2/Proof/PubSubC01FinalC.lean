/-
Consequences of the invariant layers `InvA` / `InvC` in the form of the C01 theorems
(ordering, loss only as documented, history first, subscriber log = connection log).
-/
import Iox2.Proof.PubSubC01C7
namespace Iox2.PubSub.C01P
open Iox2.PubSub

variable {cfg : Cfg} {w : World}

theorem Il.nil_left {b l : List Nat} (h : Il [] b l) : l = b := by
  generalize ha : ([] : List Nat) = a at h
  induction h with
  | nil => rfl
  | left _ _ => cases ha
  | right _ ih => rw [ih ha]

theorem fifo_of_inv (hA : InvA cfg none none w) (hC : InvC none none w) (cn : Conn) (hcn : cn ∈ w.conns) :
    cn.gDelivered.Pairwise (· < ·) ∧
    ∃ consumed, Il cn.gReceived cn.gEvicted consumed ∧ cn.gDelivered = consumed ++ pend cn := by
  obtain ⟨⟨P, hP⟩, _⟩ := hA.ends cn hcn
  exact ⟨(hC.dlt cn hcn P hP).2, (hA.clog cn hcn).split⟩

theorem loss_of_inv (hA : InvA cfg none none w) (cn : Conn) (hcn : cn ∈ w.conns) :
    (cfg.overflow = false → cn.gEvicted = []) ∧ (cfg.overflow = true → cn.gSkipped = []) ∧
    (pend cn).length ≤ cn.cap ∧
    (cn.gReceived = [] →
      pend cn = cn.gDelivered.drop (cn.gDelivered.length - min cn.gDelivered.length cn.cap)) := by
  have hl := hA.clog cn hcn
  refine ⟨hl.noEv, hl.noSkip, hl.len, fun hr => ?_⟩
  obtain ⟨l, hil, hd⟩ := hl.split
  rw [hr] at hil
  have hle := hil.nil_left
  subst hle
  have hlen := hl.len
  by_cases hev : cn.gEvicted = []
  · rw [hev] at hd
    simp only [List.nil_append] at hd
    rw [hd]
    have : (pend cn).length - min (pend cn).length cn.cap = 0 := by omega
    rw [this, List.drop_zero]
  · have hfull := hl.full hr hev
    have : cn.gDelivered.length - min cn.gDelivered.length cn.cap = cn.gEvicted.length := by
      rw [hd, List.length_append]; omega
    rw [this, hd, List.drop_left]

theorem nlost_of_inv (hA : InvA cfg none none w) (hC : InvC none none w) (p : Nat) (P : Pub)
    (hp : getP w p = some P) (hex : P.ex = true) (slot s : Nat) (hs : P.conns[slot]? = some (some s))
    (cn : Conn) (hcn : getC w p s = some cn) :
    ∀ q, cn.gFirst ≤ q → q < P.seq → q ∈ cn.gDelivered ∨ q ∈ cn.gSkipped := by
  have _ := hA
  intro q h1 h2
  exact hC.nlost p P hp hex slot s hs cn hcn q h1 h2 (by simp)

theorem hist_of_inv (hA : InvA cfg none none w) (hC : InvC none none w) (cn : Conn) (hcn : cn ∈ w.conns)
    (hs : cn.sAtt = true) :
    cn.gHist <+: cn.gDelivered ∧ (∀ q ∈ cn.gHist, q < cn.gFirst) ∧
    (∀ q ∈ cn.gDelivered, q < cn.gFirst → q ∈ cn.gHist) ∧ cn.gHist.length ≤ cn.cap := by
  obtain ⟨⟨P, hP⟩, _⟩ := hA.ends cn hcn
  exact (hC.hfirst cn hcn hs (by simp) P hP).2

theorem sublog_of_inv (hA : InvA cfg none none w) (hC : InvC none none w) (s : Nat) (S : Sub)
    (hs : getS w s = some S) (p : Nat) :
    (S.ghostRecv.filter (·.1 = p)).map (·.2) =
      (match (w.conns.find? fun c => c.pid = p ∧ c.sid = s) with
       | some cn => cn.gReceived
       | none => (S.ghostRecv.filter (·.1 = p)).map (·.2)) ∧
    ((S.ghostRecv.filter (·.1 = p)).map (·.2)).Pairwise (· < ·) := by
  refine ⟨?_, hC.smono s S hs p⟩
  split
  · rename_i cn hf
    have hg : getC w p s = some cn := hf
    obtain ⟨hm, hcp, hcs⟩ := getC_some hg
    have := hA.l3 cn hm S (hcs ▸ hs)
    rw [hcp] at this
    exact this
  · rfl

/-- one push, in terms of the pending send numbers -/
theorem trySend_cases' (cn : Conn) (ov : Bool) (ch q : Nat) :
    (∀ old, (cn.trySend ov ch q).2 = .ok (some old) →
        ov = true ∧ cn.cap ≤ cn.sub.length ∧ (cn.sub.head?.map (·.1)) = some old ∧
        pend (cn.trySend ov ch q).1 = (pend cn).tail ++ [q]) ∧
    ((cn.trySend ov ch q).2 = .ok none → pend (cn.trySend ov ch q).1 = pend cn ++ [q]) ∧
    ((cn.trySend ov ch q).2 = .full →
        ov = false ∧ cn.cap ≤ cn.sub.length ∧
        (cn.trySend ov ch q).1 = { cn with gSkipped := cn.gSkipped ++ [q] }) := by
  refine ⟨fun old' hr => ?_, fun hr => ?_, fun hr => ?_⟩
  · rcases trySend_log cn ov ch q with ⟨h, _⟩ | ⟨h, _⟩ | ⟨old, oseq, rest, hsub0, h, hov, hfull, hsub, _⟩
    · rw [h] at hr; cases hr
    · rw [h] at hr; cases hr
    · rcases h with h | h
      · rw [h] at hr
        cases hr
        refine ⟨hov, hfull, by rw [hsub0]; rfl, ?_⟩
        simp [pend, hsub, hsub0]
      · rw [h] at hr; cases hr
  · rcases trySend_log cn ov ch q with ⟨h, _⟩ | ⟨_, hsub, _⟩ | ⟨old, oseq, rest, _, h, _⟩
    · rw [h] at hr; cases hr
    · simp [pend, hsub]
    · rcases h with h | h <;> (rw [h] at hr; cases hr)
  · rcases trySend_log cn ov ch q with ⟨_, hov, hfull, heq⟩ | ⟨h, _⟩ | ⟨old, oseq, rest, _, h, _⟩
    · exact ⟨hov, hfull, heq⟩
    · rw [h] at hr; cases hr
    · rcases h with h | h <;> (rw [h] at hr; cases hr)

end Iox2.PubSub.C01P
