/-
Layer A: the publisher-side helper functions preserve `InvA`.
-/
import Iox2.Proof.PubSubC01A5
import Iox2.Proof.PubSubC01FrameS
namespace Iox2.PubSub.C01P
open Iox2.PubSub
open Iox2.C16.SlotMapP (abs WInv)

variable {cfg : Cfg} {np ns : Option Nat} {w : World}

theorem getD_eq_some_iff {α : Type} {l : List (Option α)} {i : Nat} {v : α} :
    l.getD i none = some v ↔ l[i]? = some (some v) := by
  rw [List.getD_eq_getElem?_getD]
  cases h : l[i]? with
  | none => simp
  | some o => simp

theorem getD_eq_none_of {α : Type} {l : List (Option α)} {i : Nat} (hi : i < l.length)
    (h : l.getD i none = none) : l[i]? = some none := by
  rw [List.getD_eq_getElem?_getD] at h
  cases h' : l[i]? with
  | none => rw [List.getElem?_eq_none_iff] at h'; omega
  | some o => rw [h'] at h; simp at h; rw [h]

theorem InvA.retrieveFrom (h : InvA cfg np ns w) (p : Nat) (sl : List (Option Nat)) :
    InvA cfg np ns (retrieveFrom w p sl) := by
  induction sl generalizing w with
  | nil => exact h
  | cons x r ih =>
    cases x with
    | none => exact ih h
    | some s =>
      unfold Iox2.PubSub.retrieveFrom
      cases hP : getP w p with
      | none => exact ih h
      | some P =>
        cases hC : getC w p s with
        | none => exact ih h
        | some c =>
          simp only
          have hst := drainComp_stable P c.used c.comp
          generalize drainComp P c.used c.comp = d at hst
          obtain ⟨P', u'⟩ := d
          simp only
          apply ih
          obtain ⟨hcm, hcp, hcs⟩ := getC_some hC
          have h1 := h.setP_irrel hP hst.1.alive hst.1.ex hst.1.slot hst.2
          refine h1.setC_same (c := c) (by simp only [getC_setP, hcp, hcs]; exact hC) rfl rfl rfl
            ((h.clog c hcm).congr rfl rfl rfl rfl rfl rfl) ?_
          intro _ hv
          exact ⟨hv.del, hv.sub, hv.skip, hv.recv, hv.evi, rfl⟩

theorem InvA.retrieveReturned (h : InvA cfg np ns w) (p : Nat) : InvA cfg np ns (retrieveReturned w p) := by
  unfold Iox2.PubSub.retrieveReturned
  cases hP : getP w p with
  | none => exact h
  | some P => exact h.retrieveFrom p P.conns

theorem InvA.deliverTo (h : InvA cfg np ns w) (p s ch q : Nat)
    (hatt : ∀ c, getC w p s = some c → c.sAtt = true) : InvA cfg np ns (deliverTo w p s ch q).1 := by
  unfold Iox2.PubSub.deliverTo
  cases hP : getP w p with
  | none => exact h
  | some P =>
    cases hC : getC w p s with
    | none => exact h
    | some c =>
      simp only
      obtain ⟨hcm, hcp, hcs⟩ := getC_some hC
      have hsa := hatt c hC
      have h1 : InvA cfg np ns (setC w (c.trySend w.cfg.overflow ch q).1) := by
        refine h.setC_same (c := c) ?_ (trySend_sAtt ..) (trySend_rAtt ..) (trySend_gReceived ..) ?_ ?_
        · rw [trySend_pid, trySend_sid, hcp, hcs]; exact hC
        · rw [h.cfgEq]; exact (h.clog c hcm).trySend ch q
        · intro hf; rw [trySend_sAtt, hsa] at hf; cases hf
      generalize c.trySend w.cfg.overflow ch q = d at h1
      obtain ⟨c', r⟩ := d
      simp only at h1 ⊢
      cases r with
      | full => exact h1
      | corrupted => exact h1
      | ok ev =>
        simp only
        cases ev with
        | none => exact h1.setP_irrel (P := P) hP rfl rfl rfl rfl
        | some old =>
          have := releaseChunk_stable (P.borrowChunk ch) old
          exact h1.setP_irrel (P := P) hP this.alive this.ex this.slot (releaseChunk_conns _ old)

theorem InvA.attached (h : InvA cfg np ns w) {p s i : Nat} {P : Pub} (hP : getP w p = some P) (hex : P.ex = true)
    (hi : P.conns[i]? = some (some s)) : ∀ c, getC w p s = some c → c.sAtt = true := by
  intro c hc
  obtain ⟨c', h1, h2⟩ := h.a2c p P hP hex i s hi
  rw [hc] at h1; cases h1; exact h2

theorem InvA.deliverHistory (h : InvA cfg np ns w) (p s : Nat) (l : List Nat) {i : Nat} {P : Pub}
    (hP : getP w p = some P) (hex : P.ex = true) (hi : P.conns[i]? = some (some s)) :
    InvA cfg np ns (deliverHistory w p s l) := by
  induction l generalizing w P with
  | nil => exact h
  | cons ch r ih =>
    rw [deliverHistory_cons]
    obtain ⟨f1, c1⟩ := retrieveReturned_frame w p
    obtain ⟨P1, hP1, st1⟩ := f1.psome p P hP
    have hi1 : P1.conns[i]? = some (some s) := by rw [c1 P P1 hP hP1]; exact hi
    have h1 := h.retrieveReturned p
    have h2 := h1.deliverTo p s ch (histSeq (Iox2.PubSub.retrieveReturned w p) p ch)
      (h1.attached hP1 (st1.ex ▸ hex) hi1)
    obtain ⟨f2, c2⟩ := deliverTo_frame (Iox2.PubSub.retrieveReturned w p) p s ch
      (histSeq (Iox2.PubSub.retrieveReturned w p) p ch)
    obtain ⟨P2, hP2, st2⟩ := f2.psome p P1 hP1
    exact ih h2 hP2 (by rw [st2.ex, st1.ex]; exact hex) (by rw [c2 P1 P2 hP1 hP2]; exact hi1)

theorem InvA.pubRemoveConn (h : InvA cfg np ns w) (p slot : Nat)
    (hdead : ∀ P s, getP w p = some P → P.conns[slot]? = some (some s) → ∀ S, getS w s = some S → S.alive = false) :
    InvA cfg np ns (pubRemoveConn w p slot) := by
  rw [pubRemoveConn_eq]
  cases hP : getP w p with
  | none => exact h
  | some P =>
    simp only
    cases hs : P.conns.getD slot none with
    | none => exact h
    | some s =>
      simp only
      have hslot : P.conns[slot]? = some (some s) := getD_eq_some_iff.mp hs
      have hd := hdead P s hP hslot
      -- the release step
      have hrel : InvA cfg np ns (pubRelease w p s P).1 ∧ getP (pubRelease w p s P).1 p = some P ∧
          (∀ a, getS (pubRelease w p s P).1 a = getS w a) ∧
          PStable P (pubRelease w p s P).2 ∧ (pubRelease w p s P).2.conns = P.conns := by
        unfold pubRelease
        cases hC : getC w p s with
        | none => exact ⟨h, hP, fun _ => rfl, PStable.refl P, rfl⟩
        | some c =>
          simp only
          obtain ⟨hcm, hcp, hcs⟩ := getC_some hC
          have hst := releaseAllUsed_stable P c.used c.used.length
          refine ⟨?_, hP, fun _ => rfl, hst.1, hst.2⟩
          refine h.setC_same (c := c) (by simp only [hcp, hcs]; exact hC) rfl rfl rfl
            ((h.clog c hcm).congr rfl rfl rfl rfl rfl rfl) ?_
          intro _ hv
          exact ⟨hv.del, hv.sub, hv.skip, hv.recv, hv.evi, hv.comp⟩
      obtain ⟨h1, hP1, hS1, st, hcn⟩ := hrel
      generalize pubRelease w p s P = r at h1 hP1 hS1 st hcn
      obtain ⟨w1, P2⟩ := r
      simp only at h1 hP1 hS1 st hcn ⊢
      rw [detachSender_setP_comm]
      have hinj : ∀ i b, P.conns[i]? = some (some b) → b = s → i = slot := by
        intro i b hi hb
        subst hb
        obtain ⟨_, S1, hS1', hsl1⟩ := (h.pconns p P hP).2 i b hi
        obtain ⟨_, S2, hS2', hsl2⟩ := (h.pconns p P hP).2 slot b hslot
        rw [hS1'] at hS2'; cases hS2'
        rw [← hsl1, ← hsl2]
      refine h1.detachSender hP1 st.alive st.ex st.slot (by simp only [List.length_set, hcn]) ?_ ?_ ?_
      · intro i b hi
        simp only [hcn, List.getElem?_set] at hi
        by_cases his : slot = i
        · rw [if_pos his] at hi; split at hi <;> cases hi
        · rw [if_neg his] at hi
          exact ⟨hi, fun _ hb => his (hinj i b hi hb).symm⟩
      · intro i b hi hb
        simp only [hcn, List.getElem?_set]
        have : slot ≠ i := by
          rintro rfl; rw [hslot] at hi; cases hi; exact hb rfl
        rw [if_neg this]; exact hi
      · intro _ S hS
        rw [hS1] at hS; exact hd S hS

theorem InvA.pubCreateConn (h : InvA cfg np ns w) {p slot : Nat} {e : SubEntry} {P : Pub}
    (hP : getP w p = some P) (hPa : P.alive = true) (hslot : P.conns[slot]? = some none)
    (hreg : w.subReg.slots[slot]? = some (some e)) :
    InvA cfg np ns (pubCreateConn w p slot e) := by
  rw [pubCreateConn_eq, hP]
  simp only
  have hslt : slot < P.conns.length := (List.getElem?_eq_some_iff.mp hslot).1
  have hatt : InvA cfg np ns (pubAttach w p slot e P) ∧
      getP (pubAttach w p slot e P) p = some { P with conns := P.conns.set slot (some e.sid) } := by
    unfold pubAttach
    simp only
    cases hC : getC w p e.sid with
    | none =>
      simp only
      exact ⟨h.attachP_new hP hPa hslot hreg hC rfl rfl rfl rfl,
        getP_setP_self _ (by rw [getP_addC]; exact hP)⟩
    | some c =>
      simp only
      exact ⟨h.attachP_old hP hslot hreg hC rfl rfl rfl rfl,
        getP_setP_self _ (by rw [getP_setC]; exact hP)⟩
  exact hatt.1.deliverHistory p e.sid _ (i := slot) hatt.2 (h.palive p P hP hPa).1
    (by simp only [List.getElem?_set]; simp [hslt])

end Iox2.PubSub.C01P
