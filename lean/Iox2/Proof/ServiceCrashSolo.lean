/-
The survivor's clean-up running alone from ANY state (any incarnation, any number of other registered nodes, any progress of the
dynamic config's initialisation) that satisfies `Collectable`: case analysis + symbolic execution of the cleaner.
-/
import Iox2.Model.ServiceCrash
namespace Iox2.ServiceCrash
open Iox2.Sched

/-- the victim's node can be collected and nothing at service level stands in the way -/
structure Collectable (sh : Shared) : Prop where
  present : sh.node.present = true
  dead : sh.node.alive = false
  free : sh.node.lock = none
  tag : sh.tag0 ≠ .init
  static : sh.static ≠ .locked

set_option maxHeartbeats 4000000 in
theorem solo_cleanup_general (sh : Shared) (pid : Nat) (h : Collectable sh) :
    let r := runSolo fuel sh (mkCleaner pid)
    r.2.cres = some .ok ∧ r.1.tag0 = .absent ∧ r.1.node.present = false ∧ r.1.node.dir = false ∧ r.1.node.lock = none ∧
    (sh.tag0 = .final → sh.static = .final → ((r.1.dyn sh.inc).st = .absent ∨ (r.1.dyn sh.inc).regV = false)) ∧
    (sh.tag0 = .final → sh.static = .final → ((sh.dyn sh.inc).st ≠ .final ∨ (sh.dyn sh.inc).versioned = false ∨ (sh.dyn sh.inc).others = 0) →
      r.1.static = .absent ∧ (r.1.dyn sh.inc).st = .absent) := by
  obtain ⟨hp, hd, hl, ht, hs⟩ := h
  obtain ⟨static, written, inc, dyn0, dyn1, dyn2, tag0, tag1, node, svcDir⟩ := sh
  obtain ⟨present, alive, lock, dir⟩ := node
  simp only at hp hd hl ht hs
  subst hp hd hl
  cases tag0 <;> cases static <;> simp at ht hs
  -- tag absent (3 cases of static → 2 after hs), tag final × static absent: no dynamic config is looked at
  case absent.absent => simp [runSolo, fuel, stepL, cleanerStep, mkCleaner, finishC, pcDone]
  case absent.final => simp [runSolo, fuel, stepL, cleanerStep, mkCleaner, finishC, pcDone]
  case final.absent => simp [runSolo, fuel, stepL, cleanerStep, mkCleaner, finishC, pcDone]
  case final.final =>
    rcases inc with _ | _ | n
    · obtain ⟨st, inited, versioned, regV, others⟩ := dyn0
      cases st <;> cases versioned <;> rcases others with _ | m <;>
        simp [runSolo, fuel, stepL, cleanerStep, mkCleaner, finishC, pcDone, Shared.dyn, Shared.setDyn]
    · obtain ⟨st, inited, versioned, regV, others⟩ := dyn1
      cases st <;> cases versioned <;> rcases others with _ | m <;>
        simp [runSolo, fuel, stepL, cleanerStep, mkCleaner, finishC, pcDone, Shared.dyn, Shared.setDyn]
    · obtain ⟨st, inited, versioned, regV, others⟩ := dyn2
      cases st <;> cases versioned <;> rcases others with _ | m <;>
        simp [runSolo, fuel, stepL, cleanerStep, mkCleaner, finishC, pcDone, Shared.dyn, Shared.setDyn]
end Iox2.ServiceCrash
