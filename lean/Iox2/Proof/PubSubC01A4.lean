/-
Layer A: a port attaches to a connection (`create_sender` / `create_receiver`).
-/
import Iox2.Proof.PubSubC01A3
namespace Iox2.PubSub.C01P
open Iox2.PubSub
open Iox2.C16.SlotMapP (abs WInv)

variable {cfg : Cfg} {np ns : Option Nat} {w : World}

theorem set_getElem?_some {α : Type} {l : List (Option α)} {slot i : Nat} {v b : α}
    (h : (l.set slot (some v))[i]? = some (some b)) :
    (i = slot ∧ b = v ∧ slot < l.length) ∨ (i ≠ slot ∧ l[i]? = some (some b)) := by
  rw [List.getElem?_set] at h
  by_cases his : slot = i
  · subst his
    simp only [if_true] at h
    split at h
    · simp only [Option.some.injEq] at h
      exact Or.inl ⟨rfl, h.symm, by assumption⟩
    · cases h
  · rw [if_neg his] at h
    exact Or.inr ⟨fun h' => his h'.symm, h⟩

/-- the sender side attaches: `W1` is `w` with the connection `(p, e.sid)` replaced by / created as `x` -/
theorem InvA.attachP_core (h : InvA cfg np ns w) {W1 : World} {x : Conn} {p slot : Nat} {P P' : Pub} {e : SubEntry}
    (fp : W1.pubs = w.pubs) (fs : W1.subs = w.subs) (fc : W1.cfg = w.cfg) (fpr : W1.pubReg = w.pubReg)
    (fsr : W1.subReg = w.subReg) (hu : UniqC W1)
    (hmem : ∀ cn ∈ W1.conns, (cn ∈ w.conns ∧ ¬ (cn.pid = p ∧ cn.sid = e.sid)) ∨ cn = x)
    (hget : ∀ a b, getC W1 a b = if a = p ∧ b = e.sid then some x else getC w a b)
    (hxp : x.pid = p) (hxs : x.sid = e.sid) (hxa : x.sAtt = true)
    (hxr : x.rAtt = true → ∃ c ∈ w.conns, c.pid = p ∧ c.sid = e.sid ∧ c.rAtt = true)
    (hxl : ConnLog cfg.overflow x)
    (hxg : ∀ S, getS w e.sid = some S → (S.ghostRecv.filter (·.1 = p)).map (·.2) = x.gReceived)
    (hP : getP w p = some P) (hslot : P.conns[slot]? = some none)
    (hreg : w.subReg.slots[slot]? = some (some e))
    (ha : P'.alive = P.alive) (he : P'.ex = P.ex) (hsl : P'.slot = P.slot)
    (hc : P'.conns = P.conns.set slot (some e.sid)) :
    InvA cfg np ns (setP W1 p P') := by
  have gP1 : ∀ a, getP W1 a = getP w a := fun a => by unfold getP; rw [fp]
  have gS1 : ∀ a, getS W1 a = getS w a := fun a => by unfold getS; rw [fs]
  have gS : ∀ a, getS (setP W1 p P') a = getS w a := fun a => by rw [getS_setP, gS1]
  have hgP : ∀ a Q, getP (setP W1 p P') a = some Q → (a = p ∧ Q = P') ∨ (a ≠ p ∧ getP w a = some Q) := by
    intro a Q hq
    rw [getP_setP] at hq
    by_cases hap : a = p
    · subst hap
      simp only [if_true, gP1, hP, Option.map_some, Option.some.injEq] at hq
      exact Or.inl ⟨rfl, hq.symm⟩
    · rw [if_neg hap, gP1] at hq
      exact Or.inr ⟨hap, hq⟩
  have hgP2 : ∀ a Q0, getP w a = some Q0 → ∃ Q, getP (setP W1 p P') a = some Q ∧
      Q.alive = Q0.alive ∧ Q.ex = Q0.ex ∧ Q.slot = Q0.slot := by
    intro a Q0 hq
    rw [getP_setP]
    by_cases hap : a = p
    · subst hap
      rw [hP] at hq; cases hq
      exact ⟨P', by simp [gP1, hP], ha, he, hsl⟩
    · rw [if_neg hap, gP1]
      exact ⟨Q0, hq, rfl, rfl, rfl⟩
  obtain ⟨hens, Se, hSe, hSal, hSslot, hSbuf⟩ := h.sreg slot e hreg
  have hslt : slot < P.conns.length := by
    have := List.getElem?_eq_some_iff.mp hslot
    exact this.1
  have hgetC : ∀ a b cn0, getC w a b = some cn0 → ∃ cn, getC (setP W1 p P') a b = some cn ∧
      (cn0.sAtt = true → cn.sAtt = true) := by
    intro a b cn0 h0
    rw [getC_setP, hget]
    by_cases hab : a = p ∧ b = e.sid
    · rw [if_pos hab]; exact ⟨x, rfl, fun _ => hxa⟩
    · rw [if_neg hab]; exact ⟨cn0, h0, id⟩
  constructor
  · simp only [setP_cfg, fc]; exact h.cfgEq
  · exact hu
  · simp only [setP_subReg, fsr]; exact h.sregLen
  · intro i a hi
    simp only [setP_pubReg, fpr] at hi
    obtain ⟨h1, Q0, h2, h3, h4⟩ := h.preg i a hi
    obtain ⟨Q, hq, e1, e2, e3⟩ := hgP2 a Q0 h2
    exact ⟨h1, Q, hq, e1 ▸ h3, e3 ▸ h4⟩
  · intro i en hi
    simp only [setP_subReg, fsr] at hi
    rw [gS]; exact h.sreg i en hi
  · intro a Q hq hal
    simp only [setP_pubReg, fpr]
    rcases hgP a Q hq with ⟨rfl, rfl⟩ | ⟨_, h0⟩
    · rw [he, hsl]; exact h.palive a P hP (ha ▸ hal)
    · exact h.palive a Q h0 hal
  · intro a S hS hal
    rw [gS] at hS
    simp only [setP_subReg, fsr]
    exact h.salive a S hS hal
  · intro a S hS
    rw [gS] at hS; exact h.sbuf a S hS
  · intro a Q hq
    rcases hgP a Q hq with ⟨rfl, rfl⟩ | ⟨_, h0⟩
    · obtain ⟨h1, h2⟩ := h.pconns a P hP
      refine ⟨by rw [hc, List.length_set]; exact h1, fun i b hi => ?_⟩
      rw [gS]
      rw [hc] at hi
      rcases set_getElem?_some hi with ⟨rfl, rfl, _⟩ | ⟨_, hi'⟩
      · exact ⟨hens, Se, hSe, hSslot⟩
      · exact h2 i b hi'
    · have := h.pconns a Q h0
      refine ⟨this.1, fun i b hi => ?_⟩
      rw [gS]; exact this.2 i b hi
  · intro cn hcn
    simp only [setP_conns] at hcn
    rw [gS]
    have : (∃ Q0, getP w cn.pid = some Q0) ∧ ∃ S, getS w cn.sid = some S := by
      rcases hmem cn hcn with ⟨hm, _⟩ | rfl
      · exact h.ends cn hm
      · rw [hxp, hxs]; exact ⟨⟨P, hP⟩, ⟨Se, hSe⟩⟩
    obtain ⟨⟨Q0, h0⟩, hS⟩ := this
    obtain ⟨Q, hq, _⟩ := hgP2 _ Q0 h0
    exact ⟨⟨Q, hq⟩, hS⟩
  · intro cn hcn hra
    simp only [setP_conns] at hcn
    rw [gS]
    rcases hmem cn hcn with ⟨hm, _⟩ | rfl
    · exact h.a1 cn hm hra
    · obtain ⟨c, hcm, h1, h2, h3⟩ := hxr hra
      have := h.a1 c hcm h3
      rw [hxp, hxs]; rw [h1, h2] at this; exact this
  · intro b S hS
    rw [gS] at hS
    obtain ⟨h1, h2⟩ := h.stor b S hS
    refine ⟨h1, fun k a hk => ?_⟩
    obtain ⟨h3, Q0, h0⟩ := h2 k a hk
    obtain ⟨Q, hq, _⟩ := hgP2 _ Q0 h0
    exact ⟨h3, Q, hq⟩
  · intro cn hcn hsa
    simp only [setP_conns] at hcn
    rcases hmem cn hcn with ⟨hm, hne⟩ | rfl
    · obtain ⟨Q0, h0, i, hi⟩ := h.a2 cn hm hsa
      by_cases hap : cn.pid = p
      · rw [hap] at h0 ⊢
        rw [hP] at h0; cases h0
        refine ⟨P', by simp [getP_setP, gP1, hP], i, ?_⟩
        rw [hc, List.getElem?_set]
        have : slot ≠ i := by
          rintro rfl; rw [hslot] at hi; cases hi
        rw [if_neg this]; exact hi
      · refine ⟨Q0, ?_, i, hi⟩
        rw [getP_setP, if_neg hap, gP1]; exact h0
    · rw [hxp, hxs]
      refine ⟨P', by simp [getP_setP, gP1, hP], slot, ?_⟩
      rw [hc, List.getElem?_set]; simp [hslt]
  · intro a Q hq hex i b hi
    rcases hgP a Q hq with ⟨rfl, rfl⟩ | ⟨hap, h0⟩
    · rw [hc] at hi
      rcases set_getElem?_some hi with ⟨rfl, rfl, _⟩ | ⟨_, hi'⟩
      · refine ⟨x, ?_, hxa⟩
        rw [getC_setP, hget]; simp
      · obtain ⟨cn0, h3, h4⟩ := h.a2c a P hP (he ▸ hex) i b hi'
        obtain ⟨cn, h5, h6⟩ := hgetC a b cn0 h3
        exact ⟨cn, h5, h6 h4⟩
    · obtain ⟨cn0, h3, h4⟩ := h.a2c a Q h0 hex i b hi
      obtain ⟨cn, h5, h6⟩ := hgetC a b cn0 h3
      exact ⟨cn, h5, h6 h4⟩
  · intro cn hcn
    simp only [setP_conns] at hcn
    rcases hmem cn hcn with ⟨hm, _⟩ | rfl
    · exact h.a3 cn hm
    · exact Or.inl hxa
  · intro cn hcn hsa Q S hq hS hex hal
    simp only [setP_conns] at hcn
    rw [gS] at hS
    rcases hmem cn hcn with ⟨hm, hne⟩ | rfl
    · rcases hgP _ Q hq with ⟨hap, rfl⟩ | ⟨_, h0⟩
      · exact h.virg cn hm hsa P S (hap ▸ hP) hS (he ▸ hex) hal
      · exact h.virg cn hm hsa Q S h0 hS hex hal
    · rw [hxa] at hsa; cases hsa
  · intro b S hS hal en hemem Q hq hqa
    rw [gS] at hS
    have hQ : ∃ Q0, getP w en.1 = some Q0 ∧ Q0.alive = true := by
      rcases hgP _ Q hq with ⟨hap, rfl⟩ | ⟨hap, h0⟩
      · exact ⟨P, hap ▸ hP, ha ▸ hqa⟩
      · exact ⟨Q, h0, hqa⟩
    obtain ⟨Q0, h0, h0a⟩ := hQ
    obtain ⟨cn0, h1⟩ := h.k2 b S hS hal en hemem Q0 h0 h0a
    obtain ⟨cn, h5, _⟩ := hgetC _ _ cn0 h1
    exact ⟨cn, h5⟩
  · intro cn hcn S hS
    simp only [setP_conns] at hcn
    rw [gS] at hS
    rcases hmem cn hcn with ⟨hm, _⟩ | rfl
    · exact h.l3 cn hm S hS
    · rw [hxs] at hS; rw [hxp]; exact hxg S hS
  · intro b S hS
    rw [gS] at hS; exact h.l4 b S hS
  · intro cn hcn
    simp only [setP_conns] at hcn
    rcases hmem cn hcn with ⟨hm, _⟩ | rfl
    · exact h.clog cn hm
    · exact hxl
  · intro b S hS en hen
    rw [gS] at hS
    obtain ⟨h1, Q0, h0⟩ := h.gr b S hS en hen
    obtain ⟨Q, hq, _⟩ := hgP2 _ Q0 h0
    exact ⟨h1, Q, hq⟩

/-- no connection yet, hence nothing received yet from this publisher (by `k2`) -/
theorem InvA.noRecv_of_noConn (h : InvA cfg np ns w) {p s : Nat} {P : Pub} {S : Sub}
    (hP : getP w p = some P) (hPa : P.alive = true) (hS : getS w s = some S) (hSa : S.alive = true)
    (hg : getC w p s = none) : (S.ghostRecv.filter (·.1 = p)).map (·.2) = [] := by
  rw [List.map_eq_nil_iff, List.filter_eq_nil_iff]
  intro en hen
  simp only [decide_eq_true_eq]
  intro h1
  obtain ⟨cn, hcn⟩ := h.k2 s S hS hSa en hen P (h1 ▸ hP) hPa
  rw [h1, hg] at hcn; cases hcn

/-- `create_sender` onto an existing connection object -/
theorem InvA.attachP_old (h : InvA cfg np ns w) {c : Conn} {p slot f : Nat} {g : List Nat} {P P' : Pub} {e : SubEntry}
    (hP : getP w p = some P) (hslot : P.conns[slot]? = some none)
    (hreg : w.subReg.slots[slot]? = some (some e)) (hg : getC w p e.sid = some c)
    (ha : P'.alive = P.alive) (he : P'.ex = P.ex) (hsl : P'.slot = P.slot)
    (hc : P'.conns = P.conns.set slot (some e.sid)) :
    InvA cfg np ns (setP (setC w { c with sAtt := true, gFirst := f, gHist := g }) p P') := by
  obtain ⟨hcm, hcp, hcs⟩ := getC_some hg
  refine h.attachP_core (x := { c with sAtt := true, gFirst := f, gHist := g }) rfl rfl rfl rfl rfl h.uniqC.setC
    ?_ ?_ hcp hcs rfl ?_ ?_ ?_ hP hslot hreg ha he hsl hc
  · intro cn hcn
    rcases mem_setC hcn with ⟨rfl, _⟩ | ⟨hm, hne⟩
    · exact Or.inr rfl
    · simp only [hcp, hcs] at hne; exact Or.inl ⟨hm, hne⟩
  · intro a b
    rw [getC_setC]
    simp only [hcp, hcs]
    by_cases hab : a = p ∧ b = e.sid
    · obtain ⟨rfl, rfl⟩ := hab; simp [hg]
    · simp [hab]
  · intro hr; exact ⟨c, hcm, hcp, hcs, hr⟩
  · exact (h.clog c hcm).congr rfl rfl rfl rfl rfl rfl
  · intro S hS
    have := h.l3 c hcm S (hcs ▸ hS)
    rw [hcp] at this; exact this

/-- `create_sender` creating the connection object -/
theorem InvA.attachP_new (h : InvA cfg np ns w) {p slot f : Nat} {g : List Nat} {u : List Bool} {P P' : Pub}
    {e : SubEntry}
    (hP : getP w p = some P) (hPa : P.alive = true) (hslot : P.conns[slot]? = some none)
    (hreg : w.subReg.slots[slot]? = some (some e)) (hg : getC w p e.sid = none)
    (ha : P'.alive = P.alive) (he : P'.ex = P.ex) (hsl : P'.slot = P.slot)
    (hc : P'.conns = P.conns.set slot (some e.sid)) :
    InvA cfg np ns (setP (addC w { pid := p, sid := e.sid, cap := e.buffer, used := u, sAtt := true, gFirst := f, gHist := g }) p P') := by
  obtain ⟨hens, Se, hSe, hSal, hSslot, hSbuf⟩ := h.sreg slot e hreg
  refine h.attachP_core (x := { pid := p, sid := e.sid, cap := e.buffer, used := u, sAtt := true, gFirst := f, gHist := g }) rfl rfl rfl rfl rfl (h.uniqC.addC hg)
    ?_ ?_ rfl rfl rfl ?_ ?_ ?_ hP hslot hreg ha he hsl hc
  · intro cn hcn
    rw [mem_addC] at hcn
    rcases hcn with hm | rfl
    · exact Or.inl ⟨hm, getC_none hg cn hm⟩
    · exact Or.inr rfl
  · intro a b
    rw [getC_addC]
    by_cases hab : a = p ∧ b = e.sid
    · obtain ⟨rfl, rfl⟩ := hab; simp [hg]
    · rw [if_neg hab]
      have : ¬ (p = a ∧ e.sid = b) := fun hh => hab ⟨hh.1.symm, hh.2.symm⟩
      simp [this]
  · intro hr; cases hr
  · exact ConnLog.fresh rfl rfl rfl rfl rfl (by simp only; rw [hSbuf]; exact h.sbuf _ _ hSe)
  · intro S hS
    exact h.noRecv_of_noConn hP hPa hS (by rw [hSe] at hS; cases hS; exact hSal) hg

end Iox2.PubSub.C01P
