/-
The invariant of configurations (`Inv`), initial configurations (`Init`) and `Reachable` — every interleaving
of any number of monitors and cleaners with the owner, every process with an arbitrary fuse.
-/
import Iox2.Proof.LifecycleSys
namespace Iox2.Lifecycle
open Iox2.Sched

/-- well-formed start: nothing of the node exists; processes are at the beginning of their programs; the owner
(if any) is the process with pid 0; pids are pairwise distinct; fuses are arbitrary -/
structure Init (c : Cfg FS (CTh Th)) : Prop where
  fs : c.sh = {}
  alive : ∀ (i : Nat) (ct : CTh Th), c.th[i]? = some ct → ct.dead = false
  fresh : ∀ (i : Nat) (ct : CTh Th), c.th[i]? = some ct →
    ct.inner.pc = 0 ∧ ct.inner.raw = none ∧ ct.inner.listed = none ∧ ct.inner.res = none
  roles : ∀ (i : Nat) (ct : CTh Th), c.th[i]? = some ct → (ct.inner.role = .owner ↔ ct.inner.pid = 0)
  pids : ∀ (i j : Nat) (ci cj : CTh Th), c.th[i]? = some ci → c.th[j]? = some cj → ci.inner.pid = cj.inner.pid → i = j

structure Inv (c : Cfg FS (CTh Th)) : Prop where
  g : G c.sh
  l : ∀ (i : Nat) (ct : CTh Th), c.th[i]? = some ct → ct.dead = false → L c.sh ct.inner
  pids : ∀ (i j : Nat) (ci cj : CTh Th), c.th[i]? = some ci → c.th[j]? = some cj → ci.inner.pid = cj.inner.pid → i = j
  roles : ∀ (i : Nat) (ct : CTh Th), c.th[i]? = some ct → (ct.inner.role = .owner ↔ ct.inner.pid = 0)
  /-- the ghost state is the owner's real state -/
  ownerDead : ∀ (i : Nat) (ct : CTh Th), c.th[i]? = some ct → ct.inner.role = .owner → (ct.dead = true ↔ c.sh.odead = true)
  ownerPc : ∀ (i : Nat) (ct : CTh Th), c.th[i]? = some ct → ct.inner.role = .owner → c.sh.opc = phaseOf ct.inner.pc
  /-- an owner-lock lock belongs to a live process -/
  holder : ∀ p, c.sh.ol.lock = some p → ∃ (i : Nat) (ct : CTh Th), c.th[i]? = some ct ∧ ct.dead = false ∧ ct.inner.pid = p

theorem G_init : G ({} : FS) := by
  refine ⟨?_, ?_, ?_, ?_, ?_, ?_, ?_, ?_, ?_, ?_, ?_, ?_, ?_, ?_, ?_, ?_, ?_, ?_, ?_⟩ <;> simp

theorem L_init {t : Th} (hrole : t.role = .owner ↔ t.pid = 0) (hpc : t.pc = 0) (hraw : t.raw = none)
    (hl : t.listed = none) (hres : t.res = none) : L ({} : FS) t := by
  refine ⟨hrole, ?_, ?_, ?_, ?_, ?_, ?_, ?_, ?_, ?_, ?_, ?_, ?_, ?_, ?_⟩ <;> simp [hpc, hraw, hl, hres, phaseOf]

theorem Init.inv {c : Cfg FS (CTh Th)} (h : Init c) : Inv c := by
  refine ⟨h.fs ▸ G_init, ?_, h.pids, h.roles, ?_, ?_, ?_⟩
  · intro i ct hi _
    obtain ⟨h1, h2, h3, h4⟩ := h.fresh i ct hi
    rw [h.fs]; exact L_init (h.roles i ct hi) h1 h2 h3 h4
  · intro i ct hi _
    rw [h.fs, h.alive i ct hi]
  · intro i ct hi _
    rw [h.fs, (h.fresh i ct hi).1]; simp [phaseOf]
  · intro p hp
    rw [h.fs] at hp; cases hp

/-- the two ways a process of the crash-extended system moves: it dies, or it takes a step of its program -/
theorem csys_step_cases {s s' : FS} {ct ct' : CTh Th} {evs : List Ev} (h : csys.step s ct = some (s', ct', evs)) :
    ct.dead = false ∧
    ((s' = onDeath s ct.inner ∧ ct'.dead = true ∧ ct'.inner = ct.inner) ∨
     (∃ str, stepL s ct.inner = some (s', ct'.inner, str) ∧ ct'.dead = false)) := by
  unfold csys Sys.withCrash at h
  simp only [] at h
  split at h
  · cases h
  · rename_i hd
    have hd' : ct.dead = false := by simpa using hd
    refine ⟨hd', ?_⟩
    split at h
    · simp only [Option.some.injEq, Prod.mk.injEq] at h
      obtain ⟨rfl, rfl, _⟩ := h
      exact Or.inl ⟨rfl, rfl, rfl⟩
    · split at h
      · cases h
      · rename_i s1 t1 evs1 hstep
        simp only [Option.some.injEq, Prod.mk.injEq] at h
        obtain ⟨rfl, rfl, _⟩ := h
        unfold sys at hstep
        simp only [] at hstep
        cases hl : stepL s ct.inner with
        | none => rw [hl] at hstep; cases hstep
        | some r =>
          obtain ⟨a, b, str⟩ := r
          rw [hl] at hstep
          simp only [Option.map_some, Option.some.injEq, Prod.mk.injEq] at hstep
          obtain ⟨rfl, rfl, _⟩ := hstep
          exact Or.inr ⟨str, rfl, hd'⟩

theorem stepAt_cases {c c' : Cfg FS (CTh Th)} {i : Nat} {evs : List Ev} (h : csys.stepAt c i = some (c', evs)) :
    ∃ ct ct', c.th[i]? = some ct ∧ csys.step c.sh ct = some (c'.sh, ct', evs) ∧ c'.th = c.th.set i ct' := by
  unfold Sys.stepAt at h
  split at h
  · cases h
  · rename_i ct hct
    split at h
    · cases h
    · rename_i sh' t' evs' hs
      simp only [Option.some.injEq, Prod.mk.injEq] at h
      obtain ⟨rfl, rfl⟩ := h
      exact ⟨ct, t', hct, hs, rfl⟩

theorem get_set_cases {α} {l : List α} {i j : Nat} {a b : α} (h : (l.set i a)[j]? = some b) :
    (i = j ∧ b = a ∧ i < l.length) ∨ (i ≠ j ∧ l[j]? = some b) := by
  rw [List.getElem?_set] at h
  split at h
  · rename_i hij
    split at h
    · simp only [Option.some.injEq] at h; exact Or.inl ⟨hij, h.symm, by assumption⟩
    · cases h
  · exact Or.inr ⟨by assumption, h⟩

theorem Inv.step {c c' : Cfg FS (CTh Th)} {i : Nat} {evs : List Ev} (hI : Inv c) (h : csys.stepAt c i = some (c', evs)) : Inv c' := by
  obtain ⟨ct, ct', hct, hstep, hth⟩ := stepAt_cases h
  obtain ⟨halive, hcase⟩ := csys_step_cases hstep
  have hLt := hI.l i ct hct halive
  have hilt : i < c.th.length := by
    rcases Nat.lt_or_ge i c.th.length with h | h
    · exact h
    · rw [List.getElem?_eq_none h] at hct; cases hct
  -- what the moving process keeps, what it guarantees
  have key : G c'.sh ∧ Guar c.sh c'.sh ct.inner.pid ∧
      (ct.inner.role ≠ .owner → c'.sh.opc = c.sh.opc ∧ c'.sh.odead = c.sh.odead) ∧
      ct'.inner.pid = ct.inner.pid ∧ ct'.inner.role = ct.inner.role ∧ (ct'.dead = false → L c'.sh ct'.inner) := by
    rcases hcase with ⟨hs, hd, hin⟩ | ⟨str, hs, hd⟩
    · obtain ⟨h1, h2, h3⟩ := onDeath_sound hI.g hLt
      rw [hs]
      exact ⟨h1, h2, h3, by rw [hin], by rw [hin], fun h => by rw [hd] at h; cases h⟩
    · obtain ⟨h1, h2, h3, h4, h5, h6⟩ := stepL_sound hI.g hLt hs
      exact ⟨h1, h3, h4, h5, h6, fun _ => h2⟩
  obtain ⟨kG, kGuar, kFrame, kPid, kRole, kL⟩ := key
  have others : ∀ (j : Nat) (cj : CTh Th), c'.th[j]? = some cj → (j = i ∧ cj = ct') ∨ (j ≠ i ∧ c.th[j]? = some cj) := by
    intro j cj hj
    rw [hth] at hj
    rcases get_set_cases hj with ⟨h1, h2, _⟩ | ⟨h1, h2⟩
    · exact Or.inl ⟨h1.symm, h2⟩
    · exact Or.inr ⟨fun h => h1 h.symm, h2⟩
  have pidOf : ∀ (j : Nat) (cj : CTh Th), c'.th[j]? = some cj → ∃ cj0, c.th[j]? = some cj0 ∧ cj0.inner.pid = cj.inner.pid ∧ cj0.inner.role = cj.inner.role := by
    intro j cj hj
    rcases others j cj hj with ⟨rfl, rfl⟩ | ⟨_, h2⟩
    · exact ⟨ct, hct, kPid.symm, kRole.symm⟩
    · exact ⟨cj, h2, rfl, rfl⟩
  refine ⟨kG, ?_, ?_, ?_, ?_, ?_, ?_⟩
  · -- L of everybody
    intro j cj hj hdj
    rcases others j cj hj with ⟨rfl, rfl⟩ | ⟨hne, h2⟩
    · exact kL hdj
    · have hLj := hI.l j cj h2 hdj
      have hpne : cj.inner.pid ≠ ct.inner.pid := fun he => hne (hI.pids j i cj ct h2 hct he)
      refine hLj.stable kGuar hpne (fun hro => kFrame ?_)
      intro hto
      exact hpne ((hLj.role.1 hro).trans (hLt.role.1 hto).symm)
  · intro j k cj ck hj hk he
    obtain ⟨cj0, hj0, hpj, _⟩ := pidOf j cj hj
    obtain ⟨ck0, hk0, hpk, _⟩ := pidOf k ck hk
    exact hI.pids j k cj0 ck0 hj0 hk0 (by rw [hpj, hpk, he])
  · intro j cj hj
    obtain ⟨cj0, hj0, hpj, hrj⟩ := pidOf j cj hj
    rw [← hpj, ← hrj]; exact hI.roles j cj0 hj0
  · -- ownerDead
    intro j cj hj hro
    rcases others j cj hj with ⟨rfl, rfl⟩ | ⟨hne, h2⟩
    · have hro' : ct.inner.role = .owner := kRole ▸ hro
      have hod := hLt.oAlive hro'
      rcases hcase with ⟨hs, hd, hin⟩ | ⟨str, hs, hd⟩
      · rw [hd, hs]; simp [onDeath, hro']
      · have := (kL hd).oAlive hro
        rw [hd, this]
    · have hnr : ct.inner.role ≠ .owner := by
        intro hto
        have hp1 := (hI.roles j cj h2).1 hro
        have hp2 := (hI.roles i ct hct).1 hto
        exact hne (hI.pids j i cj ct h2 hct (hp1.trans hp2.symm))
      rw [(kFrame hnr).2]; exact hI.ownerDead j cj h2 hro
  · -- ownerPc
    intro j cj hj hro
    rcases others j cj hj with ⟨rfl, rfl⟩ | ⟨hne, h2⟩
    · have hro' : ct.inner.role = .owner := kRole ▸ hro
      rcases hcase with ⟨hs, hd, hin⟩ | ⟨str, hs, hd⟩
      · rw [hin, hs]; simp only [onDeath]; exact hI.ownerPc j ct hct hro'
      · exact ((kL hd).oPc hro).1
    · have hnr : ct.inner.role ≠ .owner := by
        intro hto
        have hp1 := (hI.roles j cj h2).1 hro
        have hp2 := (hI.roles i ct hct).1 hto
        exact hne (hI.pids j i cj ct h2 hct (hp1.trans hp2.symm))
      rw [(kFrame hnr).1]; exact hI.ownerPc j cj h2 hro
  · -- holder
    intro p hp
    by_cases hpe : p = ct.inner.pid
    · -- the moving process holds the lock: then it is alive
      subst hpe
      rcases hcase with ⟨hs, hd, hin⟩ | ⟨str, hs, hd⟩
      · -- its death released its locks
        exfalso
        rw [hs] at hp
        simp only [onDeath] at hp
        rcases File.closeBy_lock_cases c.sh.ol ct.inner.pid with h1 | h1
        · rw [h1.1] at hp; cases hp
        · rw [h1.1] at hp; exact h1.2 hp
      · exact ⟨i, ct', by rw [hth, List.getElem?_set_self hilt], hd, kPid⟩
    · -- somebody else's lock: it was there before (only the holder itself can take a lock)
      have hbefore : c.sh.ol.lock = some p := by
        rcases hcase with ⟨hs, hd, hin⟩ | ⟨str, hs, hd⟩
        · rw [hs] at hp
          simp only [onDeath] at hp
          rcases File.closeBy_lock_cases c.sh.ol ct.inner.pid with h1 | h1
          · rw [h1.1] at hp; cases hp
          · rw [h1.1] at hp; exact hp
        · rcases kGuar.olNew p hp with h1 | h1
          · exact absurd h1 hpe
          · exact h1
      obtain ⟨k, ck, hk, hdk, hpk⟩ := hI.holder p hbefore
      have hki : k ≠ i := by
        intro hki; subst hki
        rw [hct] at hk; cases hk; exact hpe hpk.symm
      exact ⟨k, ck, by rw [hth, List.getElem?_set_ne (Ne.symm hki)]; exact hk, hdk, hpk⟩

theorem Inv.reachable {c₀ c : Cfg FS (CTh Th)} (h0 : Init c₀) (hr : Reachable csys c₀ c) : Inv c :=
  Reachable.inv Inv h0.inv (fun _ _ _ _ hI hs => hI.step hs) c hr

end Iox2.Lifecycle
