/-
Layer B: the subscriber-side helper functions, via a closure of primitive steps.
-/
import Iox2.Proof.PubSubC01B2
namespace Iox2.PubSub.C01P
open Iox2.PubSub

/-- primitive subscriber-side steps (as far as reference counting is concerned) -/
inductive SubStep : World → World → Prop
  | refl (w : World) : SubStep w w
  | upd {w : World} {s : Nat} {S S' : Sub} : getS w s = some S → S'.held = S.held →
      (S'.alive = true → S.alive = true) → SubStep w (setS w s S')
  | det (w : World) (p s : Nat) : SubStep w (detachReceiver w p s)
  | att {w : World} {s : Nat} {S : Sub} (p : Nat) : getS w s = some S → SubStep w (recvAttach w s p S)
  | panic (w : World) : SubStep w { w with panicked := true }
  | trans {a b c : World} : SubStep a b → SubStep b c → SubStep a c

theorem getD_replicate_false (n c : Nat) : (List.replicate n false).getD c false = false := by
  rw [List.getD_eq_getElem?_getD, List.getElem?_replicate]
  split <;> rfl

theorem InvB.subStep {fl : Option (Nat × Nat × Bool)} {w w' : World} (hs : SubStep w w') (h : InvB fl w) : InvB fl w' := by
  induction hs with
  | refl => exact h
  | upd hS hh ha => exact h.setS_irrel hS hh ha
  | det w p s => exact h.detachReceiver p s
  | @att w s S p hS =>
    unfold recvAttach
    cases hg : getC w p s with
    | some c =>
      simp only
      obtain ⟨_, hcp, hcs⟩ := getC_some hg
      have hg' : getC w ({ c with rAtt := true } : Conn).pid ({ c with rAtt := true } : Conn).sid = some c := by
        show getC w c.pid c.sid = some c
        rw [hcp, hcs]; exact hg
      exact h.setC_irrel (x := { c with rAtt := true }) hg' rfl rfl rfl rfl
    | none =>
      simp only
      refine h.addC_unatt hg rfl ?_ (fun c => getD_replicate_false _ c) rfl
      intro P hP
      simp only at hP
      simp only [hP, List.length_replicate]
  | panic w => exact h.panic
  | trans _ _ ih1 ih2 => exact ih2 (ih1 h)

theorem SubStep.setS_same {w : World} {s : Nat} {S S' : Sub} (hS : getS w s = some S) (hh : S'.held = S.held)
    (ha : S'.alive = S.alive) : SubStep w (setS w s S') :=
  SubStep.upd hS hh (fun h => ha ▸ h)

theorem subDropConn_step (w : World) (s key : Nat) : SubStep w (subDropConn w s key) := by
  unfold subDropConn
  cases hS : getS w s with
  | none => exact SubStep.refl w
  | some S =>
    simp only
    cases hk : smGet S.storage key with
    | none => exact SubStep.refl w
    | some p =>
      simp only
      exact (SubStep.setS_same (S' := { S with storage := smRemove S.storage key }) hS rfl rfl).trans
        (SubStep.det _ p s)

theorem setS_tbr_step {w : World} {s : Nat} {S : Sub} (hS : getS w s = some S) (t : List Nat) :
    SubStep w (setS w s { S with tbr := t }) := SubStep.setS_same hS rfl rfl

theorem prepMakeRoom_step (w : World) (s : Nat) (S : Sub) (hS : getS w s = some S) (hb : Bool) :
    SubStep w (prepMakeRoom w s S hb) := by
  unfold prepMakeRoom
  split
  · exact (setS_tbr_step hS _).trans (subDropConn_step _ s _)
  · split
    · split
      · exact (setS_tbr_step hS _).trans (subDropConn_step _ s _)
      · exact SubStep.refl w
    · exact SubStep.refl w

theorem prepEnqueue_step (w : World) (s key : Nat) (hb : Bool) : SubStep w (prepEnqueue w s key hb) := by
  unfold prepEnqueue
  cases hS : getS w s with
  | none => exact SubStep.refl w
  | some S =>
    simp only
    split
    · exact setS_tbr_step hS _
    · split
      · exact SubStep.panic w
      · exact subDropConn_step w s key

theorem subPrepareRemoval_step (w : World) (s slot : Nat) : SubStep w (subPrepareRemoval w s slot) := by
  rw [subPrepareRemoval_eq]
  cases hS : getS w s with
  | none => exact SubStep.refl w
  | some S =>
    simp only
    cases hk : S.conns.getD slot none with
    | none => exact SubStep.refl w
    | some key =>
      simp only
      cases hf : connFlags w s S key with
      | none => exact SubStep.refl w
      | some fl =>
        obtain ⟨hasData, hasBorrows⟩ := fl
        simp only
        split
        · split
          · exact setS_tbr_step hS _
          · exact (prepMakeRoom_step w s S hS hasBorrows).trans (prepEnqueue_step _ s key hasBorrows)
        · exact subDropConn_step w s key

theorem subCreateConn_step (w : World) (s slot p : Nat) : SubStep w (subCreateConn w s slot p) := by
  rw [subCreateConn_eq]
  cases hS : getS w s with
  | none => exact SubStep.refl w
  | some S =>
    simp only
    have f1 := SubStep.att p hS
    have hS1 : getS (recvAttach w s p S) s = some S := by
      unfold getS; rw [(recvAttach_frame w s p S).2]; exact hS
    generalize smInsert S.storage p = r
    obtain ⟨m, k⟩ := r
    cases k with
    | none => exact f1.trans (SubStep.panic _)
    | some key =>
      simp only
      exact f1.trans (SubStep.setS_same hS1 rfl rfl)

theorem subUpdateSlots_step (w : World) (s : Nat) (l : List (Option Nat)) (i : Nat) (t : List Nat) :
    SubStep w (subUpdateSlots w s l i t).1 := by
  induction l generalizing w i t with
  | nil => exact SubStep.refl w
  | cons x r ih =>
    cases x with
    | none => exact ih w (i + 1) t
    | some p =>
      unfold subUpdateSlots
      cases hS : getS w s with
      | none => exact SubStep.refl w
      | some S =>
        simp only
        split
        · exact ih _ _ _
        · exact ((subPrepareRemoval_step w s i).trans (subCreateConn_step _ s i p)).trans (ih _ _ _)

theorem subFinish_step (w : World) (s : Nat) (t : List Nat) (fuel n : Nat) : SubStep w (subFinish w s t fuel n) := by
  induction fuel generalizing w n with
  | zero => exact SubStep.refl w
  | succ fuel ih =>
    unfold subFinish
    cases hS : getS w s with
    | none => exact SubStep.refl w
    | some S =>
      simp only
      split
      · exact SubStep.refl w
      · refine SubStep.trans ?_ (ih _ _)
        split
        · exact SubStep.refl w
        · split
          · have f1 := subPrepareRemoval_step w s n
            split
            · rename_i S' hS'
              exact f1.trans (SubStep.setS_same hS' rfl rfl)
            · exact f1
          · exact SubStep.refl w

theorem subForceUpdate_step (w : World) (s : Nat) : SubStep w (subForceUpdate w s) := by
  unfold subForceUpdate
  cases hS : getS w s with
  | none => exact SubStep.refl w
  | some S =>
    simp only
    have := subUpdateSlots_step w s S.snap 0 []
    generalize subUpdateSlots w s S.snap 0 [] = d at this
    obtain ⟨w1, tg⟩ := d
    exact this.trans (subFinish_step w1 s tg _ _)

theorem subUpdate_step (w : World) (s : Nat) : SubStep w (subUpdate w s) := by
  unfold subUpdate
  cases hS : getS w s with
  | none => exact SubStep.refl w
  | some S =>
    simp only
    split
    · exact SubStep.refl w
    · exact (SubStep.setS_same (S' := { S with snapCtr := w.pubReg.counter, snap := w.pubReg.slots }) hS rfl rfl).trans
        (subForceUpdate_step _ s)

theorem subDestroyKeys_step (w : World) (s : Nat) (l : List (Nat × Nat)) : SubStep w (subDestroyKeys w s l) := by
  induction l generalizing w with
  | nil => exact SubStep.refl w
  | cons x r ih =>
    obtain ⟨k, p⟩ := x
    unfold subDestroyKeys
    exact (SubStep.det w p s).trans (ih _)

theorem subDestroyIfUnreferenced_step (w : World) (s : Nat) : SubStep w (subDestroyIfUnreferenced w s) := by
  unfold subDestroyIfUnreferenced
  cases hS : getS w s with
  | none => exact SubStep.refl w
  | some S =>
    simp only
    split
    · exact SubStep.refl w
    · have hS1 : getS (subDestroyKeys w s (SlotMap.items S.storage)) s = some S := by
        unfold getS; rw [(subDestroyKeys_frame w s _).2]; exact hS
      exact (subDestroyKeys_step w s _).trans (SubStep.setS_same hS1 rfl rfl)

end Iox2.PubSub.C01P
