/-
C08 helper: subscriber-side actions preserve the invariant (part H: finishing the update cycle).
-/
import Iox2.Proof.PubSubC08SubG
set_option linter.unusedSimpArgs false
set_option linter.unusedVariables false
namespace Iox2.PubSub.C08
open Iox2.PubSub
open Iox2.C16.SlotMapP (abs)
attribute [-simp] List.getD_eq_getElem?_getD

/-- clearing the hole slot closes the hole -/
theorem SubOK.clear_hole {cfg : Cfg} {w : World} {s : Nat} {S : Sub} {n : Nat} (h : SubOK cfg w s S (some n)) :
    SubOK cfg w s { S with conns := S.conns.set n none } none := by
  have hget : ∀ (i k : Nat), (S.conns.set n none)[i]? = some (some k) → i ≠ n ∧ S.conns[i]? = some (some k) := by
    intro i k hi
    rw [List.getElem?_set] at hi
    by_cases hni : n = i
    · subst hni
      rw [if_pos rfl] at hi
      split at hi <;> simp at hi
    · simp only [hni, if_false] at hi
      exact ⟨fun e => hni e.symm, hi⟩
  have hne : ∀ i : Nat, i ≠ n → some i ≠ some n := fun i hi e => hi (by cases e; rfl)
  refine ⟨h.stI, by simp [h.connsLen], h.capEq, h.buf1, h.bufM, h.tbrNodup, h.tbrLen, h.tbrIn, ?_, ?_, ?_,
    h.hasConn, h.pidInj, h.heldKey, h.tbrDead, ?_, h.aliveEx⟩
  · intro i k _ hi
    obtain ⟨a, b⟩ := hget i k hi
    exact h.connKey i k (hne i a) b
  · intro i j k _ _ hi hj
    obtain ⟨a, b⟩ := hget i k hi
    obtain ⟨c, d⟩ := hget j k hj
    exact h.connInj i j k (hne i a) (hne j c) b d
  · intro k hk
    rcases h.cover k hk with ht | ⟨i, hi, hik⟩
    · exact .inl ht
    · right
      refine ⟨i, by simp, ?_⟩
      show (S.conns.set n none)[i]? = _
      rw [List.getElem?_set]
      have : ¬ n = i := fun e => hi (by rw [e])
      simp [this, hik]
  · intro i k p _ hi hk
    obtain ⟨a, b⟩ := hget i k hi
    exact h.connSlot i k p (hne i a) b hk

theorem subFinishOne_inv {cfg : Cfg} {w : World} {xs : Option Nat} {s : Nat}
    (h : InvS cfg w xs s none) {S : Sub} (hS : getS w s = some S) (hal : S.alive = true)
    (tagged : List Nat) (n : Nat)
    (hcov : ∀ (j p : Nat), w.pubReg.slots[j]? = some (some p) → ∃ k : Nat, S.conns[j]? = some (some k) ∧ k ∈ tagged) :
    ((subFinishOne w s S tagged n).panicked = false →
      InvS cfg (subFinishOne w s S tagged n) xs s none ∧
      ∃ S', getS (subFinishOne w s S tagged n) s = some S' ∧ SubUpd S S' ∧
        (∀ (j p : Nat), w.pubReg.slots[j]? = some (some p) → ∃ k : Nat, S'.conns[j]? = some (some k) ∧ k ∈ tagged)) ∧
    (w.panicked = false → S.held.length ≤ cfg.borrowMax → (subFinishOne w s S tagged n).panicked = false) := by
  have hSO : SubOK cfg w s S none := by simpa using h.s s S hS
  unfold subFinishOne
  cases hg : S.conns.getD n none with
  | none => exact ⟨fun _ => ⟨h, S, hS, .refl _, hcov⟩, fun hp _ => hp⟩
  | some key =>
    dsimp only
    have hk : S.conns[n]? = some (some key) := getD_some_iff.mp hg
    split
    next hcond =>
      have hunt : key ∉ tagged := by
        simp at hcond
        exact hcond.2
      have hslotn : ∀ p, w.pubReg.slots[n]? ≠ some (some p) := by
        intro p hp
        obtain ⟨k, a1, a2⟩ := hcov n p hp
        rw [hk] at a1; cases a1
        exact hunt a2
      have hdead : ∀ key' q Q, S.conns[n]? = some (some key') → abs S.storage key' = some q →
          getP w q = some Q → Q.alive = false := by
        intro key' q Q hk' hkq hQ
        cases hQal : Q.alive with
        | false => rfl
        | true =>
          exfalso
          obtain ⟨Q', hQ', hsl⟩ := hSO.connSlot n key' q (by simp) hk' hkq
          rw [hQ] at hQ'; cases hQ'
          have := h.r.rp2 q Q hQ hQal (by simp)
          rw [hsl] at this
          exact hslotn q this
      obtain ⟨a1, a2, S1, hS1, keep1⟩ := subPrepareRemoval_inv h hS n hdead
      rw [hS1]
      dsimp only
      obtain ⟨f1, _, _, _, _, f6, _, _, _, f10, _⟩ := keep1.fields
      refine ⟨fun hnp => ?_, fun hp hdisc => a2 hp hal hdisc⟩
      have hnp1 : (subPrepareRemoval w s n).panicked = false := hnp
      have h1 := a1 hnp1
      have hSO1 : SubOK cfg (subPrepareRemoval w s n) s S1 (some n) := by simpa using h1.s s S1 hS1
      refine ⟨h1.setS_only hS1 _ ⟨rfl, rfl, rfl⟩ rfl hSO1.clear_hole, _, by simp [hS1],
        keep1.upd.trans ⟨S1.storage, S1.tbr, S1.conns.set n none, rfl⟩, ?_⟩
      intro j p hjp
      obtain ⟨k, c1, c2⟩ := hcov j p hjp
      refine ⟨k, ?_, c2⟩
      show (S1.conns.set n none)[j]? = _
      rw [f6, List.getElem?_set]
      have : ¬ n = j := by intro e; subst e; exact hslotn p hjp
      simp [this, c1]
    next => exact ⟨fun _ => ⟨h, S, hS, .refl _, hcov⟩, fun hp _ => hp⟩

theorem subFinish_inv {cfg : Cfg} {xs : Option Nat} (s : Nat) (tagged : List Nat) (fuel : Nat) :
    ∀ {w : World} (h : InvS cfg w xs s none) (n : Nat) {S : Sub} (hS : getS w s = some S) (hal : S.alive = true)
      (hcov : ∀ (j p : Nat), w.pubReg.slots[j]? = some (some p) → ∃ k : Nat, S.conns[j]? = some (some k) ∧ k ∈ tagged),
    ((subFinish w s tagged fuel n).panicked = false →
      InvS cfg (subFinish w s tagged fuel n) xs s none ∧
      ∃ S', getS (subFinish w s tagged fuel n) s = some S' ∧ SubUpd S S') ∧
    (w.panicked = false → S.held.length ≤ cfg.borrowMax → (subFinish w s tagged fuel n).panicked = false) := by
  induction fuel with
  | zero =>
    intro w h n S hS hal hcov
    exact ⟨fun _ => ⟨h, S, hS, .refl _⟩, fun hp _ => hp⟩
  | succ fuel ih =>
    intro w h n S hS hal hcov
    rw [subFinish_succ, hS]
    dsimp only
    split
    · exact ⟨fun _ => ⟨h, S, hS, .refl _⟩, fun hp _ => hp⟩
    · obtain ⟨a1, a2⟩ := subFinishOne_inv h hS hal tagged n hcov
      have hfr1 := SFrame.of_SStep (subFinishOne_S w s S tagged n)
      constructor
      · intro hnp
        have hnp1 := (subFinish_S _ s tagged fuel (n + 1)).panicked_mono hnp
        obtain ⟨b1, S1, hS1, u1, c1⟩ := a1 hnp1
        obtain ⟨k1, _⟩ := ih b1 (n + 1) hS1 (u1.fields.1.trans hal) (by rw [hfr1.pubReg]; exact c1)
        obtain ⟨m1, S', m2, m3⟩ := k1 hnp
        exact ⟨m1, S', m2, u1.trans m3⟩
      · intro hp hdisc
        have hnp1 := a2 hp hdisc
        obtain ⟨b1, S1, hS1, u1, c1⟩ := a1 hnp1
        obtain ⟨_, k2⟩ := ih b1 (n + 1) hS1 (u1.fields.1.trans hal) (by rw [hfr1.pubReg]; exact c1)
        exact k2 hnp1 (by rw [u1.fields.2.2.2.2.2.2.2.2.1]; exact hdisc)

theorem subForceUpdate_inv {cfg : Cfg} {w : World} {xs : Option Nat} {s : Nat}
    (h : InvS cfg w xs s none) {S : Sub} (hS : getS w s = some S) (hal : S.alive = true)
    (hsnap : S.snap = w.pubReg.slots) :
    ((subForceUpdate w s).panicked = false →
      InvS cfg (subForceUpdate w s) xs s none ∧ ∃ S', getS (subForceUpdate w s) s = some S' ∧ SubUpd S S') ∧
    (w.panicked = false → S.held.length ≤ cfg.borrowMax → (subForceUpdate w s).panicked = false) := by
  unfold subForceUpdate
  rw [hS]
  dsimp only
  obtain ⟨a1, a2⟩ := subUpdateSlots_inv (cfg := cfg) (xs := xs) s S.snap h 0 [] hS hal (by rw [hsnap]; simp)
    (fun j p hj => by omega)
  have hfr1 := SFrame.of_SStep (subUpdateSlots_S w s S.snap 0 [])
  have hsl : 0 + S.snap.length = w.pubReg.slots.length := by rw [hsnap]; simp
  constructor
  · intro hnp
    have hnp1 := (subFinish_S _ s _ S.conns.length 0).panicked_mono hnp
    obtain ⟨b1, S1, hS1, u1, c1⟩ := a1 hnp1
    have hcov1 : ∀ (j p : Nat), (subUpdateSlots w s S.snap 0 []).1.pubReg.slots[j]? = some (some p) →
        ∃ k : Nat, S1.conns[j]? = some (some k) ∧ k ∈ (subUpdateSlots w s S.snap 0 []).2 := by
      intro j p hjp
      rw [hfr1.pubReg] at hjp
      exact c1 j p (by rw [hsl]; exact (List.getElem?_eq_some_iff.mp hjp).1) hjp
    obtain ⟨k1, _⟩ := subFinish_inv (cfg := cfg) (xs := xs) s (subUpdateSlots w s S.snap 0 []).2 S.conns.length b1 0 hS1
      (u1.fields.1.trans hal) hcov1
    obtain ⟨m1, S', m2, m3⟩ := k1 hnp
    exact ⟨m1, S', m2, u1.trans m3⟩
  · intro hp hdisc
    have hnp1 := a2 hp hdisc
    obtain ⟨b1, S1, hS1, u1, c1⟩ := a1 hnp1
    have hcov1 : ∀ (j p : Nat), (subUpdateSlots w s S.snap 0 []).1.pubReg.slots[j]? = some (some p) →
        ∃ k : Nat, S1.conns[j]? = some (some k) ∧ k ∈ (subUpdateSlots w s S.snap 0 []).2 := by
      intro j p hjp
      rw [hfr1.pubReg] at hjp
      exact c1 j p (by rw [hsl]; exact (List.getElem?_eq_some_iff.mp hjp).1) hjp
    obtain ⟨_, k2⟩ := subFinish_inv (cfg := cfg) (xs := xs) s (subUpdateSlots w s S.snap 0 []).2 S.conns.length b1 0 hS1
      (u1.fields.1.trans hal) hcov1
    exact k2 hnp1 (by rw [u1.fields.2.2.2.2.2.2.2.2.1]; exact hdisc)

end Iox2.PubSub.C08
