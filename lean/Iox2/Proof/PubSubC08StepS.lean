/-
C08 helper: refined structural relation for the work of one subscriber `s` (needed for the
creation of a subscriber).
-/
import Iox2.Proof.PubSubC08StepP
set_option linter.unusedSimpArgs false
set_option linter.unusedVariables false
namespace Iox2.PubSub.C08
open Iox2.PubSub
attribute [-simp] List.getD_eq_getElem?_getD

inductive SStepS (s : Nat) : World → World → Prop
  | refl (w : World) : SStepS s w w
  | setS (w : World) (x : Sub) : SStepS s w (setS w s x)
  | setC (w : World) (x c : Conn) : getC w x.pid s = some c → x.sid = s → x.sAtt = c.sAtt →
      ((c.sAtt = true ∨ c.rAtt = true) → (x.sAtt = true ∨ x.rAtt = true)) → SStepS s w (setC w x)
  | pushC (w : World) (x : Conn) : x.sid = s → x.sAtt = false → x.rAtt = true → getC w x.pid s = none →
      SStepS s w (pushC w x)
  | dropC (w : World) (p : Nat) : SStepS s w (dropC w p s)
  | panic (w : World) : SStepS s w { w with panicked := true }
  | trans {a b c : World} : SStepS s a b → SStepS s b c → SStepS s a c

theorem filter_map_upd_conn_s (l : List Conn) (x : Conn) (s : Nat) (hx : x.sid = s) :
    (l.map fun c => if c.pid = x.pid ∧ c.sid = x.sid then x else c).filter (fun c => c.sid ≠ s) =
      l.filter (fun c => c.sid ≠ s) := by
  induction l with
  | nil => rfl
  | cons a l ih =>
    simp only [List.map_cons, List.filter_cons]
    by_cases ha : a.pid = x.pid ∧ a.sid = x.sid
    · have has : a.sid = s := ha.2.trans hx
      rw [if_pos ha]
      have h1 : decide (x.sid ≠ s) = false := by simp [hx]
      have h2 : decide (a.sid ≠ s) = false := by simp [has]
      rw [h1, h2]
      exact ih
    · simp only [ha, if_false]
      rw [ih]

theorem filter_map_upd_sub (l : List (Nat × Sub)) (s : Nat) (x : Sub) :
    (l.map fun e => if e.1 = s then (s, x) else e).filter (fun e => e.1 ≠ s) = l.filter (fun e => e.1 ≠ s) := by
  induction l with
  | nil => rfl
  | cons a l ih =>
    simp only [List.map_cons, List.filter_cons]
    by_cases ha : a.1 = s
    · rw [if_pos ha]
      have h1 : decide ((s, x).1 ≠ s) = false := by simp
      have h2 : decide (a.1 ≠ s) = false := by simp [ha]
      rw [h1, h2]
      exact ih
    · simp only [ha, if_false]
      rw [ih]

theorem SStepS.facts {s : Nat} {w w' : World} (h : SStepS s w w') :
    w'.cfg = w.cfg ∧ w'.pubReg = w.pubReg ∧ w'.subReg = w.subReg ∧ w'.pubs = w.pubs ∧
    w'.conns.filter (fun c => c.sid ≠ s) = w.conns.filter (fun c => c.sid ≠ s) ∧
    w'.subs.filter (fun e => e.1 ≠ s) = w.subs.filter (fun e => e.1 ≠ s) ∧
    (∀ p c', getC w' p s = some c' → c'.sAtt = true → ∃ c, getC w p s = some c ∧ c.sAtt = true) ∧
    ((∀ p c, getC w p s = some c → c.sAtt = true ∨ c.rAtt = true) →
      ∀ p c', getC w' p s = some c' → c'.sAtt = true ∨ c'.rAtt = true) := by
  induction h with
  | refl w => exact ⟨rfl, rfl, rfl, rfl, rfl, rfl, fun s c' h1 h2 => ⟨c', h1, h2⟩, fun h => h⟩
  | setS w x => exact ⟨rfl, rfl, rfl, rfl, rfl, filter_map_upd_sub _ _ _, fun s c' h1 h2 => ⟨c', h1, h2⟩, fun h => h⟩
  | setC w x c hc hx hr hatt =>
    have hc' : getC w x.pid x.sid = some c := by rw [hx]; exact hc
    refine ⟨rfl, rfl, rfl, rfl, filter_map_upd_conn_s _ _ _ hx, rfl, ?_, ?_⟩
    · intro p c' h1 h2
      rw [getC_setC_self hc' x ⟨rfl, rfl⟩] at h1
      by_cases hs : p = x.pid ∧ s = x.sid
      · simp [hs] at h1; subst h1
        obtain ⟨rfl, _⟩ := hs
        exact ⟨c, hc, hr ▸ h2⟩
      · simp [hs] at h1
        exact ⟨c', h1, h2⟩
    · intro hall p c' h1
      rw [getC_setC_self hc' x ⟨rfl, rfl⟩] at h1
      by_cases hs : p = x.pid ∧ s = x.sid
      · simp [hs] at h1; subst h1
        exact hatt (hall _ c hc)
      · simp [hs] at h1
        exact hall p c' h1
  | pushC w x hx hr hra hn =>
    have hn' : getC w x.pid x.sid = none := by rw [hx]; exact hn
    refine ⟨rfl, rfl, rfl, rfl, ?_, rfl, ?_, ?_⟩
    · show (w.conns ++ [x]).filter _ = _
      rw [List.filter_append]
      simp [hx]
    · intro p c' h1 h2
      rw [getC_pushC w x p s hn'] at h1
      by_cases hs : p = x.pid ∧ s = x.sid
      · simp [hs] at h1; subst h1
        rw [hr] at h2; cases h2
      · simp [hs] at h1
        exact ⟨c', h1, h2⟩
    · intro hall p c' h1
      rw [getC_pushC w x p s hn'] at h1
      by_cases hs : p = x.pid ∧ s = x.sid
      · simp [hs] at h1; subst h1
        exact .inr hra
      · simp [hs] at h1
        exact hall p c' h1
  | dropC w p =>
    refine ⟨rfl, rfl, rfl, rfl, ?_, rfl, ?_, ?_⟩
    · show (w.conns.filter _).filter _ = _
      rw [List.filter_filter]
      apply List.filter_congr
      intro c _
      by_cases hcp : c.sid = s <;> simp [hcp]
    · intro p' c' h1 h2
      rw [getC_dropC'] at h1
      by_cases hs : p' = p
      · simp [hs] at h1
      · simp [hs] at h1
        exact ⟨c', h1, h2⟩
    · intro hall p' c' h1
      rw [getC_dropC'] at h1
      by_cases hs : p' = p
      · simp [hs] at h1
      · simp [hs] at h1
        exact hall p' c' h1
  | panic w => exact ⟨rfl, rfl, rfl, rfl, rfl, rfl, fun s c' h1 h2 => ⟨c', h1, h2⟩, fun h => h⟩
  | trans _ _ ih1 ih2 =>
    obtain ⟨a1, a2, a3, a4, a6, a7, a8, a9⟩ := ih1
    obtain ⟨b1, b2, b3, b4, b6, b7, b8, b9⟩ := ih2
    refine ⟨b1.trans a1, b2.trans a2, b3.trans a3, b4.trans a4, b6.trans a6, b7.trans a7, ?_, fun hall => b9 (a9 hall)⟩
    intro p c' h1 h2
    obtain ⟨c1, g1, g2⟩ := b8 p c' h1 h2
    exact a8 p c1 g1 g2

theorem SStepS.setC' {p s : Nat} {w : World} {c : Conn} (hc : getC w p s = some c) (x : Conn)
    (h1 : x.pid = c.pid) (h2 : x.sid = c.sid) (h3 : x.sAtt = c.sAtt)
    (h4 : (c.sAtt = true ∨ c.rAtt = true) → (x.sAtt = true ∨ x.rAtt = true)) :
    SStepS s w (Iox2.PubSub.setC w x) := by
  have hk := getC_key hc
  exact .setC w x c (by rw [h1, hk.1]; exact hc) (h2.trans hk.2) h3 h4

theorem detachReceiver_SS (w : World) (p s : Nat) : SStepS s w (detachReceiver w p s) := by
  rw [detachReceiver_eq]
  split
  · exact .refl _
  next c hc =>
    split
    next hr => exact .setC' hc _ rfl rfl rfl (fun _ => .inl hr)
    · exact .dropC _ _

theorem subDropConn_SS (w : World) (s key : Nat) : SStepS s w (subDropConn w s key) := by
  unfold subDropConn
  split
  · exact .refl _
  · split
    · exact .refl _
    · exact .trans (.setS _ _) (detachReceiver_SS _ _ _)

theorem prepEvict_SS (w : World) (s : Nat) (S : Sub) (hb : Bool) : SStepS s w (prepEvict w s S hb) := by
  unfold prepEvict
  split
  · exact .trans (.setS _ _) (subDropConn_SS _ _ _)
  · split
    · split
      · exact .trans (.setS _ _) (subDropConn_SS _ _ _)
      · exact .refl _
    · exact .refl _

theorem prepRetry_SS (w : World) (s key : Nat) (hb : Bool) : SStepS s w (prepRetry w s key hb) := by
  unfold prepRetry
  split
  · exact .refl _
  · split
    · exact .setS _ _
    · split
      · exact .panic _
      · exact subDropConn_SS _ _ _

theorem subPrepareRemoval_SS (w : World) (s slot : Nat) : SStepS s w (subPrepareRemoval w s slot) := by
  rw [subPrepareRemoval_eq]
  split
  · exact .refl _
  · split
    · exact .refl _
    · split
      · exact .refl _
      · split
        · split
          · exact .setS _ _
          · exact .trans (prepEvict_SS _ _ _ _) (prepRetry_SS _ _ _ _)
        · exact subDropConn_SS _ _ _

theorem subAttach_SS (w : World) (s p : Nat) (S : Sub) : SStepS s w (subAttach w s p S) := by
  unfold subAttach
  split
  next c hc => exact .setC' hc _ rfl rfl rfl (fun _ => .inr rfl)
  next hc => exact .pushC _ _ rfl rfl rfl hc

theorem subCreateConn_SS (w : World) (s slot p : Nat) : SStepS s w (subCreateConn w s slot p) := by
  rw [subCreateConn_eq]
  split
  · exact .refl _
  · split
    · exact .trans (subAttach_SS _ _ _ _) (.setS _ _)
    · exact .trans (subAttach_SS _ _ _ _) (.panic _)

theorem subUpdateSlots_SS (w : World) (s : Nat) (l : List (Option Nat)) (i : Nat) (t : List Nat) :
    SStepS s w (subUpdateSlots w s l i t).1 := by
  induction l generalizing w i t with
  | nil => exact .refl _
  | cons a l ih =>
    cases a with
    | none => rw [subUpdateSlots]; exact ih _ _ _
    | some e =>
      rw [subUpdateSlots_cons_some]
      split
      · exact .refl _
      · split
        · exact ih _ _ _
        · exact .trans (.trans (subPrepareRemoval_SS _ _ _) (subCreateConn_SS _ _ _ _)) (ih _ _ _)

theorem subFinishOne_SS (w : World) (s : Nat) (S : Sub) (t : List Nat) (n : Nat) :
    SStepS s w (subFinishOne w s S t n) := by
  unfold subFinishOne
  split
  · exact .refl _
  · split
    · split
      · exact .trans (subPrepareRemoval_SS _ _ _) (.setS _ _)
      · exact subPrepareRemoval_SS _ _ _
    · exact .refl _

theorem subFinish_SS (w : World) (s : Nat) (t : List Nat) (fuel n : Nat) : SStepS s w (subFinish w s t fuel n) := by
  induction fuel generalizing w n with
  | zero => exact .refl _
  | succ k ih =>
    rw [subFinish_succ]
    split
    · exact .refl _
    · split
      · exact .refl _
      · exact .trans (subFinishOne_SS _ _ _ _ _) (ih _ _)

theorem subForceUpdate_SS (w : World) (s : Nat) : SStepS s w (subForceUpdate w s) := by
  unfold subForceUpdate
  split
  · exact .refl _
  · exact .trans (subUpdateSlots_SS _ _ _ _ _) (subFinish_SS _ _ _ _ _)

theorem subDestroyKeys_SS (w : World) (s : Nat) (l : List (Nat × Nat)) : SStepS s w (subDestroyKeys w s l) := by
  induction l generalizing w with
  | nil => exact .refl _
  | cons a l ih =>
    obtain ⟨k, p⟩ := a
    rw [subDestroyKeys]; exact .trans (detachReceiver_SS _ _ _) (ih _)

end Iox2.PubSub.C08
