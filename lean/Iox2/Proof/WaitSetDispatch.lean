/-
What one processing call (`runOnce`) of the wait-set model reports, in terms of the guards the
caller holds.  Helper lemmas for Iox2/Props/C20.lean.
-/
import Iox2.Proof.WaitSetInv

namespace Iox2.WaitSet

/-! ## deadline arithmetic -/

/-- directly after a reset only a zero period counts as missed -/
theorem missed_reset (last now : Nat) (a : DqAtt) :
    missed last now { a with start := now } = decide (a.period = 0) := by
  unfold missed
  by_cases h : a.period = 0
  · simp [h]
  · simp [h]

/-- nothing is missed between `now` and `now` except zero periods -/
theorem missed_now_now (now : Nat) (a : DqAtt) (h : a.period ≠ 0) : missed now now a = false := by
  unfold missed
  simp only [h, if_false, decide_eq_false_iff_not, Nat.not_lt]
  apply Nat.div_le_div_right
  omega

/-- the peek of `duration_until_next_deadline` does not change which deadlines the call reports -/
theorem missed_prevAfterPeek (s : State) (a : DqAtt) (ha : a ∈ s.dq) :
    missed (prevAfterPeek s) s.now a = missed s.prev s.now a := by
  unfold prevAfterPeek
  split
  · rfl
  · split
    · rfl
    · rename_i hany
      have hall : missed s.prev s.now a = false := by
        cases hm : missed s.prev s.now a with
        | false => rfl
        | true => exact absurd (List.any_eq_true.mpr ⟨a, ha, hm⟩) hany
      rw [hall]
      apply missed_now_now
      intro hp
      simp [missed, hp] at hall

/-! ## membership in the callback sequence -/

theorem mem_matchAll {gs : List (Nat × Guard)} {id : AttId} {g : Nat} {k : Kind} :
    (g, k) ∈ matchAll gs id ↔ ∃ gd, (g, gd) ∈ gs ∧ matchGuard id gd = some k := by
  unfold matchAll
  simp only [List.mem_filterMap, Option.map_eq_some_iff, Prod.mk.injEq]
  constructor
  · rintro ⟨e, he, k', hk, rfl, rfl⟩
    exact ⟨e.2, he, hk⟩
  · rintro ⟨gd, hm, hk⟩
    exact ⟨(g, gd), hm, k, hk, rfl, rfl⟩

theorem mem_dqAfterReset {s : State} {a' : DqAtt} :
    a' ∈ dqAfterReset s ↔ ∃ a ∈ s.dq, a' =
      if (triggered s).any (fun fd => mapGet fd s.a2d == some a.idx) then { a with start := s.now } else a := by
  unfold dqAfterReset
  rw [foldl_resetFor, List.mem_map]
  constructor
  · rintro ⟨a, ha, rfl⟩; exact ⟨a, ha, rfl⟩
  · rintro ⟨a, ha, rfl⟩; exact ⟨a, ha, rfl⟩

theorem mem_callbackIds_notif {s : State} {fd : Nat} :
    AttId.notif fd ∈ callbackIds s ↔ fd ∈ triggered s := by
  unfold callbackIds
  simp only [List.mem_append, List.mem_map]
  constructor
  · rintro (⟨a, _, h⟩ | ⟨fd', h, he⟩)
    · split at h <;> cases h
    · cases he; exact h
  · intro h
    exact Or.inr ⟨fd, h, rfl⟩

theorem mem_callbackIds_tick {s : State} {i : Nat} :
    AttId.tick i ∈ callbackIds s ↔
      ∃ a ∈ dqAfterReset s, missed (prevAfterPeek s) s.now a = true ∧ mapGet a.idx s.d2a = none ∧ a.idx = i := by
  unfold callbackIds
  simp only [List.mem_append, List.mem_map, List.mem_filter]
  constructor
  · rintro (⟨a, ⟨ha, hm⟩, h⟩ | ⟨fd', _, he⟩)
    · split at h
      · cases h
      · rename_i hn
        cases h
        exact ⟨a, ha, hm, hn, rfl⟩
    · cases he
  · rintro ⟨a, ha, hm, hn, rfl⟩
    refine Or.inl ⟨a, ⟨ha, hm⟩, ?_⟩
    simp [hn]

theorem mem_callbackIds_deadline {s : State} {fd i : Nat} :
    AttId.deadline fd i ∈ callbackIds s ↔
      ∃ a ∈ dqAfterReset s, missed (prevAfterPeek s) s.now a = true ∧ mapGet a.idx s.d2a = some fd ∧ a.idx = i := by
  unfold callbackIds
  simp only [List.mem_append, List.mem_map, List.mem_filter]
  constructor
  · rintro (⟨a, ⟨ha, hm⟩, h⟩ | ⟨fd', _, he⟩)
    · split at h
      · rename_i fd'' hn
        cases h
        exact ⟨a, ha, hm, hn, rfl⟩
      · cases h
    · cases he
  · rintro ⟨a, ha, hm, hn, rfl⟩
    refine Or.inl ⟨a, ⟨ha, hm⟩, ?_⟩
    simp [hn]

/-! ## which queue entries a processing call resets (needs the invariant) -/

theorem mem_triggered {s : State} (h : Inv s) {fd : Nat} :
    fd ∈ triggered s ↔ fd ∈ fds s.guards ∧ ready s fd = true := by
  unfold triggered
  rw [List.mem_filter, h.reactor]

/-- the entry of an interval guard is never reset -/
theorem reset_tick {s : State} (h : Inv s) {g i : Nat} (hm : (g, Guard.tick i) ∈ s.guards) :
    (triggered s).any (fun fd => mapGet fd s.a2d == some i) = false := by
  cases hany : (triggered s).any (fun fd => mapGet fd s.a2d == some i) with
  | false => rfl
  | true =>
    exfalso
    obtain ⟨fd, _, hfd⟩ := List.any_eq_true.mp hany
    have hget : mapGet fd s.a2d = some i := by simpa using hfd
    obtain ⟨g', hg'⟩ := h.a2dLive fd i hget (mem_idxs.mpr ⟨g, _, hm, rfl⟩)
    have := key_unique idxOf h.idxNodup hm hg' (x := i) rfl rfl
    cases this

/-- the entry of a deadline guard is reset iff its descriptor is readable -/
theorem reset_deadline {s : State} (h : Inv s) {g fd i : Nat} (hm : (g, Guard.deadline fd i) ∈ s.guards) :
    (triggered s).any (fun fd' => mapGet fd' s.a2d == some i) = ready s fd := by
  cases hr : ready s fd with
  | true =>
    apply List.any_eq_true.mpr
    refine ⟨fd, (mem_triggered h).mpr ⟨mem_fds.mpr ⟨g, _, hm, rfl⟩, hr⟩, ?_⟩
    simp [h.a2dDl g fd i hm]
  | false =>
    cases hany : (triggered s).any (fun fd' => mapGet fd' s.a2d == some i) with
    | false => rfl
    | true =>
      exfalso
      obtain ⟨fd', hfd', hget⟩ := List.any_eq_true.mp hany
      have hget : mapGet fd' s.a2d = some i := by simpa using hget
      obtain ⟨g', hg'⟩ := h.a2dLive fd' i hget (mem_idxs.mpr ⟨g, _, hm, rfl⟩)
      have := key_unique idxOf h.idxNodup hm hg' (x := i) rfl rfl
      cases this
      have := ((mem_triggered h).mp hfd').2
      rw [hr] at this
      cases this

/-- every queue entry belongs to exactly one interval or deadline guard -/
theorem dq_entry_guard {s : State} (h : Inv s) {a : DqAtt} (ha : a ∈ s.dq) :
    ∃ g gd, (g, gd) ∈ s.guards ∧ idxOf gd = some a.idx := by
  have : a.idx ∈ s.dq.map (·.idx) := List.mem_map.mpr ⟨a, ha, rfl⟩
  rw [h.dq] at this
  exact mem_idxs.mp this

/-- a guard with an index has a queue entry -/
theorem guard_dq_entry {s : State} (h : Inv s) {g i : Nat} {gd : Guard} (hm : (g, gd) ∈ s.guards)
    (hi : idxOf gd = some i) : ∃ a ∈ s.dq, a.idx = i := by
  have : i ∈ s.dq.map (·.idx) := by
    rw [h.dq]; exact mem_idxs.mpr ⟨g, gd, hm, hi⟩
  obtain ⟨a, ha, rfl⟩ := List.mem_map.mp this
  exact ⟨a, ha, rfl⟩

theorem eq_of_nodup_map {α : Type} (f : α → Nat) {l : List α} (hn : (l.map f).Nodup) {a b : α}
    (ha : a ∈ l) (hb : b ∈ l) (hab : f a = f b) : a = b := by
  induction l with
  | nil => cases ha
  | cons x l ih =>
    simp only [List.map_cons, List.nodup_cons] at hn
    rcases List.mem_cons.mp ha with r1 | r1 <;> rcases List.mem_cons.mp hb with r2 | r2
    · rw [r1, r2]
    · subst r1; exact absurd (List.mem_map.mpr ⟨b, r2, hab.symm⟩) hn.1
    · subst r2; exact absurd (List.mem_map.mpr ⟨a, r1, hab⟩) hn.1
    · exact ih hn.2 r1 r2

/-- queue indices are unique -/
theorem dq_idx_unique {s : State} (h : Inv s) {a b : DqAtt} (ha : a ∈ s.dq) (hb : b ∈ s.dq)
    (hab : a.idx = b.idx) : a = b := by
  have hn : (s.dq.map (·.idx)).Nodup := h.dq ▸ h.idxNodup
  exact eq_of_nodup_map (·.idx) hn ha hb hab

end Iox2.WaitSet
