/-
What one processing call (`runOnce`) of the wait-set model reports, in terms of the guards the
caller holds.  Helper lemmas for Iox2/Props/C20.lean.
-/
import Iox2.Proof.WaitSetInv

namespace Iox2.WaitSet

/-! ## deadline arithmetic -/

/-- directly after a reset only a zero period counts as missed -/
theorem missed_reset (last now : Nat) (a : DqAtt) :
    missed last now { a with start := now } = decide (a.period = 0) := by
  unfold missed
  by_cases h : a.period = 0
  · simp [h]
  · simp [h]

/-- nothing is missed between `now` and `now` except zero periods -/
theorem missed_now_now (now : Nat) (a : DqAtt) (h : a.period ≠ 0) : missed now now a = false := by
  unfold missed
  simp only [h, if_false, decide_eq_false_iff_not, Nat.not_lt]
  apply Nat.div_le_div_right
  omega

/-- the peek of `duration_until_next_deadline` does not change which deadlines the call reports -/
theorem missed_prevAfterPeek (s : State) (a : DqAtt) (ha : a ∈ s.dq) :
    missed (prevAfterPeek s) s.now a = missed s.prev s.now a := by
  unfold prevAfterPeek
  split
  · rfl
  · split
    · rfl
    · rename_i hany
      have hall : missed s.prev s.now a = false := by
        cases hm : missed s.prev s.now a with
        | false => rfl
        | true => exact absurd (List.any_eq_true.mpr ⟨a, ha, hm⟩) hany
      rw [hall]
      apply missed_now_now
      intro hp
      simp [missed, hp] at hall

/-! ## membership in the callback sequence -/

theorem mem_matchAll {gs : List (Nat × Guard)} {id : AttId} {g : Nat} {k : Kind} :
    (g, k) ∈ matchAll gs id ↔ ∃ gd, (g, gd) ∈ gs ∧ matchGuard id gd = some k := by
  unfold matchAll
  simp only [List.mem_filterMap, Option.map_eq_some_iff, Prod.mk.injEq]
  constructor
  · rintro ⟨e, he, k', hk, rfl, rfl⟩
    exact ⟨e.2, he, hk⟩
  · rintro ⟨gd, hm, hk⟩
    exact ⟨(g, gd), hm, k, hk, rfl, rfl⟩

theorem mem_dqAfterReset {s : State} {a' : DqAtt} :
    a' ∈ dqAfterReset s ↔ ∃ a ∈ s.dq, a' =
      if (triggered s).any (fun fd => mapGet fd s.a2d == some a.idx) then { a with start := s.now } else a := by
  unfold dqAfterReset
  rw [foldl_resetFor, List.mem_map]
  constructor
  · rintro ⟨a, ha, rfl⟩; exact ⟨a, ha, rfl⟩
  · rintro ⟨a, ha, rfl⟩; exact ⟨a, ha, rfl⟩

theorem mem_callbackIds_notif {s : State} {fd : Nat} :
    AttId.notif fd ∈ callbackIds s ↔ fd ∈ triggered s := by
  unfold callbackIds
  simp only [List.mem_append, List.mem_map]
  constructor
  · rintro (⟨a, _, h⟩ | ⟨fd', h, he⟩)
    · split at h <;> cases h
    · cases he; exact h
  · intro h
    exact Or.inr ⟨fd, h, rfl⟩

theorem mem_callbackIds_tick {s : State} {i : Nat} :
    AttId.tick i ∈ callbackIds s ↔
      ∃ a ∈ dqAfterReset s, missed (prevAfterPeek s) s.now a = true ∧ mapGet a.idx s.d2a = none ∧ a.idx = i := by
  unfold callbackIds
  simp only [List.mem_append, List.mem_map, List.mem_filter]
  constructor
  · rintro (⟨a, ⟨ha, hm⟩, h⟩ | ⟨fd', _, he⟩)
    · split at h
      · cases h
      · rename_i hn
        cases h
        exact ⟨a, ha, hm, hn, rfl⟩
    · cases he
  · rintro ⟨a, ha, hm, hn, rfl⟩
    refine Or.inl ⟨a, ⟨ha, hm⟩, ?_⟩
    simp [hn]

theorem mem_callbackIds_deadline {s : State} {fd i : Nat} :
    AttId.deadline fd i ∈ callbackIds s ↔
      ∃ a ∈ dqAfterReset s, missed (prevAfterPeek s) s.now a = true ∧ mapGet a.idx s.d2a = some fd ∧ a.idx = i := by
  unfold callbackIds
  simp only [List.mem_append, List.mem_map, List.mem_filter]
  constructor
  · rintro (⟨a, ⟨ha, hm⟩, h⟩ | ⟨fd', _, he⟩)
    · split at h
      · rename_i fd'' hn
        cases h
        exact ⟨a, ha, hm, hn, rfl⟩
      · cases h
    · cases he
  · rintro ⟨a, ha, hm, hn, rfl⟩
    refine Or.inl ⟨a, ⟨ha, hm⟩, ?_⟩
    simp [hn]

/-! ## which queue entries a processing call resets (needs the invariant) -/

theorem mem_triggered {s : State} (h : Inv s) {fd : Nat} :
    fd ∈ triggered s ↔ fd ∈ fds s.guards ∧ ready s fd = true := by
  unfold triggered
  rw [List.mem_filter, h.reactor]

/-- the entry of an interval guard is never reset -/
theorem reset_tick {s : State} (h : Inv s) {g i : Nat} (hm : (g, Guard.tick i) ∈ s.guards) :
    (triggered s).any (fun fd => mapGet fd s.a2d == some i) = false := by
  cases hany : (triggered s).any (fun fd => mapGet fd s.a2d == some i) with
  | false => rfl
  | true =>
    exfalso
    obtain ⟨fd, _, hfd⟩ := List.any_eq_true.mp hany
    have hget : mapGet fd s.a2d = some i := by simpa using hfd
    obtain ⟨g', hg'⟩ := h.a2dLive fd i hget (mem_idxs.mpr ⟨g, _, hm, rfl⟩)
    have := key_unique idxOf h.idxNodup hm hg' (x := i) rfl rfl
    cases this

/-- the entry of a deadline guard is reset iff its descriptor is readable -/
theorem reset_deadline {s : State} (h : Inv s) {g fd i : Nat} (hm : (g, Guard.deadline fd i) ∈ s.guards) :
    (triggered s).any (fun fd' => mapGet fd' s.a2d == some i) = ready s fd := by
  cases hr : ready s fd with
  | true =>
    apply List.any_eq_true.mpr
    refine ⟨fd, (mem_triggered h).mpr ⟨mem_fds.mpr ⟨g, _, hm, rfl⟩, hr⟩, ?_⟩
    simp [h.a2dDl g fd i hm]
  | false =>
    cases hany : (triggered s).any (fun fd' => mapGet fd' s.a2d == some i) with
    | false => rfl
    | true =>
      exfalso
      obtain ⟨fd', hfd', hget⟩ := List.any_eq_true.mp hany
      have hget : mapGet fd' s.a2d = some i := by simpa using hget
      obtain ⟨g', hg'⟩ := h.a2dLive fd' i hget (mem_idxs.mpr ⟨g, _, hm, rfl⟩)
      have := key_unique idxOf h.idxNodup hm hg' (x := i) rfl rfl
      cases this
      have := ((mem_triggered h).mp hfd').2
      rw [hr] at this
      cases this

/-- every queue entry belongs to exactly one interval or deadline guard -/
theorem dq_entry_guard {s : State} (h : Inv s) {a : DqAtt} (ha : a ∈ s.dq) :
    ∃ g gd, (g, gd) ∈ s.guards ∧ idxOf gd = some a.idx := by
  have : a.idx ∈ s.dq.map (·.idx) := List.mem_map.mpr ⟨a, ha, rfl⟩
  rw [h.dq] at this
  exact mem_idxs.mp this

/-- a guard with an index has a queue entry -/
theorem guard_dq_entry {s : State} (h : Inv s) {g i : Nat} {gd : Guard} (hm : (g, gd) ∈ s.guards)
    (hi : idxOf gd = some i) : ∃ a ∈ s.dq, a.idx = i := by
  have : i ∈ s.dq.map (·.idx) := by
    rw [h.dq]; exact mem_idxs.mpr ⟨g, gd, hm, hi⟩
  obtain ⟨a, ha, rfl⟩ := List.mem_map.mp this
  exact ⟨a, ha, rfl⟩

theorem eq_of_nodup_map {α : Type} (f : α → Nat) {l : List α} (hn : (l.map f).Nodup) {a b : α}
    (ha : a ∈ l) (hb : b ∈ l) (hab : f a = f b) : a = b := by
  induction l with
  | nil => cases ha
  | cons x l ih =>
    simp only [List.map_cons, List.nodup_cons] at hn
    rcases List.mem_cons.mp ha with r1 | r1 <;> rcases List.mem_cons.mp hb with r2 | r2
    · rw [r1, r2]
    · subst r1; exact absurd (List.mem_map.mpr ⟨b, r2, hab.symm⟩) hn.1
    · subst r2; exact absurd (List.mem_map.mpr ⟨a, r1, hab⟩) hn.1
    · exact ih hn.2 r1 r2

/-- queue indices are unique -/
theorem dq_idx_unique {s : State} (h : Inv s) {a b : DqAtt} (ha : a ∈ s.dq) (hb : b ∈ s.dq)
    (hab : a.idx = b.idx) : a = b := by
  have hn : (s.dq.map (·.idx)).Nodup := h.dq ▸ h.idxNodup
  exact eq_of_nodup_map (·.idx) hn ha hb hab


/-! ## no report is made twice -/

theorem nodup_flatMap_of {α β : Type} {l : List α} {f : α → List β} (h1 : ∀ x ∈ l, (f x).Nodup) (h2 : l.Nodup)
    (h3 : ∀ x ∈ l, ∀ y ∈ l, ∀ b, b ∈ f x → b ∈ f y → x = y) : (l.flatMap f).Nodup := by
  induction l with
  | nil => simp
  | cons x l ih =>
    simp only [List.flatMap_cons]
    simp only [List.nodup_cons] at h2
    apply List.nodup_append.mpr
    refine ⟨h1 x (by simp), ?_, ?_⟩
    · exact ih (fun y hy => h1 y (List.mem_cons_of_mem _ hy)) h2.2
        (fun a ha b hb => h3 a (List.mem_cons_of_mem _ ha) b (List.mem_cons_of_mem _ hb))
    · intro a ha b hb hab
      obtain ⟨y, hy, hby⟩ := List.mem_flatMap.mp hb
      have := h3 x (by simp) y (List.mem_cons_of_mem _ hy) a ha (hab ▸ hby)
      exact h2.1 (this ▸ hy)

theorem nodup_map_of_injOn {α β : Type} {l : List α} {f : α → β} (h : l.Nodup)
    (hinj : ∀ a ∈ l, ∀ b ∈ l, f a = f b → a = b) : (l.map f).Nodup := by
  induction l with
  | nil => simp
  | cons x l ih =>
    simp only [List.nodup_cons] at h
    simp only [List.map_cons, List.nodup_cons]
    constructor
    · intro hm
      obtain ⟨y, hy, hxy⟩ := List.mem_map.mp hm
      have := hinj y (List.mem_cons_of_mem _ hy) x (by simp) hxy
      exact h.1 (this ▸ hy)
    · exact ih h.2 (fun a ha b hb => hinj a (List.mem_cons_of_mem _ ha) b (List.mem_cons_of_mem _ hb))

theorem nodup_of_nodup_map {α β : Type} {l : List α} (f : α → β) (h : (l.map f).Nodup) : l.Nodup := by
  induction l with
  | nil => simp
  | cons x l ih =>
    simp only [List.map_cons, List.nodup_cons] at h
    simp only [List.nodup_cons]
    exact ⟨fun hx => h.1 (List.mem_map.mpr ⟨x, hx, rfl⟩), ih h.2⟩

/-- a guard and a kind determine the callback id -/
theorem matchGuard_inj {id1 id2 : AttId} {gd : Guard} {k : Kind} (h1 : matchGuard id1 gd = some k)
    (h2 : matchGuard id2 gd = some k) : id1 = id2 := by
  cases id1 <;> cases id2 <;> cases gd <;> simp [matchGuard] at h1 h2 ⊢ <;>
    (try (split at h1 <;> split at h2 <;> simp_all)) <;> (try omega) <;>
    (try (obtain ⟨_, hk1⟩ := h1; obtain ⟨_, hk2⟩ := h2; rw [← hk1] at hk2; cases hk2))

theorem matchAll_nodup {gs : List (Nat × Guard)} (hl : (gs.map Prod.fst).Nodup) (id : AttId) :
    (matchAll gs id).Nodup := by
  unfold matchAll
  induction gs with
  | nil => simp
  | cons e gs ih =>
    simp only [List.map_cons, List.nodup_cons] at hl
    simp only [List.filterMap_cons]
    cases hk : (matchGuard id e.2).map (fun k => (e.1, k)) with
    | none => simp only; exact ih hl.2
    | some x =>
      simp only [List.nodup_cons]
      refine ⟨?_, ih hl.2⟩
      intro hm
      obtain ⟨e', he', hx⟩ := List.mem_filterMap.mp hm
      have hx1 : x.1 = e.1 := by
        cases hmg : matchGuard id e.2 with
        | none => simp [hmg] at hk
        | some k => simp [hmg] at hk; rw [← hk]
      have hx2 : x.1 = e'.1 := by
        cases hmg : matchGuard id e'.2 with
        | none => simp [hmg] at hx
        | some k => simp [hmg] at hx; rw [← hx]
      exact hl.1 (List.mem_map.mpr ⟨e', he', by rw [← hx2, hx1]⟩)

theorem callbackIds_nodup {s : State} (h : Inv s) : (callbackIds s).Nodup := by
  unfold callbackIds
  have hdq : (dqAfterReset s).Nodup := by
    apply nodup_of_nodup_map (·.idx)
    rw [dqAfterReset_idx, h.dq]; exact h.idxNodup
  have hidx : ((dqAfterReset s).map (·.idx)).Nodup := by
    rw [dqAfterReset_idx, h.dq]; exact h.idxNodup
  apply List.nodup_append.mpr
  refine ⟨?_, ?_, ?_⟩
  · apply nodup_map_of_injOn (List.Nodup.sublist List.filter_sublist hdq)
    intro a ha b hb hab
    have ha' := (List.mem_filter.mp ha).1
    have hb' := (List.mem_filter.mp hb).1
    apply eq_of_nodup_map (·.idx) hidx ha' hb'
    split at hab <;> split at hab <;> simp_all
  · apply nodup_map_of_injOn
    · unfold triggered
      exact List.Nodup.sublist List.filter_sublist (h.reactor ▸ h.fdsNodup)
    · intro a _ b _ hab; cases hab; rfl
  · intro a ha b hb hab
    obtain ⟨x, _, hx⟩ := List.mem_map.mp ha
    obtain ⟨y, _, hy⟩ := List.mem_map.mp hb
    rw [← hx, ← hy] at hab
    split at hab <;> cases hab

end Iox2.WaitSet
