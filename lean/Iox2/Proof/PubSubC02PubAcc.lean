/-
C02 — the record updates that `.loan/.dloan/.send/.probe` perform on a publisher.
-/
import Iox2.Proof.PubSubC02Retrieve
import Iox2.Proof.PubSubC02Final

namespace Iox2.PubSub.C02P
open Iox2.PubSub
open Iox2.C16.SlotMapP (abs WInv)

theorem init_inv (cfg : Cfg) : Inv {} {} (World.init cfg) := by
  have hP : ∀ q, getP (World.init cfg) q = none := fun _ => rfl
  have hS : ∀ q, getS (World.init cfg) q = none := fun _ => rfl
  have hC : ∀ a b, getC (World.init cfg) a b = none := fun _ _ => rfl
  refine ⟨⟨⟨?_, ?_, ?_, ?_, ?_, ?_, ?_, ?_, ?_, ?_, ?_⟩, ?_, ?_, ?_⟩, ⟨?_, ?_, ?_⟩⟩
  · simp [World.init, Reg.init]
  · simp [World.init, Reg.init]
  · intro i p h
    simp only [World.init, Reg.init, List.getElem?_replicate] at h
    split at h <;> simp at h
  · intro i e h
    simp only [World.init, Reg.init, List.getElem?_replicate] at h
    split at h <;> simp at h
  · intro p P h; rw [hP] at h; cases h
  · intro s S h; rw [hS] at h; cases h
  · intro p h; cases h
  · intro s h; cases h
  · intro p h; cases h
  · intro s h; cases h
  · exact List.Pairwise.nil
  · intro p P h; rw [hP] at h; cases h
  · intro s S h; rw [hS] at h; cases h
  · intro a b cn h; rw [hC] at h; cases h
  · intro p P h; rw [hP] at h; cases h
  · intro s S h; rw [hS] at h; cases h
  · intro a b cn h; rw [hC] at h; cases h

/-- the ghost only matters for the publisher it names -/
theorem PubAcc.ghost {A A' : GA} {w : World} {q : Nat} {Q : Pub} (h : PubAcc A w q Q)
    (hA : ∀ c, A.xp ≠ some (q, c)) (hA' : ∀ c, A'.xp ≠ some (q, c)) : PubAcc A' w q Q := by
  have e : ∀ c, extra A q c = 0 := fun c => by simp [extra, hA c]
  have e' : ∀ c, extra A' q c = 0 := fun c => by simp [extra, hA' c]
  refine ⟨h.free, ?_, h.loans, h.loanLbl, h.histNodup, h.histLt, ?_, ?_⟩
  · intro c hc; rw [h.rcEq c hc, e, e']
  · intro c hx; exact absurd hx (hA' c)
  · intro c hx; exact absurd hx (hA' c)

/-- ghost change: a variant of `Inv.update_P` where the accounting ghost changes -/
theorem Inv.update_P' {G : GT} {A A' : GA} {w : World} {p : Nat} {P P' : Pub}
    (hi : Inv G A w) (hP : getP w p = some P)
    (hA : ∀ q c, q ≠ p → A.xp ≠ some (q, c)) (hA' : ∀ q c, q ≠ p → A'.xp ≠ some (q, c))
    (ep : ptop P' = ptop P) (hn : P'.n = P.n)
    (hpay : ∀ s S h, getS w s = some S → S.alive = true → h ∈ S.held → h.pid = p →
       P'.payload.getD h.chunk 0 = P.payload.getD h.chunk 0)
    (hpa : P.ex = true → PubAcc A' (setP w p P') p P')
    (hpl : P.ex = false → P'.loans = []) :
    Inv G A' (setP w p P') := by
  have hgP : ∀ q, getP (setP w p P') q = if q = p then some P' else getP w q := by
    intro q; simp [hP]
  obtain ⟨e1, e2, e3, e4, e5⟩ := ptop_eq ep
  refine ⟨top_congr hi.top (topEq_setP hi.top.reg.nodup hP ep), ?_, ?_, ?_⟩
  · intro q Q hQ
    rw [hgP] at hQ
    by_cases hq : q = p
    · subst hq
      simp only [if_true, Option.some.injEq] at hQ
      subst hQ
      exact ⟨fun h => hpa (by rw [← e2]; exact h), fun h => hpl (by rw [← e2]; exact h)⟩
    · simp only [hq, if_false] at hQ
      obtain ⟨h1, h2⟩ := hi.acc.pubs q Q hQ
      exact ⟨fun hx => ((h1 hx).ghost (fun c => hA q c hq) (fun c => hA' q c hq)).congr
        (fun t x _ => rfl), h2⟩
  · intro t T hT
    obtain ⟨h1, h2, h3⟩ := hi.acc.subs t T hT
    refine ⟨h1, h2, fun ha x hx => ?_⟩
    obtain ⟨Q, hQ, hq⟩ := h3 ha x hx
    rw [hgP]
    by_cases hxp : x.pid = p
    · rw [hxp] at hQ; rw [hP] at hQ; cases hQ
      exact ⟨P', by simp [hxp], by rw [hpay t T x hT ha hx hxp]; exact hq⟩
    · exact ⟨Q, by simp [hxp, hQ], hq⟩
  · intro a b cn hcn Pa Sb hPa hSb
    rw [hgP] at hPa
    show ConnAcc w.cfg cn Pa Sb
    by_cases ha : a = p
    · subst ha
      simp only [if_true, Option.some.injEq] at hPa
      subst hPa
      exact (hi.acc.conns a b cn hcn P Sb hP hSb).congr hn e2 rfl rfl
    · simp only [ha, if_false] at hPa
      exact hi.acc.conns a b cn hcn Pa Sb hPa hSb

/-! ### facts about loans -/

theorem connCnt_zero {w : World} {p : Nat} {conns : List (Option Nat)} {c : Nat}
    (h : connCnt w p conns c = 0) {s : Nat} (hm : some s ∈ conns) : usedBit w p s c = false := by
  cases hb : usedBit w p s c with
  | false => rfl
  | true => have := connCnt_pos hm hb; omega

theorem find_label {loans : List (Nat × Nat)} {l l' c : Nat}
    (h : loans.find? (·.1 = l) = some (l', c)) : l' = l ∧ (l, c) ∈ loans := by
  have h1 := List.find?_some h
  have h2 := List.mem_of_find?_eq_some h
  simp at h1
  subst h1
  exact ⟨rfl, h2⟩

/-- removing the loan with label `l` (labels are unique) removes one entry for its chunk -/
theorem filter_label_count {loans : List (Nat × Nat)} {l c : Nat}
    (hn : (loans.map (·.1)).Nodup) (hm : (l, c) ∈ loans) (c' : Nat) :
    ((loans.filter (·.1 ≠ l)).filter (·.2 = c')).length + (if c' = c then 1 else 0) =
      (loans.filter (·.2 = c')).length := by
  induction loans with
  | nil => simp at hm
  | cons a t ih =>
    simp only [List.map_cons, List.nodup_cons] at hn
    rcases List.mem_cons.mp hm with h | h
    · subst h
      have hnot : ∀ x ∈ t, x.1 ≠ l := by
        intro x hx e; exact hn.1 (List.mem_map.mpr ⟨x, hx, e⟩)
      have : t.filter (·.1 ≠ l) = t := by
        apply List.filter_eq_self.mpr
        intro x hx; simp [hnot x hx]
      simp only [List.filter_cons, ne_eq, not_true_eq_false, decide_false, this]
      by_cases hc : c' = c
      · subst hc; simp
      · have : ¬ c = c' := fun e => hc e.symm
        simp [hc, this]
    · have hal : a.1 ≠ l := by
        intro e; apply hn.1; exact List.mem_map.mpr ⟨(l, c), h, e.symm⟩
      have ih' := ih hn.2 h
      simp only [ne_eq] at ih'
      simp only [List.filter_cons, ne_eq, hal, not_false_eq_true, decide_true, if_true]
      by_cases hac : a.2 = c'
      · simp only [hac, decide_true, if_true, List.length_cons]; omega
      · simp only [hac, decide_false]; exact ih'

theorem mem_filter_label {loans : List (Nat × Nat)} {l : Nat} {x : Nat × Nat}
    (h : x ∈ loans.filter (·.1 ≠ l)) : x ∈ loans ∧ x.1 ≠ l := by
  simpa [List.mem_filter] using h

/-- facts about a publisher with existing shared state -/
theorem Inv.pubAcc {G : GT} {A : GA} {w : World} (hi : Inv G A w) {p : Nat} {P : Pub}
    (hP : getP w p = some P) (hex : P.ex = true) : PubAcc A w p P := (hi.acc.pubs p P hP).1 hex

theorem Inv.ex_of_loan {G : GT} {A : GA} {w : World} (hi : Inv G A w) {p : Nat} {P : Pub}
    (hP : getP w p = some P) {x : Nat × Nat} (hx : x ∈ P.loans) : P.ex = true := by
  cases h : P.ex with
  | true => rfl
  | false => have := (hi.acc.pubs p P hP).2 h; rw [this] at hx; cases hx

/-- `.loan`: the head of the free list is handed out -/
theorem loan_inv {G : GT} {A : GA} {w : World} {p l c : Nat} {P : Pub} {rest : List Nat}
    (hi : Inv G A w) (hP : getP w p = some P) (ha : P.alive = true)
    (hl : P.loans.find? (·.1 = l) = none) (hf : P.free = c :: rest) :
    P.rc.getD c 0 = 0 ∧
    Inv G A (setP w p { P with free := rest, rc := P.rc.set c 1, loanCnt := P.loanCnt + 1,
                               loans := P.loans ++ [(l, c)] }) := by
  have hex := (hi.top.pubs p P hP).aliveEx ha
  have pa := hi.pubAcc hP hex
  have hcf : c ∈ P.free := by rw [hf]; simp
  obtain ⟨hclt, hc0⟩ := (pa.free.freeIff c).mp hcf
  have hnd := pa.free.freeNodup
  rw [hf, List.nodup_cons] at hnd
  have hrl : c < P.rc.length := by rw [pa.free.rcLen]; exact hclt
  have hr0 := pa.rcEq c hclt
  rw [hc0] at hr0
  unfold refCnt at hr0
  refine ⟨hc0, ?_⟩
  refine hi.update_P hP ?_ ?_ ?_ ?_ ?_
  · rfl
  · rfl
  · rfl
  · intro _
    refine ⟨⟨by simp [pa.free.rcLen], hnd.2, ?_⟩, ?_, ?_, ?_, pa.histNodup, pa.histLt, pa.xLt, ?_⟩
    · intro c'
      show c' ∈ rest ↔ c' < P.n ∧ (P.rc.set c 1).getD c' 0 = 0
      rw [getD_set_nat]
      by_cases hcc : c = c'
      · subst hcc; simp [hrl, hnd.1]
      · have h1 : ¬ (c = c' ∧ c < P.rc.length) := fun h => hcc h.1
        simp only [h1, if_false]
        rw [← pa.free.freeIff c', hf, List.mem_cons]
        constructor
        · intro h; exact Or.inr h
        · rintro (h | h)
          · exact absurd h.symm hcc
          · exact h
    · intro c' hc'
      show (P.rc.set c 1).getD c' 0 = refCnt _ p _ c' + extra A p c'
      rw [getD_set_nat]
      unfold refCnt
      have hcn : ∀ X : Pub, connCnt (setP w p X) p P.conns c' = connCnt w p P.conns c' :=
        fun X => connCnt_congr (fun s _ => rfl)
      dsimp only
      simp only [hcn, List.filter_append, List.length_append]
      by_cases hcc : c = c'
      · subst hcc
        simp only [true_and, hrl, if_true]
        simp
        omega
      · have h1 : ¬ (c = c' ∧ c < P.rc.length) := fun h => hcc h.1
        simp only [h1, if_false]
        have := pa.rcEq c' hc'
        unfold refCnt at this
        rw [List.getD_eq_getElem?_getD] at this
        simp [hcc]
        omega
    · intro l' c' hm
      show c' < P.n ∧ (P.rc.set c 1).getD c' 0 = 1
      rw [getD_set_nat]
      rcases List.mem_append.mp hm with h | h
      · obtain ⟨h1, h2⟩ := pa.loans l' c' h
        have hcc : c ≠ c' := by intro e; subst e; omega
        have h3 : ¬ (c = c' ∧ c < P.rc.length) := fun h => hcc h.1
        simp only [h3, if_false]; exact ⟨h1, h2⟩
      · simp at h; obtain ⟨_, rfl⟩ := h
        simp [hrl, hclt]
    · show ((P.loans ++ [(l, c)]).map (·.1)).Nodup
      rw [List.map_append, List.nodup_append]
      refine ⟨pa.loanLbl, by simp, ?_⟩
      intro a ha' b hb
      simp at hb; subst hb
      intro e; subst e
      obtain ⟨x, hx, hxl⟩ := List.mem_map.mp ha'
      have := List.find?_eq_none.mp hl x hx
      simp [hxl] at this
    · intro c' hx hfr
      show (P.rc.set c 1).getD c' 0 = 1
      have := pa.xFresh c' hx hfr
      rw [getD_set_nat]
      have hcc : c ≠ c' := by intro e; subst e; omega
      have h3 : ¬ (c = c' ∧ c < P.rc.length) := fun h => hcc h.1
      simp only [h3, if_false]; exact this
  · intro h; rw [hex] at h; cases h

theorem filter_label_nodup {loans : List (Nat × Nat)} (l : Nat) (hn : (loans.map (·.1)).Nodup) :
    ((loans.filter (·.1 ≠ l)).map (·.1)).Nodup :=
  List.Nodup.sublist (List.Sublist.map _ List.filter_sublist) hn

theorem length_filter_pos {α : Type} {l : List α} {q : α → Bool} {a : α} (h : a ∈ l) (hq : q a = true) :
    1 ≤ (l.filter q).length :=
  List.length_pos_of_mem (List.mem_filter.mpr ⟨h, hq⟩)

/-- `.dloan` (before `pubDestroyIfUnreferenced`) -/
theorem dloan_inv {G : GT} {A : GA} {w : World} {p l l' c : Nat} {P : Pub}
    (hi : Inv G A w) (hP : getP w p = some P) (hl : P.loans.find? (·.1 = l) = some (l', c)) :
    Inv G A (setP w p { P.releaseChunk c with loanCnt := P.loanCnt - 1,
                                               loans := P.loans.filter (·.1 ≠ l) }) := by
  obtain ⟨hll, hmem⟩ := find_label hl
  have hex := hi.ex_of_loan hP hmem
  have pa := hi.pubAcc hP hex
  obtain ⟨hclt, hc1⟩ := pa.loans l c hmem
  have hrl : c < P.rc.length := by rw [pa.free.rcLen]; exact hclt
  have hcount := filter_label_count pa.loanLbl hmem
  have hr := pa.rcEq c hclt
  unfold refCnt at hr
  have hlc := length_filter_pos (q := fun x => decide (x.2 = c)) hmem (by simp)
  refine hi.update_P hP ?_ ?_ ?_ ?_ ?_
  · simp [ptop]
  · simp
  · simp
  · intro _
    have hcn : ∀ X : Pub, ∀ c', connCnt (setP w p X) p P.conns c' = connCnt w p P.conns c' :=
      fun X c' => connCnt_congr (fun s _ => rfl)
    refine ⟨(pa.free.release hclt (by omega)).congr rfl rfl rfl, ?_, ?_, filter_label_nodup l pa.loanLbl,
      by simpa using pa.histNodup, by simpa using pa.histLt, by simpa using pa.xLt, ?_⟩
    · intro c' hc'
      show (P.releaseChunk c).rc.getD c' 0 = refCnt _ p _ c' + extra A p c'
      rw [releaseChunk_rc, getD_set_nat]
      unfold refCnt
      dsimp only
      rw [releaseChunk_hist, releaseChunk_conns, hcn]
      have h1 := hcount c'
      have h2 := pa.rcEq c' (by simpa using hc')
      unfold refCnt at h2
      by_cases hcc : c = c'
      · subst hcc
        simp only [true_and, hrl, if_true] at h1 ⊢
        omega
      · have h3 : ¬ (c = c' ∧ c < P.rc.length) := fun h => hcc h.1
        have h4 : ¬ c' = c := fun e => hcc e.symm
        simp only [h3, h4, if_false] at h1 ⊢
        omega
    · intro l'' c'' hm0
      have hm : (l'', c'') ∈ P.loans.filter (·.1 ≠ l) := hm0
      obtain ⟨hm1, hm2⟩ := mem_filter_label hm
      obtain ⟨h1, h2⟩ := pa.loans l'' c'' hm1
      refine ⟨by simpa using h1, ?_⟩
      show (P.releaseChunk c).rc.getD c'' 0 = 1
      rw [releaseChunk_rc, getD_set_nat]
      have hcc : c ≠ c'' := by
        intro e; subst e
        have h3 := hcount c
        simp only [if_true] at h3
        have h4 := length_filter_pos (q := fun x => decide (x.2 = c)) hm (by simp)
        omega
      have h3 : ¬ (c = c'' ∧ c < P.rc.length) := fun h => hcc h.1
      simp only [h3, if_false]; exact h2
    · intro c' hx hfr
      show (P.releaseChunk c).rc.getD c' 0 = 1
      have := pa.xFresh c' hx hfr
      rw [releaseChunk_rc, getD_set_nat]
      have hcc : c ≠ c' := by
        intro e; subst e
        have : extra A p c = 1 := by simp [extra, hx]
        omega
      have h3 : ¬ (c = c' ∧ c < P.rc.length) := fun h => hcc h.1
      simp only [h3, if_false]; exact this
  · intro h; rw [hex] at h; cases h

end Iox2.PubSub.C02P
