/-
C06 — facts about single calls of the L1 service-lifetime model that need no invariant:
order of the checks of `open`, refusals leave the world unchanged, shape of the outputs.
-/
import Iox2.Model.ServiceLife

namespace Iox2.ServiceLife

attribute [-simp] List.getD_eq_getElem?_getD

/-! ## `firstFail`: the first stated requirement, in code order, that is not satisfied -/

/-- requirement `i` is stated and not satisfied by the existing settings -/
def failsAt (fs : List Field) (es : List Nat) (rs : List (Option Nat)) (i : Nat) : Prop :=
  ∃ f e v, fs[i]? = some f ∧ es[i]? = some e ∧ rs[i]? = some (some v) ∧ checkFails f e v = true

theorem firstFail_none_iff (fs : List Field) (es : List Nat) (rs : List (Option Nat)) :
    firstFail fs es rs = none ↔ ∀ i, ¬ failsAt fs es rs i := by
  induction fs generalizing es rs with
  | nil => simp [firstFail, failsAt]
  | cons f fs ih =>
    cases es with
    | nil => simp [firstFail, failsAt]
    | cons e es =>
      cases rs with
      | nil => simp [firstFail, failsAt]
      | cons r rs =>
        cases r with
        | none =>
          simp only [firstFail]
          rw [ih]
          constructor
          · intro h i
            cases i with
            | zero => simp [failsAt]
            | succ i => simpa [failsAt] using h i
          · intro h i
            simpa [failsAt] using h (i + 1)
        | some v =>
          simp only [firstFail]
          by_cases hc : checkFails f e v = true
          · simp only [hc, if_true]
            constructor
            · intro h; cases h
            · intro h; exact absurd ⟨f, e, v, by simp, by simp, by simp, hc⟩ (h 0)
          · have hc' : checkFails f e v = false := by simpa using hc
            simp only [hc', Bool.false_eq_true, if_false]
            rw [ih]
            constructor
            · intro h i
              cases i with
              | zero => simp [failsAt, hc']
              | succ i => simpa [failsAt] using h i
            · intro h i
              simpa [failsAt] using h (i + 1)

/-- the reported error belongs to the first failing requirement in code order -/
theorem firstFail_some_iff (fs : List Field) (es : List Nat) (rs : List (Option Nat)) (err : String) :
    firstFail fs es rs = some err ↔
      ∃ i f, fs[i]? = some f ∧ f.err = err ∧ failsAt fs es rs i ∧ ∀ j, j < i → ¬ failsAt fs es rs j := by
  induction fs generalizing es rs with
  | nil => simp [firstFail, failsAt]
  | cons f fs ih =>
    cases es with
    | nil => simp [firstFail, failsAt]
    | cons e es =>
      cases rs with
      | nil => simp [firstFail, failsAt]
      | cons r rs =>
        have shift : ∀ i, failsAt (f :: fs) (e :: es) (r :: rs) (i + 1) ↔ failsAt fs es rs i := by
          intro i; simp [failsAt]
        cases r with
        | none =>
          have h0 : ¬ failsAt (f :: fs) (e :: es) (none :: rs) 0 := by simp [failsAt]
          simp only [firstFail]
          rw [ih]
          constructor
          · rintro ⟨i, g, hg, he, hf, hlt⟩
            refine ⟨i + 1, g, by simpa using hg, he, (shift i).mpr hf, ?_⟩
            intro j hj
            cases j with
            | zero => exact h0
            | succ j => rw [shift]; exact hlt j (by omega)
          · rintro ⟨i, g, hg, he, hf, hlt⟩
            cases i with
            | zero => exact absurd hf h0
            | succ i =>
              refine ⟨i, g, by simpa using hg, he, (shift i).mp hf, ?_⟩
              intro j hj
              rw [← shift]; exact hlt (j + 1) (by omega)
        | some v =>
          simp only [firstFail]
          by_cases hc : checkFails f e v = true
          · simp only [hc, if_true]
            constructor
            · intro h
              injection h with h
              exact ⟨0, f, by simp, h, ⟨f, e, v, by simp, by simp, by simp, hc⟩, by intro j hj; omega⟩
            · rintro ⟨i, g, hg, he, hf, hlt⟩
              cases i with
              | zero => simp at hg; subst hg; rw [he]
              | succ i => exact absurd ⟨f, e, v, by simp, by simp, by simp, hc⟩ (hlt 0 (by omega))
          · have hc' : checkFails f e v = false := by simpa using hc
            have h0 : ¬ failsAt (f :: fs) (e :: es) (some v :: rs) 0 := by
              simp [failsAt, hc']
            simp only [hc', Bool.false_eq_true, if_false]
            rw [ih]
            constructor
            · rintro ⟨i, g, hg, he, hf, hlt⟩
              refine ⟨i + 1, g, by simpa using hg, he, (shift i).mpr hf, ?_⟩
              intro j hj
              cases j with
              | zero => exact h0
              | succ j => rw [shift]; exact hlt j (by omega)
            · rintro ⟨i, g, hg, he, hf, hlt⟩
              cases i with
              | zero => exact absurd hf h0
              | succ i =>
                refine ⟨i, g, by simpa using hg, he, (shift i).mp hf, ?_⟩
                intro j hj
                rw [← shift]; exact hlt (j + 1) (by omega)

/-! ## `verify`: types, then attributes, then the stated settings -/

theorem verify_none_iff (p : Pat) (r : Req) (ex : Settings) :
    verify p r ex = none ↔
      typesOk p r.types ex.types = true ∧ attrsOk r ex.attrs = true ∧ ∀ i, ¬ failsAt (fieldsOf p) ex.vals r.vals i := by
  unfold verify
  by_cases ht : typesOk p r.types ex.types = true
  · by_cases ha : attrsOk r ex.attrs = true
    · simp [ht, ha, firstFail_none_iff]
    · simp [ht, ha]
  · simp [ht]

/-- which error `verify` reports: the first failing check in code order -/
theorem verify_some_iff (p : Pat) (r : Req) (ex : Settings) (err : String) :
    verify p r ex = some err ↔
      (typesOk p r.types ex.types = false ∧ err = typeErr p) ∨
      (typesOk p r.types ex.types = true ∧ attrsOk r ex.attrs = false ∧ err = "IncompatibleAttributes") ∨
      (typesOk p r.types ex.types = true ∧ attrsOk r ex.attrs = true ∧ firstFail (fieldsOf p) ex.vals r.vals = some err) := by
  unfold verify
  cases ht : typesOk p r.types ex.types <;> cases ha : attrsOk r ex.attrs <;> simp [eq_comm]

/-! ## single calls: outcome and effect -/

def Out.isOk : Out → Bool
  | .okCfg _ _ => true
  | _ => false

/-- `create` succeeds iff its own checks pass and the service does not exist; it then returns exactly
the settings it asked for -/
theorem createCore_ok_iff (w : World) (n h : Nat) (k : Key) (r : Req) (q : Pat) (c : Settings) :
    (createCore w n h k r).2 = .okCfg q c ↔
      preCheck k.p r (mkSettings k.p r).vals = none ∧ findSvc w k = none ∧ lateFails k.p r = false ∧
      zeroCap (fieldsOf k.p) (mkSettings k.p r).vals = false ∧ q = k.p ∧ c = mkSettings k.p r := by
  unfold createCore
  dsimp only
  cases hp : preCheck k.p r (mkSettings k.p r).vals with
  | some e => simp
  | none =>
    cases hf : findSvc w k with
    | some s => simp
    | none =>
      cases hlate : lateFails k.p r with
      | true => simp
      | false =>
        cases hz : zeroCap (fieldsOf k.p) (mkSettings k.p r).vals with
        | true => simp
        | false => simp [addState, eq_comm]

/-- every outcome of `create` other than success leaves the world unchanged -/
theorem createCore_unchanged (w : World) (n h : Nat) (k : Key) (r : Req)
    (hn : (createCore w n h k r).2.isOk = false) : (createCore w n h k r).1 = w := by
  unfold createCore at *
  dsimp only at *
  cases hp : preCheck k.p r (mkSettings k.p r).vals with
  | some e => simp
  | none =>
    cases hf : findSvc w k with
    | some s => simp
    | none =>
      cases hlate : lateFails k.p r with
      | true => simp
      | false =>
        cases hz : zeroCap (fieldsOf k.p) (mkSettings k.p r).vals with
        | true => simp
        | false => simp [hp, hf, hlate, hz, Out.isOk] at hn

/-- the ways `create` ends, in code order -/
theorem createCore_out (w : World) (n h : Nat) (k : Key) (r : Req) :
    (createCore w n h k r).2 =
      match preCheck k.p r (mkSettings k.p r).vals with
      | some e => .err 0 e
      | none =>
        if (findSvc w k).isSome then .err 0 "AlreadyExists"
        else if lateFails k.p r then .err 0 (lateErr k.p)
        else if zeroCap (fieldsOf k.p) (mkSettings k.p r).vals then .panic
        else .okCfg k.p (mkSettings k.p r) := by
  unfold createCore
  dsimp only
  cases hp : preCheck k.p r (mkSettings k.p r).vals with
  | some e => simp
  | none =>
    cases hf : findSvc w k with
    | some s => simp
    | none =>
      cases hlate : lateFails k.p r <;> cases hz : zeroCap (fieldsOf k.p) (mkSettings k.p r).vals <;> simp [addState]

/-- `open`: the outcome, in code order -/
theorem openCore_out (w : World) (n h : Nat) (k : Key) (r : Req) :
    (openCore w n h k r).2 =
      match findSvc w k with
      | none => .err 0 "DoesNotExist"
      | some svc =>
        match verify k.p r svc.cfg with
        | some e => .err 0 e
        | none =>
          if refCount w n k == 0 && maxNodes k.p svc.cfg ≤ svc.regs.length then .err 0 "ExceedsMaxNumberOfNodes"
          else .okCfg k.p svc.cfg := by
  unfold openCore
  cases hf : findSvc w k with
  | none => rfl
  | some svc =>
    dsimp only
    cases hv : verify k.p r svc.cfg with
    | some e => rfl
    | none =>
      dsimp only
      split <;> rfl

theorem openCore_unchanged (w : World) (n h : Nat) (k : Key) (r : Req)
    (hn : (openCore w n h k r).2.isOk = false) : (openCore w n h k r).1 = w := by
  rw [openCore_out] at hn
  unfold openCore
  cases hf : findSvc w k with
  | none => rfl
  | some svc =>
    dsimp only
    rw [hf] at hn
    dsimp only at hn
    cases hv : verify k.p r svc.cfg with
    | some e => rfl
    | none =>
      dsimp only
      rw [hv] at hn
      dsimp only at hn
      split
      · rfl
      · rename_i hc
        simp [hc, Out.isOk] at hn

/-- a successful `open` returns exactly the settings stored in the static config -/
theorem openCore_ok (w : World) (n h : Nat) (k : Key) (r : Req) (q : Pat) (c : Settings)
    (hok : (openCore w n h k r).2 = .okCfg q c) :
    ∃ svc, findSvc w k = some svc ∧ c = svc.cfg ∧ q = k.p ∧ verify k.p r svc.cfg = none ∧
      ¬ (refCount w n k = 0 ∧ maxNodes k.p svc.cfg ≤ svc.regs.length) := by
  rw [openCore_out] at hok
  cases hf : findSvc w k with
  | none => simp [hf] at hok
  | some svc =>
    cases hv : verify k.p r svc.cfg with
    | some e => simp [hf, hv] at hok
    | none =>
      by_cases hc : (refCount w n k == 0 && decide (maxNodes k.p svc.cfg ≤ svc.regs.length)) = true
      · simp [hf, hv, hc] at hok
      · simp only [hf, hv, hc] at hok
        simp at hok
        refine ⟨svc, rfl, hok.2.symm, hok.1.symm, hv, ?_⟩
        simpa using hc

theorem wrapErr_isOk (wrap : Nat) (x : World × Out) : (wrapErr wrap x).2.isOk = x.2.isOk := by
  obtain ⟨w, o⟩ := x
  cases o <;> simp [wrapErr, Out.isOk]

theorem wrapErr_fst (wrap : Nat) (x : World × Out) : (wrapErr wrap x).1 = x.1 := by
  obtain ⟨w, o⟩ := x
  cases o <;> simp [wrapErr]

/-- `open_or_create` with the adjusted request made explicit -/
def oocWith (w : World) (n h : Nat) (k : Key) (r' : Req) : World × Out :=
  match openCore w n h k r' with
  | (w', .err _ e) => if e == "DoesNotExist" then wrapErr 2 (createCore w n h k { r' with keys := [] }) else (w', .err 1 e)
  | x => x

theorem oocCore_eq (w : World) (n h : Nat) (k : Key) (r : Req) :
    oocCore w n h k r = oocWith w n h k { r with vals := clampReq (fieldsOf k.p) r.vals } := rfl

theorem oocWith_unchanged (w : World) (n h : Nat) (k : Key) (r' : Req)
    (hn : (oocWith w n h k r').2.isOk = false) : (oocWith w n h k r').1 = w := by
  have hu := openCore_unchanged w n h k r'
  unfold oocWith at *
  revert hn hu
  generalize openCore w n h k r' = x
  intro hn hu
  obtain ⟨w', o⟩ := x
  cases o with
  | err wr e =>
    dsimp only at hn ⊢
    have hw : w' = w := hu (by simp [Out.isOk])
    by_cases he : (e == "DoesNotExist") = true
    · simp only [he, if_true] at hn ⊢
      rw [wrapErr_fst]
      rw [wrapErr_isOk] at hn
      exact createCore_unchanged w n h k _ hn
    · simp only [he] at hn ⊢
      simpa using hw
  | okCfg q c => simp [Out.isOk] at hn
  | ok => exact hu (by simp [Out.isOk])
  | dup => exact hu (by simp [Out.isOk])
  | none => exact hu (by simp [Out.isOk])
  | noNode => exact hu (by simp [Out.isOk])
  | noOoc => exact hu (by simp [Out.isOk])
  | badKind => exact hu (by simp [Out.isOk])
  | panic => exact hu (by simp [Out.isOk])
  | bool b => exact hu (by simp [Out.isOk])
  | regs l => exact hu (by simp [Out.isOk])
  | cfg q c => exact hu (by simp [Out.isOk])
  | list l => exact hu (by simp [Out.isOk])
  | files a b c => exact hu (by simp [Out.isOk])

/-- `open_or_create` that does not succeed leaves the world unchanged -/
theorem oocCore_unchanged (w : World) (n h : Nat) (k : Key) (r : Req)
    (hn : (oocCore w n h k r).2.isOk = false) : (oocCore w n h k r).1 = w := by
  rw [oocCore_eq] at *
  exact oocWith_unchanged w n h k _ hn

/-- create / open / open_or_create: whatever is not a success leaves everything as it was -/
theorem step_call_unchanged (w : World) (o : Op)
    (hcall : (∃ n s h p r, o = .create n s h p r) ∨ (∃ n s h p r, o = .open_ n s h p r) ∨ (∃ n s h p r, o = .ooc n s h p r))
    (hn : (step w o).2.isOk = false) : (step w o).1 = w := by
  rcases hcall with ⟨n, s, h, p, r, rfl⟩ | ⟨n, s, h, p, r, rfl⟩ | ⟨n, s, h, p, r, rfl⟩
  · simp only [step] at *
    by_cases hl : labelUsed w h = true
    · simp [hl]
    · by_cases hnode : hasNode w n = true
      · simp only [hl, hnode] at hn ⊢
        simp at hn ⊢
        exact createCore_unchanged w n h ⟨s, p⟩ r hn
      · simp [hl, hnode]
  · simp only [step] at *
    by_cases hl : labelUsed w h = true
    · simp [hl]
    · by_cases hnode : hasNode w n = true
      · simp only [hl, hnode] at hn ⊢
        simp at hn ⊢
        exact openCore_unchanged w n h ⟨s, p⟩ r hn
      · simp [hl, hnode]
  · simp only [step] at *
    by_cases hl : labelUsed w h = true
    · simp [hl]
    · by_cases hnode : hasNode w n = true
      · by_cases hp : p = .bb
        · simp [hl, hnode, hp]
        · simp only [hl, hnode, hp] at hn ⊢
          simp at hn ⊢
          exact oocCore_unchanged w n h ⟨s, p⟩ r hn
      · simp [hl, hnode]

end Iox2.ServiceLife
