/-
C02 — lemmas about the pure publisher functions (`releaseChunk`, `borrowChunk`).
-/
import Iox2.Proof.PubSubC02Count

namespace Iox2.PubSub.C02P
open Iox2.PubSub

section fields
variable (P : Pub) (c : Nat)
@[simp] theorem releaseChunk_alive : (P.releaseChunk c).alive = P.alive := by simp only [Pub.releaseChunk]; split <;> rfl
@[simp] theorem releaseChunk_ex : (P.releaseChunk c).ex = P.ex := by simp only [Pub.releaseChunk]; split <;> rfl
@[simp] theorem releaseChunk_slot : (P.releaseChunk c).slot = P.slot := by simp only [Pub.releaseChunk]; split <;> rfl
@[simp] theorem releaseChunk_maxLoans : (P.releaseChunk c).maxLoans = P.maxLoans := by simp only [Pub.releaseChunk]; split <;> rfl
@[simp] theorem releaseChunk_n : (P.releaseChunk c).n = P.n := by simp only [Pub.releaseChunk]; split <;> rfl
@[simp] theorem releaseChunk_loanCnt : (P.releaseChunk c).loanCnt = P.loanCnt := by simp only [Pub.releaseChunk]; split <;> rfl
@[simp] theorem releaseChunk_hist : (P.releaseChunk c).hist = P.hist := by simp only [Pub.releaseChunk]; split <;> rfl
@[simp] theorem releaseChunk_conns : (P.releaseChunk c).conns = P.conns := by simp only [Pub.releaseChunk]; split <;> rfl
@[simp] theorem releaseChunk_snapCtr : (P.releaseChunk c).snapCtr = P.snapCtr := by simp only [Pub.releaseChunk]; split <;> rfl
@[simp] theorem releaseChunk_snap : (P.releaseChunk c).snap = P.snap := by simp only [Pub.releaseChunk]; split <;> rfl
@[simp] theorem releaseChunk_loans : (P.releaseChunk c).loans = P.loans := by simp only [Pub.releaseChunk]; split <;> rfl
@[simp] theorem releaseChunk_payload : (P.releaseChunk c).payload = P.payload := by simp only [Pub.releaseChunk]; split <;> rfl
@[simp] theorem releaseChunk_seq : (P.releaseChunk c).seq = P.seq := by simp only [Pub.releaseChunk]; split <;> rfl
@[simp] theorem releaseChunk_chunkSeq : (P.releaseChunk c).chunkSeq = P.chunkSeq := by simp only [Pub.releaseChunk]; split <;> rfl
@[simp] theorem releaseChunk_sent : (P.releaseChunk c).sent = P.sent := by simp only [Pub.releaseChunk]; split <;> rfl
theorem releaseChunk_rc : (P.releaseChunk c).rc = P.rc.set c (P.rc.getD c 0 - 1) := by
  simp only [Pub.releaseChunk]; split <;> rfl
theorem releaseChunk_free :
    (P.releaseChunk c).free = if P.rc.getD c 0 = 1 then c :: P.free else P.free := by
  simp only [Pub.releaseChunk]; split <;> rfl
@[simp] theorem releaseChunk_ptop : ptop (P.releaseChunk c) = ptop P := by simp [ptop]

@[simp] theorem borrowChunk_alive : (P.borrowChunk c).alive = P.alive := rfl
@[simp] theorem borrowChunk_ex : (P.borrowChunk c).ex = P.ex := rfl
@[simp] theorem borrowChunk_slot : (P.borrowChunk c).slot = P.slot := rfl
@[simp] theorem borrowChunk_n : (P.borrowChunk c).n = P.n := rfl
@[simp] theorem borrowChunk_hist : (P.borrowChunk c).hist = P.hist := rfl
@[simp] theorem borrowChunk_conns : (P.borrowChunk c).conns = P.conns := rfl
@[simp] theorem borrowChunk_snap : (P.borrowChunk c).snap = P.snap := rfl
@[simp] theorem borrowChunk_loans : (P.borrowChunk c).loans = P.loans := rfl
@[simp] theorem borrowChunk_payload : (P.borrowChunk c).payload = P.payload := rfl
@[simp] theorem borrowChunk_free : (P.borrowChunk c).free = P.free := rfl
theorem borrowChunk_rc : (P.borrowChunk c).rc = P.rc.set c (P.rc.getD c 0 + 1) := rfl
@[simp] theorem borrowChunk_ptop : ptop (P.borrowChunk c) = ptop P := rfl
end fields

theorem FreeOK.congr {P P' : Pub} (h : FreeOK P) (h1 : P'.rc = P.rc) (h2 : P'.free = P.free)
    (h3 : P'.n = P.n) : FreeOK P' := by
  refine ⟨by rw [h1, h3]; exact h.rcLen, by rw [h2]; exact h.freeNodup, ?_⟩
  intro c; rw [h1, h2, h3]; exact h.freeIff c

theorem FreeOK.release {P : Pub} (h : FreeOK P) {ch : Nat} (hlt : ch < P.n)
    (hpos : 1 ≤ P.rc.getD ch 0) : FreeOK (P.releaseChunk ch) := by
  have hl : ch < P.rc.length := by rw [h.rcLen]; exact hlt
  refine ⟨by simp [releaseChunk_rc, h.rcLen], ?_, ?_⟩
  · rw [releaseChunk_free]
    split
    · refine List.nodup_cons.mpr ⟨?_, h.freeNodup⟩
      intro hm
      have := ((h.freeIff ch).mp hm).2
      omega
    · exact h.freeNodup
  · intro c
    rw [releaseChunk_free, releaseChunk_rc, releaseChunk_n, getD_set_nat]
    by_cases hc : ch = c
    · subst hc
      simp only [true_and, hl, if_true]
      by_cases h1 : P.rc.getD ch 0 = 1
      · rw [if_pos h1]
        constructor
        · intro _; exact ⟨hlt, by omega⟩
        · intro _; exact List.mem_cons_self
      · simp only [h1, if_false]
        rw [h.freeIff]
        constructor
        · intro ⟨_, h0⟩; omega
        · intro ⟨_, h0⟩; omega
    · have hne : ¬ (ch = c ∧ ch < P.rc.length) := fun hh => hc hh.1
      simp only [hne, if_false]
      split
      · rw [List.mem_cons, h.freeIff]
        constructor
        · rintro (h1 | h1)
          · exact absurd h1.symm hc
          · exact h1
        · intro h1; exact Or.inr h1
      · exact h.freeIff c

theorem FreeOK.borrow {P : Pub} (h : FreeOK P) {ch : Nat}
    (hpos : ch < P.n → 1 ≤ P.rc.getD ch 0) : FreeOK (P.borrowChunk ch) := by
  refine ⟨by simp [borrowChunk_rc, h.rcLen], h.freeNodup, ?_⟩
  intro c
  rw [borrowChunk_free, borrowChunk_rc, borrowChunk_n, getD_set_nat, h.freeIff]
  by_cases hc : ch = c ∧ ch < P.rc.length
  · obtain ⟨rfl, hl⟩ := hc
    rw [h.rcLen] at hl
    have := hpos hl
    rw [if_pos ⟨rfl, by rw [h.rcLen]; exact hl⟩]
    constructor
    · intro ⟨_, h0⟩; omega
    · intro ⟨_, h0⟩; omega
  · rw [if_neg hc]

end Iox2.PubSub.C02P
