/-
Layer C: one push into a connection (`deliverTo`).
-/
import Iox2.Proof.PubSubC01C2
namespace Iox2.PubSub.C01P
open Iox2.PubSub

variable {fq hx : Option (Nat × Nat)} {w : World}

/-- what a `try_send` of send number `q` does to the send-numbering data of a connection -/
structure CPush (c x : Conn) (q : Nat) : Prop where
  gFirst : x.gFirst = c.gFirst
  gHist : x.gHist = c.gHist
  cap : x.cap = c.cap
  sAtt : x.sAtt = c.sAtt
  log : (x.gDelivered = c.gDelivered ∧ x.gSkipped = c.gSkipped ++ [q]) ∨
        (x.gDelivered = c.gDelivered ++ [q] ∧ x.gSkipped = c.gSkipped)

theorem CPush.mem {c x : Conn} {q : Nat} (h : CPush c x q) : q ∈ x.gDelivered ∨ q ∈ x.gSkipped := by
  rcases h.log with ⟨_, h2⟩ | ⟨h1, _⟩
  · right; rw [h2]; simp
  · left; rw [h1]; simp

theorem CPush.mono {c x : Conn} {q : Nat} (h : CPush c x q) {y : Nat} (hy : y ∈ c.gDelivered ∨ y ∈ c.gSkipped) :
    y ∈ x.gDelivered ∨ y ∈ x.gSkipped := by
  rcases h.log with ⟨h1, h2⟩ | ⟨h1, h2⟩
  · rw [h1, h2]; rcases hy with hy | hy
    · exact Or.inl hy
    · exact Or.inr (List.mem_append_left _ hy)
  · rw [h1, h2]; rcases hy with hy | hy
    · exact Or.inl (List.mem_append_left _ hy)
    · exact Or.inr hy

theorem trySend_push (c : Conn) (ov : Bool) (ch q : Nat) : CPush c (c.trySend ov ch q).1 q := by
  refine ⟨trySend_gFirst .., trySend_gHist .., trySend_cap .., trySend_sAtt .., ?_⟩
  rcases trySend_log c ov ch q with ⟨_, _, _, h⟩ | ⟨_, _, h1, _, h2, _⟩ |
      ⟨old, oseq, rest, _, _, _, _, _, h1, _, h2, _⟩
  · left; rw [h]; exact ⟨rfl, rfl⟩
  · right; exact ⟨h1, h2⟩
  · right; exact ⟨h1, h2⟩

/-- with room in the queue the sample is delivered -/
theorem trySend_room (c : Conn) (ov : Bool) (ch q : Nat) (h : c.sub.length < c.cap) :
    (c.trySend ov ch q).1.gDelivered = c.gDelivered ++ [q] := by
  rcases trySend_log c ov ch q with ⟨_, _, h0, _⟩ | ⟨_, _, h1, _⟩ | ⟨old, oseq, rest, _, _, _, h0, _⟩
  · omega
  · exact h1
  · omega

theorem InvK.setC_push (h : InvK fq hx w) {c x : Conn} {q : Nat} (hg : getC w x.pid x.sid = some c)
    (hp : CPush c x q)
    (hq : ∀ P, getP w x.pid = some P → q < P.seq ∧ (∀ y ∈ c.gDelivered, y < q) ∧
      (c.sAtt = true → some (x.pid, x.sid) ≠ hx → c.gFirst ≤ q)) :
    InvK fq hx (setC w x) := by
  have key : ∀ a b cn, getC (setC w x) a b = some cn →
      (a = x.pid ∧ b = x.sid ∧ cn = x) ∨ getC w a b = some cn := by
    intro a b cn hcn
    rw [getC_setC] at hcn
    by_cases hk : a = x.pid ∧ b = x.sid
    · rw [if_pos hk] at hcn
      obtain ⟨rfl, rfl⟩ := hk
      rw [hg] at hcn
      simp only [Option.map_some, Option.some.injEq] at hcn
      exact Or.inl ⟨rfl, rfl, hcn.symm⟩
    · rw [if_neg hk] at hcn; exact Or.inr hcn
  refine ⟨h.hmono, fun a b cn hcn P hP => ?_, fun a b cn hcn hsa hne P hP => ?_,
    fun a P hP hex i b hi cn hcn hsa y h1 h2 h3 => ?_, h.smono⟩
  · rcases key a b cn hcn with ⟨rfl, rfl, rfl⟩ | h0
    · obtain ⟨o1, o2⟩ := h.dlt _ _ c hg P hP
      obtain ⟨q1, q2, _⟩ := hq P hP
      rcases hp.log with ⟨e1, _⟩ | ⟨e1, _⟩
      · rw [e1]; exact ⟨o1, o2⟩
      · rw [e1]
        refine ⟨fun y hy => ?_, ?_⟩
        · rcases List.mem_append.mp hy with hy | hy
          · exact o1 y hy
          · simp only [List.mem_singleton] at hy; subst hy; exact q1
        · rw [List.pairwise_append]
          refine ⟨o2, List.pairwise_singleton _ _, fun y hy z hz => ?_⟩
          simp only [List.mem_singleton] at hz; subst hz; exact q2 y hy
    · exact h.dlt a b cn h0 P hP
  · rcases key a b cn hcn with ⟨rfl, rfl, rfl⟩ | h0
    · have hsa' : c.sAtt = true := hp.sAtt ▸ hsa
      obtain ⟨o1, o2, o3, o4, o5⟩ := h.hfirst _ _ c hg hsa' hne P hP
      obtain ⟨_, _, q3⟩ := hq P hP
      unfold HFirst
      rw [hp.gFirst, hp.gHist, hp.cap]
      rcases hp.log with ⟨e1, _⟩ | ⟨e1, _⟩
      · rw [e1]; exact ⟨o1, o2, o3, o4, o5⟩
      · rw [e1]
        refine ⟨o1, o2.trans (List.prefix_append _ _), o3, fun y hy hlt => ?_, o5⟩
        rcases List.mem_append.mp hy with hy | hy
        · exact o4 y hy hlt
        · simp only [List.mem_singleton] at hy; subst hy
          have := q3 hsa' hne; omega
    · exact h.hfirst a b cn h0 hsa hne P hP
  · rcases key a b cn hcn with ⟨rfl, rfl, rfl⟩ | h0
    · have hsa' : c.sAtt = true := hp.sAtt ▸ hsa
      exact hp.mono (h.nlost _ P hP hex i _ hi c hg hsa' y (hp.gFirst ▸ h1) h2 h3)
    · exact h.nlost a P hP hex i b hi cn h0 hsa y h1 h2 h3

/-! ### `deliverTo` -/

theorem deliverTo_noop (w : World) (p s ch q : Nat) (h : getP w p = none ∨ getC w p s = none) :
    (deliverTo w p s ch q).1 = w := by
  unfold deliverTo
  rcases h with h | h
  · rw [h]
  · rw [h]; cases getP w p <;> rfl

theorem deliverTo_split (w : World) (p s ch q : Nat) {P : Pub} {c : Conn} (hP : getP w p = some P)
    (hC : getC w p s = some c) :
    CFrame (setC w (c.trySend w.cfg.overflow ch q).1) (deliverTo w p s ch q).1 ∧
    ∀ a b, getC (deliverTo w p s ch q).1 a b = getC (setC w (c.trySend w.cfg.overflow ch q).1) a b := by
  unfold deliverTo
  rw [hP, hC]
  simp only
  generalize c.trySend w.cfg.overflow ch q = d
  obtain ⟨c', r⟩ := d
  simp only
  cases r with
  | full => exact ⟨CFrame.refl _, fun _ _ => rfl⟩
  | corrupted => exact ⟨CFrame.refl _, fun _ _ => rfl⟩
  | ok ev =>
    simp only
    refine ⟨CFrame.setP (P := P) (by rw [getP_setC]; exact hP) ?_, fun _ _ => rfl⟩
    cases ev with
    | none => exact PSame.of_stable (borrowChunk_stable P ch) rfl
    | some old =>
      exact PSame.of_stable ((borrowChunk_stable P ch).trans (releaseChunk_stable _ old))
        (releaseChunk_conns _ old)

/-- the connection after the push -/
theorem deliverTo_getC (w : World) (p s ch q : Nat) {P : Pub} {c : Conn} (hP : getP w p = some P)
    (hC : getC w p s = some c) :
    getC (deliverTo w p s ch q).1 p s = some (c.trySend w.cfg.overflow ch q).1 := by
  rw [(deliverTo_split w p s ch q hP hC).2, getC_setC]
  obtain ⟨_, hcp, hcs⟩ := getC_some hC
  rw [trySend_pid, trySend_sid, hcp, hcs, if_pos ⟨rfl, rfl⟩, hC]
  rfl

theorem deliverTo_getC_ne (w : World) (p s ch q a b : Nat) (hne : ¬ (a = p ∧ b = s)) :
    getC (deliverTo w p s ch q).1 a b = getC w a b := by
  cases hP : getP w p with
  | none => rw [deliverTo_noop w p s ch q (Or.inl hP)]
  | some P =>
    cases hC : getC w p s with
    | none => rw [deliverTo_noop w p s ch q (Or.inr hC)]
    | some c =>
      rw [(deliverTo_split w p s ch q hP hC).2, getC_setC]
      obtain ⟨_, hcp, hcs⟩ := getC_some hC
      rw [trySend_pid, trySend_sid, hcp, hcs, if_neg hne]

theorem InvK.deliverTo (h : InvK fq hx w) (p s ch q : Nat)
    (hq : ∀ cn P, getC w p s = some cn → getP w p = some P → q < P.seq ∧ (∀ y ∈ cn.gDelivered, y < q) ∧
      (cn.sAtt = true → some (p, s) ≠ hx → cn.gFirst ≤ q)) :
    InvK fq hx (Iox2.PubSub.deliverTo w p s ch q).1 := by
  cases hP : getP w p with
  | none => rw [deliverTo_noop w p s ch q (Or.inl hP)]; exact h
  | some P =>
    cases hC : getC w p s with
    | none => rw [deliverTo_noop w p s ch q (Or.inr hC)]; exact h
    | some c =>
      obtain ⟨_, hcp, hcs⟩ := getC_some hC
      refine InvK.of_frame (deliverTo_split w p s ch q hP hC).1 ?_
      refine h.setC_push (c := c) (q := q) ?_ (trySend_push ..) ?_
      · rw [trySend_pid, trySend_sid, hcp, hcs]; exact hC
      · rw [trySend_pid, trySend_sid, hcp, hcs]
        intro P' hP'
        exact hq c P' hC hP'

end Iox2.PubSub.C01P
