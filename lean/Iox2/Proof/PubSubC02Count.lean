/-
C02 — counting lemmas and congruence lemmas for the accounting invariant.
-/
import Iox2.Proof.PubSubC02Frame

namespace Iox2.PubSub.C02P
open Iox2.PubSub
open Iox2.C16.SlotMapP (abs WInv)

/-! ### lists -/

theorem getD_set_bool (l : List Bool) (i j : Nat) (b : Bool) :
    (l.set i b).getD j false = if i = j ∧ i < l.length then b else l.getD j false := by
  simp only [List.getD_eq_getElem?_getD, List.getElem?_set]
  by_cases h : i = j
  · subst h
    by_cases h2 : i < l.length
    · simp [h2]
    · simp [h2, List.getElem?_eq_none (Nat.le_of_not_lt h2)]
  · simp [h]

theorem getD_set_nat (l : List Nat) (i j : Nat) (b : Nat) :
    (l.set i b).getD j 0 = if i = j ∧ i < l.length then b else l.getD j 0 := by
  simp only [List.getD_eq_getElem?_getD, List.getElem?_set]
  by_cases h : i = j
  · subst h
    by_cases h2 : i < l.length
    · simp [h2]
    · simp [h2, List.getElem?_eq_none (Nat.le_of_not_lt h2)]
  · simp [h]

theorem lt_of_getD_true {l : List Bool} {i : Nat} (h : l.getD i false = true) : i < l.length := by
  apply Nat.lt_of_not_le
  intro hle
  simp [List.getD_eq_getElem?_getD, List.getElem?_eq_none hle] at h

/-- an element with a unique position occurs exactly once -/
theorem count_eq_one_of_unique {α : Type} [DecidableEq α] {a : α} :
    ∀ {l : List α}, a ∈ l → (∀ i j : Nat, l[i]? = some a → l[j]? = some a → i = j) → l.count a = 1
  | [], h, _ => by simp at h
  | b :: t, h, hu => by
    by_cases hb : b = a
    · subst hb
      have : b ∉ t := by
        intro hm
        obtain ⟨i, hi⟩ := List.mem_iff_getElem?.mp hm
        have := hu 0 (i + 1) (by simp) (by simpa using hi)
        omega
      simp [List.count_cons, List.count_eq_zero_of_not_mem this]
    · have hm : a ∈ t := by
        rcases List.mem_cons.mp h with h | h
        · exact absurd h.symm hb
        · exact h
      have := count_eq_one_of_unique hm (fun i j hi hj => by
        have := hu (i + 1) (j + 1) (by simpa using hi) (by simpa using hj)
        omega)
      simp [List.count_cons, hb, this]

theorem countP_change_one {α : Type} [DecidableEq α] (a : α) (f g : α → Bool)
    (hfg : ∀ x, x ≠ a → f x = g x) :
    ∀ l : List α, l.countP g + l.count a * (if f a then 1 else 0) =
      l.countP f + l.count a * (if g a then 1 else 0)
  | [] => by simp
  | b :: t => by
    have ih := countP_change_one a f g hfg t
    by_cases hb : b = a
    · subst hb
      simp only [List.countP_cons, List.count_cons_self]
      cases hf : f b <;> cases hg : g b <;> simp [hf, hg] at ih ⊢ <;> omega
    · have := hfg b hb
      simp only [List.countP_cons, List.count_cons, this]
      have hba : (b == a) = false := by simp [hb]
      simp only [hba]
      simp at ih ⊢
      omega

/-! ### `connCnt` -/

theorem connCnt_congr {w w' : World} {p : Nat} {conns : List (Option Nat)} {c : Nat}
    (h : ∀ s, some s ∈ conns → usedBit w' p s c = usedBit w p s c) :
    connCnt w' p conns c = connCnt w p conns c := by
  unfold connCnt
  congr 1
  apply List.filter_congr
  intro x hx
  cases x with
  | none => rfl
  | some s => exact h s hx

/-- exactly one connection of the array changes its bit for `c` -/
theorem connCnt_change_one {w w' : World} {p s : Nat} {conns : List (Option Nat)} {c : Nat}
    (hm : some s ∈ conns)
    (hu : ∀ i j : Nat, conns[i]? = some (some s) → conns[j]? = some (some s) → i = j)
    (h : ∀ t, t ≠ s → usedBit w' p t c = usedBit w p t c) :
    connCnt w' p conns c + (if usedBit w p s c then 1 else 0) =
      connCnt w p conns c + (if usedBit w' p s c then 1 else 0) := by
  have h1 := count_eq_one_of_unique hm hu
  have := countP_change_one (some s)
    (fun sl => match sl with | some s => usedBit w p s c | none => false)
    (fun sl => match sl with | some s => usedBit w' p s c | none => false)
    (by
      intro x hx
      cases x with
      | none => rfl
      | some t => exact (h t (by intro e; apply hx; rw [e])).symm) conns
  rw [h1] at this
  simp only [Nat.one_mul] at this
  unfold connCnt
  simp only [← List.countP_eq_length_filter]
  exact this

theorem connCnt_pos {w : World} {p s : Nat} {conns : List (Option Nat)} {c : Nat}
    (hm : some s ∈ conns) (hb : usedBit w p s c = true) : 1 ≤ connCnt w p conns c := by
  unfold connCnt
  apply List.length_pos_of_mem (a := some s)
  simp [List.mem_filter, hm, hb]

/-! ### observational equality -/

structure ObsEq (w w' : World) : Prop where
  cfg : w'.cfg = w.cfg
  pubReg : w'.pubReg = w.pubReg
  subReg : w'.subReg = w.subReg
  pubs : ∀ p, getP w' p = getP w p
  subs : ∀ s, getS w' s = getS w s
  conns : ∀ p s, getC w' p s = getC w p s
  nodup : w'.conns.Pairwise fun a b => ¬ (a.pid = b.pid ∧ a.sid = b.sid)

theorem ObsEq.topEq {w w' : World} (h : ObsEq w w') : TopEq w w' :=
  ⟨h.cfg, h.pubReg, h.subReg, fun p => by rw [h.pubs], fun s => by rw [h.subs],
   fun p s => by rw [h.conns], h.nodup⟩

theorem usedBit_congr {w w' : World} {p s : Nat} (h : getC w' p s = getC w p s) (c : Nat) :
    usedBit w' p s c = usedBit w p s c := by
  unfold usedBit; rw [h]

theorem PubAcc.congr {A : GA} {w w' : World} {p : Nat} {P : Pub} (h : PubAcc A w p P)
    (hu : ∀ s c, some s ∈ P.conns → usedBit w' p s c = usedBit w p s c) : PubAcc A w' p P := by
  refine ⟨h.free, ?_, h.loans, h.loanLbl, h.histNodup, h.histLt, h.xLt,
    h.xFresh⟩
  intro c hc
  rw [h.rcEq c hc]
  unfold refCnt
  rw [connCnt_congr (fun s hs => hu s c hs)]

theorem AccInv.ext {A : GA} {w w' : World} (hi : AccInv A w) (h : ObsEq w w') : AccInv A w' := by
  refine ⟨?_, ?_, ?_⟩
  · intro p P hP
    rw [h.pubs] at hP
    obtain ⟨h1, h2⟩ := hi.pubs p P hP
    exact ⟨fun hex => (h1 hex).congr (fun s c _ => usedBit_congr (h.conns p s) c), h2⟩
  · intro s S hS
    rw [h.subs] at hS
    obtain ⟨h1, h2, h3⟩ := hi.subs s S hS
    refine ⟨h1, h2, fun ha x hx => ?_⟩
    rw [h.pubs]; exact h3 ha x hx
  · intro p s cn hcn P S hP hS
    rw [h.conns] at hcn; rw [h.pubs] at hP; rw [h.subs] at hS; rw [h.cfg]
    exact hi.conns p s cn hcn P S hP hS

theorem Inv.ext {G : GT} {A : GA} {w w' : World} (hi : Inv G A w) (h : ObsEq w w') : Inv G A w' :=
  ⟨top_congr hi.top h.topEq, hi.acc.ext h⟩

/-- `ConnAcc` only reads a few fields of the publisher and the subscriber -/
theorem ConnAcc.congr {cfg : Cfg} {cn : Conn} {P P' : Pub} {S S' : Sub} (h : ConnAcc cfg cn P S)
    (hn : P'.n = P.n) (hex : P'.ex = P.ex) (hh : heldOf S' cn.pid = heldOf S cn.pid)
    (ha : S'.alive = S.alive) : ConnAcc cfg cn P' S' := by
  have hf : flight cn S' = flight cn S := by unfold flight; rw [hh]
  exact ⟨by rw [hn]; exact h.usedLen, h.subCap, h.borrowMax, h.total, by rw [hh]; exact h.borrow,
    by rw [hf]; exact h.nodup, by rw [hf]; exact h.used, by rw [hex, ha]; exact h.idle⟩

end Iox2.PubSub.C02P
