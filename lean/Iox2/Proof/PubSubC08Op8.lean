/-
C08 helper: the API operations preserve the invariant (part 8: the delivery loop of `send`).
-/
import Iox2.Proof.PubSubC08Op7
set_option linter.unusedSimpArgs false
set_option linter.unusedVariables false
namespace Iox2.PubSub.C08
open Iox2.PubSub
open Iox2.C16.SlotMapP (abs)
attribute [-simp] List.getD_eq_getElem?_getD

theorem sendLoop_inv {cfg : Cfg} {p c seq : Nat} (f : World × Nat → Option Nat → World × Nat)
    (hf1 : ∀ acc, f acc none = acc)
    (hf2 : ∀ acc s, (f acc (some s)).1 = (deliverTo acc.1 p s c seq).1) :
    ∀ (slots : List (Option Nat)) (acc : World × Nat) {P : Pub},
      InvP cfg acc.1 none p [c] false → getP acc.1 p = some P → P.alive = true →
      (∀ s, some s ∈ slots → some s ∈ P.conns) →
      (∀ s, slots.count (some s) ≤ 1) →
      (∀ s, some s ∈ slots → usedAt acc.1 p s c = false) →
      (∀ s cn, some s ∈ P.conns → getC acc.1 p s = some cn → cn.comp = []) →
      InvP cfg (slots.foldl f acc).1 none p [c] false ∧
      ∃ P', getP (slots.foldl f acc).1 p = some P' ∧ PoolEq P P' := by
  intro slots
  induction slots with
  | nil => intro acc P h hp _ _ _ _ _; exact ⟨h, P, hp, .refl _⟩
  | cons sl r ih =>
    intro acc P h hp hal hsub hcnt hun hcomp
    simp only [List.foldl_cons]
    cases sl with
    | none =>
      rw [hf1]
      exact ih acc h hp hal (fun s hs => hsub s (by simp [hs]))
        (fun s => by have := hcnt s; simp [List.count_cons] at this; exact this)
        (fun s hs => hun s (by simp [hs])) hcomp
    | some s =>
      have hsm : some s ∈ P.conns := hsub s (by simp)
      obtain ⟨i, hi⟩ := List.getElem?_of_mem hsm
      obtain ⟨cn, hcn, hsa⟩ := (h.p p P hp).1.slotConn i s hi
      have hunc : cn.used.getD c false = false := by
        have := hun s (by simp); rw [usedAt_of_getC hcn] at this; exact this
      have h1 := deliverTo_inv h seq hp hcn hi hal (fun hne => absurd rfl hne) (hcomp s cn hsm hcn) hunc
        (by simp) (fun hst => by cases hst)
      obtain ⟨d1, d2, d3, d4, d5⟩ := deliverTo_shape acc.1 p s c seq
      obtain ⟨P1, hp1, e1⟩ := d2 P hp
      have hs_notin : some s ∉ r := by
        have := hcnt s
        simp only [List.count_cons, beq_self_eq_true, if_true] at this
        intro hm
        have : 1 ≤ r.count (some s) := List.one_le_count_iff.mpr hm
        omega
      have hw : (f acc (some s)).1 = (deliverTo acc.1 p s c seq).1 := hf2 acc s
      obtain ⟨k1, P2, k2, k3⟩ := ih (f acc (some s)) (P := P1) (by rw [hw]; exact h1) (by rw [hw]; exact hp1)
        (e1.sim.alive.trans hal)
        (fun s' hs' => by rw [e1.sim.conns]; exact hsub s' (by simp [hs']))
        (fun s' => by
          have := hcnt s'
          simp only [List.count_cons] at this
          omega)
        (fun s' hs' => by
          rw [hw]
          have hne : s' ≠ s := fun e => hs_notin (e ▸ hs')
          cases hu : usedAt (deliverTo acc.1 p s c seq).1 p s' c with
          | false => rfl
          | true =>
            unfold usedAt at hu
            cases hc2 : getC (deliverTo acc.1 p s c seq).1 p s' with
            | none => rw [hc2] at hu; cases hu
            | some c2 =>
              rw [hc2] at hu
              obtain ⟨c0, hc0, _, _, hsame, _⟩ := d4 p s' c2 hc2
              have := hsame (fun e => hne e.2)
              subst this
              have := hun s' (by simp [hs'])
              rw [usedAt_of_getC hc0] at this
              have hu' : c2.used.getD c false = true := hu
              rw [hu'] at this; cases this)
        (fun s' cn' hs' hcn' => by
          rw [hw] at hcn'
          obtain ⟨c0, hc0, core, _, _, _⟩ := d4 p s' cn' hcn'
          rw [core.comp]
          exact hcomp s' c0 (by rw [← e1.sim.conns]; exact hs') hc0)
      exact ⟨k1, P2, k2, e1.trans k3⟩

end Iox2.PubSub.C08
