/-
Layer B: `send`: taking the loan, stamping, returning the sample.
-/
import Iox2.Proof.PubSubC01B15
namespace Iox2.PubSub.C01P
open Iox2.PubSub

variable {cfg : Cfg} {np ns : Option Nat} {w : World}

theorem getD_append_left_nat (l : List Nat) (a i : Nat) (h : i < l.length) : (l ++ [a]).getD i 0 = l.getD i 0 := by
  simp only [List.getD_eq_getElem?_getD]
  rw [List.getElem?_append_left h]

theorem getD_append_self_nat (l : List Nat) (a : Nat) : (l ++ [a]).getD l.length 0 = a := by
  simp [List.getD_eq_getElem?_getD]

/-- the loan is taken out of `loans`; the payload is written -/
theorem InvB.takeLoan (hA : InvA cfg np ns w) (h : InvB none w) {p l l' c tag : Nat} {P : Pub} (hP : getP w p = some P)
    (hl : P.loans.find? (·.1 = l) = some (l', c)) :
    InvB (some (p, c, true)) (setP w p { P with payload := P.payload.set c tag, loans := P.loans.filter (·.1 ≠ l) }) ∧
    c < P.n ∧ P.ex = true := by
  obtain ⟨hm, _⟩ := find_label_mem hl
  have hex := h.ex_of_loan hP hm
  obtain ⟨hlnd, hlrc⟩ := h.loans p P hP hex
  obtain ⟨hcn, hc1⟩ := hlrc l c hm
  have hlens := h.lens p P hP
  have hpin : Pinned none p P c := Or.inl ⟨l, hm⟩
  obtain ⟨hu0, hch⟩ := h.pinned_unused hP hex hpin
  have hcount := fun y => filter_label_count hlnd hm (fun e : Nat × Nat => decide (e.2 = y))
  have hpay : ∀ y, y ≠ c → (P.payload.set c tag).getD y 0 = P.payload.getD y 0 := by
    intro y hy
    rw [getD_set_nat]
    have : ¬ (c = y ∧ c < P.payload.length) := fun hh => hy hh.1.symm
    rw [if_neg this]
  refine ⟨?_, hcn, hex⟩
  refine h.updP (fl' := some (p, c, true)) hP hex rfl hex ⟨hlens.1, by simp [hlens.2.1], hlens.2.2⟩
    (h.free p P hP hex) ?_ ⟨filter_label_nodup hlnd l, ?_⟩ ⟨(h.histOk p P hP hex).1, ?_⟩ ?_ ?_ ?_
  · intro y hy
    dsimp only
    rw [inflight_some]
    have h2 := h.rc p P hP hex y hy
    rw [inflight_none] at h2
    have h3 := hcount y
    by_cases hyc : c = y
    · subst hyc
      simp only [decide_true, if_true, and_self] at h3 ⊢
      omega
    · have : ¬ (p = p ∧ c = y) := fun hh => hyc hh.2
      simp only [hyc, decide_false, Bool.false_eq_true, if_false] at h3
      rw [if_neg this]
      omega
  · intro l2 y hm2
    exact hlrc l2 y (filter_label_sub hm2)
  · intro y hy
    dsimp only
    have hyc : y ≠ c := fun hh => hch (hh ▸ hy)
    rw [hpay y hyc]
    exact (h.histOk p P hP hex).2 y hy
  · intro y fr hh
    simp only [Option.some.injEq, Prod.mk.injEq] at hh
    obtain ⟨_, rfl, rfl⟩ := hh
    exact ⟨hcn, fun _ => hc1⟩
  · intro a y fr hap
    constructor
    · intro hh
      simp only [Option.some.injEq, Prod.mk.injEq] at hh
      exact absurd hh.1.symm hap
    · intro hh; cases hh
  · intro cn hcn' hp S hS hor ch q hmm
    dsimp only
    have hne : ch ≠ c := by
      rintro rfl
      by_cases hsa : cn.sAtt = true
      · have := (h.inqOk cn hcn' hsa P S (hp ▸ hP) hex hS).2 ch (by
          unfold inq; simp only [List.mem_append, List.mem_map]
          exact Or.inl (Or.inl ⟨(ch, q), hmm, rfl⟩))
        rw [h.pinned_bit hP hex hpin hcn' hp hsa] at this; cases this
      · rcases hor with hf | hf
        · exact hsa hf
        · have hsa' : cn.sAtt = false := by
            cases hh : cn.sAtt with
            | false => rfl
            | true => exact absurd hh hsa
          have := (hA.virg cn hcn' hsa' P S (hp ▸ hP) hS hex hf).sub
          rw [this] at hmm; cases hmm
    rw [hpay ch hne]
    exact h.ppi cn hcn' P S (hp ▸ hP) hS hor ch q hmm

/-- the `SampleMut` is dropped: its reference is released -/
theorem InvB.finishSend {fr : Bool} {p c : Nat} (h : InvB (some (p, c, fr)) w) {P : Pub} (hP : getP w p = some P) :
    InvB none (setP w p { P.releaseChunk c with loanCnt := P.loanCnt - 1 }) := by
  obtain ⟨Q, hQ, hex, hcn, _⟩ := h.flOk p c fr rfl
  have hQP : Q = P := by rw [hP] at hQ; exact (Option.some.inj hQ).symm
  subst hQP
  have hlens := h.lens p Q hP
  have hrcc := h.rc p Q hP hex c hcn
  rw [inflight_some, if_pos ⟨rfl, rfl⟩] at hrcc
  obtain ⟨f1, l1, r1, o1⟩ := release_ok hlens.1 (h.free p Q hP hex) hcn (by omega)
  have hn : (Q.releaseChunk c).n = Q.n := by rw [o1]
  have hf : (Q.releaseChunk c).hist = Q.hist ∧ (Q.releaseChunk c).payload = Q.payload ∧
      (Q.releaseChunk c).sent = Q.sent ∧ (Q.releaseChunk c).chunkSeq = Q.chunkSeq ∧ (Q.releaseChunk c).seq = Q.seq ∧
      (Q.releaseChunk c).loans = Q.loans ∧ (Q.releaseChunk c).ex = Q.ex := by
    rw [o1]; exact ⟨rfl, rfl, rfl, rfl, rfl, rfl, rfl⟩
  obtain ⟨fh, fp, fs, fc, fq, fl, fe⟩ := hf
  obtain ⟨hlnd, hlrc⟩ := h.loans p Q hP hex
  refine h.updP (fl' := none) hP hex hn (fe ▸ hex) ⟨by rw [l1, hn], by rw [fp, hn]; exact hlens.2.1,
      by rw [fc, hn]; exact hlens.2.2.1, by rw [fs, fq]; exact hlens.2.2.2⟩ f1 ?_ ⟨by rw [fl]; exact hlnd, ?_⟩ ?_
    (fun y fr hh => by cases hh) ?_ ?_
  · intro y hy
    dsimp only
    rw [r1 y, fh, fl, inflight_none]
    have h2 := h.rc p Q hP hex y hy
    rw [inflight_some] at h2
    by_cases hyc : y = c
    · subst hyc
      rw [if_pos rfl]; rw [if_pos ⟨rfl, rfl⟩] at h2; omega
    · have : ¬ (p = p ∧ c = y) := fun hh => hyc hh.2.symm
      rw [if_neg hyc]; rw [if_neg this] at h2; omega
  · intro l2 y hm2
    dsimp only at hm2 ⊢
    rw [fl] at hm2
    obtain ⟨h3, h4⟩ := hlrc l2 y hm2
    have hyc : y ≠ c := by
      rintro rfl
      have := filter_length_pos (q := fun e : Nat × Nat => decide (e.2 = y)) hm2 (by simp)
      omega
    rw [r1 y, if_neg hyc]; exact ⟨h3, h4⟩
  · dsimp only
    rw [fh, fp, fs, fc, fq]
    exact h.histOk p Q hP hex
  · intro a y fr hap
    constructor
    · intro hh; cases hh
    · intro hh
      simp only [Option.some.injEq, Prod.mk.injEq] at hh
      exact absurd hh.1.symm hap
  · intro cn hcn' hp S hS hor ch q hmm
    dsimp only
    rw [fp, fs, fq]
    exact h.ppi cn hcn' Q S (hp ▸ hP) hS hor ch q hmm

/-- the sample gets its number and enters the history -/
theorem InvB.stamp {p c tag : Nat} (h : InvB (some (p, c, true)) w) {P : Pub} (hP : getP w p = some P)
    (hpay : P.payload.getD c 0 = tag) (hcap : Nat) :
    InvB (some (p, c, false)) (setP w p (sendHist hcap (sendStamp P c tag) c)) := by
  obtain ⟨Q, hQ, hex, hcn, hfr⟩ := h.flOk p c true rfl
  have hQP : Q = P := by rw [hP] at hQ; exact (Option.some.inj hQ).symm
  subst hQP
  have hc1 := hfr rfl
  have hlens := h.lens p Q hP
  have hpin : Pinned (some (p, c, true)) p Q c := Or.inr rfl
  obtain ⟨hu0, hch⟩ := h.pinned_unused hP hex hpin
  obtain ⟨hhnd, hhok⟩ := h.histOk p Q hP hex
  obtain ⟨hlnd, hlrc⟩ := h.loans p Q hP hex
  have hspec := sendHist_specB hcap (sendStamp Q c tag) c hlens.1 (h.free p Q hP hex) hcn (by
      show 1 ≤ Q.rc.getD c 0; omega) hhnd hch (fun y hy => by
      have hy' : y ∈ Q.hist := hy
      refine ⟨(hhok y hy').1, ?_⟩
      show 1 ≤ Q.rc.getD y 0
      have := h.rc p Q hP hex y (hhok y hy').1
      have := cntN_pos hy'
      unfold cntN at this
      omega)
  obtain ⟨e0, s1, s2, s3, s4, s5⟩ := hspec
  generalize sendHist hcap (sendStamp Q c tag) c = P' at e0 s1 s2 s3 s4 s5
  have hf : P'.n = Q.n ∧ P'.ex = Q.ex ∧ P'.payload = Q.payload ∧ P'.sent = Q.sent ++ [tag] ∧
      P'.seq = Q.seq + 1 ∧ P'.chunkSeq = Q.chunkSeq.set c Q.seq ∧ P'.loans = Q.loans := by
    have a1 := congrArg Pub.n e0
    have a2 := congrArg Pub.ex e0
    have a3 := congrArg Pub.payload e0
    have a4 := congrArg Pub.sent e0
    have a5 := congrArg Pub.seq e0
    have a6 := congrArg Pub.chunkSeq e0
    have a7 := congrArg Pub.loans e0
    exact ⟨a1, a2, a3, a4, a5, a6, a7⟩
  obtain ⟨fn, fe, fp, fs, fq, fc, fl⟩ := hf
  have hcs : ∀ y, y ≠ c → (Q.chunkSeq.set c Q.seq).getD y 0 = Q.chunkSeq.getD y 0 := by
    intro y hy
    rw [getD_set_nat]
    have : ¬ (c = y ∧ c < Q.chunkSeq.length) := fun hh => hy hh.1.symm
    rw [if_neg this]
  have hcsc : (Q.chunkSeq.set c Q.seq).getD c 0 = Q.seq := by
    rw [getD_set_nat, if_pos ⟨rfl, by rw [hlens.2.2.1]; exact hcn⟩]
  have hsent : ∀ i, i < Q.seq → (Q.sent ++ [tag]).getD i 0 = Q.sent.getD i 0 := by
    intro i hi; exact getD_append_left_nat _ _ _ (by rw [hlens.2.2.2]; exact hi)
  have hsentc : (Q.sent ++ [tag]).getD Q.seq 0 = tag := by
    rw [← hlens.2.2.2]; exact getD_append_self_nat _ _
  have hloan0 : (Q.loans.filter (·.2 = c)).length = 0 := by
    have := h.rc p Q hP hex c hcn
    rw [inflight_some, if_pos ⟨rfl, rfl⟩, hc1] at this
    omega
  refine h.updP (fl' := some (p, c, false)) hP hex fn (fe ▸ hex) ⟨by rw [s2, fn]; rfl, by rw [fp, fn]; exact hlens.2.1,
      by rw [fc, fn]; simp [hlens.2.2.1], by rw [fs, fq]; simp [hlens.2.2.2]⟩ s1 ?_ ⟨by rw [fl]; exact hlnd, ?_⟩ ⟨s4, ?_⟩ ?_ ?_ ?_
  · intro y hy
    rw [fl]
    have h2 := h.rc p Q hP hex y hy
    have h3 := s3 y
    unfold cntN at h3
    have h4 : (sendStamp Q c tag).rc = Q.rc ∧ (sendStamp Q c tag).hist = Q.hist := ⟨rfl, rfl⟩
    rw [h4.1, h4.2] at h3
    rw [inflight_some] at h2 ⊢
    omega
  · intro l2 y hm2
    rw [fl] at hm2
    obtain ⟨h3, h4⟩ := hlrc l2 y hm2
    refine ⟨h3, ?_⟩
    have hynh : y ∉ Q.hist := (h.pinned_unused hP hex (Or.inl ⟨l2, hm2⟩)).2
    have hyc : y ≠ c := by
      rintro rfl
      have := filter_length_pos (q := fun e : Nat × Nat => decide (e.2 = y)) hm2 (by simp)
      omega
    have hyn' : y ∉ P'.hist := by
      intro hh
      rcases s5 y hh with h5 | h5
      · exact hyc h5
      · exact hynh h5
    have h3' := s3 y
    rw [cntN_zero hyn', cntN_zero (show y ∉ (sendStamp Q c tag).hist from hynh)] at h3'
    have : (sendStamp Q c tag).rc = Q.rc := rfl
    rw [this] at h3'
    omega
  · intro y hy
    rw [fp, fs, fc, fq]
    rcases s5 y hy with rfl | h5
    · refine ⟨hcn, ?_, ?_⟩
      · rw [hcsc, hsentc]; exact hpay
      · rw [hcsc]; omega
    · have hyc : y ≠ c := fun hh => hch (hh ▸ h5)
      obtain ⟨a1, a2, a3⟩ := hhok y h5
      refine ⟨a1, ?_, ?_⟩
      · rw [hcs y hyc, hsent _ a3]; exact a2
      · rw [hcs y hyc]; omega
  · intro y fr hh
    simp only [Option.some.injEq, Prod.mk.injEq] at hh
    obtain ⟨_, rfl, rfl⟩ := hh
    exact ⟨hcn, fun hf => by cases hf⟩
  · intro a y fr hap
    constructor
    · intro hh
      simp only [Option.some.injEq, Prod.mk.injEq] at hh
      exact absurd hh.1.symm hap
    · intro hh
      simp only [Option.some.injEq, Prod.mk.injEq] at hh
      exact absurd hh.1.symm hap
  · intro cn hcn' hp S hS hor ch q hmm
    rw [fp, fs, fq]
    obtain ⟨a1, a2⟩ := h.ppi cn hcn' Q S (hp ▸ hP) hS hor ch q hmm
    exact ⟨by rw [hsent q a2]; exact a1, by omega⟩

end Iox2.PubSub.C01P
