/-
C02 — `subUpdate` / `subForceUpdate` (the subscriber updates its connections: `Receiver::update_connections`)
preserve the invariant (or panic).
-/
import Iox2.Proof.PubSubC02SubDrop

namespace Iox2.PubSub.C02P
open Iox2.PubSub
open Iox2.C16.SlotMapP (abs WInv)

/-! ### ghost contexts -/

/-- the ghost context with an open hole at `(s, i)` -/
def Gh (G : GT) (s i : Nat) : GT := { G with hole := some (s, i) }

@[simp] theorem Gh_hole (G : GT) (s i : Nat) : (Gh G s i).hole = some (s, i) := rfl
@[simp] theorem Gh_np (G : GT) (s i : Nat) : (Gh G s i).np = G.np := rfl
@[simp] theorem Gh_ns (G : GT) (s i : Nat) : (Gh G s i).ns = G.ns := rfl

theorem RegOK.ghost {G G' : GT} {w : World} (h : RegOK G w) (hnp : G'.np = G.np)
    (hns : G'.ns = G.ns) : RegOK G' w :=
  ⟨h.lenP, h.lenS, h.r1, h.r2, by rw [hnp]; exact h.r3p, by rw [hns]; exact h.r3s,
   by rw [hnp]; exact h.npFresh, by rw [hns]; exact h.nsFresh, by rw [hnp]; exact h.npAlive,
   by rw [hns]; exact h.nsAlive, h.nodup⟩

theorem PubTop.ghost {G G' : GT} {w : World} {p : Nat} {P : Pub} (h : PubTop G w p P)
    (hns : G'.ns = G.ns) : PubTop G' w p P :=
  ⟨h.lenC, h.lenSnap, h.aliveEx, h.dead, by rw [hns]; exact h.conn, by rw [hns]; exact h.snap⟩

theorem SubTop.ghost {G G' : GT} {w : World} {t : Nat} {T : Sub} (h : SubTop G w t T)
    (hnp : G'.np = G.np) (hho : ∀ j : Nat, G'.hole = some (t, j) ↔ G.hole = some (t, j)) :
    SubTop G' w t T := by
  refine ⟨h.lenC, h.lenSnap, h.aliveEx, h.dead, h.winv, ?_, h.inj, ?_, ?_, h.tbrNodup, ?_⟩
  · intro k p hk
    obtain ⟨h1, P, hP, h2, h3, h4⟩ := h.stor k p hk
    refine ⟨h1, P, hP, h2, by rw [hnp]; exact h3, ?_⟩
    rcases h4 with ⟨j, h5, h6⟩ | h4
    · exact Or.inl ⟨j, fun e => h5 ((hho j).mp e), h6⟩
    · exact Or.inr h4
  · intro j k hj hh
    exact h.conn j k hj (fun e => hh ((hho j).mpr e))
  · intro j p hj
    obtain ⟨P, hP, h1, h2, h3⟩ := h.snap j p hj
    exact ⟨P, hP, h1, h2, by rw [hnp]; exact h3⟩
  · intro k hk
    obtain ⟨h1, h2⟩ := h.tbr k hk
    exact ⟨h1, fun j hj => (hho j).mpr (h2 j hj)⟩

/-! ### only subscriber `s` changes (its `conns`, `snap`, `tbr`), and maybe the hole -/

theorem Inv.sub_change {G G' : GT} {A : GA} {w w' : World} {s : Nat} {S S' : Sub}
    (hi : Inv G A w) (hS : getS w s = some S)
    (hnp : G'.np = G.np) (hns : G'.ns = G.ns)
    (hho : ∀ t j : Nat, t ≠ s → (G'.hole = some (t, j) ↔ G.hole = some (t, j)))
    (hcfg : w'.cfg = w.cfg) (hrp : w'.pubReg = w.pubReg) (hrs : w'.subReg = w.subReg)
    (hgP : ∀ q, getP w' q = getP w q) (hgC : ∀ a b, getC w' a b = getC w a b)
    (hgS : ∀ t, getS w' t = if t = s then some S' else getS w t)
    (hnd : w'.conns.Pairwise fun a b => ¬ (a.pid = b.pid ∧ a.sid = b.sid))
    (ea : S'.alive = S.alive) (eex : S'.ex = S.ex) (esl : S'.slot = S.slot)
    (eh : S'.held = S.held) (est : S'.storage = S.storage)
    (hst : SubTop G' w s S') : Inv G' A w' := by
  have hpk : PubsKept w w' := PubsKept.of_eq hgP
  have hsk : SubsKept w w' := by
    intro t T hT
    rw [hgS]
    by_cases hts : t = s
    · subst hts; rw [hS] at hT; cases hT
      exact ⟨S', by simp, esl, ea⟩
    · exact ⟨T, by simp [hts, hT], rfl, rfl⟩
  have hheldOf : ∀ q, heldOf S' q = heldOf S q := by intro q; unfold heldOf; rw [eh]
  refine ⟨⟨?_, ?_, ?_, ?_⟩, ⟨?_, ?_, ?_⟩⟩
  · exact (hi.top.reg.congr hcfg hrp hrs hpk hsk
      (fun q P' h => ⟨P', by rw [← hgP]; exact h⟩)
      (fun t T' h => by
        rw [hgS] at h
        by_cases hts : t = s
        · subst hts; exact ⟨S, hS⟩
        · simp only [hts, if_false] at h; exact ⟨T', h⟩) hnd).ghost hnp hns
  · intro q Q hQ
    rw [hgP] at hQ
    apply ((hi.top.pubs q Q hQ).congr hcfg hrs hsk ?_).ghost hns
    intro t cn hcn hsa
    exact ⟨cn, by rw [hgC]; exact hcn, hsa⟩
  · intro t T hT
    rw [hgS] at hT
    by_cases hts : t = s
    · subst hts
      simp only [if_true, Option.some.injEq] at hT
      subst hT
      apply hst.congr hcfg hrp hpk
      intro q cn hcn hra
      exact ⟨cn, by rw [hgC]; exact hcn, hra⟩
    · simp only [hts, if_false] at hT
      apply ((hi.top.subs t T hT).ghost hnp (fun j => hho t j hts)).congr hcfg hrp hpk
      intro q cn hcn hra
      exact ⟨cn, by rw [hgC]; exact hcn, hra⟩
  · intro a b cn hcn
    rw [hgC] at hcn
    obtain ⟨Pa, Sb, hPa, hSb, ct⟩ := hi.top.conns a b cn hcn
    by_cases hbs : b = s
    · subst hbs
      rw [hS] at hSb; cases hSb
      exact ⟨Pa, S', by rw [hgP]; exact hPa, by rw [hgS]; simp, ct.att, ct.sAtt,
        by rw [est]; exact ct.rAtt⟩
    · exact ⟨Pa, Sb, by rw [hgP]; exact hPa, by rw [hgS]; simp [hbs, hSb], ct⟩
  · intro q Q hQ
    rw [hgP] at hQ
    obtain ⟨h1, h2⟩ := hi.acc.pubs q Q hQ
    exact ⟨fun hx => (h1 hx).congr (fun t x _ => usedBit_congr (hgC q t) x), h2⟩
  · intro t T hT
    rw [hgS] at hT
    by_cases hts : t = s
    · subst hts
      simp only [if_true, Option.some.injEq] at hT
      subst hT
      obtain ⟨h1, h2, h3⟩ := hi.acc.subs t S hS
      refine ⟨by rw [eex, eh]; exact h1, by rw [eh, est]; exact h2, ?_⟩
      intro ha x hx
      rw [ea] at ha; rw [eh] at hx
      obtain ⟨Q, hQ, hq⟩ := h3 ha x hx
      exact ⟨Q, by rw [hgP]; exact hQ, hq⟩
    · simp only [hts, if_false] at hT
      obtain ⟨h1, h2, h3⟩ := hi.acc.subs t T hT
      refine ⟨h1, h2, fun ha x hx => ?_⟩
      obtain ⟨Q, hQ, hq⟩ := h3 ha x hx
      exact ⟨Q, by rw [hgP]; exact hQ, hq⟩
  · intro a b cn hcn Pa Sb hPa hSb
    rw [hgC] at hcn; rw [hgP] at hPa; rw [hgS] at hSb; rw [hcfg]
    by_cases hbs : b = s
    · subst hbs
      simp only [if_true, Option.some.injEq] at hSb
      subst hSb
      exact (hi.acc.conns a b cn hcn Pa S hPa hS).congr rfl rfl (hheldOf _) ea
    · simp only [hbs, if_false] at hSb
      exact hi.acc.conns a b cn hcn Pa Sb hPa hSb

/-- the special case `w' = setS w s S'` -/
theorem Inv.setS_change {G G' : GT} {A : GA} {w : World} {s : Nat} {S S' : Sub}
    (hi : Inv G A w) (hS : getS w s = some S)
    (hnp : G'.np = G.np) (hns : G'.ns = G.ns)
    (hho : ∀ t j : Nat, t ≠ s → (G'.hole = some (t, j) ↔ G.hole = some (t, j)))
    (ea : S'.alive = S.alive) (eex : S'.ex = S.ex) (esl : S'.slot = S.slot)
    (eh : S'.held = S.held) (est : S'.storage = S.storage)
    (hst : SubTop G' w s S') : Inv G' A (setS w s S') :=
  hi.sub_change hS hnp hns hho rfl rfl rfl (fun _ => rfl) (fun _ _ => rfl)
    (fun t => by simp [hS]) hi.top.reg.nodup ea eex esl eh est hst

/-! ### opening and closing the hole -/

/-- a key occurs in at most one slot -/
theorem SubTop.conn_inj {G : GT} {w : World} {s : Nat} {S : Sub} (st : SubTop G w s S)
    {j j' k : Nat} (h1 : S.conns[j]? = some (some k)) (h2 : S.conns[j']? = some (some k))
    (n1 : G.hole ≠ some (s, j)) (n2 : G.hole ≠ some (s, j')) : j = j' := by
  obtain ⟨p, P, a1, hP, e1, _⟩ := st.conn j k h1 n1
  obtain ⟨p', P', a2, hP', e2, _⟩ := st.conn j' k h2 n2
  rw [a1] at a2; cases a2
  rw [hP] at hP'; cases hP'
  omega

/-- the hole at `slot` may be opened if the key stored there belongs to a dead publisher that is not
in the snapshot -/
theorem Inv.open_hole {G : GT} {A : GA} {w : World} {s slot : Nat} {S : Sub}
    (hi : Inv G A w) (hh : G.hole = none) (hS : getS w s = some S)
    (horph : ∀ key pold, S.conns[slot]? = some (some key) → abs S.storage key = some pold →
      ∃ Pold, getP w pold = some Pold ∧ Pold.alive = false ∧
        ∀ j : Nat, S.snap[j]? ≠ some (some pold)) :
    Inv (Gh G s slot) A w := by
  have st := hi.top.subs s S hS
  apply hi.sub_change (G' := Gh G s slot) (S' := S) hS rfl rfl ?_ rfl rfl rfl (fun _ => rfl)
    (fun _ _ => rfl) ?_ hi.top.reg.nodup rfl rfl rfl rfl rfl ?_
  · intro t j hts
    rw [hh]
    simp only [Gh_hole, Option.some.injEq, Prod.mk.injEq, reduceCtorEq, iff_false, not_and]
    intro h; exact absurd h.symm hts
  · intro t
    by_cases hts : t = s
    · subst hts; simp [hS]
    · simp [hts]
  · refine ⟨st.lenC, st.lenSnap, st.aliveEx, st.dead, st.winv, ?_, st.inj, ?_, st.snap,
      st.tbrNodup, ?_⟩
    · intro k p hk
      obtain ⟨h1, P, hP, h2, h3, h4⟩ := st.stor k p hk
      refine ⟨h1, P, hP, h2, h3, ?_⟩
      rcases h4 with ⟨j, _, h6⟩ | h4
      · by_cases hj : j = slot
        · subst hj
          obtain ⟨Pold, hPo, g1, g2⟩ := horph k p h6 hk
          rw [hP] at hPo; cases hPo
          exact Or.inr ⟨g1, g2⟩
        · refine Or.inl ⟨j, ?_, h6⟩
          simp only [Gh_hole, ne_eq, Option.some.injEq, Prod.mk.injEq, true_and]
          exact fun e => hj e.symm
      · exact Or.inr h4
    · intro j k hj _
      exact st.conn j k hj (by rw [hh]; simp)
    · intro k hk
      obtain ⟨h1, h2⟩ := st.tbr k hk
      refine ⟨h1, fun j hj => ?_⟩
      have := h2 j hj
      rw [hh] at this; cases this

/-- clearing the slot of the hole closes it -/
theorem Inv.close_hole {G : GT} {A : GA} {w : World} {s slot : Nat} {S : Sub}
    (hi : Inv (Gh G s slot) A w) (hh : G.hole = none) (hS : getS w s = some S) :
    Inv G A (setS w s { S with conns := S.conns.set slot none }) := by
  have st := hi.top.subs s S hS
  have hget : ∀ j k : Nat, (S.conns.set slot none)[j]? = some (some k) →
      j ≠ slot ∧ S.conns[j]? = some (some k) := by
    intro j k h
    rw [List.getElem?_set] at h
    by_cases hj : slot = j
    · simp only [hj, if_true] at h
      split at h <;> simp at h
    · simp only [hj, if_false] at h
      exact ⟨fun e => hj e.symm, h⟩
  apply hi.setS_change (G' := G) (S' := { S with conns := S.conns.set slot none }) hS rfl rfl ?_
    rfl rfl rfl rfl rfl ?_
  · intro t j hts
    rw [hh]
    simp only [Gh_hole, Option.some.injEq, Prod.mk.injEq, reduceCtorEq, false_iff, not_and]
    intro h; exact absurd h.symm hts
  · refine ⟨by simp only [List.length_set]; exact st.lenC, st.lenSnap, st.aliveEx, st.dead,
      st.winv, ?_, st.inj, ?_, ?_, st.tbrNodup, ?_⟩
    · intro k p hk
      obtain ⟨h1, P, hP, h2, h3, h4⟩ := st.stor k p hk
      refine ⟨h1, P, hP, h2, h3, ?_⟩
      rcases h4 with ⟨j, h5, h6⟩ | h4
      · have hj : slot ≠ j := by
          intro e; apply h5; rw [e]; rfl
        refine Or.inl ⟨j, by rw [hh]; simp, ?_⟩
        show (S.conns.set slot none)[j]? = _
        rw [List.getElem?_set]; simp only [hj, if_false]; exact h6
      · exact Or.inr h4
    · intro j k hj _
      obtain ⟨h1, h2⟩ := hget j k hj
      apply st.conn j k h2
      simp only [Gh_hole, ne_eq, Option.some.injEq, Prod.mk.injEq, true_and]
      exact fun e => h1 e.symm
    · intro j p hj
      obtain ⟨P, hP, h1, h2, h3⟩ := st.snap j p hj
      exact ⟨P, hP, h1, h2, h3⟩
    · intro k hk
      obtain ⟨h1, h2⟩ := st.tbr k hk
      refine ⟨h1, fun j hj => ?_⟩
      obtain ⟨g1, g2⟩ := hget j k hj
      have := h2 j g2
      simp only [Gh_hole, Option.some.injEq, Prod.mk.injEq, true_and] at this
      exact absurd this.symm g1

/-- replacing the list of connections to be removed -/
theorem Inv.set_tbr {G : GT} {A : GA} {w : World} {s : Nat} {S : Sub} (T : List Nat)
    (hi : Inv G A w) (hS : getS w s = some S) (hn : T.Nodup)
    (hT : ∀ k ∈ T, (∃ p, abs S.storage k = some p) ∧
      ∀ j : Nat, S.conns[j]? = some (some k) → G.hole = some (s, j)) :
    Inv G A (setS w s { S with tbr := T }) := by
  have st := hi.top.subs s S hS
  apply hi.setS_change (G' := G) (S' := { S with tbr := T }) hS rfl rfl (fun _ _ _ => Iff.rfl)
    rfl rfl rfl rfl rfl
  exact ⟨st.lenC, st.lenSnap, st.aliveEx, st.dead, st.winv, st.stor, st.inj, st.conn, st.snap,
    hn, hT⟩

/-! ### what a step leaves of the subscriber -/

/-- the subscriber keeps `conns`, `snap`, `alive`; its storage shrinks -/
structure Shr (S S' : Sub) : Prop where
  conns : S'.conns = S.conns
  snap : S'.snap = S.snap
  alive : S'.alive = S.alive
  stor : ∀ k q, abs S'.storage k = some q → abs S.storage k = some q

theorem Shr.refl (S : Sub) : Shr S S := ⟨rfl, rfl, rfl, fun _ _ h => h⟩

theorem Shr.trans {S1 S2 S3 : Sub} (h1 : Shr S1 S2) (h2 : Shr S2 S3) : Shr S1 S3 :=
  ⟨h2.conns.trans h1.conns, h2.snap.trans h1.snap, h2.alive.trans h1.alive,
   fun k q h => h1.stor k q (h2.stor k q h)⟩

/-! ### `findTbr`, `connFlags` -/

theorem findTbr_some {w : World} {s : Nat} {S : Sub} {cond : Bool → Bool → Bool} :
    ∀ (l : List Nat) (n i k : Nat), findTbr w s S cond l n = some (i, k) →
      n ≤ i ∧ l[i - n]? = some k ∧
      (connFlags w s S k = none ∨ ∃ d b, connFlags w s S k = some (d, b) ∧ cond d b = true) := by
  intro l
  induction l with
  | nil => intro n i k h; simp [findTbr] at h
  | cons a r ih =>
    intro n i k h
    simp only [findTbr] at h
    split at h
    · rename_i hc
      simp only [Option.some.injEq, Prod.mk.injEq] at h
      obtain ⟨rfl, rfl⟩ := h
      exact ⟨Nat.le_refl _, by simp, Or.inl hc⟩
    · rename_i d b hc
      split at h
      · rename_i hcond
        simp only [Option.some.injEq, Prod.mk.injEq] at h
        obtain ⟨rfl, rfl⟩ := h
        exact ⟨Nat.le_refl _, by simp, Or.inr ⟨d, b, hc, hcond⟩⟩
      · obtain ⟨h1, h2, h3⟩ := ih (n + 1) i k h
        refine ⟨by omega, ?_, h3⟩
        have : i - n = (i - (n + 1)) + 1 := by omega
        rw [this]; simpa using h2

/-- the borrow flag of `connFlags` -/
theorem connFlags_borrow {w : World} {s : Nat} {S : Sub} {k p : Nat} {d : Bool}
    (hk : abs S.storage k = some p) (h : connFlags w s S k = some (d, false)) :
    ∀ c, getC w p s = some c → c.borrow = 0 := by
  intro c hc
  have hsm : smGet S.storage k = some p := by rw [smGet_eq_abs]; exact hk
  simp only [connFlags, hsm, hc, Option.some.injEq, Prod.mk.injEq, decide_eq_false_iff_not] at h
  omega

theorem connFlags_ne_none {w : World} {s : Nat} {S : Sub} {k p : Nat}
    (hk : abs S.storage k = some p) : connFlags w s S k ≠ none := by
  have hsm : smGet S.storage k = some p := by rw [smGet_eq_abs]; exact hk
  simp only [connFlags, hsm]
  split <;> simp

/-! ### observations of `subDropConn` -/

theorem subDropConn_obs {w : World} {s key p : Nat} {S : Sub}
    (hS : getS w s = some S) (hk : abs S.storage key = some p) :
    (∀ q, getP (subDropConn w s key) q = getP w q) ∧
    (∀ t, getS (subDropConn w s key) t =
      if t = s then some { S with storage := smRemove S.storage key } else getS w t) ∧
    (∀ a b, a ≠ p → getC (subDropConn w s key) a b = getC w a b) ∧
    (subDropConn w s key).panicked = w.panicked := by
  have hsm : smGet S.storage key = some p := by rw [smGet_eq_abs]; exact hk
  simp only [subDropConn, hS, hsm]
  rw [detachReceiver_eq]
  simp only [getC_setS]
  have hgS : ∀ t, getS (setS w s { S with storage := smRemove S.storage key }) t =
      if t = s then some { S with storage := smRemove S.storage key } else getS w t := by
    intro t; simp [hS]
  cases hC : getC w p s with
  | none => exact ⟨fun _ => rfl, hgS, fun _ _ _ => rfl, rfl⟩
  | some c =>
    obtain ⟨hpid, hsid, _⟩ := getC_some hC
    simp only
    cases hsa : c.sAtt with
    | true =>
      simp only [if_true]
      refine ⟨fun _ => rfl, hgS, ?_, rfl⟩
      intro a b hab
      rw [getC_setC]
      simp only [hpid, hab, false_and, if_false, getC_setS]
    | false =>
      simp only [Bool.false_eq_true, if_false]
      refine ⟨fun _ => rfl, hgS, ?_, rfl⟩
      intro a b hab
      rw [getC_delC]
      simp only [hab, false_and, if_false, getC_setS]

theorem subDropConn_panicked (w : World) (s key : Nat) :
    (subDropConn w s key).panicked = w.panicked := by
  cases hS : getS w s with
  | none => simp only [subDropConn, hS]
  | some S =>
    cases hk : abs S.storage key with
    | none =>
      have hsm : smGet S.storage key = none := by rw [smGet_eq_abs]; exact hk
      simp only [subDropConn, hS, hsm]
    | some p => exact (subDropConn_obs hS hk).2.2.2

/-- one drop, with everything the callers need -/
theorem drop_step {G : GT} {A : GA} {w : World} {s key p : Nat} {S : Sub}
    (hi : Inv G A w) (hS : getS w s = some S) (hk : abs S.storage key = some p)
    (hb : ∀ c, getC w p s = some c → c.borrow = 0)
    (hconn : ∀ j : Nat, S.conns[j]? = some (some key) → G.hole = some (s, j))
    (htbr : key ∉ S.tbr) :
    Inv G A (subDropConn w s key) ∧
    ∃ S', getS (subDropConn w s key) s = some S' ∧ Shr S S' ∧ S'.tbr = S.tbr ∧
      S'.tbrCap = S.tbrCap ∧
      (∀ k', abs S'.storage k' = if k' = key then none else abs S.storage k') ∧
      ∀ a b, a ≠ p → getC (subDropConn w s key) a b = getC w a b := by
  refine ⟨subDropConn_inv hi hS hk hb hconn htbr, ?_⟩
  obtain ⟨_, h2, h3, _⟩ := subDropConn_obs (w := w) hS hk
  have st := hi.top.subs s S hS
  obtain ⟨_, habs⟩ := smRemove_spec st.winv key
  refine ⟨{ S with storage := smRemove S.storage key }, by rw [h2]; simp, ⟨rfl, rfl, rfl, ?_⟩,
    rfl, rfl, habs, h3⟩
  intro k q h
  have h : abs (smRemove S.storage key) k = some q := h
  rw [habs] at h
  split at h
  · cases h
  · exact h

/-! ### `subPrepareRemoval` -/

/-- making room in `tbr` (the first `let` of the overflow branch of `subPrepareRemoval`) -/
def subMakeRoom (w : World) (s : Nat) (S : Sub) (hasBorrows : Bool) : World :=
  match findTbr w s S (fun d b => !(d || b)) S.tbr 0 with
  | some (i, k) => subDropConn (setS w s { S with tbr := S.tbr.eraseIdx i }) s k
  | none =>
    if hasBorrows then
      match findTbr w s S (fun _ b => !b) S.tbr 0 with
      | some (i, k) => subDropConn (setS w s { S with tbr := S.tbr.eraseIdx i }) s k
      | none => w
    else w

/-- the rest of the overflow branch -/
def subPrepTail (w : World) (s key : Nat) (hasBorrows : Bool) : World :=
  match getS w s with
  | none => w
  | some S =>
    if S.tbr.length < S.tbrCap then setS w s { S with tbr := S.tbr ++ [key] }
    else if hasBorrows then { w with panicked := true }
    else subDropConn w s key

theorem subPrepareRemoval_eq (w : World) (s slot : Nat) :
    subPrepareRemoval w s slot =
      match getS w s with
      | none => w
      | some S =>
        match S.conns.getD slot none with
        | none => w
        | some key =>
          match connFlags w s S key with
          | none => w
          | some (hasData, hasBorrows) =>
            if hasData || hasBorrows then
              if S.tbr.length < S.tbrCap then setS w s { S with tbr := S.tbr ++ [key] }
              else subPrepTail (subMakeRoom w s S hasBorrows) s key hasBorrows
            else subDropConn w s key := rfl

/-- `key` (sitting in the hole) is appended to `tbr` -/
theorem append_step {G : GT} {A : GA} {w : World} {s slot key pold : Nat} {S : Sub}
    (hi : Inv G A w) (hG : G.hole = some (s, slot)) (hS : getS w s = some S)
    (hk : abs S.storage key = some pold) (hnt : key ∉ S.tbr)
    (hinj : ∀ j : Nat, S.conns[j]? = some (some key) → j = slot) :
    Inv G A (setS w s { S with tbr := S.tbr ++ [key] }) ∧
    ∃ S', getS (setS w s { S with tbr := S.tbr ++ [key] }) s = some S' ∧ Shr S S' := by
  have st := hi.top.subs s S hS
  refine ⟨hi.set_tbr _ hS ?_ ?_, _, getS_setS_self hS, ⟨rfl, rfl, rfl, fun _ _ h => h⟩⟩
  · rw [List.nodup_append]
    refine ⟨st.tbrNodup, by simp, ?_⟩
    intro a ha b hb
    simp only [List.mem_singleton] at hb
    subst hb
    rintro rfl; exact hnt ha
  · intro k hkm
    rcases List.mem_append.mp hkm with h | h
    · exact st.tbr k h
    · simp only [List.mem_singleton] at h
      subst h
      refine ⟨⟨pold, hk⟩, fun j hj => ?_⟩
      rw [hinj j hj]; exact hG

/-- a `tbr` entry without borrowed samples is erased and dropped -/
theorem erase_drop {G : GT} {A : GA} {w : World} {s i k : Nat} {S : Sub}
    (hi : Inv G A w) (hS : getS w s = some S) (hik : S.tbr[i]? = some k)
    (hfl : ∃ d, connFlags w s S k = some (d, false)) :
    let X := subDropConn (setS w s { S with tbr := S.tbr.eraseIdx i }) s k
    Inv G A X ∧ ∃ S', getS X s = some S' ∧ Shr S S' ∧ (∀ x ∈ S'.tbr, x ∈ S.tbr) ∧
      ∀ k' q, k' ∉ S.tbr → abs S.storage k' = some q →
        abs S'.storage k' = some q ∧ ∀ b, getC X q b = getC w q b := by
  intro X
  have st := hi.top.subs s S hS
  have hkm : k ∈ S.tbr := List.mem_of_getElem? hik
  obtain ⟨⟨q, hq⟩, hcn⟩ := st.tbr k hkm
  have hsub : ∀ x ∈ S.tbr.eraseIdx i, x ∈ S.tbr :=
    fun x hx => (List.eraseIdx_sublist S.tbr i).subset hx
  have hi1 : Inv G A (setS w s { S with tbr := S.tbr.eraseIdx i }) :=
    hi.set_tbr _ hS (List.Nodup.sublist (List.eraseIdx_sublist _ _) st.tbrNodup)
      (fun x hx => st.tbr x (hsub x hx))
  have hS1 := getS_setS_self (x := { S with tbr := S.tbr.eraseIdx i }) hS
  obtain ⟨d, hd⟩ := hfl
  have hnk : k ∉ ({ S with tbr := S.tbr.eraseIdx i } : Sub).tbr := by
    show k ∉ S.tbr.eraseIdx i
    rw [List.mem_eraseIdx_iff_getElem?]
    rintro ⟨i', hne, hi'⟩
    have hlt : i < S.tbr.length := by
      obtain ⟨h, _⟩ := List.getElem?_eq_some_iff.mp hik; exact h
    have := (List.getElem?_inj hlt st.tbrNodup).mp (hik.trans hi'.symm)
    exact hne this.symm
  obtain ⟨hiX, S', hS', hshr, htb, _, habs, hgc⟩ :=
    drop_step (key := k) (p := q) hi1 hS1 hq (connFlags_borrow hq hd) hcn hnk
  refine ⟨hiX, S', hS', ⟨hshr.conns, hshr.snap, hshr.alive, hshr.stor⟩, ?_, ?_⟩
  · intro x hx; rw [htb] at hx; exact hsub x hx
  · intro k' q' hk' hq'
    have hne : k' ≠ k := by rintro rfl; exact hk' hkm
    refine ⟨by rw [habs]; simp only [hne, if_false]; exact hq', fun b => ?_⟩
    have hqq : q' ≠ q := by
      rintro rfl; exact hne (st.inj k' k q' hq' hq)
    exact hgc q' b hqq

theorem makeRoom_inv {G : GT} {A : GA} {w : World} {s : Nat} {S : Sub} (hb : Bool)
    (hi : Inv G A w) (hS : getS w s = some S) :
    Inv G A (subMakeRoom w s S hb) ∧
    ∃ S', getS (subMakeRoom w s S hb) s = some S' ∧ Shr S S' ∧ (∀ x ∈ S'.tbr, x ∈ S.tbr) ∧
      ∀ k' q, k' ∉ S.tbr → abs S.storage k' = some q →
        abs S'.storage k' = some q ∧ ∀ b, getC (subMakeRoom w s S hb) q b = getC w q b := by
  have st := hi.top.subs s S hS
  have hsame : Inv G A w ∧ ∃ S', getS w s = some S' ∧ Shr S S' ∧ (∀ x ∈ S'.tbr, x ∈ S.tbr) ∧
      ∀ k' q, k' ∉ S.tbr → abs S.storage k' = some q →
        abs S'.storage k' = some q ∧ ∀ b, getC w q b = getC w q b :=
    ⟨hi, S, hS, Shr.refl S, fun _ h => h, fun _ _ _ h => ⟨h, fun _ => rfl⟩⟩
  have hfound : ∀ (cond : Bool → Bool → Bool), (∀ d b, cond d b = true → b = false) →
      ∀ i k, findTbr w s S cond S.tbr 0 = some (i, k) →
        S.tbr[i]? = some k ∧ ∃ d, connFlags w s S k = some (d, false) := by
    intro cond hcond i k hf
    obtain ⟨_, h2, h3⟩ := findTbr_some _ _ _ _ hf
    simp only [Nat.sub_zero] at h2
    refine ⟨h2, ?_⟩
    obtain ⟨⟨q, hq⟩, _⟩ := st.tbr k (List.mem_of_getElem? h2)
    rcases h3 with h3 | ⟨d, b, h3, h4⟩
    · exact absurd h3 (connFlags_ne_none hq)
    · rw [hcond d b h4] at h3; exact ⟨d, h3⟩
  unfold subMakeRoom
  split
  · rename_i i k hf
    obtain ⟨h1, h2⟩ := hfound _ (by intro d b h; cases d <;> cases b <;> simp_all) i k hf
    exact erase_drop hi hS h1 h2
  · split
    · split
      · rename_i i k hf
        obtain ⟨h1, h2⟩ := hfound _ (by intro d b h; cases b <;> simp_all) i k hf
        exact erase_drop hi hS h1 h2
      · exact hsame
    · exact hsame

theorem prepTail_inv {G : GT} {A : GA} {w : World} {s slot key pold : Nat} {S : Sub} (hbw : Bool)
    (hi : Inv G A w) (hG : G.hole = some (s, slot)) (hS : getS w s = some S)
    (hk : abs S.storage key = some pold) (hnt : key ∉ S.tbr)
    (hinj : ∀ j : Nat, S.conns[j]? = some (some key) → j = slot)
    (hb : hbw = false → ∀ c, getC w pold s = some c → c.borrow = 0) :
    (subPrepTail w s key hbw).panicked = true ∨
    (Inv G A (subPrepTail w s key hbw) ∧
      ∃ S', getS (subPrepTail w s key hbw) s = some S' ∧ Shr S S') := by
  simp only [subPrepTail, hS]
  split
  · exact Or.inr (append_step hi hG hS hk hnt hinj)
  · cases hbw with
    | true => left; rfl
    | false =>
      right
      simp only [Bool.false_eq_true, if_false]
      obtain ⟨h1, S', h2, h3, _⟩ := drop_step hi hS hk (hb rfl)
        (fun j hj => by rw [hinj j hj]; exact hG) hnt
      exact ⟨h1, S', h2, h3⟩

theorem subPrepareRemoval_inv {G : GT} {A : GA} {w : World} {s slot : Nat} {S : Sub}
    (hi : Inv G A w) (hh : G.hole = none) (hS : getS w s = some S)
    (horph : ∀ key pold, S.conns[slot]? = some (some key) → abs S.storage key = some pold →
      ∃ Pold, getP w pold = some Pold ∧ Pold.alive = false ∧
        ∀ j : Nat, S.snap[j]? ≠ some (some pold)) :
    (subPrepareRemoval w s slot).panicked = true ∨
    (Inv (Gh G s slot) A (subPrepareRemoval w s slot) ∧
      ∃ S', getS (subPrepareRemoval w s slot) s = some S' ∧ Shr S S') := by
  have st := hi.top.subs s S hS
  have hi' : Inv (Gh G s slot) A w := hi.open_hole hh hS horph
  have hsame : w.panicked = true ∨ (Inv (Gh G s slot) A w ∧ ∃ S', getS w s = some S' ∧ Shr S S') :=
    Or.inr ⟨hi', S, hS, Shr.refl S⟩
  rw [subPrepareRemoval_eq]
  simp only [hS]
  cases hkey : S.conns.getD slot none with
  | none => exact hsame
  | some key =>
    simp only
    have hkey' : S.conns[slot]? = some (some key) := by
      rw [List.getD_eq_getElem?_getD] at hkey
      cases h : S.conns[slot]? with
      | none => rw [h] at hkey; cases hkey
      | some v => rw [h] at hkey; simp only [Option.getD_some] at hkey; rw [hkey]
    have hnh : ∀ j : Nat, G.hole ≠ some (s, j) := by intro j; rw [hh]; simp
    obtain ⟨pold, Pold, hk, _, _, _⟩ := st.conn slot key hkey' (hnh slot)
    have hinj : ∀ j : Nat, S.conns[j]? = some (some key) → j = slot :=
      fun j hj => st.conn_inj hj hkey' (hnh j) (hnh slot)
    have hnt : key ∉ S.tbr := by
      intro hm
      have := (st.tbr key hm).2 slot hkey'
      exact hnh slot this
    cases hcf : connFlags w s S key with
    | none => exact hsame
    | some fl =>
      obtain ⟨hd, hbw⟩ := fl
      simp only
      split
      · split
        · exact Or.inr (append_step hi' rfl hS hk hnt hinj)
        · obtain ⟨hiX, SX, hSX, hshr, htb, hkeep⟩ := makeRoom_inv hbw hi' hS
          obtain ⟨hkX, hcX⟩ := hkeep key pold hnt hk
          have := prepTail_inv (slot := slot) hbw hiX rfl hSX hkX (fun h => hnt (htb key h))
            (by rw [hshr.conns]; exact hinj)
            (by
              intro hf c hc
              rw [hcX] at hc
              subst hf
              exact connFlags_borrow hk hcf c hc)
          rcases this with h | ⟨h1, S', h2, h3⟩
          · exact Or.inl h
          · exact Or.inr ⟨h1, S', h2, hshr.trans h3⟩
      · rename_i hcond
        have hbf : hbw = false := by cases hd <;> cases hbw <;> simp_all
        subst hbf
        obtain ⟨h1, S', h2, h3, _⟩ := drop_step hi' hS hk (connFlags_borrow hk hcf)
          (fun j hj => by rw [hinj j hj]; rfl) hnt
        exact Or.inr ⟨h1, S', h2, h3⟩

/-! ### `subCreateConn` -/

/-- `Connection::new` of the receiver: attach to the existing connection or create it -/
def attachRecv (w : World) (p s cap : Nat) : World :=
  match getC w p s with
  | some c => setC w { c with rAtt := true }
  | none =>
    let n := match getP w p with | some P => P.n | none => 0
    { w with conns := w.conns ++ [{ pid := p, sid := s, cap := cap,
                                     used := List.replicate n false, rAtt := true }] }

theorem subCreateConn_eq (w : World) (s slot p : Nat) :
    subCreateConn w s slot p =
      match getS w s with
      | none => w
      | some S =>
        match smInsert S.storage p with
        | (m, some key) =>
          setS (attachRecv w p s S.buffer) s { S with storage := m, conns := S.conns.set slot (some key) }
        | (_, none) => { attachRecv w p s S.buffer with panicked := true } := rfl

theorem getD_replicate_false (n x : Nat) : (List.replicate n false).getD x false = false := by
  simp only [List.getD_eq_getElem?_getD, List.getElem?_replicate]
  split <;> rfl

theorem attachRecv_some {w : World} {p s cap : Nat} {c : Conn} (hc : getC w p s = some c) :
    attachRecv w p s cap = setC w { c with rAtt := true } := by
  unfold attachRecv; simp only [hc]

theorem attachRecv_none {w : World} {p s cap : Nat} {P : Pub} (hc : getC w p s = none)
    (hP : getP w p = some P) :
    attachRecv w p s cap = addC w { pid := p, sid := s, cap := cap,
                                    used := List.replicate P.n false, rAtt := true } := by
  unfold attachRecv addC; simp only [hc, hP]

theorem attachRecv_obs {w : World} {p s cap : Nat} {P : Pub}
    (hnd : w.conns.Pairwise fun a b => ¬ (a.pid = b.pid ∧ a.sid = b.sid))
    (hP : getP w p = some P) :
    ∃ cn', (attachRecv w p s cap).cfg = w.cfg ∧ (attachRecv w p s cap).pubReg = w.pubReg ∧
      (attachRecv w p s cap).subReg = w.subReg ∧
      (∀ q, getP (attachRecv w p s cap) q = getP w q) ∧
      (∀ t, getS (attachRecv w p s cap) t = getS w t) ∧
      getC (attachRecv w p s cap) p s = some cn' ∧
      (∀ a b, ¬ (a = p ∧ b = s) → getC (attachRecv w p s cap) a b = getC w a b) ∧
      ((attachRecv w p s cap).conns.Pairwise fun a b => ¬ (a.pid = b.pid ∧ a.sid = b.sid)) ∧
      cn'.pid = p ∧ cn'.sid = s ∧ cn'.rAtt = true ∧
      ((∃ c, getC w p s = some c ∧ cn' = { c with rAtt := true }) ∨
       (getC w p s = none ∧ cn' = { pid := p, sid := s, cap := cap,
                                    used := List.replicate P.n false, rAtt := true })) := by
  cases hc : getC w p s with
  | some c =>
    rw [attachRecv_some hc]
    obtain ⟨hpid, hsid, _⟩ := getC_some hc
    refine ⟨{ c with rAtt := true }, rfl, rfl, rfl, fun _ => rfl, fun _ => rfl, ?_, ?_,
      nodup_setC _ hnd, hpid, hsid, rfl, Or.inl ⟨c, rfl, rfl⟩⟩
    · simp only [getC_setC, hpid, hsid, and_self, if_true, hc, Option.map_some]
    · intro a b hab
      simp only [getC_setC, hpid, hsid, hab, if_false]
  | none =>
    rw [attachRecv_none hc hP]
    refine ⟨_, rfl, rfl, rfl, fun _ => rfl, fun _ => rfl, ?_, ?_, ?_, rfl, rfl, rfl,
      Or.inr ⟨rfl, rfl⟩⟩
    · rw [getC_addC, hc]; simp
    · intro a b hab
      rw [getC_addC]
      have : ¬ (p = a ∧ s = b) := fun h => hab ⟨h.1.symm, h.2.symm⟩
      simp only [this, if_false, Option.or_none]
    · exact nodup_addC (w := w) _ hnd hc

theorem create_core {G : GT} {A : GA} {w w' : World} {s slot p k0 : Nat} {S S' : Sub} {P : Pub}
    {cn' : Conn}
    (hi : Inv (Gh G s slot) A w) (hh : G.hole = none) (hS : getS w s = some S)
    (ha : S.alive = true) (hsnap : S.snap[slot]? = some (some p))
    (hno : ∀ k, abs S.storage k ≠ some p) (hP : getP w p = some P)
    (hcfg : w'.cfg = w.cfg) (hrp : w'.pubReg = w.pubReg) (hrs : w'.subReg = w.subReg)
    (hgP : ∀ q, getP w' q = getP w q)
    (hgS : ∀ t, getS w' t = if t = s then some S' else getS w t)
    (hgCp : getC w' p s = some cn')
    (hgCo : ∀ a b, ¬ (a = p ∧ b = s) → getC w' a b = getC w a b)
    (hnd : w'.conns.Pairwise fun a b => ¬ (a.pid = b.pid ∧ a.sid = b.sid))
    (c1 : cn'.pid = p) (c2 : cn'.sid = s) (c3 : cn'.rAtt = true)
    (c4 : (∃ c, getC w p s = some c ∧ cn' = { c with rAtt := true }) ∨
       (getC w p s = none ∧ cn' = { pid := p, sid := s, cap := S.buffer,
                                    used := List.replicate P.n false, rAtt := true }))
    (e1 : S'.alive = S.alive) (e2 : S'.ex = S.ex) (e3 : S'.slot = S.slot)
    (e4 : S'.conns = S.conns.set slot (some k0)) (e5 : S'.snap = S.snap) (e6 : S'.tbr = S.tbr)
    (e7 : S'.held = S.held)
    (hfresh : abs S.storage k0 = none) (hw : WInv S'.storage)
    (habs : ∀ k', abs S'.storage k' = if k' = k0 then some p else abs S.storage k') :
    Inv G A w' := by
  have st := hi.top.subs s S hS
  obtain ⟨P0, hP0, hPslot, hPreg, hPnp⟩ := st.snap slot p hsnap
  rw [hP] at hP0; cases hP0
  have hPnp : G.np ≠ some p := hPnp
  have hslot : slot < S.conns.length := by
    have : slot < S.snap.length := by
      obtain ⟨h, _⟩ := List.getElem?_eq_some_iff.mp hsnap; exact h
    rw [st.lenC, ← st.lenSnap]; exact this
  have hex : S.ex = true := st.aliveEx ha
  have hnh : ∀ j : Nat, G.hole ≠ some (s, j) := by intro j; rw [hh]; simp
  have hc_at : S'.conns[slot]? = some (some k0) := by
    rw [e4, List.getElem?_set]; simp [hslot]
  have hc_ne : ∀ j : Nat, j ≠ slot → S'.conns[j]? = S.conns[j]? := by
    intro j hj
    have : ¬ slot = j := fun e => hj e.symm
    rw [e4, List.getElem?_set]; simp only [this, if_false]
  have habs_old : ∀ k q, abs S.storage k = some q → abs S'.storage k = some q := by
    intro k q h
    have : k ≠ k0 := by rintro rfl; rw [hfresh] at h; cases h
    rw [habs]; simp only [this, if_false]; exact h
  have habs_new : ∀ k q, abs S'.storage k = some q →
      (k = k0 ∧ q = p) ∨ (k ≠ k0 ∧ abs S.storage k = some q) := by
    intro k q h
    rw [habs] at h
    by_cases hk : k = k0
    · simp only [hk, if_true] at h
      exact Or.inl ⟨hk, (Option.some.inj h).symm⟩
    · simp only [hk, if_false] at h
      exact Or.inr ⟨hk, h⟩
  have hpk : PubsKept w w' := PubsKept.of_eq hgP
  have hsk : SubsKept w w' := by
    intro t T hT
    rw [hgS]
    by_cases hts : t = s
    · subst hts; rw [hS] at hT; cases hT
      exact ⟨S', by simp, e3, e1⟩
    · exact ⟨T, by simp [hts, hT], rfl, rfl⟩
  have hheldOf : ∀ q, heldOf S' q = heldOf S q := by intro q; unfold heldOf; rw [e7]
  have hP' : getP w' p = some P := by rw [hgP]; exact hP
  have hS' : getS w' s = some S' := by rw [hgS]; simp
  -- the attached / new connection
  obtain ⟨hsA, hsAc, hub, hca⟩ : (cn'.sAtt = true ↔ some s ∈ P.conns) ∧
      (∀ c, getC w p s = some c → c.sAtt = true → cn'.sAtt = true) ∧
      (∀ x, cn'.used.getD x false = usedBit w p s x) ∧ ConnAcc w.cfg cn' P S := by
    rcases c4 with ⟨c, hc, rfl⟩ | ⟨hc, rfl⟩
    · obtain ⟨hpid, hsid, _⟩ := getC_some hc
      obtain ⟨P1, S1, hP1, hS1, ct⟩ := hi.top.conns p s c hc
      rw [hP] at hP1; cases hP1; rw [hS] at hS1; cases hS1
      have ca := hi.acc.conns p s c hc P S hP hS
      refine ⟨?_, fun c' hc' h => ?_, fun x => ?_, ?_⟩
      · rw [← hsid]; exact ct.sAtt
      · rw [hc] at hc'; cases hc'; exact h
      · unfold usedBit; rw [hc]
      · exact ⟨ca.usedLen, ca.subCap, ca.borrowMax, ca.total, ca.borrow, ca.nodup, ca.used,
          ca.idle⟩
    · have hnm : some s ∉ P.conns := by
        intro hm
        obtain ⟨i, hi'⟩ := List.mem_iff_getElem?.mp hm
        obtain ⟨_, _, _, _, _, _, cn, hcn, _⟩ := (hi.top.pubs p P hP).conn i s hi'
        rw [hc] at hcn; cases hcn
      have hheld : heldOf S p = [] := by
        unfold heldOf
        rw [List.filter_eq_nil_iff.mpr]
        · rfl
        · intro x hx hxp
          have := (hi.acc.subs s S hS).2.1 x hx
          simp only [decide_eq_true_eq] at hxp
          rw [hxp] at this
          exact hno _ this
      refine ⟨?_, fun c' hc' _ => (by rw [hc] at hc'; cases hc'), fun x => ?_, ?_⟩
      · constructor
        · intro h; cases h
        · intro h; exact absurd h hnm
      · unfold usedBit; rw [hc]; exact getD_replicate_false _ _
      · refine ⟨by simp, by simp, by simp, by simp, by simp [hheld], fun h => (by cases h),
          fun h => (by cases h),
          fun _ _ => ⟨fun x => getD_replicate_false _ _, fun _ => ⟨rfl, rfl, rfl⟩⟩⟩
  refine ⟨⟨?_, ?_, ?_, ?_⟩, ⟨?_, ?_, ?_⟩⟩
  · -- registry
    exact (hi.top.reg.congr hcfg hrp hrs hpk hsk
      (fun q P' h => ⟨P', by rw [← hgP]; exact h⟩)
      (fun t T' h => by
        rw [hgS] at h
        by_cases hts : t = s
        · subst hts; exact ⟨S, hS⟩
        · simp only [hts, if_false] at h; exact ⟨T', h⟩) hnd).ghost rfl rfl
  · -- publishers
    intro q Q hQ
    rw [hgP] at hQ
    apply ((hi.top.pubs q Q hQ).congr hcfg hrs hsk ?_).ghost (G' := G) rfl
    intro t cn hcn hsa
    by_cases hab : q = p ∧ t = s
    · obtain ⟨rfl, rfl⟩ := hab
      exact ⟨cn', hgCp, hsAc cn hcn hsa⟩
    · exact ⟨cn, by rw [hgCo q t hab]; exact hcn, hsa⟩
  · -- subscribers
    intro t T hT
    rw [hgS] at hT
    by_cases hts : t = s
    · subst hts
      simp only [if_true, Option.some.injEq] at hT
      subst hT
      refine ⟨by rw [e4, List.length_set, hcfg]; exact st.lenC, by rw [e5, hcfg]; exact st.lenSnap,
        by rw [e1, e2]; exact st.aliveEx, ?_, hw, ?_, ?_, ?_, ?_, by rw [e6]; exact st.tbrNodup, ?_⟩
      · intro hx; rw [e2, hex] at hx; cases hx
      · intro k q hkq
        rcases habs_new k q hkq with ⟨rfl, rfl⟩ | ⟨hne, hold⟩
        · exact ⟨⟨cn', hgCp, c3⟩, P, hP', hpk.preg hrp hP hP' hPreg, hPnp,
            Or.inl ⟨slot, hnh slot, hc_at⟩⟩
        · obtain ⟨⟨cn, h1, h2⟩, Q, hQ, h3, h4, h5⟩ := st.stor k q hold
          have hqp : q ≠ p := fun e => hno k (e ▸ hold)
          refine ⟨⟨cn, by rw [hgCo q t (fun h => hqp h.1)]; exact h1, h2⟩, Q,
            by rw [hgP]; exact hQ, hpk.preg hrp hQ (by rw [hgP]; exact hQ) h3, h4, ?_⟩
          rcases h5 with ⟨j, h6, h7⟩ | h5
          · have hj : j ≠ slot := by
              intro e; apply h6; rw [e]; rfl
            exact Or.inl ⟨j, hnh j, by rw [hc_ne j hj]; exact h7⟩
          · exact Or.inr (by rw [e5]; exact h5)
      · intro k1 k2 q h1 h2
        rcases habs_new k1 q h1 with ⟨rfl, rfl⟩ | ⟨_, g1⟩ <;>
          rcases habs_new k2 q h2 with ⟨rfl, g⟩ | ⟨_, g2⟩
        · rfl
        · exact absurd g2 (hno k2)
        · subst g; exact absurd g1 (hno k1)
        · exact st.inj k1 k2 q g1 g2
      · intro j k hj _
        by_cases hjs : j = slot
        · subst hjs
          rw [hc_at] at hj
          simp only [Option.some.injEq] at hj
          subst hj
          exact ⟨p, P, by rw [habs]; simp, hP', hPslot, fun _ => by rw [e5]; exact hsnap⟩
        · rw [hc_ne j hjs] at hj
          have hne : (Gh G t slot).hole ≠ some (t, j) := by
            simp only [Gh_hole, ne_eq, Option.some.injEq, Prod.mk.injEq, true_and]
            exact fun e => hjs e.symm
          obtain ⟨q, Q, g1, hQ, g2, g3⟩ := st.conn j k hj hne
          exact ⟨q, Q, habs_old k q g1, by rw [hgP]; exact hQ, g2, by rw [e5]; exact g3⟩
      · intro j q hj
        rw [e5] at hj
        obtain ⟨Q, hQ, h1, h2, h3⟩ := st.snap j q hj
        exact ⟨Q, by rw [hgP]; exact hQ, h1, hpk.preg hrp hQ (by rw [hgP]; exact hQ) h2, h3⟩
      · intro k hk
        rw [e6] at hk
        obtain ⟨⟨q, hq⟩, h2⟩ := st.tbr k hk
        refine ⟨⟨q, habs_old k q hq⟩, fun j hj => ?_⟩
        exfalso
        by_cases hjs : j = slot
        · subst hjs
          rw [hc_at] at hj
          simp only [Option.some.injEq] at hj
          subst hj
          rw [hfresh] at hq; cases hq
        · rw [hc_ne j hjs] at hj
          have := h2 j hj
          simp only [Gh_hole, Option.some.injEq, Prod.mk.injEq, true_and] at this
          exact hjs this.symm
    · simp only [hts, if_false] at hT
      apply ((hi.top.subs t T hT).ghost (G' := G) rfl ?_).congr hcfg hrp hpk
      · intro q cn hcn hra
        exact ⟨cn, by rw [hgCo q t (fun h => hts h.2)]; exact hcn, hra⟩
      · intro j
        rw [hh]
        simp only [Gh_hole, Option.some.injEq, Prod.mk.injEq, reduceCtorEq, false_iff, not_and]
        intro h; exact absurd h.symm hts
  · -- connections (topology)
    intro a b cn hcn
    by_cases hab : a = p ∧ b = s
    · obtain ⟨rfl, rfl⟩ := hab
      rw [hgCp] at hcn; cases hcn
      refine ⟨P, S', hP', hS', Or.inr c3, by rw [c2]; exact hsA, ?_⟩
      constructor
      · intro _; exact ⟨k0, by rw [habs, c1]; simp⟩
      · intro _; exact c3
    · rw [hgCo a b hab] at hcn
      obtain ⟨Pa, Sb, hPa, hSb, ct⟩ := hi.top.conns a b cn hcn
      obtain ⟨hpid', hsid', _⟩ := getC_some hcn
      by_cases hbs : b = s
      · subst hbs
        rw [hS] at hSb; cases hSb
        have hap : a ≠ p := fun h => hab ⟨h, rfl⟩
        refine ⟨Pa, S', by rw [hgP]; exact hPa, hS', ct.att, ct.sAtt, ?_⟩
        rw [ct.rAtt, hpid']
        constructor
        · rintro ⟨k, hk⟩; exact ⟨k, habs_old k a hk⟩
        · rintro ⟨k, hk⟩
          rcases habs_new k a hk with ⟨_, e⟩ | ⟨_, h⟩
          · exact absurd e hap
          · exact ⟨k, h⟩
      · exact ⟨Pa, Sb, by rw [hgP]; exact hPa, by rw [hgS]; simp [hbs, hSb], ct⟩
  · -- publishers (accounting)
    intro q Q hQ
    rw [hgP] at hQ
    obtain ⟨h1, h2⟩ := hi.acc.pubs q Q hQ
    refine ⟨fun hx => (h1 hx).congr ?_, h2⟩
    intro t x _
    by_cases hab : q = p ∧ t = s
    · obtain ⟨rfl, rfl⟩ := hab
      rw [usedBit_of_getC hgCp, hub]
    · exact usedBit_congr (hgCo q t hab) x
  · -- subscribers (accounting)
    intro t T hT
    rw [hgS] at hT
    by_cases hts : t = s
    · subst hts
      simp only [if_true, Option.some.injEq] at hT
      subst hT
      obtain ⟨h1, h2, h3⟩ := hi.acc.subs t S hS
      refine ⟨by rw [e2, e7]; exact h1, ?_, ?_⟩
      · intro x hx
        rw [e7] at hx
        exact habs_old _ _ (h2 x hx)
      · intro ha' x hx
        rw [e1] at ha'; rw [e7] at hx
        obtain ⟨Q, hQ, hq⟩ := h3 ha' x hx
        exact ⟨Q, by rw [hgP]; exact hQ, hq⟩
    · simp only [hts, if_false] at hT
      obtain ⟨h1, h2, h3⟩ := hi.acc.subs t T hT
      refine ⟨h1, h2, fun ha' x hx => ?_⟩
      obtain ⟨Q, hQ, hq⟩ := h3 ha' x hx
      exact ⟨Q, by rw [hgP]; exact hQ, hq⟩
  · -- connections (accounting)
    intro a b cn hcn Pa Sb hPa hSb
    rw [hgP] at hPa; rw [hgS] at hSb; rw [hcfg]
    by_cases hab : a = p ∧ b = s
    · obtain ⟨rfl, rfl⟩ := hab
      rw [hgCp] at hcn; cases hcn
      simp only [if_true, Option.some.injEq] at hSb
      subst hSb
      rw [hP] at hPa; cases hPa
      exact hca.congr rfl rfl (hheldOf _) e1
    · rw [hgCo a b hab] at hcn
      by_cases hbs : b = s
      · subst hbs
        simp only [if_true, Option.some.injEq] at hSb
        subst hSb
        exact (hi.acc.conns a b cn hcn Pa S hPa hS).congr rfl rfl (hheldOf _) e1
      · simp only [hbs, if_false] at hSb
        exact hi.acc.conns a b cn hcn Pa Sb hPa hSb

theorem subCreateConn_inv {G : GT} {A : GA} {w : World} {s slot p : Nat} {S : Sub}
    (hi : Inv (Gh G s slot) A w) (hh : G.hole = none) (hS : getS w s = some S)
    (ha : S.alive = true) (hsnap : S.snap[slot]? = some (some p))
    (hno : ∀ k, abs S.storage k ≠ some p) :
    (subCreateConn w s slot p).panicked = true ∨
    (Inv G A (subCreateConn w s slot p) ∧
      ∃ k0 S', getS (subCreateConn w s slot p) s = some S' ∧
        S'.conns = S.conns.set slot (some k0) ∧ S'.snap = S.snap ∧ S'.alive = S.alive ∧
        ∀ k', abs S'.storage k' = if k' = k0 then some p else abs S.storage k') := by
  have st := hi.top.subs s S hS
  obtain ⟨P, hP, _⟩ := st.snap slot p hsnap
  rw [subCreateConn_eq]
  simp only [hS]
  rcases smInsert_spec st.winv p with ⟨k0, m', hins, hfresh, hw, habs⟩ | ⟨m', hins⟩
  · rw [hins]
    simp only
    right
    obtain ⟨cn', o1, o2, o3, o4, o5, o6, o7, o8, c1, c2, c3, c4⟩ :=
      attachRecv_obs (s := s) (cap := S.buffer) hi.top.reg.nodup hP
    generalize attachRecv w p s S.buffer = W1 at *
    have hgS : ∀ t, getS (setS W1 s { S with storage := m', conns := S.conns.set slot (some k0) }) t =
        if t = s then some { S with storage := m', conns := S.conns.set slot (some k0) }
        else getS w t := by
      intro t
      rw [getS_setS]
      by_cases hts : t = s
      · subst hts; simp [o5, hS]
      · simp [hts, o5]
    refine ⟨?_, k0, { S with storage := m', conns := S.conns.set slot (some k0) },
      by rw [hgS]; simp, rfl, rfl, rfl, habs⟩
    exact create_core (cn' := cn') (k0 := k0) hi hh hS ha hsnap hno hP o1 o2 o3 o4 hgS o6 o7 o8
      c1 c2 c3 c4 rfl rfl rfl rfl rfl rfl rfl hfresh hw habs
  · rw [hins]
    left; rfl

/-! ### a panic is never reset -/

theorem subMakeRoom_panicked (w : World) (s : Nat) (S : Sub) (hb : Bool) :
    (subMakeRoom w s S hb).panicked = w.panicked := by
  unfold subMakeRoom
  split
  · rw [subDropConn_panicked]; rfl
  · split
    · split
      · rw [subDropConn_panicked]; rfl
      · rfl
    · rfl

theorem subPrepTail_panicked {w : World} (s key : Nat) (hb : Bool) (h : w.panicked = true) :
    (subPrepTail w s key hb).panicked = true := by
  unfold subPrepTail
  split
  · exact h
  · split
    · exact h
    · split
      · rfl
      · rw [subDropConn_panicked]; exact h

theorem subPrepareRemoval_panicked {w : World} (s slot : Nat) (h : w.panicked = true) :
    (subPrepareRemoval w s slot).panicked = true := by
  rw [subPrepareRemoval_eq]
  split
  · exact h
  · split
    · exact h
    · split
      · exact h
      · split
        · split
          · exact h
          · apply subPrepTail_panicked
            rw [subMakeRoom_panicked]; exact h
        · rw [subDropConn_panicked]; exact h

theorem attachRecv_panicked (w : World) (p s cap : Nat) :
    (attachRecv w p s cap).panicked = w.panicked := by
  unfold attachRecv
  split <;> rfl

theorem subCreateConn_panicked {w : World} (s slot p : Nat) (h : w.panicked = true) :
    (subCreateConn w s slot p).panicked = true := by
  rw [subCreateConn_eq]
  split
  · exact h
  · split
    · show (attachRecv _ _ _ _).panicked = true
      rw [attachRecv_panicked]; exact h
    · rfl

theorem subUpdateSlots_panicked (s : Nat) :
    ∀ (r : List (Option Nat)) (w : World) (i : Nat) (tagged : List Nat), w.panicked = true →
      (subUpdateSlots w s r i tagged).1.panicked = true := by
  intro r
  induction r with
  | nil => intro w i tagged h; exact h
  | cons a r ih =>
    intro w i tagged h
    cases a with
    | none => exact ih w (i + 1) tagged h
    | some p =>
      simp only [subUpdateSlots]
      split
      · exact h
      · split
        · exact ih _ _ _ h
        · exact ih _ _ _ (subCreateConn_panicked _ _ _ (subPrepareRemoval_panicked _ _ h))

theorem subFinish_panicked (s : Nat) (tagged : List Nat) :
    ∀ (fuel : Nat) (w : World) (n : Nat), w.panicked = true →
      (subFinish w s tagged fuel n).panicked = true := by
  intro fuel
  induction fuel with
  | zero => intro w n h; exact h
  | succ fuel ih =>
    intro w n h
    simp only [subFinish]
    split
    · exact h
    · split
      · exact h
      · apply ih
        split
        · exact h
        · split
          · have h1 := subPrepareRemoval_panicked s n h
            split
            · exact h1
            · exact h1
          · exact h

/-! ### the two loops -/

/-- every connected slot below `i` whose publisher is in the snapshot has its key tagged -/
def Tagged (S : Sub) (tagged : List Nat) (i : Nat) : Prop :=
  ∀ (j k q : Nat), j < i → S.conns[j]? = some (some k) → abs S.storage k = some q →
    S.snap[j]? = some (some q) → k ∈ tagged

def TaggedAll (S : Sub) (tagged : List Nat) : Prop :=
  ∀ (j k q : Nat), S.conns[j]? = some (some k) → abs S.storage k = some q →
    S.snap[j]? = some (some q) → k ∈ tagged

theorem getD_none_eq_some {l : List (Option Nat)} {i k : Nat} :
    l.getD i none = some k ↔ l[i]? = some (some k) := by
  rw [List.getD_eq_getElem?_getD]
  cases h : l[i]? with
  | none => simp
  | some v => simp

/-- the key in slot `slot` belongs to a dead publisher that is not in the snapshot, if its publisher
is not the one the snapshot has at `slot` -/
theorem orphan_of {G : GT} {w : World} {s slot : Nat} {S : Sub} (st : SubTop G w s S)
    (hh : G.hole = none)
    (hne : ∀ key pold, S.conns[slot]? = some (some key) → abs S.storage key = some pold →
      S.snap[slot]? ≠ some (some pold)) :
    ∀ key pold, S.conns[slot]? = some (some key) → abs S.storage key = some pold →
      ∃ Pold, getP w pold = some Pold ∧ Pold.alive = false ∧
        ∀ j : Nat, S.snap[j]? ≠ some (some pold) := by
  intro key pold hkey hk
  have hnh : G.hole ≠ some (s, slot) := by rw [hh]; simp
  obtain ⟨p, P, h1, hP, h2, h3⟩ := st.conn slot key hkey hnh
  rw [hk] at h1; cases h1
  have hn := hne key pold hkey hk
  refine ⟨P, hP, ?_, ?_⟩
  · cases ha : P.alive with
    | false => rfl
    | true => exact absurd (h3 ha) hn
  · intro j hj
    obtain ⟨P', hP', g1, _⟩ := st.snap j pold hj
    rw [hP] at hP'; cases hP'
    have : j = slot := by omega
    subst this
    exact hn hj

theorem subUpdateSlots_inv {G : GT} {A : GA} {s : Nat} (hh : G.hole = none) :
    ∀ (r : List (Option Nat)) (w : World) (i : Nat) (tagged : List Nat) (S : Sub),
      Inv G A w → getS w s = some S → S.alive = true →
      (∀ j : Nat, r[j]? = S.snap[i + j]?) → Tagged S tagged i →
      (subUpdateSlots w s r i tagged).1.panicked = true ∨
      (Inv G A (subUpdateSlots w s r i tagged).1 ∧
        ∃ S', getS (subUpdateSlots w s r i tagged).1 s = some S' ∧ S'.alive = true ∧
          TaggedAll S' (subUpdateSlots w s r i tagged).2) := by
  intro r
  induction r with
  | nil =>
    intro w i tagged S hi hS ha hsuf htag
    right
    refine ⟨hi, S, hS, ha, ?_⟩
    intro j k q h1 h2 h3
    have hlen : S.snap.length ≤ i := by
      have := hsuf 0
      simp only [List.getElem?_nil, Nat.add_zero] at this
      exact List.getElem?_eq_none_iff.mp this.symm
    have hj : j < S.snap.length := by
      obtain ⟨h, _⟩ := List.getElem?_eq_some_iff.mp h3; exact h
    exact htag j k q (by omega) h1 h2 h3
  | cons a r ih =>
    intro w i tagged S hi hS ha hsuf htag
    have hsuf' : ∀ j : Nat, r[j]? = S.snap[i + 1 + j]? := by
      intro j
      have := hsuf (j + 1)
      simp only [List.getElem?_cons_succ] at this
      rw [this]; congr 1; omega
    have hhead : S.snap[i]? = some a := by
      have := hsuf 0
      simpa using this.symm
    have st := hi.top.subs s S hS
    cases a with
    | none =>
      apply ih w (i + 1) tagged S hi hS ha hsuf'
      intro j k q hj h1 h2 h3
      by_cases hji : j = i
      · subst hji; rw [hhead] at h3; cases h3
      · exact htag j k q (by omega) h1 h2 h3
    | some p =>
      simp only [subUpdateSlots, hS]
      split
      · -- already connected to `p`
        rename_i key hconn
        apply ih w (i + 1) (key :: tagged) S hi hS ha hsuf'
        intro j k q hj h1 h2 h3
        by_cases hji : j = i
        · subst hji
          split at hconn
          · cases hconn
          · rename_i key' hgd
            rw [getD_none_eq_some] at hgd
            rw [hgd] at h1
            simp only [Option.some.injEq] at h1
            subst h1
            split at hconn
            · split at hconn
              · simp only [Option.some.injEq] at hconn
                subst hconn
                exact List.mem_cons_self
              · cases hconn
            · cases hconn
        · exact List.mem_cons_of_mem _ (htag j k q (by omega) h1 h2 h3)
      · -- replace the connection
        rename_i hconn
        have hne : ∀ key pold, S.conns[i]? = some (some key) → abs S.storage key = some pold →
            pold ≠ p := by
          intro key pold hkey hk hpp
          subst hpp
          rw [← getD_none_eq_some] at hkey
          rw [← smGet_eq_abs] at hk
          simp only [hkey, hk, if_true, reduceCtorEq] at hconn
        have hne' : ∀ key pold, S.conns[i]? = some (some key) → abs S.storage key = some pold →
            S.snap[i]? ≠ some (some pold) := by
          intro key pold hkey hk h
          rw [hhead] at h
          simp only [Option.some.injEq] at h
          exact hne key pold hkey hk h.symm
        have horph := orphan_of st hh hne'
        have hnh : ∀ j : Nat, G.hole ≠ some (s, j) := by intro j; rw [hh]; simp
        have hno : ∀ k, abs S.storage k ≠ some p := by
          intro k hk
          obtain ⟨_, P, hP, _, _, hor⟩ := st.stor k p hk
          rcases hor with ⟨j, _, hj⟩ | ⟨_, hor⟩
          · obtain ⟨p', P', g1, hP', g2, _⟩ := st.conn j k hj (hnh j)
            rw [hk] at g1; cases g1
            obtain ⟨P'', hP'', g3, _⟩ := st.snap i p hhead
            rw [hP'] at hP''; cases hP''
            have : j = i := by omega
            subst this
            exact hne k p hj hk rfl
          · exact hor i hhead
        rcases subPrepareRemoval_inv hi hh hS horph with hp1 | ⟨hi1, S1, hS1, shr⟩
        · left
          exact subUpdateSlots_panicked s r _ _ _ (subCreateConn_panicked _ _ _ hp1)
        · have ha1 : S1.alive = true := by rw [shr.alive]; exact ha
          rcases subCreateConn_inv (p := p) hi1 hh hS1 ha1 (by rw [shr.snap]; exact hhead)
            (fun k hk => hno k (shr.stor k p hk)) with hp2 | ⟨hi2, k0, S2, hS2, e1, e2, e3, habs⟩
          · left
            exact subUpdateSlots_panicked s r _ _ _ hp2
          · have hilt : i < S1.conns.length := by
              have : i < S.snap.length := by
                obtain ⟨h, _⟩ := List.getElem?_eq_some_iff.mp hhead; exact h
              rw [shr.conns, st.lenC, ← st.lenSnap]; exact this
            have hat : S2.conns[i]? = some (some k0) := by
              rw [e1, List.getElem?_set]; simp [hilt]
            have hgd : S2.conns.getD i none = some k0 := getD_none_eq_some.mpr hat
            simp only [hS2, hgd]
            apply ih _ (i + 1) (k0 :: tagged) S2 hi2 hS2 (by rw [e3]; exact ha1)
              (by rw [e2, shr.snap]; exact hsuf')
            intro j k q hj h1 h2 h3
            by_cases hk0 : k = k0
            · rw [hk0]; exact List.mem_cons_self
            · apply List.mem_cons_of_mem
              have hji : j ≠ i := by
                rintro rfl
                rw [hat] at h1
                simp only [Option.some.injEq] at h1
                exact hk0 h1.symm
              rw [habs] at h2
              simp only [hk0, if_false] at h2
              have hij : ¬ i = j := fun e => hji e.symm
              rw [e1, List.getElem?_set] at h1
              simp only [hij, if_false] at h1
              rw [shr.conns] at h1
              rw [e2, shr.snap] at h3
              exact htag j k q (by omega) h1 (shr.stor k q h2) h3

/-- the body of one iteration of `subFinish` -/
def subFinishStep (w : World) (s : Nat) (tagged : List Nat) (S : Sub) (n : Nat) : World :=
  match S.conns.getD n none with
  | none => w
  | some key =>
    if (smGet S.storage key).isSome && !tagged.contains key then
      let w := subPrepareRemoval w s n
      match getS w s with
      | some S' => setS w s { S' with conns := S'.conns.set n none }
      | none => w
    else w

theorem subFinish_succ (w : World) (s : Nat) (tagged : List Nat) (fuel n : Nat) :
    subFinish w s tagged (fuel + 1) n =
      match getS w s with
      | none => w
      | some S =>
        if n ≥ S.conns.length then w
        else subFinish (subFinishStep w s tagged S n) s tagged fuel (n + 1) := rfl

theorem subFinishStep_inv {G : GT} {A : GA} {w : World} {s n : Nat} {tagged : List Nat} {S : Sub}
    (hi : Inv G A w) (hh : G.hole = none) (hS : getS w s = some S) (htag : TaggedAll S tagged) :
    (subFinishStep w s tagged S n).panicked = true ∨
    (Inv G A (subFinishStep w s tagged S n) ∧
      ∃ S', getS (subFinishStep w s tagged S n) s = some S' ∧ TaggedAll S' tagged) := by
  have st := hi.top.subs s S hS
  have hsame : w.panicked = true ∨ (Inv G A w ∧ ∃ S', getS w s = some S' ∧ TaggedAll S' tagged) :=
    Or.inr ⟨hi, S, hS, htag⟩
  unfold subFinishStep
  split
  · exact hsame
  · rename_i key hgd
    rw [getD_none_eq_some] at hgd
    split
    · rename_i hcond
      simp only [Bool.and_eq_true, Bool.not_eq_eq_eq_not, Bool.not_true] at hcond
      obtain ⟨_, hnt⟩ := hcond
      have hnt : key ∉ tagged := by
        intro hm
        have : tagged.contains key = true := List.contains_iff_mem.mpr hm
        rw [this] at hnt; cases hnt
      have hne' : ∀ key' pold, S.conns[n]? = some (some key') → abs S.storage key' = some pold →
          S.snap[n]? ≠ some (some pold) := by
        intro key' pold hk' hab hsn
        rw [hgd] at hk'
        simp only [Option.some.injEq] at hk'
        subst hk'
        exact hnt (htag n key pold hgd hab hsn)
      rcases subPrepareRemoval_inv hi hh hS (orphan_of st hh hne') with hp | ⟨hi1, S1, hS1, shr⟩
      · left
        simp only
        split
        · exact hp
        · exact hp
      · right
        simp only [hS1]
        refine ⟨hi1.close_hole hh hS1, _, getS_setS_self hS1, ?_⟩
        intro j k q h1 h2 h3
        have h1 : (S1.conns.set n none)[j]? = some (some k) := h1
        rw [List.getElem?_set] at h1
        by_cases hj : n = j
        · simp only [hj, if_true] at h1
          split at h1 <;> simp at h1
        · simp only [hj, if_false] at h1
          rw [shr.conns] at h1
          have h3 : S1.snap[j]? = some (some q) := h3
          rw [shr.snap] at h3
          exact htag j k q h1 (shr.stor k q h2) h3
    · exact hsame

theorem subFinish_inv {G : GT} {A : GA} {s : Nat} {tagged : List Nat} (hh : G.hole = none) :
    ∀ (fuel : Nat) (w : World) (n : Nat) (S : Sub), Inv G A w → getS w s = some S →
      TaggedAll S tagged →
      (subFinish w s tagged fuel n).panicked = true ∨ Inv G A (subFinish w s tagged fuel n) := by
  intro fuel
  induction fuel with
  | zero => intro w n S hi _ _; exact Or.inr hi
  | succ fuel ih =>
    intro w n S hi hS htag
    rw [subFinish_succ]
    simp only [hS]
    split
    · exact Or.inr hi
    · rcases subFinishStep_inv (n := n) hi hh hS htag with hp | ⟨hi1, S1, hS1, htag1⟩
      · exact Or.inl (subFinish_panicked s tagged fuel _ _ hp)
      · exact ih _ (n + 1) S1 hi1 hS1 htag1

/-! ### the interface theorems -/

theorem subForceUpdate_inv {G : GT} {A : GA} {w : World} {s : Nat} {S : Sub}
    (hi : Inv G A w) (hh : G.hole = none) (hS : getS w s = some S) (ha : S.alive = true) :
    (subForceUpdate w s).panicked = true ∨ Inv G A (subForceUpdate w s) := by
  simp only [subForceUpdate, hS]
  have h := subUpdateSlots_inv (A := A) (s := s) hh S.snap w 0 [] S hi hS ha
    (fun j => by rw [Nat.zero_add]) (fun j k q hj => absurd hj (Nat.not_lt_zero j))
  generalize subUpdateSlots w s S.snap 0 [] = res at h
  obtain ⟨w1, tagged⟩ := res
  simp only at h ⊢
  rcases h with hp | ⟨hi1, S1, hS1, _, htag⟩
  · exact Or.inl (subFinish_panicked s tagged _ _ _ hp)
  · exact subFinish_inv hh _ _ _ S1 hi1 hS1 htag

theorem subUpdate_inv {G : GT} {A : GA} {w : World} {s : Nat}
    (hi : Inv G A w) (hh : G.hole = none) (ha : ∀ S, getS w s = some S → S.alive = true) :
    (subUpdate w s).panicked = true ∨ Inv G A (subUpdate w s) := by
  unfold subUpdate
  split
  · exact Or.inr hi
  · rename_i S hS
    split
    · exact Or.inr hi
    · have st := hi.top.subs s S hS
      have reg := hi.top.reg
      have hi1 : Inv G A (setS w s { S with snapCtr := w.pubReg.counter, snap := w.pubReg.slots }) := by
        apply hi.setS_change (G' := G)
          (S' := { S with snapCtr := w.pubReg.counter, snap := w.pubReg.slots }) hS rfl rfl
          (fun _ _ _ => Iff.rfl) rfl rfl rfl rfl rfl
        refine ⟨st.lenC, reg.lenP, st.aliveEx, st.dead, st.winv, ?_, st.inj, ?_, ?_, st.tbrNodup,
          st.tbr⟩
        · intro k p hk
          obtain ⟨h1, P, hP, h2, h3, h4⟩ := st.stor k p hk
          refine ⟨h1, P, hP, h2, h3, ?_⟩
          rcases h4 with h4 | ⟨h4, _⟩
          · exact Or.inl h4
          · refine Or.inr ⟨h4, fun j hj => ?_⟩
            obtain ⟨P', hP', g1, _⟩ := reg.r1 j p hj
            rw [hP] at hP'; cases hP'
            rw [h4] at g1; cases g1
        · intro j k hj hne
          obtain ⟨p, P, h1, hP, h2, _⟩ := st.conn j k hj hne
          refine ⟨p, P, h1, hP, h2, fun hal => ?_⟩
          obtain ⟨_, P', hP', hpr, _⟩ := st.stor k p h1
          rw [hP] at hP'; cases hP'
          rcases hpr with hpr | hpr
          · rw [hal] at hpr; cases hpr
          · rw [h2] at hpr; exact hpr
        · intro j p hj
          obtain ⟨P, hP, g1, g2⟩ := reg.r1 j p hj
          refine ⟨P, hP, g2, Or.inr (by rw [g2]; exact hj), ?_⟩
          intro hnp
          exact reg.npFresh p hnp j hj
      exact subForceUpdate_inv hi1 hh (getS_setS_self hS) (ha S hS)

end Iox2.PubSub.C02P
