/-
Layer B: `retrieve_returned_chunks` and `deliver_offset`.
-/
import Iox2.Proof.PubSubC01B5
namespace Iox2.PubSub.C01P
open Iox2.PubSub

variable {cfg : Cfg} {np ns : Option Nat} {fl : Option (Nat × Nat × Bool)} {w : World}

/-- a pinned chunk is not used by an attached connection of the publisher -/
theorem InvB.pinned_bit (h : InvB fl w) {p : Nat} {P : Pub} (hP : getP w p = some P) (hex : P.ex = true) {y : Nat}
    (hy : Pinned fl p P y) {c : Conn} (hcm : c ∈ w.conns) (hcp : c.pid = p) (hsa : c.sAtt = true) :
    c.used.getD y false = false := by
  have := (h.pinned_unused hP hex hy).1
  have := usedCnt_zero this hcm
  rw [ind_att hcp hsa] at this
  cases hh : c.used.getD y false with
  | false => rfl
  | true => rw [hh] at this; simp [b2n] at this

/-- the counter of a chunk is at least the contribution of one attached connection -/
theorem InvB.rc_ge_bit (h : InvB fl w) {p : Nat} {P : Pub} (hP : getP w p = some P) (hex : P.ex = true)
    {c : Conn} (hcm : c ∈ w.conns) (hcp : c.pid = p) (hsa : c.sAtt = true) {y : Nat} (hy : y < P.n) :
    b2n (c.used.getD y false) ≤ P.rc.getD y 0 := by
  have h1 := h.rc p P hP hex y hy
  cases hh : c.used.getD y false with
  | false => simp [b2n]
  | true =>
    have : ind p y c = 1 := by rw [ind_att hcp hsa, hh]; rfl
    have := usedCnt_pos hcm this
    simp only [b2n, if_true]
    omega

theorem InvB.drainStep (h : InvB fl w) {p s : Nat} {P : Pub} {c : Conn} (hP : getP w p = some P) (hex : P.ex = true)
    (hC : getC w p s = some c) (hsa : c.sAtt = true) (hSex : ∃ S, getS w s = some S) :
    InvB fl (setC (setP w p (drainComp P c.used c.comp).1) { c with comp := [], used := (drainComp P c.used c.comp).2 }) := by
  obtain ⟨hcm, hcp, hcs⟩ := getC_some hC
  have hlens := h.lens p P hP
  have hul := h.usedLen c hcm P (hcp ▸ hP)
  obtain ⟨a1, a2, a3, a4, a5, a6, a7, a8⟩ := drainComp_inv (fun y => P.rc.getD y 0 - b2n (c.used.getD y false))
    c.comp P c.used hlens.1 hul (h.free p P hP hex) (fun y hy => by
      have := h.rc_ge_bit hP hex hcm hcp hsa hy
      omega)
  show InvB fl (setP (setC w _) p _)
  refine h.updPC hP hex hC hsa hcp hcs hsa a8 a2 a3 a1 ?_ ?_ ?_ ?_
  · intro y hy
    have := a4 y hy
    have := h.rc_ge_bit hP hex hcm hcp hsa hy
    simp only at *
    omega
  · intro y hy
    cases hh : (drainComp P c.used c.comp).2.getD y false with
    | false => rfl
    | true =>
      have := a5 y hh
      rw [h.pinned_bit hP hex hy hcm hcp hsa] at this; cases this
  · intro S hS
    obtain ⟨hnd, hused⟩ := h.inqOk c hcm hsa P S (hcp ▸ hP) hex (hcs ▸ hS)
    unfold inq at hnd hused ⊢
    simp only [List.append_nil]
    have hsub : (c.sub.map (·.1) ++ heldCh S c.pid).Sublist (c.sub.map (·.1) ++ c.comp ++ heldCh S c.pid) := by
      rw [List.append_assoc]
      exact List.Sublist.append_left (List.sublist_append_right _ _) _
    refine ⟨hnd.sublist hsub, fun y hy => ?_⟩
    have hyin : y ∈ c.sub.map (·.1) ++ c.comp ++ heldCh S c.pid := hsub.subset hy
    have hnc : y ∉ c.comp := by
      intro hc'
      rw [List.append_assoc] at hnd
      rw [List.nodup_append] at hnd
      obtain ⟨_, hnd2, hdis⟩ := hnd
      rcases List.mem_append.mp hy with h1 | h1
      · exact hdis y h1 y (List.mem_append_left _ hc') rfl
      · rw [List.nodup_append] at hnd2
        exact hnd2.2.2 y hc' y h1 rfl
    rw [a7 y hnc]; exact hused y hyin
  · intro ch q hm
    obtain ⟨S, hS⟩ := hSex
    exact h.ppi c hcm P S (hcp ▸ hP) (hcs ▸ hS) (Or.inl hsa) ch q hm

/-- both lower layers together -/
structure InvAB (cfg : Cfg) (np ns : Option Nat) (fl : Option (Nat × Nat × Bool)) (w : World) : Prop where
  a : InvA cfg np ns w
  b : InvB fl w

theorem invAB_retrieveFrom (h : InvAB cfg np ns fl w) (p : Nat) (sl : List (Option Nat))
    (hex : ∀ P, getP w p = some P → P.ex = true)
    (hsl : ∀ s, some s ∈ sl → ∀ P, getP w p = some P → ∃ i : Nat, P.conns[i]? = some (some s)) :
    InvAB cfg np ns fl (retrieveFrom w p sl) := by
  induction sl generalizing w with
  | nil => exact h
  | cons x r ih =>
    cases x with
    | none => exact ih h hex (fun s hs => hsl s (List.mem_cons_of_mem _ hs))
    | some s =>
      have hA1 := h.a.retrieveFrom p [some s]
      unfold Iox2.PubSub.retrieveFrom at hA1 ⊢
      cases hP : getP w p with
      | none => exact ih h hex (fun s hs => hsl s (List.mem_cons_of_mem _ hs))
      | some P =>
        cases hC : getC w p s with
        | none => exact ih h hex (fun s hs => hsl s (List.mem_cons_of_mem _ hs))
        | some c =>
          rw [hP, hC] at hA1
          simp only at hA1 ⊢
          have hst := drainComp_stable P c.used c.comp
          obtain ⟨i, hi⟩ := hsl s (by simp) P hP
          have hsa := h.a.attached hP (hex P hP) hi c hC
          obtain ⟨hcm, hcp, hcs⟩ := getC_some hC
          have hB1 := h.b.drainStep hP (hex P hP) hC hsa (hcs ▸ (h.a.ends c hcm).2)
          generalize drainComp P c.used c.comp = d at hA1 hB1 hst
          obtain ⟨P', u'⟩ := d
          simp only at hA1 hB1 hst ⊢
          have hg : getP (setC (setP w p P') { c with comp := [], used := u' }) p = some P' := by
            rw [getP_setC]; exact getP_setP_self _ hP
          refine ih ⟨hA1, hB1⟩ (fun Q hQ => ?_) (fun s' hs' Q hQ => ?_)
          · rw [hg] at hQ; cases hQ; rw [hst.1.ex]; exact hex P hP
          · rw [hg] at hQ; cases hQ; rw [hst.2]; exact hsl s' (List.mem_cons_of_mem _ hs') P hP

theorem invAB_retrieveReturned (h : InvAB cfg np ns fl w) (p : Nat) (hex : ∀ P, getP w p = some P → P.ex = true) :
    InvAB cfg np ns fl (retrieveReturned w p) := by
  unfold Iox2.PubSub.retrieveReturned
  cases hP : getP w p with
  | none => exact h
  | some P =>
    simp only
    refine invAB_retrieveFrom h p P.conns hex (fun s hs Q hQ => ?_)
    rw [hP] at hQ; cases hQ
    obtain ⟨i, hi⟩ := List.getElem?_of_mem hs
    exact ⟨i, hi⟩

end Iox2.PubSub.C01P
