/-
Layer C: the remaining API operations; `InvC` is preserved by every step.
-/
import Iox2.Proof.PubSubC01C6
namespace Iox2.PubSub.C01P
open Iox2.PubSub

variable {cfg : Cfg} {np ns : Option Nat} {fq hx : Option (Nat × Nat)} {w : World}

/-! ### receive -/

theorem InvK.recvStep (hK : InvK fq hx w) (hA : InvA cfg np ns w) {s p ch q b : Nat} {S S' : Sub} {c : Conn}
    {rest : List (Nat × Nat)}
    (hS : getS w s = some S) (hC : getC w p s = some c) (hsub : c.sub = (ch, q) :: rest)
    (hgr : S'.ghostRecv = S.ghostRecv ++ [(p, q)]) :
    InvK fq hx (setS (setC w { c with sub := rest, borrow := b, gReceived := c.gReceived ++ [q] }) s S') := by
  obtain ⟨hcm, hcp, hcs⟩ := getC_some hC
  have hK1 : InvK fq hx (setC w { c with sub := rest, borrow := b, gReceived := c.gReceived ++ [q] }) :=
    hK.of_frame (CFrame.setC (c := c) (by simp only [hcp, hcs]; exact hC) ⟨rfl, rfl, rfl, rfl, rfl, id⟩)
  refine ⟨hK1.hmono, hK1.dlt, hK1.hfirst, hK1.nlost, fun a Q hQ p' => ?_⟩
  rw [getS_setS] at hQ
  by_cases has : a = s
  · subst has
    rw [if_pos rfl, getS_setC, hS] at hQ
    simp only [Option.map_some, Option.some.injEq] at hQ
    subst hQ
    rw [hgr, List.filter_append, List.map_append]
    have hold := hK.smono a S hS p'
    by_cases hpp : p = p'
    · subst hpp
      have hf : ([(p, q)] : List (Nat × Nat)).filter (fun x => decide (x.1 = p)) = [(p, q)] := by simp
      rw [hf, List.pairwise_append]
      refine ⟨hold, by simp, fun x hx y hy => ?_⟩
      simp only [List.map_cons, List.map_nil, List.mem_singleton] at hy
      subst hy
      have hl3 := hA.l3 c hcm S (hcs ▸ hS)
      rw [hcp] at hl3
      rw [hl3] at hx
      obtain ⟨l, hil, hl⟩ := (hA.clog c hcm).split
      have hxl : x ∈ l := hil.left_sublist.subset hx
      have hp : pend c = y :: rest.map (·.2) := by simp [pend, hsub]
      obtain ⟨⟨P, hP⟩, _⟩ := hA.ends c hcm
      rw [hcp] at hP
      have hpw := (hK.dlt p a c hC P hP).2
      rw [hl, hp, List.pairwise_append] at hpw
      exact hpw.2.2 x hxl y (by simp)
    · have hf : ([(p, q)] : List (Nat × Nat)).filter (fun x => decide (x.1 = p')) = [] := by simp [hpp]
      rw [hf]; simpa using hold
  · rw [if_neg has, getS_setC] at hQ
    exact hK.smono a Q hQ p'

theorem invK_step_recv (hA : InvA cfg none none w) (hK : InvK none none w) (s : Nat) :
    InvK none none (step w (.recv s)).1 := by
  rw [C01P.step_recv]
  cases hS : getS w s with
  | none => exact hK
  | some S0 =>
    simp only
    split
    · exact hK
    · rename_i hal
      simp only [Bool.not_eq_true', Bool.not_eq_false] at hal
      have h1 := hA.subUpdate s (fun S' hS' => by rw [hS] at hS'; cases hS'; exact hal)
      have k1 := hK.of_frame (subUpdate_cframe w s)
      split
      · exact hK.of_frame (CFrame.panic w)
      · rename_i hp
        have h1' : InvA cfg none none (subUpdate w s) := by
          rcases h1 with h1 | h1
          · exact absurd h1 hp
          · exact h1
        have post := subReceive_post (I := fun w => InvA cfg none none w ∧ InvK none none w)
          (fun w s S t hI hS => ⟨hI.1.setS_tbr hS t, hI.2.of_frame (setS_tbr_cframe hS t)⟩)
          (fun w s key hI => ⟨hI.1.subDropConn s key, hI.2.of_frame (subDropConn_cframe w s key)⟩) s ⟨h1', k1⟩
        generalize subReceive (subUpdate w s) s = r at post
        obtain ⟨w2, res⟩ := r
        obtain ⟨_, post⟩ := post
        cases res with
        | none => exact post.2
        | maxBorrow => exact post.2
        | some key p ch q =>
          simp only at post ⊢
          obtain ⟨w', c, rest, hI, _, hC, hsub, ⟨S', hS', _⟩, hw2⟩ := post
          subst hw2
          rw [getS_setC, hS']
          simp only
          exact hI.2.recvStep hI.1 hS' hC hsub rfl

/-! ### creation of ports -/

theorem InvK.addP (hK : InvK fq hx w) (hA : InvA cfg np ns w) {p : Nat} (hfresh : getP w p = none) {P : Pub}
    (hh : P.hist = []) (hc : ∀ (i : Nat) s, P.conns[i]? ≠ some (some s)) : InvK fq hx (C01P.addP w p P) := by
  have key : ∀ a Q, getP (C01P.addP w p P) a = some Q → getP w a = some Q ∨ (a = p ∧ Q = P) := by
    intro a Q h
    rw [getP_addP] at h
    cases hg : getP w a with
    | some Q0 =>
      rw [hg] at h
      have h' : some Q0 = some Q := h
      exact Or.inl h'
    | none =>
      rw [hg] at h
      change (if a = p then some P else none) = some Q at h
      split at h
      · rename_i hap; cases h; exact Or.inr ⟨hap, rfl⟩
      · cases h
  have noconn : ∀ b cn, getC w p b = some cn → False := by
    intro b cn hcn
    obtain ⟨hm, hcp, _⟩ := getC_some hcn
    obtain ⟨⟨Q, hQ⟩, _⟩ := hA.ends cn hm
    rw [hcp, hfresh] at hQ; cases hQ
  refine ⟨fun a Q h => ?_, fun a b cn hcn Q h => ?_, fun a b cn hcn hsa hne Q h => ?_,
    fun a Q h hex i b hi cn hcn hsa q g1 g2 g3 => ?_, hK.smono⟩
  · rcases key a Q h with h0 | ⟨rfl, rfl⟩
    · exact hK.hmono a Q h0
    · rw [hh]; exact ⟨List.Pairwise.nil, fun c hc => (by cases hc)⟩
  · rcases key a Q h with h0 | ⟨rfl, rfl⟩
    · exact hK.dlt a b cn hcn Q h0
    · exact (noconn b cn hcn).elim
  · rcases key a Q h with h0 | ⟨rfl, rfl⟩
    · exact hK.hfirst a b cn hcn hsa hne Q h0
    · exact (noconn b cn hcn).elim
  · rcases key a Q h with h0 | ⟨rfl, rfl⟩
    · exact hK.nlost a Q h0 hex i b hi cn hcn hsa q g1 g2 g3
    · exact (hc i b hi).elim

theorem InvK.addS (hK : InvK fq hx w) {s : Nat} (_hfresh : getS w s = none) {S : Sub} (hg : S.ghostRecv = []) :
    InvK fq hx (C01P.addS w s S) := by
  refine ⟨hK.hmono, hK.dlt, hK.hfirst, hK.nlost, fun a Q h p => ?_⟩
  rw [getS_addS] at h
  cases hg0 : getS w a with
  | some Q0 =>
    rw [hg0] at h
    have h' : some Q0 = some Q := h
    have h'' : Q0 = Q := Option.some.inj h'
    subst h''
    exact hK.smono a Q0 hg0 p
  | none =>
    rw [hg0] at h
    change (if a = s then some S else none) = some Q at h
    split at h
    · cases h; rw [hg]; exact List.Pairwise.nil
    · cases h

theorem invK_step_cpub (hA : InvA cfg none none w) (hK : InvK none none w) (p ml : Nat) :
    InvK none none (step w (.cpub p ml)).1 := by
  rw [C01P.step_cpub]
  split
  · exact hK
  · rename_i hf
    have hfresh : getP w p = none := by
      cases hg : getP w p with
      | none => rfl
      | some _ => rw [hg] at hf; simp at hf
    have h0 : InvA cfg (some p) none (addP w p (newPub w ml)) :=
      hA.addPub hfresh rfl rfl (by simp only [newPub, hA.cfgEq])
    have k0 : InvK none none (addP w p (newPub w ml)) :=
      hK.addP hA hfresh rfl (fun i s => replicate_none_ne)
    have hg0 : getP (addP w p (newPub w ml)) p = some (newPub w ml) := by
      rw [getP_addP, hfresh]; simp
    have k1 := k0.pubForceUpdate h0 p hg0 rfl rfl
    have f1 := pubForceUpdate_frame (addP w p (newPub w ml)) p
    obtain ⟨P1, hP1, st1⟩ := f1.psome p _ hg0
    simp only
    generalize pubForceUpdate (addP w p (newPub w ml)) p = w1 at k1 hP1
    rw [hP1]
    cases hadd : w1.pubReg.add p with
    | none =>
      simp only
      exact hK.finishPanic' _ (k1.of_frame ((pubDestroySlots_cframe w1 p P1.conns).trans (CFrame.delP _ p)))
    | some rs =>
      obtain ⟨reg, slot⟩ := rs
      simp only
      refine hK.finishPanic' _ (k1.of_frame (CFrame.trans
        (CFrame.setP (P' := { P1 with slot := slot }) hP1 ⟨rfl, rfl, rfl, id, fun i _ h => ⟨i, h⟩⟩)
        (CFrame.of_eq rfl rfl rfl)))

theorem invK_step_csub (hK : InvK none none w) (s : Nat) (b hh : Option Nat) :
    InvK none none (step w (.csub s b hh)).1 := by
  rw [C01P.step_csub]
  split
  · exact hK
  · rename_i hf
    have hfresh : getS w s = none := by
      cases hg : getS w s with
      | none => rfl
      | some _ => rw [hg] at hf; simp at hf
    cases hb : csubBuffer w b with
    | none => exact hK
    | some buffer =>
      simp only
      cases hh' : csubHist w hh buffer with
      | error e => exact hK
      | ok histReq =>
        simp only
        unfold csubCore
        have k0 : InvK none none (addS w s (newSub w buffer histReq)) := hK.addS hfresh rfl
        have hg0 : getS (addS w s (newSub w buffer histReq)) s = some (newSub w buffer histReq) := by
          rw [getS_addS, hfresh]; simp
        have k1 := k0.of_frame (subForceUpdate_cframe _ s)
        have f1 := subForceUpdate_frame (addS w s (newSub w buffer histReq)) s
        obtain ⟨S1, hS1, st1⟩ := f1.ssome s _ hg0
        simp only
        generalize subForceUpdate (addS w s (newSub w buffer histReq)) s = w1 at k1 hS1
        rw [hS1]
        cases hadd : w1.subReg.add { sid := s, buffer := buffer, histReq := histReq } with
        | none =>
          simp only
          exact hK.finishPanic' _ (k1.of_frame
            ((subDestroyKeys_cframe w1 s (SlotMap.items S1.storage)).trans (CFrame.delS _ s)))
        | some rs =>
          obtain ⟨reg, slot⟩ := rs
          simp only
          exact hK.finishPanic' _ (k1.of_frame (CFrame.trans
            (CFrame.setS (S' := { S1 with slot := slot }) hS1 rfl) (CFrame.of_eq rfl rfl rfl)))

/-! ### the operations that are frame steps -/

theorem step_dpub_cframe (w : World) (p : Nat) : CFrame w (step w (.dpub p)).1 := by
  rw [C01P.step_dpub]
  cases hP : getP w p with
  | none => exact CFrame.refl w
  | some P =>
    simp only
    split
    · exact CFrame.refl w
    · have f1 : CFrame w (setP w p { P with alive := false }) :=
        CFrame.setP hP ⟨rfl, rfl, rfl, id, fun i _ h => ⟨i, h⟩⟩
      have f2 : CFrame (setP w p { P with alive := false })
          { setP w p { P with alive := false } with pubReg := w.pubReg.remove P.slot } := CFrame.of_eq rfl rfl rfl
      exact (f1.trans f2).trans (pubDestroyIfUnreferenced_cframe _ p)

theorem step_dsub_cframe (w : World) (s : Nat) : CFrame w (step w (.dsub s)).1 := by
  rw [C01P.step_dsub]
  cases hS : getS w s with
  | none => exact CFrame.refl w
  | some S =>
    simp only
    split
    · exact CFrame.refl w
    · have f1 : CFrame w (setS w s { S with alive := false }) := CFrame.setS hS rfl
      have f2 : CFrame (setS w s { S with alive := false })
          { setS w s { S with alive := false } with subReg := w.subReg.remove S.slot } := CFrame.of_eq rfl rfl rfl
      exact (f1.trans f2).trans (subDestroyIfUnreferenced_cframe _ s)

theorem step_loan_cframe (w : World) (p l : Nat) : CFrame w (step w (.loan p l)).1 := by
  rw [C01P.step_loan]
  cases hP : getP w p with
  | none => exact CFrame.refl w
  | some P0 =>
    simp only
    split
    · exact CFrame.refl w
    · split
      · exact CFrame.refl w
      · have f1 := retrieveReturned_cframe w p
        cases hP1 : getP (retrieveReturned w p) p with
        | none => exact f1
        | some P =>
          simp only
          split
          · exact f1
          · split
            · exact f1
            · split
              · exact f1.trans (CFrame.panic _)
              · exact f1.trans (CFrame.setP hP1 ⟨rfl, rfl, rfl, id, fun i _ h => ⟨i, h⟩⟩)

theorem step_dloan_cframe (w : World) (p l : Nat) : CFrame w (step w (.dloan p l)).1 := by
  rw [C01P.step_dloan]
  cases hP : getP w p with
  | none => exact CFrame.refl w
  | some P =>
    simp only
    cases hl : P.loans.find? (·.1 = l) with
    | none => exact CFrame.refl w
    | some lc =>
      obtain ⟨l', c⟩ := lc
      simp only
      have st := releaseChunk_stable P c
      refine CFrame.trans (CFrame.setP hP ?_) (pubDestroyIfUnreferenced_cframe _ p)
      exact ⟨st.seq, st.hist, st.chunkSeq, fun h => st.ex ▸ h, fun i _ h => ⟨i, (releaseChunk_conns P c) ▸ h⟩⟩

theorem step_dsample_cframe (w : World) (s k : Nat) : CFrame w (step w (.dsample s k)).1 := by
  rw [C01P.step_dsample]
  cases hS : getS w s with
  | none => exact CFrame.refl w
  | some S =>
    simp only
    cases hk : S.held[k]? with
    | none => exact CFrame.refl w
    | some hd =>
      simp only
      exact ((CFrame.setS (S' := { S with held := S.held.eraseIdx k }) hS rfl).trans
        (subRelease_cframe _ s hd)).trans (subDestroyIfUnreferenced_cframe _ s)

theorem finishPanic_cframe (w0 : World) (r : World × String) (h : CFrame w0 r.1) :
    CFrame w0 (finishPanic w0 r).1 := by
  unfold finishPanic
  split
  · exact CFrame.panic w0
  · exact h

theorem step_updS_cframe (w : World) (s : Nat) : CFrame w (step w (.updS s)).1 := by
  rw [C01P.step_updS]
  cases hS : getS w s with
  | none => exact CFrame.refl w
  | some S =>
    simp only
    split
    · exact CFrame.refl w
    · exact finishPanic_cframe w _ (subUpdate_cframe w s)

theorem step_has_cframe (w : World) (s : Nat) : CFrame w (step w (.has s)).1 := by
  rw [C01P.step_has]
  cases hS : getS w s with
  | none => exact CFrame.refl w
  | some S =>
    simp only
    split
    · exact CFrame.refl w
    · split
      · exact CFrame.panic w
      · split <;> exact subUpdate_cframe w s

theorem probeLoans_psame (P : Pub) (fuel : Nat) (acc : List Nat) : PSame P (probeLoans P fuel acc).1 := by
  induction fuel generalizing P acc with
  | zero => exact PSame.refl P
  | succ fuel ih =>
    unfold probeLoans
    split
    · exact PSame.refl P
    · split
      · exact PSame.refl P
      · rename_i c rest _
        have := ih { P with free := rest, rc := P.rc.set c 1, loanCnt := P.loanCnt + 1 } (acc ++ [c])
        exact ⟨this.seq, this.hist, this.chunkSeq, this.ex, this.conns⟩

theorem probeRelease_psame (P : Pub) (l : List Nat) : PSame P (probeRelease P l) := by
  induction l generalizing P with
  | nil => exact PSame.refl P
  | cons c r ih =>
    unfold probeRelease
    rw [List.foldl_cons]
    have := ih { P.releaseChunk c with loanCnt := P.loanCnt - 1 }
    have st := releaseChunk_stable P c
    have a : PSame P { P.releaseChunk c with loanCnt := P.loanCnt - 1 } :=
      ⟨st.seq, st.hist, st.chunkSeq, fun h => st.ex ▸ h, fun i _ h => ⟨i, (releaseChunk_conns P c) ▸ h⟩⟩
    exact a.trans this

theorem step_probe_cframe (w : World) (p : Nat) : CFrame w (step w (.probe p)).1 := by
  rw [C01P.step_probe]
  cases hP : getP w p with
  | none => exact CFrame.refl w
  | some P0 =>
    simp only
    split
    · exact CFrame.refl w
    · have f1 := retrieveReturned_cframe w p
      cases hP1 : getP (retrieveReturned w p) p with
      | none => exact f1
      | some P =>
        simp only
        exact f1.trans (CFrame.setP hP1
          ((probeLoans_psame P (P.n + 1) []).trans (probeRelease_psame _ _)))

theorem invK_step_updP (hA : InvA cfg none none w) (hK : InvK none none w) (p : Nat) :
    InvK none none (step w (.updP p)).1 := by
  rw [C01P.step_updP]
  cases hP : getP w p with
  | none => exact hK
  | some P =>
    simp only
    split
    · exact hK
    · rename_i hal
      simp only [Bool.not_eq_true', Bool.not_eq_false] at hal
      exact hK.finishPanic' _ (hK.pubUpdate hA p (fun P' hP' => by rw [hP] at hP'; cases hP'; exact hal))

/-! ### every step -/

theorem invK_step (hA : InvA cfg none none w) (hB : InvB none w) (hK : InvK none none w) (op : Op) :
    InvK none none (step w op).1 := by
  cases op with
  | cpub p ml => exact invK_step_cpub hA hK p ml
  | dpub p => exact hK.of_frame (step_dpub_cframe w p)
  | csub s b hh => exact invK_step_csub hK s b hh
  | dsub s => exact hK.of_frame (step_dsub_cframe w s)
  | loan p l => exact hK.of_frame (step_loan_cframe w p l)
  | send p l tag => exact invK_step_send hA hB hK p l tag
  | dloan p l => exact hK.of_frame (step_dloan_cframe w p l)
  | recv s => exact invK_step_recv hA hK s
  | dsample s k => exact hK.of_frame (step_dsample_cframe w s k)
  | updP p => exact invK_step_updP hA hK p
  | updS s => exact hK.of_frame (step_updS_cframe w s)
  | has s => exact hK.of_frame (step_has_cframe w s)
  | probe p => exact hK.of_frame (step_probe_cframe w p)

theorem invC_step (hc : cfg.Sane) (hA : InvA cfg none none w) (hB : InvB none w) (hC : InvC none none w) (op : Op) :
    InvC none none (step w op).1 :=
  InvK.to_invC (invA_step hc hA op) (invK_step hA hB (InvK.of_invC hC) op)

theorem InvC.init (cfg : Cfg) : InvC none none (World.init cfg) := by
  have hP : ∀ a, getP (World.init cfg) a = none := fun _ => rfl
  have hS : ∀ a, getS (World.init cfg) a = none := fun _ => rfl
  refine ⟨fun p P h => ?_, fun cn hcn => (by cases hcn), fun cn hcn => (by cases hcn), fun p P h => ?_,
    fun s S h => ?_⟩
  · rw [hP] at h; cases h
  · rw [hP] at h; cases h
  · rw [hS] at h; cases h

end Iox2.PubSub.C01P
