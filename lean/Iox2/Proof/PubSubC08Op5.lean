/-
C08 helper: the API operations preserve the invariant (part 5: dpub, dsub).
-/
import Iox2.Proof.PubSubC08Op4
set_option linter.unusedSimpArgs false
set_option linter.unusedVariables false
namespace Iox2.PubSub.C08
open Iox2.PubSub
open Iox2.C16.SlotMapP (abs)
attribute [-simp] List.getD_eq_getElem?_getD

theorem getElem?_set_none {α : Type} (l : List (Option α)) (i j : Nat) (a : α) :
    (l.set i none)[j]? = some (some a) ↔ (j ≠ i ∧ l[j]? = some (some a)) := by
  rw [List.getElem?_set]
  by_cases hij : i = j
  · subst hij
    constructor
    · intro h
      by_cases hl : i < l.length
      · simp [hl] at h
      · simp [hl] at h
    · rintro ⟨h1, _⟩; exact absurd rfl h1
  · simp only [hij, if_false]
    exact ⟨fun h => ⟨fun e => hij e.symm, h⟩, fun h => h.2⟩

/-- most general transfer of the connection invariant -/
theorem ConnInv.transferG {cfg : Cfg} {w w' : World} {p s : Nat} {c : Conn} (h : ConnInv cfg w p s c)
    (hkey : c.pid = p)
    (pf : ∀ P, getP w p = some P → ∃ P', getP w' p = some P' ∧ P'.ex = P.ex ∧ P'.n = P.n ∧ P'.conns = P.conns)
    (pb : ∀ P', getP w' p = some P' → ∃ P, getP w p = some P ∧ P'.ex = P.ex ∧ P'.n = P.n)
    (sf : ∀ S, getS w s = some S → ∃ S', getS w' s = some S' ∧ S'.held = S.held)
    (sb : ∀ S', getS w' s = some S' → ∃ S, getS w s = some S ∧ S'.held = S.held ∧
      (S'.alive = true → S.alive = true)) : ConnInv cfg w' p s c := by
  refine ⟨h.ok, ?_, ?_, ?_, ?_, ?_, ?_, ?_⟩
  · obtain ⟨P, hP⟩ := h.hasP
    obtain ⟨P', hP', _⟩ := pf P hP
    exact ⟨P', hP'⟩
  · obtain ⟨S, hS⟩ := h.hasS
    obtain ⟨S', hS', _⟩ := sf S hS
    exact ⟨S', hS'⟩
  · intro S' hS'
    obtain ⟨S, hS, e, _⟩ := sb S' hS'
    rw [e]; exact h.held S hS
  · intro ha S' hS'
    obtain ⟨S, hS, e, _⟩ := sb S' hS'
    have := h.exact ha S hS
    unfold connChunks heldChunks at this ⊢
    rw [e]; exact this
  · intro ha P' S' hP' hS' hex hal
    obtain ⟨S, hS, e, ea⟩ := sb S' hS'
    obtain ⟨P, hP, e1, e2⟩ := pb P' hP'
    exact h.fresh ha P S hP hS (e1 ▸ hex) (ea hal)
  · intro ha
    obtain ⟨P, hP, hex, i, hi⟩ := h.inSlot ha
    obtain ⟨P', hP', e1, e2, e3⟩ := pf P hP
    exact ⟨P', hP', e1.trans hex, i, by rw [e3]; exact hi⟩
  · intro P' hP'
    obtain ⟨P, hP, e1, e2⟩ := pb P' hP'
    rw [e2]; exact h.usedLen P hP

/-- the publisher object is dropped: the port leaves the registry -/
theorem kill_pub {cfg : Cfg} {w : World} (h : Inv cfg w) {p : Nat} {P : Pub} (hp : getP w p = some P)
    (hal : P.alive = true) :
    Inv cfg { setP w p { P with alive := false } with pubReg := w.pubReg.remove P.slot } := by
  have hgP : ∀ q, getP { setP w p { P with alive := false } with pubReg := w.pubReg.remove P.slot } q =
      if q = p then some { P with alive := false } else getP w q := by
    intro q
    show getP (setP w p { P with alive := false }) q = _
    rw [getP_setP, hp]; rfl
  have hreg := h.r.rp2 p P hp hal (by simp)
  refine ⟨⟨h.r.cfgEq, ?_, h.r.subLen, ?_, ?_, h.r.rs1, h.r.rs2⟩, ?_, ?_, ?_, h.u⟩
  · show (w.pubReg.slots.set P.slot none).length = _
    simp [h.r.pubLen]
  · intro i q hi
    have hi' : (w.pubReg.slots.set P.slot none)[i]? = some (some q) := hi
    rw [getElem?_set_none] at hi'
    obtain ⟨Q, hQ, hQal, hQsl⟩ := h.r.rp1 i q hi'.2
    have hqp : q ≠ p := by
      intro e; subst e
      rw [hp] at hQ; cases hQ
      exact hi'.1 hQsl.symm
    exact ⟨Q, by rw [hgP]; simp [hqp, hQ], hQal, hQsl⟩
  · intro q Q hQ hQal _
    rw [hgP] at hQ
    by_cases hqp : q = p
    · subst hqp; simp at hQ; subst hQ; cases hQal
    · simp [hqp] at hQ
      have := h.r.rp2 q Q hQ hQal (by simp)
      show (w.pubReg.slots.set P.slot none)[Q.slot]? = _
      rw [getElem?_set_none]
      refine ⟨fun e => ?_, this⟩
      rw [e, hreg] at this
      cases this
      exact hqp rfl
  · intro a b c hc
    have hc' : getC w a b = some c := hc
    refine (h.c a b c hc').transferG (getC_key hc').1 (fun Q hQ => ?_) (fun Q' hQ' => ?_)
      (fun S hS => ⟨S, hS, rfl⟩) (fun S' hS' => ⟨S', hS', rfl, id⟩)
    · by_cases hap : a = p
      · subst hap; rw [hp] at hQ; cases hQ
        exact ⟨{ P with alive := false }, by rw [hgP]; simp, rfl, rfl, rfl⟩
      · exact ⟨Q, by rw [hgP]; simp [hap, hQ], rfl, rfl, rfl⟩
    · rw [hgP] at hQ'
      by_cases hap : a = p
      · subst hap; simp at hQ'; subst hQ'
        exact ⟨P, hp, rfl, rfl⟩
      · simp [hap] at hQ'
        exact ⟨Q', hQ', rfl, rfl⟩
  · intro q Q hQ
    rw [hgP] at hQ
    by_cases hqp : q = p
    · subst hqp; simp at hQ; subst hQ
      obtain ⟨a, _⟩ := h.p q P hp
      exact ⟨⟨a.connsLen, a.slotConn, a.slotSlot, fun ha => (by cases ha)⟩, fun ha => (by cases ha)⟩
    · simp [hqp] at hQ
      obtain ⟨a, b⟩ := h.p q Q hQ
      exact ⟨⟨a.connsLen, a.slotConn, a.slotSlot, a.aliveEx⟩, fun ha => (b ha).transfer (fun _ _ => rfl)⟩
  · intro s S hS
    have hS' : getS w s = some S := hS
    have hSO := h.s s S hS'
    refine ⟨hSO.stI, hSO.connsLen, hSO.capEq, hSO.buf1, hSO.bufM, hSO.tbrNodup, hSO.tbrLen, hSO.tbrIn, hSO.connKey,
      hSO.connInj, hSO.cover, hSO.hasConn, hSO.pidInj, hSO.heldKey, ?_, ?_, hSO.aliveEx⟩
    · intro k hk q Q hkq hQ
      rw [hgP] at hQ
      by_cases hqp : q = p
      · subst hqp; simp at hQ; subst hQ; rfl
      · simp [hqp] at hQ
        exact hSO.tbrDead k hk q Q hkq hQ
    · intro i k q hi hik hkq
      obtain ⟨Q, hQ, hsl⟩ := hSO.connSlot i k q hi hik hkq
      rw [hgP]
      by_cases hqp : q = p
      · subst hqp; rw [hp] at hQ; cases hQ
        exact ⟨{ P with alive := false }, by simp, hsl⟩
      · exact ⟨Q, by simp [hqp, hQ], hsl⟩

theorem step_dpub {cfg : Cfg} {w : World} (h : Inv cfg w) (p : Nat) :
    Inv cfg (step w (.dpub p)).1 ∧ (step w (.dpub p)).1.panicked = w.panicked := by
  simp only [step]
  cases hp : getP w p with
  | none => exact ⟨h, rfl⟩
  | some P =>
    dsimp only
    split
    · exact ⟨h, rfl⟩
    next hal =>
      have hal' : P.alive = true := by simpa using hal
      have h1 := kill_pub h hp hal'
      exact ⟨(pubDestroy_inv (h1.toP p) p (fun hne => absurd rfl hne)).toInv,
        (pubDestroyIfUnreferenced_P _ p).frame.2.2.2.2.1⟩

/-- the subscriber object is dropped: the port leaves the registry -/
theorem kill_sub {cfg : Cfg} {w : World} (h : Inv cfg w) {s : Nat} {S : Sub} (hs : getS w s = some S)
    (hal : S.alive = true) :
    Inv cfg { setS w s { S with alive := false } with subReg := w.subReg.remove S.slot } := by
  have hgS : ∀ q, getS { setS w s { S with alive := false } with subReg := w.subReg.remove S.slot } q =
      if q = s then some { S with alive := false } else getS w q := by
    intro q
    show getS (setS w s { S with alive := false }) q = _
    rw [getS_setS, hs]; rfl
  obtain ⟨e0, hreg, hsid⟩ := h.r.rs2 s S hs hal (by simp)
  refine ⟨⟨h.r.cfgEq, h.r.pubLen, ?_, h.r.rp1, h.r.rp2, ?_, ?_⟩, ?_, ?_, ?_, h.u⟩
  · show (w.subReg.slots.set S.slot none).length = _
    simp [h.r.subLen]
  · intro i e hi
    have hi' : (w.subReg.slots.set S.slot none)[i]? = some (some e) := hi
    rw [getElem?_set_none] at hi'
    obtain ⟨Q, hQ, hQal, hQsl, hQb⟩ := h.r.rs1 i e hi'.2
    have hqs : e.sid ≠ s := by
      intro e'
      rw [e', hs] at hQ; cases hQ
      exact hi'.1 hQsl.symm
    exact ⟨Q, by rw [hgS]; simp [hqs, hQ], hQal, hQsl, hQb⟩
  · intro q Q hQ hQal _
    rw [hgS] at hQ
    by_cases hqs : q = s
    · subst hqs; simp at hQ; subst hQ; cases hQal
    · simp [hqs] at hQ
      obtain ⟨e, he, hes⟩ := h.r.rs2 q Q hQ hQal (by simp)
      refine ⟨e, ?_, hes⟩
      show (w.subReg.slots.set S.slot none)[Q.slot]? = _
      rw [getElem?_set_none]
      refine ⟨fun e' => ?_, he⟩
      rw [e', hreg] at he
      cases he
      exact hqs (hes.symm.trans hsid)
  · intro a b c hc
    have hc' : getC w a b = some c := hc
    refine (h.c a b c hc').transferG (getC_key hc').1 (fun Q hQ => ⟨Q, hQ, rfl, rfl, rfl⟩)
      (fun Q' hQ' => ⟨Q', hQ', rfl, rfl⟩) (fun Q hQ => ?_) (fun Q' hQ' => ?_)
    · by_cases hbs : b = s
      · subst hbs; rw [hs] at hQ; cases hQ
        exact ⟨{ S with alive := false }, by rw [hgS]; simp, rfl⟩
      · exact ⟨Q, by rw [hgS]; simp [hbs, hQ], rfl⟩
    · rw [hgS] at hQ'
      by_cases hbs : b = s
      · subst hbs; simp at hQ'; subst hQ'
        exact ⟨S, hs, rfl, fun ha => (by cases ha)⟩
      · simp [hbs] at hQ'
        exact ⟨Q', hQ', rfl, id⟩
  · intro q Q hQ
    have hQ' : getP w q = some Q := hQ
    obtain ⟨a, b⟩ := h.p q Q hQ'
    refine ⟨⟨a.connsLen, a.slotConn, ?_, a.aliveEx⟩, fun ha => (b ha).transfer (fun _ _ => rfl)⟩
    intro i s' hi
    obtain ⟨S', hS', hsl⟩ := a.slotSlot i s' hi
    rw [hgS]
    by_cases hss : s' = s
    · subst hss; rw [hs] at hS'; cases hS'
      exact ⟨{ S with alive := false }, by simp, hsl⟩
    · exact ⟨S', by simp [hss, hS'], hsl⟩
  · intro q Q hQ
    rw [hgS] at hQ
    by_cases hqs : q = s
    · subst hqs; simp at hQ; subst hQ
      have hSO := h.s q S hs
      exact ⟨hSO.stI, hSO.connsLen, fun ha => (by cases ha), hSO.buf1, hSO.bufM, hSO.tbrNodup, hSO.tbrLen, hSO.tbrIn,
        hSO.connKey, hSO.connInj, hSO.cover, hSO.hasConn, hSO.pidInj, hSO.heldKey, hSO.tbrDead, hSO.connSlot,
        fun ha => (by cases ha)⟩
    · simp [hqs] at hQ
      exact (h.s q Q hQ).transferS (fun _ => rfl) (fun _ => rfl)

theorem step_dsub {cfg : Cfg} {w : World} (h : Inv cfg w) (s : Nat) :
    Inv cfg (step w (.dsub s)).1 ∧ (step w (.dsub s)).1.panicked = w.panicked := by
  simp only [step]
  cases hs : getS w s with
  | none => exact ⟨h, rfl⟩
  | some S =>
    dsimp only
    split
    · exact ⟨h, rfl⟩
    next hal =>
      have hal' : S.alive = true := by simpa using hal
      have h1 := kill_sub h hs hal'
      refine ⟨(subDestroy_inv (h1.toS s)).toInv, ?_⟩
      unfold subDestroyIfUnreferenced
      split
      · rfl
      · split
        · rfl
        · exact (subDestroyKeys_shape _ _ _).2.2.2

end Iox2.PubSub.C08
