/-
C02 — per-object congruence lemmas for the topology invariant: an object's clause survives a
change of the rest of the world as long as the few things it reads are preserved.
-/
import Iox2.Proof.PubSubC02Update

namespace Iox2.PubSub.C02P
open Iox2.PubSub
open Iox2.C16.SlotMapP (abs WInv)

/-- subscribers keep `slot` and `alive` -/
def SubsKept (w w' : World) : Prop :=
  ∀ t S, getS w t = some S → ∃ S', getS w' t = some S' ∧ S'.slot = S.slot ∧ S'.alive = S.alive
/-- publishers keep `slot` and `alive` -/
def PubsKept (w w' : World) : Prop :=
  ∀ q P, getP w q = some P → ∃ P', getP w' q = some P' ∧ P'.slot = P.slot ∧ P'.alive = P.alive

theorem SubsKept.sreg {w w' : World} (h : SubsKept w w') (hr : w'.subReg = w.subReg)
    {t : Nat} {S S' : Sub} (hS : getS w t = some S) (hS' : getS w' t = some S')
    (hs : SReg w t S) : SReg w' t S' := by
  obtain ⟨S'', h1, h2, h3⟩ := h t S hS
  rw [hS'] at h1; cases h1
  unfold SReg at *; rw [h2, h3, hr]; exact hs

theorem PubsKept.preg {w w' : World} (h : PubsKept w w') (hr : w'.pubReg = w.pubReg)
    {q : Nat} {P P' : Pub} (hP : getP w q = some P) (hP' : getP w' q = some P')
    (hs : PReg w q P) : PReg w' q P' := by
  obtain ⟨P'', h1, h2, h3⟩ := h q P hP
  rw [hP'] at h1; cases h1
  unfold PReg at *; rw [h2, h3, hr]; exact hs

theorem PubTop.congr {G : GT} {w w' : World} {p : Nat} {P : Pub} (h : PubTop G w p P)
    (hcfg : w'.cfg = w.cfg) (hr : w'.subReg = w.subReg) (hs : SubsKept w w')
    (hc : ∀ t cn, getC w p t = some cn → cn.sAtt = true →
      ∃ cn', getC w' p t = some cn' ∧ cn'.sAtt = true) : PubTop G w' p P := by
  refine ⟨by rw [hcfg]; exact h.lenC, by rw [hcfg]; exact h.lenSnap, h.aliveEx, h.dead, ?_, ?_⟩
  · intro i s hi
    obtain ⟨S, hS, h1, h2, h3, h4, cn, h5, h6⟩ := h.conn i s hi
    obtain ⟨S', hS', e1, e2⟩ := hs s S hS
    obtain ⟨cn', h7, h8⟩ := hc s cn h5 h6
    exact ⟨S', hS', by rw [e1]; exact h1, hs.sreg hr hS hS' h2, h3, by rw [e2]; exact h4, cn', h7, h8⟩
  · intro i e hi
    obtain ⟨S, hS, h1, h2, h3⟩ := h.snap i e hi
    obtain ⟨S', hS', e1, e2⟩ := hs e.sid S hS
    exact ⟨S', hS', by rw [e1]; exact h1, hs.sreg hr hS hS' h2, h3⟩

theorem SubTop.congr {G : GT} {w w' : World} {s : Nat} {S : Sub} (h : SubTop G w s S)
    (hcfg : w'.cfg = w.cfg) (hr : w'.pubReg = w.pubReg) (hp : PubsKept w w')
    (hc : ∀ q cn, getC w q s = some cn → cn.rAtt = true →
      ∃ cn', getC w' q s = some cn' ∧ cn'.rAtt = true) : SubTop G w' s S := by
  refine ⟨by rw [hcfg]; exact h.lenC, by rw [hcfg]; exact h.lenSnap, h.aliveEx, h.dead, h.winv,
    ?_, h.inj, ?_, ?_, h.tbrNodup, h.tbr⟩
  · intro k p hk
    obtain ⟨⟨cn, h1, h2⟩, P, hP, h3, h4, h5⟩ := h.stor k p hk
    obtain ⟨cn', h6, h7⟩ := hc p cn h1 h2
    obtain ⟨P', hP', e1, e2⟩ := hp p P hP
    refine ⟨⟨cn', h6, h7⟩, P', hP', hp.preg hr hP hP' h3, h4, ?_⟩
    rw [e2]; exact h5
  · intro j k hj hh
    obtain ⟨p, P, h1, hP, h2, h3⟩ := h.conn j k hj hh
    obtain ⟨P', hP', e1, e2⟩ := hp p P hP
    exact ⟨p, P', h1, hP', by rw [e1]; exact h2, by rw [e2]; exact h3⟩
  · intro j p hj
    obtain ⟨P, hP, h1, h2, h3⟩ := h.snap j p hj
    obtain ⟨P', hP', e1, e2⟩ := hp p P hP
    exact ⟨P', hP', by rw [e1]; exact h1, hp.preg hr hP hP' h2, h3⟩

/-- the registry clauses only read `alive`/`slot` of ports and the keys of the connections -/
theorem RegOK.congr {G : GT} {w w' : World} (h : RegOK G w)
    (hcfg : w'.cfg = w.cfg) (hrp : w'.pubReg = w.pubReg) (hrs : w'.subReg = w.subReg)
    (hp : PubsKept w w') (hs : SubsKept w w')
    (hp' : ∀ q P', getP w' q = some P' → ∃ P, getP w q = some P)
    (hs' : ∀ t S', getS w' t = some S' → ∃ S, getS w t = some S)
    (hn : w'.conns.Pairwise fun a b => ¬ (a.pid = b.pid ∧ a.sid = b.sid)) : RegOK G w' := by
  refine ⟨by rw [hrp, hcfg]; exact h.lenP, by rw [hrs, hcfg]; exact h.lenS, ?_, ?_, ?_, ?_,
    by rw [hrp]; exact h.npFresh, by rw [hrs]; exact h.nsFresh, ?_, ?_, hn⟩
  · intro i p hi
    rw [hrp] at hi
    obtain ⟨P, hP, h1, h2⟩ := h.r1 i p hi
    obtain ⟨P', hP', e1, e2⟩ := hp p P hP
    exact ⟨P', hP', by rw [e2]; exact h1, by rw [e1]; exact h2⟩
  · intro i e hi
    rw [hrs] at hi
    obtain ⟨S, hS, h1, h2⟩ := h.r2 i e hi
    obtain ⟨S', hS', e1, e2⟩ := hs e.sid S hS
    exact ⟨S', hS', by rw [e2]; exact h1, by rw [e1]; exact h2⟩
  · intro p P' hP' hnp
    obtain ⟨P, hP⟩ := hp' p P' hP'
    exact hp.preg hrp hP hP' (h.r3p p P hP hnp)
  · intro s S' hS' hns
    obtain ⟨S, hS⟩ := hs' s S' hS'
    exact hs.sreg hrs hS hS' (h.r3s s S hS hns)
  · intro p hnp
    obtain ⟨P, hP, h1⟩ := h.npAlive p hnp
    obtain ⟨P', hP', _, e2⟩ := hp p P hP
    exact ⟨P', hP', by rw [e2]; exact h1⟩
  · intro s hns
    obtain ⟨S, hS, h1⟩ := h.nsAlive s hns
    obtain ⟨S', hS', _, e2⟩ := hs s S hS
    exact ⟨S', hS', by rw [e2]; exact h1⟩

theorem SubsKept.of_eq {w w' : World} (h : ∀ t, getS w' t = getS w t) : SubsKept w w' :=
  fun t S hS => ⟨S, by rw [h]; exact hS, rfl, rfl⟩
theorem PubsKept.of_eq {w w' : World} (h : ∀ q, getP w' q = getP w q) : PubsKept w w' :=
  fun q P hP => ⟨P, by rw [h]; exact hP, rfl, rfl⟩

end Iox2.PubSub.C02P
