/-
Who receives a notification (`notifyCore` under the invariant), and what survives until a listener's next wait (`Keeps`).
-/
import Iox2.Proof.EventPortsReach
namespace Iox2.EventPorts

/-! ### lists of optional labels that agree on their `some` entries -/

theorem filterMap_id_congr : ∀ (a b : List (Option Nat)),
    (∀ (i l : Nat), a[i]? = some (some l) ↔ b[i]? = some (some l)) → a.filterMap id = b.filterMap id
  | [], [], _ => rfl
  | [], y :: b, h => by
    have h0 := h 0
    have ht : ∀ (i l : Nat), ([] : List (Option Nat))[i]? = some (some l) ↔ b[i]? = some (some l) := by
      intro i l; have := h (i + 1) l; simpa using this
    have ih := filterMap_id_congr [] b ht
    cases y with
    | none => simpa using ih
    | some l => have := (h0 l).mpr (by simp); simp at this
  | x :: a, [], h => by
    have h0 := h 0
    have ht : ∀ (i l : Nat), a[i]? = some (some l) ↔ ([] : List (Option Nat))[i]? = some (some l) := by
      intro i l; have := h (i + 1) l; simpa using this
    have ih := filterMap_id_congr a [] ht
    cases x with
    | none => simpa using ih
    | some l => have := (h0 l).mp (by simp); simp at this
  | x :: a, y :: b, h => by
    have h0 := h 0
    have ht : ∀ (i l : Nat), a[i]? = some (some l) ↔ b[i]? = some (some l) := by
      intro i l; have := h (i + 1) l; simpa using this
    have ih := filterMap_id_congr a b ht
    cases x with
    | none =>
      cases y with
      | none => simpa using ih
      | some l => have := (h0 l).mpr (by simp); simp at this
    | some l =>
      have := (h0 l).mp (by simp)
      simp at this; subst this
      simp [ih]

theorem filterMap_id_length_le : ∀ (a b : List (Option Nat)),
    (∀ (i l : Nat), a[i]? = some (some l) → b[i]? = some (some l)) → (a.filterMap id).length ≤ (b.filterMap id).length
  | [], _, _ => by simp
  | x :: a, [], h => by
    have ht : ∀ (i l : Nat), a[i]? = some (some l) → ([] : List (Option Nat))[i]? = some (some l) := by
      intro i l hi; have := h (i + 1) l (by simpa using hi); simpa using this
    have ih := filterMap_id_length_le a [] ht
    cases x with
    | none => simpa using ih
    | some l => have := h 0 l (by simp); simp at this
  | x :: a, y :: b, h => by
    have ht : ∀ (i l : Nat), a[i]? = some (some l) → b[i]? = some (some l) := by
      intro i l hi; have := h (i + 1) l (by simpa using hi); simpa using this
    have ih := filterMap_id_length_le a b ht
    cases x with
    | none =>
      cases y with
      | none => simpa using ih
      | some l => simp; omega
    | some l =>
      have := h 0 l (by simp)
      simp at this; subst this
      simp; exact ih

theorem mem_targets {N : Noti} {l : Nat} : l ∈ targets N ↔ ∃ i : Nat, N.conns[i]? = some (some l) := by
  simp only [targets, List.mem_filterMap, id]
  constructor
  · rintro ⟨o, ho, e⟩; subst e; exact List.mem_iff_getElem?.mp ho
  · rintro ⟨i, hi⟩; exact ⟨some l, List.mem_iff_getElem?.mpr ⟨i, hi⟩, rfl⟩

/-! ### delivery -/

/-- the refreshed notifier is connected to every live listener -/
theorem alive_mem_targets {w : World} (h : Inv w) {n : Nat} {N : Noti} (hN : w.nots n = some N) (hst : N.st = .alive)
    {l : Nat} {L : Lis} (hL : w.liss l = some L) (hLst : L.st = .alive) : l ∈ targets (updateConns w N) := by
  have s := updateConns_synced w N (h.sync n N hN hst).2
  have hown : lisOwn w l = some L.slot := by simp [lisOwn, hL, hLst]
  have hs := h.lis.owner l L.slot hown
  exact mem_targets.mpr ⟨L.slot, s.all L.slot l hs ⟨L, hL, hLst⟩⟩

/-- and to registered listeners only -/
theorem targets_registered {w : World} (h : Inv w) {n : Nat} {N : Noti} (hN : w.nots n = some N) (hst : N.st = .alive)
    {l : Nat} (hl : l ∈ targets (updateConns w N)) : l ∈ w.lisReg.labels := by
  have s := updateConns_synced w N (h.sync n N hN hst).2
  obtain ⟨i, hi⟩ := mem_targets.mp hl
  exact Reg.mem_labels.mpr ⟨i, s.only i l hi⟩

theorem targets_length_le {w : World} (h : Inv w) {n : Nat} {N : Noti} (hN : w.nots n = some N) (hst : N.st = .alive) :
    (targets (updateConns w N)).length ≤ w.lisReg.len := by
  have s := updateConns_synced w N (h.sync n N hN hst).2
  exact filterMap_id_length_le _ _ s.only

/-- no listener of a dead node is waiting for its cleanup -/
def NoDeadListener (w : World) : Prop := ∀ l L, w.liss l = some L → L.st ≠ .dead

theorem targets_eq_labels {w : World} (h : Inv w) (hd : NoDeadListener w) {n : Nat} {N : Noti} (hN : w.nots n = some N)
    (hst : N.st = .alive) : targets (updateConns w N) = w.lisReg.labels := by
  have s := updateConns_synced w N (h.sync n N hN hst).2
  apply filterMap_id_congr
  intro i l
  constructor
  · exact s.only i l
  · intro hs
    have hown := h.lis.slot i l hs
    simp only [lisOwn] at hown
    cases hL : w.liss l with
    | none => rw [hL] at hown; simp at hown
    | some L =>
      rw [hL] at hown
      have hd := hd l L hL
      have : L.st = .alive := by
        cases hx : L.st with
        | alive => rfl
        | dead => exact absurd hx hd
        | gone => simp [hx] at hown
      exact s.all i l hs ⟨L, hL, this⟩

/-- what a notification that passed the bounds check does to the listeners -/
theorem notifyCore_liss {w : World} (h : Inv w) {n : Nat} {N : Noti} (hN : w.nots n = some N) (hst : N.st = .alive)
    {id : Nat} (hid : id ≤ w.cfg.idMax) (l : Nat) :
    (notifyCore w n N id).1.liss l =
      match w.liss l with
      | some L => if L.st = .alive then some { L with pending := insertId id L.pending } else some L
      | none => none := by
  rw [notifyCore_eq]
  have : ¬ w.cfg.idMax < id := by omega
  simp only [this, if_false]
  show (deliver (setN w n (prune w (updateConns w N) (targets (updateConns w N)))) (targets (updateConns w N)) id).liss l = _
  rw [deliver_liss]
  simp only [setN_liss]
  cases hL : w.liss l with
  | none => rfl
  | some L =>
    by_cases ha : L.st = .alive
    · have := alive_mem_targets h hN hst hL ha
      simp [this, ha]
    · simp [ha]

theorem notifyCore_hist (w : World) (n : Nat) (N : Noti) (id : Nat) :
    (notifyCore w n N id).1.hist = if w.cfg.idMax < id then w.hist else w.hist ++ [id] := by
  rw [notifyCore_eq]
  split <;> rfl

/-- an out-of-bounds id reaches nobody -/
theorem notifyCore_oob (w : World) (n : Nat) (N : Noti) {id : Nat} (hid : w.cfg.idMax < id) :
    notifyCore w n N id = (setN w n (updateConns w N), .error .outOfBounds) := by
  rw [notifyCore_eq]; simp [hid]

theorem notifyCore_result (w : World) (n : Nat) (N : Noti) {id : Nat} (hid : id ≤ w.cfg.idMax) :
    (notifyCore w n N id).2 =
      if w.cfg.deadline = 2 then .error .missedDeadline
      else .ok ((targets (updateConns w N)).filter (reaches w)).length := by
  rw [notifyCore_eq]
  have : ¬ w.cfg.idMax < id := by omega
  simp [this]

/-- what a single-listener notification with a valid key does to the listeners: the keyed listener gets the id (if it lives),
nobody else anything -/
theorem notifyOneCore_liss (w : World) (n : Nat) (N : Noti) (slot l id : Nat) (a : Nat) :
    (notifyOneCore w n N slot l id).1.liss a =
      if w.cfg.idMax < id ∨ (updateConns w N).conns[slot]? ≠ some (some l) then w.liss a
      else match w.liss a with
        | some L => if a = l ∧ L.st = .alive then some { L with pending := insertId id L.pending } else some L
        | none => none := by
  rw [notifyOneCore_eq]
  by_cases h1 : w.cfg.idMax < id
  · simp [h1]
  · by_cases h2 : (updateConns w N).conns[slot]? = some (some l)
    · simp only [h1, h2, if_false, if_true, false_or, ne_eq, not_true_eq_false]
      show (deliver (setN w n (prune w (updateConns w N) [l])) [l] id).liss a = _
      rw [deliver_liss]
      simp only [setN_liss, List.mem_singleton]
      cases w.liss a <;> rfl
    · simp [h1, h2]

/-! ### what a listener keeps until its next wait -/

/-- from `w` to `w'` the record of listener `l` persists, and if it is still alive afterwards it was alive before and
has lost none of its pending ids -/
def Keeps (l : Nat) (w w' : World) : Prop :=
  ∀ L, w.liss l = some L → ∃ L', w'.liss l = some L' ∧ (L'.st = .alive → L.st = .alive ∧ ∀ id ∈ L.pending, id ∈ L'.pending)

theorem Keeps.refl (l : Nat) (w : World) : Keeps l w w := fun L hL => ⟨L, hL, fun h => ⟨h, fun _ hid => hid⟩⟩

theorem Keeps.trans {l : Nat} {a b c : World} (h1 : Keeps l a b) (h2 : Keeps l b c) : Keeps l a c := by
  intro L hL
  obtain ⟨L1, hL1, k1⟩ := h1 L hL
  obtain ⟨L2, hL2, k2⟩ := h2 L1 hL1
  refine ⟨L2, hL2, fun ha => ?_⟩
  obtain ⟨a1, p1⟩ := k2 ha
  obtain ⟨a0, p0⟩ := k1 a1
  exact ⟨a0, fun id hid => p1 id (p0 id hid)⟩

theorem Keeps.of_liss {l : Nat} {w w' : World} (e : w'.liss = w.liss) : Keeps l w w' := by
  intro L hL; exact ⟨L, by rw [e]; exact hL, fun h => ⟨h, fun _ hid => hid⟩⟩

theorem Keeps.deliver (l : Nat) (w : World) (ts : List Nat) (id : Nat) (hist : List Nat) :
    Keeps l w { deliver w ts id with hist := hist } := by
  intro L hL
  show ∃ L', (EventPorts.deliver w ts id).liss l = some L' ∧ _
  rw [deliver_liss, hL]
  dsimp only
  by_cases hc : l ∈ ts ∧ L.st = .alive
  · rw [if_pos hc]
    exact ⟨_, rfl, fun _ => ⟨hc.2, fun x hx => mem_insertId.mpr (Or.inr hx)⟩⟩
  · rw [if_neg hc]
    exact ⟨_, rfl, fun ha => ⟨ha, fun x hx => hx⟩⟩

theorem Keeps.notifyCore (l : Nat) (w : World) (n : Nat) (N : Noti) (id : Nat) : Keeps l w (notifyCore w n N id).1 := by
  rw [notifyCore_eq]
  split
  · exact Keeps.of_liss rfl
  · exact (Keeps.of_liss (w' := setN w n (prune w (updateConns w N) (targets (updateConns w N)))) rfl).trans (Keeps.deliver l _ _ _ _)

theorem Keeps.notifyOneCore (l : Nat) (w : World) (n : Nat) (N : Noti) (slot a id : Nat) :
    Keeps l w (notifyOneCore w n N slot a id).1 := by
  rw [notifyOneCore_eq]
  split
  · exact Keeps.of_liss rfl
  · split
    · exact (Keeps.of_liss (w' := setN w n (prune w (updateConns w N) [a])) rfl).trans (Keeps.deliver l _ _ _ _)
    · exact Keeps.of_liss rfl

theorem Keeps.dropEmit (l : Nat) (w : World) (n : Nat) (N : Noti) : Keeps l w (dropEmit w n N) := by
  unfold EventPorts.dropEmit
  split
  · exact Keeps.notifyCore l w n N _
  · exact Keeps.refl _ _

theorem Keeps.afterPortDrop {l : Nat} {w before after : World} (k : Nat) (h : Keeps l w after) :
    Keeps l w (afterPortDrop before after k) :=
  h.trans (Keeps.of_liss (afterPortDrop_frame before after k).2.2.2.1)

theorem Keeps.killPorts (l : Nat) (w : World) (k : Nat) : Keeps l w (killPorts w k) := by
  intro L hL
  simp only [EventPorts.killPorts, hL]
  by_cases hc : L.node = k ∧ L.st = .alive
  · simp only [hc, and_self, if_true]
    exact ⟨_, rfl, fun ha => by simp at ha⟩
  · simp only [hc, if_false]
    exact ⟨_, rfl, fun ha => ⟨ha, fun x hx => hx⟩⟩

theorem Keeps.purge (l : Nat) (w : World) (d : Nat) : Keeps l w (purge w d) := by
  intro L hL
  simp only [EventPorts.purge, hL]
  by_cases hc : L.node = d
  · simp only [hc, if_true]
    exact ⟨_, rfl, fun ha => by simp at ha⟩
  · simp only [hc, if_false]
    exact ⟨_, rfl, fun ha => ⟨ha, fun x hx => hx⟩⟩

theorem Keeps.deadSignal (l : Nat) (w : World) : Keeps l w (deadSignal w) := by
  unfold EventPorts.deadSignal
  repeat' split
  all_goals first
    | exact Keeps.refl l w
    | exact Keeps.of_liss rfl
    | exact (Keeps.of_liss (w' := { w with notReg := { w.notReg with counter := w.notReg.counter + 2 } }) rfl).trans
        (Keeps.deliver l _ _ _ _)

theorem Keeps.cleanNode (l : Nat) (acc : World × Nat) (d : Nat) : Keeps l acc.1 (cleanNode acc d).1 := by
  rw [cleanNode_eq]
  split
  · exact Keeps.refl _ _
  · rename_i P _
    split
    · exact Keeps.refl _ _
    · simp only []
      have h1 : Keeps l acc.1 (setP (EventPorts.purge acc.1 d) d (cleanedPart P)) :=
        (Keeps.purge l acc.1 d).trans (Keeps.of_liss rfl)
      split
      · exact h1.trans (Keeps.deadSignal l _)
      · exact h1

theorem Keeps.foldl_cleanNode (l : Nat) (ks : List Nat) (acc : World × Nat) : Keeps l acc.1 (ks.foldl EventPorts.cleanNode acc).1 := by
  induction ks generalizing acc with
  | nil => exact Keeps.refl _ _
  | cons k ks ih => exact (Keeps.cleanNode l acc k).trans (ih _)

/-- every call except the listener's own wait keeps what the listener has pending -/
theorem Keeps.step (l : Nat) (w : World) (op : Op) (hop : op ≠ .wait l) : Keeps l w (step w op).1 := by
  cases op with
  | «open» k =>
    simp only [EventPorts.step]
    repeat' split
    all_goals first | exact Keeps.refl _ _ | exact Keeps.of_liss rfl
  | cnot n d k =>
    simp only [EventPorts.step]
    repeat' split
    all_goals first
      | exact Keeps.refl _ _
      | exact Keeps.of_liss rfl
      | exact (Keeps.of_liss (w' := cnotBase w n k d _ _) rfl).trans (Keeps.notifyCore l _ _ _ _)
  | dnot n =>
    simp only [EventPorts.step]
    split
    · exact Keeps.refl _ _
    · split
      · exact Keeps.refl _ _
      · apply Keeps.afterPortDrop
        exact (Keeps.dropEmit l w n _).trans (Keeps.of_liss rfl)
  | clis a k =>
    simp only [EventPorts.step]
    split
    · exact Keeps.refl _ _
    · rename_i ha
      split
      · exact Keeps.refl _ _
      · split
        · exact Keeps.refl _ _
        · intro L hL
          have hne : l ≠ a := by
            intro e; subst e; rw [hL] at ha; simp at ha
          exact ⟨L, by simp [hne, hL], fun h => ⟨h, fun _ hid => hid⟩⟩
  | dlis a =>
    simp only [EventPorts.step]
    split
    · exact Keeps.refl _ _
    · rename_i A hA
      split
      · exact Keeps.refl _ _
      · apply Keeps.afterPortDrop
        intro L hL
        by_cases hla : l = a
        · subst hla
          refine ⟨{ A with st := .gone, pending := [] }, by simp, fun ha => by simp at ha⟩
        · exact ⟨L, by simp [hla, hL], fun h => ⟨h, fun _ hid => hid⟩⟩
  | notify n =>
    simp only [EventPorts.step]
    repeat' split
    all_goals first | exact Keeps.refl _ _ | exact Keeps.notifyCore l _ _ _ _
  | notifyId n id =>
    simp only [EventPorts.step]
    repeat' split
    all_goals first | exact Keeps.refl _ _ | exact Keeps.notifyCore l _ _ _ _
  | keys n =>
    simp only [EventPorts.step]
    repeat' split
    all_goals first | exact Keeps.refl _ _ | exact Keeps.of_liss rfl
  | notifyOne n slot a id =>
    simp only [EventPorts.step]
    repeat' split
    all_goals first | exact Keeps.refl _ _ | exact Keeps.notifyOneCore l _ _ _ _ _ _
  | wait a =>
    have hne : l ≠ a := by intro e; subst e; exact hop rfl
    simp only [EventPorts.step]
    repeat' split
    all_goals first
      | exact Keeps.refl _ _
      | (intro L hL; exact ⟨L, by simp [hne, hL], fun h => ⟨h, fun _ hid => hid⟩⟩)
  | count k =>
    simp only [EventPorts.step]
    repeat' split
    all_goals exact Keeps.refl _ _
  | dnode k =>
    simp only [EventPorts.step]
    repeat' split
    all_goals first | exact Keeps.refl _ _ | exact Keeps.of_liss rfl
  | dsvc k =>
    simp only [EventPorts.step]
    repeat' split
    all_goals first | exact Keeps.refl _ _ | exact Keeps.of_liss rfl
  | kill k =>
    simp only [EventPorts.step]
    repeat' split
    all_goals first
      | exact Keeps.refl _ _
      | exact (Keeps.of_liss (w' := setP w k _) rfl).trans (Keeps.killPorts l _ k)
  | cleanup k =>
    simp only [EventPorts.step]
    repeat' split
    all_goals first | exact Keeps.refl _ _ | exact Keeps.foldl_cleanNode l _ (w, 0)
  | ls => exact Keeps.refl _ _

theorem Keeps.run (l : Nat) (ops : List Op) (w : World) (hops : ∀ op ∈ ops, op ≠ .wait l) : Keeps l w (run w ops) := by
  induction ops generalizing w with
  | nil => exact Keeps.refl _ _
  | cons op ops ih =>
    have h1 := Keeps.step l w op (hops op (by simp))
    have h2 := ih (EventPorts.step w op).1 (fun o ho => hops o (by simp [ho]))
    exact h1.trans h2

end Iox2.EventPorts
