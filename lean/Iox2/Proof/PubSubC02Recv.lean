/-
C02 — `Receiver::receive` (+ creation of the `Sample`) and the drop of a `Sample`
(`Receiver::release_offset`) preserve the invariant.
-/
import Iox2.Proof.PubSubC02SubDrop

namespace Iox2.PubSub.C02P
open Iox2.PubSub
open Iox2.C16.SlotMapP (abs WInv)

/-! ### lists -/

theorem eraseIdx_split {α : Type} : ∀ {l : List α} {k : Nat} {a : α}, l[k]? = some a →
    ∃ l1 l2, l = l1 ++ a :: l2 ∧ l.eraseIdx k = l1 ++ l2
  | [], k, a, h => by simp at h
  | b :: t, 0, a, h => by
    simp at h; subst h
    exact ⟨[], t, rfl, rfl⟩
  | b :: t, k + 1, a, h => by
    have h' : t[k]? = some a := by simpa using h
    obtain ⟨l1, l2, e1, e2⟩ := eraseIdx_split h'
    exact ⟨b :: l1, l2, by rw [e1]; rfl, by simp [e2]⟩

theorem not_mem_eraseIdx_of_nodup {α : Type} {l : List α} {k : Nat} {a : α} (hn : l.Nodup)
    (h : l[k]? = some a) : a ∉ l.eraseIdx k := by
  obtain ⟨l1, l2, e1, e2⟩ := eraseIdx_split h
  rw [e2]
  rw [e1, List.nodup_append] at hn
  obtain ⟨_, h2, h3⟩ := hn
  rw [List.nodup_cons] at h2
  intro hm
  rcases List.mem_append.mp hm with hm | hm
  · exact h3 a hm a (List.mem_cons_self) rfl
  · exact h2.1 hm

/-! ### the subscriber forgets an expired connection key (`tbr` shrinks) -/

theorem Inv.tbr_shrink {G : GT} {A : GA} {w : World} {s : Nat} {S : Sub} {t : List Nat}
    (hi : Inv G A w) (hS : getS w s = some S) (hn : t.Nodup) (hsub : ∀ k ∈ t, k ∈ S.tbr) :
    Inv G A (setS w s { S with tbr := t }) := by
  have st := hi.top.subs s S hS
  generalize hS' : ({ S with tbr := t } : Sub) = S'
  have hS'f : S'.alive = S.alive ∧ S'.ex = S.ex ∧ S'.slot = S.slot ∧ S'.conns = S.conns ∧
      S'.snap = S.snap ∧ S'.tbr = t ∧ S'.held = S.held ∧ S'.storage = S.storage := by
    subst hS'; simp
  obtain ⟨f1, f2, f3, f4, f5, f6, f7, f8⟩ := hS'f
  have hgS : ∀ u, getS (setS w s S') u = if u = s then some S' else getS w u := by
    intro u; simp [hS]
  have hgP : ∀ q, getP (setS w s S') q = getP w q := fun _ => rfl
  have hgC : ∀ a b, getC (setS w s S') a b = getC w a b := fun _ _ => rfl
  have hpk : PubsKept w (setS w s S') := PubsKept.of_eq hgP
  have hsk : SubsKept w (setS w s S') := by
    intro u T hT
    rw [hgS]
    by_cases hts : u = s
    · subst hts; rw [hS] at hT; cases hT
      exact ⟨S', by simp, f3, f1⟩
    · exact ⟨T, by simp [hts, hT], rfl, rfl⟩
  refine ⟨⟨?_, ?_, ?_, ?_⟩, ⟨?_, ?_, ?_⟩⟩
  · exact hi.top.reg.congr rfl rfl rfl hpk hsk (fun q P' h => ⟨P', h⟩)
      (fun u T' h => by
        rw [hgS] at h
        by_cases hts : u = s
        · subst hts; exact ⟨S, hS⟩
        · simp only [hts, if_false] at h; exact ⟨T', h⟩) hi.top.reg.nodup
  · intro q Q hQ
    exact (hi.top.pubs q Q hQ).congr rfl rfl hsk (fun u cn hcn hsa => ⟨cn, hcn, hsa⟩)
  · intro u T hT
    rw [hgS] at hT
    by_cases hts : u = s
    · subst hts
      simp only [if_true, Option.some.injEq] at hT
      subst hT
      have st' : SubTop G (setS w u S') u S :=
        st.congr rfl rfl hpk (fun q cn hcn hra => ⟨cn, hcn, hra⟩)
      refine ⟨by rw [f4]; exact st'.lenC, by rw [f5]; exact st'.lenSnap,
        by rw [f1, f2]; exact st'.aliveEx, by rw [f2, f8]; exact st'.dead,
        by rw [f8]; exact st'.winv, ?_, by rw [f8]; exact st'.inj, ?_, ?_, by rw [f6]; exact hn, ?_⟩
      · intro k p hk
        rw [f8] at hk
        rw [f4, f5]; exact st'.stor k p hk
      · intro j k hj hh
        rw [f4] at hj
        rw [f8, f5]; exact st'.conn j k hj hh
      · intro j p hj
        rw [f5] at hj
        exact st'.snap j p hj
      · intro k hk
        rw [f6] at hk
        rw [f8, f4]; exact st'.tbr k (hsub k hk)
    · simp only [hts, if_false] at hT
      exact (hi.top.subs u T hT).congr rfl rfl hpk (fun q cn hcn hra => ⟨cn, hcn, hra⟩)
  · intro a b cn hcn
    obtain ⟨Pa, Sb, hPa, hSb, ct⟩ := hi.top.conns a b cn hcn
    by_cases hbs : b = s
    · subst hbs
      rw [hS] at hSb; cases hSb
      exact ⟨Pa, S', hPa, by rw [hgS]; simp, ct.att, ct.sAtt, by rw [f8]; exact ct.rAtt⟩
    · exact ⟨Pa, Sb, hPa, by rw [hgS]; simp [hbs, hSb], ct⟩
  · intro q Q hQ
    obtain ⟨h1, h2⟩ := hi.acc.pubs q Q hQ
    exact ⟨fun hx => (h1 hx).congr (fun _ _ _ => rfl), h2⟩
  · intro u T hT
    rw [hgS] at hT
    by_cases hts : u = s
    · subst hts
      simp only [if_true, Option.some.injEq] at hT
      subst hT
      obtain ⟨h1, h2, h3⟩ := hi.acc.subs u S hS
      refine ⟨by rw [f2, f7]; exact h1, by rw [f7, f8]; exact h2, ?_⟩
      rw [f1, f7]; exact h3
    · simp only [hts, if_false] at hT
      exact hi.acc.subs u T hT
  · intro a b cn hcn Pa Sb hPa hSb
    rw [hgS] at hSb
    show ConnAcc w.cfg cn Pa Sb
    by_cases hbs : b = s
    · subst hbs
      simp only [if_true, Option.some.injEq] at hSb
      subst hSb
      exact (hi.acc.conns a b cn hcn Pa S hPa hS).congr rfl rfl (by unfold heldOf; rw [f7]) f1
    · simp only [hbs, if_false] at hSb
      exact hi.acc.conns a b cn hcn Pa Sb hPa hSb

/-! ### generic accounting update of a subscriber and one of its connections -/

/-- Subscriber `s` (its `held`/ghost fields) and its connection to `p` change, the topology does
not. -/
theorem Inv.update_SC {G : GT} {A : GA} {w : World} {p s : Nat} {S S' : Sub} {c c' : Conn}
    (hi : Inv G A w) (hS : getS w s = some S) (hC : getC w p s = some c)
    (es : stop S' = stop S) (ec : ctop c' = ctop c) (hu : c'.used = c.used)
    (hheld : ∀ a, a ≠ p → heldOf S' a = heldOf S a)
    (hsubs : (S'.ex = false → S'.held = []) ∧ (∀ h ∈ S'.held, abs S'.storage h.key = some h.pid) ∧
      (S'.alive = true → ∀ h ∈ S'.held, ∃ P, getP w h.pid = some P ∧
        P.payload.getD h.chunk 0 = h.tag))
    (hca : ∀ P, getP w p = some P → ConnAcc w.cfg c' P S') :
    Inv G A (setC (setS w s S') c') := by
  obtain ⟨hpid, hsid, _⟩ := getC_some hC
  obtain ⟨g1, g2, _, _⟩ := ctop_eq ec
  obtain ⟨f1, _, _, _, _, _, _⟩ := stop_eq es
  have hgS : ∀ u, getS (setC (setS w s S') c') u = if u = s then some S' else getS w u := by
    intro u; simp [hS]
  have hgP : ∀ q, getP (setC (setS w s S') c') q = getP w q := fun _ => rfl
  have hgC : ∀ a b, getC (setC (setS w s S') c') a b =
      if a = p ∧ b = s then some c' else getC w a b := by
    intro a b
    rw [getC_setC]
    simp only [g1, g2, hpid, hsid, getC_setS]
    split
    · rename_i h; rw [h.1, h.2, hC]; rfl
    · rfl
  have hub : ∀ a b x, usedBit (setC (setS w s S') c') a b x = usedBit w a b x := by
    intro a b x
    unfold usedBit
    rw [hgC]
    by_cases hab : a = p ∧ b = s
    · obtain ⟨rfl, rfl⟩ := hab
      simp only [and_self, if_true, hC, hu]
    · simp only [hab, if_false]
  refine ⟨?_, ?_, ?_, ?_⟩
  · apply top_congr hi.top
    exact (topEq_setS hi.top.reg.nodup hS es).trans
      (topEq_setC (w := setS w s S') (c := c) hi.top.reg.nodup hC ec)
  · intro q Q hQ
    obtain ⟨h1, h2⟩ := hi.acc.pubs q Q hQ
    exact ⟨fun hx => (h1 hx).congr (fun t x _ => hub q t x), h2⟩
  · intro u T hT
    rw [hgS] at hT
    by_cases hts : u = s
    · subst hts
      simp only [if_true, Option.some.injEq] at hT
      subst hT
      exact hsubs
    · simp only [hts, if_false] at hT
      exact hi.acc.subs u T hT
  · intro a b cn hcn Pa Sb hPa hSb
    rw [hgC] at hcn; rw [hgS] at hSb
    show ConnAcc w.cfg cn Pa Sb
    by_cases hab : a = p ∧ b = s
    · obtain ⟨rfl, rfl⟩ := hab
      simp only [and_self, if_true, Option.some.injEq] at hcn hSb
      subst hcn; subst hSb
      exact hca Pa hPa
    · simp only [hab, if_false] at hcn
      by_cases hbs : b = s
      · subst hbs
        simp only [if_true, Option.some.injEq] at hSb
        subst hSb
        have hap : a ≠ p := fun h => hab ⟨h, rfl⟩
        obtain ⟨hpid', _, _⟩ := getC_some hcn
        exact (hi.acc.conns a b cn hcn Pa S hPa hS).congr rfl rfl
          (by rw [hpid']; exact hheld a hap) f1
      · simp only [hbs, if_false] at hSb
        exact hi.acc.conns a b cn hcn Pa Sb hPa hSb

end Iox2.PubSub.C02P
