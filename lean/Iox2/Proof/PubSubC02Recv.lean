/-
C02 — `Receiver::receive` (+ creation of the `Sample`) and the drop of a `Sample`
(`Receiver::release_offset`) preserve the invariant.
-/
import Iox2.Proof.PubSubC02SubDrop

namespace Iox2.PubSub.C02P
open Iox2.PubSub
open Iox2.C16.SlotMapP (abs WInv)

/-! ### lists -/

theorem eraseIdx_split {α : Type} : ∀ {l : List α} {k : Nat} {a : α}, l[k]? = some a →
    ∃ l1 l2, l = l1 ++ a :: l2 ∧ l.eraseIdx k = l1 ++ l2
  | [], k, a, h => by simp at h
  | b :: t, 0, a, h => by
    simp at h; subst h
    exact ⟨[], t, rfl, rfl⟩
  | b :: t, k + 1, a, h => by
    have h' : t[k]? = some a := by simpa using h
    obtain ⟨l1, l2, e1, e2⟩ := eraseIdx_split h'
    exact ⟨b :: l1, l2, by rw [e1]; rfl, by simp [e2]⟩

theorem not_mem_eraseIdx_of_nodup {α : Type} {l : List α} {k : Nat} {a : α} (hn : l.Nodup)
    (h : l[k]? = some a) : a ∉ l.eraseIdx k := by
  obtain ⟨l1, l2, e1, e2⟩ := eraseIdx_split h
  rw [e2]
  rw [e1, List.nodup_append] at hn
  obtain ⟨_, h2, h3⟩ := hn
  rw [List.nodup_cons] at h2
  intro hm
  rcases List.mem_append.mp hm with hm | hm
  · exact h3 a hm a (List.mem_cons_self) rfl
  · exact h2.1 hm

/-! ### the subscriber forgets an expired connection key (`tbr` shrinks) -/

theorem Inv.tbr_shrink {G : GT} {A : GA} {w : World} {s : Nat} {S : Sub} {t : List Nat}
    (hi : Inv G A w) (hS : getS w s = some S) (hn : t.Nodup) (hsub : ∀ k ∈ t, k ∈ S.tbr) :
    Inv G A (setS w s { S with tbr := t }) := by
  have st := hi.top.subs s S hS
  generalize hS' : ({ S with tbr := t } : Sub) = S'
  have hS'f : S'.alive = S.alive ∧ S'.ex = S.ex ∧ S'.slot = S.slot ∧ S'.conns = S.conns ∧
      S'.snap = S.snap ∧ S'.tbr = t ∧ S'.held = S.held ∧ S'.storage = S.storage := by
    subst hS'; simp
  obtain ⟨f1, f2, f3, f4, f5, f6, f7, f8⟩ := hS'f
  have hgS : ∀ u, getS (setS w s S') u = if u = s then some S' else getS w u := by
    intro u; simp [hS]
  have hgP : ∀ q, getP (setS w s S') q = getP w q := fun _ => rfl
  have hgC : ∀ a b, getC (setS w s S') a b = getC w a b := fun _ _ => rfl
  have hpk : PubsKept w (setS w s S') := PubsKept.of_eq hgP
  have hsk : SubsKept w (setS w s S') := by
    intro u T hT
    rw [hgS]
    by_cases hts : u = s
    · subst hts; rw [hS] at hT; cases hT
      exact ⟨S', by simp, f3, f1⟩
    · exact ⟨T, by simp [hts, hT], rfl, rfl⟩
  refine ⟨⟨?_, ?_, ?_, ?_⟩, ⟨?_, ?_, ?_⟩⟩
  · exact hi.top.reg.congr rfl rfl rfl hpk hsk (fun q P' h => ⟨P', h⟩)
      (fun u T' h => by
        rw [hgS] at h
        by_cases hts : u = s
        · subst hts; exact ⟨S, hS⟩
        · simp only [hts, if_false] at h; exact ⟨T', h⟩) hi.top.reg.nodup
  · intro q Q hQ
    exact (hi.top.pubs q Q hQ).congr rfl rfl hsk (fun u cn hcn hsa => ⟨cn, hcn, hsa⟩)
  · intro u T hT
    rw [hgS] at hT
    by_cases hts : u = s
    · subst hts
      simp only [if_true, Option.some.injEq] at hT
      subst hT
      have st' : SubTop G (setS w u S') u S :=
        st.congr rfl rfl hpk (fun q cn hcn hra => ⟨cn, hcn, hra⟩)
      refine ⟨by rw [f4]; exact st'.lenC, by rw [f5]; exact st'.lenSnap,
        by rw [f1, f2]; exact st'.aliveEx, by rw [f2, f8]; exact st'.dead,
        by rw [f8]; exact st'.winv, ?_, by rw [f8]; exact st'.inj, ?_, ?_, by rw [f6]; exact hn, ?_⟩
      · intro k p hk
        rw [f8] at hk
        rw [f4, f5]; exact st'.stor k p hk
      · intro j k hj hh
        rw [f4] at hj
        rw [f8, f5]; exact st'.conn j k hj hh
      · intro j p hj
        rw [f5] at hj
        exact st'.snap j p hj
      · intro k hk
        rw [f6] at hk
        rw [f8, f4]; exact st'.tbr k (hsub k hk)
    · simp only [hts, if_false] at hT
      exact (hi.top.subs u T hT).congr rfl rfl hpk (fun q cn hcn hra => ⟨cn, hcn, hra⟩)
  · intro a b cn hcn
    obtain ⟨Pa, Sb, hPa, hSb, ct⟩ := hi.top.conns a b cn hcn
    by_cases hbs : b = s
    · subst hbs
      rw [hS] at hSb; cases hSb
      exact ⟨Pa, S', hPa, by rw [hgS]; simp, ct.att, ct.sAtt, by rw [f8]; exact ct.rAtt⟩
    · exact ⟨Pa, Sb, hPa, by rw [hgS]; simp [hbs, hSb], ct⟩
  · intro q Q hQ
    obtain ⟨h1, h2⟩ := hi.acc.pubs q Q hQ
    exact ⟨fun hx => (h1 hx).congr (fun _ _ _ => rfl), h2⟩
  · intro u T hT
    rw [hgS] at hT
    by_cases hts : u = s
    · subst hts
      simp only [if_true, Option.some.injEq] at hT
      subst hT
      obtain ⟨h1, h2, h3⟩ := hi.acc.subs u S hS
      refine ⟨by rw [f2, f7]; exact h1, by rw [f7, f8]; exact h2, ?_⟩
      rw [f1, f7]; exact h3
    · simp only [hts, if_false] at hT
      exact hi.acc.subs u T hT
  · intro a b cn hcn Pa Sb hPa hSb
    rw [hgS] at hSb
    show ConnAcc w.cfg cn Pa Sb
    by_cases hbs : b = s
    · subst hbs
      simp only [if_true, Option.some.injEq] at hSb
      subst hSb
      exact (hi.acc.conns a b cn hcn Pa S hPa hS).congr rfl rfl (by unfold heldOf; rw [f7]) f1
    · simp only [hbs, if_false] at hSb
      exact hi.acc.conns a b cn hcn Pa Sb hPa hSb

/-! ### generic accounting update of a subscriber and one of its connections -/

/-- Subscriber `s` (its `held`/ghost fields) and its connection to `p` change, the topology does
not. -/
theorem Inv.update_SC {G : GT} {A : GA} {w : World} {p s : Nat} {S S' : Sub} {c c' : Conn}
    (hi : Inv G A w) (hS : getS w s = some S) (hC : getC w p s = some c)
    (es : stop S' = stop S) (ec : ctop c' = ctop c) (hu : c'.used = c.used)
    (hheld : ∀ a, a ≠ p → heldOf S' a = heldOf S a)
    (hsubs : (S'.ex = false → S'.held = []) ∧ (∀ h ∈ S'.held, abs S'.storage h.key = some h.pid) ∧
      (S'.alive = true → ∀ h ∈ S'.held, ∃ P, getP w h.pid = some P ∧
        P.payload.getD h.chunk 0 = h.tag))
    (hca : ∀ P, getP w p = some P → ConnAcc w.cfg c' P S') :
    Inv G A (setC (setS w s S') c') := by
  obtain ⟨hpid, hsid, _⟩ := getC_some hC
  obtain ⟨g1, g2, _, _⟩ := ctop_eq ec
  obtain ⟨f1, _, _, _, _, _, _⟩ := stop_eq es
  have hgS : ∀ u, getS (setC (setS w s S') c') u = if u = s then some S' else getS w u := by
    intro u; simp [hS]
  have hgP : ∀ q, getP (setC (setS w s S') c') q = getP w q := fun _ => rfl
  have hgC : ∀ a b, getC (setC (setS w s S') c') a b =
      if a = p ∧ b = s then some c' else getC w a b := by
    intro a b
    rw [getC_setC]
    simp only [g1, g2, hpid, hsid, getC_setS]
    split
    · rename_i h; rw [h.1, h.2, hC]; rfl
    · rfl
  have hub : ∀ a b x, usedBit (setC (setS w s S') c') a b x = usedBit w a b x := by
    intro a b x
    unfold usedBit
    rw [hgC]
    by_cases hab : a = p ∧ b = s
    · obtain ⟨rfl, rfl⟩ := hab
      simp only [and_self, if_true, hC, hu]
    · simp only [hab, if_false]
  refine ⟨?_, ?_, ?_, ?_⟩
  · apply top_congr hi.top
    exact (topEq_setS hi.top.reg.nodup hS es).trans
      (topEq_setC (w := setS w s S') (c := c) hi.top.reg.nodup hC ec)
  · intro q Q hQ
    obtain ⟨h1, h2⟩ := hi.acc.pubs q Q hQ
    exact ⟨fun hx => (h1 hx).congr (fun t x _ => hub q t x), h2⟩
  · intro u T hT
    rw [hgS] at hT
    by_cases hts : u = s
    · subst hts
      simp only [if_true, Option.some.injEq] at hT
      subst hT
      exact hsubs
    · simp only [hts, if_false] at hT
      exact hi.acc.subs u T hT
  · intro a b cn hcn Pa Sb hPa hSb
    rw [hgC] at hcn; rw [hgS] at hSb
    show ConnAcc w.cfg cn Pa Sb
    by_cases hab : a = p ∧ b = s
    · obtain ⟨rfl, rfl⟩ := hab
      simp only [and_self, if_true, Option.some.injEq] at hcn hSb
      subst hcn; subst hSb
      exact hca Pa hPa
    · simp only [hab, if_false] at hcn
      by_cases hbs : b = s
      · subst hbs
        simp only [if_true, Option.some.injEq] at hSb
        subst hSb
        have hap : a ≠ p := fun h => hab ⟨h, rfl⟩
        obtain ⟨hpid', _, _⟩ := getC_some hcn
        exact (hi.acc.conns a b cn hcn Pa S hPa hS).congr rfl rfl
          (by rw [hpid']; exact hheld a hap) f1
      · simp only [hbs, if_false] at hSb
        exact hi.acc.conns a b cn hcn Pa Sb hPa hSb

/-! ### `Receiver::receive`: what the three loops do -/

/-- the result of a receive attempt relative to the world `w1` the successful
`ZeroCopyReceiver::receive` started from -/
def RecvOK (w1 : World) (s : Nat) (w2 : World) : RecvRes → Prop
  | .some key p ch seq => ∃ S1 c rest, getS w1 s = some S1 ∧ abs S1.storage key = some p ∧
      getC w1 p s = some c ∧ c.sub = (ch, seq) :: rest ∧ c.borrow < w1.cfg.borrowMax ∧
      w2 = setC w1 { c with sub := rest, borrow := c.borrow + 1, gReceived := c.gReceived ++ [seq] }
  | _ => w2 = w1

theorem recvFromConn_spec {w : World} {s : Nat} {S : Sub} (hS : getS w s = some S) (key : Nat) :
    RecvOK w s (recvFromConn w s S key).1 (recvFromConn w s S key).2 := by
  simp only [recvFromConn]
  split
  · rfl
  · rename_i p hp
    split
    · rfl
    · rename_i c hc
      split
      · rfl
      · rename_i hb
        split
        · rfl
        · rename_i ch seq rest hsub
          exact ⟨S, c, rest, hS, by rw [← smGet_eq_abs]; exact hp, hc, hsub, by omega, rfl⟩

theorem recvScan_spec {w : World} {s : Nat} {S : Sub} (hS : getS w s = some S) :
    ∀ (l : List (Nat × Nat)) (acc : ScanAcc),
      RecvOK w s (recvScan w s S l acc).1 (recvScan w s S l acc).2.1
  | [], acc => rfl
  | (key, p) :: r, acc => by
    simp only [recvScan]
    split
    · exact recvScan_spec hS r acc
    · split
      · exact recvScan_spec hS r acc
      · split
        · exact recvScan_spec hS r _
        · have h := recvFromConn_spec hS key
          generalize recvFromConn w s S key = x at h
          obtain ⟨w', res⟩ := x
          cases res with
          | none =>
            have h' : w' = w := h
            subst h'
            exact recvScan_spec hS r _
          | maxBorrow => exact h
          | some k q ch sq => exact h

theorem recvTbr_spec {G : GT} {A : GA} {s : Nat} :
    ∀ (fuel i : Nat) (w : World), Inv G A w →
      ∃ w1, Inv G A w1 ∧ RecvOK w1 s (recvTbr w s fuel i).1 (recvTbr w s fuel i).2
  | 0, i, w, hi => ⟨w, hi, rfl⟩
  | fuel + 1, i, w, hi => by
    simp only [recvTbr]
    split
    · exact ⟨w, hi, rfl⟩
    · rename_i S hS
      split
      · exact ⟨w, hi, rfl⟩
      · rename_i key hkey
        have st := hi.top.subs s S hS
        have hsh : Inv G A (setS w s { S with tbr := S.tbr.eraseIdx i }) :=
          hi.tbr_shrink hS ((List.eraseIdx_sublist _ _).nodup st.tbrNodup)
            (fun k hk => List.mem_of_mem_eraseIdx hk)
        split
        · exact recvTbr_spec fuel i _ hsh
        · rename_i p hp
          have hk : abs S.storage key = some p := by rw [← smGet_eq_abs]; exact hp
          have hmem : key ∈ S.tbr := List.mem_of_getElem? hkey
          cases hcq : getC w p s <;> simp only
          all_goals
            split
            · exact recvTbr_spec fuel (i + 1) w hi
            · rename_i hbm
              have h := recvFromConn_spec hS key
              generalize recvFromConn w s S key = x at h
              obtain ⟨w', res⟩ := x
              cases res with
              | maxBorrow => exact ⟨w, hi, h⟩
              | some k q ch sq => exact ⟨w, hi, h⟩
              | none =>
                have h' : w' = w := h
                subst h'
                simp only
                split
                · exact recvTbr_spec fuel (i + 1) w' hi
                · rename_i hb0
                  apply recvTbr_spec fuel i
                  refine subDropConn_inv (S := { S with tbr := S.tbr.eraseIdx i }) (p := p) hsh
                    (by simp [hS]) hk ?_ (st.tbr key hmem).2
                    (not_mem_eraseIdx_of_nodup st.tbrNodup hkey)
                  intro c' hc'
                  have hc'' : getC w' p s = some c' := hc'
                  rw [hcq] at hc''
                  cases hc'' <;> omega

theorem subReceive_spec {G : GT} {A : GA} {w : World} {s : Nat} (hi : Inv G A w) :
    ∃ w1, Inv G A w1 ∧ RecvOK w1 s (subReceive w s).1 (subReceive w s).2 := by
  simp only [subReceive]
  split
  · exact ⟨w, hi, rfl⟩
  · rename_i S hS
    obtain ⟨w1, hi1, h⟩ := recvTbr_spec (G := G) (A := A) (s := s) (S.tbr.length + 1) 0 w hi
    generalize recvTbr w s (S.tbr.length + 1) 0 = x at h
    obtain ⟨w', res⟩ := x
    cases res with
    | maxBorrow => exact ⟨w1, hi1, h⟩
    | some k q ch sq => exact ⟨w1, hi1, h⟩
    | none =>
      have h' : w' = w1 := h
      subst h'
      simp only
      split
      · exact ⟨w', hi1, rfl⟩
      · rename_i S' hS'
        have h2 := recvScan_spec hS' (SlotMap.items S'.storage) {}
        generalize recvScan w' s S' (SlotMap.items S'.storage) {} = y at h2
        obtain ⟨w'', res, acc⟩ := y
        cases res with
        | maxBorrow => exact ⟨w', hi1, h2⟩
        | some k q ch sq => exact ⟨w', hi1, h2⟩
        | none =>
          have h'' : w'' = w' := h2
          subst h''
          simp only
          split
          · exact ⟨w'', hi1, rfl⟩
          · exact ⟨w'', hi1, rfl⟩

/-! ### the `Sample` is created -/

theorem heldOf_append (S : Sub) (l : List Held) (gr : List (Nat × Nat)) (a : Nat) :
    heldOf { S with held := S.held ++ l, ghostRecv := gr } a =
      heldOf S a ++ (l.filter fun h => h.pid = a).map (·.chunk) := by
  unfold heldOf
  simp only [List.filter_append, List.map_append]

/-- a successful `ZeroCopyReceiver::receive` followed by the creation of the `Sample` -/
theorem recv_some_inv {G : GT} {A : GA} {w1 : World} {s key p ch seq : Nat} {S1 : Sub} {c : Conn}
    {rest : List (Nat × Nat)} (hi : Inv G A w1) (hS : getS w1 s = some S1)
    (hk : abs S1.storage key = some p) (hC : getC w1 p s = some c) (hsub : c.sub = (ch, seq) :: rest)
    (hb : c.borrow < w1.cfg.borrowMax) (tag : Nat)
    (htag : ∀ P, getP w1 p = some P → P.payload.getD ch 0 = tag) :
    Inv G A (setS (setC w1 { c with sub := rest, borrow := c.borrow + 1,
                                    gReceived := c.gReceived ++ [seq] }) s
      { S1 with held := S1.held ++ [{ key := key, pid := p, chunk := ch, seq := seq, tag := tag }],
                ghostRecv := S1.ghostRecv ++ [(p, seq)] }) := by
  obtain ⟨hpid, hsid, _⟩ := getC_some hC
  obtain ⟨P, S0, hP, hS0, ct⟩ := hi.top.conns p s c hC
  rw [hS] at hS0; cases hS0
  have st := hi.top.subs s S1 hS
  obtain ⟨a1, a2, a3⟩ := hi.acc.subs s S1 hS
  have hgoal := Inv.update_SC (S' := { S1 with
      held := S1.held ++ [{ key := key, pid := p, chunk := ch, seq := seq, tag := tag }],
      ghostRecv := S1.ghostRecv ++ [(p, seq)] })
    (c' := { c with sub := rest, borrow := c.borrow + 1, gReceived := c.gReceived ++ [seq] })
    hi hS hC rfl rfl rfl ?_ ?_ ?_
  · exact hgoal
  · intro a hap
    rw [heldOf_append]
    have : ¬ p = a := fun h => hap h.symm
    simp [this]
  · refine ⟨?_, ?_, ?_⟩
    · intro hex
      have := st.dead hex key
      rw [hk] at this; cases this
    · intro h hh
      show abs S1.storage h.key = some h.pid
      rcases List.mem_append.mp hh with hh | hh
      · exact a2 h hh
      · simp only [List.mem_singleton] at hh
        subst hh; exact hk
    · intro hal h hh
      rcases List.mem_append.mp hh with hh | hh
      · exact a3 hal h hh
      · simp only [List.mem_singleton] at hh
        subst hh
        exact ⟨P, hP, htag P hP⟩
  · intro P' hP'
    rw [hP] at hP'; cases hP'
    have ca := hi.acc.conns p s c hC P S1 hP hS
    have hheld : heldOf { S1 with
        held := S1.held ++ [{ key := key, pid := p, chunk := ch, seq := seq, tag := tag }],
        ghostRecv := S1.ghostRecv ++ [(p, seq)] } c.pid = heldOf S1 c.pid ++ [ch] := by
      rw [heldOf_append, hpid]; simp
    have hperm : (flight { c with
          sub := rest, borrow := c.borrow + 1, gReceived := c.gReceived ++ [seq] } { S1 with
        held := S1.held ++ [{ key := key, pid := p, chunk := ch, seq := seq, tag := tag }],
        ghostRecv := S1.ghostRecv ++ [(p, seq)] }).Perm (flight c S1) := by
      unfold flight
      simp only [hheld, hsub]
      rw [List.perm_iff_count]
      intro x
      simp only [List.map_cons, List.count_append, List.count_cons, List.count_nil]
      omega
    have hlen : c.sub.length = rest.length + 1 := by rw [hsub]; rfl
    refine ⟨ca.usedLen, ?_, ?_, ?_, ?_, ?_, ?_, ?_⟩
    · have := ca.subCap; show rest.length ≤ max c.cap 1; omega
    · show c.borrow + 1 ≤ w1.cfg.borrowMax; omega
    · have := ca.total
      show rest.length + (c.borrow + 1) + c.comp.length ≤ max c.cap 1 + w1.cfg.borrowMax
      omega
    · show c.borrow + 1 = _
      rw [hheld, List.length_append, ← ca.borrow]; rfl
    · intro hsa
      exact hperm.nodup_iff.mpr (ca.nodup hsa)
    · intro hsa x
      rw [hperm.mem_iff]
      exact ca.used hsa x
    · intro hsa hex
      obtain ⟨i1, i2⟩ := ca.idle hsa hex
      refine ⟨i1, ?_⟩
      intro hal
      have := (i2 hal).1
      rw [hsub] at this; cases this

/-- `Receiver::receive` followed by the creation of the `Sample` (the `.recv` case of `step` after `subUpdate`) -/
theorem recv_inv {G : GT} {A : GA} {w : World} {s : Nat} (hi : Inv G A w) (hh : G.hole = none) :
    match subReceive w s with
    | (w2, .some key p ch seq) =>
        ∀ S2, getS w2 s = some S2 →
          Inv G A (setS w2 s { S2 with
            held := S2.held ++ [{ key := key, pid := p, chunk := ch, seq := seq,
                                  tag := (match getP w2 p with | some P => P.payload.getD ch 0 | none => 0) }],
            ghostRecv := S2.ghostRecv ++ [(p, seq)] })
    | (w2, .maxBorrow) => Inv G A w2
    | (w2, .none) => Inv G A w2 := by
  obtain ⟨w1, hi1, h⟩ := subReceive_spec (s := s) hi
  generalize subReceive w s = x at h
  obtain ⟨w2, res⟩ := x
  cases res with
  | none =>
    have h' : w2 = w1 := h
    subst h'; exact hi1
  | maxBorrow =>
    have h' : w2 = w1 := h
    subst h'; exact hi1
  | some key p ch seq =>
    obtain ⟨S1, c, rest, hS, hk, hC, hsub, hb, hw2⟩ := h
    simp only
    intro S2 hS2
    subst hw2
    have hS2' : getS w1 s = some S2 := hS2
    rw [hS] at hS2'; cases hS2'
    apply recv_some_inv hi1 hS hk hC hsub hb
    intro P hP
    have hP' : getP (setC w1 { c with
        sub := rest, borrow := c.borrow + 1, gReceived := c.gReceived ++ [seq] }) p = some P := hP
    rw [hP']

/-- `recv_inv` with the outcome of `subReceive` given by an equation -/
theorem recv_inv_of_eq {G : GT} {A : GA} {w w2 : World} {s : Nat} {r : RecvRes} (hi : Inv G A w)
    (hh : G.hole = none) (h : subReceive w s = (w2, r)) :
    match r with
    | .some key p ch seq =>
        ∀ S2, getS w2 s = some S2 →
          Inv G A (setS w2 s { S2 with
            held := S2.held ++ [{ key := key, pid := p, chunk := ch, seq := seq,
                                  tag := (match getP w2 p with | some P => P.payload.getD ch 0 | none => 0) }],
            ghostRecv := S2.ghostRecv ++ [(p, seq)] })
    | _ => Inv G A w2 := by
  have := recv_inv (s := s) hi hh
  rw [h] at this
  cases r <;> exact this

/-! ### a `Sample` is dropped -/

/-- a `Sample` is dropped (the `.dsample` case of `step` before `subDestroyIfUnreferenced`) -/
theorem dsample_inv {G : GT} {A : GA} {w : World} {s k : Nat} {S : Sub} {h : Held}
    (hi : Inv G A w) (hS : getS w s = some S) (hk : S.held[k]? = some h) :
    Inv G A (subRelease (setS w s { S with held := S.held.eraseIdx k }) s h) := by
  obtain ⟨l1, l2, e1, e2⟩ := eraseIdx_split hk
  have hmem : h ∈ S.held := List.mem_of_getElem? hk
  have st := hi.top.subs s S hS
  obtain ⟨a1, a2, a3⟩ := hi.acc.subs s S hS
  have habs : abs S.storage h.key = some h.pid := a2 h hmem
  obtain ⟨⟨c, hC, hra⟩, P, hP, _⟩ := st.stor h.key h.pid habs
  obtain ⟨hpid, hsid, _⟩ := getC_some hC
  have ca := hi.acc.conns h.pid s c hC P S hP hS
  generalize hS' : ({ S with held := S.held.eraseIdx k } : Sub) = S'
  have hS'f : S'.alive = S.alive ∧ S'.ex = S.ex ∧ S'.storage = S.storage ∧ S'.held = l1 ++ l2 ∧
      stop S' = stop S := by
    subst hS'; exact ⟨rfl, rfl, rfl, e2, rfl⟩
  obtain ⟨f1, f2, f3, f4, f5⟩ := hS'f
  -- the held chunks
  have hof : ∀ (T : Sub) (a : Nat), heldOf T a = (T.held.filter fun x => x.pid = a).map (·.chunk) :=
    fun _ _ => rfl
  have hheldp : heldOf S h.pid = heldOf { S with held := l1 } h.pid ++ h.chunk ::
      heldOf { S with held := l2 } h.pid := by
    simp only [hof, e1, List.filter_append, List.map_append, List.filter_cons, decide_true,
      if_true, List.map_cons]
  have hheldp' : heldOf S' h.pid = heldOf { S with held := l1 } h.pid ++
      heldOf { S with held := l2 } h.pid := by
    simp only [hof, f4, List.filter_append, List.map_append]
  have hheldo : ∀ a, a ≠ h.pid → heldOf S' a = heldOf S a := by
    intro a ha
    have : ¬ h.pid = a := fun e => ha e.symm
    simp only [hof, f4, e1, List.filter_append, List.map_append, List.filter_cons, this,
      decide_false, Bool.false_eq_true, if_false]
  have hb1 : 1 ≤ c.borrow := by
    rw [ca.borrow, hpid, hheldp, List.length_append, List.length_cons]; omega
  -- the function
  have hres : subRelease (setS w s S') s h =
      setC (setS w s S') { c with comp := c.comp ++ [h.chunk], borrow := c.borrow - 1 } := by
    have hsm : smGet S'.storage h.key = some h.pid := by rw [smGet_eq_abs, f3]; exact habs
    have hgS : getS (setS w s S') s = some S' := by simp [hS]
    have hgC : getC (setS w s S') h.pid s = some c := hC
    have hcap : c.comp.length < c.cap + (setS w s S').cfg.borrowMax + 1 := by
      have := ca.total
      show c.comp.length < c.cap + w.cfg.borrowMax + 1
      omega
    simp only [subRelease, hgS, hsm, ne_eq, not_true_eq_false, if_false, hgC, hcap, if_true]
  rw [hres]
  refine Inv.update_SC hi hS hC f5 rfl rfl hheldo ⟨?_, ?_, ?_⟩ ?_
  · intro hex
    rw [f2] at hex
    rw [a1 hex] at hmem; cases hmem
  · intro x hx
    rw [f3]
    apply a2
    rw [e1]; rw [f4] at hx
    rcases List.mem_append.mp hx with hx | hx
    · exact List.mem_append_left _ hx
    · exact List.mem_append_right _ (List.mem_cons_of_mem _ hx)
  · intro hal x hx
    rw [f1] at hal
    apply a3 hal
    rw [e1]; rw [f4] at hx
    rcases List.mem_append.mp hx with hx | hx
    · exact List.mem_append_left _ hx
    · exact List.mem_append_right _ (List.mem_cons_of_mem _ hx)
  · intro P' hP'
    rw [hP] at hP'; cases hP'
    have hperm : (flight { c with comp := c.comp ++ [h.chunk], borrow := c.borrow - 1 } S').Perm
        (flight c S) := by
      unfold flight
      simp only [hpid, hheldp, hheldp']
      rw [List.perm_iff_count]
      intro x
      simp only [List.count_append, List.count_cons, List.count_nil]
      omega
    refine ⟨ca.usedLen, ca.subCap, ?_, ?_, ?_, ?_, ?_, ?_⟩
    · have := ca.borrowMax; show c.borrow - 1 ≤ w.cfg.borrowMax; omega
    · have := ca.total
      show c.sub.length + (c.borrow - 1) + (c.comp ++ [h.chunk]).length ≤
        max c.cap 1 + w.cfg.borrowMax
      rw [List.length_append, List.length_singleton]
      omega
    · show c.borrow - 1 = (heldOf S' c.pid).length
      have := ca.borrow
      rw [hpid, hheldp, List.length_append, List.length_cons] at this
      rw [hpid, hheldp', List.length_append]
      omega
    · intro hsa
      exact hperm.nodup_iff.mpr (ca.nodup hsa)
    · intro hsa x
      rw [hperm.mem_iff]
      exact ca.used hsa x
    · intro hsa hex
      obtain ⟨i1, i2⟩ := ca.idle hsa hex
      refine ⟨i1, ?_⟩
      intro hal
      rw [f1] at hal
      have := (i2 hal).2.2
      omega

end Iox2.PubSub.C02P
