/- the invariant of the blackboard port model and its preservation by every call -/
import Iox2.Proof.BlackboardBase
namespace Iox2.Blackboard

/-! ### three groups of facts, each over the components it talks about -/

/-- writer registration: `wp` live ports, `ws` registered writers, `hw` the writers of the live write handles -/
structure InvW (wp ws hw : List Nat) : Prop where
  slots_le : ws.length ≤ 1
  ports_sub : wp.Sublist ws
  hm_slot : ∀ y ∈ hw, y ∈ ws
  slot_held : ∀ y ∈ ws, y ∈ wp ∨ y ∈ hw

/-- write handles and entry cells -/
structure InvH (cells : List Cell) (hm : List HMut) (uH uL : List Nat) : Prop where
  ids_nodup : (hm.map (·.id)).Nodup
  ids_used : ∀ m ∈ hm, m.id ∈ uH
  keys_nodup : (hm.map (·.key)).Nodup
  hm_prod : ∀ m ∈ hm, ∃ c, cells[m.key]? = some c ∧ c.prod = true
  prod_hm : ∀ k c, cells[k]? = some c → c.prod = true → ∃ m ∈ hm, m.key = k
  scratch_ok : ∀ m ∈ hm, ∀ l v, m.loan = some (l, some v) → ∃ c, cells[m.key]? = some c ∧ c.scratch = some v
  loans_used : ∀ m ∈ hm, ∀ l x, m.loan = some (l, x) → l ∈ uL

/-- readers and read handles -/
structure InvR (mr : Nat) (rp : List Nat) (rh : List RHandle) (uG : List Nat) (n : Nat) : Prop where
  readers_le : rp.length ≤ mr
  max_pos : 1 ≤ mr
  gids_nodup : (rh.map (·.id)).Nodup
  gids_used : ∀ m ∈ rh, m.id ∈ uG
  g_key : ∀ m ∈ rh, m.key < n

structure Inv (w : World) : Prop where
  W : InvW w.wports w.wslots (w.hmuts.map (·.writer))
  H : InvH w.cells w.hmuts w.usedH w.usedL
  R : InvR w.maxReaders w.rports w.rhandles w.usedG w.cells.length

/-! ### generic helpers -/

theorem eq_of_map_eq {α β : Type} {f : α → β} {l : List α} (hn : (l.map f).Nodup) {a b : α}
    (ha : a ∈ l) (hb : b ∈ l) (e : f a = f b) : a = b := by
  induction l with
  | nil => cases ha
  | cons x xs ih =>
    simp only [List.map_cons, List.nodup_cons] at hn
    rcases List.mem_cons.mp ha with rfl | ha' <;> rcases List.mem_cons.mp hb with rfl | hb'
    · rfl
    · exact absurd (List.mem_map.mpr ⟨b, hb', e.symm⟩) hn.1
    · exact absurd (List.mem_map.mpr ⟨a, ha', e⟩) hn.1
    · exact ih hn.2 ha' hb'

theorem modAt_pres {cells : List Cell} {k j : Nat} {f : Cell → Cell} {P : Cell → Prop}
    (hP : ∀ c, P c → P (f c)) (h : ∃ c, cells[j]? = some c ∧ P c) :
    ∃ c, (modAt cells k f)[j]? = some c ∧ P c := by
  obtain ⟨c, hc, hp⟩ := h
  rw [getElem?_modAt]; split
  · exact ⟨f c, by simp [hc], hP c hp⟩
  · exact ⟨c, hc, hp⟩

theorem modAt_back {cells : List Cell} {k j : Nat} {f : Cell → Cell} {c' : Cell}
    (h : (modAt cells k f)[j]? = some c') : ∃ c, cells[j]? = some c ∧ (c' = c ∨ (j = k ∧ c' = f c)) := by
  rw [getElem?_modAt] at h; split at h
  · cases hc : cells[j]? with
    | none => simp [hc] at h
    | some c => simp [hc] at h; exact ⟨c, rfl, Or.inr ⟨by assumption, h.symm⟩⟩
  · exact ⟨c', h, Or.inl rfl⟩

theorem setLoan_self {hm : List HMut} {m : HMut} (hn : (hm.map (·.id)).Nodup) (h : m ∈ hm) :
    setLoan hm m.id m.loan = hm := by
  unfold setLoan
  have : ∀ m' ∈ hm, (if m'.id == m.id then { m' with loan := m.loan } else m') = m' := by
    intro m' hm'
    by_cases e : m'.id = m.id
    · have := eq_of_map_eq hn hm' h e
      subst this; simp
    · simp [e]
  rw [List.map_congr_left this]; simp

theorem release_eq (w : World) (x : Nat) :
    release w x = if x ∈ w.wports ∨ x ∈ w.hmuts.map (·.writer) then w
                  else { w with wslots := w.wslots.filter (fun y => y != x) } := by
  unfold release
  have : (x ∈ w.wports ∨ w.hmuts.any (fun m => m.writer == x) = true) ↔ (x ∈ w.wports ∨ x ∈ w.hmuts.map (·.writer)) := by
    simp only [List.any_eq_true, beq_iff_eq, List.mem_map]
  by_cases h : x ∈ w.wports ∨ x ∈ w.hmuts.map (·.writer)
  · rw [if_pos h, if_pos (this.mpr h)]
  · rw [if_neg h, if_neg (fun h' => h (this.mp h'))]

/-! ### writer registration -/

theorem InvW.release {wp ws hw wp' hw' : List Nat} (x : Nat) (h : InvW wp ws hw)
    (hp : wp'.Sublist wp) (hh : ∀ y ∈ hw', y ∈ hw)
    (keep : ∀ y, y ≠ x → (y ∈ wp → y ∈ wp') ∧ (y ∈ hw → y ∈ hw')) :
    InvW wp' (if x ∈ wp' ∨ x ∈ hw' then ws else ws.filter (fun y => y != x)) hw' := by
  split
  next hc =>
    refine ⟨h.slots_le, hp.trans h.ports_sub, fun y hy => h.hm_slot y (hh y hy), ?_⟩
    intro y hy
    by_cases e : y = x
    · subst e; exact hc
    · rcases h.slot_held y hy with h1 | h1
      · exact Or.inl ((keep y e).1 h1)
      · exact Or.inr ((keep y e).2 h1)
  next hc =>
    have hx1 : x ∉ wp' := fun h' => hc (Or.inl h')
    have hx2 : x ∉ hw' := fun h' => hc (Or.inr h')
    refine ⟨Nat.le_trans (List.length_filter_le _ _) h.slots_le, ?_, ?_, ?_⟩
    · have e : wp'.filter (fun y => y != x) = wp' := by
        rw [List.filter_eq_self]; intro a ha; simp; intro e; exact hx1 (e ▸ ha)
      rw [← e]; exact (hp.trans h.ports_sub).filter _
    · intro y hy
      rw [List.mem_filter]; refine ⟨h.hm_slot y (hh y hy), ?_⟩
      simp; intro e; exact hx2 (e ▸ hy)
    · intro y hy
      rw [List.mem_filter] at hy
      have e : y ≠ x := by simpa using hy.2
      rcases h.slot_held y hy.1 with h1 | h1
      · exact Or.inl ((keep y e).1 h1)
      · exact Or.inr ((keep y e).2 h1)

/-! ### write handles -/

theorem InvH.key_inj {cells hm uH uL} (h : InvH cells hm uH uL) {a b : HMut} (ha : a ∈ hm) (hb : b ∈ hm)
    (e : a.key = b.key) : a = b := eq_of_map_eq h.keys_nodup ha hb e
theorem InvH.id_inj {cells hm uH uL} (h : InvH cells hm uH uL) {a b : HMut} (ha : a ∈ hm) (hb : b ∈ hm)
    (e : a.id = b.id) : a = b := eq_of_map_eq h.ids_nodup ha hb e

/-- a new `EntryHandleMut` for a key whose producer token is free -/
theorem InvH.add {cells hm uH uL} (h : InvH cells hm uH uL) {k : Nat} {c : Cell} (x id : Nat)
    (hc : cells[k]? = some c) (hp : c.prod = false) (hid : id ∉ uH) :
    InvH (modAt cells k (fun c => { c with prod := true })) ({ id := id, writer := x, key := k, loan := none } :: hm)
      (id :: uH) uL := by
  have hk : k ∉ hm.map (·.key) := by
    intro hk
    obtain ⟨m, hm', e⟩ := List.mem_map.mp hk
    obtain ⟨c', hc', hp'⟩ := h.hm_prod m hm'
    rw [e, hc] at hc'; cases hc'; rw [hp] at hp'; cases hp'
  refine ⟨?_, ?_, ?_, ?_, ?_, ?_, ?_⟩
  · simp only [List.map_cons, List.nodup_cons]
    refine ⟨?_, h.ids_nodup⟩
    intro hin
    obtain ⟨m, hm', e⟩ := List.mem_map.mp hin
    exact hid (e ▸ h.ids_used m hm')
  · intro m hm'
    rcases List.mem_cons.mp hm' with rfl | hm'
    · exact List.mem_cons_self
    · exact List.mem_cons_of_mem _ (h.ids_used m hm')
  · simp only [List.map_cons, List.nodup_cons]; exact ⟨hk, h.keys_nodup⟩
  · intro m hm'
    rcases List.mem_cons.mp hm' with rfl | hm'
    · exact ⟨{ c with prod := true }, by simp [getElem?_modAt, hc], rfl⟩
    · exact modAt_pres (P := fun c => c.prod = true) (fun c _ => rfl) (h.hm_prod m hm')
  · intro k' c' hc' hp'
    by_cases e : k' = k
    · exact ⟨_, List.mem_cons_self, e.symm⟩
    · rw [getElem?_modAt_ne _ _ e] at hc'
      obtain ⟨m, hm', hk'⟩ := h.prod_hm k' c' hc' hp'
      exact ⟨m, List.mem_cons_of_mem _ hm', hk'⟩
  · intro m hm' l v hl
    rcases List.mem_cons.mp hm' with rfl | hm'
    · cases hl
    · exact modAt_pres (P := fun c => c.scratch = some v) (fun c hc => hc) (h.scratch_ok m hm' l v hl)
  · intro m hm' l x' hl
    rcases List.mem_cons.mp hm' with rfl | hm'
    · cases hl
    · exact h.loans_used m hm' l x' hl

/-- the `EntryHandleMut` `m` is dropped -/
theorem InvH.remove {cells hm uH uL} (h : InvH cells hm uH uL) {m : HMut} (hm0 : m ∈ hm) :
    InvH (modAt cells m.key (fun c => { c with prod := false })) (hm.filter (fun m' => m'.id != m.id)) uH uL := by
  have hsub : (hm.filter (fun m' => m'.id != m.id)).Sublist hm := List.filter_sublist
  refine ⟨h.ids_nodup.sublist (hsub.map _), ?_, h.keys_nodup.sublist (hsub.map _), ?_, ?_, ?_, ?_⟩
  · intro m' hm'; exact h.ids_used m' (hsub.subset hm')
  · intro m' hm'
    have hin := hsub.subset hm'
    have hne : m'.id ≠ m.id := by simpa using (List.mem_filter.mp hm').2
    have hk : m'.key ≠ m.key := fun e => hne (congrArg (·.id) (h.key_inj hin hm0 e))
    rw [getElem?_modAt_ne _ _ hk]; exact h.hm_prod m' hin
  · intro k c hc hp
    obtain ⟨c0, hc0, hcase⟩ := modAt_back hc
    rcases hcase with rfl | ⟨_, rfl⟩
    · obtain ⟨m', hm', hk'⟩ := h.prod_hm k _ hc0 hp
      by_cases e : k = m.key
      · subst e
        rw [getElem?_modAt_self, hc0] at hc
        simp at hc; rw [← hc] at hp; cases hp
      · refine ⟨m', List.mem_filter.mpr ⟨hm', ?_⟩, hk'⟩
        simp; intro e'
        exact e (by rw [← hk', h.id_inj hm' hm0 e'])
    · cases hp
  · intro m' hm' l v hl
    exact modAt_pres (P := fun c => c.scratch = some v) (fun c hc => hc) (h.scratch_ok m' (hsub.subset hm') l v hl)
  · intro m' hm' l x hl; exact h.loans_used m' (hsub.subset hm') l x hl

/-- the handle `m` changes its loan state to `lo` while its entry is modified by `f` (producer flag untouched) -/
theorem InvH.setLoan {cells hm uH uL uL'} (h : InvH cells hm uH uL) {m : HMut} (hm0 : m ∈ hm)
    (f : Cell → Cell) (lo : Option (Nat × Option Val))
    (hf : ∀ c, (f c).prod = c.prod)
    (hlo : ∀ l v, lo = some (l, some v) → ∀ c, (f c).scratch = some v)
    (hlu : ∀ l x, lo = some (l, x) → l ∈ uL') (hsub : ∀ l ∈ uL, l ∈ uL') :
    InvH (modAt cells m.key f) (setLoan hm m.id lo) uH uL' := by
  refine ⟨?_, ?_, ?_, ?_, ?_, ?_, ?_⟩
  · rw [map_id_setLoan]; exact h.ids_nodup
  · intro m' hm'
    obtain ⟨m0, h0, e1, _, _, _⟩ := mem_setLoan hm'
    rw [e1]; exact h.ids_used m0 h0
  · rw [map_key_setLoan]; exact h.keys_nodup
  · intro m' hm'
    obtain ⟨m0, h0, _, e2, _, _⟩ := mem_setLoan hm'
    rw [e2]
    exact modAt_pres (P := fun c => c.prod = true) (fun c hc => by rw [hf]; exact hc) (h.hm_prod m0 h0)
  · intro k c hc hp
    obtain ⟨c0, hc0, hcase⟩ := modAt_back hc
    have hp0 : c0.prod = true := by
      rcases hcase with rfl | ⟨_, rfl⟩
      · exact hp
      · rw [hf] at hp; exact hp
    obtain ⟨m0, h0, hk0⟩ := h.prod_hm k c0 hc0 hp0
    have : k ∈ (Iox2.Blackboard.setLoan hm m.id lo).map (·.key) := by
      rw [map_key_setLoan]; exact List.mem_map.mpr ⟨m0, h0, hk0⟩
    obtain ⟨m', hm', e⟩ := List.mem_map.mp this
    exact ⟨m', hm', e⟩
  · intro m' hm' l v hl
    obtain ⟨m0, h0, _, e2, _, hcase⟩ := mem_setLoan hm'
    rw [e2]
    rcases hcase with ⟨e, hl'⟩ | ⟨e, rfl⟩
    · have : m0 = m := h.id_inj h0 hm0 e
      subst this
      obtain ⟨c, hc, _⟩ := h.hm_prod m0 h0
      refine ⟨f c, by simp [getElem?_modAt, hc], ?_⟩
      exact hlo l v (hl'.symm.trans hl) c
    · have hk : m'.key ≠ m.key := fun e' => e (congrArg (·.id) (h.key_inj h0 hm0 e'))
      rw [getElem?_modAt_ne _ _ hk]; exact h.scratch_ok m' h0 l v hl
  · intro m' hm' l x hl
    obtain ⟨m0, h0, _, _, _, hcase⟩ := mem_setLoan hm'
    rcases hcase with ⟨_, hl'⟩ | ⟨_, rfl⟩
    · exact hlu l x (hl'.symm.trans hl)
    · exact hsub l (h.loans_used m' h0 l x hl)

/-! ### initial state -/

theorem init_inv (mr : Nat) (tys : List Nat) : Inv (World.init mr tys) := by
  refine ⟨⟨by simp [World.init], by simp [World.init], by simp [World.init], by simp [World.init]⟩,
          ⟨by simp [World.init], by simp [World.init], by simp [World.init], by simp [World.init], ?_,
           by simp [World.init], by simp [World.init]⟩,
          ⟨by simp [World.init], ?_, by simp [World.init], by simp [World.init], by simp [World.init]⟩⟩
  · intro k c hc hp
    simp only [World.init, List.getElem?_map] at hc
    cases h : tys[k]? with
    | none => simp [h] at hc
    | some t => simp [h] at hc; rw [← hc] at hp; cases hp
  · simp only [World.init]; split <;> omega

/-! ### every call preserves the invariant -/

theorem inv_release {w : World} (x : Nat)
    (hW : InvW w.wports (if x ∈ w.wports ∨ x ∈ w.hmuts.map (·.writer) then w.wslots else w.wslots.filter (fun y => y != x))
            (w.hmuts.map (·.writer)))
    (hH : InvH w.cells w.hmuts w.usedH w.usedL)
    (hR : InvR w.maxReaders w.rports w.rhandles w.usedG w.cells.length) : Inv (release w x) := by
  rw [release_eq]
  split
  next hc => rw [if_pos hc] at hW; exact ⟨hW, hH, hR⟩
  next hc => rw [if_neg hc] at hW; exact ⟨hW, hH, hR⟩

theorem removeH_inv {w : World} (h : Inv w) {m : HMut} (hm : m ∈ w.hmuts) : Inv (removeH w m) := by
  unfold removeH
  apply inv_release
  · refine h.W.release m.writer (List.Sublist.refl _) ?_ ?_
    · intro y hy
      obtain ⟨m', hm', e⟩ := List.mem_map.mp hy
      exact List.mem_map.mpr ⟨m', (List.mem_filter.mp hm').1, e⟩
    · intro y hy
      refine ⟨id, ?_⟩
      intro hy'
      obtain ⟨m', hm', e⟩ := List.mem_map.mp hy'
      refine List.mem_map.mpr ⟨m', List.mem_filter.mpr ⟨hm', ?_⟩, e⟩
      simp; intro e'
      have := h.H.id_inj hm' hm e'
      subst this; exact hy e.symm
  · exact h.H.remove hm
  · have := h.R; simp only [length_modAt]; exact this

theorem cwriter_inv {w : World} (h : Inv w) (x : Nat) : Inv (cwriter w x).1 := by
  unfold cwriter
  split; · exact h
  split; · exact h
  split
  next hl =>
    have hws : w.wslots = [] := by
      cases hw : w.wslots with
      | nil => rfl
      | cons a as => simp [hw, maxWriters] at hl
    refine ⟨?_, h.H, h.R⟩
    have hW := h.W
    rw [hws] at hW
    have hwp : w.wports = [] := by
      have := hW.ports_sub; simpa using this
    simp only [hws, hwp]
    refine ⟨by simp, List.Sublist.refl _, ?_, ?_⟩
    · intro y hy; exact absurd (hW.hm_slot y hy) (by simp)
    · intro y hy; exact Or.inl hy
  · exact h

theorem dwriter_inv {w : World} (h : Inv w) (x : Nat) : Inv (dwriter w x).1 := by
  unfold dwriter
  split
  next hx =>
    apply inv_release
    · exact h.W.release x List.filter_sublist (fun y hy => hy)
        (fun y hy => ⟨fun hy' => List.mem_filter.mpr ⟨hy', by simpa using hy⟩, id⟩)
    · exact h.H
    · exact h.R
  · exact h

theorem creader_inv {w : World} (h : Inv w) (r : Nat) : Inv (creader w r).1 := by
  unfold creader
  split; · exact h
  split; · exact h
  split
  next hl =>
    refine ⟨h.W, h.H, ?_⟩
    have hR := h.R
    exact ⟨by simp only [List.length_cons]; omega, hR.max_pos, hR.gids_nodup, hR.gids_used, hR.g_key⟩
  · exact h

theorem dreader_inv {w : World} (h : Inv w) (r : Nat) : Inv (dreader w r).1 := by
  unfold dreader
  split
  · refine ⟨h.W, h.H, ?_⟩
    have hR := h.R
    exact ⟨Nat.le_trans (List.length_filter_le _ _) hR.readers_le, hR.max_pos, hR.gids_nodup, hR.gids_used, hR.g_key⟩
  · exact h

theorem hmut_inv {w : World} (h : Inv w) (x k id t : Nat) : Inv (hmut w x k id t).1 := by
  unfold hmut
  split; · exact h
  next hid =>
  split; · exact h
  next hx =>
  split
  · exact h
  next c hc =>
    split; · exact h
    split; · exact h
    next _ hp =>
    have hx' : x ∈ w.wports := by simpa using hx
    refine ⟨?_, ?_, ?_⟩
    · have hW := h.W
      simp only [List.map_cons]
      refine ⟨hW.slots_le, hW.ports_sub, ?_, ?_⟩
      · intro y hy
        rcases List.mem_cons.mp hy with rfl | hy
        · exact hW.ports_sub.subset hx'
        · exact hW.hm_slot y hy
      · intro y hy
        rcases hW.slot_held y hy with h1 | h1
        · exact Or.inl h1
        · exact Or.inr (List.mem_cons_of_mem _ h1)
    · exact h.H.add x id hc (by simpa using hp) hid
    · have := h.R; simp only [length_modAt]; exact this

theorem dhmut_inv {w : World} (h : Inv w) (id : Nat) : Inv (dhmut w id).1 := by
  unfold dhmut
  split
  · exact h
  next m hm =>
    split
    · exact h
    · exact removeH_inv h (findH_some hm).1

/-- common shape of `update`, `loan`, `lwrite`, `lcommit`, `commit`, `discard` -/
theorem setLoan_inv {w : World} (h : Inv w) {m : HMut} (hm0 : m ∈ w.hmuts) (f : Cell → Cell)
    (lo : Option (Nat × Option Val)) (uL' : List Nat)
    (hf : ∀ c, (f c).prod = c.prod)
    (hlo : ∀ l v, lo = some (l, some v) → ∀ c, (f c).scratch = some v)
    (hlu : ∀ l x, lo = some (l, x) → l ∈ uL') (hsub : ∀ l ∈ w.usedL, l ∈ uL') :
    Inv { w with hmuts := setLoan w.hmuts m.id lo, cells := modAt w.cells m.key f, usedL := uL' } := by
  refine ⟨?_, h.H.setLoan hm0 f lo hf hlo hlu hsub, ?_⟩
  · have := h.W; simp only [map_writer_setLoan]; exact this
  · have := h.R; simp only [length_modAt]; exact this

theorem modAt_id {α : Type} (l : List α) (k : Nat) : modAt l k (fun c => c) = l := by
  induction l generalizing k with
  | nil => rfl
  | cons a as ih => cases k <;> simp [modAt, ih]

theorem update_inv {w : World} (h : Inv w) (id : Nat) (v : Val) : Inv (update w id v).1 := by
  unfold update
  split
  · exact h
  next m hm =>
    split
    · exact h
    next hl =>
      have hm0 := (findH_some hm).1
      have hn : m.loan = none := by simpa using hl
      have := setLoan_inv h hm0 (fun c => c.store v) m.loan w.usedL (fun c => rfl)
        (by intro l v' e; rw [hn] at e; cases e) (by intro l x e; rw [hn] at e; cases e) (fun l hl => hl)
      rw [setLoan_self h.H.ids_nodup hm0] at this
      exact this

theorem loan_inv {w : World} (h : Inv w) (id l : Nat) : Inv (loan w id l).1 := by
  unfold loan
  split; · exact h
  split
  · exact h
  next m hm =>
    split
    · exact h
    · have hm0 := (findH_some hm).1
      have := setLoan_inv h hm0 (fun c => c) (some (l, none)) (l :: w.usedL) (fun c => rfl)
        (by intro l' v' e; cases e) (by intro l' x e; cases e; exact List.mem_cons_self)
        (fun l' hl' => List.mem_cons_of_mem _ hl')
      rw [modAt_id] at this
      exact this

theorem lwrite_inv {w : World} (h : Inv w) (l : Nat) (v : Val) : Inv (lwrite w l v).1 := by
  unfold lwrite
  split
  · exact h
  next m hm =>
    obtain ⟨hm0, x, hx⟩ := findL_some hm
    exact setLoan_inv h hm0 (fun c => { c with scratch := some v }) (some (l, some v)) w.usedL (fun c => rfl)
      (by intro l' v' e; cases e; intro c; rfl)
      (by intro l' x' e; cases e; exact h.H.loans_used m hm0 l x hx) (fun l' hl' => hl')

theorem lcommit_inv {w : World} (h : Inv w) (l : Nat) : Inv (lcommit w l).1 := by
  unfold lcommit
  split
  · exact h
  next m hm =>
    split
    · exact setLoan_inv h (findL_some hm).1 (fun c => c.publish) none w.usedL (fun c => rfl)
        (by intro l' v' e; cases e) (by intro l' x' e; cases e) (fun l' hl' => hl')
    · exact h

theorem commit_inv {w : World} (h : Inv w) (l : Nat) (v : Val) : Inv (commit w l v).1 := by
  unfold commit
  split
  · exact h
  next m hm =>
    exact setLoan_inv h (findL_some hm).1 (fun c => c.store v) none w.usedL (fun c => rfl)
      (by intro l' v' e; cases e) (by intro l' x' e; cases e) (fun l' hl' => hl')

theorem discard_inv {w : World} (h : Inv w) (l : Nat) : Inv (discard w l).1 := by
  unfold discard
  split
  · exact h
  next m hm =>
    have := setLoan_inv h (findL_some hm).1 (fun c => c) none w.usedL (fun c => rfl)
      (by intro l' v' e; cases e) (by intro l' x' e; cases e) (fun l' hl' => hl')
    rw [modAt_id] at this
    exact this

theorem dloan_inv {w : World} (h : Inv w) (l : Nat) : Inv (dloan w l).1 := by
  unfold dloan
  split
  · exact h
  next m hm => exact removeH_inv h (findL_some hm).1

theorem hget_inv {w : World} (h : Inv w) (r k g t : Nat) : Inv (hget w r k g t).1 := by
  unfold hget
  split; · exact h
  next hg =>
  split; · exact h
  split
  · exact h
  next c hc =>
    split; · exact h
    refine ⟨h.W, h.H, ?_⟩
    have hR := h.R
    refine ⟨hR.readers_le, hR.max_pos, ?_, ?_, ?_⟩
    · simp only [List.map_cons, List.nodup_cons]
      refine ⟨?_, hR.gids_nodup⟩
      intro hin
      obtain ⟨m, hm, e⟩ := List.mem_map.mp hin
      exact hg (e ▸ hR.gids_used m hm)
    · intro m hm
      rcases List.mem_cons.mp hm with rfl | hm
      · exact List.mem_cons_self
      · exact List.mem_cons_of_mem _ (hR.gids_used m hm)
    · intro m hm
      rcases List.mem_cons.mp hm with rfl | hm
      · simp only
        by_cases hk : k < w.cells.length
        · exact hk
        · rw [List.getElem?_eq_none (by omega)] at hc; cases hc
      · exact hR.g_key m hm

theorem dhget_inv {w : World} (h : Inv w) (g : Nat) : Inv (dhget w g).1 := by
  unfold dhget
  split
  · exact h
  · refine ⟨h.W, h.H, ?_⟩
    have hR := h.R
    have hsub : (w.rhandles.filter (fun m => m.id != g)).Sublist w.rhandles := List.filter_sublist
    exact ⟨hR.readers_le, hR.max_pos, hR.gids_nodup.sublist (hsub.map _), fun m hm => hR.gids_used m (hsub.subset hm),
           fun m hm => hR.g_key m (hsub.subset hm)⟩

theorem get_inv {w : World} (h : Inv w) (g : Nat) : Inv (get w g).1 := by
  unfold get
  split
  · exact h
  · split
    · exact h
    next c hc =>
      refine ⟨h.W, h.H, ?_⟩
      have hR := h.R
      have hid : (w.rhandles.map (fun m' => if m'.id == g then { m' with last := some c.gen } else m')).map (·.id)
          = w.rhandles.map (·.id) := by
        rw [List.map_map]; apply List.map_congr_left; intro m _; simp only [Function.comp]; split <;> rfl
      refine ⟨hR.readers_le, hR.max_pos, by rw [hid]; exact hR.gids_nodup, ?_, ?_⟩
      · intro m hm
        obtain ⟨m0, h0, rfl⟩ := List.mem_map.mp hm
        have := hR.gids_used m0 h0
        split <;> exact this
      · intro m hm
        obtain ⟨m0, h0, rfl⟩ := List.mem_map.mp hm
        have := hR.g_key m0 h0
        split <;> exact this

theorem fresh_inv {w : World} (h : Inv w) (g : Nat) : Inv (fresh w g).1 := by
  unfold fresh
  split
  · exact h
  · split <;> exact h

theorem dsvc_inv {w : World} (h : Inv w) : Inv (dsvc w).1 := by
  unfold dsvc
  split
  · exact ⟨h.W, h.H, h.R⟩
  · exact h

theorem count_inv {w : World} (h : Inv w) : Inv (count w).1 := by
  unfold count
  split <;> exact h

theorem step_inv {w : World} (h : Inv w) (op : Op) : Inv (step w op).1 := by
  cases op with
  | cwriter x => exact cwriter_inv h x
  | dwriter x => exact dwriter_inv h x
  | creader r => exact creader_inv h r
  | dreader r => exact dreader_inv h r
  | hmut x k id t => exact hmut_inv h x k id t
  | dhmut id => exact dhmut_inv h id
  | update id v => exact update_inv h id v
  | loan id l => exact loan_inv h id l
  | lwrite l v => exact lwrite_inv h l v
  | lcommit l => exact lcommit_inv h l
  | commit l v => exact commit_inv h l v
  | discard l => exact discard_inv h l
  | dloan l => exact dloan_inv h l
  | hget r k g t => exact hget_inv h r k g t
  | dhget g => exact dhget_inv h g
  | get g => exact get_inv h g
  | fresh g => exact fresh_inv h g
  | dsvc => exact dsvc_inv h
  | count => exact count_inv h

theorem run_inv {w : World} (h : Inv w) (ops : List Op) : Inv (run w ops) := by
  induction ops generalizing w with
  | nil => exact h
  | cons op ops ih => exact ih (step_inv h op)

/-- every state reachable from a freshly created service satisfies the invariant -/
theorem reach_inv (mr : Nat) (tys : List Nat) (ops : List Op) : Inv (run (World.init mr tys) ops) :=
  run_inv (init_inv mr tys) ops

end Iox2.Blackboard
