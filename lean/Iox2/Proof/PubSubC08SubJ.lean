/-
C08 helper: subscriber-side actions preserve the invariant (part J: `subReceive`).
-/
import Iox2.Proof.PubSubC08SubI
set_option linter.unusedSimpArgs false
set_option linter.unusedVariables false
namespace Iox2.PubSub.C08
open Iox2.PubSub
open Iox2.C16.SlotMapP (abs)
attribute [-simp] List.getD_eq_getElem?_getD

theorem recvTbr_spec {cfg : Cfg} {xs : Option Nat} (s : Nat) (fuel : Nat) :
    ∀ {w : World} (h : InvS cfg w xs s none) (i : Nat),
      RecvPost cfg xs s (recvTbr w s fuel i).1 (recvTbr w s fuel i).2 ∧
      (recvTbr w s fuel i).1.panicked = w.panicked := by
  induction fuel with
  | zero => intro w h i; exact ⟨h, rfl⟩
  | succ fuel ih =>
    intro w h i
    rw [recvTbr_succ]
    cases hS : getS w s with
    | none => exact ⟨h, rfl⟩
    | some S =>
      dsimp only
      have hSO : SubOK cfg w s S none := by simpa using h.s s S hS
      cases hi : S.tbr[i]? with
      | none => exact ⟨h, rfl⟩
      | some key =>
        dsimp only
        have hmem : key ∈ S.tbr := List.mem_of_getElem? hi
        rw [smGet_eq hSO.stI]
        cases hk : abs S.storage key with
        | none => exact absurd hk (hSO.tbrIn key hmem)
        | some p =>
          dsimp only
          split
          · exact ih h (i + 1)
          · obtain ⟨r1, r2, r3, r4⟩ := recvFromConn_spec h hS key
            split
            next w' k q ch sq heq =>
              rw [heq] at r1 r2
              exact ⟨r1, r2⟩
            next w' heq =>
              rw [heq] at r1 r2
              exact ⟨r1, r2⟩
            next w' heq =>
              rw [heq] at r1 r2 r4
              have hw' : w' = w := r4 (.inl rfl)
              subst hw'
              split
              · exact ih h (i + 1)
              next hb =>
                have hb0 : connBorrow w' p s = 0 := by omega
                obtain ⟨e1, _⟩ := evictTbr_inv h hS hi hk hb0
                obtain ⟨k1, k2⟩ := ih e1 i
                refine ⟨k1, k2.trans ?_⟩
                rw [subDropConn_panicked]; rfl

theorem recvScan_spec {cfg : Cfg} {xs : Option Nat} (s : Nat) (S : Sub) (l : List (Nat × Nat)) :
    ∀ {w : World} (h : InvS cfg w xs s none) (hS : getS w s = some S) (acc : ScanAcc),
      RecvPost cfg xs s (recvScan w s S l acc).1 (recvScan w s S l acc).2.1 ∧
      (recvScan w s S l acc).1.panicked = w.panicked := by
  induction l with
  | nil => intro w h hS acc; exact ⟨h, rfl⟩
  | cons a r ih =>
    intro w h hS acc
    obtain ⟨key, p⟩ := a
    rw [recvScan]
    split
    · exact ih h hS acc
    · split
      · exact ih h hS acc
      · dsimp only
        split
        · exact ih h hS _
        · obtain ⟨r1, r2, r3, r4⟩ := recvFromConn_spec h hS key
          split
          next w' k q ch sq heq =>
            rw [heq] at r1 r2
            exact ⟨r1, r2⟩
          next w' heq =>
            rw [heq] at r1 r2
            exact ⟨r1, r2⟩
          next w' heq =>
            rw [heq] at r1 r2 r4
            have hw' : w' = w := r4 (.inl rfl)
            subst hw'
            exact ih h hS _

theorem subReceive_spec {cfg : Cfg} {w : World} {xs : Option Nat} {s : Nat} (h : InvS cfg w xs s none) :
    RecvPost cfg xs s (subReceive w s).1 (subReceive w s).2 ∧ (subReceive w s).1.panicked = w.panicked := by
  unfold subReceive
  cases hS : getS w s with
  | none => exact ⟨h, rfl⟩
  | some S =>
    dsimp only
    obtain ⟨t1, t2⟩ := recvTbr_spec (cfg := cfg) (xs := xs) s (S.tbr.length + 1) h 0
    split
    next w' k q ch sq heq =>
      rw [heq] at t1 t2
      exact ⟨t1, t2⟩
    next w' heq =>
      rw [heq] at t1 t2
      exact ⟨t1, t2⟩
    next w' heq =>
      rw [heq] at t1 t2
      have h' : InvS cfg w' xs s none := t1
      have t2' : w'.panicked = w.panicked := t2
      cases hS' : getS w' s with
      | none => exact ⟨h', t2'⟩
      | some S' =>
        dsimp only
        obtain ⟨u1, u2⟩ := recvScan_spec (cfg := cfg) (xs := xs) s S' (SlotMap.items S'.storage) h' hS' {}
        split
        next w'' k q ch sq acc heq2 =>
          rw [heq2] at u1 u2
          exact ⟨u1, u2.trans t2'⟩
        next w'' acc heq2 =>
          rw [heq2] at u1 u2
          exact ⟨u1, u2.trans t2'⟩
        next w'' acc heq2 =>
          rw [heq2] at u1 u2
          have u1' : InvS cfg w'' xs s none := u1
          split
          · exact ⟨u1', u2.trans t2'⟩
          · exact ⟨u1', u2.trans t2'⟩

end Iox2.PubSub.C08
