/-
Basic lemmas about the accessors of the publish-subscribe model (`getP`/`setP`, `getS`/`setS`,
`getC`/`setC`, attach/detach), used by the C01 proofs.
-/
import Iox2.Model.PubSub
import Iox2.Props.C16SlotMap
namespace Iox2.PubSub.C01P
open Iox2.PubSub

/-! ### field projections (all by `rfl`) -/

@[simp] theorem setP_conns (w : World) (p : Nat) (x : Pub) : (setP w p x).conns = w.conns := rfl
@[simp] theorem setP_subs (w : World) (p : Nat) (x : Pub) : (setP w p x).subs = w.subs := rfl
@[simp] theorem setP_cfg (w : World) (p : Nat) (x : Pub) : (setP w p x).cfg = w.cfg := rfl
@[simp] theorem setP_pubReg (w : World) (p : Nat) (x : Pub) : (setP w p x).pubReg = w.pubReg := rfl
@[simp] theorem setP_subReg (w : World) (p : Nat) (x : Pub) : (setP w p x).subReg = w.subReg := rfl
@[simp] theorem setP_panicked (w : World) (p : Nat) (x : Pub) : (setP w p x).panicked = w.panicked := rfl
@[simp] theorem setS_conns (w : World) (p : Nat) (x : Sub) : (setS w p x).conns = w.conns := rfl
@[simp] theorem setS_pubs (w : World) (p : Nat) (x : Sub) : (setS w p x).pubs = w.pubs := rfl
@[simp] theorem setS_cfg (w : World) (p : Nat) (x : Sub) : (setS w p x).cfg = w.cfg := rfl
@[simp] theorem setS_pubReg (w : World) (p : Nat) (x : Sub) : (setS w p x).pubReg = w.pubReg := rfl
@[simp] theorem setS_subReg (w : World) (p : Nat) (x : Sub) : (setS w p x).subReg = w.subReg := rfl
@[simp] theorem setS_panicked (w : World) (p : Nat) (x : Sub) : (setS w p x).panicked = w.panicked := rfl
@[simp] theorem setC_pubs (w : World) (x : Conn) : (setC w x).pubs = w.pubs := rfl
@[simp] theorem setC_subs (w : World) (x : Conn) : (setC w x).subs = w.subs := rfl
@[simp] theorem setC_cfg (w : World) (x : Conn) : (setC w x).cfg = w.cfg := rfl
@[simp] theorem setC_pubReg (w : World) (x : Conn) : (setC w x).pubReg = w.pubReg := rfl
@[simp] theorem setC_subReg (w : World) (x : Conn) : (setC w x).subReg = w.subReg := rfl
@[simp] theorem setC_panicked (w : World) (x : Conn) : (setC w x).panicked = w.panicked := rfl

@[simp] theorem getS_setP (w : World) (p : Nat) (x : Pub) (s : Nat) : getS (setP w p x) s = getS w s := rfl
@[simp] theorem getC_setP (w : World) (p : Nat) (x : Pub) (a b : Nat) : getC (setP w p x) a b = getC w a b := rfl
@[simp] theorem getP_setS (w : World) (s : Nat) (x : Sub) (p : Nat) : getP (setS w s x) p = getP w p := rfl
@[simp] theorem getC_setS (w : World) (s : Nat) (x : Sub) (a b : Nat) : getC (setS w s x) a b = getC w a b := rfl
@[simp] theorem getP_setC (w : World) (x : Conn) (p : Nat) : getP (setC w x) p = getP w p := rfl
@[simp] theorem getS_setC (w : World) (x : Conn) (s : Nat) : getS (setC w x) s = getS w s := rfl

/-! ### get after set -/

theorem find_map_upd_same {α : Type} (l : List α) (m : α → Bool) (x : α) (hx : m x = true) :
    (l.map fun e => if m e then x else e).find? m = (l.find? m).map fun _ => x := by
  induction l with
  | nil => rfl
  | cons a l ih =>
    simp only [List.map_cons, List.find?_cons]
    by_cases ha : m a = true
    · simp [ha, hx]
    · simp only [Bool.not_eq_true] at ha
      simp [ha, ih]

theorem find_map_upd_other {α : Type} (l : List α) (m r : α → Bool) (x : α) (hx : r x = false)
    (hd : ∀ e, r e = true → m e = false) :
    (l.map fun e => if m e then x else e).find? r = l.find? r := by
  induction l with
  | nil => rfl
  | cons a l ih =>
    simp only [List.map_cons, List.find?_cons]
    by_cases ha : m a = true
    · have hra : r a = false := by
        cases h : r a
        · rfl
        · rw [hd a h] at ha; cases ha
      simp [ha, hx, hra, ih]
    · simp only [Bool.not_eq_true] at ha
      simp [ha, ih]

theorem getP_setP (w : World) (p : Nat) (x : Pub) (p' : Nat) :
    getP (setP w p x) p' = if p' = p then (getP w p).map (fun _ => x) else getP w p' := by
  unfold getP setP
  by_cases h : p' = p
  · subst h
    simp only [if_true]
    have := find_map_upd_same w.pubs (fun e => decide (e.1 = p')) (p', x) (by simp)
    simp only [decide_eq_true_eq] at this
    rw [this]
    cases w.pubs.find? (fun e => decide (e.1 = p')) <;> rfl
  · simp only [h, if_false]
    have := find_map_upd_other w.pubs (fun e => decide (e.1 = p)) (fun e => decide (e.1 = p')) (p, x)
      (by simp; exact fun h' => h h'.symm) (by intro e; simp; intro h1 h2; exact h (h1 ▸ h2))
    simp only [decide_eq_true_eq] at this
    rw [this]

theorem getS_setS (w : World) (s : Nat) (x : Sub) (s' : Nat) :
    getS (setS w s x) s' = if s' = s then (getS w s).map (fun _ => x) else getS w s' := by
  unfold getS setS
  by_cases h : s' = s
  · subst h
    simp only [if_true]
    have := find_map_upd_same w.subs (fun e => decide (e.1 = s')) (s', x) (by simp)
    simp only [decide_eq_true_eq] at this
    rw [this]
    cases w.subs.find? (fun e => decide (e.1 = s')) <;> rfl
  · simp only [h, if_false]
    have := find_map_upd_other w.subs (fun e => decide (e.1 = s)) (fun e => decide (e.1 = s')) (s, x)
      (by simp; exact fun h' => h h'.symm) (by intro e; simp; intro h1 h2; exact h (h1 ▸ h2))
    simp only [decide_eq_true_eq] at this
    rw [this]

theorem getC_setC (w : World) (x : Conn) (p s : Nat) :
    getC (setC w x) p s = if p = x.pid ∧ s = x.sid then (getC w p s).map (fun _ => x) else getC w p s := by
  unfold getC setC
  by_cases h : p = x.pid ∧ s = x.sid
  · obtain ⟨rfl, rfl⟩ := h
    simp only [and_self, if_true]
    have := find_map_upd_same w.conns (fun c => decide (c.pid = x.pid ∧ c.sid = x.sid)) x (by simp)
    simp only [decide_eq_true_eq] at this
    exact this
  · simp only [h, if_false]
    have := find_map_upd_other w.conns (fun c => decide (c.pid = x.pid ∧ c.sid = x.sid))
      (fun c => decide (c.pid = p ∧ c.sid = s)) x
      (by simp; intro h1 h2; exact h ⟨h1.symm, h2.symm⟩)
      (by intro e; simp; intro h1 h2 h3 h4; exact h ⟨h1 ▸ h3, h2 ▸ h4⟩)
    simp only [decide_eq_true_eq] at this
    exact this

theorem getP_setP_self {w : World} {p : Nat} {P : Pub} (x : Pub) (h : getP w p = some P) :
    getP (setP w p x) p = some x := by rw [getP_setP, h]; simp
theorem getP_setP_ne (w : World) {p p' : Nat} (x : Pub) (h : p' ≠ p) :
    getP (setP w p x) p' = getP w p' := by rw [getP_setP]; simp [h]
theorem getS_setS_self {w : World} {s : Nat} {S : Sub} (x : Sub) (h : getS w s = some S) :
    getS (setS w s x) s = some x := by rw [getS_setS, h]; simp
theorem getS_setS_ne (w : World) {s s' : Nat} (x : Sub) (h : s' ≠ s) :
    getS (setS w s x) s' = getS w s' := by rw [getS_setS]; simp [h]

theorem getC_some {w : World} {p s : Nat} {c : Conn} (h : getC w p s = some c) :
    c ∈ w.conns ∧ c.pid = p ∧ c.sid = s := by
  unfold getC at h
  have h1 := List.mem_of_find?_eq_some h
  have h2 := List.find?_some h
  simp only [decide_eq_true_eq] at h2
  exact ⟨h1, h2⟩

theorem getC_none {w : World} {p s : Nat} (h : getC w p s = none) :
    ∀ c ∈ w.conns, ¬ (c.pid = p ∧ c.sid = s) := by
  unfold getC at h
  intro c hc
  have := List.find?_eq_none.mp h c hc
  simpa using this

theorem getC_isSome_of_mem {w : World} {c : Conn} (h : c ∈ w.conns) : (getC w c.pid c.sid).isSome = true := by
  cases hg : getC w c.pid c.sid with
  | some _ => rfl
  | none => exact absurd ⟨rfl, rfl⟩ (getC_none hg c h)

theorem getP_some {w : World} {p : Nat} {P : Pub} (h : getP w p = some P) : (p, P) ∈ w.pubs := by
  unfold getP at h
  cases hf : w.pubs.find? (fun e => decide (e.1 = p)) with
  | none => rw [hf] at h; cases h
  | some e =>
    rw [hf] at h
    have h1 := List.mem_of_find?_eq_some hf
    have h2 := List.find?_some hf
    simp only [decide_eq_true_eq] at h2
    simp only [Option.map_some, Option.some.injEq] at h
    obtain ⟨a, b⟩ := e
    simp only at h h2
    subst h h2
    exact h1

theorem getS_some {w : World} {s : Nat} {S : Sub} (h : getS w s = some S) : (s, S) ∈ w.subs := by
  unfold getS at h
  cases hf : w.subs.find? (fun e => decide (e.1 = s)) with
  | none => rw [hf] at h; cases h
  | some e =>
    rw [hf] at h
    have h1 := List.mem_of_find?_eq_some hf
    have h2 := List.find?_some hf
    simp only [decide_eq_true_eq] at h2
    simp only [Option.map_some, Option.some.injEq] at h
    obtain ⟨a, b⟩ := e
    simp only at h h2
    subst h h2
    exact h1

/-! ### membership in the connection list after an update -/

theorem mem_setC {w : World} {x c : Conn} (h : c ∈ (setC w x).conns) :
    (c = x ∧ (getC w x.pid x.sid).isSome) ∨ (c ∈ w.conns ∧ ¬ (c.pid = x.pid ∧ c.sid = x.sid)) := by
  unfold setC at h
  simp only [List.mem_map] at h
  obtain ⟨c0, hc0, heq⟩ := h
  by_cases hm : c0.pid = x.pid ∧ c0.sid = x.sid
  · rw [if_pos hm] at heq
    left
    refine ⟨heq.symm, ?_⟩
    have := getC_isSome_of_mem hc0
    rw [hm.1, hm.2] at this
    exact this
  · rw [if_neg hm] at heq
    right
    subst heq
    exact ⟨hc0, hm⟩

theorem mem_setC_of_mem {w : World} {x c : Conn} (h : c ∈ w.conns) (hne : ¬ (c.pid = x.pid ∧ c.sid = x.sid)) :
    c ∈ (setC w x).conns := by
  unfold setC
  simp only [List.mem_map]
  exact ⟨c, h, by rw [if_neg hne]⟩

theorem mem_setC_self {w : World} {x c : Conn} (h : getC w x.pid x.sid = some c) : x ∈ (setC w x).conns := by
  unfold setC
  simp only [List.mem_map]
  obtain ⟨h1, h2, h3⟩ := getC_some h
  exact ⟨c, h1, by rw [if_pos ⟨h2, h3⟩]⟩

/-- every connection is the first (hence only) one with its key -/
def UniqC (w : World) : Prop := ∀ c ∈ w.conns, getC w c.pid c.sid = some c

theorem UniqC.setC {w : World} {x : Conn} (h : UniqC w) : UniqC (setC w x) := by
  intro c hc
  rcases mem_setC hc with ⟨rfl, hs⟩ | ⟨hm, hne⟩
  · rw [getC_setC]; simp only [and_self, if_true]
    cases hg : getC w c.pid c.sid with
    | none => rw [hg] at hs; cases hs
    | some _ => rfl
  · rw [getC_setC, if_neg hne]; exact h c hm

/-- the world with the connections matching `(p, s)` removed -/
def dropC (w : World) (p s : Nat) : World :=
  { w with conns := w.conns.filter fun c => ¬ (c.pid = p ∧ c.sid = s) }

theorem mem_dropC {w : World} {p s : Nat} {c : Conn} :
    c ∈ (dropC w p s).conns ↔ c ∈ w.conns ∧ ¬ (c.pid = p ∧ c.sid = s) := by
  simp only [dropC, List.mem_filter, decide_eq_true_eq]

theorem getC_dropC (w : World) (p s a b : Nat) :
    getC (dropC w p s) a b = if a = p ∧ b = s then none else getC w a b := by
  unfold getC dropC
  by_cases h : a = p ∧ b = s
  · obtain ⟨rfl, rfl⟩ := h
    simp only [and_self, if_true]
    rw [List.find?_eq_none]
    intro c hc
    simp only [List.mem_filter, decide_eq_true_eq] at hc
    simp only [decide_eq_true_eq]
    exact hc.2
  · simp only [h, if_false]
    rw [List.find?_filter]
    congr 1
    funext c
    by_cases hc : c.pid = a ∧ c.sid = b
    · have : ¬ (c.pid = p ∧ c.sid = s) := by
        intro h2; exact h ⟨hc.1 ▸ h2.1, hc.2 ▸ h2.2⟩
      obtain ⟨rfl, rfl⟩ := hc
      simp [h]
    · simp [hc]

theorem UniqC.dropC {w : World} {p s : Nat} (h : UniqC w) : UniqC (dropC w p s) := by
  intro c hc
  rw [mem_dropC] at hc
  rw [getC_dropC, if_neg hc.2]
  exact h c hc.1

/-- the world with one more connection -/
def addC (w : World) (x : Conn) : World := { w with conns := w.conns ++ [x] }

theorem mem_addC {w : World} {x c : Conn} : c ∈ (addC w x).conns ↔ c ∈ w.conns ∨ c = x := by
  simp [addC]

theorem getC_addC (w : World) (x : Conn) (a b : Nat) :
    getC (addC w x) a b = (getC w a b).or (if x.pid = a ∧ x.sid = b then some x else none) := by
  unfold getC addC
  simp only [List.find?_append, List.find?_cons, List.find?_nil]
  by_cases h : x.pid = a ∧ x.sid = b <;> simp [h]

theorem UniqC.addC {w : World} {x : Conn} (h : UniqC w) (hx : getC w x.pid x.sid = none) : UniqC (addC w x) := by
  intro c hc
  rw [mem_addC] at hc
  rw [getC_addC]
  rcases hc with hc | rfl
  · rw [h c hc]; rfl
  · rw [hx]; simp

@[simp] theorem dropC_pubs (w : World) (p s : Nat) : (dropC w p s).pubs = w.pubs := rfl
@[simp] theorem dropC_subs (w : World) (p s : Nat) : (dropC w p s).subs = w.subs := rfl
@[simp] theorem dropC_cfg (w : World) (p s : Nat) : (dropC w p s).cfg = w.cfg := rfl
@[simp] theorem dropC_pubReg (w : World) (p s : Nat) : (dropC w p s).pubReg = w.pubReg := rfl
@[simp] theorem dropC_subReg (w : World) (p s : Nat) : (dropC w p s).subReg = w.subReg := rfl
@[simp] theorem dropC_panicked (w : World) (p s : Nat) : (dropC w p s).panicked = w.panicked := rfl
@[simp] theorem getP_dropC (w : World) (p s a : Nat) : getP (dropC w p s) a = getP w a := rfl
@[simp] theorem getS_dropC (w : World) (p s a : Nat) : getS (dropC w p s) a = getS w a := rfl
@[simp] theorem addC_pubs (w : World) (x : Conn) : (addC w x).pubs = w.pubs := rfl
@[simp] theorem addC_subs (w : World) (x : Conn) : (addC w x).subs = w.subs := rfl
@[simp] theorem addC_cfg (w : World) (x : Conn) : (addC w x).cfg = w.cfg := rfl
@[simp] theorem addC_pubReg (w : World) (x : Conn) : (addC w x).pubReg = w.pubReg := rfl
@[simp] theorem addC_subReg (w : World) (x : Conn) : (addC w x).subReg = w.subReg := rfl
@[simp] theorem addC_panicked (w : World) (x : Conn) : (addC w x).panicked = w.panicked := rfl
@[simp] theorem getP_addC (w : World) (x : Conn) (a : Nat) : getP (addC w x) a = getP w a := rfl
@[simp] theorem getS_addC (w : World) (x : Conn) (a : Nat) : getS (addC w x) a = getS w a := rfl

/-! ### detach in terms of `setC` / `dropC` -/

theorem detachSender_eq (w : World) (p s : Nat) :
    detachSender w p s = match getC w p s with
      | none => w
      | some c => if c.rAtt then setC w { c with sAtt := false } else dropC w p s := rfl

theorem detachReceiver_eq (w : World) (p s : Nat) :
    detachReceiver w p s = match getC w p s with
      | none => w
      | some c => if c.sAtt then setC w { c with rAtt := false } else dropC w p s := rfl

theorem detachSender_none {w : World} {p s : Nat} (h : getC w p s = none) : detachSender w p s = w := by
  rw [detachSender_eq, h]
theorem detachSender_keep {w : World} {p s : Nat} {c : Conn} (h : getC w p s = some c) (hr : c.rAtt = true) :
    detachSender w p s = setC w { c with sAtt := false } := by
  rw [detachSender_eq, h]; simp only; rw [if_pos hr]
theorem detachSender_drop {w : World} {p s : Nat} {c : Conn} (h : getC w p s = some c) (hr : c.rAtt = false) :
    detachSender w p s = dropC w p s := by
  rw [detachSender_eq, h]; simp only; rw [if_neg (by simp [hr])]
theorem detachReceiver_none {w : World} {p s : Nat} (h : getC w p s = none) : detachReceiver w p s = w := by
  rw [detachReceiver_eq, h]
theorem detachReceiver_keep {w : World} {p s : Nat} {c : Conn} (h : getC w p s = some c) (hr : c.sAtt = true) :
    detachReceiver w p s = setC w { c with rAtt := false } := by
  rw [detachReceiver_eq, h]; simp only; rw [if_pos hr]
theorem detachReceiver_drop {w : World} {p s : Nat} {c : Conn} (h : getC w p s = some c) (hr : c.sAtt = false) :
    detachReceiver w p s = dropC w p s := by
  rw [detachReceiver_eq, h]; simp only; rw [if_neg (by simp [hr])]

theorem detachSender_setP_comm (w : World) (p s a : Nat) (X : Pub) :
    detachSender (setP w a X) p s = setP (detachSender w p s) a X := by
  simp only [detachSender_eq, getC_setP]
  cases getC w p s with
  | none => rfl
  | some c => simp only; split <;> rfl

theorem setP_setP (w : World) (p : Nat) (X Y : Pub) : setP (setP w p X) p Y = setP w p Y := by
  unfold setP
  simp only [List.map_map]
  congr 1
  apply List.map_congr_left
  intro e _
  simp only [Function.comp]
  by_cases h : e.1 = p <;> simp [h]

end Iox2.PubSub.C01P
