/-
C08 helper: publisher-side actions preserve the invariant (part D: the core of a delivery).
-/
import Iox2.Proof.PubSubC08PubC
set_option linter.unusedSimpArgs false
set_option linter.unusedVariables false
namespace Iox2.PubSub.C08
open Iox2.PubSub
open Iox2.C16.SlotMapP (abs)

theorem deliver_core {cfg : Cfg} {w w' : World} {xp : Option Nat} {p0 : Nat} {xs : List Nat} {st : Bool}
    (h : InvP cfg w xp p0 xs st) {p s i ch : Nat} {P P2 : Pub} {c c' : Conn}
    (hp : getP w p = some P) (hc : getC w p s = some c) (hi : P.conns[i]? = some (some s))
    (hal : P.alive = true) (hx : p ≠ p0 → xs = [])
    (hcomp : c.comp = []) (hun : c.used.getD ch false = false)
    (href : 1 ≤ (if p = p0 then xs else []).count ch + P.hist.count ch)
    (hst : st = true → ch ∉ (if p = p0 then xs else []))
    (hfr : PFrame w w') (hu : ConnsUniq w')
    (hgP : ∀ q, getP w' q = if q = p then some P2 else getP w q)
    (hgC : ∀ a b, getC w' a b = if a = p ∧ b = s then some c' else getC w a b)
    (hcore : ConnCore c c') (hpool : PoolEq P P2) (hfree : FreeOK P → FreeOK P2)
    (keep removed : List Nat) (hsplit : c.sub.map (·.1) = removed ++ keep)
    (hsub' : c'.sub.map (·.1) = keep ++ [ch]) (hlen' : c'.sub.length ≤ c.cap)
    (hused' : ∀ x, c'.used.getD x false =
      if x ∈ removed then false else if x = ch then true else c.used.getD x false)
    (hulen : c'.used.length = c.used.length)
    (hrc : ∀ x, P2.rc.getD x 0 =
      P.rc.getD x 0 + (if x = ch then 1 else 0) - (if x ∈ removed then 1 else 0)) :
    InvP cfg w' xp p0 xs st := by
  obtain ⟨hSl, hMem⟩ := h.p p P hp
  have M := hMem hal
  obtain ⟨c0, hc0, hsa⟩ := hSl.slotConn i s hi
  rw [hc] at hc0; cases hc0
  have hCI := h.c p s c hc
  obtain ⟨S, hS⟩ := hCI.hasS
  obtain ⟨hnd, hex⟩ := hCI.exact hsa S hS
  have hkey := getC_key hc
  obtain ⟨e1, e2, e3, e4, e5, e6, e7⟩ := hcore
  unfold connChunks at hnd hex
  rw [hcomp, List.append_nil, hsplit] at hnd hex
  -- facts on the lists
  have hchL : ch ∉ removed ++ keep ++ heldChunks S c.pid := by
    intro hm; have := (hex ch).2 hm; rw [hun] at this; cases this
  have hch_rem : ch ∉ removed := fun hm => hchL (by simp [hm])
  have hch_keep : ch ∉ keep := fun hm => hchL (by simp [hm])
  have hch_held : ch ∉ heldChunks S c.pid := fun hm => hchL (by simp [hm])
  have hnd1 := List.nodup_append.mp hnd
  have hnd2 := List.nodup_append.mp hnd1.1
  have hrem_keep : ∀ x, x ∈ removed → x ∉ keep := fun x h1 h2 => hnd2.2.2 x h1 x h2 rfl
  have hrem_held : ∀ x, x ∈ removed → x ∉ heldChunks S c.pid :=
    fun x h1 h2 => hnd1.2.2 x (by simp [h1]) x h2 rfl
  have hkeep_held : ∀ x, x ∈ keep → x ∉ heldChunks S c.pid :=
    fun x h1 h2 => hnd1.2.2 x (by simp [h1]) x h2 rfl
  have hrem_used : ∀ x, x ∈ removed → c.used.getD x false = true :=
    fun x hm => (hex x).2 (by simp [hm])
  have hmem : some s ∈ P.conns := List.mem_of_getElem? hi
  have hcnt := hSl.count_one hi
  refine h.rebuild2 hp hc hfr hu hgP hgC hpool.sim (fun hr => e7 ▸ hr) (fun hne => ⟨hx hne, hx hne⟩) ?_ ?_
  · -- the connection
    refine ⟨⟨by rw [e3]; exact hCI.ok.cap1, by rw [e3]; exact hCI.ok.capM, by rw [e3]; exact hlen',
        by rw [e5]; exact hCI.ok.borLe, ?_⟩, ⟨P2, by rw [hgP]; simp⟩, ?_, ?_, ?_, ?_, ?_, ?_⟩
    · rw [e4, hcomp, e5, e3]
      have := hCI.ok.borLe
      simp only [List.length_nil]; omega
    · rw [hfr.subs]; exact hCI.hasS
    · intro S' hS'; rw [hfr.subs] at hS'; rw [e5]; exact hCI.held S' hS'
    · intro _ S' hS'
      rw [hfr.subs, hS] at hS'; cases hS'
      unfold connChunks
      rw [hsub', e1, e4, hcomp, List.append_nil]
      constructor
      · rw [List.nodup_append]
        refine ⟨?_, hnd1.2.1, ?_⟩
        · rw [List.nodup_append]
          refine ⟨hnd2.2.1, by simp, ?_⟩
          intro a ha b hb
          simp at hb; subst hb
          intro e; subst e; exact hch_keep ha
        · intro a ha b hb e
          subst e
          rcases List.mem_append.mp ha with ha | ha
          · exact hkeep_held a ha hb
          · simp at ha; subst ha; exact hch_held hb
      · intro x
        rw [hused' x]
        by_cases hxr : x ∈ removed
        · simp only [hxr, if_true, Bool.false_eq_true, false_iff]
          intro hm
          rcases List.mem_append.mp hm with hm | hm
          · rcases List.mem_append.mp hm with hm | hm
            · exact hrem_keep x hxr hm
            · simp at hm; subst hm; exact hch_rem hxr
          · exact hrem_held x hxr hm
        · simp only [hxr, if_false]
          by_cases hxc : x = ch
          · subst hxc; simp
          · simp only [hxc, if_false]
            rw [hex x]
            simp [hxr, hxc]
    · intro hf; rw [e6] at hf; rw [hsa] at hf; cases hf
    · intro _
      obtain ⟨P1, hp1, hex1, _⟩ := hCI.inSlot hsa
      rw [hp] at hp1; cases hp1
      exact ⟨P2, by rw [hgP]; simp, hpool.sim.ex.trans hex1, i, by rw [hpool.sim.conns]; exact hi⟩
    · intro Q hQ
      rw [hgP] at hQ; simp at hQ; subst hQ
      rw [hulen, hpool.sim.n]; exact hCI.usedLen P hp
  · -- the publisher
    constructor
    · refine ⟨by rw [hpool.sim.conns]; exact hSl.connsLen, ?_, ?_, ?_⟩
      · intro j s' hj
        rw [hpool.sim.conns] at hj
        obtain ⟨c1, hc1, ha1⟩ := hSl.slotConn j s' hj
        rw [hgC]
        by_cases hs : s' = s
        · subst hs
          rw [hc] at hc1; cases hc1
          exact ⟨c', by simp, e6.trans ha1⟩
        · exact ⟨c1, by simp [hs, hc1], ha1⟩
      · intro j s' hj
        rw [hpool.sim.conns] at hj
        rw [hfr.subs]
        exact hSl.slotSlot j s' hj
      · intro ha; rw [hpool.sim.ex]; exact hSl.aliveEx (hpool.sim.alive ▸ ha)
    · intro _
      obtain ⟨f1, f2, f3, f4, f5, f6, f7, f8, f9, f10, f11, f12, f13, f14, f15⟩ := hpool.fields
      have hU : ∀ s' x, s' ≠ s → usedAt w' p s' x = usedAt w p s' x := by
        intro s' x hs
        apply usedAt_congr
        rw [hgC]; simp [hs]
      have hUs : ∀ x, usedAt w' p s x =
          if x ∈ removed then false else if x = ch then true else c.used.getD x false := by
        intro x
        rw [usedAt_of_getC (c := c') (by rw [hgC]; simp)]
        exact hused' x
      have hsum : ∀ x, slotSum w' p P.conns x + (if x ∈ removed then 1 else 0) =
          slotSum w p P.conns x + (if x = ch then 1 else 0) := by
        intro x
        have := slotSum_update (w := w) (c := x) P.conns (hU · x)
        rw [hcnt, hUs x, usedAt_of_getC hc] at this
        by_cases hxr : x ∈ removed
        · have hu1 := hrem_used x hxr
          have hxc : x ≠ ch := fun e => hch_rem (e ▸ hxr)
          simp only [hxr, hu1, hxc, if_true, if_false, Bool.false_eq_true] at this ⊢
          omega
        · by_cases hxc : x = ch
          · subst hxc
            simp only [hxr, hun, if_true, if_false, Bool.false_eq_true] at this ⊢
            omega
          · simp only [hxr, hxc, if_false] at this ⊢
            omega
      have hsum_rem : ∀ x, x ∈ removed → 1 ≤ slotSum w p P.conns x := fun x hxr =>
        slotSum_ge_of_used hmem (by rw [usedAt_of_getC hc]; exact hrem_used x hxr)
      -- chunks whose counter is exactly one and that are referenced elsewhere are untouched
      have huntouched : ∀ x, 1 ≤ (if p = p0 then xs else []).count x + (P.loans.map (·.2)).count x →
          P.rc.getD x 0 = 1 → (st = true ∨ (if p = p0 then xs else []).count x = 0) →
          P2.rc.getD x 0 = 1 := by
        intro x h1 h2 h3
        have hrq := M.rcEq x
        have hx_rem : x ∉ removed := fun hxr => by have := hsum_rem x hxr; omega
        have hx_ch : x ≠ ch := by
          intro e; subst e
          rcases h3 with h3 | h3
          · have := List.count_eq_zero.mpr (hst h3)
            omega
          · omega
        rw [hrc x, h2]
        simp only [hx_rem, hx_ch, if_false]
      refine ⟨hfree M.fr, by rw [f5, f4]; exact M.nEq, ?_, by rw [f6, f11]; exact M.loanCnt,
        by rw [f7]; exact M.histLen, by rw [f11]; exact M.labels, ?_, ?_, by rw [f7]; exact M.histNodup⟩
      · intro x
        rw [hrc x, f11, f7, f8, M.rcEq x]
        have h1 := hsum x
        by_cases hxr : x ∈ removed
        · have h2 := hsum_rem x hxr
          have hxc : x ≠ ch := fun e => hch_rem (e ▸ hxr)
          simp only [hxr, hxc, if_true, if_false] at h1 ⊢
          omega
        · simp only [hxr, if_false] at h1 ⊢
          omega
      · intro lc hlc
        rw [f11] at hlc
        have h1 := M.loanRc lc hlc
        have hc1 : 1 ≤ (P.loans.map (·.2)).count lc.2 :=
          List.one_le_count_iff.mpr (List.mem_map.mpr ⟨lc, hlc, rfl⟩)
        by_cases hst' : st = true
        · exact huntouched lc.2 (by omega) h1 (.inl hst')
        · refine huntouched lc.2 (by omega) h1 (.inr ?_)
          -- `lc.2` is not in `xs`: its counter is one and it is loaned
          have hrq := M.rcEq lc.2
          omega
      · intro hst' x hxm
        have h1 := M.xsRc hst' x hxm
        have hc1 : 1 ≤ (if p = p0 then xs else []).count x := List.one_le_count_iff.mpr hxm
        exact huntouched x (by omega) h1 (.inl hst')

end Iox2.PubSub.C08
