/-
C08 helper: publisher-side actions preserve the invariant (part H: `pubRemoveConn`).
-/
import Iox2.Proof.PubSubC08PubG
set_option linter.unusedSimpArgs false
set_option linter.unusedVariables false
namespace Iox2.PubSub.C08
open Iox2.PubSub
open Iox2.C16.SlotMapP (abs)
attribute [-simp] List.getD_eq_getElem?_getD

theorem getC_dropC' (w : World) (p s a b : Nat) :
    getC (dropC w p s) a b = if a = p ∧ b = s then none else getC w a b := getC_dropC w p s a b

theorem set_none_of_not_some {l : List (Option Nat)} {i : Nat} (h : ∀ s, l[i]? ≠ some (some s)) :
    l.set i none = l := by
  apply List.ext_getElem?
  intro j
  rw [List.getElem?_set]
  by_cases hij : i = j
  · subst hij
    by_cases hl : i < l.length
    · simp only [hl, if_true]
      cases hv : l[i]? with
      | none => simp at hv; omega
      | some v =>
        cases v with
        | none => rfl
        | some s => exact absurd hv (h s)
    · simp [hl]
  · simp [hij]

theorem pubRemoveConn_inv {cfg : Cfg} {w : World} {xp : Option Nat} {p0 : Nat} {xs : List Nat} {st : Bool}
    (h : InvP cfg w xp p0 xs st) (p slot : Nat) (hx : p ≠ p0 → xs = [])
    (hdead : ∀ P s S, getP w p = some P → P.conns[slot]? = some (some s) → getS w s = some S → S.alive = false) :
    InvP cfg (pubRemoveConn w p slot) xp p0 xs st ∧
    (∀ P, getP w p = some P → ∃ P1, PoolEq P P1 ∧
      getP (pubRemoveConn w p slot) p = some { P1 with conns := P.conns.set slot none }) := by
  rw [pubRemoveConn_eq]
  cases hp : getP w p with
  | none => exact ⟨h, fun P hP => by cases hP⟩
  | some P =>
    dsimp only
    cases hs : P.conns.getD slot none with
    | none =>
      dsimp only
      refine ⟨h, fun P' hP' => ?_⟩
      cases hP'
      refine ⟨P, .refl _, ?_⟩
      rw [hp]
      have : P.conns.set slot none = P.conns := set_none_of_not_some (fun s hs' => by
        rw [← getD_some_iff, hs] at hs'; cases hs')
      rw [this]
    | some s =>
      dsimp only
      have hi : P.conns[slot]? = some (some s) := getD_some_iff.mp hs
      obtain ⟨hSl, hMem⟩ := h.p p P hp
      obtain ⟨c, hc, hsa⟩ := hSl.slotConn slot s hi
      have hkey := getC_key hc
      obtain ⟨r1, r2, r3⟩ := releaseAllUsed_spec P c.used c.used.length
      have hrel : pubRelease w p s P =
          (setC w { c with used := c.used.map fun _ => false }, releaseAllUsed P c.used c.used.length) := by
        unfold pubRelease; rw [hc]
      rw [hrel]
      dsimp only
      have hconns : (releaseAllUsed P c.used c.used.length).conns = P.conns := r1.sim.conns
      rw [hconns]
      generalize hP1 : releaseAllUsed P c.used c.used.length = P1 at r1 r2 r3 ⊢
      have hrc : ∀ x, P1.rc.getD x 0 = P.rc.getD x 0 - (if c.used.getD x false = true then 1 else 0) := by
        intro x
        rw [r3 x]
        by_cases hu : c.used.getD x false = true
        · have : x < c.used.length := by
            by_cases hl : x < c.used.length
            · exact hl
            · rw [List.getD_eq_getElem?_getD, List.getElem?_eq_none (by omega)] at hu; cases hu
          simp [hu, this]
        · simp [hu]
      -- the world before the detach
      have hk1 : ({ c with used := c.used.map fun _ => false } : Conn).pid = p ∧
          ({ c with used := c.used.map fun _ => false } : Conn).sid = s := hkey
      have hc2 : getC (setP (setC w { c with used := c.used.map fun _ => false }) p
          { P1 with conns := P.conns.set slot none }) p s = some { c with used := c.used.map fun _ => false } := by
        rw [getC_setP, getC_setC_self hc _ hk1]; simp
      have hdead' := hdead P s
      rw [detachSender_eq, hc2]
      dsimp only
      refine ⟨?_, fun P' hP' => ?_⟩
      · by_cases hr : c.rAtt = true
        · rw [if_pos hr]
          refine removeConn_core h (some { c with used := c.used.map fun _ => false, sAtt := false }) hp hc hi hx
            (fun S hS => hdead' S hp hi hS) ⟨rfl, rfl, rfl, fun _ => rfl⟩ (((h.u.setC _).of_conns rfl).setC _)
            (fun q => ?_) (fun a b => ?_) ?_ (fun _ => by simp) r1 r2 hrc
          · simp only [getP_setC, getP_setP, hp, Option.map_some]
          · have hk3 : ({ c with used := c.used.map fun _ => false, sAtt := false } : Conn).pid = p ∧
                ({ c with used := c.used.map fun _ => false, sAtt := false } : Conn).sid = s := hkey
            rw [getC_setC_self hc2 _ hk3]
            by_cases hab : a = p ∧ b = s
            · simp [hab]
            · simp only [hab, if_false]
              rw [getC_setP, getC_setC_self hc _ hk1]; simp [hab]
          · intro x hx'
            cases hx'
            exact ⟨⟨rfl, rfl, rfl, rfl, rfl, hsa.symm, rfl⟩, rfl, rfl, rfl⟩
        · rw [if_neg hr]
          refine removeConn_core h none hp hc hi hx
            (fun S hS => hdead' S hp hi hS) ⟨rfl, rfl, rfl, fun _ => rfl⟩ (((h.u.setC _).of_conns rfl).dropC _ _)
            (fun q => ?_) (fun a b => ?_) (fun x hx' => by cases hx') (fun hr' => absurd hr' hr) r1 r2 hrc
          · show getP (setP (setC w _) p _) q = _
            simp only [getP_setC, getP_setP, hp, Option.map_some]
          · rw [getC_dropC']
            by_cases hab : a = p ∧ b = s
            · simp [hab]
            · simp only [hab, if_false]
              rw [getC_setP, getC_setC_self hc _ hk1]; simp [hab]
      · cases hP'
        refine ⟨P1, r1, ?_⟩
        split
        · simp only [getP_setC, getP_setP, hp, Option.map_some, if_true]
        · show getP (setP (setC w _) p _) p = _
          simp only [getP_setC, getP_setP, hp, Option.map_some, if_true]

end Iox2.PubSub.C08
