/-
C13 — connection lifecycle: one sender, one receiver, removed once by the last
(model Iox2/Model/ConnState.lean) — statements to be proved.
DO NOT change the model or weaken a statement; if a statement is false, report the counterexample.

Setting: ANY number of threads, ANY programs made of `create r param`, `drop r`, `abandon r`
(the port's owner dies: no step), `remove r` (forced removal — enabled only for a port that died
while attached), all interleavings at atomic-step granularity.  Programs do not contain
`removeUnchecked` (forced removal of a role that is not known to be attached is outside the
contract; see `conn_unchecked_removal_breaks` for what goes wrong).
-/
import Iox2.Model.ConnState

namespace Iox2.C13
open Iox2.Sched Iox2.ConnState

def initCfg (progs : List (List Cmd)) : Cfg Sh Th :=
  { sh := {}, th := progs.map Th.init }

/-- the programs stay within the contract -/
def Contract (progs : List (List Cmd)) : Prop :=
  ∀ p ∈ progs, ∀ r, Cmd.removeUnchecked r ∉ p

/-- thread `t` occupies role `r` of incarnation `k`: it has the attached port, or its port died attached -/
def occupies (t : Th) (r : Role) (k : Nat) : Prop :=
  (∃ h, t.port r = some h ∧ h.inc = k) ∨ (∃ h, t.dead r = some h ∧ h.inc = k)

variable (progs : List (List Cmd))

/-- at most one sender and one receiver per connection incarnation -/
theorem conn_one_per_role (hc : Contract progs) (c : Cfg Sh Th) (h : Reachable sys (initCfg progs) c)
    (r : Role) (k i j : Nat) (ti tj : Th)
    (hi : c.th[i]? = some ti) (hj : c.th[j]? = some tj) (oi : occupies ti r k) (oj : occupies tj r k) :
    i = j := by
  sorry

/-- an occupied role has its bit set in the incarnation's state byte, and the incarnation is the
one linked under the connection's name: never destroyed while attached, never attached to a
destroyed resource -/
theorem conn_attached_alive (hc : Contract progs) (c : Cfg Sh Th) (h : Reachable sys (initCfg progs) c)
    (r : Role) (k i : Nat) (t : Th) (hi : c.th[i]? = some t) (o : occupies t r k) :
    c.sh.linked = some k ∧ k ∉ c.sh.destroyed ∧
    ∃ st, c.sh.mem[k]? = some st ∧ st.state &&& r.bit ≠ 0 ∧ st.state &&& MARK = 0 := by
  sorry

/-- the shared resource is destroyed at most once per incarnation, and only in the state
`MarkedForDestruction` (no role bit set) -/
theorem conn_destroyed_once_when_marked (hc : Contract progs) (c : Cfg Sh Th)
    (h : Reachable sys (initCfg progs) c) :
    c.sh.destroyed.Nodup ∧ ∀ x ∈ c.sh.stateAtDestroy, x = MARK := by
  sorry

/-- `MarkedForDestruction` is final for an incarnation: an attach that observes it is refused -/
theorem conn_mark_final (hc : Contract progs) (c c' : Cfg Sh Th) (i : Nat) (evs : List Ev)
    (h : Reachable sys (initCfg progs) c) (hs : sys.stepAt c i = some (c', evs))
    (k : Nat) (st : Storage) (hk : c.sh.mem[k]? = some st) (hm : st.state = MARK) :
    ∃ st', c'.sh.mem[k]? = some st' ∧ st'.state = MARK := by
  sorry

/-- a refused attach (same role already attached, being cleaned up) or a mismatch leaves every
other thread's ports and the role bits of the other side untouched -/
theorem conn_refused_attach_no_disturbance (hc : Contract progs) (c c' : Cfg Sh Th) (i : Nat) (evs : List Ev)
    (h : Reachable sys (initCfg progs) c) (hs : sys.stepAt c i = some (c', evs))
    (r : Role) (hr : Ev.ret s!"create_{r.name} err:AnotherInstanceIsAlreadyConnected" ∈ evs ∨
                     Ev.ret s!"create_{r.name} err:IsBeingCleanedUp" ∈ evs) :
    c'.sh = c.sh := by
  sorry

/-- the state byte only ever holds the documented values -/
theorem conn_state_values (hc : Contract progs) (c : Cfg Sh Th) (h : Reachable sys (initCfg progs) c)
    (k : Nat) (st : Storage) (hk : c.sh.mem[k]? = some st) :
    st.state = 0 ∨ st.state = SENDER ∨ st.state = RECEIVER ∨ st.state = SENDER + RECEIVER ∨ st.state = MARK := by
  sorry

/-- **outside the contract** (finding): a forced removal of a role that is not attached, racing
with the last regular detach, makes two parties destroy "the" connection by name — the second
removal hits a newer incarnation to which a port is attached -/
theorem conn_unchecked_removal_breaks :
    ∃ (progs : List (List Cmd)) (sched : List Nat),
      let c := (sys.run (initCfg progs) sched).1
      ∃ x ∈ c.sh.stateAtDestroy, x ≠ MARK := by
  sorry

/-- non-vacuity: receiver attaches to the sender's connection with a mismatching parameter while
the sender detaches; both incarnations are destroyed exactly once in state MARK -/
example :
    let progs := [[Cmd.create .sender 2, .drop .sender], [Cmd.create .receiver 3, .create .receiver 2, .drop .receiver]]
    let c := (sys.run (initCfg progs) (List.replicate 5 0 ++ List.replicate 4 1 ++ List.replicate 3 0 ++ List.replicate 30 1)).1
    c.sh.stateAtDestroy = [MARK, MARK] ∧ c.sh.destroyed = [0, 1] := by
  decide

end Iox2.C13
