/-
C04 (shared-memory level) — a process killed at ANY atomic step of a registry operation
(`Container::add` / `remove` / `recover` / `update_state`): survivors never observe corrupted or
invented entries, and after recovery the dead owner's entries are gone and its slots reusable.
Theorems about `Container.sys.withCrash` (Iox2/Base/Crash.lean); the C10 theorems only allow deaths
between operations.  The model includes the repair of the defect these statements exposed:
`recover`'s success hook no longer advances the generation of a slot whose dead owner never published
(`rvHookDist`, even generation).
-/
import Iox2.Base.Crash
import Iox2.Props.C10
namespace Iox2.Container.Crash
open Iox2.Sched Iox2.Container Iox2.C10

/-! ### vocabulary (part of the statements: do not change) -/

def csys : Sys Sh (CTh Th) :=
  sys.withCrash fun s t => { s with r := { s.r with deadOwners := t.owner :: s.r.deadOwners } }

def cinit (cap width : Nat) (owners : List Nat) (progs : List (List Cmd)) (fuses : List (Option Nat)) : Cfg Sh (CTh Th) :=
  let c := mkCfg cap width owners progs
  { sh := c.sh, th := (c.th.zip fuses).map fun (t, f) => { inner := t, fuse := f } }

def Live (t : CTh Th) : Prop := t.dead = false ∧ t.inner.dead = false

variable {cap width : Nat} {owners : List Nat} {progs : List (List Cmd)} {fuses : List (Option Nat)}

/-! ### theorems -/

/-- never torn, never invented, whatever dies wherever: every entry of every snapshot a refresh of a
(then) live reader returned is exactly what an `add` published (reached its publishing step) for that
slot at that generation -/
theorem crash_snapshot_entries_genuine (hwf : WF width owners progs) (hl : fuses.length = owners.length)
    (c : Cfg Sh (CTh Th)) (h : Reachable csys (cinit cap width owners progs fuses) c)
    (t : CTh Th) (ht : t ∈ c.th) (u : UpdateRec) (hu : u ∈ t.inner.updates)
    (e : Nat × Nat × List Nat) (he : e ∈ u.snap.entries) :
    (e.2.1, e.2.2) ∈ c.sh.published.getD e.1 [] := by
  sorry

/-- the invariant behind it (what the defect violated): a slot whose generation is odd ("contains data")
holds exactly a published entry -/
theorem crash_odd_generation_is_published (hwf : WF width owners progs) (hl : fuses.length = owners.length)
    (c : Cfg Sh (CTh Th)) (h : Reachable csys (cinit cap width owners progs fuses) c)
    (i : Nat) (hi : i < cap) (hodd : c.sh.egc.getD i 0 % 2 = 1) :
    (c.sh.egc.getD i 0, c.sh.data.getD i []) ∈ c.sh.published.getD i [] ∨
    -- … or a live thread is inside the write window of an `add` / the validation of a `remove` on that slot
    ∃ (j : Nat) (tj : CTh Th), c.th[j]? = some tj ∧ Live tj ∧ tj.inner.pc ≠ none := by
  sorry

/-- never ghost, also under crashes -/
theorem crash_snapshot_no_ghost (hwf : WF width owners progs) (hl : fuses.length = owners.length)
    (c : Cfg Sh (CTh Th)) (h : Reachable csys (cinit cap width owners progs fuses) c)
    (t : CTh Th) (ht : t ∈ c.th) (u : UpdateRec) (hu : u ∈ t.inner.updates)
    (r : Nat × Nat) (hr : r ∈ u.removedAtBegin) (v : List Nat) :
    (r.1, r.2, v) ∈ u.snap.entries → False := by
  sorry

/-- after recovery the dead owner is gone from the registry: when a survivor's recovery for the dead owner
`d` has finished its scan of the index set (`.ix (.rcFinal d) _`-phase: the inner index-set pc is `rcFinal d`),
no cell carries `d`, so none of its slots is registered any more once the recovery completes, and the slots
are free for new entries -/
theorem crash_recover_clears_owner (hwf : WF width owners progs) (hl : fuses.length = owners.length)
    (c : Cfg Sh (CTh Th)) (h : Reachable csys (cinit cap width owners progs fuses) c)
    (i : Nat) (t : CTh Th) (hi : c.th[i]? = some t) (hlv : Live t) (d : Nat) (m : RUIS.Mode)
    (hpc : t.inner.pc = some (.ix (.rcFinal d) (.recover d m))) :
    ∀ n : Nat, c.sh.r.cells[n]? ≠ some d := by
  sorry

/-- monotone counters under crashes -/
theorem crash_container_monotone (c c' : Cfg Sh (CTh Th)) (i : Nat) (evs : List Ev)
    (h : Reachable csys (cinit cap width owners progs fuses) c) (hs : csys.stepAt c i = some (c', evs)) :
    c.sh.change ≤ c'.sh.change ∧ ∀ k, c.sh.egc.getD k 0 ≤ c'.sh.egc.getD k 0 := by
  sorry

/-- the defect that was repaired, as a theorem about the OLD hook: with a success hook that advances the
generation unconditionally, a death inside `add` makes recovery publish a phantom.  Stated on the model
level as: in the repaired model the configuration below (owner 100 dies after claiming slot 0 in `add`,
owner 101 recovers it and refreshes) ends with an EMPTY snapshot. -/
example : ∃ (c : Cfg Sh (CTh Th)) (t1 : CTh Th) (u : UpdateRec),
    Reachable csys (cinit 2 2 [100, 101] [[.add [700, 701]], [.recover 100 .default, .update]] [some 5, none]) c ∧
    c.th[1]? = some t1 ∧ u ∈ t1.inner.updates ∧ u.snap.entries = [] ∧ c.sh.egc = [0, 0] := by
  sorry

end Iox2.Container.Crash
