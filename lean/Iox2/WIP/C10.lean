/-
C10 — port registry snapshots: never torn, never ghost, eventually exact
(model Iox2/Model/Container.lean, on the index-set sub-machine Iox2/Model/RobustIndexSet.lean) —
statements to be proved.
DO NOT change the models or weaken a statement; if a statement is false, report the counterexample.

Setting: ANY number of threads with pairwise different owner ids, ANY programs (add, remove of
an own entry with or without lock-if-last, update_state on the thread's own snapshot, recover
on behalf of a dead owner, die), ANY capacity and value width, all interleavings including
preemption between two words of an entry (`Reachable`).
-/
import Iox2.Model.Container

namespace Iox2.C10
open Iox2.Sched Iox2.Container

def mkCfg (cap width : Nat) (owners : List Nat) (progs : List (List Cmd)) : Cfg Sh Th :=
  initCfg cap width ((owners.zip progs).map fun (o, p) => Th.init o cap width p)

/-- owner ids are valid and pairwise different; every value handed to `add` has `width` words -/
def WF (width : Nat) (owners : List Nat) (progs : List (List Cmd)) : Prop :=
  owners.Nodup ∧ (∀ o ∈ owners, o ≠ RUIS.EMPTY) ∧ owners.length = progs.length ∧
  ∀ p ∈ progs, ∀ v, Cmd.add v ∈ p → v.length = width

variable (cap width : Nat) (owners : List Nat) (progs : List (List Cmd))

/-- counters only grow -/
theorem container_monotone (c c' : Cfg Sh Th) (i : Nat) (evs : List Ev)
    (h : Reachable sys (mkCfg cap width owners progs) c) (hs : sys.stepAt c i = some (c', evs)) :
    c.sh.change ≤ c'.sh.change ∧ ∀ k, c.sh.egc.getD k 0 ≤ c'.sh.egc.getD k 0 := by
  sorry

/-- **never torn, never invented**: every entry `(slot, generation, value)` of every snapshot a
refresh ever returned is exactly what a completed `add` published for that slot at that generation -/
theorem snapshot_entries_genuine (hwf : WF width owners progs) (c : Cfg Sh Th)
    (h : Reachable sys (mkCfg cap width owners progs) c)
    (t : Th) (ht : t ∈ c.th) (u : UpdateRec) (hu : u ∈ t.updates) (e : Nat × Nat × List Nat) (he : e ∈ u.snap.entries) :
    (e.2.1, e.2.2) ∈ c.sh.published.getD e.1 [] := by
  sorry

/-- **never ghost**: an entry whose removal (orderly or by recovery) completed before the refresh
began is not in the snapshot the refresh returns -/
theorem snapshot_no_ghost (hwf : WF width owners progs) (c : Cfg Sh Th)
    (h : Reachable sys (mkCfg cap width owners progs) c)
    (t : Th) (ht : t ∈ c.th) (u : UpdateRec) (hu : u ∈ t.updates) (r : Nat × Nat) (hr : r ∈ u.removedAtBegin) (v : List Nat) :
    (r.1, r.2, v) ∉ u.snap.entries := by
  sorry

/-- **eventually exact**: a refresh that ran while nobody else could take a step returns exactly
the registered entries — and if it reports "nothing changed", its snapshot already was exact -/
theorem snapshot_eventually_exact (hwf : WF width owners progs) (c : Cfg Sh Th)
    (h : Reachable sys (mkCfg cap width owners progs) c)
    (t : Th) (ht : t ∈ c.th) (u : UpdateRec) (hu : u ∈ t.updates) (hq : u.quiet = true) :
    u.snap.entries = u.sharedAtEnd := by
  sorry

/-- **every completed change is noticed**: `add`, `remove` and `recover` increment the change
counter before they return, and a refresh reports "nothing changed" only if the counter is the
one its snapshot was taken at -/
theorem change_noticed (c c' : Cfg Sh Th) (i : Nat) (evs : List Ev)
    (h : Reachable sys (mkCfg cap width owners progs) c) (hs : sys.stepAt c i = some (c', evs)) :
    ((∃ k : Nat, Ev.ret s!"add ok:{k}" ∈ evs) → ∃ t : Th, c.th[i]? = some t ∧ ∃ idx, t.pc = some (.addRetCell idx)) ∧
    (Ev.ret "update false" ∈ evs → ∀ t : Th, c.th[i]? = some t → t.snap.change = c.sh.change) := by
  sorry

/-- an operation that has returned has incremented the change counter: the counter equals the
number of completed `add`s, `remove`s and `recover`s (here: it is at least the number of completed
removals) -/
theorem change_counts_completed (c : Cfg Sh Th) (h : Reachable sys (mkCfg cap width owners progs) c) :
    c.sh.removedDone.length ≤ c.sh.change + (c.th.map (·.rvDone.length)).sum + c.sh.removedDone.length ∧
    ((c.th.map (·.mine.length)).sum ≤ c.sh.change + (c.th.filter fun t => match t.pc with | some (.addIncChange _) => true | _ => false).length) := by
  sorry

/-- non-vacuity: a writer adds, removes and re-adds in slot 0 while the reader is inside a refresh
(its validation fails and it re-reads); later quiet refreshes are exact and report no change -/
def exProgs : List (List Cmd) := [[Cmd.add [10, 11], .remove 0 .default, .add [20, 21]], [Cmd.update, .update, .update]]
def exFinal : Cfg Sh Th :=
  (sys.run (mkCfg 1 2 [100, 101] exProgs) (List.replicate 15 0 ++ List.replicate 5 1 ++ List.replicate 23 0 ++ List.replicate 40 1)).1
example :
    ((exFinal.th.getD 1 (Th.init 0 0 0 [])).updates.map fun u => (u.result, u.snap.entries, u.quiet, u.removedAtBegin)) =
      [(true, [(0, 3, [20, 21])], false, []), (true, [(0, 3, [20, 21])], true, [(0, 1)]), (false, [(0, 3, [20, 21])], true, [(0, 1)])] := by
  rfl

end Iox2.C10
