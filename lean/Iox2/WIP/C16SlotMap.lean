/-
C16 / SlotMap + FlatMap — statements to be proved.  DO NOT change the models
(Iox2/Model/SlotMap.lean, Iox2/Model/FlatMap.lean) or weaken a statement; if a statement is
false, report the counterexample instead.  `Inv` below is a *suggestion* of the representation
invariant: strengthen it as needed (it must hold for `init cap` and be preserved by `step`).
-/
import Iox2.Model.SlotMap
import Iox2.Model.FlatMap

namespace Iox2.C16.SlotMapP
open Iox2 Iox2.SlotMap

variable {α : Type}

/-- abstraction: the partial map key ⇀ value -/
def abs (s : St α) (k : Nat) : Option α :=
  match s.idxToData.getD k none with
  | none => none
  | some di => s.data.getD di none

/-- the keys reachable from `head` through `next`, with fuel -/
def freeChain (fl : List Entry) : Nat → Option Nat → List Nat
  | 0, _ => []
  | _, none => []
  | fuel+1, some i => i :: freeChain fl fuel ((fl.getD i default).next)

/-- representation invariant (to be completed / strengthened by the prover) -/
structure Inv (s : St α) : Prop where
  lenIdx   : s.idxToData.length = s.cap
  lenFree  : s.freeList.length = s.cap
  lenData  : s.data.length = s.cap
  /-- the free chain lists exactly the unused keys, each once -/
  chainNodup : (freeChain s.freeList (s.cap + 1) s.head).Nodup
  chainFree  : ∀ k, k ∈ freeChain s.freeList (s.cap + 1) s.head ↔ (k < s.cap ∧ s.idxToData.getD k none = none)
  /-- back links are consistent with forward links -/
  prevOk : ∀ k ∈ freeChain s.freeList (s.cap + 1) s.head, ∀ n, (s.freeList.getD k default).next = some n →
            (s.freeList.getD n default).prev = some k
  headPrev : ∀ h, s.head = some h → (s.freeList.getD h default).prev = none
  /-- used keys map injectively to occupied data slots -/
  dataOk : ∀ k di, s.idxToData.getD k none = some di → di < s.cap ∧ (s.data.getD di none).isSome = true
  dataInj : ∀ k1 k2 di, s.idxToData.getD k1 none = some di → s.idxToData.getD k2 none = some di → k1 = k2
  /-- the data-slot queue holds exactly the unoccupied data slots, each once -/
  dfNodup : s.dataFree.Nodup
  dfFree : ∀ di, di ∈ s.dataFree ↔ (di < s.cap ∧ ∀ k, s.idxToData.getD k none ≠ some di)
  lenOk : s.len = ((List.range s.cap).filter fun k => (s.idxToData.getD k none).isSome).length

theorem inv_init (cap : Nat) : Inv (init (α := α) cap) := by
  sorry

theorem abs_init (cap k : Nat) : abs (init (α := α) cap) k = none := by
  sorry

/-- no operation on a well-formed slot map panics, and the invariant is preserved -/
theorem step_inv (s : St α) (op : Op α) (h : Inv s) :
    Inv (step s op).1 ∧ (step s op).1.cap = s.cap ∧ (step s op).2.1 ≠ .panic := by
  sorry

/-- **refinement to the partial map**, one theorem per operation -/
theorem insert_spec (s : St α) (e : α) (h : Inv s) :
    (∃ k, (step s (.insert e)).2.1 = .key k ∧ k < s.cap ∧ abs s k = none ∧ s.head = some k ∧
          (∀ k', abs (step s (.insert e)).1 k' = if k' = k then some e else abs s k') ∧
          (step s (.insert e)).2.2 = []) ∨
    ((step s (.insert e)).2.1 = .none ∧ (∀ k, k < s.cap → (abs s k).isSome = true) ∧
          (step s (.insert e)).1 = s ∧ (step s (.insert e)).2.2 = [e]) := by
  sorry

theorem insertAt_spec (s : St α) (k : Nat) (e : α) (h : Inv s) :
    (k < s.cap → (step s (.insertAt k e)).2.1 = .tt ∧
        (∀ k', abs (step s (.insertAt k e)).1 k' = if k' = k then some e else abs s k') ∧
        (step s (.insertAt k e)).2.2 = (abs s k).toList) ∧
    (s.cap ≤ k → (step s (.insertAt k e)).2.1 = .ff ∧ (step s (.insertAt k e)).1 = s ∧
        (step s (.insertAt k e)).2.2 = [e]) := by
  sorry

theorem remove_spec (s : St α) (k : Nat) (h : Inv s) :
    (step s (.remove k)).2.1 = (match abs s k with | some e => .some e | none => .none) ∧
    (∀ k', abs (step s (.remove k)).1 k' = if k' = k then none else abs s k') ∧
    (step s (.remove k)).2.2 = [] ∧
    (abs s k = none → (step s (.remove k)).1 = s) := by
  sorry

theorem get_spec (s : St α) (k : Nat) (h : Inv s) :
    (step s (.get k)).2.1 = (match abs s k with | some e => .some e | none => .none) ∧ (step s (.get k)).1 = s := by
  sorry

theorem contains_spec (s : St α) (k : Nat) (h : Inv s) :
    (step s (.contains k)).2.1 = (if (abs s k).isSome then .tt else .ff) ∧ (step s (.contains k)).1 = s := by
  sorry

/-- `len` is the number of stored entries; full ⇔ no insert possible -/
theorem len_spec (s : St α) (h : Inv s) :
    s.len = ((List.range s.cap).filter fun k => (abs s k).isSome).length ∧ s.len ≤ s.cap := by
  sorry

/-- iteration (`items`) lists exactly the graph of the partial map, in key order -/
theorem items_spec (s : St α) (h : Inv s) :
    items s = (List.range s.cap).filterMap fun k => (abs s k).map fun e => (k, e) := by
  sorry

/-- every reachable state is well-formed: all capacities, all operation sequences -/
def run (s : St α) : List (Op α) → St α
  | [] => s
  | op :: ops => run (step s op).1 ops

theorem reachable_inv (cap : Nat) (ops : List (Op α)) : Inv (run (init cap) ops) := by
  sorry

end Iox2.C16.SlotMapP

namespace Iox2.C16.FlatMapP
open Iox2 Iox2.FlatMap
open Iox2.Vec (Elem)

/-- abstraction of the flat map: association from user key to value (first match in slot order) -/
def lookup (s : FSt) (k : Nat) : Option Elem := (find s.m k).map (·.2.value)

/-- invariant: the slot map is well-formed and user keys are unique -/
def Inv (s : FSt) : Prop :=
  Iox2.C16.SlotMapP.Inv s.m ∧ ((SlotMap.items s.m).map (·.2.key)).Nodup

theorem inv_init (cap : Nat) : Inv (init cap) := by
  sorry

theorem step_inv (s : FSt) (op : Op) (h : Inv s) : Inv (step s op).1 ∧ (step s op).2.1 ≠ .panic := by
  sorry

theorem insert_spec (s : FSt) (k : Nat) (e : Elem) (h : Inv s) :
    ((lookup s k).isSome = true → (step s (.insert k e)).2.1 = .errExists ∧ (step s (.insert k e)).1 = s ∧
        (step s (.insert k e)).2.2 = [e.id]) ∧
    (lookup s k = none → s.m.len = s.m.cap → (step s (.insert k e)).2.1 = .errFull ∧
        (∀ k', lookup (step s (.insert k e)).1 k' = lookup s k') ∧ (step s (.insert k e)).2.2 = [e.id]) ∧
    (lookup s k = none → s.m.len < s.m.cap → (step s (.insert k e)).2.1 = .ok ∧
        (∀ k', lookup (step s (.insert k e)).1 k' = if k' = k then some e else lookup s k') ∧
        (step s (.insert k e)).2.2 = []) := by
  sorry

theorem remove_spec (s : FSt) (k : Nat) (h : Inv s) :
    (step s (.remove k)).2.1 = (match lookup s k with | some e => .some e | none => .none) ∧
    (∀ k', lookup (step s (.remove k)).1 k' = if k' = k then none else lookup s k') ∧
    (step s (.remove k)).2.2 = [] := by
  sorry

theorem getRef_spec (s : FSt) (k : Nat) :
    (step s (.getRef k)).2.1 = (match lookup s k with | some e => .some e | none => .none) ∧
    (step s (.getRef k)).1 = s := by
  sorry

theorem contains_spec (s : FSt) (k : Nat) :
    (step s (.contains k)).2.1 = (if (lookup s k).isSome then .tt else .ff) ∧ (step s (.contains k)).1 = s := by
  sorry

end Iox2.C16.FlatMapP
